(* C07 for EVERY session (top-down, bottom-up, mixed; completed or aborted): no task starts executing while it is executing.
   "Cyclic requirements are detected instead of recursing" -- here for the bottom-up context too, where the execution stack is
   not a chain of require edges (a scheduled task is pulled out of the queue because the required task transitively depends on it).

   Idea: an ANCHOR a (the task in progress: executing, or being validated) and its ancestors in the dependency graph are
   protected -- their outgoing adjacency only grows, and none of them is started -- because every task that is started
   is reached FROM the anchor (through the reserved require edge, recorded edges, or the transitive dependency that selected it
   from the queue), and the graph is acyclic.  Every open execution is the anchor or an ancestor of it. *)
From Coq Require Import List NArith ZArith Bool Lia Permutation.
From PieV Require Import Model.Dag Model.Build Proofs.DagLib Proofs.DagWF Proofs.DagPath Proofs.DagQueries Proofs.StoreInv
  Proofs.Sorting Proofs.Effects Proofs.Inv Proofs.History Proofs.ExecInv Proofs.NoBug4 Proofs.NoBug4All Proofs.Trace Proofs.BuJust Proofs.BuOnce.
Import ListNotations.
Open Scope N_scope.

(* ---- the trace property ---- *)
(* open executions of a newest-first stream *)
Fixpoint opens (tr : list event) : list task :=
  match tr with
  | [] => []
  | EExecStart t :: r => t :: opens r
  | EExecEnd t _ :: r => removeN t (opens r)
  | _ :: r => opens r
  end.
(* whenever a task starts, it is not open *)
Fixpoint NN (tr : list event) : Prop :=
  match tr with
  | [] => True
  | EExecStart t :: r => ~ In t (opens r) /\ NN r
  | _ :: r => NN r
  end.

Definition ev3 (e : event) : bool := match e with EExecStart _ | EExecEnd _ _ => false | _ => true end.
Lemma opens_ev3 e r : ev3 e = true -> opens (e :: r) = opens r. Proof. destruct e; cbn; congruence. Qed.
Lemma NN_ev3 e r : ev3 e = true -> (NN (e :: r) <-> NN r). Proof. destruct e; cbn; try congruence; tauto. Qed.
Lemma opens_app3 s r : Forall (fun e => ev3 e = true) s -> opens (s ++ r) = opens r.
Proof. induction 1 as [|e s He _ IH]; cbn [app]; [reflexivity|rewrite (opens_ev3 e _ He); exact IH]. Qed.
Lemma NN_app3 s r : Forall (fun e => ev3 e = true) s -> NN r -> NN (s ++ r).
Proof. induction 1 as [|e s He _ IH]; cbn [app]; intros H; [exact H|apply (NN_ev3 e _ He); apply IH; exact H]. Qed.
Lemma removeN_notin t l : ~ In t l -> removeN t l = l.
Proof.
  unfold removeN. induction l as [|x l IH]; cbn; intros N; [reflexivity|].
  destruct (N.eqb_spec t x); [subst; exfalso; apply N; left; reflexivity|]. cbn. f_equal. apply IH. intros X. apply N. right. exact X.
Qed.

(* ---- protection of the anchor's ancestors ---- *)
Definition Anc (g : dag dep) (c : task) (n : node) : Prop := n = tn c \/ path g n (tn c).
Definition Frame (c : task) (w w' : world) : Prop :=
  forall n, Anc (gr w) c n -> forall x, In x (kids_of (gr w) n) -> In x (kids_of (gr w') n).
Definition FrameO (a : option task) (w w' : world) : Prop := match a with None => True | Some c => Frame c w w' end.

Lemma path_pres (g g' : dag dep) v :
  (forall n, path g n v -> forall x, In x (kids_of g n) -> In x (kids_of g' n)) -> forall u, path g u v -> path g' u v.
Proof.
  intros H u Pth. induction Pth as [u v X|u y v X Pth IH].
  - apply path1. apply (H u); [apply path1; exact X|exact X].
  - eapply pathS; [apply (H u); [eapply pathS; eassumption|exact X]|]. apply IH. exact H.
Qed.
Lemma anc_pres c w w' n : Frame c w w' -> Anc (gr w) c n -> Anc (gr w') c n.
Proof. intros F [->|Pth]; [left; reflexivity|right]. apply (path_pres (gr w)); [intros m Hm; apply F; right; exact Hm|exact Pth]. Qed.
Lemma Frame_refl c w : Frame c w w. Proof. intros n _ x X. exact X. Qed.
Lemma Frame_trans c w1 w2 w3 : Frame c w1 w2 -> Frame c w2 w3 -> Frame c w1 w3.
Proof. intros F1 F2 n A x X. apply F2; [eapply anc_pres; eassumption|apply F1; assumption]. Qed.
Lemma FrameO_refl a w : FrameO a w w. Proof. destruct a; [apply Frame_refl|exact Logic.I]. Qed.
Lemma FrameO_trans a w1 w2 w3 : FrameO a w1 w2 -> FrameO a w2 w3 -> FrameO a w1 w3.
Proof. destruct a; [apply Frame_trans|trivial]. Qed.
(* all adjacency lists grow *)
Definition kgrow (w w' : world) : Prop := forall n x, In x (kids_of (gr w) n) -> In x (kids_of (gr w') n).
Lemma kgrow_FrameO a w w' : kgrow w w' -> FrameO a w w'.
Proof. intros K. destruct a; [intros n _ x X; apply K; exact X|exact Logic.I]. Qed.
(* a stronger anchor t (reached from a) protects more *)
Lemma Frame_weaken c t w w' : path (gr w) (tn c) (tn t) -> Frame t w w' -> Frame c w w'.
Proof.
  intros Pth F n A x X. apply F; [|exact X]. right. destruct A as [->|A]; [exact Pth|eapply path_trans; eassumption].
Qed.
Definition reach (a : option task) (w : world) (t : task) : Prop := forall c, a = Some c -> path (gr w) (tn c) (tn t).
Lemma FrameO_weaken a t w w' : reach a w t -> Frame t w w' -> FrameO a w w'.
Proof. intros R F. destruct a as [c|]; [eapply Frame_weaken; [apply R; reflexivity|exact F]|exact Logic.I]. Qed.

(* every open execution is the anchor or one of its ancestors *)
Definition OI (a : option task) (w : world) : Prop :=
  match a with
  | None => opens (trace w) = []
  | Some c => forall x, In x (opens (trace w)) -> Anc (gr w) c (tn x)
  end.
Definition Pre (a : option task) (w : world) : Prop := L w /\ OI a w /\ NN (trace w).

Definition okN {A} (a : option task) (w : world) (m : outcome A) : Prop :=
  match m with
  | Done _ w' => cur w' = cur w /\ FrameO a w w' /\ opens (trace w') = opens (trace w) /\ NN (trace w')
  | Abort _ w' => NN (trace w')
  | OutOfFuel => True
  end.

Lemma OI_pres a w w' : OI a w -> FrameO a w w' -> opens (trace w') = opens (trace w) -> OI a w'.
Proof.
  destruct a as [c|]; cbn; intros H F O.
  - intros x X. rewrite O in X. eapply anc_pres; [exact F|apply H; exact X].
  - rewrite O. exact H.
Qed.
Lemma OI_strengthen a t w : OI a w -> reach a w t -> OI (Some t) w.
Proof.
  intros H R. destruct a as [c|]; cbn in *.
  - intros x X. right. destruct (H x X) as [E|Pth]; [rewrite E; apply R; reflexivity|eapply path_trans; [exact Pth|apply R; reflexivity]].
  - intros x X. rewrite H in X. destruct X.
Qed.

Lemma bind_N {A B} a w (m : outcome A) (f : A -> world -> outcome B) :
  Pre a w -> okR w m -> okN a w m ->
  (forall x w1, Pre a w1 -> cur w1 = cur w -> okN a w1 (f x w1)) -> okN a w (bind m f).
Proof.
  intros [HL [HO HN]] R N F. destruct m as [x w1|k w1|]; cbn [bind]; [|exact N|exact Logic.I].
  destruct R as [L1 _]. destruct N as [C1 [F1 [O1 N1]]].
  assert (P1 : Pre a w1) by (split; [exact L1|split; [eapply OI_pres; eassumption|exact N1]]).
  specialize (F x w1 P1 C1). destruct (f x w1) as [y w2|k w2|]; cbn in *; [|exact F|exact Logic.I].
  destruct F as [C2 [F2 [O2 N2]]]. split; [congruence|]. split; [eapply FrameO_trans; eassumption|]. split; [congruence|exact N2].
Qed.

(* ---- quiet steps: events other than execution start / end, adjacency grows, cur unchanged ---- *)
Definition q3 (w w' : world) : Prop :=
  (exists s, trace w' = s ++ trace w /\ Forall (fun e => ev3 e = true) s) /\ kgrow w w' /\ cur w' = cur w.
Lemma q3_refl w : q3 w w.
Proof. split; [exists []; split; [reflexivity|constructor]|split; [intros n x X; exact X|reflexivity]]. Qed.
Lemma q3_trans a b c : q3 a b -> q3 b c -> q3 a c.
Proof.
  intros [[s1 [T1 F1]] [K1 C1]] [[s2 [T2 F2]] [K2 C2]]. split; [|split; [intros n x X; apply K2, K1, X|congruence]].
  exists (s2 ++ s1). split; [rewrite T2, T1, app_assoc; reflexivity|apply Forall_app; split; assumption].
Qed.
Lemma q3_same w w' : trace w' = trace w -> gr w' = gr w -> cur w' = cur w -> q3 w w'.
Proof. intros T G C. split; [exists []; split; [exact T|constructor]|split; [intros n x X; rewrite G; exact X|exact C]]. Qed.
Lemma q3_emit w e : ev3 e = true -> q3 w (emit w e).
Proof. intros H. split; [exists [e]; split; [reflexivity|constructor; [exact H|constructor]]|split; [intros n x X; exact X|reflexivity]]. Qed.
Lemma q3_okN {A} a w w' (x : A) : q3 w w' -> NN (trace w) -> okN a w (Done x w').
Proof.
  intros [[s [T F]] [K C]] HN. cbn. split; [exact C|]. split; [apply kgrow_FrameO; exact K|].
  split; [rewrite T; apply opens_app3; exact F|rewrite T; apply NN_app3; assumption].
Qed.
Lemma q3_okN_abort {A} a w w' k : q3 w w' -> NN (trace w) -> okN a w (@Abort A k w').
Proof. intros [[s [T F]] _] HN. cbn. rewrite T. apply NN_app3; assumption. Qed.
Lemma q3_Pre a w w' : q3 w w' -> L w' -> Pre a w -> Pre a w'.
Proof.
  intros [[s [T F]] [K C]] L' [_ [HO HN]]. split; [exact L'|]. split.
  - eapply OI_pres; [exact HO|apply kgrow_FrameO; exact K|rewrite T; apply opens_app3; exact F].
  - rewrite T. apply NN_app3; assumption.
Qed.
Definition q3O {A} (w : world) (m : outcome A) : Prop := match m with Done _ w' | Abort _ w' => q3 w w' | OutOfFuel => True end.
Lemma q3O_okN {A} a w (m : outcome A) : q3O w m -> NN (trace w) -> okN a w m.
Proof. destruct m; cbn [q3O]; intros Q H; [eapply q3_okN; eassumption|eapply q3_okN_abort; eassumption|exact Logic.I]. Qed.

Lemma ev3_of_plain2 s : Forall (fun e => plain2 e = true) s -> Forall (fun e => ev3 e = true) s.
Proof. apply Forall_impl. intros e. destruct e; cbn; congruence. Qed.

Lemma q3_goc_task w t : q3 w (get_or_create_task_node w t).
Proof.
  unfold get_or_create_task_node. destruct (live (gr w) (tn t)) eqn:E; [apply q3_refl|].
  split; [exists []; split; [reflexivity|constructor]|split; [|reflexivity]].
  intros n x X. cbn. rewrite (proj1 (add_node_same (gr w) (tn t) E)). exact X.
Qed.
Lemma q3_goc_res w r : q3 w (get_or_create_resource_node w r).
Proof.
  unfold get_or_create_resource_node. destruct (live (gr w) (rn r)) eqn:E; [apply q3_refl|].
  split; [exists []; split; [reflexivity|constructor]|split; [|reflexivity]].
  intros n x X. cbn. rewrite (proj1 (add_node_same (gr w) (rn r) E)). exact X.
Qed.
Lemma q3_add_dependency w s d dp : WF (gr w) -> q3 w (snd (add_dependency w s d dp)).
Proof.
  intros W. destruct (add_dependency_grows w s d dp W) as [G1 [G2 _]]. destruct (add_dependency_cq w s d dp) as [C _].
  split; [exists []; split; [apply trace_add_dependency|constructor]|split; [|exact C]].
  intros n x X. destruct (N.eq_dec n s) as [->|Hn]; [apply G2; exact X|rewrite (G1 n Hn); exact X].
Qed.

Section NR.
Variable RC : rcid -> rchecker.
Variable OC : ocid -> ochecker.
Variable P : task -> prog.

(* leaf operations of the executing task: Leaf gives the graph part, quiet2 the event part *)
Lemma leaf_q3 {A} t w (m : outcome A) : leafO t w m -> notB4 m -> quiet2O w m -> q3O w m.
Proof.
  intros LF NB Q. destruct m as [x w'|k w'|]; cbn in *; [| |exact Logic.I].
  - destruct Q as [[s [T F]] _]. split; [exists s; split; [exact T|apply ev3_of_plain2; exact F]|]. split; [|apply LF].
    destruct (lf_grows _ _ _ LF) as [G1 [G2 _]]. intros n y Y. destruct (N.eq_dec n (tn t)) as [->|Hn]; [apply G2; exact Y|rewrite (G1 n Hn); exact Y].
  - destruct LF as [->|[_ LF]]; [exfalso; apply (NB w'); reflexivity|].
    destruct Q as [[s [T F]] _]. split; [exists s; split; [exact T|apply ev3_of_plain2; exact F]|]. split; [|apply LF].
    destruct (lf_grows _ _ _ LF) as [G1 [G2 _]]. intros n y Y. destruct (N.eq_dec n (tn t)) as [->|Hn]; [apply G2; exact Y|rewrite (G1 n Hn); exact Y].
Qed.

Lemma sess_read_q3 w r c : L w -> q3O w (sess_read RC w r c).
Proof.
  intros HL. destruct (cur w) as [t|] eqn:Hc.
  - apply (leaf_q3 t); [apply sess_read_leaf; [apply HL|exact Hc]|apply (sess_read_NB RC w t); [apply HL|exact Hc|apply (proj1 (proj2 HL)); exact Hc]|apply sess_read_quiet2].
  - unfold sess_read. rewrite Hc. apply q3_refl.
Qed.
Lemma sess_write_q3 w r c v : L w -> q3O w (sess_write RC w r c v).
Proof.
  intros HL. destruct (cur w) as [t|] eqn:Hc.
  - apply (leaf_q3 t); [apply sess_write_leaf; [apply HL|exact Hc]|apply (sess_write_NB RC w t); [apply HL|exact Hc|apply (proj1 (proj2 HL)); exact Hc]|apply sess_write_quiet2].
  - unfold sess_write. rewrite Hc. cbn. apply q3_same; destruct v; reflexivity.
Qed.
Lemma sess_written_to_q3 w r c v : L w -> q3O w (sess_written_to RC w r c v).
Proof.
  intros HL. destruct (cur w) as [t|] eqn:Hc.
  - apply (leaf_q3 t); [apply sess_written_to_leaf; [apply HL|exact Hc]|apply (sess_written_to_NB RC w t); [apply HL|exact Hc|apply (proj1 (proj2 HL)); exact Hc]|apply sess_written_to_quiet2].
  - unfold sess_written_to. assert (X : cur (set_content w r v) = None) by (destruct v; exact Hc). rewrite X. cbn. apply q3_same; destruct v; reflexivity.
Qed.
Lemma reserve_q3 w t : L w -> q3O w (reserve_require_dependency w t).
Proof.
  intros HL. unfold reserve_require_dependency. destruct (cur w) as [s|]; [|apply q3_refl].
  pose proof (q3_add_dependency w (tn s) (tn t) DReserved (proj1 (proj1 HL))) as Q. destruct (add_dependency _ _ _ _) as [[| |] w']; exact Q.
Qed.
Lemma update_q3 w t c st : q3O w (update_require_dependency w t c st).
Proof.
  unfold update_require_dependency. destruct (cur w) as [s|]; [|apply q3_refl].
  destruct (get_edata _ _ _); [|apply q3_refl]. cbn. split; [exists []; split; [reflexivity|constructor]|split; [intros n x X; exact X|reflexivity]].
Qed.

(* ---- the interpreters ---- *)
Definition NREQ (req : world -> task -> ocid -> outcome Z) : Prop :=
  (forall w t c, L w -> okR w (req w t c)) /\ (forall w t c, Pre (cur w) w -> okN (cur w) w (req w t c)).
Definition NMC (mc : world -> task -> outcome Z) : Prop :=
  (forall w t, L w -> live (gr w) (tn t) = true -> okR w (mc w t)) /\
  (forall a w t, Pre a w -> live (gr w) (tn t) = true -> reach a w t -> okN a w (mc w t)).

Lemma exec_prog_N req : NREQ req -> forall p w, Pre (cur w) w -> okN (cur w) w (exec_prog RC OC req p w).
Proof.
  intros [HreqR HreqN]. induction p as [o| |t c k IH|r c k IH|r c v k IH|r c v k IH]; intros w Hw; cbn [exec_prog].
  - apply q3_okN; [apply q3_refl|apply Hw].
  - apply Hw.
  - apply bind_N; [exact Hw|apply HreqR; apply Hw|apply HreqN; exact Hw|]. intros o w1 P1 C1. rewrite <- C1. apply IH. rewrite C1. exact P1.
  - apply bind_N; [exact Hw|apply sess_read_R; apply Hw|apply q3O_okN; [apply sess_read_q3; apply Hw|apply Hw]|].
    intros o w1 P1 C1. rewrite <- C1. apply IH. rewrite C1. exact P1.
  - apply bind_N; [exact Hw|apply sess_write_R; apply Hw|apply q3O_okN; [apply sess_write_q3; apply Hw|apply Hw]|].
    intros o w1 P1 C1. rewrite <- C1. apply IH. rewrite C1. exact P1.
  - apply bind_N; [exact Hw|apply sess_written_to_R; apply Hw|apply q3O_okN; [apply sess_written_to_q3; apply Hw|apply Hw]|].
    intros o w1 P1 C1. rewrite <- C1. apply IH. rewrite C1. exact P1.
Qed.

(* paths into t survive the reset of t (acyclicity) *)
Lemma path_reset (g : dag dep) t u : WF g -> path g u t -> path (snd (remove_outgoing g t)) u t.
Proof.
  intros W Pth. apply (path_pres g); [|exact Pth]. intros n Pn x X.
  assert (Hnt : n <> t) by (intros ->; exact (WF_acyclic g t W Pn)).
  rewrite (proj1 (remove_outgoing_other g t W) n Hnt). exact X.
Qed.

Lemma reach_acyclic a w t : StoreOK w -> OI a w -> reach a w t -> ~ In t (opens (trace w)).
Proof.
  intros [W _] HO R X. destruct a as [c|]; unfold OI in HO; [|rewrite HO in X; exact X].
  specialize (R c eq_refl). apply (WF_acyclic (gr w) (tn t) W). destruct (HO t X) as [E|Pth].
  - replace (tn t) with (tn c) at 1 by (symmetry; exact E). exact R.
  - eapply path_trans; eassumption.
Qed.

(* execute: t is reached from the anchor, hence neither the anchor nor one of its ancestors, hence not open *)
Lemma execute_with_N req a w t : NREQ req -> Pre a w -> live (gr w) (tn t) = true -> reach a w t ->
  okN a w (execute_with RC OC P req w t).
Proof.
  intros Hreq [HL [HO HN]] Lt R. unfold execute_with.
  assert (Hnot : ~ In t (opens (trace w))) by (apply (reach_acyclic a); [apply HL|exact HO|exact R]).
  destruct (reset_task_facts w t (proj1 HL)) as [R1 [R2 [R3 [R4 [_ [R6 _]]]]]].
  set (w2 := emit (set_cur (reset_task w t) (Some t)) (EExecStart t)).
  assert (W : WF (gr w)) by apply HL.
  (* paths into t survive *)
  assert (PR : forall u, path (gr w) u (tn t) -> path (gr w2) u (tn t)).
  { intros u Pu. apply (path_pres (gr w)); [|exact Pu]. intros n Pn x X.
    assert (Hn : n <> tn t) by (intros ->; exact (WF_acyclic (gr w) (tn t) W Pn)). change (In x (kids_of (gr (reset_task w t)) n)). rewrite (R2 n Hn). exact X. }
  assert (L2 : L w2).
  { split; [exact R1|]. split; [intros x X; cbn in X; inversion X; subst x; apply R3; exact Lt|intros x X; apply R3; apply (proj2 (proj2 HL)); exact X]. }
  assert (P2 : Pre (Some t) w2).
  { split; [exact L2|]. split.
    - intros x X. change (In x (t :: opens (trace (reset_task w t)))) in X. rewrite R4 in X. destruct X as [<-|X]; [left; reflexivity|right].
      apply PR. destruct a as [c|]; unfold OI in HO; [|rewrite HO in X; destruct X].
      destruct (HO x X) as [E|Pth]; [replace (tn x) with (tn c) by (symmetry; exact E); apply R; reflexivity|eapply path_trans; [exact Pth|apply R; reflexivity]].
    - change (~ In t (opens (trace (reset_task w t))) /\ NN (trace (reset_task w t))). rewrite R4. split; assumption. }
  pose proof (exec_prog_N req Hreq (P t) w2 P2) as XN.
  pose proof (exec_prog_R RC OC req (proj1 Hreq) (P t) w2 L2) as XR.
  change (cur w2) with (Some t) in XN.
  destruct (exec_prog RC OC req (P t) w2) as [o w3|k w3|]; cbn [bind okN] in *; [|exact XN|exact Logic.I].
  destruct XN as [C3 [F3 [O3 N3]]].
  split; [cbn; exact R6|]. split; [|split].
  - (* the anchor's ancestors: untouched by the reset of t, then protected as ancestors of t *)
    destruct a as [c|]; [|exact Logic.I]. specialize (R c eq_refl). intros n A x X.
    assert (Hn : n <> tn t).
    { intros ->. apply (WF_acyclic (gr w) (tn t) W). destruct A as [E|Pth]; [replace (tn t) with (tn c) at 1 by (symmetry; exact E); exact R|eapply path_trans; eassumption]. }
    change (In x (kids_of (gr w3) n)). apply F3.
    + right. apply PR. destruct A as [->|Pth]; [exact R|eapply path_trans; eassumption].
    + change (In x (kids_of (gr (reset_task w t)) n)). rewrite (R2 n Hn). exact X.
  - change (removeN t (opens (trace w3)) = opens (trace w)). rewrite O3.
    change (removeN t (t :: opens (trace (reset_task w t))) = opens (trace w)). rewrite R4.
    unfold removeN. cbn [filter]. rewrite N.eqb_refl. cbn [negb]. apply removeN_notin. exact Hnot.
  - exact N3.
Qed.

Lemma exec_start_facts a w t : Pre a w -> live (gr w) (tn t) = true -> reach a w t ->
  ~ In t (opens (trace w)) /\ Pre (Some t) (emit (set_cur (reset_task w t) (Some t)) (EExecStart t)) /\
  (forall u, path (gr w) u (tn t) -> path (gr (reset_task w t)) u (tn t)).
Proof.
  intros [HL [HO HN]] Lt R.
  assert (Hnot : ~ In t (opens (trace w))) by (apply (reach_acyclic a); [apply HL|exact HO|exact R]).
  destruct (reset_task_facts w t (proj1 HL)) as [R1 [R2 [R3 [R4 [_ [R6 _]]]]]].
  set (w2 := emit (set_cur (reset_task w t) (Some t)) (EExecStart t)).
  assert (W : WF (gr w)) by apply HL.
  assert (PR : forall u, path (gr w) u (tn t) -> path (gr w2) u (tn t)).
  { intros u Pu. apply (path_pres (gr w)); [|exact Pu]. intros n Pn x X.
    assert (Hn : n <> tn t) by (intros ->; exact (WF_acyclic (gr w) (tn t) W Pn)). change (In x (kids_of (gr (reset_task w t)) n)). rewrite (R2 n Hn). exact X. }
  split; [exact Hnot|]. split; [|exact PR].
  assert (L2 : L w2).
  { split; [exact R1|]. split; [intros x X; cbn in X; inversion X; subst x; apply R3; exact Lt|intros x X; apply R3; apply (proj2 (proj2 HL)); exact X]. }
  split; [exact L2|]. split.
  - intros x X. change (In x (t :: opens (trace (reset_task w t)))) in X. rewrite R4 in X. destruct X as [<-|X]; [left; reflexivity|right].
    apply PR. destruct a as [c|]; unfold OI in HO; [|rewrite HO in X; destruct X].
    destruct (HO x X) as [E|Pth]; [replace (tn x) with (tn c) by (symmetry; exact E); apply R; reflexivity|eapply path_trans; [exact Pth|apply R; reflexivity]].
  - change (~ In t (opens (trace (reset_task w t))) /\ NN (trace (reset_task w t))). rewrite R4. split; assumption.
Qed.

Lemma reserve_edge w t w3 : WF (gr w) -> reserve_require_dependency w t = Done tt w3 ->
  forall s, cur w = Some s -> In (tn t) (kids_of (gr w3) (tn s)).
Proof.
  intros W H s Hs. unfold reserve_require_dependency in H. rewrite Hs in H.
  destruct (add_dependency w (tn s) (tn t) DReserved) as [[| |] w'] eqn:E; inversion H; subst w'.
  apply (add_dependency_edge w (tn s) (tn t) DReserved w3 W E).
Qed.

(* peel a quiet prefix off a computation *)
Lemma okN_pre {A} a w w2 (m : outcome A) : q3 w w2 -> okN a w2 m -> okN a w m.
Proof.
  intros [[s [T F]] [Kg Cg]] Hm. destruct m as [o w'|k w'|]; cbn in *; [|exact Hm|exact Logic.I].
  destruct Hm as [A1 [A2 [A3 A4]]]. split; [congruence|]. split; [eapply FrameO_trans; [apply kgrow_FrameO; exact Kg|exact A2]|].
  split; [rewrite A3, T; apply opens_app3; exact F|exact A4].
Qed.

Lemma require_with_N mc : NMC mc -> NREQ (require_with OC mc).
Proof.
  intros [HmcR HmcN]. split; [apply (require_with_R RC); exact HmcR|].
  intros w t c Hw. unfold require_with.
  set (w1 := emit w (ERequireStart t c)). set (w2 := get_or_create_task_node w1 t).
  assert (Q2 : q3 w w2) by (eapply q3_trans; [apply (q3_emit w (ERequireStart t c)); reflexivity|apply q3_goc_task]).
  assert (L2 : L w2) by (apply goc_task_L; apply L_emit; apply Hw).
  assert (C2 : cur w2 = cur w) by apply Q2.
  assert (P2 : Pre (cur w) w2) by (eapply q3_Pre; eassumption).
  assert (Lt : live (gr w2) (tn t) = true) by apply live_goc_task.
  apply (okN_pre _ w w2); [exact Q2|].
  pose proof (reserve_R RC w2 t L2 Lt) as RR. pose proof (reserve_q3 w2 t L2) as RQ.
  destruct (reserve_require_dependency w2 t) as [[] w3|k w3|] eqn:ER; cbn [bind]; [|eapply q3_okN_abort; [exact RQ|apply P2]|exact Logic.I].
  cbn [okR q3O] in RR, RQ. destruct RR as [L3 M3].
  assert (P3 : Pre (cur w) w3) by (eapply q3_Pre; eassumption).
  assert (C3 : cur w3 = cur w) by (rewrite <- C2; apply RQ).
  assert (R3 : reach (cur w) w3 t).
  { intros s Hs. apply path1. apply (reserve_edge w2 t w3 (proj1 (proj1 L2)) ER). rewrite C2. exact Hs. }
  apply (okN_pre _ w2 w3); [exact RQ|].
  apply bind_N; [exact P3|apply HmcR; [exact L3|apply M3; exact Lt]|apply HmcN; [exact P3|apply M3; exact Lt|exact R3]|].
  intros o w4 P4 C4.
  set (w5 := emit w4 (ERequireEnd t c (oc_stamp (OC c) o) o)).
  assert (L5 : L w5) by (apply L_emit; apply P4).
  apply (okN_pre _ w4 w5); [apply q3_emit; reflexivity|].
  assert (P5 : Pre (cur w) w5) by (eapply q3_Pre; [apply (q3_emit w4); reflexivity|exact L5|exact P4]).
  apply bind_N; [exact P5|apply (update_R RC); exact L5|apply q3O_okN; [apply update_q3|apply P5]|].
  intros _ w6 P6 C6. apply q3_okN; [apply q3_refl|apply P6].
Qed.

Definition DR (t0 : task) (w : world) (ds : list (option dep)) : Prop :=
  forall d c st, In (Some (DRequire d c st)) ds -> In (tn d) (kids_of (gr w) (tn t0)).

(* validation of t0's recorded dependencies: the anchor is t0 itself *)
Lemma check_deps_N mc t0 : NMC mc -> forall ds w, Pre (Some t0) w -> DL w ds -> DR t0 w ds ->
  okN (Some t0) w (check_deps RC OC mc ds w).
Proof.
  intros [HmcR HmcN]. induction ds as [|d tl IH]; intros w Hw HD HR; cbn [check_deps]; [apply q3_okN; [apply q3_refl|apply Hw]|].
  destruct d as [[|t c st|r c st|r c st]|]; try apply Hw.
  - set (w1 := emit w (ECheckTaskStart t c st)).
    assert (L1 : L w1) by (apply L_emit; apply Hw).
    assert (P1 : Pre (Some t0) w1) by (eapply q3_Pre; [apply (q3_emit w); reflexivity|exact L1|exact Hw]).
    assert (Lt : live (gr w1) (tn t) = true) by (apply (HD t c st); left; reflexivity).
    assert (R1 : reach (Some t0) w1 t) by (intros s Hs; inversion Hs; subst s; apply path1; apply (HR t c st); left; reflexivity).
    apply (okN_pre _ w w1); [apply q3_emit; reflexivity|].
    pose proof (HmcR w1 t L1 Lt) as MR. pose proof (HmcN (Some t0) w1 t P1 Lt R1) as MN.
    destruct (mc w1 t) as [o w2|k w2|]; cbn [bind]; [|exact MN|exact Logic.I].
    destruct MR as [L2 M2]. destruct MN as [C2 [F2 [O2 N2]]].
    assert (P2 : Pre (Some t0) w2) by (split; [exact L2|split; [eapply OI_pres; [apply P1|exact F2|exact O2]|exact N2]]).
    assert (K : forall m : outcome bool, okN (Some t0) w2 m -> okN (Some t0) w1 m).
    { intros m Hm. destruct m as [b w'|k w'|]; cbn in *; [|exact Hm|exact Logic.I]. destruct Hm as [A1 [A2 [A3 A4]]].
      split; [congruence|]. split; [eapply Frame_trans; eassumption|]. split; [congruence|exact A4]. }
    apply K. destruct (oc_check (OC c) o st).
    + set (w3 := emit w2 (ECheckTaskEnd t c st (negb true))).
      apply (okN_pre _ w2 w3); [apply q3_emit; reflexivity|].
      apply IH.
      * eapply q3_Pre; [apply (q3_emit w2); reflexivity|apply L_emit; exact L2|exact P2].
      * intros t' c' st' X. apply M2. apply (HD t' c' st'). right. exact X.
      * intros d' c' st' X. change (In (tn d') (kids_of (gr w2) (tn t0))). apply F2; [left; reflexivity|]. apply (HR d' c' st'). right. exact X.
    + apply q3_okN; [apply q3_emit; reflexivity|exact N2].
  - destruct (check_resource_td_L RC w r c st (proj1 Hw)) as [X M].
    assert (Q : q3 w (snd (check_resource_td RC w r c st))).
    { unfold check_resource_td. cbn [snd]. eapply q3_trans; apply q3_emit; reflexivity. }
    destruct (check_resource_td RC w r c st) as [[| |e] w1]; cbn [snd] in X, M, Q.
    + apply (okN_pre _ w w1); [exact Q|]. apply IH; [eapply q3_Pre; eassumption| |].
      * intros t' c' st' Y. apply M. apply (HD t' c' st'). right. exact Y.
      * intros d' c' st' Y. apply Q. apply (HR d' c' st'). right. exact Y.
    + apply q3_okN; [exact Q|apply Hw].
    + apply q3_okN; [eapply q3_trans; [exact Q|apply q3_same; reflexivity]|apply Hw].
  - destruct (check_resource_td_L RC w r c st (proj1 Hw)) as [X M].
    assert (Q : q3 w (snd (check_resource_td RC w r c st))).
    { unfold check_resource_td. cbn [snd]. eapply q3_trans; apply q3_emit; reflexivity. }
    destruct (check_resource_td RC w r c st) as [[| |e] w1]; cbn [snd] in X, M, Q.
    + apply (okN_pre _ w w1); [exact Q|]. apply IH; [eapply q3_Pre; eassumption| |].
      * intros t' c' st' Y. apply M. apply (HD t' c' st'). right. exact Y.
      * intros d' c' st' Y. apply Q. apply (HR d' c' st'). right. exact Y.
    + apply q3_okN; [exact Q|apply Hw].
    + apply q3_okN; [eapply q3_trans; [exact Q|apply q3_same; reflexivity]|apply Hw].
Qed.

Lemma okN_weaken {A} a t w (m : outcome A) : reach a w t -> okN (Some t) w m -> okN a w m.
Proof.
  intros R Hm. destruct m as [x w'|k w'|]; cbn in *; [|exact Hm|exact Logic.I].
  destruct Hm as [A1 [A2 [A3 A4]]]. split; [exact A1|]. split; [eapply FrameO_weaken; eassumption|]. split; assumption.
Qed.
Lemma reach_pres a t w w' : reach a w t -> Frame t w w' -> reach a w' t.
Proof. intros R F c Hc. apply (path_pres (gr w)); [intros n Pn; apply F; right; exact Pn|apply R; exact Hc]. Qed.
Lemma reach_kgrow a t w w' : reach a w t -> kgrow w w' -> reach a w' t.
Proof. intros R K c Hc. apply (path_pres (gr w)); [intros n _; apply K|apply R; exact Hc]. Qed.

(* run m under the stronger anchor t (reached from a), continue under a with t still reached *)
Lemma bind_N2 {A B} a t w (m : outcome A) (f : A -> world -> outcome B) :
  Pre a w -> reach a w t -> okR w m -> okN (Some t) w m ->
  (forall x w1, Pre a w1 -> reach a w1 t -> cur w1 = cur w -> mono w w1 -> okN a w1 (f x w1)) -> okN a w (bind m f).
Proof.
  intros [HL [HO HN]] R RR N F. destruct m as [x w1|k w1|]; cbn [bind]; [|exact N|exact Logic.I].
  destruct RR as [L1 M1]. destruct N as [C1 [F1 [O1 N1]]].
  assert (Fa : FrameO a w w1) by (eapply FrameO_weaken; eassumption).
  assert (P1 : Pre a w1) by (split; [exact L1|split; [eapply OI_pres; eassumption|exact N1]]).
  specialize (F x w1 P1 (reach_pres a t w w1 R F1) C1 M1). destruct (f x w1) as [y w2|k w2|]; cbn in *; [|exact F|exact Logic.I].
  destruct F as [C2 [F2 [O2 N2]]]. split; [congruence|]. split; [eapply FrameO_trans; eassumption|]. split; [congruence|exact N2].
Qed.

Lemma deps_DR w t : StoreOK w -> DR t w (deps_of_task w t).
Proof.
  intros [W [T _]] d c st X. unfold deps_of_task, get_outgoing_edges in X. rewrite map_map in X. cbn [snd] in X.
  apply in_map_iff in X. destruct X as [d' [E Hd]]. destruct (T _ _ _ E) as [_ D]. cbn in D. subst d'. exact Hd.
Qed.

Lemma mark_q3 w t : q3 w (mark_consistent w t). Proof. apply q3_same; reflexivity. Qed.

Theorem make_consistent_td_N fuel : NMC (make_consistent_td RC OC P fuel).
Proof.
  induction fuel as [|f IH]; (split; [apply make_consistent_td_R|]); intros a w t Hw Lt R; cbn [make_consistent_td]; [exact Logic.I|].
  set (w0 := get_or_create_task_node w t).
  assert (Q0 : q3 w w0) by apply q3_goc_task.
  assert (L0 : L w0) by (apply goc_task_L; apply Hw).
  assert (P0 : Pre a w0) by (eapply q3_Pre; eassumption).
  assert (R0 : reach a w0 t) by (eapply reach_kgrow; [exact R|apply Q0]).
  assert (Lt0 : live (gr w0) (tn t) = true) by apply live_goc_task.
  apply (okN_pre _ w w0); [exact Q0|].
  destruct (memN t (consistent w0)); [destruct (get_task_output w0 t); [apply q3_okN; [apply q3_refl|apply P0]|apply P0]|].
  assert (Hreq : NREQ (require_with OC (make_consistent_td RC OC P f))) by (apply require_with_N; exact IH).
  assert (EX : forall w1, Pre a w1 -> reach a w1 t -> live (gr w1) (tn t) = true ->
            okN a w1 (bind (execute_with RC OC P (require_with OC (make_consistent_td RC OC P f)) w1 t) (fun o w2 => Done o (mark_consistent w2 t)))).
  { intros w1 P1 R1 Lt1. apply bind_N; [exact P1|apply execute_with_R; [exact (proj1 Hreq)|apply P1|exact Lt1]|apply execute_with_N; assumption|].
    intros o w2 P2 C2. apply q3_okN; [apply mark_q3|apply P2]. }
  destruct (get_task_output w0 t); [|apply EX; assumption].
  apply (bind_N2 a t); [exact P0|exact R0|apply check_deps_R; [exact (proj1 IH)|exact L0|apply deps_DL; apply L0]| |].
  - apply check_deps_N; [exact IH|split; [exact L0|split; [eapply OI_strengthen; [apply P0|exact R0]|apply P0]]|apply deps_DL; apply L0|apply deps_DR; apply L0].
  - intros ok w1 P1 R1 C1 M1. destruct (if ok then get_task_output w1 t else None).
    + apply q3_okN; [apply mark_q3|apply P1].
    + apply EX; [exact P1|exact R1|apply M1; exact Lt0].
Qed.

(* ---- bottom-up ---- *)
Lemma queue_add_q3 w t : q3 w (queue_add w t).
Proof. unfold queue_add. destruct (memN _ _); [apply q3_refl|apply q3_same; reflexivity]. Qed.
Lemma try_schedule_q3 w t r c st : q3 w (try_schedule RC w t r c st).
Proof.
  unfold try_schedule. cbv zeta. destruct (rc_check _ _ _ _ _) as [| |e].
  - eapply q3_trans; apply q3_emit; reflexivity.
  - eapply q3_trans; [|apply queue_add_q3]. eapply q3_trans; [|apply q3_emit; reflexivity]. eapply q3_trans; apply q3_emit; reflexivity.
  - eapply q3_trans; [|apply queue_add_q3]. eapply q3_trans; [|apply q3_emit; reflexivity].
    eapply q3_trans; [|apply q3_same; reflexivity]. eapply q3_trans; apply q3_emit; reflexivity.
Qed.
Lemma try_schedule_edge_q3 b w p : q3 w (try_schedule_edge RC b w p).
Proof.
  unfold try_schedule_edge. destruct (snd p) as [[|t c st|r c st|r c st]|]; try apply q3_refl; [apply try_schedule_q3|].
  destruct b; [apply q3_refl|apply try_schedule_q3].
Qed.
Lemma fold_q3 {X} (f : world -> X -> world) l : (forall w x, q3 w (f w x)) -> forall w, q3 w (fold_left f l w).
Proof. intros Hf. induction l as [|x tl IH]; intros w; cbn [fold_left]; [apply q3_refl|eapply q3_trans; [apply Hf|apply IH]]. Qed.
Lemma schedule_tasks_affected_by_q3 w r : q3 w (schedule_tasks_affected_by RC w r).
Proof.
  unfold schedule_tasks_affected_by. cbv zeta. eapply q3_trans; [|apply q3_emit; reflexivity].
  eapply q3_trans; [|apply fold_q3; intros; apply try_schedule_edge_q3]. eapply q3_trans; [|apply q3_goc_res]. apply q3_emit; reflexivity.
Qed.
Lemma schedule_by_written_q3 w r : q3 w (schedule_by_written RC w r).
Proof.
  unfold schedule_by_written. cbv zeta. eapply q3_trans; [|apply q3_emit; reflexivity].
  eapply q3_trans; [|apply fold_q3; intros; apply try_schedule_edge_q3]. apply q3_emit; reflexivity.
Qed.
Lemma schedule_requirer_q3 o w p : q3 w (schedule_requirer OC o w p).
Proof.
  unfold schedule_requirer. destruct (snd p) as [[|t c st|r c st|r c st]|]; try apply q3_refl. cbv zeta.
  destruct (oc_check (OC c) o st).
  - eapply q3_trans; apply q3_emit; reflexivity.
  - eapply q3_trans; [|apply queue_add_q3]. eapply q3_trans; [|apply q3_emit; reflexivity]. eapply q3_trans; apply q3_emit; reflexivity.
Qed.
Lemma schedule_after_q3 w t o : q3 w (schedule_after RC OC w t o).
Proof.
  unfold schedule_after. cbv zeta. eapply q3_trans; [|apply mark_q3]. eapply q3_trans; [|apply q3_emit; reflexivity].
  eapply q3_trans; [|apply fold_q3; intros; apply schedule_requirer_q3]. eapply q3_trans; [|apply q3_emit; reflexivity].
  apply fold_q3; intros; apply schedule_by_written_q3.
Qed.

Lemma require_bu_with_N mc : NMC mc -> NREQ (require_bu_with OC mc).
Proof.
  intros Hmc. split; [apply (require_bu_with_R RC); exact (proj1 Hmc)|].
  intros w t c Hw. unfold require_bu_with.
  apply bind_N; [exact Hw|apply (require_with_R RC); [exact (proj1 Hmc)|apply Hw]|apply require_with_N; [exact Hmc|exact Hw]|].
  intros o w' P' C'. apply q3_okN; [apply mark_q3|apply P'].
Qed.

Lemma pop_least_reach w t m w1 : StoreOK w -> pop_least_from w t = Some (m, w1) -> m = t \/ path (gr w) (tn t) (tn m).
Proof.
  intros HS. unfold pop_least_from. destruct (find _ _) as [x|] eqn:X; [|discriminate]. intros H. inversion H; subst x w1.
  apply find_some in X. destruct X as [_ X]. apply orb_true_iff in X. destruct X as [X|X].
  - left. symmetry. apply N.eqb_eq. exact X.
  - right. unfold contains_transitive_task_dependency in X.
    destruct (contains_transitive_edge (gr w) (tn t) (tn m)) as [[|]|] eqn:E; try discriminate.
    apply (contains_transitive_edge_spec _ _ _ _ (proj1 HS) E). reflexivity.
Qed.

Definition NBU (fuel : nat) : Prop :=
  (forall a w t, Pre a w -> live (gr w) (tn t) = true -> reach a w t -> okN a w (bu_execute_and_schedule RC OC P fuel w t)) /\
  (forall a w t, Pre a w -> live (gr w) (tn t) = true -> reach a w t -> okN a w (bu_make_consistent RC OC P fuel w t)) /\
  (forall a w t, Pre a w -> reach a w t -> okN a w (bu_require_scheduled_now RC OC P fuel w t)).

Theorem bottom_up_N fuel : NBU fuel.
Proof.
  induction fuel as [|f [IH1 [IH2 IH3]]]; [repeat split; intros; exact Logic.I|].
  destruct (bottom_up_R RC OC P f) as [BR1 [BR2 BR3]].
  assert (Hmc : NMC (bu_make_consistent RC OC P f)) by (split; [exact BR2|exact IH2]).
  assert (Hreq : NREQ (require_bu_with OC (bu_make_consistent RC OC P f))) by (apply require_bu_with_N; exact Hmc).
  assert (E1 : forall a w t, Pre a w -> live (gr w) (tn t) = true -> reach a w t -> okN a w (bu_execute_and_schedule RC OC P (S f) w t)).
  { intros a w t Hw Lt R. cbn [bu_execute_and_schedule].
    apply bind_N; [exact Hw|apply execute_with_R; [exact (proj1 Hreq)|apply Hw|exact Lt]|apply execute_with_N; assumption|].
    intros o w1 P1 C1. apply q3_okN; [apply schedule_after_q3|apply P1]. }
  assert (ER1 : forall w t, L w -> live (gr w) (tn t) = true -> okR w (bu_execute_and_schedule RC OC P (S f) w t)) by apply (bottom_up_R RC OC P (S f)).
  assert (E3 : forall a w t, Pre a w -> reach a w t -> okN a w (bu_require_scheduled_now RC OC P (S f) w t)).
  { intros a w t Hw R. cbn [bu_require_scheduled_now]. destruct (queue w); [apply q3_okN; [apply q3_refl|apply Hw]|].
    destruct (pop_least_from w t) as [[m w1]|] eqn:X; [|apply q3_okN; [apply q3_refl|apply Hw]].
    destruct (pop_least_L RC OC P w t m w1 (proj1 Hw) X) as [L1 [G1 Lm]].
    assert (Q1 : q3 w w1) by (apply q3_same; [eapply trace_pop_least; exact X|exact G1|
      unfold pop_least_from in X; destruct (find _ _); [inversion X; reflexivity|discriminate]]).
    assert (P1 : Pre a w1) by (eapply q3_Pre; eassumption).
    assert (R1 : reach a w1 t) by (eapply reach_kgrow; [exact R|apply Q1]).
    assert (Lm1 : live (gr w1) (tn m) = true) by (rewrite G1; exact Lm).
    apply (okN_pre _ w w1); [exact Q1|].
    destruct (pop_least_reach w t m w1 (proj1 (proj1 Hw)) X) as [->|Pm].
    - rewrite N.eqb_refl. apply bind_N; [exact P1|apply BR1; assumption|apply IH1; assumption|].
      intros o w2 P2 C2. apply q3_okN; [apply q3_refl|apply P2].
    - (* m is a transitive dependency of t: execute it under the anchor t *)
      assert (Pm1 : path (gr w1) (tn t) (tn m)) by (rewrite G1; exact Pm).
      apply (bind_N2 a t); [exact P1|exact R1|apply BR1; assumption| |].
      + apply IH1; [split; [exact L1|split; [eapply OI_strengthen; [apply P1|exact R1]|apply P1]]|exact Lm1|intros c Hc; inversion Hc; subst c; exact Pm1].
      + intros o w2 P2 R2 C2 M2. destruct (N.eqb m t); [apply q3_okN; [apply q3_refl|apply P2]|apply IH3; assumption]. }
  split; [exact E1|]. split; [|exact E3].
  intros a w t Hw Lt R. cbn [bu_make_consistent]. destruct (memN t (consistent w)).
  - destruct (get_task_output w t); [apply q3_okN; [apply q3_refl|apply Hw]|apply Hw].
  - destruct ((match get_task_output w t with None => true | Some _ => false end) && negb (memN t (queue w)))%bool;
      [apply execute_with_N; assumption|].
    apply bind_N; [exact Hw|apply BR3; apply Hw|apply IH3; assumption|].
    intros r w1 P1 C1. destruct r; [apply q3_okN; [apply q3_refl|apply P1]|].
    destruct (get_task_output w1 t); [apply q3_okN; [apply q3_refl|apply P1]|apply P1].
Qed.

Theorem execute_scheduled_N fuel : forall w, Pre None w -> okN None w (execute_scheduled RC OC P fuel w).
Proof.
  induction fuel as [|f IH]; intros w Hw; cbn [execute_scheduled]; [exact Logic.I|].
  destruct (queue_pop w) as [[t w1]|] eqn:X; [|apply q3_okN; [apply q3_refl|apply Hw]].
  destruct (queue_pop_L RC OC P w t w1 (proj1 Hw) X) as [L1 [G1 Lt]].
  assert (Q1 : q3 w w1) by (apply q3_same; [eapply trace_queue_pop; exact X|exact G1|
    unfold queue_pop in X; destruct (rev (sort_queue w)); [discriminate|inversion X; reflexivity]]).
  assert (P1 : Pre None w1) by (eapply q3_Pre; eassumption).
  apply (okN_pre _ w w1); [exact Q1|].
  apply bind_N; [exact P1|apply (bottom_up_R RC OC P f); [exact L1|rewrite G1; exact Lt]|
                 apply (proj1 (bottom_up_N f)); [exact P1|rewrite G1; exact Lt|intros c Hc; discriminate]|].
  intros _ w2 P2 C2. apply IH. exact P2.
Qed.

(* ---- sessions ---- *)
Variable always : ocid.

Definition SPre (w : world) : Prop := Pre None w /\ cur w = None.
Definition okS {A} (m : outcome A) : Prop := match m with Done _ w' => SPre w' | Abort _ w' => NN (trace w') | OutOfFuel => True end.

Lemma okN_S {A} w (m : outcome A) : SPre w -> okR w m -> okN None w m -> okS m.
Proof.
  intros [[HL [HO HN]] HC] R N. destruct m as [x w'|k w'|]; cbn in *; [|exact N|exact Logic.I].
  destruct N as [C [_ [O N']]]. split; [|congruence]. split; [apply R|]. split; [cbn; rewrite O; exact HO|exact N'].
Qed.

Lemma session_require_N fuel w t : SPre w -> okS (session_require RC OC P always fuel w t).
Proof.
  intros [Hw Hc]. unfold session_require, require_td.
  set (w1 := emit (set_cur w None) EBuildStart).
  assert (Q1 : q3 w w1) by (eapply q3_trans; [apply (q3_same w (set_cur w None)); [reflexivity|reflexivity|cbn; symmetry; exact Hc]|apply q3_emit; reflexivity]).
  assert (L1 : L w1) by (apply L_emit, L_set_cur_none; apply Hw).
  assert (S1 : SPre w1) by (split; [eapply q3_Pre; eassumption|reflexivity]).
  pose proof (require_with_N (make_consistent_td RC OC P fuel) (make_consistent_td_N fuel)) as [RR RN].
  specialize (RR w1 t always L1). specialize (RN w1 t always (proj1 S1)). change (cur w1) with (@None task) in RN.
  pose proof (okN_S w1 _ S1 RR RN) as X.
  destruct (require_with OC (make_consistent_td RC OC P fuel) w1 t always) as [o w2|k w2|]; cbn [bind okS] in *; [|exact X|exact Logic.I].
  destruct X as [P2 C2]. split; [|exact C2]. eapply q3_Pre; [apply (q3_emit w2 EBuildEnd); reflexivity|apply L_emit; apply P2|exact P2].
Qed.

Lemma session_bottom_up_N fuel w ch : SPre w -> okS (session_bottom_up RC OC P fuel w ch).
Proof.
  intros [Hw Hc]. unfold session_bottom_up. cbv zeta.
  assert (L0 : L (set_queue w [])). { destruct (proj1 Hw) as [H1 [H2 H3]]. split; [exact H1|]. split; [exact H2|intros x []]. }
  destruct (fold_affected_L RC ch _ L0) as [L1 M1]. set (w1 := fold_left (schedule_tasks_affected_by RC) ch (set_queue w [])) in *.
  assert (Q1 : q3 w w1).
  { eapply q3_trans; [apply (q3_same w (set_queue w [])); reflexivity|apply fold_q3; intros; apply schedule_tasks_affected_by_q3]. }
  set (w2 := emit (set_cur w1 None) EBuildStart).
  assert (Q2 : q3 w w2).
  { eapply q3_trans; [exact Q1|]. eapply q3_trans; [apply (q3_same w1 (set_cur w1 None)); [reflexivity|reflexivity|cbn; symmetry; rewrite (proj2 (proj2 Q1)); exact Hc]|apply q3_emit; reflexivity]. }
  assert (L2 : L w2) by (apply L_emit, L_set_cur_none; exact L1).
  assert (S2 : SPre w2) by (split; [eapply q3_Pre; eassumption|reflexivity]).
  pose proof (okN_S w2 _ S2 (execute_scheduled_R RC OC P fuel w2 L2) (execute_scheduled_N fuel w2 (proj1 S2))) as X.
  destruct (execute_scheduled RC OC P fuel w2) as [u w3|k w3|]; cbn [bind okS] in *; [|exact X|exact Logic.I].
  destruct X as [P3 C3]. split; [|exact C3]. eapply q3_Pre; [apply (q3_emit w3 EBuildEnd); reflexivity|apply L_emit; apply P3|exact P3].
Qed.

Lemma run_session_N fuel ops : forall w, SPre w -> NN (trace (snd (run_session RC OC P always fuel w ops))).
Proof.
  induction ops as [|o tl IH]; intros w Hw; cbn [run_session]; [apply Hw|].
  assert (X : match run_sop RC OC P always fuel w o with (RDone _, w') => SPre w' | (_, w') => NN (trace w') end).
  { destruct o as [t|ch]; cbn [run_sop].
    - pose proof (session_require_N fuel w t Hw) as Y. destruct (session_require RC OC P always fuel w t); cbn in *; [exact Y|exact Y|apply Hw].
    - pose proof (session_bottom_up_N fuel w ch Hw) as Y. destruct (session_bottom_up RC OC P fuel w ch); cbn in *; [exact Y|exact Y|apply Hw]. }
  destruct (run_sop RC OC P always fuel w o) as [[x|k|] w']; [|exact X|exact X].
  specialize (IH w' X). destruct (run_session RC OC P always fuel w' tl) as [rs w'']. exact IH.
Qed.

Lemma SPre_new_session w : L w -> SPre (new_session w).
Proof. intros H. split; [|reflexivity]. split; [apply L_new_session; exact H|]. split; [reflexivity|exact Logic.I]. Qed.

(* the readable form of NN *)
Lemma NN_spec tr : NN tr -> forall a t b, tr = a ++ EExecStart t :: b -> ~ In t (opens b).
Proof.
  intros H a. revert tr H. induction a as [|e a IH]; intros tr H t b E; subst tr; cbn [app] in H.
  - apply H.
  - apply (IH (a ++ EExecStart t :: b)); [|reflexivity]. destruct e; cbn in H; try exact H. apply H.
Qed.

(* EVERY session of EVERY history (top-down requires and bottom-up builds in any mix, completed or aborted): whenever a task
   starts executing, no execution of it is open -- the events before that start (b, newest first) contain no unmatched start of it *)
Theorem no_task_entered_while_executing fuel h ops :
  let w := snd (run_history RC OC P always fuel init_world h) in
  let tr := trace (snd (run_session RC OC P always fuel (new_session w) ops)) in
  forall a t b, tr = a ++ EExecStart t :: b -> ~ In t (opens b).
Proof.
  intros w tr. apply NN_spec. apply run_session_N. apply SPre_new_session.
  apply (run_history_R RC OC P always fuel h init_world L_init).
Qed.

End NR.

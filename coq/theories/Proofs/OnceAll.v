(* C04, the at-most-once clause, in the static program class (NoAbortAll.v: WFP + WFO), for the bottom-up build that opens a
   session after ANY history: no task is executed twice.

   Invariant Om of the bottom-up build (C = the session's consistent set):
     OA  nothing reachable from a task in C (the task included) is queued or executing;
     OC  every task that an executing task has recorded a require dependency to, and the generator of every resource it has
         recorded a read of, is in C;
     OD  no executing task is queued;
   together with HasOut.v (recorded require dependencies point to tasks with an output, or executing) and the bundles of the
   earlier passes (NoReentry / NoBugAll / CertAll / NoAbortAll).  A task is marked consistent only when everything reachable from
   it is settled (after its own execution: its dependencies are in C; when reused: the queue holds no dependency of it), a task
   is scheduled only through a dependency on a task that is not reachable from C, and an execution starts only for a queued
   or output-less task -- which therefore is not in C; every task that has started is in C or still executing. *)
From Coq Require Import List NArith ZArith Bool Lia Permutation.
From PieV Require Import Model.Dag Model.Build Proofs.DagLib Proofs.DagWF Proofs.DagPath Proofs.DagQueries Proofs.DagNoFuel Proofs.StoreInv
  Proofs.Sorting Proofs.Effects Proofs.Inv Proofs.History Proofs.ExecInv Proofs.ExecSession Proofs.Cert Proofs.Stable Proofs.NoBug4 Proofs.NoAbort
  Proofs.NoBug4All Proofs.Trace Proofs.Queue Proofs.BuJust Proofs.BuOnce Proofs.NoReentry Proofs.NoBugAll Proofs.CertAll Proofs.NoAbortAll Proofs.HasOut.
Import ListNotations.
Open Scope N_scope.

(* ---- graph lemmas ---- *)
Lemma path_sub (g g' : dag dep) : (forall n x, In x (kids_of g' n) -> In x (kids_of g n)) -> forall u v, path g' u v -> path g u v.
Proof. intros H u v Pth. induction Pth as [u v X|u y v X Pth IH]; [apply path1; apply H; exact X|eapply pathS; [apply H; exact X|exact IH]]. Qed.
Lemma path_grow_inv (g g' : dag dep) s : (forall n, n <> s -> forall x, In x (kids_of g' n) -> In x (kids_of g n)) ->
  forall u v, path g' u v -> path g u v \/ u = s \/ path g u s.
Proof.
  intros H u v Pth. induction Pth as [u v X|u y v X Pth IH].
  - destruct (N.eq_dec u s) as [->|Hu]; [right; left; reflexivity|left; apply path1; apply H; assumption].
  - destruct (N.eq_dec u s) as [->|Hu]; [right; left; reflexivity|]. pose proof (H u Hu y X) as Y.
    destruct IH as [A|[A|A]]; [left; eapply pathS; eassumption|right; right; subst y; apply path1; exact Y|right; right; eapply pathS; eassumption].
Qed.
Lemma path_src_task (g : dag dep) u v : GOK g -> path g u v -> is_tn u = true.
Proof.
  intros [W [T _]] Pth. assert (X : exists y, In y (kids_of g u)) by (destruct Pth as [u v X|u y v X _]; exists y || exists v; assumption).
  destruct X as [y X]. pose proof (proj2 (wf_edata g W u y) X) as E. destruct (get_edata g u y) as [dp|] eqn:Ed; [|contradiction]. apply (T u y dp Ed).
Qed.

Definition isC (w : world) (c : task) : Prop := memN c (consistent w) = true.
Definition RT (w : world) (c x : task) : Prop := c = x \/ path (gr w) (tn c) (tn x).
Definition P3 (w : world) (t : task) : Prop := forall c, isC w c -> ~ RT w c t.
Definition Fin (w : world) (t : task) : Prop := forall x, RT w t x -> ~ opn w x /\ ~ In x (queue w).

Lemma RT_trans w a b c : RT w a b -> RT w b c -> RT w a c.
Proof. intros [->|A] [->|B]; [left; reflexivity|right; exact B|right; exact A|right; eapply path_trans; eassumption]. Qed.

Section OA.
Variable gen : res -> option task.

Definition needs (w : world) (x y : task) : Prop :=
  (exists c st, row w x (tn y) = Some (DRequire y c st)) \/
  (exists r dp, row w x (rn r) = Some dp /\ is_read (Some dp) = true /\ gen r = Some y).
Definition OA (w : world) : Prop := forall c x, isC w c -> RT w c x -> ~ opn w x /\ ~ In x (queue w).
Definition OCs (w : world) : Prop := forall x y, opn w x -> needs w x y -> isC w y.
Definition OD (w : world) : Prop := forall x, opn w x -> ~ In x (queue w).
Definition Om (w : world) : Prop := OA w /\ OCs w /\ OD w.
Definition OF (w : world) (t : task) : Prop := forall d, row w t d <> Some DReserved.
(* every task started in the session is consistent, executing, or the one just finished *)
Definition TT (e : option task) (w : world) : Prop :=
  NoDup (execs (trace w)) /\ forall x, In x (execs (trace w)) -> isC w x \/ opn w x \/ e = Some x.

Lemma TT_weaken e w : TT None w -> TT e w.
Proof. intros [A B]. split; [exact A|]. intros x X. destruct (B x X) as [Y|[Y|Y]]; [left; exact Y|right; left; exact Y|discriminate]. Qed.

(* ---- quiet steps: same adjacency and edge data, same consistent set, no execution start/end, queue not larger ---- *)
Definition qq (w w' : world) : Prop :=
  geq w w' /\ consistent w' = consistent w /\ (exists s, trace w' = s ++ trace w /\ Forall (fun e => ev3 e = true) s) /\
  (forall x, In x (queue w') -> In x (queue w)).
Lemma qq_refl w : qq w w.
Proof. split; [intros n; apply EqN_refl|]. split; [reflexivity|]. split; [exists []; split; [reflexivity|constructor]|trivial]. Qed.
Lemma qq_trans a b c : qq a b -> qq b c -> qq a c.
Proof.
  intros [G1 [C1 [[s1 [T1 F1]] Q1]]] [G2 [C2 [[s2 [T2 F2]] Q2]]]. split; [eapply geq_trans; eassumption|]. split; [congruence|]. split.
  - exists (s2 ++ s1). split; [rewrite T2, T1, app_assoc; reflexivity|apply Forall_app; split; assumption].
  - intros x X. apply Q1, Q2, X.
Qed.
Lemma qq_same w w' : gr w' = gr w -> consistent w' = consistent w -> trace w' = trace w -> (forall x, In x (queue w') -> In x (queue w)) -> qq w w'.
Proof. intros G C T Q. split; [apply geq_same; exact G|]. split; [exact C|]. split; [exists []; split; [exact T|constructor]|exact Q]. Qed.
Lemma qq_emit w e : ev3 e = true -> qq w (emit w e).
Proof. intros H. split; [apply geq_same; reflexivity|]. split; [reflexivity|]. split; [exists [e]; split; [reflexivity|constructor; [exact H|constructor]]|trivial]. Qed.
Lemma qq_goc_task w t : qq w (get_or_create_task_node w t).
Proof. split; [apply geq_goc_task|]. unfold get_or_create_task_node. destruct (live _ _); (split; [reflexivity|]; split; [exists []; split; [reflexivity|constructor]|trivial]). Qed.
Lemma qq_goc_res w r : qq w (get_or_create_resource_node w r).
Proof. split; [apply geq_goc_res|]. unfold get_or_create_resource_node. destruct (live _ _); (split; [reflexivity|]; split; [exists []; split; [reflexivity|constructor]|trivial]). Qed.

Lemma qq_opens w w' : qq w w' -> opens (trace w') = opens (trace w).
Proof. intros [_ [_ [[s [T F]] _]]]. rewrite T. apply opens_app3. exact F. Qed.
Lemma execs_ev3 s : Forall (fun e => ev3 e = true) s -> execs s = [].
Proof. induction 1 as [|e s He _ IH]; [reflexivity|]. unfold execs in *. cbn [flat_map]. rewrite IH. destruct e; cbn in *; try reflexivity; discriminate. Qed.
Lemma qq_execs w w' : qq w w' -> execs (trace w') = execs (trace w).
Proof. intros [_ [_ [[s [T F]] _]]]. rewrite T, execs_app, (execs_ev3 s F). reflexivity. Qed.
Lemma geq_RT w w' c x : geq w w' -> RT w' c x -> RT w c x.
Proof. intros G [->|Pth]; [left; reflexivity|right]. apply (path_sub (gr w) (gr w')); [|exact Pth]. intros n y Y. rewrite <- (proj1 (G n)). exact Y. Qed.
Lemma geq_row w w' x d : geq w w' -> row w' x d = row w x d. Proof. intros G. apply (proj2 (G (tn x))). Qed.
Lemma geq_needs w w' x y : geq w w' -> needs w' x y -> needs w x y.
Proof.
  intros G [[c [st X]]|[r [dp [X [I E]]]]]; [left; exists c, st|right; exists r, dp; split; [|split; assumption]]; rewrite <- (geq_row w w' _ _ G); exact X.
Qed.

Lemma Om_qq w w' : qq w w' -> Om w -> Om w'.
Proof.
  intros Hq [A [C D]]. pose proof (qq_opens w w' Hq) as Op. destruct Hq as [G [Cs [_ Q]]]. unfold Om, OA, OCs, OD, isC, opn in *. rewrite Op, Cs. split; [|split].
  - intros c x Hc R. destruct (A c x Hc (geq_RT w w' c x G R)) as [A1 A2]. split; [exact A1|intros X; apply A2, Q, X].
  - intros x y Hx N. apply (C x y Hx). eapply geq_needs; eassumption.
  - intros x Hx X. apply (D x Hx). apply Q. exact X.
Qed.
Lemma TT_qq e w w' : qq w w' -> TT e w -> TT e w'.
Proof.
  intros Hq [A B]. pose proof (qq_opens w w' Hq) as Op. pose proof (qq_execs w w' Hq) as Ex. destruct Hq as [_ [Cs _]].
  unfold TT, isC, opn. rewrite Ex, Op, Cs. split; assumption.
Qed.
Lemma P3_qq w w' t : qq w w' -> P3 w t -> P3 w' t.
Proof. intros [G [Cs _]] H c Hc R. unfold isC in Hc. rewrite Cs in Hc. apply (H c Hc). eapply geq_RT; eassumption. Qed.
Lemma OF_geq w w' t : geq w w' -> OF w t -> OF w' t.
Proof. intros G H d. rewrite (geq_row w w' t d G). apply H. Qed.

(* ---- scheduling a task ---- *)
Lemma Om_queue_add w x : Om w -> P3 w x -> ~ opn w x -> Om (queue_add w x).
Proof.
  intros [A [C D]] HP Hx. unfold queue_add. destruct (memN x (queue w)); [split; [exact A|split; assumption]|].
  split; [|split].
  - intros c y Hc R. destruct (A c y Hc R) as [A1 A2]. split; [exact A1|]. cbn. intros X. apply in_app_or in X. destruct X as [X|[<-|[]]]; [exact (A2 X)|exact (HP c Hc R)].
  - exact C.
  - intros y Hy X. cbn in X. apply in_app_or in X. destruct X as [X|[<-|[]]]; [exact (D y Hy X)|exact (Hx Hy)].
Qed.
Lemma qq_queue_add_TT e w x : TT e w -> TT e (queue_add w x).
Proof. unfold queue_add. destruct (memN _ _); trivial. Qed.

(* ---- marking a task consistent ---- *)
Lemma isC_mark w t c : isC (mark_consistent w t) c <-> c = t \/ isC w c.
Proof.
  unfold isC, mark_consistent. cbn [consistent set_consistent]. unfold memN. cbn [existsb]. rewrite orb_true_iff, N.eqb_eq. reflexivity.
Qed.
Lemma Om_mark w t : Om w -> Fin w t -> Om (mark_consistent w t).
Proof.
  intros [A [C D]] HF. split; [|split].
  - intros c x Hc R. apply isC_mark in Hc. destruct Hc as [->|Hc]; [apply (HF x R)|apply (A c x Hc R)].
  - intros x y Hx N. apply isC_mark. right. apply (C x y Hx N).
  - exact D.
Qed.
Lemma TT_mark w t : TT (Some t) w -> TT None (mark_consistent w t).
Proof.
  intros [A B]. split; [exact A|]. intros x X. destruct (B x X) as [Y|[Y|Y]]; [left; apply isC_mark; right; exact Y|right; left; exact Y|].
  inversion Y; subst x. left. apply isC_mark. left. reflexivity.
Qed.

(* ---- the executing task s adds an outgoing edge (adjacency and data of the other nodes unchanged) ---- *)
Lemma Om_grow s w w' :
  opn w s -> (forall n, n <> tn s -> kids_of (gr w') n = kids_of (gr w) n) -> (forall m d, m <> tn s -> get_edata (gr w') m d = get_edata (gr w) m d) ->
  consistent w' = consistent w -> opens (trace w') = opens (trace w) -> queue w' = queue w ->
  (forall y, needs w' s y -> needs w s y \/ isC w y) -> Om w -> Om w'.
Proof.
  intros Hs Hk He Cs Op Qu Hn [A [C D]]. unfold Om, OA, OCs, OD, isC, opn in *. rewrite Cs, Op, Qu. split; [|split].
  - intros c x Hc R. apply (A c x Hc). destruct R as [->|Pth]; [left; reflexivity|].
    destruct (path_grow_inv (gr w) (gr w') (tn s) ltac:(intros n Hn' y Y; rewrite <- (Hk n Hn'); exact Y) _ _ Pth) as [X|[X|X]]; [right; exact X| |].
    + exfalso. apply tn_inj in X. subst c. exact (proj1 (A s s Hc (or_introl eq_refl)) Hs).
    + exfalso. exact (proj1 (A c s Hc (or_intror X)) Hs).
  - intros x y Hx N. destruct (N.eq_dec x s) as [->|Hne].
    + destruct (Hn y N) as [N'|N']; [apply (C s y Hx N')|exact N'].
    + apply (C x y Hx). assert (X : tn x <> tn s) by (intros E; apply tn_inj in E; contradiction).
      destruct N as [[c [st N]]|[r [dp [N [I E]]]]]; [left; exists c, st|right; exists r, dp; split; [|split; assumption]]; unfold row in *; rewrite <- (He _ _ X); exact N.
  - exact D.
Qed.
Lemma P3_grow s w w' t : OA w -> opn w s -> (forall n, n <> tn s -> kids_of (gr w') n = kids_of (gr w) n) -> consistent w' = consistent w ->
  P3 w t -> P3 w' t.
Proof.
  intros A Hs Hk Cs H c Hc R. unfold isC in Hc. rewrite Cs in Hc. apply (H c Hc). destruct R as [->|Pth]; [left; reflexivity|].
  destruct (path_grow_inv (gr w) (gr w') (tn s) ltac:(intros n Hn' y Y; rewrite <- (Hk n Hn'); exact Y) _ _ Pth) as [X|[X|X]]; [right; exact X| |].
  - exfalso. apply tn_inj in X. subst c. exact (proj1 (A s s Hc (or_introl eq_refl)) Hs).
  - exfalso. exact (proj1 (A c s Hc (or_intror X)) Hs).
Qed.

(* ---- start of an execution ---- *)
Lemma Om_start w t : StoreOK w -> Om w -> P3 w t -> ~ In t (queue w) ->
  Om (emit (set_cur (reset_task w t) (Some t)) (EExecStart t)).
Proof.
  intros HS [A [C D]] HP Hq. destruct (reset_task_facts w t HS) as [R1 [R2 [_ [R4 [R5 [_ [R7 [R8 _]]]]]]]].
  set (w2 := emit (set_cur (reset_task w t) (Some t)) (EExecStart t)).
  assert (Op : forall x, opn w2 x <-> x = t \/ opn w x).
  { intros x. unfold opn. change (opens (trace w2)) with (t :: opens (trace (reset_task w t))). rewrite R4. cbn. split; intros [X|X]; auto. }
  assert (Sub : forall n x, In x (kids_of (gr w2) n) -> In x (kids_of (gr w) n)).
  { intros n x X. change (In x (kids_of (gr (reset_task w t)) n)) in X. destruct (N.eq_dec n (tn t)) as [->|Hn]; [|rewrite (R2 n Hn) in X; exact X].
    exfalso. pose proof (proj2 (wf_edata _ (proj1 R1) (tn t) x) X) as E. rewrite R8 in E. apply E. reflexivity. }
  assert (RTs : forall c x, RT w2 c x -> RT w c x) by (intros c x [->|Pth]; [left; reflexivity|right; apply (path_sub (gr w) (gr w2) Sub); exact Pth]).
  split; [|split].
  - intros c x Hc R. change (isC w2 c) with (memN c (consistent (reset_task w t)) = true) in Hc. rewrite R5 in Hc.
    pose proof (RTs c x R) as R'. destruct (A c x Hc R') as [A1 A2]. split; [|exact A2].
    intros X. apply Op in X. destruct X as [->|X]; [exact (HP c Hc R')|exact (A1 X)].
  - intros x y Hx N. change (isC w2 y) with (memN y (consistent (reset_task w t)) = true). rewrite R5.
    apply Op in Hx. destruct (N.eq_dec x t) as [->|Hne].
    + exfalso. destruct N as [[c [st N]]|[r [dp [N _]]]]; unfold row in N; change (gr w2) with (gr (reset_task w t)) in N; rewrite R8 in N; discriminate.
    + destruct Hx as [->|Hx]; [contradiction|]. apply (C x y Hx). assert (X : tn x <> tn t) by (intros E; apply tn_inj in E; contradiction).
      destruct N as [[c [st N]]|[r [dp [N [I E]]]]]; [left; exists c, st|right; exists r, dp; split; [|split; assumption]];
        unfold row in *; change (gr w2) with (gr (reset_task w t)) in N; rewrite (R7 _ _ X) in N; exact N.
  - intros x Hx. apply Op in Hx. destruct Hx as [->|Hx]; [exact Hq|exact (D x Hx)].
Qed.
Lemma TT_start w t : TT None w -> ~ isC w t -> ~ opn w t -> TT None (emit (set_cur (reset_task w t) (Some t)) (EExecStart t)).
Proof.
  intros [A B] Hc Ho. unfold TT. change (execs (trace (emit (set_cur (reset_task w t) (Some t)) (EExecStart t)))) with (t :: execs (trace w)).
  split.
  - constructor; [|exact A]. intros X. destruct (B t X) as [Y|[Y|Y]]; [exact (Hc Y)|exact (Ho Y)|discriminate].
  - intros x [<-|X]; [right; left; left; reflexivity|]. destruct (B x X) as [Y|[Y|Y]]; [left; exact Y|right; left; right; exact Y|discriminate].
Qed.

(* ---- end of an execution ---- *)
Definition endw (w : world) (t : task) (o : Z) (c : option task) : world := set_task_output (set_cur (emit w (EExecEnd t o)) c) t o.
Lemma opn_end w t o c x : opn (endw w t o c) x <-> opn w x /\ x <> t.
Proof. unfold opn. change (opens (trace (endw w t o c))) with (removeN t (opens (trace w))). apply In_removeN. Qed.
Lemma Om_end w t o c : Om w -> Om (endw w t o c).
Proof.
  intros [A [C D]]. split; [|split].
  - intros k x Hk R. destruct (A k x Hk R) as [A1 A2]. split; [|exact A2]. intros X. apply opn_end in X. exact (A1 (proj1 X)).
  - intros x y Hx N. apply opn_end in Hx. exact (C x y (proj1 Hx) N).
  - intros x Hx. apply opn_end in Hx. exact (D x (proj1 Hx)).
Qed.
Lemma TT_end w t o c : TT None w -> TT (Some t) (endw w t o c).
Proof.
  intros [A B]. split; [exact A|]. intros x X. change (In x (execs (trace w))) in X.
  destruct (B x X) as [Y|[Y|Y]]; [left; exact Y| |discriminate].
  destruct (N.eq_dec x t) as [->|Hne]; [right; right; reflexivity|right; left; apply opn_end; split; assumption].
Qed.
End OA.

(* ================= the static class ================= *)
Section ON.
Variable gen : res -> option task.
Variable wck : rcid -> Prop.
Variable ord : task -> nat.
Variable RC : rcid -> rchecker.
Variable OC : ocid -> ochecker.
Variable P : task -> prog.
Variable sf : rcid -> res -> content -> Z.
Hypothesis HS : forall c env r v, rc_stamp (RC c) env r v = inl (sf c r v).
Hypothesis HWF : forall t, WFP gen wck t [] (P t).
Hypothesis HWO : forall t, WFO ord t (P t).
Let HNR : forall t, NR [] (P t). Proof. intros t. eapply WFP_NR. apply HWF. Qed.

Notation K := (K RC OC P sf).
Notation Q := (Q gen ord).
Notation Om := (Om gen).
Notation OCs := (OCs gen).
Notation needs := (needs gen).
Notation okA := (okA gen ord).
Notation outQ := (outQ RC OC P sf).

Definition B (a : option task) (w : world) : Prop := VPre a w /\ K w /\ Q w /\ HB w.
Definition okB {A} (a : option task) (w : world) (m : outcome A) : Prop :=
  match m with
  | Done _ w1 => B a w1 /\ cur w1 = cur w /\ mono w w1 /\ FrameO a w w1 /\ opens (trace w1) = opens (trace w)
  | Abort _ _ => False
  | OutOfFuel => True
  end.
Lemma pack {A} a w (m : outcome A) X : B a w -> okR w m -> okN a w m -> okV a w m -> outQ m X -> okA m -> okH m -> okB a w m.
Proof.
  intros [Hw [Kw [Hq Hh]]] R N V KQ HA H. pose proof (step_pre a w m) as SP. specialize (SP) with (1 := Hw) (2 := R) (3 := N) (4 := V).
  destruct m as [x w1|k w1|]; cbn in *; [|exact HA|exact Logic.I].
  destruct (SP x w1 eq_refl) as [P1 [C1 [M1 [F1 O1]]]]. split; [split; [exact P1|split; [apply KQ|split; [exact HA|exact H]]]|]. split; [exact C1|split; [exact M1|split; assumption]].
Qed.

Lemma B_L a w : B a w -> L w. Proof. intros H. apply H. Qed.
Lemma B_S a w : B a w -> StoreOK w. Proof. intros H. apply H. Qed.
Lemma B_V a w : B a w -> V w. Proof. intros H. apply H. Qed.

(* every task reachable from a consistent task has an output *)
Lemma step_out w c a y : StoreOK w -> V w -> HB w -> Om w -> isC w c -> RT w c a -> get_task_output w a <> None ->
  In (tn y) (kids_of (gr w) (tn a)) -> get_task_output w y <> None.
Proof.
  intros [W [T _]] [N0 _] Hh [A _] Hc R Ho E.
  pose proof (proj2 (wf_edata _ W (tn a) (tn y)) E) as X. destruct (get_edata (gr w) (tn a) (tn y)) as [dp|] eqn:Ed; [|contradiction].
  destruct (T _ _ _ Ed) as [_ D]. destruct dp as [|y' c' st|r c' st|r c' st]; cbn in D.
  - exfalso. apply Ho. apply (N0 a (tn y)). exact Ed.
  - apply tn_inj in D. subst y'. destruct (Hh a y c' st Ed) as [Y|Y]; [exact Y|]. exfalso.
    apply (proj1 (A c y Hc (RT_trans w c a y R (or_intror (path1 _ _ _ E))))). exact Y.
  - exfalso. exact (tn_rn _ _ D).
  - exfalso. exact (tn_rn _ _ D).
Qed.
Lemma reachC_out w c x : StoreOK w -> V w -> HB w -> Om w -> isC w c -> RT w c x -> get_task_output w x <> None.
Proof.
  intros HS0 HV Hh HO Hc R.
  assert (Base : get_task_output w c <> None).
  { destruct (proj1 (proj2 HV) c Hc) as [Y|Y]; [exact Y|]. exfalso. exact (proj1 (proj1 HO c c Hc (or_introl eq_refl)) Y). }
  destruct R as [<-|Pth]; [exact Base|].
  assert (Gen : forall u v, path (gr w) u v -> forall a, u = tn a -> RT w c a -> get_task_output w a <> None -> forall y, v = tn y -> get_task_output w y <> None).
  { intros u v Pv. induction Pv as [u v E|u m v E Pv IH]; intros a -> Ra Hoa y ->.
    - apply (step_out w c a y); assumption.
    - pose proof (path_src_task (gr w) m (tn y) HS0 Pv) as Tm. apply even_tn' in Tm.
      rewrite Tm in E. apply (IH (un m) Tm); [|apply (step_out w c a (un m)); assumption|reflexivity].
      apply (RT_trans w c a (un m) Ra). right. apply path1. exact E. }
  apply (Gen _ _ Pth c eq_refl (or_introl eq_refl) Base x eq_refl).
Qed.
(* ---- the results of the earlier passes, bundled, for the bottom-up interpreters at fuel f ---- *)
Definition reqf (f : nat) := require_bu_with OC (bu_make_consistent RC OC P f).

Lemma fuel_facts f :
  VMC (bu_make_consistent RC OC P f) /\ VREQ (reqf f) /\ CertAll.QREQ RC OC P sf (reqf f) /\ AREQ gen ord RC OC P sf (reqf f) /\ HREQ (reqf f).
Proof.
  destruct (bottom_up_R RC OC P f) as [BR1 [BR2 BR3]]. destruct (bottom_up_N RC OC P f) as [BN1 [BN2 BN3]]. destruct (bottom_up_V RC OC P f) as [BV1 [BV2 BV3]].
  destruct (bottom_up_Q RC OC P sf HS HNR f) as [BQ1 [BQ2 BQ3]]. destruct (bottom_up_A gen wck ord RC OC P sf HS HWF HWO f) as [BA1 [BA2 BA3]].
  destruct (bottom_up_H RC OC P f) as [BH1 [BH2 BH3]].
  assert (HmcV : VMC (bu_make_consistent RC OC P f)) by (split; [split; [exact BR2|exact BN2]|exact BV2]).
  split; [exact HmcV|]. split; [apply (require_bu_with_V RC); [exact HmcV|apply (bu_out RC OC P f)]|].
  split; [apply (require_bu_with_Q RC OC P sf); [exact HmcV|exact BQ2]|]. split; [apply require_bu_with_A; [exact HmcV|exact BQ2|exact BA2]|].
  apply (require_bu_with_H RC); [exact BR2|exact BH2|apply (bu_out RC OC P f)].
Qed.

Lemma BES f a w t : B a w -> live (gr w) (tn t) = true -> reach a w t -> okB a w (bu_execute_and_schedule RC OC P f w t).
Proof.
  intros HB0 Lt R. pose proof HB0 as [Hw [Kw [Hq Hh]]].
  eapply pack; [exact HB0|apply (bottom_up_R RC OC P f); [apply Hw|exact Lt]|apply (bottom_up_N RC OC P f); [apply Hw|exact Lt|exact R]|
    apply (proj1 (bottom_up_V RC OC P f)); assumption|apply (proj1 (bottom_up_Q RC OC P sf HS HNR f) a); assumption|
    apply (proj1 (bottom_up_A gen wck ord RC OC P sf HS HWF HWO f) a); assumption|apply (proj1 (bottom_up_H RC OC P f)); [apply Hw|exact Lt|exact Hh]].
Qed.
Lemma BMC f a w t : B a w -> live (gr w) (tn t) = true -> reach a w t -> okB a w (bu_make_consistent RC OC P f w t).
Proof.
  intros HB0 Lt R. pose proof HB0 as [Hw [Kw [Hq Hh]]].
  eapply pack; [exact HB0|apply (bottom_up_R RC OC P f); [apply Hw|exact Lt]|apply (bottom_up_N RC OC P f); [apply Hw|exact Lt|exact R]|
    apply (proj1 (proj2 (bottom_up_V RC OC P f))); assumption|apply (proj1 (proj2 (bottom_up_Q RC OC P sf HS HNR f)) a); assumption|
    apply (proj1 (proj2 (bottom_up_A gen wck ord RC OC P sf HS HWF HWO f)) a); assumption|apply (proj1 (proj2 (bottom_up_H RC OC P f))); [apply Hw|exact Lt|exact Hh]].
Qed.
Lemma BRSN f a w t : B a w -> reach a w t -> okB a w (bu_require_scheduled_now RC OC P f w t).
Proof.
  intros HB0 R. pose proof HB0 as [Hw [Kw [Hq Hh]]].
  eapply pack; [exact HB0|apply (bottom_up_R RC OC P f); apply Hw|apply (bottom_up_N RC OC P f); [apply Hw|exact R]|
    apply (proj2 (proj2 (bottom_up_V RC OC P f))); assumption|apply (proj2 (proj2 (bottom_up_Q RC OC P sf HS HNR f)) a); assumption|
    apply (proj2 (proj2 (bottom_up_A gen wck ord RC OC P sf HS HWF HWO f)) a); assumption|apply (proj2 (proj2 (bottom_up_H RC OC P f))); [apply Hw|exact Hh]].
Qed.
Lemma BEX f a w t : B a w -> live (gr w) (tn t) = true -> reach a w t -> okB a w (execute_with RC OC P (reqf f) w t).
Proof.
  intros HB0 Lt R. pose proof HB0 as [Hw [Kw [Hq Hh]]]. destruct (fuel_facts f) as [F1 [F2 [F3 [F4 F5]]]].
  eapply pack; [exact HB0|apply execute_with_R; [exact (proj1 (proj1 F2))|apply Hw|exact Lt]|apply execute_with_N; [exact (proj1 F2)|apply Hw|exact Lt|exact R]|
    apply (execute_with_V RC OC P); assumption|apply (execute_with_Q RC OC P sf HS HNR _ a); assumption|
    apply (execute_with_A gen wck ord RC OC P sf HS HWF HWO _ a); assumption|apply execute_with_H; [exact (proj1 (proj1 F2))|exact F5|apply Hw|exact Lt|exact Hh]].
Qed.
Lemma BREQ f w x c s : B (Some s) w -> cur w = Some s -> (ord x < ord s)%nat -> ~ In (tn x) (kidsT w s) ->
  okB (Some s) w (reqf f w x c) /\ (forall o w', reqf f w x c = Done o w' -> RowStep s w w' (tn x) (DRequire x c (oc_stamp (OC c) o))).
Proof.
  intros HB0 Hc Ho Hn. pose proof HB0 as [Hw [Kw [Hq Hh]]]. destruct (fuel_facts f) as [F1 [F2 [F3 [F4 F5]]]].
  assert (Hw' : VPre (cur w) w) by (rewrite Hc; exact Hw).
  split.
  - eapply pack; [exact HB0|apply (proj1 (proj1 F2)); apply Hw| | | | |apply F5; [apply Hw|exact Hh]].
    + pose proof (proj2 (proj1 F2) w x c (proj1 Hw')) as X. rewrite Hc in X. exact X.
    + pose proof (proj2 F2 w x c Hw') as X. rewrite Hc in X. exact X.
    + apply (proj1 F3 w x c Hw' Kw).
    + apply (F4 w x c Hw' Kw Hq). intros t' X. rewrite Hc in X. inversion X; subst t'. split; assumption.
  - intros o w' E. apply (proj2 F3 w x c s o w' Hw' Kw Hc Hn E).
Qed.
(* the world right after an execution of t has started *)
Definition startw (w : world) (t : task) : world := emit (set_cur (reset_task w t) (Some t)) (EExecStart t).
Lemma start_B a w t : B a w -> live (gr w) (tn t) = true -> reach a w t ->
  B (Some t) (startw w t) /\ kidsT (startw w t) t = [] /\ ~ opn w t /\ OF (startw w t) t.
Proof.
  intros [Hw [Kw [Hq Hh]]] Lt R. unfold startw.
  destruct (exec_start_facts a w t (proj1 Hw) Lt R) as [Hnot [P2 PR]].
  destruct (reset_task_facts w t (proj1 (proj1 (proj1 Hw)))) as [R1 [R2 [R3 [R4 [R5 [R6 [R7 [R8 [R9 R10]]]]]]]]].
  set (w2 := emit (set_cur (reset_task w t) (Some t)) (EExecStart t)) in *.
  assert (V2 : V w2).
  { destruct Hw as [_ [N0 [Co0 [Oo0 Cu0]]]].
    assert (Op2 : opens (trace w2) = t :: opens (trace w)) by (change (t :: opens (trace (reset_task w t)) = t :: opens (trace w)); rewrite R4; reflexivity).
    split; [|split; [|split]].
    - intros s d X. change (get_edata (gr (reset_task w t)) (tn s) d = Some DReserved) in X. change (get_task_output (reset_task w t) s = None).
      destruct (N.eq_dec s t) as [->|Hs]; [exact R9|]. rewrite (R10 s Hs). apply (N0 s d). rewrite <- (R7 (tn s) d); [exact X|].
      intros E. apply Hs. apply tn_inj. exact E.
    - intros x X. change (memN x (consistent (reset_task w t)) = true) in X. rewrite R5 in X. rewrite Op2.
      destruct (N.eq_dec x t) as [->|Hx]; [right; left; reflexivity|]. change (get_task_output (reset_task w t) x <> None \/ In x (t :: opens (trace w))).
      rewrite (R10 x Hx). destruct (Co0 x X) as [Y|Y]; [left; exact Y|right; right; exact Y].
    - intros x X. rewrite Op2 in X. change (get_task_output (reset_task w t) x = None). destruct X as [<-|X]; [exact R9|].
      assert (Hx : x <> t) by (intros ->; contradiction). rewrite (R10 x Hx). apply Oo0. exact X.
    - intros s X. cbn in X. inversion X; subst s. rewrite Op2. left. reflexivity. }
  assert (K2 : K w2).
  { apply (K_frame RC OC P sf w); [|exact Kw]. intros y Hy. change (get_task_output (reset_task w t) y <> None) in Hy.
    assert (Hne : y <> t) by (intros ->; contradiction).
    split; [apply R10; exact Hne|]. unfold kidsT, row. change (gr w2) with (gr (reset_task w t)).
    split; [apply R2|intros d; apply R7]; intros E; apply tn_inj in E; contradiction. }
  assert (KT2 : kidsT w2 t = []).
  { unfold kidsT. change (gr w2) with (gr (reset_task w t)). destruct (kids_of (gr (reset_task w t)) (tn t)) as [|v tl] eqn:E; [reflexivity|]. exfalso.
    assert (X : get_edata (gr (reset_task w t)) (tn t) v <> None) by (apply (wf_edata _ (proj1 R1)); rewrite E; left; reflexivity).
    rewrite R8 in X. contradiction. }
  assert (Q2 : Q w2).
  { intros x. destruct (N.eq_dec x t) as [->|Hne].
    - apply QR_empty; [exact KT2|intros d; apply R8].
    - assert (X : tn x <> tn t) by (intros E; apply tn_inj in E; contradiction).
      apply (QR_same gen ord w); [apply R2; exact X|intros d; apply R7; exact X|apply Hq]. }
  split; [split; [split; [exact P2|exact V2]|split; [exact K2|split; [exact Q2|apply HB_start; [apply Hw|exact Hh]]]]|].
  split; [exact KT2|]. split; [exact Hnot|]. intros d. unfold row. change (gr w2) with (gr (reset_task w t)). rewrite R8. discriminate.
Qed.

(* ---- leaf operations of the executing task: they return (static class) and keep the bundle ---- *)
Record LeafStep (t : task) (w w1 : world) (d : node) (dp : dep) : Prop := mkLS {
  ls_B : B (Some t) w1;
  ls_cur : cur w1 = Some t;
  ls_leaf : Leaf t w w1;
  ls_row : RowStep t w w1 d dp;
  ls_q3 : q3 w w1;
  ls_queue : queue w1 = queue w
}.

Lemma B_read w t r c : B (Some t) w -> cur w = Some t -> ~ In (rn r) (kidsT w t) ->
  (gen r = None \/ exists g, gen r = Some g /\ In (tn g) (kidsT w t)) ->
  exists xv w1, sess_read RC w r c = Done xv w1 /\ xv = inl (rc_view (RC c) (get_content w r)) /\
    LeafStep t w w1 (rn r) (DRead r c (sf c r (get_content w r))).
Proof.
  intros [Hw [Kw [Hq Hh]]] Hc Hx Hg.
  destruct (sess_read_ret gen ord RC sf HS w t r c (proj1 (proj1 (proj1 Hw))) Hc (cur_live _ w t Hw Hc) Hq Hg) as [xv [w1 Eq]].
  pose proof (sess_read_leaf RC w t r c (proj1 (proj1 (proj1 Hw))) Hc) as LF.
  pose proof (step_pre (Some t) w (sess_read RC w r c)) as SP.
  specialize (SP) with (1 := Hw) (2 := sess_read_R RC w r c (proj1 (proj1 Hw))) (3 := q3O_okN (Some t) w _ (sess_read_q3 RC w r c (proj1 (proj1 Hw))) (proj2 (proj2 (proj1 Hw))))
                       (4 := lvO_okV (Some t) w _ (sess_read_lv RC w r c (proj1 (proj1 Hw))) (proj2 Hw)).
  pose proof (sess_read_q3 RC w r c (proj1 (proj1 Hw))) as Q3. pose proof (sess_read_q RC w r c) as QQ. pose proof (sess_read_hq RC w r c (proj1 (proj1 Hw))) as HQ.
  destruct (sess_read_row RC sf HS w t r c xv w1 (proj1 (proj1 (proj1 Hw))) Hc Hx Eq) as [Ex RS].
  rewrite Eq in *. cbn [leafO q3O hqO] in *. destruct (SP xv w1 eq_refl) as [P1 [C1 _]]. rewrite Hc in C1.
  exists xv, w1. split; [reflexivity|]. split; [exact Ex|]. constructor; [|exact C1|exact LF|exact RS|exact Q3|exact QQ].
  split; [exact P1|]. split; [apply (leaf_K RC OC P sf t w w1 LF (cur_no_output _ w t Hw Hc) Kw)|]. split; [|eapply HB_hq; eassumption].
  intros a. destruct (N.eq_dec a t) as [->|Hne]; [|apply (Q_leaf_other gen ord t w w1 a LF Hne); apply Hq].
  apply (QR_step gen ord t w w1 _ _ RS (Hq t)).
  - intros y E. exfalso. symmetry in E. exact (tn_rn _ _ E).
  - intros r0 _ X. discriminate.
  - intros r0 E _. assert (r0 = r) by (unfold rn in E; lia). subst r0. exact Hg.
Qed.
Lemma B_write w t r c v : B (Some t) w -> cur w = Some t -> ~ In (rn r) (kidsT w t) -> gen r = Some t ->
  exists xv w1, sess_write RC w r c v = Done xv w1 /\ xv = inl tt /\ LeafStep t w w1 (rn r) (DWrite r c (sf c r v)).
Proof.
  intros [Hw [Kw [Hq Hh]]] Hc Hx Hg.
  destruct (sess_write_ret gen ord RC sf HS w t r c v (proj1 (proj1 (proj1 Hw))) Hc (cur_live _ w t Hw Hc) Hq Hg Hx) as [xv [w1 Eq]].
  pose proof (sess_write_leaf RC w t r c v (proj1 (proj1 (proj1 Hw))) Hc) as LF.
  pose proof (step_pre (Some t) w (sess_write RC w r c v)) as SP.
  specialize (SP) with (1 := Hw) (2 := sess_write_R RC w r c v (proj1 (proj1 Hw))) (3 := q3O_okN (Some t) w _ (sess_write_q3 RC w r c v (proj1 (proj1 Hw))) (proj2 (proj2 (proj1 Hw))))
                       (4 := lvO_okV (Some t) w _ (sess_write_lv RC w r c v (proj1 (proj1 Hw))) (proj2 Hw)).
  pose proof (sess_write_q3 RC w r c v (proj1 (proj1 Hw))) as Q3. pose proof (sess_write_q RC w r c v) as QQ. pose proof (sess_write_hq RC w r c v (proj1 (proj1 Hw))) as HQ.
  destruct (sess_write_row RC sf HS w t r c v xv w1 (proj1 (proj1 (proj1 Hw))) Hc Hx Eq) as [Ex RS].
  rewrite Eq in *. cbn [leafO q3O hqO] in *. destruct (SP xv w1 eq_refl) as [P1 [C1 _]]. rewrite Hc in C1.
  exists xv, w1. split; [reflexivity|]. split; [exact Ex|]. constructor; [|exact C1|exact LF|exact RS|exact Q3|exact QQ].
  split; [exact P1|]. split; [apply (leaf_K RC OC P sf t w w1 LF (cur_no_output _ w t Hw Hc) Kw)|]. split; [|eapply HB_hq; eassumption].
  intros a. destruct (N.eq_dec a t) as [->|Hne]; [|apply (Q_leaf_other gen ord t w w1 a LF Hne); apply Hq].
  apply (QR_step gen ord t w w1 _ _ RS (Hq t)).
  - intros y E. exfalso. symmetry in E. exact (tn_rn _ _ E).
  - intros r0 E _. assert (r0 = r) by (unfold rn in E; lia). subst r0. exact Hg.
  - intros r0 _ X. discriminate.
Qed.
Lemma B_written_to w t r c v : B (Some t) w -> cur w = Some t -> ~ In (rn r) (kidsT w t) -> gen r = Some t ->
  exists xv w1, sess_written_to RC w r c v = Done xv w1 /\ xv = inl tt /\ LeafStep t w w1 (rn r) (DWrite r c (sf c r v)).
Proof.
  intros [Hw [Kw [Hq Hh]]] Hc Hx Hg.
  destruct (sess_written_to_ret gen ord RC sf HS w t r c v (proj1 (proj1 (proj1 Hw))) Hc (cur_live _ w t Hw Hc) Hq Hg Hx) as [xv [w1 Eq]].
  pose proof (sess_written_to_leaf RC w t r c v (proj1 (proj1 (proj1 Hw))) Hc) as LF.
  pose proof (step_pre (Some t) w (sess_written_to RC w r c v)) as SP.
  specialize (SP) with (1 := Hw) (2 := sess_written_to_R RC w r c v (proj1 (proj1 Hw))) (3 := q3O_okN (Some t) w _ (sess_written_to_q3 RC w r c v (proj1 (proj1 Hw))) (proj2 (proj2 (proj1 Hw))))
                       (4 := lvO_okV (Some t) w _ (sess_written_to_lv RC w r c v (proj1 (proj1 Hw))) (proj2 Hw)).
  pose proof (sess_written_to_q3 RC w r c v (proj1 (proj1 Hw))) as Q3. pose proof (sess_written_to_q RC w r c v) as QQ. pose proof (sess_written_to_hq RC w r c v (proj1 (proj1 Hw))) as HQ.
  destruct (sess_written_to_row RC sf HS w t r c v xv w1 (proj1 (proj1 (proj1 Hw))) Hc Hx Eq) as [Ex RS].
  rewrite Eq in *. cbn [leafO q3O hqO] in *. destruct (SP xv w1 eq_refl) as [P1 [C1 _]]. rewrite Hc in C1.
  exists xv, w1. split; [reflexivity|]. split; [exact Ex|]. constructor; [|exact C1|exact LF|exact RS|exact Q3|exact QQ].
  split; [exact P1|]. split; [apply (leaf_K RC OC P sf t w w1 LF (cur_no_output _ w t Hw Hc) Kw)|]. split; [|eapply HB_hq; eassumption].
  intros a. destruct (N.eq_dec a t) as [->|Hne]; [|apply (Q_leaf_other gen ord t w w1 a LF Hne); apply Hq].
  apply (QR_step gen ord t w w1 _ _ RS (Hq t)).
  - intros y E. exfalso. symmetry in E. exact (tn_rn _ _ E).
  - intros r0 E _. assert (r0 = r) by (unfold rn in E; lia). subst r0. exact Hg.
  - intros r0 _ X. discriminate.
Qed.
Lemma cur_opn a w t : B a w -> cur w = Some t -> opn w t.
Proof. intros H Hc. apply (proj2 (proj2 (proj2 (B_V a w H)))). exact Hc. Qed.

Lemma q3_TT e w w1 : q3 w w1 -> consistent w1 = consistent w -> TT e w -> TT e w1.
Proof.
  intros [[s [T F]] _] Cs [A0 B0]. unfold TT, isC, opn. rewrite T, execs_app, (execs_ev3 s F), (opens_app3 s _ F), Cs. split; assumption.
Qed.

(* a read / write of the executing task keeps the invariant *)
Lemma Om_leaf t w w1 r dp : LeafStep t w w1 (rn r) dp -> B (Some t) w -> cur w = Some t -> Om w -> OF w t ->
  dp <> DReserved -> (forall y c st, dp <> DRequire y c st) ->
  (is_read (Some dp) = true -> gen r = None \/ exists g, gen r = Some g /\ In (tn g) (kidsT w t)) ->
  Om w1 /\ OF w1 t /\ (forall e, TT e w -> TT e w1).
Proof.
  intros [B1 C1 LF [RK [RD RO]] Q3 Qu] HB0 Hc HO HF Hd1 Hd2 Hg.
  pose proof (cur_opn _ w t HB0 Hc) as Ot. pose proof (B_S _ w HB0) as [W [Ty _]].
  assert (Op : opens (trace w1) = opens (trace w)) by (destruct Q3 as [[s [T F]] _]; rewrite T; apply opens_app3; exact F).
  split; [|split].
  - apply (Om_grow gen t w w1 Ot); [apply (lf_grows _ _ _ LF)|apply (lf_eother _ _ _ LF)|apply (lf_cons _ _ _ LF)|exact Op|exact Qu| |exact HO].
    intros y N. left. destruct N as [[c [st N]]|[r' [dp' [N [I E]]]]].
    + left. exists c, st. rewrite <- (RO (tn y)); [exact N|]. apply tn_rn.
    + destruct (N.eq_dec (rn r') (rn r)) as [Er|Er].
      * assert (r' = r) by (unfold rn in Er; lia). subst r'. rewrite RD in N. inversion N; subst dp'.
        destruct (Hg I) as [G|[g [G Ig]]]; [congruence|]. rewrite G in E. inversion E; subst g.
        pose proof (proj2 (wf_edata _ W (tn t) (tn y)) Ig) as X. destruct (get_edata (gr w) (tn t) (tn y)) as [d0|] eqn:Ed; [|contradiction].
        destruct (Ty _ _ _ Ed) as [_ D]. destruct d0 as [|y' c' st'|r0 c' st'|r0 c' st']; cbn in D.
        -- exfalso. apply (HF (tn y)). exact Ed.
        -- apply tn_inj in D. subst y'. left. exists c', st'. exact Ed.
        -- exfalso. exact (tn_rn _ _ D).
        -- exfalso. exact (tn_rn _ _ D).
      * right. exists r', dp'. split; [rewrite <- (RO (rn r') Er); exact N|split; assumption].
  - intros d. destruct (N.eq_dec d (rn r)) as [->|Hne]; [rewrite RD; intros X; inversion X; contradiction|rewrite (RO d Hne); apply HF].
  - intros e. apply q3_TT; [exact Q3|apply (lf_cons _ _ _ LF)].
Qed.
(* ---- the interpreters ---- *)
Definition okO {A} (m : outcome A) (Post : A -> world -> Prop) : Prop := match m with Done x w' => Post x w' | _ => True end.

Definition OREQ (req : world -> task -> ocid -> outcome Z) : Prop :=
  forall w x c s, B (Some s) w -> cur w = Some s -> (ord x < ord s)%nat -> ~ In (tn x) (kidsT w s) -> Om w -> TT None w -> OF w s ->
    okO (req w x c) (fun _ w' => Om w' /\ TT None w').

Lemma exec_prog_O f t : OREQ (reqf f) -> forall p w, B (Some t) w -> cur w = Some t -> Om w -> TT None w -> OF w t ->
  WFP gen wck t (kidsT w t) p -> WFO ord t p ->
  okO (exec_prog RC OC (reqf f) p w) (fun _ w' => Om w' /\ TT None w' /\ OF w' t /\ B (Some t) w' /\ opens (trace w') = opens (trace w)).
Proof.
  intros HR. induction p as [o| |x c k IH|r c k IH|r c v k IH|r c v k IH]; intros w HB0 Hc HO HT HF HW HWo; cbn [exec_prog okO].
  - split; [exact HO|split; [exact HT|split; [exact HF|split; [exact HB0|reflexivity]]]].
  - exact Logic.I.
  - inversion HW as [| |sn x' c' k' Hx Hk| | |]; subst. inversion HWo as [|x' c' k' Hox Hok| | |]; subst.
    destruct (BREQ f w x c t HB0 Hc Hox Hx) as [BQ RS]. pose proof (HR w x c t HB0 Hc Hox Hx HO HT HF) as RO.
    destruct (reqf f w x c) as [ox w1|k1 w1|]; cbn [bind okB okO] in *; [|exact Logic.I|exact Logic.I].
    destruct BQ as [B1 [C1 [_ [_ Op1]]]]. rewrite Hc in C1. destruct (RS ox w1 eq_refl) as [RK [RD RO']]. destruct RO as [O1 T1].
    assert (F1 : OF w1 t) by (intros d; destruct (N.eq_dec d (tn x)) as [->|Hne]; [rewrite RD; discriminate|rewrite (RO' d Hne); apply HF]).
    specialize (IH (oc_view (OC c) ox) w1 B1 C1 O1 T1 F1). rewrite RK in IH. specialize (IH (Hk _) (Hok _)).
    destruct (exec_prog RC OC (reqf f) (k (oc_view (OC c) ox)) w1) as [o w'|k2 w'|]; cbn [okO] in *; [|exact Logic.I|exact Logic.I].
    destruct IH as [X1 [X2 [X3 [X4 X5]]]]. split; [exact X1|split; [exact X2|split; [exact X3|split; [exact X4|congruence]]]].
  - inversion HW as [| | |sn r' c' k' Hx Hg Hk| |]; subst. inversion HWo as [| |r' c' k' Hok| |]; subst.
    destruct (B_read w t r c HB0 Hc Hx Hg) as [xv [w1 [Eq [Ex LS]]]]. rewrite Eq. cbn [bind].
    destruct (Om_leaf t w w1 r _ LS HB0 Hc HO HF ltac:(discriminate) ltac:(intros; discriminate) ltac:(intros _; exact Hg)) as [O1 [F1 T1]].
    assert (Op1 : opens (trace w1) = opens (trace w)) by (destruct (ls_q3 _ _ _ _ _ LS) as [[s0 [T0 F0]] _]; rewrite T0; apply opens_app3; exact F0).
    specialize (IH xv w1 (ls_B _ _ _ _ _ LS) (ls_cur _ _ _ _ _ LS) O1 (T1 _ HT) F1). rewrite (proj1 (ls_row _ _ _ _ _ LS)) in IH. specialize (IH (Hk _) (Hok _)).
    destruct (exec_prog RC OC (reqf f) (k xv) w1) as [o w'|k2 w'|]; cbn [okO] in *; [|exact Logic.I|exact Logic.I].
    destruct IH as [X1 [X2 [X3 [X4 X5]]]]. split; [exact X1|split; [exact X2|split; [exact X3|split; [exact X4|congruence]]]].
  - inversion HW as [| | | |sn r' c' v' k' Hx Hg Hwc Hk|]; subst. inversion HWo as [| | |r' c' v' k' Hok|]; subst.
    destruct (B_write w t r c v HB0 Hc Hx Hg) as [xv [w1 [Eq [Ex LS]]]]. rewrite Eq. cbn [bind].
    destruct (Om_leaf t w w1 r _ LS HB0 Hc HO HF ltac:(discriminate) ltac:(intros; discriminate) ltac:(intros X; discriminate)) as [O1 [F1 T1]].
    assert (Op1 : opens (trace w1) = opens (trace w)) by (destruct (ls_q3 _ _ _ _ _ LS) as [[s0 [T0 F0]] _]; rewrite T0; apply opens_app3; exact F0).
    specialize (IH xv w1 (ls_B _ _ _ _ _ LS) (ls_cur _ _ _ _ _ LS) O1 (T1 _ HT) F1). rewrite (proj1 (ls_row _ _ _ _ _ LS)) in IH. specialize (IH (Hk _) (Hok _)).
    destruct (exec_prog RC OC (reqf f) (k xv) w1) as [o w'|k2 w'|]; cbn [okO] in *; [|exact Logic.I|exact Logic.I].
    destruct IH as [X1 [X2 [X3 [X4 X5]]]]. split; [exact X1|split; [exact X2|split; [exact X3|split; [exact X4|congruence]]]].
  - inversion HW as [| | | | |sn r' c' v' k' Hx Hg Hwc Hk]; subst. inversion HWo as [| | | |r' c' v' k' Hok]; subst.
    destruct (B_written_to w t r c v HB0 Hc Hx Hg) as [xv [w1 [Eq [Ex LS]]]]. rewrite Eq. cbn [bind].
    destruct (Om_leaf t w w1 r _ LS HB0 Hc HO HF ltac:(discriminate) ltac:(intros; discriminate) ltac:(intros X; discriminate)) as [O1 [F1 T1]].
    assert (Op1 : opens (trace w1) = opens (trace w)) by (destruct (ls_q3 _ _ _ _ _ LS) as [[s0 [T0 F0]] _]; rewrite T0; apply opens_app3; exact F0).
    specialize (IH xv w1 (ls_B _ _ _ _ _ LS) (ls_cur _ _ _ _ _ LS) O1 (T1 _ HT) F1). rewrite (proj1 (ls_row _ _ _ _ _ LS)) in IH. specialize (IH (Hk _) (Hok _)).
    destruct (exec_prog RC OC (reqf f) (k xv) w1) as [o w'|k2 w'|]; cbn [okO] in *; [|exact Logic.I|exact Logic.I].
    destruct IH as [X1 [X2 [X3 [X4 X5]]]]. split; [exact X1|split; [exact X2|split; [exact X3|split; [exact X4|congruence]]]].
Qed.

(* the first edge of a path out of the executing task t at the end of its program: a recorded require of a consistent task *)
Lemma kid_of_finished w t k : B (Some t) w -> Om w -> OF w t -> opn w t -> In k (kids_of (gr w) (tn t)) ->
  (exists r, k = rn r) \/ (exists y, k = tn y /\ isC w y).
Proof.
  intros HB0 [_ [HC _]] HF Ot Ik. pose proof (B_S _ w HB0) as [W [Ty _]].
  pose proof (proj2 (wf_edata _ W (tn t) k) Ik) as X. destruct (get_edata (gr w) (tn t) k) as [d0|] eqn:Ed; [|contradiction].
  destruct (Ty _ _ _ Ed) as [_ D]. destruct d0 as [|y c st|r c st|r c st]; cbn in D.
  - exfalso. apply (HF k). exact Ed.
  - right. exists y. split; [exact D|]. subst k. apply (HC t y Ot). left. exists c, st. exact Ed.
  - left. exists r. exact D.
  - left. exists r. exact D.
Qed.

Lemma execute_with_O f a w t : OREQ (reqf f) -> B a w -> live (gr w) (tn t) = true -> reach a w t -> Om w -> TT None w -> P3 w t -> ~ In t (queue w) ->
  okO (execute_with RC OC P (reqf f) w t) (fun _ w1 => Om w1 /\ TT (Some t) w1 /\ Fin w1 t /\ P3 w1 t).
Proof.
  intros HR HB0 Lt R HO HT HP Hq. unfold execute_with. fold (startw w t).
  destruct (start_B a w t HB0 Lt R) as [B2 [KT2 [Hnot HF2]]].
  assert (NC : ~ isC w t) by (intros X; exact (HP t X (or_introl eq_refl))).
  pose proof (Om_start gen w t (B_S _ w HB0) HO HP Hq) as O2. fold (startw w t) in O2.
  pose proof (TT_start w t HT NC Hnot) as T2. fold (startw w t) in T2.
  pose proof (exec_prog_O f t HR (P t) (startw w t) B2 eq_refl O2 T2 HF2) as X. rewrite KT2 in X. specialize (X (HWF t) (HWO t)).
  destruct (exec_prog RC OC (reqf f) (P t) (startw w t)) as [o w3|k w3|]; cbn [bind okO] in *; [|exact Logic.I|exact Logic.I].
  destruct X as [O3 [T3 [F3 [B3 Op3]]]].
  assert (Ot3 : opn w3 t) by (unfold opn; rewrite Op3; left; reflexivity).
  fold (endw w3 t o (cur (reset_task w t))). set (w4 := endw w3 t o (cur (reset_task w t))).
  split; [apply Om_end; exact O3|]. split; [apply TT_end; exact T3|].
  assert (Same : forall c x, RT w4 c x -> RT w3 c x) by (intros c x Y; exact Y).
  split.
  - intros x Rx. assert (NQ : ~ In t (queue w3)) by (apply (proj2 (proj2 O3)); exact Ot3).
    destruct Rx as [<-|Pth]; [split; [intros Y; apply opn_end in Y; apply (proj2 Y); reflexivity|exact NQ]|].
    change (path (gr w3) (tn t) (tn x)) in Pth.
    assert (Gen : forall k, In k (kids_of (gr w3) (tn t)) -> (k = tn x \/ path (gr w3) k (tn x)) -> ~ opn w3 x /\ ~ In x (queue w3)).
    { intros k Ik Hk. destruct (kid_of_finished w3 t k B3 O3 F3 Ot3 Ik) as [[r ->]|[y [-> Cy]]].
      - exfalso. destruct Hk as [E|Pk]; [symmetry in E; exact (tn_rn _ _ E)|]. pose proof (path_src_task _ _ _ (B_S _ w3 B3) Pk) as Tk. rewrite rn_odd in Tk. discriminate.
      - apply (proj1 O3 y x Cy). destruct Hk as [E|Pk]; [left; apply tn_inj; exact E|right; exact Pk]. }
    assert (Res : ~ opn w3 x /\ ~ In x (queue w3)).
    { inversion Pth as [u v Ik|u k v Ik Pk]; subst; [apply (Gen (tn x) Ik); left; reflexivity|apply (Gen k Ik); right; exact Pk]. }
    split; [intros Y; apply opn_end in Y; exact (proj1 Res (proj1 Y))|exact (proj2 Res)].
  - intros c Hc Rc. exact (proj1 (proj1 O3 c t Hc Rc) Ot3).
Qed.
Lemma TT_same e w w' : trace w' = trace w -> consistent w' = consistent w -> TT e w -> TT e w'.
Proof. intros T C. unfold TT, isC, opn. rewrite T, C. trivial. Qed.

(* the prefix of a require made by the executing task s: event, node, reservation *)
Lemma reserve_B w s x c w3 : B (Some s) w -> cur w = Some s -> (ord x < ord s)%nat -> ~ In (tn x) (kidsT w s) ->
  let w2 := get_or_create_task_node (emit w (ERequireStart x c)) x in
  add_dependency w2 (tn s) (tn x) DReserved = (AddOk, w3) ->
  B (Some s) w2 /\ qq w w2 /\
  B (Some s) w3 /\ cur w3 = Some s /\ live (gr w3) (tn x) = true /\ reach (Some s) w3 x /\
  (forall n, n <> tn s -> EqN w2 w3 n) /\ (forall v, v <> tn x -> get_edata (gr w3) (tn s) v = get_edata (gr w2) (tn s) v) /\
  get_edata (gr w3) (tn s) (tn x) = Some DReserved /\ consistent w3 = consistent w2 /\ trace w3 = trace w2 /\ queue w3 = queue w2.
Proof.
  intros [[Hw HV] [Kw [Hq Hh]]] Hc Ho Hnew w2 E. set (w1 := emit w (ERequireStart x c)) in *.
  assert (Q2l : lv w w2) by (eapply lv_trans; [apply (lv_emit w (ERequireStart x c)); reflexivity|apply lv_goc_task]).
  assert (G2 : geq w w2) by (eapply geq_trans; [apply (geq_same w w1); reflexivity|apply geq_goc_task]).
  assert (L2 : L w2) by (apply goc_task_L; apply L_emit; apply Hw).
  assert (C2 : cur w2 = cur w) by apply Q2l.
  assert (P2 : VPre (Some s) w2) by (eapply lv_VPre; [exact Q2l|exact L2|split; assumption]).
  assert (K2 : K w2) by (apply (geq_K RC OC P sf w); [exact G2|apply Q2l|exact Kw]).
  assert (Q2 : Q w2) by (apply (geq_Q gen ord w); assumption).
  assert (H2 : HB w2) by (apply (HB_hq w); [eapply hq_trans; [apply (hq_emit w (ERequireStart x c)); reflexivity|apply hq_goc_task]|exact Hh]).
  assert (QQ2 : qq w w2) by (eapply qq_trans; [apply (qq_emit w (ERequireStart x c)); reflexivity|apply qq_goc_task]).
  assert (Lt : live (gr w2) (tn x) = true) by apply live_goc_task.
  rewrite Hc in C2.
  assert (NB : AddOk <> AddBug) by discriminate.
  destruct (reserve_V w2 x s w3 AddOk L2 (proj2 P2) C2 E NB) as [V3 [O3 [Co3 [Qu3 [T3 [C3 RES3]]]]]].
  pose proof (reserve_R RC w2 x L2 Lt) as RR. pose proof (reserve_q3 w2 x L2) as RQ. unfold reserve_require_dependency in RR, RQ. rewrite C2, E in RR, RQ.
  cbn [okR q3O] in RR, RQ. destruct RR as [L3 M3].
  assert (NoOut : get_task_output w2 s = None) by (apply (cur_no_output (Some s) w2 s P2 C2)).
  assert (K3 : K w3).
  { apply (K_frame RC OC P sf w2); [|exact K2]. intros y Hy. unfold get_task_output in *. rewrite O3 in *.
    assert (Hne : tn y <> tn s) by (intros X; apply tn_inj in X; subst y; contradiction).
    split; [reflexivity|]. apply (add_dep_rows w2 (tn s) (tn x) DReserved w3 AddOk (proj1 (proj1 L2)) E NB (tn y) Hne). }
  destruct (goc_task_row w1 x s) as [KK2 RR2]. fold w2 in KK2, RR2.
  assert (Hn2 : ~ In (tn x) (kids_of (gr w2) (tn s))) by (unfold kidsT in *; rewrite KK2; exact Hnew).
  destruct (add_dep_new w2 (tn s) (tn x) DReserved w3 (proj1 (proj1 L2)) Hn2 E) as [A3 [B3 D3]].
  assert (Q3 : Q w3).
  { intros y. destruct (N.eq_dec y s) as [->|Hne].
    - apply (QR_step gen ord s w2 w3 (tn x) DReserved); [|apply Q2| | |].
      + unfold RowStep, kidsT, row. split; [exact A3|]. split; [exact B3|exact D3].
      + intros y Ey. apply tn_inj in Ey. subst y. exact Ho.
      + intros r Er. exfalso. exact (tn_rn _ _ Er).
      + intros r Er. exfalso. exact (tn_rn _ _ Er).
    - assert (X : tn y <> tn s) by (intros Ex; apply tn_inj in Ex; contradiction).
      destruct (add_dep_rows w2 (tn s) (tn x) DReserved w3 AddOk (proj1 (proj1 L2)) E NB (tn y) X) as [Y1 Y2].
      apply (QR_same gen ord w2); [exact Y1|exact Y2|apply Q2]. }
  assert (P3' : Pre (Some s) w3) by (eapply q3_Pre; [exact RQ|exact L3|apply P2]).
  assert (Edge : In (tn x) (kids_of (gr w3) (tn s))) by (apply (add_dependency_edge w2 (tn s) (tn x) DReserved w3 (proj1 (proj1 L2)) E)).
  assert (H3 : HB w3).
  { apply (HB_hq w2); [|exact H2]. pose proof (hq_add_dependency w2 (tn s) (tn x) DReserved (proj1 (proj1 L2)) ltac:(intros; discriminate)) as X.
    rewrite E in X. apply X. discriminate. }
  split; [split; [exact P2|split; [exact K2|split; [exact Q2|exact H2]]]|]. split; [exact QQ2|].
  split; [split; [split; [exact P3'|exact V3]|split; [exact K3|split; [exact Q3|exact H3]]]|].
  split; [rewrite C3; exact C2|]. split; [apply M3; exact Lt|]. split; [intros c' X; inversion X; subst c'; apply path1; exact Edge|].
  split; [intros n Hn; apply (add_dep_rows w2 (tn s) (tn x) DReserved w3 AddOk (proj1 (proj1 L2)) E NB n Hn)|].
  split; [exact D3|]. split; [exact B3|]. split; [exact Co3|]. split; [exact T3|exact Qu3].
Qed.

Lemma Om_update_mark s x c st w : opn w s -> Om w -> Fin w x ->
  Om (mark_consistent (set_gr w (insert_edata (gr w) (tn s) (tn x) (DRequire x c st))) x).
Proof.
  intros Os [A [C D]] HF. set (w6 := set_gr w (insert_edata (gr w) (tn s) (tn x) (DRequire x c st))).
  assert (RTs : forall a b, RT (mark_consistent w6 x) a b -> RT w a b).
  { intros a b [->|Pth]; [left; reflexivity|right]. apply (path_sub (gr w) (gr (mark_consistent w6 x))); [|exact Pth].
    intros n y Y. change (gr (mark_consistent w6 x)) with (insert_edata (gr w) (tn s) (tn x) (DRequire x c st)) in Y.
    rewrite (proj1 (insert_edata_same (gr w) (tn s) (tn x) (DRequire x c st)) n) in Y. exact Y. }
  assert (Row : forall y d, row (mark_consistent w6 x) y d = if pair_eqb (tn s, tn x) (tn y, d) then Some (DRequire x c st) else row w y d).
  { intros y d. unfold row. change (gr (mark_consistent w6 x)) with (insert_edata (gr w) (tn s) (tn x) (DRequire x c st)). apply get_edata_insert. }
  split; [|split].
  - intros a b Ha R. apply isC_mark in Ha. destruct Ha as [->|Ha]; [apply (HF b (RTs _ _ R))|apply (A a b Ha (RTs _ _ R))].
  - intros a y Oa N. apply isC_mark.
    destruct N as [[c' [st' N]]|[r [dp [N [I E]]]]]; rewrite Row in N.
    + destruct (pair_eqb (tn s, tn x) (tn a, tn y)) eqn:Z.
      * apply pair_eqb_eq in Z. inversion Z as [[Z1 Z2]]. apply tn_inj in Z2. left. symmetry. exact Z2.
      * right. apply (C a y Oa). left. exists c', st'. exact N.
    + destruct (pair_eqb (tn s, tn x) (tn a, rn r)) eqn:Z.
      * apply pair_eqb_eq in Z. inversion Z as [[Z1 Z2]]. exfalso. exact (tn_rn _ _ Z2).
      * right. apply (C a y Oa). right. exists r, dp. split; [exact N|split; assumption].
  - exact D.
Qed.

Definition OMC (mc : world -> task -> outcome Z) : Prop :=
  forall a w t, B a w -> live (gr w) (tn t) = true -> reach a w t -> Om w -> TT None w ->
    okO (mc w t) (fun _ w' => Om w' /\ TT (Some t) w' /\ Fin w' t).
Lemma Fin_qq w w' t : qq w w' -> Fin w t -> Fin w' t.
Proof.
  intros Hq HF x R. pose proof (qq_opens w w' Hq) as Op. destruct Hq as [G [_ [_ Q0]]].
  destruct (HF x (geq_RT w w' t x G R)) as [A1 A2]. unfold opn. rewrite Op. split; [exact A1|intros X; apply A2, Q0, X].
Qed.

Lemma require_bu_with_O f : OMC (bu_make_consistent RC OC P f) -> OREQ (reqf f).
Proof.
  intros HM w x c s HB0 Hc Ho Hn HO HT HF. unfold reqf, require_bu_with, require_with.
  set (w1 := emit w (ERequireStart x c)). set (w2 := get_or_create_task_node w1 x).
  assert (C2 : cur w2 = Some s) by (unfold w2, get_or_create_task_node; destruct (live _ _); exact Hc).
  unfold reserve_require_dependency. rewrite C2.
  destruct (add_dependency w2 (tn s) (tn x) DReserved) as [ar w3] eqn:E.
  destruct ar; cbn [bind okO]; [|exact Logic.I|exact Logic.I].
  destruct (reserve_B w s x c w3 HB0 Hc Ho Hn E) as [B2 [QQ2 [B3 [C3 [Lt3 [R3 [EN [ED [ER [Co3 [T3 Qu3]]]]]]]]]]]. fold w1 w2 in B2, QQ2, EN, ED, Co3, T3, Qu3.
  pose proof (Om_qq gen w w2 QQ2 HO) as O2. pose proof (TT_qq None w w2 QQ2 HT) as T2.
  pose proof (cur_opn _ w2 s B2 C2) as Os2.
  assert (O3 : Om w3).
  { apply (Om_grow gen s w2 w3 Os2); [intros n Hn'; apply (proj1 (EN n Hn'))|intros m d Hm; apply (proj2 (EN m Hm))|exact Co3|rewrite T3; reflexivity|exact Qu3| |exact O2].
    intros y N. left. destruct N as [[c' [st' N]]|[r [dp [N [I E']]]]]; unfold row in N.
    - destruct (N.eq_dec (tn y) (tn x)) as [Ey|Ey]; [rewrite Ey, ER in N; discriminate|]. left. exists c', st'. unfold row. rewrite <- (ED _ Ey). exact N.
    - right. exists r, dp. split; [unfold row; rewrite <- (ED (rn r)); [exact N|intros X; symmetry in X; exact (tn_rn _ _ X)]|split; assumption]. }
  pose proof (TT_same None w2 w3 T3 Co3 T2) as TT3.
  pose proof (HM (Some s) w3 x B3 Lt3 R3 O3 TT3) as MO. pose proof (BMC f (Some s) w3 x B3 Lt3 R3) as MB.
  destruct (bu_make_consistent RC OC P f w3 x) as [o w4|k w4|]; cbn [bind okO okB] in *; [|exact Logic.I|exact Logic.I].
  destruct MB as [B4 [C4 [_ [_ Op4]]]]. destruct MO as [O4 [T4 F4]].
  set (st := oc_stamp (OC c) o). set (w5 := emit w4 (ERequireEnd x c st o)).
  unfold update_require_dependency. change (cur w5) with (cur w4). rewrite C4, C3. change (gr w5) with (gr w4).
  destruct (get_edata (gr w4) (tn s) (tn x)) as [old|]; cbn [bind okO]; [|exact Logic.I].
  assert (Q5 : qq w4 w5) by (apply qq_emit; reflexivity).
  assert (Os5 : opn w5 s).
  { unfold opn. rewrite (qq_opens w4 w5 Q5), Op4, T3. exact Os2. }
  change (set_gr w5 (insert_edata (gr w4) (tn s) (tn x) (DRequire x c st))) with (set_gr w5 (insert_edata (gr w5) (tn s) (tn x) (DRequire x c st))).
  split; [apply Om_update_mark; [exact Os5|apply (Om_qq gen w4 w5 Q5 O4)|apply (Fin_qq w4 w5 x Q5 F4)]|].
  apply TT_mark. apply (TT_same (Some x) w5); [reflexivity|reflexivity|apply (TT_qq (Some x) w4 w5 Q5 T4)].
Qed.
(* ---- scheduling after the execution of t: only tasks with a dependency on t are queued ---- *)
Lemma un_rn r : un (rn r) = r. Proof. unfold un, rn. rewrite <- N.succ_double_spec. apply N.div2_succ_double. Qed.

Record J (w0 : world) (t : task) (w' : world) : Prop := mkJ {
  j_gr : gr w' = gr w0;
  j_cons : consistent w' = consistent w0;
  j_opens : opens (trace w') = opens (trace w0);
  j_execs : execs (trace w') = execs (trace w0);
  j_om : Om w';
  j_fin : Fin w' t
}.
Lemma J_refl w t : Om w -> Fin w t -> J w t w. Proof. intros. constructor; try reflexivity; assumption. Qed.
(* a step that leaves graph, consistent set and queue alone and emits events that are not execution starts / ends *)
Lemma J_quiet w0 t w' w'' : J w0 t w' -> gr w'' = gr w' -> consistent w'' = consistent w' -> queue w'' = queue w' ->
  (exists s, trace w'' = s ++ trace w' /\ Forall (fun e => ev3 e = true) s) -> J w0 t w''.
Proof.
  intros [A1 A2 A3 A4 A5 A6] G C Qu [s [T F]].
  assert (QQ : qq w' w'') by (split; [apply geq_same; exact G|split; [exact C|split; [exists s; split; assumption|intros x X; rewrite <- Qu; exact X]]]).
  constructor; [congruence|congruence|rewrite T, (opens_app3 s _ F); exact A3|rewrite T, execs_app, (execs_ev3 s F); exact A4|apply (Om_qq gen w' w'' QQ A5)|apply (Fin_qq w' w'' t QQ A6)].
Qed.
Lemma J_emit w0 t w' e : J w0 t w' -> ev3 e = true -> J w0 t (emit w' e).
Proof. intros H He. apply (J_quiet w0 t w'); [exact H|reflexivity|reflexivity|reflexivity|exists [e]; split; [reflexivity|constructor; [exact He|constructor]]]. Qed.
Lemma J_push_err w0 t w' e : J w0 t w' -> J w0 t (push_err w' e).
Proof. intros H. apply (J_quiet w0 t w'); [exact H|reflexivity|reflexivity|reflexivity|exists []; split; [reflexivity|constructor]]. Qed.

(* what is known about a task x that gets scheduled: it depends on t *)
Definition SF (w0 : world) (t x : task) : Prop := P3 w0 x /\ ~ opn w0 x /\ ~ RT w0 t x.
Lemma RT_gr w w' a b : gr w' = gr w -> RT w' a b -> RT w a b. Proof. unfold RT. intros ->. trivial. Qed.
Lemma J_queue_add w0 t w' x : J w0 t w' -> SF w0 t x -> J w0 t (queue_add w' x).
Proof.
  intros [A1 A2 A3 A4 A5 A6] [S1 [S2 S3]].
  assert (P' : P3 w' x) by (intros c Hc R; unfold isC in Hc; rewrite A2 in Hc; exact (S1 c Hc (RT_gr w0 w' c x A1 R))).
  assert (O' : ~ opn w' x) by (unfold opn; rewrite A3; exact S2).
  assert (G : gr (queue_add w' x) = gr w') by apply queue_add_gr.
  assert (T : trace (queue_add w' x) = trace w') by (unfold queue_add; destruct (memN _ _); reflexivity).
  assert (C : consistent (queue_add w' x) = consistent w') by (unfold queue_add; destruct (memN _ _); reflexivity).
  constructor; [congruence|congruence|rewrite T; exact A3|rewrite T; exact A4|apply Om_queue_add; assumption|].
  intros y R. destruct (A6 y (RT_gr w' _ t y G R)) as [F1 F2]. split; [unfold opn; rewrite T; exact F1|].
  unfold queue_add. destruct (memN x (queue w')); [exact F2|]. cbn. intros X. apply in_app_or in X. destruct X as [X|[<-|[]]]; [exact (F2 X)|].
  apply S3. apply (RT_gr w0 w' t x A1). apply (RT_gr w' _ t x G). exact R.
Qed.
Lemma J_try_schedule w0 t w' x r c st : J w0 t w' -> SF w0 t x -> J w0 t (try_schedule RC w' x r c st).
Proof.
  intros H S0. unfold try_schedule. cbv zeta. destruct (rc_check _ _ _ _ _) as [| |e].
  - apply J_emit; [apply J_emit; [exact H|reflexivity]|reflexivity].
  - apply J_queue_add; [|exact S0]. apply J_emit; [|reflexivity]. apply J_emit; [apply J_emit; [exact H|reflexivity]|reflexivity].
  - apply J_queue_add; [|exact S0]. apply J_emit; [|reflexivity]. apply J_push_err. apply J_emit; [apply J_emit; [exact H|reflexivity]|reflexivity].
Qed.

(* the two ways a task gets scheduled after t has run *)
Lemma SF_of_kid w0 t x : StoreOK w0 -> Om w0 -> P3 w0 t -> In (tn t) (kids_of (gr w0) (tn x)) -> needs w0 x t -> SF w0 t x.
Proof.
  intros [W _] [A [C _]] HP Ik N. split; [|split].
  - intros c Hc R. apply (HP c Hc). apply (RT_trans w0 c x t R). right. apply path1. exact Ik.
  - intros Ox. apply (HP t (C x t Ox N)). left. reflexivity.
  - intros R. apply (WF_acyclic (gr w0) (tn t) W). destruct R as [->|Pth]; [apply path1; exact Ik|eapply path_trans; [exact Pth|apply path1; exact Ik]].
Qed.

Lemma schedule_by_written_J w0 t w' r : StoreOK w0 -> Q w0 -> Om w0 -> P3 w0 t -> (exists dp, row w0 t (rn r) = Some dp /\ is_write (Some dp) = true) ->
  J w0 t w' -> J w0 t (schedule_by_written RC w' r).
Proof.
  intros HS0 Hq HO HP [dpw [Rw Iw]] H. unfold schedule_by_written. cbv zeta. apply J_emit; [|reflexivity].
  set (w1 := emit w' (ESchedByResStart r)). assert (H1 : J w0 t w1) by (apply J_emit; [exact H|reflexivity]).
  assert (G1 : gr w1 = gr w0) by apply H1.
  assert (Gen : forall l w2, (forall p, In p l -> In p (incoming w1 (rn r))) -> J w0 t w2 -> J w0 t (fold_left (try_schedule_edge RC true) l w2)).
  { induction l as [|p tl IH]; intros w2 Hin H2; cbn [fold_left]; [exact H2|]. apply IH; [intros q X; apply Hin; right; exact X|].
    unfold try_schedule_edge. destruct (snd p) as [[|y c st|r' c st|r' c st]|] eqn:Sp; try exact H2.
    apply J_try_schedule; [exact H2|].
    assert (Ip : In p (incoming w1 (rn r))) by (apply Hin; left; reflexivity). unfold incoming in Ip. rewrite G1 in Ip. destruct p as [u e]. cbn [fst snd] in *. subst e.
    destruct (proj2 (incoming_spec (gr w0) (rn r) (proj1 HS0)) u _ Ip) as [E _]. symmetry in E.
    destruct (proj1 (proj2 HS0) _ _ _ E) as [Tu D]. cbn in D. assert (r' = r) by (unfold rn in D; lia). subst r'.
    rewrite (even_tn' u Tu) in E.
    assert (Gt : gen r = Some t) by (apply (proj1 (proj2 (Hq t)) r dpw Rw Iw)).
    destruct (proj2 (proj2 (Hq (un u))) r (DRead r c st) E eq_refl) as [G0|[g [G0 Bf]]]; [congruence|]. rewrite Gt in G0. inversion G0; subst g.
    apply (SF_of_kid w0 t (un u) HS0 HO HP (before_in _ _ _ Bf)). right. exists r, (DRead r c st). split; [exact E|split; [reflexivity|exact Gt]]. }
  apply Gen; [trivial|exact H1].
Qed.

Lemma schedule_requirer_J w0 t w' o p : StoreOK w0 -> Om w0 -> P3 w0 t -> In p (incoming w0 (tn t)) ->
  J w0 t w' -> J w0 t (schedule_requirer OC o w' p).
Proof.
  intros HS0 HO HP Ip H. unfold schedule_requirer. destruct (snd p) as [[|y c st|r' c st|r' c st]|] eqn:Sp; try exact H. cbv zeta.
  destruct (oc_check (OC c) o st); [apply J_emit; [apply J_emit; [exact H|reflexivity]|reflexivity]|].
  apply J_queue_add; [apply J_emit; [apply J_emit; [apply J_emit; [exact H|reflexivity]|reflexivity]|reflexivity]|].
  unfold incoming in Ip. destruct p as [u e]. cbn [fst snd] in *. subst e.
  destruct (proj2 (incoming_spec (gr w0) (tn t) (proj1 HS0)) u _ Ip) as [E _]. symmetry in E.
  destruct (proj1 (proj2 HS0) _ _ _ E) as [Tu D]. cbn in D. apply tn_inj in D. subst y. rewrite (even_tn' u Tu) in E.
  apply (SF_of_kid w0 t (un u) HS0 HO HP); [apply (wf_edata _ (proj1 HS0)); rewrite E; discriminate|left; exists c, st; exact E].
Qed.

Lemma fold_J {X} (f : world -> X -> world) w0 t l : (forall w' x, In x l -> J w0 t w' -> J w0 t (f w' x)) -> forall w', J w0 t w' -> J w0 t (fold_left f l w').
Proof.
  induction l as [|x tl IH]; intros Hf w' H; cbn [fold_left]; [exact H|]. apply IH; [intros w'' y Y; apply Hf; right; exact Y|apply Hf; [left; reflexivity|exact H]].
Qed.

Lemma schedule_after_O a w t o : B a w -> Om w -> TT (Some t) w -> Fin w t -> P3 w t ->
  Om (schedule_after RC OC w t o) /\ TT None (schedule_after RC OC w t o) /\ isC (schedule_after RC OC w t o) t.
Proof.
  intros HB0 HO HT HF HP. pose proof (B_S _ w HB0) as HS0. pose proof (proj1 (proj2 (proj2 HB0))) as Hq.
  unfold schedule_after. cbv zeta.
  set (w1 := fold_left (schedule_by_written RC) (resources_written_by w t) w).
  assert (H1 : J w t w1).
  { apply fold_J; [|apply J_refl; assumption]. intros w' r Ir H. apply schedule_by_written_J; try assumption.
    unfold resources_written_by in Ir. apply in_map_iff in Ir. destruct Ir as [[v e] [Er Ip]]. apply filter_In in Ip. destruct Ip as [Ip Iw]. cbn [fst snd] in *.
    destruct (proj2 (outgoing_spec (gr w) (tn t) (proj1 HS0)) v e Ip) as [E _]. subst e. destruct (get_edata (gr w) (tn t) v) as [dp|] eqn:Ed; [|discriminate].
    destruct (proj1 (proj2 HS0) _ _ _ Ed) as [_ D]. destruct dp as [|y c st|r' c st|r' c st]; try discriminate. cbn in D. subst v. rewrite un_rn in Er. subst r'.
    exists (DWrite r c st). split; [exact Ed|reflexivity]. }
  set (w2 := emit w1 (ESchedByTaskStart t)). assert (H2 : J w t w2) by (apply J_emit; [exact H1|reflexivity]).
  set (w3 := fold_left (schedule_requirer OC o) (incoming w2 (tn t)) w2).
  assert (H3 : J w t w3).
  { apply fold_J; [|exact H2]. intros w' p Ip H. apply schedule_requirer_J; try assumption. unfold incoming in *. rewrite <- (j_gr _ _ _ H2). exact Ip. }
  set (w4 := emit w3 (ESchedByTaskEnd t)). assert (H4 : J w t w4) by (apply J_emit; [exact H3|reflexivity]).
  split; [apply Om_mark; [apply H4|apply H4]|]. split; [|apply isC_mark; left; reflexivity].
  apply TT_mark. destruct HT as [T1 T2]. unfold TT, isC, opn. rewrite (j_execs _ _ _ H4), (j_opens _ _ _ H4), (j_cons _ _ _ H4). split; assumption.
Qed.
(* ---- the bottom-up interpreters ---- *)
Lemma not_open_below a w t x : B a w -> reach a w t -> RT w t x -> ~ opn w x.
Proof.
  intros HB0 R Rx Ox. pose proof (proj1 (B_S _ w HB0)) as W. pose proof (proj1 (proj2 (proj1 (proj1 HB0)))) as HOI.
  destruct a as [c0|]; cbn in HOI; [|unfold opn in Ox; rewrite HOI in Ox; exact Ox].
  specialize (R c0 eq_refl). apply (WF_acyclic (gr w) (tn c0) W).
  assert (Pxt : tn x = tn c0 \/ path (gr w) (tn x) (tn c0)) by (apply HOI; exact Ox).
  assert (Ptx : tn t = tn x \/ path (gr w) (tn t) (tn x)) by (destruct Rx as [->|Y]; [left; reflexivity|right; exact Y]).
  destruct Ptx as [E1|P1]; destruct Pxt as [E2|P2].
  - apply tn_inj in E1. apply tn_inj in E2. subst x. subst t. exact R.
  - apply tn_inj in E1. subst x. eapply path_trans; [exact R|exact P2].
  - apply tn_inj in E2. subst x. eapply path_trans; [exact R|exact P1].
  - eapply path_trans; [exact R|]. eapply path_trans; eassumption.
Qed.

Lemma B_reanchor a t w1 w2 : B a w1 -> B (Some t) w2 -> FrameO a w1 w2 -> opens (trace w2) = opens (trace w1) -> B a w2.
Proof.
  intros [[[_ [HO1 _]] _] _] [[[L2 [_ N2]] V2] R2] Fa O2.
  split; [split; [split; [exact L2|split; [eapply OI_pres; eassumption|exact N2]]|exact V2]|exact R2].
Qed.

Lemma pop_B a w m : B a w -> L (set_queue w (removeN m (sort_queue w))) -> B a (set_queue w (removeN m (sort_queue w))) /\ qq w (set_queue w (removeN m (sort_queue w))).
Proof.
  intros [Hw [Kw [Hq Hh]]] L1. set (w1 := set_queue w (removeN m (sort_queue w))).
  assert (Q1 : q3 w w1) by (apply q3_same; reflexivity).
  split.
  - split; [split; [eapply q3_Pre; [exact Q1|exact L1|apply Hw]|apply pop_V; apply Hw]|].
    split; [apply (geq_K RC OC P sf w); [apply geq_same; reflexivity|reflexivity|exact Kw]|]. split; [apply (Q_same gen ord w); [reflexivity|exact Hq]|].
    apply (HB_hq w); [apply hq_same; reflexivity|exact Hh].
  - apply qq_same; try reflexivity. intros x X. cbn in X. apply Queue.In_removeN in X. apply In_sort_queue. apply X.
Qed.

Definition rsnPost (a : option task) (t : task) (r : option Z) (w' : world) : Prop :=
  Om w' /\ TT None w' /\ match r with Some _ => isC w' t | None => reach a w' t /\ forall x, RT w' t x -> ~ In x (queue w') end.
Definition OBU (f : nat) : Prop :=
  (forall a w t, B a w -> live (gr w) (tn t) = true -> reach a w t -> Om w -> TT None w -> P3 w t -> ~ In t (queue w) ->
     okO (bu_execute_and_schedule RC OC P f w t) (fun _ w' => Om w' /\ TT None w' /\ isC w' t)) /\
  OMC (bu_make_consistent RC OC P f) /\
  (forall a w t, B a w -> reach a w t -> Om w -> TT None w -> okO (bu_require_scheduled_now RC OC P f w t) (rsnPost a t)).

Lemma queued_P3 w m : Om w -> In m (queue w) -> P3 w m.
Proof. intros [A _] Im c Hc R. exact (proj2 (A c m Hc R) Im). Qed.

Theorem bottom_up_O f : OBU f.
Proof.
  induction f as [|f [IH1 [IH2 IH3]]]; [repeat split; intros; exact Logic.I|].
  assert (HR : OREQ (reqf f)) by (apply require_bu_with_O; exact IH2).
  split; [|split].
  - intros a w t HB0 Lt R HO HT HP Hq. rewrite bes_S. fold (reqf f).
    pose proof (execute_with_O f a w t HR HB0 Lt R HO HT HP Hq) as X. pose proof (BEX f a w t HB0 Lt R) as XB.
    destruct (execute_with RC OC P (reqf f) w t) as [o w1|k w1|]; cbn [bind okO okB] in *; [|exact Logic.I|exact Logic.I].
    destruct X as [O1 [T1 [F1 P1]]]. apply (schedule_after_O a w1 t o); [apply XB|assumption..].
  - intros a w t HB0 Lt R HO HT. rewrite bmc_S. fold (reqf f).
    destruct (memN t (consistent w)) eqn:Mc.
    { destruct (get_task_output w t); cbn [okO]; [|exact Logic.I]. split; [exact HO|]. split; [apply TT_weaken; exact HT|]. intros x Rx. apply (proj1 HO t x Mc Rx). }
    destruct ((match get_task_output w t with None => true | Some _ => false end) && negb (memN t (queue w)))%bool eqn:Cond.
    + apply andb_true_iff in Cond. destruct Cond as [C1 C2]. apply negb_true_iff in C2. apply memN_false in C2.
      assert (HP : P3 w t).
      { intros c Hc Rc. pose proof (reachC_out w c t (B_S _ w HB0) (B_V _ w HB0) (proj2 (proj2 (proj2 HB0))) HO Hc Rc) as X.
        destruct (get_task_output w t); [discriminate|apply X; reflexivity]. }
      pose proof (execute_with_O f a w t HR HB0 Lt R HO HT HP C2) as X.
      destruct (execute_with RC OC P (reqf f) w t) as [o w1|k w1|]; cbn [okO] in *; [|exact Logic.I|exact Logic.I].
      destruct X as [O1 [T1 [F1 _]]]. split; [exact O1|split; assumption].
    + pose proof (IH3 a w t HB0 R HO HT) as X. pose proof (BRSN f a w t HB0 R) as XB.
      destruct (bu_require_scheduled_now RC OC P f w t) as [r w1|k w1|]; cbn [bind okO okB] in *; [|exact Logic.I|exact Logic.I].
      destruct X as [O1 [T1 X]]. destruct r as [o|].
      * cbn [okO]. split; [exact O1|]. split; [apply TT_weaken; exact T1|]. intros x Rx. apply (proj1 O1 t x X Rx).
      * destruct X as [R1 NQ]. destruct (get_task_output w1 t); cbn [okO]; [|exact Logic.I].
        split; [exact O1|]. split; [apply TT_weaken; exact T1|]. intros x Rx. split; [apply (not_open_below a w1 t x); [apply XB|exact R1|exact Rx]|apply NQ; exact Rx].
  - intros a w t HB0 R HO HT. rewrite rsn_S. destruct (queue w) as [|q0 qs] eqn:Qe.
    { cbn [okO]. split; [exact HO|]. split; [exact HT|]. split; [exact R|]. intros x _. rewrite Qe. intros []. }
    destruct (pop_least_from w t) as [[m w1]|] eqn:X.
    2:{ cbn [okO]. split; [exact HO|]. split; [exact HT|]. split; [exact R|]. intros x Rx Ix.
        pose proof (pop_least_from_none w t X x Ix) as El. unfold eligible in El. apply orb_false_iff in El. destruct El as [E1 E2].
        destruct Rx as [->|Pth]; [rewrite N.eqb_refl in E1; discriminate|].
        unfold contains_transitive_task_dependency in E2. pose proof (proj1 (B_S _ w HB0)) as W.
        destruct (contains_transitive_edge (gr w) (tn t) (tn x)) as [bb|] eqn:Y; [|exact (contains_transitive_edge_answers _ _ _ W Y)].
        assert (bb = true) by (apply (contains_transitive_edge_spec _ _ _ _ W Y); exact Pth). subst bb. discriminate. }
    destruct (pop_least_from_max w t m w1 X) as [Im [_ [_ [Qi G1]]]].
    destruct (pop_least_L RC OC P w t m w1 (B_L _ w HB0) X) as [L1 [_ Lm]].
    assert (W1 : w1 = set_queue w (removeN m (sort_queue w))) by (unfold pop_least_from in X; destruct (find _ _); inversion X; reflexivity).
    rewrite W1 in L1. destruct (pop_B a w m HB0 L1) as [B1 QQ1]. rewrite <- W1 in B1, QQ1.
    assert (Lm1 : live (gr w1) (tn m) = true) by (rewrite G1; exact Lm).
    assert (R1 : reach a w1 t) by (intros c Hc; rewrite G1; apply R; exact Hc).
    pose proof (Om_qq gen w w1 QQ1 HO) as O1. pose proof (TT_qq None w w1 QQ1 HT) as T1.
    pose proof (P3_qq w w1 m QQ1 (queued_P3 w m HO Im)) as P1.
    assert (NQ1 : ~ In m (queue w1)) by (intros Y; apply Qi in Y; apply (proj2 Y); reflexivity).
    destruct (pop_least_reach w t m w1 (B_S _ w HB0) X) as [Em|Pm].
    + subst m. rewrite N.eqb_refl. pose proof (IH1 a w1 t B1 Lm1 R1 O1 T1 P1 NQ1) as Y.
      destruct (bu_execute_and_schedule RC OC P f w1 t) as [o w2|k w2|]; cbn [bind okO] in *; [|exact Logic.I|exact Logic.I].
      destruct Y as [O2 [T2 C2]]. split; [exact O2|split; assumption].
    + assert (Hmt : m <> t) by (intros ->; exact (WF_acyclic (gr w) (tn t) (proj1 (B_S _ w HB0)) Pm)).
      destruct (N.eqb_spec m t) as [|_]; [contradiction|].
      assert (Pm1 : path (gr w1) (tn t) (tn m)) by (rewrite G1; exact Pm).
      assert (PS : B (Some t) w1).
      { destruct B1 as [[[LL [HOI NNt]] VV] RR]. split; [split; [split; [exact LL|split; [eapply OI_strengthen; [exact HOI|exact R1]|exact NNt]]|exact VV]|exact RR]. }
      assert (RS : reach (Some t) w1 m) by (intros c Hc; inversion Hc; subst c; exact Pm1).
      pose proof (IH1 (Some t) w1 m PS Lm1 RS O1 T1 P1 NQ1) as Y. pose proof (BES f (Some t) w1 m PS Lm1 RS) as YB.
      destruct (bu_execute_and_schedule RC OC P f w1 m) as [o w2|k w2|]; cbn [bind okO okB] in *; [|exact Logic.I|exact Logic.I].
      destruct YB as [B2s [C2 [M2 [F2 Op2]]]]. destruct Y as [O2 [T2 _]].
      assert (Fa : FrameO a w1 w2) by (eapply FrameO_weaken; eassumption).
      assert (B2 : B a w2) by (eapply B_reanchor; eassumption).
      assert (R2 : reach a w2 t) by (eapply reach_pres; eassumption).
      apply (IH3 a w2 t B2 R2 O2 T2).
Qed.
Theorem execute_scheduled_O f : forall w, B None w -> Om w -> TT None w -> okO (execute_scheduled RC OC P f w) (fun _ w' => Om w' /\ TT None w').
Proof.
  induction f as [|f IH]; intros w HB0 HO HT; [exact Logic.I|]. rewrite es_S.
  destruct (queue_pop w) as [[t w1]|] eqn:X; [|cbn; split; assumption].
  destruct (queue_pop_max w t w1 X) as [Im [_ [Qi [G1 _]]]].
  destruct (queue_pop_L RC OC P w t w1 (B_L _ w HB0) X) as [L1 [_ Lt]].
  assert (W1 : w1 = set_queue w (removeN t (sort_queue w))) by (unfold queue_pop in X; destruct (rev (sort_queue w)); [discriminate|inversion X; reflexivity]).
  rewrite W1 in L1. destruct (pop_B None w t HB0 L1) as [B1 QQ1]. rewrite <- W1 in B1, QQ1.
  assert (Lt1 : live (gr w1) (tn t) = true) by (rewrite G1; exact Lt).
  assert (R1 : reach None w1 t) by (intros c Hc; discriminate).
  pose proof (Om_qq gen w w1 QQ1 HO) as O1. pose proof (TT_qq None w w1 QQ1 HT) as T1.
  pose proof (P3_qq w w1 t QQ1 (queued_P3 w t HO Im)) as P1.
  assert (NQ1 : ~ In t (queue w1)) by (intros Y; apply Qi in Y; apply (proj2 Y); reflexivity).
  pose proof (proj1 (bottom_up_O f) None w1 t B1 Lt1 R1 O1 T1 P1 NQ1) as Y. pose proof (BES f None w1 t B1 Lt1 R1) as YB.
  destruct (bu_execute_and_schedule RC OC P f w1 t) as [o w2|k w2|]; cbn [bind okO okB] in *; [|exact Logic.I|exact Logic.I].
  apply IH; [apply YB|apply Y|apply Y].
Qed.

(* ---- sessions and histories ---- *)
Variable always : ocid.

Definition HBs (w : world) : Prop := forall x y c st, row w x (tn y) = Some (DRequire y c st) -> get_task_output w y <> None.
Lemma HBs_HB w : HBs w -> HB w. Proof. intros H x y c st X. left. exact (H x y c st X). Qed.
Lemma HB_HBs w : HB w -> opens (trace w) = [] -> HBs w.
Proof. intros H O x y c st X. destruct (H x y c st X) as [Y|Y]; [exact Y|unfold opn in Y; rewrite O in Y; destruct Y]. Qed.
Lemma VS_opens w : VS w -> opens (trace w) = []. Proof. intros [[[_ [HOI _]] _] _]. exact HOI. Qed.

Lemma run_session_HB fuel ops : forall w, VS w -> K w -> Q w -> HB w ->
  HB (snd (run_session RC OC P always fuel w ops)) /\ opens (trace (snd (run_session RC OC P always fuel w ops))) = [].
Proof.
  induction ops as [|o tl IH]; intros w Hw Kw Hq Hh; cbn [run_session]; [split; [exact Hh|apply VS_opens; exact Hw]|].
  assert (X : match run_sop RC OC P always fuel w o with (RDone _, w') => VS w' /\ K w' /\ Q w' /\ HB w' | (RAbort _, _) => False | (RFuel, w') => w' = w end).
  { destruct o as [t|ch]; cbn [run_sop].
    - pose proof (session_require_V RC OC P always fuel w t Hw) as Y. pose proof (session_require_Q RC OC P sf HS HNR always fuel w t Hw Kw) as Z.
      pose proof (session_require_A gen wck ord RC OC P sf HS HWF HWO always fuel w t Hw Kw Hq) as A0.
      pose proof (session_require_H RC OC P always fuel w t (proj1 (proj1 (proj1 Hw))) Hh) as H0.
      destruct (session_require RC OC P always fuel w t); cbn in *; [split; [exact Y|split; [exact Z|split; assumption]]|exact A0|reflexivity].
    - pose proof (session_bottom_up_V RC OC P fuel w ch Hw) as Y. pose proof (session_bottom_up_Q RC OC P sf HS HNR fuel w ch Hw Kw) as Z.
      pose proof (session_bottom_up_A gen wck ord RC OC P sf HS HWF HWO fuel w ch Hw Kw Hq) as A0.
      pose proof (session_bottom_up_H RC OC P fuel w ch (proj1 (proj1 (proj1 Hw))) Hh) as H0.
      destruct (session_bottom_up RC OC P fuel w ch); cbn in *; [split; [exact Y|split; [exact Z|split; assumption]]|exact A0|reflexivity]. }
  destruct (run_sop RC OC P always fuel w o) as [[x|k|] w']; [|contradiction|].
  - destruct X as [X1 [X2 [X3 X4]]]. specialize (IH w' X1 X2 X3 X4). destruct (run_session RC OC P always fuel w' tl) as [rs w'']. exact IH.
  - subst w'. cbn [snd]. split; [exact Hh|apply VS_opens; exact Hw].
Qed.

Lemma HBs_new_session w : HBs w -> HB (new_session w).
Proof. intros H. apply HBs_HB. exact H. Qed.

Theorem run_history_HBs fuel h : forall w, Hinv w -> K w -> Q w -> HBs w ->
  Hinv (snd (run_history RC OC P always fuel w h)) /\ K (snd (run_history RC OC P always fuel w h)) /\
  Q (snd (run_history RC OC P always fuel w h)) /\ HBs (snd (run_history RC OC P always fuel w h)).
Proof.
  induction h as [|s tl IH]; intros w Hw Kw Hq Hh; cbn [run_history]; [split; [exact Hw|split; [exact Kw|split; assumption]]|].
  assert (X : Hinv (snd (run_step RC OC P always fuel w s)) /\ K (snd (run_step RC OC P always fuel w s)) /\ Q (snd (run_step RC OC P always fuel w s)) /\ HBs (snd (run_step RC OC P always fuel w s))).
  { split; [|split; [|split]].
    - pose proof (run_history_V RC OC P always fuel [s] w Hw) as Y. cbn [run_history] in Y. destruct (run_step RC OC P always fuel w s) as [r w']. exact (proj2 Y).
    - pose proof (run_history_Q RC OC P sf HS HNR always fuel [s] w Hw Kw) as Y. cbn [run_history] in Y. destruct (run_step RC OC P always fuel w s) as [r w']. exact Y.
    - pose proof (run_history_AQ gen wck ord RC OC P sf HS HWF HWO always fuel [s] w Hw Kw Hq) as Y. cbn [run_history] in Y. destruct (run_step RC OC P always fuel w s) as [r w']. exact (proj2 Y).
    - destruct s as [r v|e|ops]; cbn [run_step snd].
      + intros x y c st X. change (row w x (tn y) = Some (DRequire y c st)) with (row w x (tn y) = Some (DRequire y c st)) in X.
        assert (E : get_task_output (set_content w r v) y = get_task_output w y) by (destruct v; reflexivity). rewrite E. apply (Hh x y c st).
        unfold row in *. destruct v; exact X.
      + exact Hh.
      + destruct (run_session_HB fuel ops (new_session w)) as [A1 A2];
          [apply VS_new_session; exact Hw|apply (geq_K RC OC P sf w); [apply geq_same; reflexivity|reflexivity|exact Kw]|apply (Q_same gen ord w); [reflexivity|exact Hq]|apply HBs_new_session; exact Hh|].
        apply HB_HBs; assumption. }
  destruct (run_step RC OC P always fuel w s) as [r w']. cbn [snd] in X. destruct X as [X1 [X2 [X3 X4]]].
  specialize (IH w' X1 X2 X3 X4). destruct (run_history RC OC P always fuel w' tl) as [rs w'']. exact IH.
Qed.

Lemma HBs_init : HBs init_world. Proof. intros x y c st X. discriminate. Qed.

(* C04, at most once: in the static class, the bottom-up build that opens a session after ANY history executes no task twice
   (and does not abort) *)
Theorem bottom_up_at_most_once fuel h ch :
  let w := new_session (snd (run_history RC OC P always fuel init_world h)) in
  match session_bottom_up RC OC P fuel w ch with
  | Done _ w' => NoDup (execs (trace w'))
  | Abort _ _ => False
  | OutOfFuel => True
  end.
Proof.
  intros w.
  destruct (run_history_HBs fuel h init_world) as [Jw [Kw0 [Qw0 Hw0]]]; [split; [apply L_init|intros x d X; discriminate]|apply K_init|apply Q_init|apply HBs_init|].
  set (w0 := snd (run_history RC OC P always fuel init_world h)) in *.
  assert (VSw : VS w) by (apply VS_new_session; exact Jw).
  assert (Kw : K w) by (apply (geq_K RC OC P sf w0); [apply geq_same; reflexivity|reflexivity|exact Kw0]).
  assert (Qw : Q w) by (apply (Q_same gen ord w0); [reflexivity|exact Qw0]).
  assert (Hhw : HB w) by (apply HBs_new_session; exact Hw0).
  pose proof (session_bottom_up_A gen wck ord RC OC P sf HS HWF HWO fuel w ch VSw Kw Qw) as NA.
  destruct VSw as [[Hw Hc] HV]. unfold session_bottom_up in *. cbv zeta in *.
  assert (L0 : L (set_queue w [])). { destruct (proj1 Hw) as [H1 [H2 H3]]. split; [exact H1|]. split; [exact H2|intros x []]. }
  destruct (fold_affected_L RC ch _ L0) as [L1 M1]. set (w1 := fold_left (schedule_tasks_affected_by RC) ch (set_queue w [])) in *.
  assert (V0 : V (set_queue w [])) by (apply pop_V; exact HV).
  assert (Q01 : lv (set_queue w []) w1) by (apply fold_lv; intros; apply schedule_tasks_affected_by_lv).
  assert (V1 : V w1) by (eapply lv_V; eassumption).
  assert (KQ1 : K w1 /\ Q w1).
  { unfold w1. assert (KF : forall l w0', K w0' /\ Q w0' -> K (fold_left (schedule_tasks_affected_by RC) l w0') /\ Q (fold_left (schedule_tasks_affected_by RC) l w0')).
    { induction l as [|r tl IH]; intros w0' K0; cbn [fold_left]; [exact K0|apply IH; split; [apply schedule_tasks_affected_by_K; apply K0|apply (schedule_tasks_affected_by_Q gen ord); apply K0]]. }
    apply KF. split; [apply (geq_K RC OC P sf w); [apply geq_same; reflexivity|reflexivity|exact Kw]|apply (Q_same gen ord w); [reflexivity|exact Qw]]. }
  assert (H1 : HB w1).
  { apply (HB_hq w); [|exact Hhw]. eapply hq_trans; [apply (hq_same w (set_queue w [])); reflexivity|apply fold_hq; intros; apply schedule_tasks_affected_by_hq]. }
  set (w2 := emit (set_cur w1 None) EBuildStart) in *.
  assert (C1 : cur w1 = None) by (rewrite (proj2 (proj2 (proj1 Q01))); exact Hc).
  assert (Q12 : lv w1 w2).
  { eapply lv_trans; [apply (lv_same w1 (set_cur w1 None)); try reflexivity; [cbn; symmetry; exact C1|trivial]|apply lv_emit; reflexivity]. }
  assert (L2 : L w2) by (apply L_emit, L_set_cur_none; exact L1).
  assert (P2 : VPre None w2).
  { split; [|eapply lv_V; eassumption]. eapply q3_Pre; [apply Q12|exact L2|]. eapply q3_Pre; [apply Q01|exact L1|].
    split; [exact L0|split; [apply Hw|apply Hw]]. }
  assert (K2 : K w2) by (apply (geq_K RC OC P sf w1); [apply geq_same; reflexivity|reflexivity|apply KQ1]).
  assert (Qq2 : Q w2) by (apply (Q_same gen ord w1); [reflexivity|apply KQ1]).
  assert (H2 : HB w2) by (apply (HB_hq w1); [apply hq_same; reflexivity|exact H1]).
  assert (LV : lv (set_queue w []) w2) by (eapply lv_trans; eassumption).
  assert (Cs2 : consistent w2 = []) by (rewrite (proj1 (proj2 (proj2 LV))); reflexivity).
  assert (Op2 : opens (trace w2) = []) by (rewrite (lv_opens _ _ LV); reflexivity).
  assert (Ex2 : execs (trace w2) = []).
  { destruct (proj1 (proj1 LV)) as [s0 [T0 F0]]. rewrite T0, execs_app, (execs_ev3 s0 F0). reflexivity. }
  assert (O2 : Om w2).
  { split; [|split]; [intros c x Hcc; unfold isC in Hcc; rewrite Cs2 in Hcc; discriminate|intros x y Ox; unfold opn in Ox; rewrite Op2 in Ox; destruct Ox|intros x Ox; unfold opn in Ox; rewrite Op2 in Ox; destruct Ox]. }
  assert (T2 : TT None w2) by (unfold TT; rewrite Ex2; split; [constructor|intros x []]).
  pose proof (execute_scheduled_O fuel w2 (conj P2 (conj K2 (conj Qq2 H2))) O2 T2) as X.
  destruct (execute_scheduled RC OC P fuel w2) as [u w3|k w3|]; cbn [bind okO okA] in *; [|exact NA|exact Logic.I].
  change (execs (trace (emit w3 EBuildEnd))) with (execs (trace w3)). apply X.
Qed.
End ON.

(* Non-vacuity of C04_at_most_once_static_class: the witness program of C01Witness.v (static class) -- after a history that
   built both tasks and then changed the generator's input, the bottom-up build over that input does real work: it executes
   the generator and then its consumer, each once. *)
From Coq Require Import List NArith ZArith Bool Lia.
From PieV Require Import Model.Dag Model.Build Proofs.ExecInv Proofs.C01Witness Proofs.OnceAll.
Import ListNotations.
Open Scope N_scope.

Notation bux := (session_bottom_up RCx OCx Px 50 (new_session wx) [1]).
Lemma C04_witness_does_real_work :
  match bux with Done _ w' => execs (trace w') = [0; 1] | _ => False end.
Proof. vm_compute. reflexivity. Qed.
Lemma C04_witness_instance : match bux with Done _ w' => NoDup (execs (trace w')) | Abort _ _ => False | OutOfFuel => True end.
Proof. exact (bottom_up_at_most_once genx (fun _ => True) ordx RCx OCx Px (fun _ _ v => enc v) HSx HWFx HWOx 0 50 hx [1]). Qed.

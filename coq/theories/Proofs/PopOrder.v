(* C04, "a scheduled task is never executed before another scheduled task that it depends on", at every place where the
   bottom-up build takes a task out of its queue (the two pops; each is directly followed by the execution of the popped
   task): in ANY world with a well-formed dependency graph -- every reachable world, by C06_store_invariant_every_reachable_state --
   the popped task does not (transitively) depend on any task that stays queued. *)
From Coq Require Import List NArith ZArith Bool Lia Permutation Sorted.
From PieV Require Import Model.Dag Model.Build Proofs.DagLib Proofs.DagWF Proofs.DagPath Proofs.DagQueries Proofs.DagFuel Proofs.DagNoFuel
  Proofs.Sorting Proofs.Queue Proofs.StoreInv.
Import ListNotations.
Open Scope N_scope.

(* t depends on q: a non-empty path of recorded dependencies from t's node to q's node *)
Definition depends_on (w : world) (t q : task) : Prop := path (gr w) (tn t) (tn q).

Theorem queue_pop_no_queued_dependency w t w' :
  StoreOK w -> queue_pop w = Some (t, w') ->
  forall q, In q (queue w') -> ~ depends_on w t q.
Proof.
  intros [W _] H q Hq D.
  destruct (queue_pop_max w t w' H) as [_ [Hmax [Hrest _]]].
  apply Hrest in Hq. destruct Hq as [Hq _].
  specialize (Hmax q Hq). unfold rank_t in Hmax.
  pose proof (path_rank (gr w) (tn t) (tn q) W D). lia.
Qed.

Theorem pop_least_no_queued_dependency w src t w' :
  StoreOK w -> pop_least_from w src = Some (t, w') ->
  forall q, In q (queue w') -> ~ depends_on w t q.
Proof.
  intros [W _] H q Hq D.
  destruct (pop_least_from_max w src t w' H) as [_ [Helig [Hmax [Hrest _]]]].
  apply Hrest in Hq. destruct Hq as [Hq _].
  (* q is eligible as well: src = t or src reaches t, and t reaches q *)
  assert (Psrc : path (gr w) (tn src) (tn q)).
  { unfold eligible in Helig. apply orb_true_iff in Helig. destruct Helig as [E|E].
    - apply N.eqb_eq in E. subst t. exact D.
    - unfold contains_transitive_task_dependency in E.
      destruct (contains_transitive_edge (gr w) (tn src) (tn t)) as [[|]|] eqn:X; try discriminate.
      eapply path_trans; [|exact D]. apply (contains_transitive_edge_spec (gr w) (tn src) (tn t) true W X). reflexivity. }
  assert (Eq : eligible w src q = true).
  { unfold eligible. apply orb_true_iff. right. unfold contains_transitive_task_dependency.
    pose proof (contains_transitive_edge_answers (gr w) (tn src) (tn q) W) as NA.
    destruct (contains_transitive_edge (gr w) (tn src) (tn q)) as [[|]|] eqn:X; [reflexivity| |congruence].
    exfalso. pose proof (proj2 (contains_transitive_edge_spec (gr w) (tn src) (tn q) false W X) Psrc). discriminate. }
  specialize (Hmax q Hq Eq). unfold rank_t in Hmax.
  pose proof (path_rank (gr w) (tn t) (tn q) W D). lia.
Qed.

(* and the task taken is a dependency of the requiring task (or the task itself): nothing unrelated is pulled forward *)
Theorem pop_least_takes_a_dependency w src t w' :
  StoreOK w -> pop_least_from w src = Some (t, w') -> t = src \/ depends_on w src t.
Proof.
  intros [W _] H. destruct (pop_least_from_max w src t w' H) as [_ [Helig _]].
  unfold eligible in Helig. apply orb_true_iff in Helig. destruct Helig as [E|E].
  - left. apply N.eqb_eq in E. congruence.
  - right. unfold contains_transitive_task_dependency in E.
    destruct (contains_transitive_edge (gr w) (tn src) (tn t)) as [[|]|] eqn:X; try discriminate.
    apply (contains_transitive_edge_spec (gr w) (tn src) (tn t) true W X). reflexivity.
Qed.

(* The bottom-up queue: pop yields a member of maximal topological rank (the deepest dependency), and
   pop_least_task_with_dependency_from yields the maximal-rank member among src and its transitive dependencies. *)
From Coq Require Import List NArith Bool Lia Permutation Sorted.
From PieV Require Import Model.Dag Model.Build Proofs.Sorting.
Import ListNotations.
Open Scope N_scope.

Lemma In_removeN x t l : In x (removeN t l) <-> In x l /\ x <> t.
Proof.
  unfold removeN. rewrite filter_In. split; intros [A B]; split; try exact A.
  - intros E. subst. rewrite N.eqb_refl in B. discriminate.
  - destruct (N.eqb t x) eqn:E; [apply N.eqb_eq in E; congruence|reflexivity].
Qed.

Lemma In_sort_queue w x : In x (sort_queue w) <-> In x (queue w).
Proof.
  unfold sort_queue. split; intros H.
  - eapply Permutation_in; [apply sort_by_perm|exact H].
  - eapply Permutation_in; [apply Permutation_sym, sort_by_perm|exact H].
Qed.

Theorem queue_pop_max w t w' :
  queue_pop w = Some (t, w') ->
  In t (queue w) /\
  (forall x, In x (queue w) -> rank_t w x <= rank_t w t) /\
  (forall x, In x (queue w') <-> In x (queue w) /\ x <> t) /\
  gr w' = gr w /\ outs w' = outs w /\ rstate w' = rstate w.
Proof.
  unfold queue_pop. destruct (rev (sort_queue w)) as [|t0 tl] eqn:Er; [discriminate|].
  intros H. inversion H; subst. clear H.
  assert (Hin : In t (sort_queue w)).
  { apply in_rev. rewrite Er. left. reflexivity. }
  split; [apply In_sort_queue; exact Hin|]. split.
  - intros x Hx. eapply (sorted_rev_head_max (rank_t w)); [apply sort_by_sorted|exact Er|].
    apply In_sort_queue. exact Hx.
  - split; [|repeat split; reflexivity].
    intros x. cbn [queue set_queue]. rewrite In_removeN, In_sort_queue. reflexivity.
Qed.

Lemma ssorted_app_last {A} (R : A -> A -> Prop) l a :
  StronglySorted R l -> (forall z, In z l -> R z a) -> StronglySorted R (l ++ [a]).
Proof.
  induction l as [|b bl IH]; intros Hs Hall; cbn.
  - constructor; constructor.
  - inversion Hs as [|? ? Hs' Hb]; subst. constructor.
    + apply IH; [exact Hs'|]. intros z Hz. apply Hall. right. exact Hz.
    + apply Forall_forall. intros z Hz. apply in_app_or in Hz. destruct Hz as [Hz|[Hz|[]]].
      * rewrite Forall_forall in Hb. apply Hb. exact Hz.
      * subst. apply Hall. left. reflexivity.
Qed.

Lemma sorted_rev_desc key l : sortedk key l -> StronglySorted (fun a b => key b <= key a) (rev l).
Proof.
  induction l as [|a tl IH]; intros H; cbn; [constructor|].
  inversion H as [|? ? Hs Hall]; subst.
  apply ssorted_app_last; [apply IH; exact Hs|].
  intros z Hz. apply in_rev in Hz. rewrite Forall_forall in Hall. apply Hall. exact Hz.
Qed.

Lemma find_desc_max key (f : node -> bool) l t :
  StronglySorted (fun a b => key b <= key a) l -> find f l = Some t ->
  In t l /\ f t = true /\ forall x, In x l -> f x = true -> key x <= key t.
Proof.
  induction l as [|a tl IH]; intros Hs Hf; [discriminate|].
  cbn in Hf. inversion Hs as [|? ? Hs' Hall]; subst. destruct (f a) eqn:Efa.
  - inversion Hf; subst. split; [left; reflexivity|]. split; [exact Efa|].
    intros x [E|Hin] _; [subst; lia|]. rewrite Forall_forall in Hall. apply Hall. exact Hin.
  - destruct (IH Hs' Hf) as [A [B C]]. split; [right; exact A|]. split; [exact B|].
    intros x [E|Hin] Hfx; [rewrite <- E in Hfx; rewrite Efa in Hfx; discriminate|]. apply C; assumption.
Qed.

Definition eligible (w : world) (src d : task) : bool :=
  N.eqb src d || match contains_transitive_task_dependency w src d with Some true => true | _ => false end.

Theorem pop_least_from_max w src t w' :
  pop_least_from w src = Some (t, w') ->
  In t (queue w) /\ eligible w src t = true /\
  (forall x, In x (queue w) -> eligible w src x = true -> rank_t w x <= rank_t w t) /\
  (forall x, In x (queue w') <-> In x (queue w) /\ x <> t) /\
  gr w' = gr w.
Proof.
  unfold pop_least_from.
  match goal with |- context [find ?f ?l] => destruct (find f l) as [t0|] eqn:Ef0 end; [|discriminate].
  assert (Ef : find (eligible w src) (rev (sort_queue w)) = Some t0) by exact Ef0. clear Ef0.
  intros H. inversion H; subst. clear H.
  destruct (find_desc_max (rank_t w) (eligible w src) _ _ (sorted_rev_desc _ _ (sort_by_sorted (rank_t w) (queue w))) Ef) as [A [B C]].
  split; [apply In_sort_queue, in_rev; exact A|]. split; [exact B|]. split.
  - intros x Hx He. apply C; [|exact He]. apply in_rev. rewrite rev_involutive. apply In_sort_queue. exact Hx.
  - split; [|reflexivity]. intros x. cbn [queue set_queue]. rewrite In_removeN, In_sort_queue. reflexivity.
Qed.

Theorem pop_least_from_none w src :
  pop_least_from w src = None -> forall x, In x (queue w) -> eligible w src x = false.
Proof.
  unfold pop_least_from.
  match goal with |- context [find ?f ?l] => destruct (find f l) as [t0|] eqn:Ef0 end; [discriminate|].
  assert (Ef : find (eligible w src) (rev (sort_queue w)) = None) by exact Ef0. clear Ef0.
  intros _ x Hx. eapply find_none in Ef; [exact Ef|]. apply in_rev. rewrite rev_involutive. apply In_sort_queue. exact Hx.
Qed.

(* C17, "a require-end event carries the value returned to the caller", as a statement about the stream the tracker holds when
   the call returns: for EVERY require issued by a task (top-down or inside a bottom-up build, whatever make_task_consistent does)
   and for Session::require, for all programs, checkers, fuel and worlds. *)
From Coq Require Import List NArith ZArith Bool.
From PieV Require Import Model.Dag Model.Build Proofs.Local2.
Import ListNotations.
Open Scope N_scope.

Section RE.
Variable RC : rcid -> rchecker.
Variable OC : ocid -> ochecker.
Variable P : task -> prog.
Variable always : ocid.

Lemma update_trace w t c st w' : update_require_dependency w t c st = Done tt w' -> trace w' = trace w.
Proof.
  unfold update_require_dependency. destruct (cur w); [|intros H; inversion H; reflexivity].
  destruct (get_edata _ _ _); [|discriminate]. intros H. inversion H. reflexivity.
Qed.

(* any require that returns: the newest event is its end event, with the checker it passed, the stamp of the returned output, and the
   returned output itself *)
Theorem require_end_is_newest_event mc w t c o w' :
  require_with OC mc w t c = Done o w' ->
  exists rest, trace w' = ERequireEnd t c (oc_stamp (OC c) o) o :: rest.
Proof.
  intros H. destruct (require_with_done OC mc w t c o w' H) as [w3 [w4 [_ U]]].
  apply update_trace in U. rewrite U. cbn [trace emit]. eexists. reflexivity.
Qed.

(* Session::require: the stream ends with ... RequireEnd(task, AlwaysConsistent, stamp, returned output), BuildEnd *)
Theorem session_require_end_value fuel w t o w' :
  session_require RC OC P always fuel w t = Done o w' ->
  exists rest, trace w' = EBuildEnd :: ERequireEnd t always (oc_stamp (OC always) o) o :: rest.
Proof.
  unfold session_require, bind.
  destruct (require_td RC OC P fuel _ t always) as [o2 w2| |] eqn:R; try discriminate.
  intros H. inversion H; subst. clear H.
  unfold require_td in R. destruct (require_end_is_newest_event _ _ _ _ _ _ R) as [rest E].
  cbn [trace emit]. rewrite E. eexists. reflexivity.
Qed.

(* a require issued inside a bottom-up build *)
Theorem require_bu_end_value mc w t c o w' :
  require_bu_with OC mc w t c = Done o w' ->
  exists rest, trace w' = ERequireEnd t c (oc_stamp (OC c) o) o :: rest.
Proof.
  unfold require_bu_with, bind. destruct (require_with OC mc w t c) as [o2 w2| |] eqn:R; try discriminate.
  intros H. inversion H; subst. clear H. cbn [trace mark_consistent set_consistent].
  exact (require_end_is_newest_event _ _ _ _ _ _ R).
Qed.
End RE.

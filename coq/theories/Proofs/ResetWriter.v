(* C06, "re-execution of the same writer, however it is reached, is never reported as an overlap": every execution starts with
   reset_task, and after it the task is not a recorded writer of any resource -- so whatever overlap its writes meet names a
   DIFFERENT task.  For every world satisfying the store invariant (every reachable world), every task and resource. *)
From Coq Require Import List NArith ZArith Bool Lia.
From PieV Require Import Model.Dag Model.Build Proofs.DagLib Proofs.DagWF Proofs.DagViews Proofs.StoreInv Proofs.ExecInv Proofs.Cert Proofs.NoAbort.
Import ListNotations.
Open Scope N_scope.

Lemma StoreOK_reset_task w t : StoreOK w -> StoreOK (reset_task w t).
Proof. intros H. unfold StoreOK, reset_task. cbn [gr set_gr set_outs]. apply GOK_remove_outgoing. exact H. Qed.

Theorem reset_task_clears_own_writes w t r wr :
  StoreOK w -> get_task_writing_to_resource (reset_task w t) r = Some wr -> wr <> t.
Proof.
  intros H X E. subst wr.
  destruct (writer_edge (reset_task w t) r t (StoreOK_reset_task w t H) X) as [dp [R _]].
  unfold row, reset_task in R. cbn [gr set_gr set_outs] in R.
  destruct H as [W _].
  destruct (live (gr w) (tn t)) eqn:L.
  - destruct (remove_outgoing_view (gr w) (tn t) W L) as [_ [_ [_ [_ [_ [_ V]]]]]].
    rewrite V, N.eqb_refl in R. discriminate.
  - rewrite remove_outgoing_snd, L in R. cbn [negb] in R.
    assert (In (rn r) (kids_of (gr w) (tn t))) as I by (apply (wf_edata _ W); rewrite R; discriminate).
    destruct (wf_closed _ W _ _ I) as [L' _]. congruence.
Qed.

(* hence: the first thing an execution of t can be told about an overlap is the name of another task *)
Corollary own_earlier_write_is_no_overlap w t r :
  StoreOK w -> get_task_writing_to_resource w r = Some t ->
  get_task_writing_to_resource (reset_task w t) r <> Some t.
Proof. intros H _ X. exact (reset_task_clears_own_writes w t r t H X eq_refl). Qed.

(* C09 / C08: one dependency per (task, target).  A task that reads a resource it has already read (or written) in the same
   execution -- with whatever checker -- leaves the dependency graph exactly as it was: the dependency recorded first, with ITS
   checker and ITS stamp, is the one that later decides consistency.  (What the seeded change C09_r33 broke; with a more lenient
   first checker this is the read form of the recorded finding O7.) *)
From Coq Require Import List NArith ZArith Bool.
From PieV Require Import Model.Dag Model.Build Proofs.DagLib Proofs.DagWF Proofs.DagAddEdge Proofs.StoreInv.
Import ListNotations.
Open Scope N_scope.

Section SR.
Variable RC : rcid -> rchecker.

Lemma set_gr_same w : set_gr w (gr w) = w. Proof. destruct w; reflexivity. Qed.

Theorem second_read_keeps_first_dependency w t r c x w' :
  StoreOK w -> cur w = Some t -> In (rn r) (kids_of (gr w) (tn t)) ->
  sess_read RC w r c = Done x w' -> gr w' = gr w.
Proof.
  intros [W _] Hc Hk. unfold sess_read. rewrite Hc.
  destruct (wf_closed _ W _ _ Hk) as [Lt Lr].
  assert (G2 : get_or_create_resource_node (emit w (EReadStart r c)) r = emit w (EReadStart r c)).
  { unfold get_or_create_resource_node. cbn [gr emit]. rewrite Lr. reflexivity. }
  rewrite G2.
  destruct (hidden_read_check _ t r); [discriminate|].
  destruct (rc_stamp (RC c) _ r _) as [st|e]; [|intros H; inversion H; reflexivity].
  unfold add_dependency. cbn [gr emit].
  destruct (add_edge_early (gr w) (tn t) (rn r) (DRead r c st) W (or_intror (or_intror (or_intror Hk)))) as [S [NF _]].
  destruct (add_edge (gr w) (tn t) (rn r) (DRead r c st)) as [[b|[|]|] g'] eqn:E; cbn [snd fst] in S, NF; subst g';
    try (intros H; inversion H; reflexivity); try discriminate.
Qed.
End SR.

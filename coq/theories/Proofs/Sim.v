(* C01: an incremental top-down build returns what a build from scratch returns.
   Two runs of the same interpreter are compared: run A on the incremental store, run B on a fresh store with the same
   resource contents.  Sim relates their worlds (resource contents, the session's consistent set, outputs of consistent
   tasks).  The induction is over the fuel of run A; a task that A reuses (all recorded dependencies validate) is executed by
   B, and B's execution follows the recorded run (the certificate of Cert.v) because every checker that accepts a new value
   shows the task the same view of it; a task whose validation fails is executed by both, after A has replayed the
   validated prefix against consistent tasks and unchanged resources (content frame of Stable.v). *)
From Coq Require Import List NArith ZArith Bool Lia.
From PieV Require Import Model.Dag Model.Build Proofs.DagLib Proofs.DagWF Proofs.DagPath Proofs.Inv Proofs.StoreInv Proofs.History
  Proofs.Effects Proofs.Local Proofs.Local2 Proofs.ExecInv Proofs.ExecSession Proofs.Cert Proofs.Stable.
Import ListNotations.
Open Scope N_scope.

Record Sim (a b : world) : Prop := mkSim {
  sim_content : forall r, get_content a r = get_content b r;
  sim_env : env a = env b;
  sim_cons : forall x, memN x (consistent a) = memN x (consistent b);
  sim_out : forall x, memN x (consistent a) = true -> get_task_output a x = get_task_output b x
}.
(* a store in which only tasks of the current session have outputs (a build from scratch) *)
Definition FreshW (b : world) : Prop := forall x, memN x (consistent b) = false -> get_task_output b x = None.
(* same observable session state *)
Record Same (w w' : world) : Prop := mkSame {
  same_content : forall r, get_content w' r = get_content w r;
  same_env : env w' = env w;
  same_cons : consistent w' = consistent w;
  same_outs : outs w' = outs w
}.

Lemma Sim_sym a b : Sim a b -> Sim b a.
Proof.
  intros [A B C D]. constructor; [intros r; symmetry; apply A|symmetry; exact B|intros x; symmetry; apply C|].
  intros x X. symmetry. apply D. rewrite C. exact X.
Qed.
Lemma Sim_trans a b c : Sim a b -> Sim b c -> Sim a c.
Proof.
  intros [A1 B1 C1 D1] [A2 B2 C2 D2]. constructor.
  - intros r. rewrite A1. apply A2. - congruence. - intros x. rewrite C1. apply C2.
  - intros x X. rewrite D1 by exact X. apply D2. rewrite <- C1. exact X.
Qed.
Lemma Same_refl w : Same w w. Proof. constructor; reflexivity. Qed.
Lemma Same_trans w1 w2 w3 : Same w1 w2 -> Same w2 w3 -> Same w1 w3.
Proof. intros [A1 B1 C1 D1] [A2 B2 C2 D2]. constructor; [intros r; rewrite A2; apply A1|congruence|congruence|congruence]. Qed.
Lemma Same_Sim w w' : Same w w' -> Sim w w'.
Proof.
  intros [A B C D]. constructor; [intros r; symmetry; apply A|symmetry; exact B|intros x; rewrite C; reflexivity|].
  intros x _. unfold get_task_output. rewrite D. reflexivity.
Qed.
Lemma Sim_same_l a a1 b : Same a a1 -> Sim a b -> Sim a1 b.
Proof. intros X Y. eapply Sim_trans; [apply Sim_sym, Same_Sim; exact X|exact Y]. Qed.
Lemma Sim_same_r a b b1 : Same b b1 -> Sim a b -> Sim a b1.
Proof. intros X Y. eapply Sim_trans; [exact Y|apply Same_Sim; exact X]. Qed.
Lemma FreshW_same b b1 : Same b b1 -> FreshW b -> FreshW b1.
Proof. intros [A B C D] F x X. rewrite C in X. unfold get_task_output. rewrite D. apply F. exact X. Qed.

Lemma Same_goc_task w x : Same w (get_or_create_task_node w x).
Proof. unfold get_or_create_task_node. destruct (live _ _); constructor; reflexivity. Qed.
Lemma Same_goc_res w x : Same w (get_or_create_resource_node w x).
Proof. unfold get_or_create_resource_node. destruct (live _ _); constructor; reflexivity. Qed.
Lemma Same_add_dep w s d dp : Same w (snd (add_dependency w s d dp)).
Proof. unfold add_dependency. destruct (add_edge _ _ _ _) as [[b|[|]|] g']; constructor; reflexivity. Qed.
Lemma Same_struct w w' : rstate w' = rstate w -> env w' = env w -> consistent w' = consistent w -> outs w' = outs w -> Same w w'.
Proof. intros A B C D. constructor; try assumption. intros r. unfold get_content. rewrite A. reflexivity. Qed.

(* what a Post from an empty-G computation does to a fresh store *)
Lemma post_fresh S w w' seg : Post S [] [] w w' seg -> FreshW w -> FreshW w'.
Proof.
  intros P1 F x X. destruct (in_dec N.eq_dec x (execs seg)) as [I|NI].
  - destruct (po_cons _ _ _ _ _ _ P1 x I) as [Z|[]]. congruence.
  - destruct (po_others _ _ _ _ _ _ P1 x NI ltac:(intros [])) as [_ [_ O]]. rewrite O. apply F.
    destruct (memN x (consistent w)) eqn:Z; [|reflexivity]. apply (po_mono _ _ _ _ _ _ P1) in Z. congruence.
Qed.
Lemma post_fresh_exec S t w w' seg : Post S [t] [] w w' seg -> get_task_output w t = None -> FreshW w -> FreshW w'.
Proof.
  intros P1 Ho F x X. destruct (in_dec N.eq_dec x (execs seg)) as [I|NI].
  - destruct (po_cons _ _ _ _ _ _ P1 x I) as [Z|[]]. congruence.
  - destruct (N.eq_dec x t) as [->|Hne].
    + rewrite (po_oframe _ _ _ _ _ _ P1) by (right; left; reflexivity). exact Ho.
    + destruct (po_others _ _ _ _ _ _ P1 x NI ltac:(intros [E|[]]; congruence)) as [_ [_ O]]. rewrite O. apply F.
      destruct (memN x (consistent w)) eqn:Z; [|reflexivity]. apply (po_mono _ _ _ _ _ _ P1) in Z. congruence.
Qed.

(* w1 is w after storing v in r *)
Definition Wrote (w w1 : world) (r : res) (v : content) : Prop :=
  get_content w1 r = v /\ (forall r', r' <> r -> get_content w1 r' = get_content w r') /\
  env w1 = env w /\ consistent w1 = consistent w /\ outs w1 = outs w.
Lemma Sim_wrote2 x y x1 y1 r v : Sim x y -> Wrote x x1 r v -> Wrote y y1 r v -> Sim x1 y1.
Proof.
  intros [C1 C2 C3 C4] [A1 [A2 [A3 [A4 A5]]]] [B1 [B2 [B3 [B4 B5]]]]. constructor.
  - intros r'. destruct (N.eq_dec r' r) as [->|Hne]; [congruence|]. rewrite A2, B2 by exact Hne. apply C1.
  - congruence. - intros z. rewrite A4, B4. apply C3.
  - intros z Z. unfold get_task_output. rewrite A5, B5. apply C4. rewrite A4 in Z. exact Z.
Qed.
Lemma Sim_wrote_l x y x1 r v : Sim x y -> Wrote x x1 r v -> get_content y r = v -> Sim x1 y.
Proof.
  intros [C1 C2 C3 C4] [A1 [A2 [A3 [A4 A5]]]] B. constructor.
  - intros r'. destruct (N.eq_dec r' r) as [->|Hne]; [congruence|]. rewrite A2 by exact Hne. apply C1.
  - congruence. - intros z. rewrite A4. apply C3.
  - intros z Z. unfold get_task_output. rewrite A5. apply C4. rewrite A4 in Z. exact Z.
Qed.
Lemma Sim_wrote_r x y y1 r v : Sim x y -> Wrote y y1 r v -> get_content x r = v -> Sim x y1.
Proof. intros A B C. apply Sim_sym. eapply Sim_wrote_l; [apply Sim_sym; exact A|exact B|exact C]. Qed.
Lemma FreshW_wrote b b1 r v : Wrote b b1 r v -> FreshW b -> FreshW b1.
Proof. intros [_ [_ [_ [B4 B5]]]] F y Y. rewrite B4 in Y. unfold get_task_output. rewrite B5. apply F. exact Y. Qed.

(* the world in which the body of t starts (reset, current := t): only t's output and dependencies are gone *)
Definition Start (w w2 : world) (t : task) : Prop :=
  (forall r, get_content w2 r = get_content w r) /\ env w2 = env w /\ consistent w2 = consistent w /\
  (forall x, x <> t -> get_task_output w2 x = get_task_output w x) /\ get_task_output w2 t = None.
Lemma Sim_start_r a b b2 t : Sim a b -> memN t (consistent b) = false -> Start b b2 t -> Sim a b2.
Proof.
  intros [C1 C2 C3 C4] Hn [B1 [B2 [B3 [B4 _]]]]. constructor.
  - intros r. rewrite B1. apply C1. - congruence. - intros x. rewrite B3. apply C3.
  - intros x X. rewrite B4; [apply C4; exact X|]. intros ->. rewrite C3 in X. congruence.
Qed.
Lemma Sim_start_l a a2 b t : Sim a b -> memN t (consistent a) = false -> Start a a2 t -> Sim a2 b.
Proof. intros A B C. apply Sim_sym. eapply Sim_start_r; [apply Sim_sym; exact A|exact B|exact C]. Qed.
Lemma FreshW_start b b2 t : Start b b2 t -> FreshW b -> FreshW b2.
Proof.
  intros [_ [_ [B3 [B4 B5]]]] F x X. rewrite B3 in X. destruct (N.eq_dec x t) as [->|Hne]; [exact B5|]. rewrite B4 by exact Hne. apply F. exact X.
Qed.
(* the world after t completed with output o and was marked consistent *)
Definition Fin (w w' : world) (t : task) (o : Z) : Prop :=
  (forall r, get_content w' r = get_content w r) /\ env w' = env w /\
  (forall x, memN x (consistent w') = N.eqb x t || memN x (consistent w)) /\
  (forall x, x <> t -> get_task_output w' x = get_task_output w x) /\ get_task_output w' t = Some o.
Lemma Sim_fin a b a' b' t o : Sim a b -> Fin a a' t o -> Fin b b' t o -> Sim a' b'.
Proof.
  intros [C1 C2 C3 C4] [A1 [A2 [A3 [A4 A5]]]] [B1 [B2 [B3 [B4 B5]]]]. constructor.
  - intros r. rewrite A1, B1. apply C1. - congruence. - intros x. rewrite A3, B3, C3. reflexivity.
  - intros x X. destruct (N.eq_dec x t) as [->|Hne]; [congruence|]. rewrite A4, B4 by exact Hne. apply C4.
    rewrite A3 in X. rewrite (proj2 (N.eqb_neq x t) Hne) in X. exact X.
Qed.
Lemma Fin_exec_end w3 e c1 t o :
  Fin w3 (mark_consistent (set_task_output (set_cur (emit w3 e) c1) t o) t) t o.
Proof.
  split; [reflexivity|]. split; [reflexivity|]. split; [intros x; reflexivity|]. split.
  - intros x Hne. unfold get_task_output, mark_consistent, set_task_output. cbn [outs set_consistent set_outs set_cur emit]. apply alookup_aset_other. exact Hne.
  - unfold get_task_output, mark_consistent, set_task_output. cbn [outs set_consistent set_outs set_cur emit]. apply alookup_aset_eq.
Qed.
Lemma Fin_mark w t o : get_task_output w t = Some o -> Fin w (mark_consistent w t) t o.
Proof. intros Ho. split; [reflexivity|]. split; [reflexivity|]. split; [intros x; reflexivity|]. split; [intros; reflexivity|exact Ho]. Qed.
Lemma Start_exec w t : StoreOK w -> Start w (emit (set_cur (reset_task w t) (Some t)) (EExecStart t)) t.
Proof.
  intros H. destruct (reset_task_facts w t H) as [_ [_ [_ [_ [C1 [_ [_ [_ [O0 O1]]]]]]]]].
  split; [reflexivity|]. split; [reflexivity|]. split; [exact C1|]. split; [intros x Hne; apply O1; exact Hne|exact O0].
Qed.

Section Sm.
Variable gen : res -> option task.
Variable wck : rcid -> Prop.
Variable RC : rcid -> rchecker.
Variable OC : ocid -> ochecker.
Variable P : task -> prog.
Variable sf : rcid -> res -> content -> Z.
Hypothesis HS : forall c env r v, rc_stamp (RC c) env r v = inl (sf c r v).
Hypothesis HWF : forall t, WFP gen wck t [] (P t).
(* a resource checker that accepts a new value shows its reader the same view of it *)
Hypothesis HC : forall c env r v v', rc_check (RC c) env r v' (sf c r v) = Consistent -> rc_view (RC c) v' = rc_view (RC c) v.
(* the checkers guarding writes accept only the written value *)
Hypothesis HW : forall c env r v v', wck c -> rc_check (RC c) env r v' (sf c r v) = Consistent -> v' = v.
(* an output checker that accepts a new output shows the requirer the same view of it *)
Hypothesis HOC : forall c o o', oc_check (OC c) o' (oc_stamp (OC c) o) = true -> oc_view (OC c) o' = oc_view (OC c) o.

Let HNR : forall t, NR [] (P t). Proof. intros t. eapply WFP_NR. apply HWF. Qed.
Notation mc := (make_consistent_td RC OC P).
Notation KK := (K RC OC P sf).

(* ---- facts about single runs, read off the Done equation ---- *)
Lemma mc_facts f w t S o w' : StoreOK w -> Inv2 w -> Chain w S -> entry_ok w S t -> mc f w t = Done o w' ->
  (exists seg, Post S [] [] w w' seg) /\ cur w' = cur w /\ memN t (consistent w') = true /\ get_task_output w' t = Some o /\
  CF gen S w w' /\ (KK w -> KK w').
Proof.
  intros H J0 C E Eq. pose proof (make_consistent_td_spec RC OC P f w t S H J0 C E) as A.
  pose proof (make_consistent_td_CF gen wck RC OC P sf HS HWF f w t S H J0 C E) as B.
  pose proof (make_consistent_td_K RC OC P sf HS HNR f w t S H J0 C E) as D.
  rewrite Eq in *. cbn in A, B. destruct A as [A1 [A2 [A3 A4]]].
  split; [exact A1|]. split; [exact A2|]. split; [exact A3|]. split; [exact A4|]. split; [exact B|]. intros X. apply (D X).
Qed.

Lemma req_facts f t S w x c o w' : Pre t S w -> require_with OC (mc f) w x c = Done o w' ->
  Pre t S w' /\ (exists seg, Post S [t] [] w w' seg) /\ (KK w -> KK w').
Proof.
  intros PR Eq.
  pose proof (require_with_spec RC OC P (mc f) t S (make_consistent_td_spec RC OC P f) w x c
                (pre_ok _ _ _ PR) (pre_inv _ _ _ PR) (pre_chain _ _ _ PR) (pre_cur _ _ _ PR) (pre_out _ _ _ PR) (pre_nores _ _ _ PR)) as A.
  pose proof (require_with_K RC OC P sf (mc f) t S (make_consistent_td_spec RC OC P f) (make_consistent_td_K RC OC P sf HS HNR f) w x c PR) as D.
  rewrite Eq in *. split; [eapply pre_step; eassumption|]. split; [exact (proj1 A)|]. intros X. apply (D X).
Qed.

Lemma sess_read_done w t r c x w' : cur w = Some t -> sess_read RC w r c = Done x w' ->
  x = inl (rc_view (RC c) (get_content w r)) /\ Same w w'.
Proof.
  intros Hc. unfold sess_read. rewrite Hc.
  set (w2 := get_or_create_resource_node (emit w (EReadStart r c)) r).
  destruct (hidden_read_check w2 t r); [discriminate|]. rewrite HS.
  pose proof (Same_add_dep (emit w2 (EReadEnd r c (sf c r (get_content w r)))) (tn t) (rn r) (DRead r c (sf c r (get_content w r)))) as SA.
  assert (S2 : Same w (emit w2 (EReadEnd r c (sf c r (get_content w r))))).
  { eapply Same_trans; [apply (Same_struct w (emit w (EReadStart r c))); reflexivity|].
    eapply Same_trans; [apply (Same_goc_res (emit w (EReadStart r c)) r)|]. apply Same_struct; reflexivity. }
  destruct (add_dependency _ _ _ _) as [[| |] w4]; cbn [snd] in SA; intros X; inversion X; subst;
  (split; [reflexivity|eapply Same_trans; eassumption]).
Qed.

Lemma sess_write_done w t r c v x w' : cur w = Some t -> sess_write RC w r c v = Done x w' ->
  x = inl tt /\ Wrote w w' r v.
Proof.
  intros Hc. unfold sess_write. rewrite Hc.
  set (w2 := get_or_create_resource_node (emit w (EWriteStart r c)) r).
  destruct (validate_write w2 t r); [discriminate|]. rewrite HS.
  set (w3 := set_content w2 r v).
  pose proof (Same_add_dep (emit w3 (EWriteEnd r c (sf c r (get_content w3 r)))) (tn t) (rn r) (DWrite r c (sf c r (get_content w3 r)))) as SA.
  assert (A : get_content w3 r = v) by apply get_content_set_content.
  assert (B : forall r', r' <> r -> get_content w3 r' = get_content w r').
  { intros r' Hne. unfold w3. rewrite (get_content_set_other w2 r v r' Hne). unfold w2. rewrite content_goc_res. reflexivity. }
  assert (C : env w3 = env w /\ consistent w3 = consistent w /\ outs w3 = outs w).
  { unfold w3, w2, get_or_create_resource_node. destruct (live _ _); destruct v; repeat split. }
  destruct (add_dependency _ _ _ _) as [[| |] w5]; cbn [snd] in SA; intros X; inversion X; subst x w'; destruct SA as [S1 S2 S3 S4];
  (split; [reflexivity|]; split; [rewrite S1; exact A|]; split; [intros r' Hne; rewrite S1; apply B; exact Hne|];
   destruct C as [C1 [C2 C3]]; split; [rewrite S2; exact C1|]; split; [rewrite S3; exact C2|rewrite S4; exact C3]).
Qed.

Lemma sess_written_to_done w0 t r c v x w' : cur w0 = Some t -> sess_written_to RC w0 r c v = Done x w' ->
  x = inl tt /\ Wrote w0 w' r v.
Proof.
  intros Hc. unfold sess_written_to.
  set (w := set_content w0 r v).
  assert (Hc' : cur w = Some t) by (unfold w; destruct v; exact Hc). rewrite Hc'.
  set (w2 := get_or_create_resource_node (emit w (EWriteStart r c)) r).
  destruct (validate_write w2 t r); [discriminate|]. rewrite HS.
  pose proof (Same_add_dep (emit w2 (EWriteEnd r c (sf c r (get_content w2 r)))) (tn t) (rn r) (DWrite r c (sf c r (get_content w2 r)))) as SA.
  assert (A : get_content w2 r = v) by (unfold w2; rewrite content_goc_res; apply (get_content_set_content w0 r v)).
  assert (B : forall r', r' <> r -> get_content w2 r' = get_content w0 r').
  { intros r' Hne. unfold w2. rewrite content_goc_res. apply (get_content_set_other w0 r v r' Hne). }
  assert (C : env w2 = env w0 /\ consistent w2 = consistent w0 /\ outs w2 = outs w0).
  { unfold w2, w, get_or_create_resource_node. destruct (live _ _); destruct v; repeat split. }
  destruct (add_dependency _ _ _ _) as [[| |] w5]; cbn [snd] in SA; intros X; inversion X; subst x w'; destruct SA as [S1 S2 S3 S4];
  (split; [reflexivity|]; split; [rewrite S1; exact A|]; split; [intros r' Hne; rewrite S1; apply B; exact Hne|];
   destruct C as [C1 [C2 C3]]; split; [rewrite S2; exact C1|]; split; [rewrite S3; exact C2|rewrite S4; exact C3]).
Qed.

(* ---- the simulation ---- *)
Definition SIMMC (f : nat) : Prop :=
  forall f' a b t Sa Sb o a' o' b',
    StoreOK a -> Inv2 a -> KK a -> StoreOK b -> Inv2 b -> FreshW b -> Sim a b ->
    Chain a Sa -> Chain b Sb -> entry_ok a Sa t -> entry_ok b Sb t ->
    mc f a t = Done o a' -> mc f' b t = Done o' b' -> o = o' /\ Sim a' b'.

Lemma sim_req f : SIMMC f ->
  forall f' t Sa Sb a b x c oa a' ob b',
    Pre t Sa a -> KK a -> Pre t Sb b -> FreshW b -> Sim a b ->
    require_with OC (mc f) a x c = Done oa a' -> require_with OC (mc f') b x c = Done ob b' ->
    oa = ob /\ Sim a' b'.
Proof.
  intros IH f' t Sa Sb a b x c oa a' ob b' PA Ka PB Fb Sab EA EB.
  pose proof (require_prefix RC OC P t Sa a x c PA) as RA. pose proof (require_prefix RC OC P t Sb b x c PB) as RB. cbv zeta in RA, RB.
  unfold require_with in EA, EB.
  set (a2 := get_or_create_task_node (emit a (ERequireStart x c)) x) in *.
  set (b2 := get_or_create_task_node (emit b (ERequireStart x c)) x) in *.
  destruct RA as [LA2 [HcA2 RA]]. destruct RB as [LB2 [HcB2 RB]].
  unfold reserve_require_dependency in EA, EB. rewrite HcA2 in EA. rewrite HcB2 in EB.
  pose proof (Same_add_dep a2 (tn t) (tn x) DReserved) as SA3. pose proof (Same_add_dep b2 (tn t) (tn x) DReserved) as SB3.
  destruct (add_dependency a2 (tn t) (tn x) DReserved) as [[| |] a3] eqn:ADA; cbn [bind snd] in *; try discriminate.
  destruct (add_dependency b2 (tn t) (tn x) DReserved) as [[| |] b3] eqn:ADB; cbn [bind snd] in *; try discriminate.
  destruct RA as [LA3 [EA3 [CA3 [JA3 [HoA3 HcA3]]]]]. destruct RB as [LB3 [EB3 [CB3 [JB3 [HoB3 HcB3]]]]].
  assert (SaA : Same a a3).
  { eapply Same_trans; [apply (Same_struct a (emit a (ERequireStart x c))); reflexivity|]. eapply Same_trans; [apply Same_goc_task|exact SA3]. }
  assert (SaB : Same b b3).
  { eapply Same_trans; [apply (Same_struct b (emit b (ERequireStart x c))); reflexivity|]. eapply Same_trans; [apply Same_goc_task|exact SB3]. }
  assert (S3 : Sim a3 b3) by (apply (Sim_same_l a); [exact SaA|]; apply (Sim_same_r a b); [exact SaB|exact Sab]).
  assert (K3 : KK a3) by (apply (leaf_K RC OC P sf t a a3 LA3 (pre_out _ _ _ PA) Ka)).
  destruct (mc f a3 x) as [o4 a4|k a4|] eqn:MA; cbn [bind] in EA; try discriminate.
  destruct (mc f' b3 x) as [o4' b4|k b4|] eqn:MB; cbn [bind] in EB; try discriminate.
  destruct (IH f' a3 b3 x (t :: Sa) (t :: Sb) o4 a4 o4' b4 (lf_ok _ _ _ LA3) JA3 K3 (lf_ok _ _ _ LB3) JB3 (FreshW_same b b3 SaB Fb) S3 CA3 CB3 EA3 EB3 MA MB) as [Eo S4].
  destruct (mc_facts f a3 x (t :: Sa) o4 a4 (lf_ok _ _ _ LA3) JA3 CA3 EA3 MA) as [_ [HcA4 _]].
  destruct (mc_facts f' b3 x (t :: Sb) o4' b4 (lf_ok _ _ _ LB3) JB3 CB3 EB3 MB) as [_ [HcB4 _]].
  unfold update_require_dependency in EA, EB.
  change (cur (emit a4 (ERequireEnd x c (oc_stamp (OC c) o4) o4))) with (cur a4) in EA. rewrite HcA4, HcA3 in EA.
  change (cur (emit b4 (ERequireEnd x c (oc_stamp (OC c) o4') o4'))) with (cur b4) in EB. rewrite HcB4, HcB3 in EB.
  destruct (get_edata (gr (emit a4 _)) (tn t) (tn x)); cbn [bind] in EA; try discriminate.
  destruct (get_edata (gr (emit b4 _)) (tn t) (tn x)); cbn [bind] in EB; try discriminate.
  inversion EA; subst oa a'. inversion EB; subst ob b'. split; [exact Eo|].
  apply (Sim_same_l a4); [apply Same_struct; reflexivity|]. apply (Sim_same_r a4 b4); [apply Same_struct; reflexivity|exact S4].
Qed.

Lemma req_fresh f t S w x c o w' : Pre t S w -> FreshW w -> require_with OC (mc f) w x c = Done o w' -> FreshW w'.
Proof.
  intros PR F Eq. destruct (req_facts f t S w x c o w' PR Eq) as [_ [[seg P1] _]].
  eapply post_fresh_exec; [exact P1|apply (pre_out _ _ _ PR)|exact F].
Qed.

(* both runs execute the same program from related worlds *)
Lemma sim_exec f : SIMMC f ->
  forall p f' t Sa Sb a b oa a' ob b',
    Pre t Sa a -> KK a -> Pre t Sb b -> FreshW b -> Sim a b ->
    exec_prog RC OC (require_with OC (mc f)) p a = Done oa a' ->
    exec_prog RC OC (require_with OC (mc f')) p b = Done ob b' ->
    oa = ob /\ Sim a' b'.
Proof.
  intros IH. induction p as [o| |x c k IHp|r c k IHp|r c v k IHp|r c v k IHp]; intros f' t Sa Sb a b oa a' ob b' PA Ka PB Fb Sab EA EB; cbn [exec_prog] in EA, EB.
  - inversion EA; inversion EB; subst. split; [reflexivity|exact Sab].
  - discriminate.
  - destruct (require_with OC (mc f) a x c) as [o1 a1|k1 a1|] eqn:RA; cbn [bind] in EA; try discriminate.
    destruct (require_with OC (mc f') b x c) as [o1' b1|k1 b1|] eqn:RB; cbn [bind] in EB; try discriminate.
    destruct (sim_req f IH f' t Sa Sb a b x c o1 a1 o1' b1 PA Ka PB Fb Sab RA RB) as [Eo S1]. subst o1'.
    destruct (req_facts f t Sa a x c o1 a1 PA RA) as [PA1 [_ KA1]]. destruct (req_facts f' t Sb b x c o1 b1 PB RB) as [PB1 _].
    apply (IHp _ f' t Sa Sb a1 b1 oa a' ob b' PA1 (KA1 Ka) PB1 (req_fresh f' t Sb b x c o1 b1 PB Fb RB) S1 EA EB).
  - destruct (sess_read RC a r c) as [x1 a1|k1 a1|] eqn:RA; cbn [bind] in EA; try discriminate.
    destruct (sess_read RC b r c) as [x1' b1|k1 b1|] eqn:RB; cbn [bind] in EB; try discriminate.
    destruct (sess_read_done a t r c x1 a1 (pre_cur _ _ _ PA) RA) as [-> SA]. destruct (sess_read_done b t r c x1' b1 (pre_cur _ _ _ PB) RB) as [-> SB].
    rewrite <- (sim_content a b Sab r) in EB.
    pose proof (sess_read_leaf RC a t r c (pre_ok _ _ _ PA) (pre_cur _ _ _ PA)) as LA. rewrite RA in LA. cbn in LA.
    pose proof (sess_read_leaf RC b t r c (pre_ok _ _ _ PB) (pre_cur _ _ _ PB)) as LB. rewrite RB in LB. cbn in LB.
    pose proof (sess_read_nores RC a t r c (pre_ok _ _ _ PA) (pre_cur _ _ _ PA) (pre_nores _ _ _ PA)) as NA. rewrite RA in NA. cbn in NA.
    pose proof (sess_read_nores RC b t r c (pre_ok _ _ _ PB) (pre_cur _ _ _ PB) (pre_nores _ _ _ PB)) as NB. rewrite RB in NB. cbn in NB.
    assert (PA1 : Pre t Sa a1).
    { eapply (pre_step t Sa a (inl (rc_view (RC c) (get_content a r)) : Z + Z) a1 PA). split; [apply (leaf_post Sa t [] a a1 LA (chain_head_notin _ _ _ (pre_chain _ _ _ PA)) (pre_out _ _ _ PA))|].
      split; [rewrite (lf_cur _ _ _ LA); apply (pre_cur _ _ _ PA)|exact NA]. }
    assert (PB1 : Pre t Sb b1).
    { eapply (pre_step t Sb b (inl (rc_view (RC c) (get_content a r)) : Z + Z) b1 PB). split; [apply (leaf_post Sb t [] b b1 LB (chain_head_notin _ _ _ (pre_chain _ _ _ PB)) (pre_out _ _ _ PB))|].
      split; [rewrite (lf_cur _ _ _ LB); apply (pre_cur _ _ _ PB)|exact NB]. }
    apply (IHp _ f' t Sa Sb a1 b1 oa a' ob b' PA1 (leaf_K RC OC P sf t a a1 LA (pre_out _ _ _ PA) Ka) PB1 (FreshW_same b b1 SB Fb)
             ltac:(apply (Sim_same_l a); [exact SA|]; apply (Sim_same_r a b); [exact SB|exact Sab]) EA EB).
  - destruct (sess_write RC a r c v) as [x1 a1|k1 a1|] eqn:RA; cbn [bind] in EA; try discriminate.
    destruct (sess_write RC b r c v) as [x1' b1|k1 b1|] eqn:RB; cbn [bind] in EB; try discriminate.
    destruct (sess_write_done a t r c v x1 a1 (pre_cur _ _ _ PA) RA) as [-> [A1 [A2 [A3 [A4 A5]]]]].
    destruct (sess_write_done b t r c v x1' b1 (pre_cur _ _ _ PB) RB) as [-> [B1 [B2 [B3 [B4 B5]]]]].
    pose proof (sess_write_leaf RC a t r c v (pre_ok _ _ _ PA) (pre_cur _ _ _ PA)) as LA. rewrite RA in LA. cbn in LA.
    pose proof (sess_write_leaf RC b t r c v (pre_ok _ _ _ PB) (pre_cur _ _ _ PB)) as LB. rewrite RB in LB. cbn in LB.
    pose proof (sess_write_nores RC a t r c v (pre_ok _ _ _ PA) (pre_cur _ _ _ PA) (pre_nores _ _ _ PA)) as NA. rewrite RA in NA. cbn in NA.
    pose proof (sess_write_nores RC b t r c v (pre_ok _ _ _ PB) (pre_cur _ _ _ PB) (pre_nores _ _ _ PB)) as NB. rewrite RB in NB. cbn in NB.
    assert (PA1 : Pre t Sa a1).
    { eapply (pre_step t Sa a (inl tt : unit + Z) a1 PA). split; [apply (leaf_post Sa t [] a a1 LA (chain_head_notin _ _ _ (pre_chain _ _ _ PA)) (pre_out _ _ _ PA))|].
      split; [rewrite (lf_cur _ _ _ LA); apply (pre_cur _ _ _ PA)|exact NA]. }
    assert (PB1 : Pre t Sb b1).
    { eapply (pre_step t Sb b (inl tt : unit + Z) b1 PB). split; [apply (leaf_post Sb t [] b b1 LB (chain_head_notin _ _ _ (pre_chain _ _ _ PB)) (pre_out _ _ _ PB))|].
      split; [rewrite (lf_cur _ _ _ LB); apply (pre_cur _ _ _ PB)|exact NB]. }
    assert (S1 : Sim a1 b1).
    { destruct Sab as [C1 C2 C3 C4]. constructor.
      - intros r'. destruct (N.eq_dec r' r) as [->|Hne]; [congruence|]. rewrite A2, B2 by exact Hne. apply C1.
      - congruence. - intros y. rewrite A4, B4. apply C3.
      - intros y Y. unfold get_task_output. rewrite A5, B5. apply C4. rewrite A4 in Y. exact Y. }
    assert (F1 : FreshW b1) by (intros y Y; rewrite B4 in Y; unfold get_task_output; rewrite B5; apply Fb; exact Y).
    apply (IHp _ f' t Sa Sb a1 b1 oa a' ob b' PA1 (leaf_K RC OC P sf t a a1 LA (pre_out _ _ _ PA) Ka) PB1 F1 S1 EA EB).
  - destruct (sess_written_to RC a r c v) as [x1 a1|k1 a1|] eqn:RA; cbn [bind] in EA; try discriminate.
    destruct (sess_written_to RC b r c v) as [x1' b1|k1 b1|] eqn:RB; cbn [bind] in EB; try discriminate.
    destruct (sess_written_to_done a t r c v x1 a1 (pre_cur _ _ _ PA) RA) as [-> [A1 [A2 [A3 [A4 A5]]]]].
    destruct (sess_written_to_done b t r c v x1' b1 (pre_cur _ _ _ PB) RB) as [-> [B1 [B2 [B3 [B4 B5]]]]].
    pose proof (sess_written_to_leaf RC a t r c v (pre_ok _ _ _ PA) (pre_cur _ _ _ PA)) as LA. rewrite RA in LA. cbn in LA.
    pose proof (sess_written_to_leaf RC b t r c v (pre_ok _ _ _ PB) (pre_cur _ _ _ PB)) as LB. rewrite RB in LB. cbn in LB.
    pose proof (sess_written_to_nores RC a t r c v (pre_ok _ _ _ PA) (pre_cur _ _ _ PA) (pre_nores _ _ _ PA)) as NA. rewrite RA in NA. cbn in NA.
    pose proof (sess_written_to_nores RC b t r c v (pre_ok _ _ _ PB) (pre_cur _ _ _ PB) (pre_nores _ _ _ PB)) as NB. rewrite RB in NB. cbn in NB.
    assert (PA1 : Pre t Sa a1).
    { eapply (pre_step t Sa a (inl tt : unit + Z) a1 PA). split; [apply (leaf_post Sa t [] a a1 LA (chain_head_notin _ _ _ (pre_chain _ _ _ PA)) (pre_out _ _ _ PA))|].
      split; [rewrite (lf_cur _ _ _ LA); apply (pre_cur _ _ _ PA)|exact NA]. }
    assert (PB1 : Pre t Sb b1).
    { eapply (pre_step t Sb b (inl tt : unit + Z) b1 PB). split; [apply (leaf_post Sb t [] b b1 LB (chain_head_notin _ _ _ (pre_chain _ _ _ PB)) (pre_out _ _ _ PB))|].
      split; [rewrite (lf_cur _ _ _ LB); apply (pre_cur _ _ _ PB)|exact NB]. }
    assert (S1 : Sim a1 b1).
    { destruct Sab as [C1 C2 C3 C4]. constructor.
      - intros r'. destruct (N.eq_dec r' r) as [->|Hne]; [congruence|]. rewrite A2, B2 by exact Hne. apply C1.
      - congruence. - intros y. rewrite A4, B4. apply C3.
      - intros y Y. unfold get_task_output. rewrite A5, B5. apply C4. rewrite A4 in Y. exact Y. }
    assert (F1 : FreshW b1) by (intros y Y; rewrite B4 in Y; unfold get_task_output; rewrite B5; apply Fb; exact Y).
    apply (IHp _ f' t Sa Sb a1 b1 oa a' ob b' PA1 (leaf_K RC OC P sf t a a1 LA (pre_out _ _ _ PA) Ka) PB1 F1 S1 EA EB).
Qed.

Lemma Rep_suffix D p acc o kf : Rep RC OC sf D p acc o kf -> exists rest, kf = acc ++ rest.
Proof.
  induction 1 as [o acc|x c k ox acc o kf HD R [rest E]|r c k v acc o kf HD R [rest E]|r c v k acc o kf HD R [rest E]|r c v k acc o kf HD R [rest E]].
  - exists []. rewrite app_nil_r. reflexivity.
  - exists (tn x :: rest). rewrite E, <- app_assoc. reflexivity.
  - exists (rn r :: rest). rewrite E, <- app_assoc. reflexivity.
  - exists (rn r :: rest). rewrite E, <- app_assoc. reflexivity.
  - exists (rn r :: rest). rewrite E, <- app_assoc. reflexivity.
Qed.
Lemma Rep_rest D p acc o kf d rest : Rep RC OC sf D p (acc ++ [d]) o kf -> kf = acc ++ rest -> exists rest', rest = d :: rest' /\ kf = (acc ++ [d]) ++ rest'.
Proof.
  intros R E. destruct (Rep_suffix _ _ _ _ _ R) as [rest' E']. exists rest'. split; [|exact E'].
  rewrite E' in E. rewrite <- app_assoc in E. apply app_inv_head in E. cbn in E. symmetry. exact E.
Qed.

(* requiring a task that is already consistent: its cached output, no change of the session state *)
Lemma req_memo f t S w x c o w' : Pre t S w -> memN x (consistent w) = true ->
  require_with OC (mc f) w x c = Done o w' -> get_task_output w x = Some o /\ Same w w'.
Proof.
  intros PR Hx Eq. pose proof (require_prefix RC OC P t S w x c PR) as RP. cbv zeta in RP. unfold require_with in Eq.
  set (w2 := get_or_create_task_node (emit w (ERequireStart x c)) x) in *.
  destruct RP as [L2 [Hc2 RP]]. unfold reserve_require_dependency in Eq. rewrite Hc2 in Eq.
  pose proof (Same_add_dep w2 (tn t) (tn x) DReserved) as S3.
  destruct (add_dependency w2 (tn t) (tn x) DReserved) as [[| |] w3] eqn:AD; cbn [bind snd] in *; try discriminate.
  destruct RP as [L3 [E3 [C3 [J3 [Ho3 Hc3]]]]].
  assert (Sw3 : Same w w3).
  { eapply Same_trans; [apply (Same_struct w (emit w (ERequireStart x c))); reflexivity|]. eapply Same_trans; [apply Same_goc_task|exact S3]. }
  destruct f as [|f1]; [discriminate|]. cbn [make_consistent_td] in Eq.
  pose proof (Same_goc_task w3 x) as S0. set (w0 := get_or_create_task_node w3 x) in *.
  assert (Hx0 : memN x (consistent w0) = true) by (rewrite (same_cons _ _ S0), (same_cons _ _ Sw3); exact Hx).
  rewrite Hx0 in Eq. destruct (get_task_output w0 x) as [o0|] eqn:Ho0; cbn [bind] in Eq; try discriminate.
  unfold update_require_dependency in Eq.
  change (cur (emit w0 (ERequireEnd x c (oc_stamp (OC c) o0) o0))) with (cur w0) in Eq.
  assert (Hc0 : cur w0 = Some t) by (unfold w0, get_or_create_task_node; destruct (live _ _); exact Hc3). rewrite Hc0 in Eq.
  destruct (get_edata _ _ _); cbn [bind] in Eq; try discriminate. inversion Eq; subst o w'.
  split.
  - unfold get_task_output in *. rewrite <- (same_outs _ _ Sw3), <- (same_outs _ _ S0). exact Ho0.
  - eapply Same_trans; [exact Sw3|]. eapply Same_trans; [exact S0|]. apply Same_struct; reflexivity.
Qed.

Lemma chk_facts f t S ds w ok w' : StoreOK w -> Inv2 w -> Chain w (t :: S) -> (forall d, In d ds -> dep_ok w t d) ->
  check_deps RC OC (mc f) ds w = Done ok w' ->
  (exists seg, Post (t :: S) [] [] w w' seg) /\ CF gen (t :: S) w w' /\ (KK w -> KK w').
Proof.
  intros H J0 C HE Eq.
  pose proof (check_deps_spec RC OC (mc f) t S (make_consistent_td_spec RC OC P f) ds w H J0 C HE) as A.
  assert (B : outCF gen (t :: S) w (check_deps RC OC (mc f) ds w)).
  { eapply check_deps_CF; try eassumption; [apply make_consistent_td_spec|].
    eapply make_consistent_td_CF; eassumption. }
  assert (D : KK w -> outK RC OC P sf (check_deps RC OC (mc f) ds w)).
  { intros X. eapply check_deps_K; try eassumption; [apply make_consistent_td_spec|].
    eapply make_consistent_td_K; eassumption. }
  rewrite Eq in *. split; [exact (proj1 A)|]. split; [exact B|]. intros X. apply (D X).
Qed.

(* run A makes x consistent while validating t; run B requires x from the executing t *)
Lemma sim_mc_req f : SIMMC f ->
  forall f' t Sa Sb a b x c o a' ob b',
    StoreOK a -> Inv2 a -> KK a -> Chain a (t :: Sa) -> edge a t x -> Pre t Sb b -> FreshW b -> Sim a b ->
    mc f a x = Done o a' -> require_with OC (mc f') b x c = Done ob b' -> o = ob /\ Sim a' b'.
Proof.
  intros IH f' t Sa Sb a b x c o a' ob b' Ha Ja Ka Ca Ea PB Fb Sab MA EB.
  pose proof (require_prefix RC OC P t Sb b x c PB) as RB. cbv zeta in RB. unfold require_with in EB.
  set (b2 := get_or_create_task_node (emit b (ERequireStart x c)) x) in *.
  destruct RB as [LB2 [HcB2 RB]]. unfold reserve_require_dependency in EB. rewrite HcB2 in EB.
  pose proof (Same_add_dep b2 (tn t) (tn x) DReserved) as SB3.
  destruct (add_dependency b2 (tn t) (tn x) DReserved) as [[| |] b3] eqn:ADB; cbn [bind snd] in *; try discriminate.
  destruct RB as [LB3 [EB3 [CB3 [JB3 [HoB3 HcB3]]]]].
  assert (SaB : Same b b3).
  { eapply Same_trans; [apply (Same_struct b (emit b (ERequireStart x c))); reflexivity|]. eapply Same_trans; [apply Same_goc_task|exact SB3]. }
  destruct (mc f' b3 x) as [o4' b4|k b4|] eqn:MB; cbn [bind] in EB; try discriminate.
  destruct (IH f' a b3 x (t :: Sa) (t :: Sb) o a' o4' b4 Ha Ja Ka (lf_ok _ _ _ LB3) JB3 (FreshW_same b b3 SaB Fb)
              ltac:(apply (Sim_same_r a b); [exact SaB|exact Sab]) Ca CB3 Ea EB3 MA MB) as [Eo S4].
  destruct (mc_facts f' b3 x (t :: Sb) o4' b4 (lf_ok _ _ _ LB3) JB3 CB3 EB3 MB) as [_ [HcB4 _]].
  unfold update_require_dependency in EB.
  change (cur (emit b4 (ERequireEnd x c (oc_stamp (OC c) o4') o4'))) with (cur b4) in EB. rewrite HcB4, HcB3 in EB.
  destruct (get_edata (gr (emit b4 _)) (tn t) (tn x)); cbn [bind] in EB; try discriminate.
  inversion EB; subst ob b'. split; [exact Eo|]. apply (Sim_same_r a' b4); [apply Same_struct; reflexivity|exact S4].
Qed.

Lemma chk_req_step_a f t Sa a x c st o1 a2 :
  StoreOK a -> Inv2 a -> KK a -> Chain a (t :: Sa) -> edge a t x ->
  mc f (emit a (ECheckTaskStart x c st)) x = Done o1 a2 ->
  forall e3, let a3 := emit a2 e3 in
  StoreOK a3 /\ Inv2 a3 /\ KK a3 /\ Chain a3 (t :: Sa) /\
  (forall d, get_edata (gr a3) (tn t) d = get_edata (gr a) (tn t) d) /\ kids_of (gr a3) (tn t) = kids_of (gr a) (tn t) /\
  cons_mono a a3 /\ memN x (consistent a3) = true /\ get_task_output a3 x = Some o1.
Proof.
  intros H J0 Ka C E MA e3 a3. set (a1 := emit a (ECheckTaskStart x c st)) in *.
  assert (C1 : Chain a1 (t :: Sa)) by (destruct C as [N C]; split; [exact N|apply (chain_frame a a1); [exact C|intros; reflexivity]]).
  destruct (mc_facts f a1 x (t :: Sa) o1 a2 H J0 C1 E MA) as [[seg P2] [_ [Hx [Ho [_ Kf]]]]].
  split; [apply (po_ok _ _ _ _ _ _ P2)|]. split; [apply (po_inv _ _ _ _ _ _ P2 J0)|].
  split; [apply (K_same RC OC P sf a2); [reflexivity|reflexivity|apply Kf; apply (K_same RC OC P sf a); [reflexivity|reflexivity|exact Ka]]|].
  split; [pose proof (chain_post_all a1 a2 (t :: Sa) [] seg C1 P2) as [N2 C2]; split; [exact N2|apply (chain_frame a2 a3); [exact C2|intros; reflexivity]]|].
  split; [intros d; apply (po_eframe _ _ _ _ _ _ P2); left; reflexivity|].
  split; [apply (po_frame _ _ _ _ _ _ P2); left; reflexivity|].
  split; [apply (po_mono _ _ _ _ _ _ P2)|]. split; [exact Hx|exact Ho].
Qed.

Lemma dep_ok_frame a a3 t ds : kids_of (gr a3) (tn t) = kids_of (gr a) (tn t) ->
  (forall d, In d ds -> dep_ok a t d) -> forall d, In d ds -> dep_ok a3 t d.
Proof.
  intros Kk HE d Hd. destruct (HE d Hd) as [dp [-> [NR' HX']]]. exists dp. split; [reflexivity|]. split; [exact NR'|].
  intros x c st E. unfold edge. rewrite Kk. apply (HX' x c st E).
Qed.

Lemma acc_cons_step (a a3 : world) acc d :
  cons_mono a a3 -> (forall g, In (tn g) acc -> memN g (consistent a) = true) ->
  (forall g, tn g = d -> memN g (consistent a3) = true) ->
  forall g, In (tn g) (acc ++ [d]) -> memN g (consistent a3) = true.
Proof.
  intros M A B g Hg. apply in_app_or in Hg. destruct Hg as [Hg|[Hg|[]]]; [apply M, A; exact Hg|apply B; symmetry; exact Hg].
Qed.

(* THE LOCKSTEP: run A validates the recorded dependencies of t (certificate Rep), run B executes t's program.
   If validation succeeds, B's execution reproduces the recorded run (reuse is sound).  If it fails, any later execution
   of the same program suffix by A (from a world equivalent to the one validation ended in) agrees with B's. *)
Lemma sim_chk f : SIMMC f ->
  forall D p acc o0 kf, Rep RC OC sf D p acc o0 kf ->
  forall f' t Sa Sb rest a b ok a' ob b',
    kf = acc ++ rest ->
    (forall d, get_edata (gr a) (tn t) d = D d) -> kids_of (gr a) (tn t) = kf ->
    StoreOK a -> Inv2 a -> KK a -> Chain a (t :: Sa) ->
    (forall d, In d (map D rest) -> dep_ok a t d) ->
    (forall g, In (tn g) acc -> memN g (consistent a) = true) ->
    WFP gen wck t acc p ->
    Pre t Sb b -> FreshW b -> Sim a b ->
    check_deps RC OC (mc f) (map D rest) a = Done ok a' ->
    exec_prog RC OC (require_with OC (mc f')) p b = Done ob b' ->
    (ok = true -> ob = o0 /\ Sim a' b') /\
    (ok = false -> forall S' ah oa ah', Pre t S' ah -> KK ah -> Sim ah a' ->
        exec_prog RC OC (require_with OC (mc f)) p ah = Done oa ah' -> oa = ob /\ Sim ah' b').
Proof.
  intros IH D p acc o0 kf R.
  induction R as [o acc|x c k ox acc o kf HD R IHR|r c k v acc o kf HD R IHR|r c v k acc o kf HD R IHR|r c v k acc o kf HD R IHR];
    intros f' t Sa Sb rest a b ok a' ob b' Ekf Hrow Hkids Ha Ja Ka Ca Hdo Hacc HW0 PB Fb Sab EA EB.
  - (* Ret *)
    assert (rest = []) by (rewrite <- (app_nil_r acc) in Ekf at 1; apply app_inv_head in Ekf; symmetry; exact Ekf). subst rest.
    cbn in EA, EB. inversion EA; inversion EB; subst. split; [intros _; split; [reflexivity|exact Sab]|discriminate].
  - (* Req *)
    destruct (Rep_rest D _ acc o kf (tn x) rest R Ekf) as [rest' [-> Ekf']].
    inversion HW0 as [| |sn x' c' k' Hx Hk| | |]; subst sn x' c' k'.
    cbn [map check_deps] in EA. rewrite HD in EA.
    set (st := oc_stamp (OC c) ox) in *.
    assert (Edge : edge a t x).
    { destruct (Hdo (D (tn x)) (or_introl eq_refl)) as [dp [E1 [_ E3]]]. rewrite HD in E1. inversion E1; subst dp. apply (E3 x c st eq_refl). }
    destruct (mc f (emit a (ECheckTaskStart x c st)) x) as [o1 a2|k1 a2|] eqn:MA; cbn [bind] in EA; try discriminate.
    cbn [exec_prog] in EB. destruct (require_with OC (mc f') b x c) as [o1' b1|k1 b1|] eqn:RB; cbn [bind] in EB; try discriminate.
    assert (C1 : Chain (emit a (ECheckTaskStart x c st)) (t :: Sa)) by (destruct Ca as [N C]; split; [exact N|apply (chain_frame a _); [exact C|intros; reflexivity]]).
    destruct (sim_mc_req f IH f' t Sa Sb (emit a (ECheckTaskStart x c st)) b x c o1 a2 o1' b1 Ha Ja
                ltac:(apply (K_same RC OC P sf a); [reflexivity|reflexivity|exact Ka]) C1 Edge PB Fb
                ltac:(apply (Sim_same_l a); [apply Same_struct; reflexivity|exact Sab]) MA RB) as [Eo S2]. subst o1'.
    set (e3 := ECheckTaskEnd x c st (negb (oc_check (OC c) o1 st))) in *.
    destruct (chk_req_step_a f t Sa a x c st o1 a2 Ha Ja Ka Ca Edge MA e3) as [Ha3 [Ja3 [Ka3 [Ca3 [Row3 [Kids3 [Mono3 [Hx3 Ho3]]]]]]]].
    set (a3 := emit a2 e3) in *.
    destruct (req_facts f' t Sb b x c o1 b1 PB RB) as [PB1 _]. pose proof (req_fresh f' t Sb b x c o1 b1 PB Fb RB) as Fb1.
    assert (S3 : Sim a3 b1) by (apply (Sim_same_l a2); [apply Same_struct; reflexivity|exact S2]).
    (* what run A does when it later executes this require: a memo hit with output o1 *)
    assert (MEMO : forall a'', cons_mono a3 a'' -> (forall y, memN y (consistent a3) = true -> get_task_output a'' y = get_task_output a3 y) ->
              forall S' ah o_h ah1, Pre t S' ah -> Sim ah a'' -> require_with OC (mc f) ah x c = Done o_h ah1 -> o_h = o1 /\ Same ah ah1).
    { intros a'' M'' O'' S' ah o_h ah1 PH SH RH.
      assert (Hxh : memN x (consistent ah) = true) by (rewrite (sim_cons _ _ SH); apply M''; exact Hx3).
      destruct (req_memo f t S' ah x c o_h ah1 PH Hxh RH) as [Oh Sm]. split; [|exact Sm].
      rewrite (sim_out _ _ SH x Hxh), (O'' x Hx3), Ho3 in Oh. inversion Oh. reflexivity. }
    destruct (oc_check (OC c) o1 st) eqn:OK1.
    + (* the dependency validates: both continue along the recorded run *)
      assert (Ev : oc_view (OC c) o1 = oc_view (OC c) ox) by (apply HOC; exact OK1).
      rewrite Ev in EB.
      assert (Hrow3 : forall d, get_edata (gr a3) (tn t) d = D d) by (intros d; rewrite Row3; apply Hrow).
      assert (Hkids3 : kids_of (gr a3) (tn t) = kf) by (rewrite Kids3; exact Hkids).
      assert (Hdo3 : forall d, In d (map D rest') -> dep_ok a3 t d).
      { apply (dep_ok_frame a a3 t); [exact Kids3|]. intros d Hd. apply Hdo. right. exact Hd. }
      assert (Hacc3 : forall g, In (tn g) (acc ++ [tn x]) -> memN g (consistent a3) = true).
      { apply (acc_cons_step a a3 acc (tn x) Mono3 Hacc). intros g Eg. apply tn_inj in Eg. subst g. exact Hx3. }
      destruct (IHR f' t Sa Sb rest' a3 b1 ok a' ob b' Ekf' Hrow3 Hkids3 Ha3 Ja3 Ka3 Ca3 Hdo3 Hacc3 (Hk _) PB1 Fb1 S3 EA EB) as [I1 I2].
      split; [exact I1|]. intros Hok S' ah oa ah' PH KH SH EH.
      destruct (chk_facts f t Sa (map D rest') a3 ok a' Ha3 Ja3 Ca3 Hdo3 EA) as [[seg PR3] _].
      cbn [exec_prog] in EH. destruct (require_with OC (mc f) ah x c) as [o_h ah1|kh ah1|] eqn:RH; cbn [bind] in EH; try discriminate.
      destruct (MEMO a' (po_mono _ _ _ _ _ _ PR3)
                  ltac:(intros y Y; apply (po_others _ _ _ _ _ _ PR3 y); [intros Z; destruct (po_fresh _ _ _ _ _ _ PR3 y Z) as [_ [_ Z']]; congruence|intros []])
                  S' ah o_h ah1 PH SH RH) as [-> Smh].
      rewrite Ev in EH. destruct (req_facts f t S' ah x c o1 ah1 PH RH) as [PH1 [_ KH1]].
      apply (I2 Hok S' ah1 oa ah' PH1 (KH1 KH) ltac:(apply (Sim_same_l ah); [exact Smh|exact SH]) EH).
    + (* the dependency does not validate *)
      inversion EA; subst ok a'. split; [discriminate|]. intros _ S' ah oa ah' PH KH SH EH.
      cbn [exec_prog] in EH. destruct (require_with OC (mc f) ah x c) as [o_h ah1|kh ah1|] eqn:RH; cbn [bind] in EH; try discriminate.
      destruct (MEMO a3 ltac:(intros y Y; exact Y) ltac:(intros y _; reflexivity) S' ah o_h ah1 PH SH RH) as [-> Smh].
      destruct (req_facts f t S' ah x c o1 ah1 PH RH) as [PH1 [_ KH1]].
      apply (sim_exec f IH _ f' t S' Sb ah1 b1 oa ah' ob b' PH1 (KH1 KH) PB1 Fb1
               ltac:(eapply Sim_trans; [apply (Sim_same_l ah); [exact Smh|exact SH]|exact S3]) EH EB).
  - (* Read *)
    destruct (Rep_rest D _ acc o kf (rn r) rest R Ekf) as [rest' [-> Ekf']].
    inversion HW0 as [| | |sn r' c' k' Hx Hg Hk| |]; subst sn r' c' k'.
    cbn [map check_deps] in EA. rewrite HD in EA. unfold check_resource_td in EA. cbv zeta in EA.
    set (st := sf c r v) in *.
    set (a1 := emit a (ECheckResStart r c st)) in *.
    set (xx := rc_check (RC c) (env a1) r (get_content a1 r) st) in *.
    set (a2 := emit a1 (ECheckResEnd r c st xx)) in *.
    cbn [exec_prog] in EB. destruct (sess_read RC b r c) as [x1 b1|k1 b1|] eqn:RB; cbn [bind] in EB; try discriminate.
    destruct (sess_read_done b t r c x1 b1 (pre_cur _ _ _ PB) RB) as [-> SB1].
    rewrite <- (sim_content a b Sab r) in EB.
    pose proof (sess_read_leaf RC b t r c (pre_ok _ _ _ PB) (pre_cur _ _ _ PB)) as LB. rewrite RB in LB. cbn in LB.
    pose proof (sess_read_nores RC b t r c (pre_ok _ _ _ PB) (pre_cur _ _ _ PB) (pre_nores _ _ _ PB)) as NB. rewrite RB in NB. cbn in NB.
    assert (PB1 : Pre t Sb b1).
    { eapply (pre_step t Sb b (inl (rc_view (RC c) (get_content a r)) : Z + Z) b1 PB). split; [apply (leaf_post Sb t [] b b1 LB (chain_head_notin _ _ _ (pre_chain _ _ _ PB)) (pre_out _ _ _ PB))|].
      split; [rewrite (lf_cur _ _ _ LB); apply (pre_cur _ _ _ PB)|exact NB]. }
    pose proof (FreshW_same b b1 SB1 Fb) as Fb1.
    assert (Sa2 : Same a a2) by (apply Same_struct; reflexivity).
    assert (S2 : Sim a2 b1) by (apply (Sim_same_l a); [exact Sa2|]; apply (Sim_same_r a b); [exact SB1|exact Sab]).
    assert (Stab : StabC gen (t :: Sa) a2 r).
    { destruct Hg as [E|[g [E Ig]]]; [left; exact E|right; exists g; split; [exact E|left; apply Hacc; exact Ig]]. }
    (* what run A sees when it later executes this read: the same content *)
    assert (READ : forall a'', CF gen (t :: Sa) a2 a'' -> forall S' ah x_h ah1, Pre t S' ah -> KK ah -> Sim ah a'' ->
               sess_read RC ah r c = Done x_h ah1 -> x_h = inl (rc_view (RC c) (get_content a r)) /\ Pre t S' ah1 /\ KK ah1 /\ Same ah ah1).
    { intros a'' CF'' S' ah x_h ah1 PH KH SH RH.
      destruct (sess_read_done ah t r c x_h ah1 (pre_cur _ _ _ PH) RH) as [-> Smh].
      rewrite (sim_content _ _ SH r), (proj1 CF'' r Stab).
      pose proof (sess_read_leaf RC ah t r c (pre_ok _ _ _ PH) (pre_cur _ _ _ PH)) as LH. rewrite RH in LH. cbn in LH.
      pose proof (sess_read_nores RC ah t r c (pre_ok _ _ _ PH) (pre_cur _ _ _ PH) (pre_nores _ _ _ PH)) as NH. rewrite RH in NH. cbn in NH.
      split; [reflexivity|]. split; [|split; [apply (leaf_K RC OC P sf t ah ah1 LH (pre_out _ _ _ PH) KH)|exact Smh]].
      eapply (pre_step t S' ah (inl 0%Z : Z + Z) ah1 PH). split; [apply (leaf_post S' t [] ah ah1 LH (chain_head_notin _ _ _ (pre_chain _ _ _ PH)) (pre_out _ _ _ PH))|].
      split; [rewrite (lf_cur _ _ _ LH); apply (pre_cur _ _ _ PH)|exact NH]. }
    assert (Ca2 : Chain a2 (t :: Sa)) by (destruct Ca as [N C]; split; [exact N|apply (chain_frame a a2); [exact C|intros; reflexivity]]).
    assert (Hdo2 : forall d, In d (map D rest') -> dep_ok a2 t d).
    { apply (dep_ok_frame a a2 t); [reflexivity|]. intros d Hd. apply Hdo. right. exact Hd. }
    assert (Hacc2 : forall g, In (tn g) (acc ++ [rn r]) -> memN g (consistent a2) = true).
    { apply (acc_cons_step a a2 acc (rn r) ltac:(intros y Y; exact Y) Hacc). intros g Eg. exfalso. exact (tn_rn _ _ Eg). }
    destruct xx as [| |e] eqn:XX; cbv iota beta in EA.
    + assert (Ev : rc_view (RC c) (get_content a r) = rc_view (RC c) v) by (apply (HC c (env a1) r v (get_content a r)); exact XX).
      rewrite Ev in EB.
      destruct (IHR f' t Sa Sb rest' a2 b1 ok a' ob b' Ekf' Hrow Hkids Ha Ja ltac:(apply (K_same RC OC P sf a); [reflexivity|reflexivity|exact Ka])
                  Ca2 Hdo2 Hacc2 (Hk _) PB1 Fb1 S2 EA EB) as [I1 I2].
      split; [exact I1|]. intros Hok S' ah oa ah' PH KH SH EH.
      destruct (chk_facts f t Sa (map D rest') a2 ok a' Ha Ja Ca2 Hdo2 EA) as [_ [CF2 _]].
      cbn [exec_prog] in EH. destruct (sess_read RC ah r c) as [x_h ah1|kh ah1|] eqn:RH; cbn [bind] in EH; try discriminate.
      destruct (READ a' CF2 S' ah x_h ah1 PH KH SH RH) as [-> [PH1 [KH1 Smh]]]. rewrite Ev in EH.
      apply (I2 Hok S' ah1 oa ah' PH1 KH1 ltac:(apply (Sim_same_l ah); [exact Smh|exact SH]) EH).
    + inversion EA; subst ok a'. split; [discriminate|]. intros _ S' ah oa ah' PH KH SH EH.
      cbn [exec_prog] in EH. destruct (sess_read RC ah r c) as [x_h ah1|kh ah1|] eqn:RH; cbn [bind] in EH; try discriminate.
      destruct (READ a2 (CF_refl gen _ a2) S' ah x_h ah1 PH KH SH RH) as [-> [PH1 [KH1 Smh]]].
      apply (sim_exec f IH _ f' t S' Sb ah1 b1 oa ah' ob b' PH1 KH1 PB1 Fb1
               ltac:(eapply Sim_trans; [apply (Sim_same_l ah); [exact Smh|exact SH]|exact S2]) EH EB).
    + inversion EA; subst ok a'. split; [discriminate|]. intros _ S' ah oa ah' PH KH SH EH.
      cbn [exec_prog] in EH. destruct (sess_read RC ah r c) as [x_h ah1|kh ah1|] eqn:RH; cbn [bind] in EH; try discriminate.
      assert (SH2 : Sim ah a2) by (eapply Sim_trans; [exact SH|apply Sim_sym, Same_Sim; apply Same_struct; reflexivity]).
      destruct (READ a2 (CF_refl gen _ a2) S' ah x_h ah1 PH KH SH2 RH) as [-> [PH1 [KH1 Smh]]].
      apply (sim_exec f IH _ f' t S' Sb ah1 b1 oa ah' ob b' PH1 KH1 PB1 Fb1
               ltac:(eapply Sim_trans; [apply (Sim_same_l ah); [exact Smh|exact SH2]|exact S2]) EH EB).
  - (* Write *)
    destruct (Rep_rest D _ acc o kf (rn r) rest R Ekf) as [rest' [-> Ekf']].
    inversion HW0 as [| | | |sn r' c' v' k' Hx Hg Hwc Hk|]; subst sn r' c' v' k'.
    cbn [map check_deps] in EA. rewrite HD in EA. unfold check_resource_td in EA. cbv zeta in EA.
    set (st := sf c r v) in *.
    set (a1 := emit a (ECheckResStart r c st)) in *.
    set (xx := rc_check (RC c) (env a1) r (get_content a1 r) st) in *.
    set (a2 := emit a1 (ECheckResEnd r c st xx)) in *.
    cbn [exec_prog] in EB. destruct (sess_write RC b r c v) as [x1 b1|k1 b1|] eqn:RB; cbn [bind] in EB; try discriminate.
    destruct (sess_write_done b t r c v x1 b1 (pre_cur _ _ _ PB) RB) as [-> WB].
    pose proof (sess_write_leaf RC b t r c v (pre_ok _ _ _ PB) (pre_cur _ _ _ PB)) as LB. rewrite RB in LB. cbn in LB.
    pose proof (sess_write_nores RC b t r c v (pre_ok _ _ _ PB) (pre_cur _ _ _ PB) (pre_nores _ _ _ PB)) as NB. rewrite RB in NB. cbn in NB.
    assert (PB1 : Pre t Sb b1).
    { eapply (pre_step t Sb b (inl tt : unit + Z) b1 PB). split; [apply (leaf_post Sb t [] b b1 LB (chain_head_notin _ _ _ (pre_chain _ _ _ PB)) (pre_out _ _ _ PB))|].
      split; [rewrite (lf_cur _ _ _ LB); apply (pre_cur _ _ _ PB)|exact NB]. }
    pose proof (FreshW_wrote b b1 r v WB Fb) as Fb1.
    assert (Sa2 : Same a a2) by (apply Same_struct; reflexivity).
    assert (Stab : StabC gen (t :: Sa) a2 r) by (right; exists t; split; [exact Hg|right; left; reflexivity]).
    (* what run A does when it later executes this write *)
    assert (WRITE : forall S' ah x_h ah1, Pre t S' ah -> KK ah -> sess_write RC ah r c v = Done x_h ah1 ->
               x_h = inl tt /\ Pre t S' ah1 /\ KK ah1 /\ Wrote ah ah1 r v).
    { intros S' ah x_h ah1 PH KH RH.
      destruct (sess_write_done ah t r c v x_h ah1 (pre_cur _ _ _ PH) RH) as [-> WH].
      pose proof (sess_write_leaf RC ah t r c v (pre_ok _ _ _ PH) (pre_cur _ _ _ PH)) as LH. rewrite RH in LH. cbn in LH.
      pose proof (sess_write_nores RC ah t r c v (pre_ok _ _ _ PH) (pre_cur _ _ _ PH) (pre_nores _ _ _ PH)) as NH. rewrite RH in NH. cbn in NH.
      split; [reflexivity|]. split; [|split; [apply (leaf_K RC OC P sf t ah ah1 LH (pre_out _ _ _ PH) KH)|exact WH]].
      eapply (pre_step t S' ah (inl tt : unit + Z) ah1 PH). split; [apply (leaf_post S' t [] ah ah1 LH (chain_head_notin _ _ _ (pre_chain _ _ _ PH)) (pre_out _ _ _ PH))|].
      split; [rewrite (lf_cur _ _ _ LH); apply (pre_cur _ _ _ PH)|exact NH]. }
    assert (Ca2 : Chain a2 (t :: Sa)) by (destruct Ca as [N C]; split; [exact N|apply (chain_frame a a2); [exact C|intros; reflexivity]]).
    assert (Hdo2 : forall d, In d (map D rest') -> dep_ok a2 t d).
    { apply (dep_ok_frame a a2 t); [reflexivity|]. intros d Hd. apply Hdo. right. exact Hd. }
    assert (Hacc2 : forall g, In (tn g) (acc ++ [rn r]) -> memN g (consistent a2) = true).
    { apply (acc_cons_step a a2 acc (rn r) ltac:(intros y Y; exact Y) Hacc). intros g Eg. exfalso. exact (tn_rn _ _ Eg). }
    assert (Sa2b : Sim a2 b) by (apply (Sim_same_l a); [exact Sa2|exact Sab]).
    destruct xx as [| |e] eqn:XX; cbv iota beta in EA.
    + assert (Ev : get_content a2 r = v) by (apply (HW c (env a1) r v (get_content a r) Hwc); exact XX).
      assert (S2 : Sim a2 b1) by (apply (Sim_wrote_r a2 b b1 r v Sa2b WB Ev)).
      destruct (IHR f' t Sa Sb rest' a2 b1 ok a' ob b' Ekf' Hrow Hkids Ha Ja ltac:(apply (K_same RC OC P sf a); [reflexivity|reflexivity|exact Ka])
                  Ca2 Hdo2 Hacc2 (Hk _) PB1 Fb1 S2 EA EB) as [I1 I2].
      split; [exact I1|]. intros Hok S' ah oa ah' PH KH SH EH.
      destruct (chk_facts f t Sa (map D rest') a2 ok a' Ha Ja Ca2 Hdo2 EA) as [_ [CF2 _]].
      cbn [exec_prog] in EH. destruct (sess_write RC ah r c v) as [x_h ah1|kh ah1|] eqn:RH; cbn [bind] in EH; try discriminate.
      destruct (WRITE S' ah x_h ah1 PH KH RH) as [-> [PH1 [KH1 WH]]].
      apply (I2 Hok S' ah1 oa ah' PH1 KH1 ltac:(apply (Sim_wrote_l ah a' ah1 r v SH WH); rewrite (proj1 CF2 r Stab); exact Ev) EH).
    + inversion EA; subst ok a'. split; [discriminate|]. intros _ S' ah oa ah' PH KH SH EH.
      cbn [exec_prog] in EH. destruct (sess_write RC ah r c v) as [x_h ah1|kh ah1|] eqn:RH; cbn [bind] in EH; try discriminate.
      destruct (WRITE S' ah x_h ah1 PH KH RH) as [-> [PH1 [KH1 WH]]].
      apply (sim_exec f IH _ f' t S' Sb ah1 b1 oa ah' ob b' PH1 KH1 PB1 Fb1
               ltac:(apply (Sim_wrote2 ah b ah1 b1 r v); [eapply Sim_trans; [exact SH|exact Sa2b]|exact WH|exact WB]) EH EB).
    + inversion EA; subst ok a'. split; [discriminate|]. intros _ S' ah oa ah' PH KH SH EH.
      cbn [exec_prog] in EH. destruct (sess_write RC ah r c v) as [x_h ah1|kh ah1|] eqn:RH; cbn [bind] in EH; try discriminate.
      destruct (WRITE S' ah x_h ah1 PH KH RH) as [-> [PH1 [KH1 WH]]].
      assert (SH2 : Sim ah a2) by (eapply Sim_trans; [exact SH|apply Sim_sym, Same_Sim; apply Same_struct; reflexivity]).
      apply (sim_exec f IH _ f' t S' Sb ah1 b1 oa ah' ob b' PH1 KH1 PB1 Fb1
               ltac:(apply (Sim_wrote2 ah b ah1 b1 r v); [eapply Sim_trans; [exact SH2|exact Sa2b]|exact WH|exact WB]) EH EB).
  - (* WrittenTo *)
    destruct (Rep_rest D _ acc o kf (rn r) rest R Ekf) as [rest' [-> Ekf']].
    inversion HW0 as [| | | | |sn r' c' v' k' Hx Hg Hwc Hk]; subst sn r' c' v' k'.
    cbn [map check_deps] in EA. rewrite HD in EA. unfold check_resource_td in EA. cbv zeta in EA.
    set (st := sf c r v) in *.
    set (a1 := emit a (ECheckResStart r c st)) in *.
    set (xx := rc_check (RC c) (env a1) r (get_content a1 r) st) in *.
    set (a2 := emit a1 (ECheckResEnd r c st xx)) in *.
    cbn [exec_prog] in EB. destruct (sess_written_to RC b r c v) as [x1 b1|k1 b1|] eqn:RB; cbn [bind] in EB; try discriminate.
    destruct (sess_written_to_done b t r c v x1 b1 (pre_cur _ _ _ PB) RB) as [-> WB].
    pose proof (sess_written_to_leaf RC b t r c v (pre_ok _ _ _ PB) (pre_cur _ _ _ PB)) as LB. rewrite RB in LB. cbn in LB.
    pose proof (sess_written_to_nores RC b t r c v (pre_ok _ _ _ PB) (pre_cur _ _ _ PB) (pre_nores _ _ _ PB)) as NB. rewrite RB in NB. cbn in NB.
    assert (PB1 : Pre t Sb b1).
    { eapply (pre_step t Sb b (inl tt : unit + Z) b1 PB). split; [apply (leaf_post Sb t [] b b1 LB (chain_head_notin _ _ _ (pre_chain _ _ _ PB)) (pre_out _ _ _ PB))|].
      split; [rewrite (lf_cur _ _ _ LB); apply (pre_cur _ _ _ PB)|exact NB]. }
    pose proof (FreshW_wrote b b1 r v WB Fb) as Fb1.
    assert (Sa2 : Same a a2) by (apply Same_struct; reflexivity).
    assert (Stab : StabC gen (t :: Sa) a2 r) by (right; exists t; split; [exact Hg|right; left; reflexivity]).
    (* what run A does when it later executes this write *)
    assert (WRITE : forall S' ah x_h ah1, Pre t S' ah -> KK ah -> sess_written_to RC ah r c v = Done x_h ah1 ->
               x_h = inl tt /\ Pre t S' ah1 /\ KK ah1 /\ Wrote ah ah1 r v).
    { intros S' ah x_h ah1 PH KH RH.
      destruct (sess_written_to_done ah t r c v x_h ah1 (pre_cur _ _ _ PH) RH) as [-> WH].
      pose proof (sess_written_to_leaf RC ah t r c v (pre_ok _ _ _ PH) (pre_cur _ _ _ PH)) as LH. rewrite RH in LH. cbn in LH.
      pose proof (sess_written_to_nores RC ah t r c v (pre_ok _ _ _ PH) (pre_cur _ _ _ PH) (pre_nores _ _ _ PH)) as NH. rewrite RH in NH. cbn in NH.
      split; [reflexivity|]. split; [|split; [apply (leaf_K RC OC P sf t ah ah1 LH (pre_out _ _ _ PH) KH)|exact WH]].
      eapply (pre_step t S' ah (inl tt : unit + Z) ah1 PH). split; [apply (leaf_post S' t [] ah ah1 LH (chain_head_notin _ _ _ (pre_chain _ _ _ PH)) (pre_out _ _ _ PH))|].
      split; [rewrite (lf_cur _ _ _ LH); apply (pre_cur _ _ _ PH)|exact NH]. }
    assert (Ca2 : Chain a2 (t :: Sa)) by (destruct Ca as [N C]; split; [exact N|apply (chain_frame a a2); [exact C|intros; reflexivity]]).
    assert (Hdo2 : forall d, In d (map D rest') -> dep_ok a2 t d).
    { apply (dep_ok_frame a a2 t); [reflexivity|]. intros d Hd. apply Hdo. right. exact Hd. }
    assert (Hacc2 : forall g, In (tn g) (acc ++ [rn r]) -> memN g (consistent a2) = true).
    { apply (acc_cons_step a a2 acc (rn r) ltac:(intros y Y; exact Y) Hacc). intros g Eg. exfalso. exact (tn_rn _ _ Eg). }
    assert (Sa2b : Sim a2 b) by (apply (Sim_same_l a); [exact Sa2|exact Sab]).
    destruct xx as [| |e] eqn:XX; cbv iota beta in EA.
    + assert (Ev : get_content a2 r = v) by (apply (HW c (env a1) r v (get_content a r) Hwc); exact XX).
      assert (S2 : Sim a2 b1) by (apply (Sim_wrote_r a2 b b1 r v Sa2b WB Ev)).
      destruct (IHR f' t Sa Sb rest' a2 b1 ok a' ob b' Ekf' Hrow Hkids Ha Ja ltac:(apply (K_same RC OC P sf a); [reflexivity|reflexivity|exact Ka])
                  Ca2 Hdo2 Hacc2 (Hk _) PB1 Fb1 S2 EA EB) as [I1 I2].
      split; [exact I1|]. intros Hok S' ah oa ah' PH KH SH EH.
      destruct (chk_facts f t Sa (map D rest') a2 ok a' Ha Ja Ca2 Hdo2 EA) as [_ [CF2 _]].
      cbn [exec_prog] in EH. destruct (sess_written_to RC ah r c v) as [x_h ah1|kh ah1|] eqn:RH; cbn [bind] in EH; try discriminate.
      destruct (WRITE S' ah x_h ah1 PH KH RH) as [-> [PH1 [KH1 WH]]].
      apply (I2 Hok S' ah1 oa ah' PH1 KH1 ltac:(apply (Sim_wrote_l ah a' ah1 r v SH WH); rewrite (proj1 CF2 r Stab); exact Ev) EH).
    + inversion EA; subst ok a'. split; [discriminate|]. intros _ S' ah oa ah' PH KH SH EH.
      cbn [exec_prog] in EH. destruct (sess_written_to RC ah r c v) as [x_h ah1|kh ah1|] eqn:RH; cbn [bind] in EH; try discriminate.
      destruct (WRITE S' ah x_h ah1 PH KH RH) as [-> [PH1 [KH1 WH]]].
      apply (sim_exec f IH _ f' t S' Sb ah1 b1 oa ah' ob b' PH1 KH1 PB1 Fb1
               ltac:(apply (Sim_wrote2 ah b ah1 b1 r v); [eapply Sim_trans; [exact SH|exact Sa2b]|exact WH|exact WB]) EH EB).
    + inversion EA; subst ok a'. split; [discriminate|]. intros _ S' ah oa ah' PH KH SH EH.
      cbn [exec_prog] in EH. destruct (sess_written_to RC ah r c v) as [x_h ah1|kh ah1|] eqn:RH; cbn [bind] in EH; try discriminate.
      destruct (WRITE S' ah x_h ah1 PH KH RH) as [-> [PH1 [KH1 WH]]].
      assert (SH2 : Sim ah a2) by (eapply Sim_trans; [exact SH|apply Sim_sym, Same_Sim; apply Same_struct; reflexivity]).
      apply (sim_exec f IH _ f' t S' Sb ah1 b1 oa ah' ob b' PH1 KH1 PB1 Fb1
               ltac:(apply (Sim_wrote2 ah b ah1 b1 r v); [eapply Sim_trans; [exact SH2|exact Sa2b]|exact WH|exact WB]) EH EB).
Qed.

Lemma deps_of_task_map w t : deps_of_task w t = map (fun d => get_edata (gr w) (tn t) d) (kids_of (gr w) (tn t)).
Proof. unfold deps_of_task, get_outgoing_edges. rewrite map_map. reflexivity. Qed.

Lemma mc_entry w t S : StoreOK w -> Inv2 w -> Chain w S -> entry_ok w S t ->
  let w0 := get_or_create_task_node w t in
  StoreOK w0 /\ Inv2 w0 /\ Chain w0 (t :: S) /\ Same w w0 /\ (KK w -> KK w0).
Proof.
  intros H J0 C E w0. pose proof (goc_task_post S w t H) as P0. fold w0 in P0.
  pose proof (po_ok _ _ _ _ _ _ P0) as H0. pose proof (chain_post_all w w0 S [] [] C P0) as C0.
  assert (E0 : entry_ok w0 S t).
  { destruct S as [|top tl]; [exact I|]. cbn in *. unfold edge in *. rewrite (po_frame _ _ _ _ _ _ P0) by (left; reflexivity). exact E. }
  pose proof (entry_not_in w0 S t (proj1 H0) C0 E0) as Ht.
  split; [exact H0|]. split; [apply (po_inv _ _ _ _ _ _ P0 J0)|]. split; [|split; [apply Same_goc_task|apply K_goc_task]].
  destruct C0 as [N0 K0']. split; [constructor; assumption|]. destruct S as [|top tl]; [exact I|]. split; [exact E0|exact K0'].
Qed.

Lemma exec_start_K w t : StoreOK w -> KK w -> KK (emit (set_cur (reset_task w t) (Some t)) (EExecStart t)).
Proof.
  intros H Kw. destruct (reset_task_facts w t H) as [_ [K1 [_ [_ [_ [_ [E1 [_ [O0 O1]]]]]]]]].
  apply (K_frame RC OC P sf w); [|exact Kw]. intros y Hy. change (get_task_output (reset_task w t) y <> None) in Hy.
  assert (Hne : y <> t) by (intros ->; contradiction).
  split; [apply O1; exact Hne|]. unfold kidsT, row. change (gr (emit (set_cur (reset_task w t) (Some t)) (EExecStart t))) with (gr (reset_task w t)).
  split; [apply K1|intros d; apply E1]; intros E; apply tn_inj in E; contradiction.
Qed.

Theorem sim_mc : forall f, SIMMC f.
Proof.
  induction f as [|f IH]; intros f' a b t Sa Sb o a' o' b' Ha Ja Ka Hb Jb Fb Sab Ca Cb Ea Eb MA MB; [discriminate|].
  destruct f' as [|f1]; [discriminate|]. cbn [make_consistent_td] in MA, MB.
  destruct (mc_entry a t Sa Ha Ja Ca Ea) as [Ha0 [Ja0 [Ca0 [Sa0 Ka0]]]]. destruct (mc_entry b t Sb Hb Jb Cb Eb) as [Hb0 [Jb0 [Cb0 [Sb0 _]]]].
  set (a0 := get_or_create_task_node a t) in *. set (b0 := get_or_create_task_node b t) in *.
  specialize (Ka0 Ka).
  assert (S0 : Sim a0 b0) by (apply (Sim_same_l a); [exact Sa0|]; apply (Sim_same_r a b); [exact Sb0|exact Sab]).
  pose proof (FreshW_same b b0 Sb0 Fb) as Fb0.
  pose proof (sim_cons _ _ S0 t) as Ect.
  destruct (memN t (consistent a0)) eqn:Hma; rewrite <- Ect in MB.
  - (* already consistent in both *)
    pose proof (sim_out _ _ S0 t Hma) as Eo.
    destruct (get_task_output a0 t) as [oa|]; [|discriminate]. rewrite <- Eo in MB.
    inversion MA; inversion MB; subst. split; [reflexivity|exact S0].
  - symmetry in Ect. rewrite (Fb0 t Ect) in MB.
    (* run B executes t *)
    unfold execute_with in MB.
    set (b2 := emit (set_cur (reset_task b0 t) (Some t)) (EExecStart t)) in *.
    destruct (exec_prog RC OC (require_with OC (mc f1)) (P t) b2) as [ob b3|kb b3|] eqn:XB; cbn [bind] in MB; try discriminate.
    inversion MB; subst o' b'. clear MB.
    destruct (exec_start_pre OC t Sb b0 Hb0 Jb0 Cb0 Ect) as [PB2 _]. fold b2 in PB2.
    pose proof (Start_exec b0 t Hb0) as StB. fold b2 in StB.
    pose proof (FreshW_start b0 b2 t StB Fb0) as Fb2.
    destruct (get_task_output a0 t) as [o0|] eqn:Hoa.
    + (* run A validates the recorded dependencies *)
      destruct (check_deps RC OC (mc f) (deps_of_task a0 t) a0) as [ok a1|ka a1|] eqn:CA; cbn [bind] in MA; try discriminate.
      pose proof (Ka0 t o0 Hoa) as CertA. unfold Cert in CertA.
      rewrite deps_of_task_map in CA.
      assert (Hdo : forall d, In d (map (row a0 t) (kidsT a0 t)) -> dep_ok a0 t d).
      { intros d Hd. apply (deps_ok a0 t o0 Ha0 Ja0 Hoa). rewrite deps_of_task_map. exact Hd. }
      destruct (sim_chk f IH (row a0 t) (P t) [] o0 (kidsT a0 t) CertA f1 t Sa Sb (kidsT a0 t) a0 b2 ok a1 ob b3 eq_refl
                  ltac:(intros d; reflexivity) eq_refl Ha0 Ja0 Ka0 Ca0 Hdo ltac:(intros g []) (HWF t) PB2 Fb2
                  (Sim_start_r a0 b0 b2 t S0 Ect StB) CA XB) as [Itrue Ifalse].
      destruct (chk_facts f t Sa _ a0 ok a1 Ha0 Ja0 Ca0 Hdo CA) as [[seg1 P1] [_ K1]].
      assert (Ho1 : get_task_output a1 t = Some o0) by (rewrite (po_oframe _ _ _ _ _ _ P1) by (left; left; reflexivity); exact Hoa).
      assert (Hm1 : memN t (consistent a1) = false).
      { destruct (memN t (consistent a1)) eqn:Z; [|reflexivity]. apply (po_keep _ _ _ _ _ _ P1) in Z; [congruence|left; left; reflexivity]. }
      destruct ok.
      * rewrite Ho1 in MA. inversion MA; subst o a'. destruct (Itrue eq_refl) as [-> S13].
        split; [reflexivity|]. apply (Sim_fin a1 b3 _ _ t o0 S13); [apply Fin_mark; exact Ho1|apply Fin_exec_end].
      * unfold execute_with in MA.
        set (a2 := emit (set_cur (reset_task a1 t) (Some t)) (EExecStart t)) in *.
        destruct (exec_prog RC OC (require_with OC (mc f)) (P t) a2) as [oa a3|kk a3|] eqn:XA; cbn [bind] in MA; try discriminate.
        inversion MA; subst o a'. clear MA.
        destruct (exec_start_pre OC t Sa a1 (po_ok _ _ _ _ _ _ P1) (po_inv _ _ _ _ _ _ P1 Ja0) (chain_post_all a0 a1 _ _ _ Ca0 P1) Hm1) as [PA2 _]. fold a2 in PA2.
        pose proof (Start_exec a1 t (po_ok _ _ _ _ _ _ P1)) as StA. fold a2 in StA.
        destruct (Ifalse eq_refl Sa a2 oa a3 PA2 (exec_start_K a1 t (po_ok _ _ _ _ _ _ P1) (K1 Ka0))
                    (Sim_start_l a1 a2 a1 t ltac:(apply Same_Sim, Same_refl) Hm1 StA) XA) as [-> S33].
        split; [reflexivity|]. apply (Sim_fin a3 b3 _ _ t ob S33); apply Fin_exec_end.
    + (* run A executes t as well *)
      unfold execute_with in MA.
      set (a2 := emit (set_cur (reset_task a0 t) (Some t)) (EExecStart t)) in *.
      destruct (exec_prog RC OC (require_with OC (mc f)) (P t) a2) as [oa a3|kk a3|] eqn:XA; cbn [bind] in MA; try discriminate.
      inversion MA; subst o a'. clear MA.
      destruct (exec_start_pre OC t Sa a0 Ha0 Ja0 Ca0 Hma) as [PA2 _]. fold a2 in PA2.
      pose proof (Start_exec a0 t Ha0) as StA. fold a2 in StA.
      destruct (sim_exec f IH (P t) f1 t Sa Sb a2 b2 oa a3 ob b3 PA2 (exec_start_K a0 t Ha0 Ka0) PB2 Fb2
                  ltac:(apply (Sim_start_l a0 a2 b2 t); [apply (Sim_start_r a0 b0 b2 t S0 Ect StB)|exact Hma|exact StA]) XA XB) as [-> S33].
      split; [reflexivity|]. apply (Sim_fin a3 b3 _ _ t ob S33); apply Fin_exec_end.
Qed.

(* ---- sessions and histories ---- *)
Variable always : ocid.

Lemma sim_req_top f f' a b t c oa a' ob b' :
  StoreOK a -> Inv2 a -> KK a -> StoreOK b -> Inv2 b -> FreshW b -> Sim a b -> cur a = None -> cur b = None ->
  require_with OC (mc f) a t c = Done oa a' -> require_with OC (mc f') b t c = Done ob b' -> oa = ob /\ Sim a' b'.
Proof.
  intros Ha Ja Ka Hb Jb Fb Sab Hca Hcb EA EB. unfold require_with in EA, EB.
  set (a2 := get_or_create_task_node (emit a (ERequireStart t c)) t) in *.
  set (b2 := get_or_create_task_node (emit b (ERequireStart t c)) t) in *.
  assert (Sa2 : Same a a2) by (eapply Same_trans; [apply (Same_struct a (emit a (ERequireStart t c))); reflexivity|apply Same_goc_task]).
  assert (Sb2 : Same b b2) by (eapply Same_trans; [apply (Same_struct b (emit b (ERequireStart t c))); reflexivity|apply Same_goc_task]).
  assert (Hca2 : cur a2 = None) by (unfold a2, get_or_create_task_node; destruct (live _ _); exact Hca).
  assert (Hcb2 : cur b2 = None) by (unfold b2, get_or_create_task_node; destruct (live _ _); exact Hcb).
  unfold reserve_require_dependency in EA, EB. rewrite Hca2 in EA. rewrite Hcb2 in EB. cbn [bind] in EA, EB.
  assert (PA2 : Post [] [] [] a a2 ([ERequireStart t c] ++ [])) by (eapply post_seq; [apply post_emit; [exact Ha|exact I]|apply goc_task_post; exact Ha]).
  assert (PB2 : Post [] [] [] b b2 ([ERequireStart t c] ++ [])) by (eapply post_seq; [apply post_emit; [exact Hb|exact I]|apply goc_task_post; exact Hb]).
  destruct (mc f a2 t) as [o4 a4|k a4|] eqn:MA; cbn [bind] in EA; try discriminate.
  destruct (mc f' b2 t) as [o4' b4|k b4|] eqn:MB; cbn [bind] in EB; try discriminate.
  destruct (sim_mc f f' a2 b2 t [] [] o4 a4 o4' b4 (po_ok _ _ _ _ _ _ PA2) (po_inv _ _ _ _ _ _ PA2 Ja)
              ltac:(apply K_goc_task; apply (K_same RC OC P sf a); [reflexivity|reflexivity|exact Ka])
              (po_ok _ _ _ _ _ _ PB2) (po_inv _ _ _ _ _ _ PB2 Jb) (FreshW_same b b2 Sb2 Fb)
              ltac:(apply (Sim_same_l a); [exact Sa2|]; apply (Sim_same_r a b); [exact Sb2|exact Sab])
              (chain_nil a2) (chain_nil b2) I I MA MB) as [Eo S4].
  destruct (mc_facts f a2 t [] o4 a4 (po_ok _ _ _ _ _ _ PA2) (po_inv _ _ _ _ _ _ PA2 Ja) (chain_nil a2) I MA) as [_ [HcA4 _]].
  destruct (mc_facts f' b2 t [] o4' b4 (po_ok _ _ _ _ _ _ PB2) (po_inv _ _ _ _ _ _ PB2 Jb) (chain_nil b2) I MB) as [_ [HcB4 _]].
  unfold update_require_dependency in EA, EB.
  change (cur (emit a4 (ERequireEnd t c (oc_stamp (OC c) o4) o4))) with (cur a4) in EA. rewrite HcA4, Hca2 in EA.
  change (cur (emit b4 (ERequireEnd t c (oc_stamp (OC c) o4') o4'))) with (cur b4) in EB. rewrite HcB4, Hcb2 in EB.
  cbn [bind] in EA, EB. inversion EA; subst oa a'. inversion EB; subst ob b'. split; [exact Eo|].
  apply (Sim_same_l a4); [apply Same_struct; reflexivity|]. apply (Sim_same_r a4 b4); [apply Same_struct; reflexivity|exact S4].
Qed.

Lemma sim_session_require f f' a b t oa a' ob b' :
  J a -> KK a -> J b -> FreshW b -> Sim a b ->
  session_require RC OC P always f a t = Done oa a' -> session_require RC OC P always f' b t = Done ob b' ->
  oa = ob /\ Sim a' b'.
Proof.
  intros [Ha Ja] Ka [Hb Jb] Fb Sab EA EB. unfold session_require, require_td in EA, EB.
  destruct (require_with OC (mc f) (emit (set_cur a None) EBuildStart) t always) as [o1 a1|k a1|] eqn:RA; cbn [bind] in EA; try discriminate.
  destruct (require_with OC (mc f') (emit (set_cur b None) EBuildStart) t always) as [o1' b1|k b1|] eqn:RB; cbn [bind] in EB; try discriminate.
  inversion EA; subst oa a'. inversion EB; subst ob b'.
  destruct (sim_req_top f f' (emit (set_cur a None) EBuildStart) (emit (set_cur b None) EBuildStart) t always o1 a1 o1' b1 Ha Ja
              ltac:(apply (K_same RC OC P sf a); [reflexivity|reflexivity|exact Ka]) Hb Jb
              ltac:(apply (FreshW_same b); [apply Same_struct; reflexivity|exact Fb])
              ltac:(apply (Sim_same_l a); [apply Same_struct; reflexivity|]; apply (Sim_same_r a b); [apply Same_struct; reflexivity|exact Sab])
              eq_refl eq_refl RA RB) as [Eo S1].
  split; [exact Eo|]. apply (Sim_same_l a1); [apply Same_struct; reflexivity|]. apply (Sim_same_r a1 b1); [apply Same_struct; reflexivity|exact S1].
Qed.

Definition is_done (r : sres) : Prop := exists x, r = RDone x.

Lemma session_fresh f b t o b' : J b -> FreshW b -> session_require RC OC P always f b t = Done o b' -> FreshW b'.
Proof.
  intros [Hb Jb] Fb Eq. pose proof (session_require_spec RC OC P always f b t Hb Jb) as SP. rewrite Eq in SP.
  destruct SP as [[seg P1] _]. eapply post_fresh; eassumption.
Qed.

Theorem sim_session f f' ops : forall a b, td_only ops -> J a -> KK a -> J b -> FreshW b -> Sim a b ->
  Forall is_done (fst (run_session RC OC P always f a ops)) -> Forall is_done (fst (run_session RC OC P always f' b ops)) ->
  fst (run_session RC OC P always f a ops) = fst (run_session RC OC P always f' b ops) /\
  Sim (snd (run_session RC OC P always f a ops)) (snd (run_session RC OC P always f' b ops)).
Proof.
  induction ops as [|o tl IH]; intros a b TD Ja Ka Jb Fb Sab DA DB; cbn [run_session] in *; [split; [reflexivity|exact Sab]|].
  destruct o as [t|ch]; [|destruct TD]. cbn [td_only] in TD. cbn [run_sop] in *.
  pose proof (session_require_execs RC OC P always f a t Ja) as EA. pose proof (session_require_K RC OC P sf HS HNR always f a t (proj1 Ja) (proj2 Ja) Ka) as KA.
  pose proof (session_require_execs RC OC P always f' b t Jb) as EB.
  destruct (session_require RC OC P always f a t) as [xa a1|ka a1|] eqn:SA; cbn [fst snd] in *.
  2:{ inversion DA as [|r0 l0 [x X] _]; discriminate. } 2:{ inversion DA as [|r0 l0 [x X] _]; discriminate. }
  destruct (session_require RC OC P always f' b t) as [xb b1|kb b1|] eqn:SB; cbn [fst snd] in *.
  2:{ destruct (run_session RC OC P always f a1 tl); inversion DB as [|r0 l0 [x X] _]; discriminate. }
  2:{ destruct (run_session RC OC P always f a1 tl); inversion DB as [|r0 l0 [x X] _]; discriminate. }
  destruct (sim_session_require f f' a b t xa a1 xb b1 Ja Ka Jb Fb Sab SA SB) as [-> S1].
  destruct EA as [Ja1 _]. destruct EB as [Jb1 _]. cbn [outK] in KA.
  specialize (IH a1 b1 TD Ja1 KA Jb1 (session_fresh f' b t xb b1 Jb Fb SB) S1).
  destruct (run_session RC OC P always f a1 tl) as [rsa a2]. destruct (run_session RC OC P always f' b1 tl) as [rsb b2]. cbn [fst snd] in *.
  inversion DA; subst. inversion DB; subst. destruct (IH ltac:(assumption) ltac:(assumption)) as [E S2]. split; [rewrite E; reflexivity|exact S2].
Qed.

(* the same resources in a store that has never built anything *)
Definition fresh_of (w : world) : world := mkWorld empty [] (rstate w) (env w) None [] [] [] [].

(* C01: after ANY history of top-down sessions and external changes (including aborted builds), a session of requires that
   returns yields the outputs, and leaves the resource contents, that the same session yields on a fresh store holding the
   same resources -- provided the from-scratch session returns as well *)
Theorem incremental_equals_scratch fuel fuel0 h ops :
  td_hist h -> td_only ops ->
  ~ Exists (Exists bug4) (fst (run_history RC OC P always fuel init_world h)) ->
  let w := snd (run_history RC OC P always fuel init_world h) in
  let ra := run_session RC OC P always fuel (new_session w) ops in
  let rb := run_session RC OC P always fuel0 (new_session (fresh_of w)) ops in
  Forall is_done (fst ra) -> Forall is_done (fst rb) ->
  fst ra = fst rb /\ forall r, get_content (snd ra) r = get_content (snd rb) r.
Proof.
  intros TH TO NB w ra rb DA DB.
  destruct (history_td_JK RC OC P sf HS HNR always fuel h init_world TH J_init (K_init RC OC P sf)) as [X|[Jw Kw]]; [contradiction|]. fold w in Jw, Kw.
  assert (Jf : J (new_session (fresh_of w))) by (split; [exact GOK_empty|split; [intros t d X; discriminate|intros t X; discriminate]]).
  assert (Ff : FreshW (new_session (fresh_of w))) by (intros x _; reflexivity).
  assert (S0 : Sim (new_session w) (new_session (fresh_of w))).
  { constructor; [reflexivity|reflexivity|reflexivity|intros x X; discriminate]. }
  destruct (sim_session fuel fuel0 ops (new_session w) (new_session (fresh_of w)) TO (J_new_session w Jw)
              ltac:(apply (K_same RC OC P sf w); [reflexivity|reflexivity|exact Kw]) Jf Ff S0 DA DB) as [E S1].
  split; [exact E|]. intros r. apply (sim_content _ _ S1).
Qed.

(* ---- C02, last clause: the incremental session executes no task that the from-scratch session does not execute ---- *)
Lemma session_post f ops : forall w, td_only ops -> J w -> Forall is_done (fst (run_session RC OC P always f w ops)) ->
  exists seg, Post [] [] [] w (snd (run_session RC OC P always f w ops)) seg.
Proof.
  induction ops as [|o tl IH]; intros w TD Jw DA; cbn [run_session] in *.
  - exists []. apply post_refl. apply Jw.
  - destruct o as [t|ch]; [|destruct TD]. cbn [td_only] in TD. cbn [run_sop] in *.
    pose proof (session_require_spec RC OC P always f w t (proj1 Jw) (proj2 Jw)) as SP.
    destruct (session_require RC OC P always f w t) as [x w1|k w1|]; cbn [fst snd okP] in *.
    + destruct SP as [[s1 P1] _].
      specialize (IH w1 TD (conj (po_ok _ _ _ _ _ _ P1) (po_inv _ _ _ _ _ _ P1 (proj2 Jw)))).
      destruct (run_session RC OC P always f w1 tl) as [rs w2]. cbn [fst snd] in *.
      inversion DA; subst. destruct (IH ltac:(assumption)) as [s2 P2]. exists (s1 ++ s2). eapply post_seq; eassumption.
    + inversion DA as [|r0 l0 [x X] _]; discriminate.
    + inversion DA as [|r0 l0 [x X] _]; discriminate.
Qed.

Lemma fresh_cons_exec S w w' seg : Post S [] [] w w' seg -> FreshW w ->
  forall x, memN x (consistent w') = true -> memN x (consistent w) = true \/ In x (execs seg).
Proof.
  intros P1 F x X. destruct (po_newcons _ _ _ _ _ _ P1 x X) as [Y|[Y|Y]]; [left; exact Y|right; exact Y|].
  destruct (memN x (consistent w)) eqn:Z; [left; reflexivity|]. exfalso. apply Y. apply F. exact Z.
Qed.

Theorem incremental_executes_subset fuel fuel0 h ops :
  td_hist h -> td_only ops ->
  let w := snd (run_history RC OC P always fuel init_world h) in
  let ra := run_session RC OC P always fuel (new_session w) ops in
  let rb := run_session RC OC P always fuel0 (new_session (fresh_of w)) ops in
  ~ Exists (Exists bug4) (fst (run_history RC OC P always fuel init_world h)) ->
  Forall is_done (fst ra) -> Forall is_done (fst rb) ->
  forall x, In x (execs (rev (trace (snd ra)))) -> In x (execs (rev (trace (snd rb)))).
Proof.
  intros TH TO w ra rb NB DA DB x Hx.
  destruct (history_td_JK RC OC P sf HS HNR always fuel h init_world TH J_init (K_init RC OC P sf)) as [X|[Jw Kw]]; [contradiction|]. fold w in Jw, Kw.
  assert (Jf : J (new_session (fresh_of w))) by (split; [exact GOK_empty|split; [intros t d X; discriminate|intros t X; discriminate]]).
  assert (Ff : FreshW (new_session (fresh_of w))) by (intros y _; reflexivity).
  assert (S0 : Sim (new_session w) (new_session (fresh_of w))).
  { constructor; [reflexivity|reflexivity|reflexivity|intros y Y; discriminate]. }
  destruct (sim_session fuel fuel0 ops (new_session w) (new_session (fresh_of w)) TO (J_new_session w Jw)
              ltac:(apply (K_same RC OC P sf w); [reflexivity|reflexivity|exact Kw]) Jf Ff S0 DA DB) as [_ S1].
  destruct (session_post fuel ops (new_session w) TO (J_new_session w Jw) DA) as [sa PA].
  destruct (session_post fuel0 ops (new_session (fresh_of w)) TO Jf DB) as [sb PB].
  fold ra in PA, S1. fold rb in PB, S1.
  rewrite (po_seg _ _ _ _ _ _ PA) in Hx. cbn [new_session trace] in Hx. rewrite app_nil_r, rev_involutive in Hx.
  rewrite (po_seg _ _ _ _ _ _ PB). cbn [new_session trace]. rewrite app_nil_r, rev_involutive.
  destruct (po_cons _ _ _ _ _ _ PA x Hx) as [C|[]].
  rewrite (sim_cons _ _ S1 x) in C.
  destruct (fresh_cons_exec [] _ _ sb PB Ff x C) as [Y|Y]; [discriminate Y|exact Y].
Qed.
End Sm.

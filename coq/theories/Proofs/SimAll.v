(* C01 (and C02's last clause, C19's soundness clause) over ALL histories.  The simulation of Sim.v relates the incremental store
   to a fresh one using only the store invariants (J = StoreOK + NoRes + consistent-tasks-have-outputs) and the exact-record
   invariant K of the incremental side.  NoBugAll.v and CertAll.v establish both after EVERY history -- top-down requires and
   bottom-up builds in any mix, external changes, any number of aborted builds -- so the theorems no longer need the
   "top-down history" premise: whatever was built before, a session of requires that returns yields the from-scratch result. *)
From Coq Require Import List NArith ZArith Bool Lia.
From PieV Require Import Model.Dag Model.Build Proofs.StoreInv Proofs.History Proofs.ExecInv Proofs.ExecSession Proofs.Cert Proofs.Stable
  Proofs.NoBug4 Proofs.Sim Proofs.NoAbort Proofs.Valid Proofs.Idem Proofs.NoBug4All Proofs.NoReentry Proofs.NoBugAll Proofs.CertAll Proofs.NoAbortAll.
Import ListNotations.
Open Scope N_scope.

Section SA.
Variable gen : res -> option task.
Variable wck : rcid -> Prop.
Variable RC : rcid -> rchecker.
Variable OC : ocid -> ochecker.
Variable P : task -> prog.
Variable sf : rcid -> res -> content -> Z.
Variable always : ocid.
Hypothesis HS : forall c env r v, rc_stamp (RC c) env r v = inl (sf c r v).
Hypothesis HWF : forall t, WFP gen wck t [] (P t).
Hypothesis HC : forall c env r v v', rc_check (RC c) env r v' (sf c r v) = Consistent -> rc_view (RC c) v' = rc_view (RC c) v.
Hypothesis HW : forall c env r v v', wck c -> rc_check (RC c) env r v' (sf c r v) = Consistent -> v' = v.
Hypothesis HOC : forall c o o', oc_check (OC c) o' (oc_stamp (OC c) o) = true -> oc_view (OC c) o' = oc_view (OC c) o.
Let HNR : forall t, NR [] (P t). Proof. intros t. eapply WFP_NR. apply HWF. Qed.

Lemma any_history_JK fuel h :
  let w := snd (run_history RC OC P always fuel init_world h) in J (new_session w) /\ K RC OC P sf (new_session w).
Proof.
  intros w.
  destruct (run_history_V RC OC P always fuel h init_world) as [_ [Lw Nw]]; [split; [apply L_init|intros x d X; discriminate]|]. fold w in Lw, Nw.
  pose proof (run_history_Q RC OC P sf HS HNR always fuel h init_world ltac:(split; [apply L_init|intros x d X; discriminate]) (K_init RC OC P sf)) as Kw. fold w in Kw.
  split; [split; [apply Lw|split; [exact Nw|intros t X; discriminate]]|apply (K_same RC OC P sf w); [reflexivity|reflexivity|exact Kw]].
Qed.

(* C01, every history *)
Theorem incremental_equals_scratch_any_history fuel fuel0 h ops : td_only ops ->
  let w := snd (run_history RC OC P always fuel init_world h) in
  let ra := run_session RC OC P always fuel (new_session w) ops in
  let rb := run_session RC OC P always fuel0 (new_session (fresh_of w)) ops in
  Forall is_done (fst ra) -> Forall is_done (fst rb) ->
  fst ra = fst rb /\ forall r, get_content (snd ra) r = get_content (snd rb) r.
Proof.
  intros TO w ra rb DA DB. destruct (any_history_JK fuel h) as [Jw Kw]. fold w in Jw, Kw.
  assert (Jf : J (new_session (fresh_of w))) by (split; [exact GOK_empty|split; [intros t d X; discriminate|intros t X; discriminate]]).
  assert (Ff : FreshW (new_session (fresh_of w))) by (intros x _; reflexivity).
  assert (S0 : Sim.Sim (new_session w) (new_session (fresh_of w))) by (constructor; [reflexivity|reflexivity|reflexivity|intros x X; discriminate]).
  destruct (sim_session gen wck RC OC P sf HS HWF HC HW HOC always fuel fuel0 ops (new_session w) (new_session (fresh_of w)) TO Jw Kw Jf Ff S0 DA DB) as [E S1].
  split; [exact E|]. intros r. apply (sim_content _ _ S1).
Qed.
(* C02, last clause, every history: the incremental session executes no task that the from-scratch session does not execute *)
Theorem incremental_executes_subset_any_history fuel fuel0 h ops : td_only ops ->
  let w := snd (run_history RC OC P always fuel init_world h) in
  let ra := run_session RC OC P always fuel (new_session w) ops in
  let rb := run_session RC OC P always fuel0 (new_session (fresh_of w)) ops in
  Forall is_done (fst ra) -> Forall is_done (fst rb) ->
  forall x, In x (execs (rev (trace (snd ra)))) -> In x (execs (rev (trace (snd rb)))).
Proof.
  intros TO w ra rb DA DB x Hx. destruct (any_history_JK fuel h) as [Jw Kw]. fold w in Jw, Kw.
  assert (Jf : J (new_session (fresh_of w))) by (split; [exact GOK_empty|split; [intros t d X; discriminate|intros t X; discriminate]]).
  assert (Ff : FreshW (new_session (fresh_of w))) by (intros y _; reflexivity).
  assert (S0 : Sim.Sim (new_session w) (new_session (fresh_of w))) by (constructor; [reflexivity|reflexivity|reflexivity|intros y Y; discriminate]).
  destruct (sim_session gen wck RC OC P sf HS HWF HC HW HOC always fuel fuel0 ops (new_session w) (new_session (fresh_of w)) TO Jw Kw Jf Ff S0 DA DB) as [_ S1].
  destruct (session_post RC OC P always fuel ops (new_session w) TO Jw DA) as [sa PA].
  destruct (session_post RC OC P always fuel0 ops (new_session (fresh_of w)) TO Jf DB) as [sb PB].
  fold ra in PA, S1. fold rb in PB, S1.
  rewrite (po_seg _ _ _ _ _ _ PA) in Hx. cbn [new_session trace] in Hx. rewrite app_nil_r, rev_involutive in Hx.
  rewrite (po_seg _ _ _ _ _ _ PB). cbn [new_session trace]. rewrite app_nil_r, rev_involutive.
  destruct (po_cons _ _ _ _ _ _ PA x Hx) as [C|[]].
  rewrite (sim_cons _ _ S1 x) in C.
  destruct (fresh_cons_exec [] _ _ sb PB Ff x C) as [Y|Y]; [discriminate Y|exact Y].
Qed.
End SA.

(* the static class: both sessions return, after every history *)
Section ST.
Variable gen : res -> option task.
Variable wck : rcid -> Prop.
Variable ord : task -> nat.
Variable RC : rcid -> rchecker.
Variable OC : ocid -> ochecker.
Variable P : task -> prog.
Variable sf : rcid -> res -> content -> Z.
Variable always : ocid.
Hypothesis HS : forall c env r v, rc_stamp (RC c) env r v = inl (sf c r v).
Hypothesis HWF : forall t, WFP gen wck t [] (P t).
Hypothesis HWO : forall t, WFO ord t (P t).
Hypothesis HC : forall c env r v v', rc_check (RC c) env r v' (sf c r v) = Consistent -> rc_view (RC c) v' = rc_view (RC c) v.
Hypothesis HW : forall c env r v v', wck c -> rc_check (RC c) env r v' (sf c r v) = Consistent -> v' = v.
Hypothesis HOC : forall c o o', oc_check (OC c) o' (oc_stamp (OC c) o) = true -> oc_view (OC c) o' = oc_view (OC c) o.

Theorem incremental_equals_scratch_total_any_history fuel fuel0 h ops : roots_below ord fuel ops -> roots_below ord fuel0 ops ->
  let w := snd (run_history RC OC P always fuel init_world h) in
  let ra := run_session RC OC P always fuel (new_session w) ops in
  let rb := run_session RC OC P always fuel0 (new_session (fresh_of w)) ops in
  Forall is_done (fst ra) /\ Forall is_done (fst rb) /\ fst ra = fst rb /\ forall r, get_content (snd ra) r = get_content (snd rb) r.
Proof.
  intros RA RB w ra rb. destruct (any_history_JK gen wck RC OC P sf always HS HWF fuel h) as [Jw _]. fold w in Jw.
  destruct (run_history_AQ gen wck ord RC OC P sf HS HWF HWO always fuel h init_world) as [_ Qw]; [split; [apply L_init|intros x d X; discriminate]|apply K_init|apply Q_init|]. fold w in Qw.
  destruct (session_returns gen wck ord RC OC P sf HS HWF HWO always fuel ops (new_session w) RA Jw ltac:(apply (Q_same gen ord w); [reflexivity|exact Qw])) as [DA _].
  assert (Jf : J (new_session (fresh_of w))) by (split; [exact GOK_empty|split; [intros t d X; discriminate|intros t X; discriminate]]).
  assert (Qf : Q gen ord (new_session (fresh_of w))) by (intros a; apply QR_empty; reflexivity).
  destruct (session_returns gen wck ord RC OC P sf HS HWF HWO always fuel0 ops (new_session (fresh_of w)) RB Jf Qf) as [DB _].
  split; [exact DA|]. split; [exact DB|].
  apply (incremental_equals_scratch_any_history gen wck RC OC P sf always HS HWF HC HW HOC fuel fuel0 h ops (roots_td ord OC always fuel ops RA) DA DB).
Qed.
(* C02, idempotence, every history: with reflexive checkers, a session of requires followed by the same session again executes nothing *)
Hypothesis HRefl : forall c env r v, rc_check (RC c) env r v (sf c r v) = Consistent.
Hypothesis HReflO : forall c o, oc_check (OC c) o (oc_stamp (OC c) o) = true.
Theorem second_session_executes_nothing_any_history fuel h ops : roots_below ord fuel ops ->
  let w := snd (run_history RC OC P always fuel init_world h) in
  let r1 := run_session RC OC P always fuel (new_session w) ops in
  let r2 := run_session RC OC P always fuel (new_session (snd r1)) ops in
  fst r2 = fst r1 /\ execs (rev (trace (snd r2))) = [] /\ forall r, get_content (snd r2) r = get_content (snd r1) r.
Proof.
  intros RB w r1 r2. destruct (any_history_JK gen wck RC OC P sf always HS HWF fuel h) as [Jw _]. fold w in Jw.
  destruct (run_history_AQ gen wck ord RC OC P sf HS HWF HWO always fuel h init_world) as [_ Qw]; [split; [apply L_init|intros x d X; discriminate]|apply K_init|apply Q_init|]. fold w in Qw.
  assert (V0 : VC RC OC (new_session w)) by (intros x Xx; discriminate).
  destruct (session_V gen wck ord RC OC P sf HS HWF HWO HRefl HReflO always fuel ops (new_session w) RB Jw
              ltac:(apply (Q_same gen ord w); [reflexivity|exact Qw]) V0) as [V1 [J1 [Q1 [_ [_ [outs_ [E1 [L1 R1]]]]]]]].
  fold r1 in V1, J1, Q1, E1, R1.
  assert (HX : forall t, In t (roots ops) -> In t (consistent (snd r1))).
  { intros t It. destruct (In_nth_error _ _ It) as [i Ei].
    assert (Li : (i < length outs_)%nat) by (rewrite L1; apply nth_error_Some; congruence).
    destruct (nth_error outs_ i) as [o|] eqn:Eo; [|apply nth_error_None in Eo; lia].
    apply DagLib.memN_In. apply (R1 i t o Ei Eo). }
  destruct (idem_session gen ord RC OC P always (consistent (snd r1)) fuel ops (new_session (snd r1)) (VC_ValidX RC OC (snd r1) J1 V1)
              (proj1 J1) ltac:(apply (Q_same gen ord (snd r1)); [reflexivity|exact Q1]) RB HX) as [Qt E2].
  fold r2 in Qt, E2.
  split; [|split].
  - rewrite E2, E1. clear - L1 R1. revert outs_ L1 R1. generalize (roots ops). intros l. induction l as [|t tl IH]; intros outs_ L1 R1.
    + destruct outs_; [reflexivity|discriminate].
    + destruct outs_ as [|o outs_]; [discriminate|]. cbn [map]. f_equal.
      * destruct (R1 0%nat t o eq_refl eq_refl) as [_ O]. change (get_task_output (new_session (snd r1)) t) with (get_task_output (snd r1) t). rewrite O. reflexivity.
      * apply IH; [cbn in L1; lia|]. intros i t0 o0 A B. apply (R1 (S i) t0 o0 A B).
  - destruct (qt_seg _ _ Qt) as [seg [T Ex]]. rewrite T. cbn [new_session trace]. rewrite app_nil_r, rev_involutive. exact Ex.
  - intros r. rewrite (qt_content _ _ Qt). reflexivity.
Qed.
End ST.

(* sort_by (the model of sort_unstable_by on unique topological ranks) : sortedness, permutation, and independence of the
   order in which an unordered container hands over its elements (C16), and the queue's pop (C04). *)
From Coq Require Import List NArith Bool Lia Permutation Sorted.
From PieV Require Import Model.Dag.
Import ListNotations.
Open Scope N_scope.

Section Sorting.
Variable key : node -> N.

Definition sortedk (l : list node) : Prop := StronglySorted (fun a b => key a <= key b) l.

Lemma insert_by_perm x l : Permutation (insert_by key x l) (x :: l).
Proof.
  induction l as [|y tl IH]; cbn; [reflexivity|].
  destruct (N.leb (key x) (key y)); [reflexivity|].
  rewrite IH. apply perm_swap.
Qed.

Lemma sort_by_perm l : Permutation (sort_by key l) l.
Proof.
  induction l as [|x tl IH]; cbn; [reflexivity|].
  unfold sort_by in *. cbn. rewrite insert_by_perm. apply perm_skip. exact IH.
Qed.

Lemma insert_by_sorted x l : sortedk l -> sortedk (insert_by key x l).
Proof.
  induction l as [|y tl IH]; intros H; cbn.
  - constructor; constructor.
  - destruct (N.leb (key x) (key y)) eqn:E.
    + apply N.leb_le in E. constructor; [exact H|].
      inversion H as [|? ? Hs Hall]; subst. constructor; [exact E|].
      eapply Forall_impl; [|exact Hall]. intros a Ha. cbn in Ha. lia.
    + apply N.leb_gt in E. inversion H as [|? ? Hs Hall]; subst. constructor; [apply IH; exact Hs|].
      assert (Hp := insert_by_perm x tl).
      apply Forall_forall. intros a Ha.
      apply (Permutation_in _ Hp) in Ha. destruct Ha as [Ha|Ha]; [subst; lia|].
      rewrite Forall_forall in Hall. apply Hall. exact Ha.
Qed.

Lemma sort_by_sorted l : sortedk (sort_by key l).
Proof.
  induction l as [|x tl IH]; cbn; [constructor|]. unfold sort_by in *. cbn. apply insert_by_sorted. exact IH.
Qed.

Lemma sorted_perm_unique l1 l2 :
  sortedk l1 -> sortedk l2 -> Permutation l1 l2 -> NoDup (map key l1) -> l1 = l2.
Proof.
  revert l2. induction l1 as [|a t1 IH]; intros l2 H1 H2 Hp Hnd.
  - apply Permutation_nil in Hp. subst. reflexivity.
  - destruct l2 as [|b t2]; [apply Permutation_sym, Permutation_nil in Hp; discriminate|].
    inversion H1 as [|? ? Hs1 Ha1]; subst. inversion H2 as [|? ? Hs2 Ha2]; subst.
    assert (Hab : a = b).
    { assert (Hin_a : In a (b :: t2)) by (eapply Permutation_in; [exact Hp|left; reflexivity]).
      assert (Hin_b : In b (a :: t1)) by (eapply Permutation_in; [apply Permutation_sym; exact Hp|left; reflexivity]).
      destruct Hin_a as [E|Hin_a]; [congruence|]. destruct Hin_b as [E|Hin_b]; [congruence|].
      rewrite Forall_forall in Ha1, Ha2. specialize (Ha1 b Hin_b). specialize (Ha2 a Hin_a). cbn in Ha1, Ha2.
      assert (Hk : key a = key b) by lia.
      exfalso. cbn in Hnd. inversion Hnd as [|? ? Hnin _]; subst. apply Hnin. rewrite Hk. apply in_map. exact Hin_b. }
    subst b. f_equal. apply IH; try assumption.
    + eapply Permutation_cons_inv. exact Hp.
    + cbn in Hnd. inversion Hnd; assumption.
Qed.

(* C16: the result of sorting does not depend on the order in which the elements arrive *)
Theorem sort_by_order_independent l1 l2 :
  Permutation l1 l2 -> NoDup (map key l1) -> sort_by key l1 = sort_by key l2.
Proof.
  intros Hp Hnd. apply sorted_perm_unique; try apply sort_by_sorted.
  - rewrite sort_by_perm. rewrite Hp. symmetry. apply sort_by_perm.
  - eapply Permutation_NoDup; [|exact Hnd]. apply Permutation_map. symmetry. apply sort_by_perm.
Qed.

(* the last element of a sorted list has the largest key *)
Lemma sorted_rev_head_max l t tl :
  sortedk l -> rev l = t :: tl -> forall x, In x l -> key x <= key t.
Proof.
  intros Hs Hr x Hin.
  assert (Hl : l = rev tl ++ [t]).
  { rewrite <- (rev_involutive l), Hr. cbn. reflexivity. }
  subst l. clear Hr.
  induction (rev tl) as [|y ys IH]; cbn in *.
  - destruct Hin as [E|[]]; subst; lia.
  - inversion Hs as [|? ? Hs' Hall]; subst. destruct Hin as [E|Hin].
    + subst. rewrite Forall_forall in Hall. apply Hall. apply in_or_app. right. left. reflexivity.
    + apply IH; assumption.
Qed.

End Sorting.

(* The program class of C01 (WFP) and the content frame of top-down builds inside that class:
   a resource can only be changed by an execution of its generator; so while the generator is consistent (it is not executed
   again in the session) or is a task on the stack below the running computation, the resource keeps its content. *)
From Coq Require Import List NArith ZArith Bool Lia.
From PieV Require Import Model.Dag Model.Build Proofs.DagLib Proofs.DagWF Proofs.DagPath Proofs.Inv Proofs.StoreInv Proofs.History
  Proofs.Effects Proofs.Local Proofs.Local2 Proofs.ExecInv Proofs.ExecSession Proofs.Cert.
Import ListNotations.
Open Scope N_scope.

Section Cl.
Variable gen : res -> option task.          (* the generator of a resource: the only task whose program writes it *)
Variable wck : rcid -> Prop.                (* the checkers used for write dependencies *)

(* program class, for the program of task t; [seen] = targets touched so far on the path:
   no target twice; a generated resource is read only after its generator was required; writes go to own products *)
Inductive WFP (t : task) : list node -> prog -> Prop :=
| WFP_ret seen o : WFP t seen (Ret o)
| WFP_panic seen : WFP t seen Panic
| WFP_req seen x c k : ~ In (tn x) seen -> (forall v, WFP t (seen ++ [tn x]) (k v)) -> WFP t seen (Req x c k)
| WFP_read seen r c k : ~ In (rn r) seen -> (gen r = None \/ exists g, gen r = Some g /\ In (tn g) seen) ->
    (forall v, WFP t (seen ++ [rn r]) (k v)) -> WFP t seen (Read r c k)
| WFP_write seen r c v k : ~ In (rn r) seen -> gen r = Some t -> wck c -> (forall x, WFP t (seen ++ [rn r]) (k x)) -> WFP t seen (Write r c v k)
| WFP_wto seen r c v k : ~ In (rn r) seen -> gen r = Some t -> wck c -> (forall x, WFP t (seen ++ [rn r]) (k x)) -> WFP t seen (WrittenTo r c v k).

Lemma WFP_NR t seen p : WFP t seen p -> NR seen p.
Proof. induction 1; constructor; auto. Qed.

Definition StabC (S : list task) (w : world) (r : res) : Prop :=
  gen r = None \/ exists g, gen r = Some g /\ (memN g (consistent w) = true \/ In g S).
Definition CF (S : list task) (w w' : world) : Prop :=
  (forall r, StabC S w r -> get_content w' r = get_content w r) /\ cons_mono w w'.

Lemma CF_refl S w : CF S w w. Proof. split; [reflexivity|intros x X; exact X]. Qed.
Lemma CF_trans S w1 w2 w3 : CF S w1 w2 -> CF S w2 w3 -> CF S w1 w3.
Proof.
  intros [A1 A2] [B1 B2]. split; [|intros x X; apply B2, A2; exact X].
  intros r St. rewrite B1; [apply A1; exact St|].
  destruct St as [E|[g [E [C|I]]]]; [left; exact E|right; exists g; split; [exact E|left; apply A2; exact C]|right; exists g; split; [exact E|right; exact I]].
Qed.
Lemma CF_weaken S t w w' : CF (t :: S) w w' -> CF S w w'.
Proof.
  intros [A1 A2]. split; [|exact A2]. intros r St. apply A1.
  destruct St as [E|[g [E [C|I]]]]; [left; exact E|right; exists g; split; [exact E|left; exact C]|right; exists g; split; [exact E|right; right; exact I]].
Qed.
Lemma CF_same S w w' : rstate w' = rstate w -> consistent w' = consistent w -> CF S w w'.
Proof. intros R C. split; [intros r _; unfold get_content; rewrite R; reflexivity|intros x X; rewrite C; exact X]. Qed.

Section Cp.
Variable RC : rcid -> rchecker.
Variable OC : ocid -> ochecker.
Variable P : task -> prog.
Variable sf : rcid -> res -> content -> Z.
Hypothesis HS : forall c env r v, rc_stamp (RC c) env r v = inl (sf c r v).
Hypothesis HWF : forall t, WFP t [] (P t).

Definition outCF {A} (S : list task) (w : world) (m : outcome A) : Prop :=
  match m with Done _ w' => CF S w w' | _ => True end.

Definition CFMC (mc : world -> task -> outcome Z) : Prop :=
  forall w t S, StoreOK w -> Inv2 w -> Chain w S -> entry_ok w S t -> outCF S w (mc w t).
Definition CFREQ (t : task) (S : list task) (req : world -> task -> ocid -> outcome Z) : Prop :=
  forall w x c, Pre t S w -> memN t (consistent w) = false -> outCF S w (req w x c).

Lemma content_goc_res w r r' : get_content (get_or_create_resource_node w r) r' = get_content w r'.
Proof. unfold get_content, get_or_create_resource_node. destruct (live _ _); reflexivity. Qed.
Lemma content_goc_task w x r' : get_content (get_or_create_task_node w x) r' = get_content w r'.
Proof. unfold get_content, get_or_create_task_node. destruct (live _ _); reflexivity. Qed.
Lemma content_add_dep w s d dp r' : get_content (snd (add_dependency w s d dp)) r' = get_content w r'.
Proof. unfold add_dependency. destruct (add_edge _ _ _ _) as [[b|[|]|] g']; reflexivity. Qed.
Lemma cons_add_dep w s d dp : consistent (snd (add_dependency w s d dp)) = consistent w.
Proof. unfold add_dependency. destruct (add_edge _ _ _ _) as [[b|[|]|] g']; reflexivity. Qed.

Lemma get_content_set_other w r v r' : r' <> r -> get_content (set_content w r v) r' = get_content w r'.
Proof.
  intros Hne. unfold get_content, set_content. destruct v as [z|]; cbn [rstate set_rstate].
  - apply alookup_aset_other. exact Hne.
  - apply alookup_aremove_other. exact Hne.
Qed.

Lemma sess_read_CF S w r c : outCF S w (sess_read RC w r c).
Proof.
  unfold sess_read. destruct (cur w) as [t|]; [|apply CF_refl].
  set (w2 := get_or_create_resource_node (emit w (EReadStart r c)) r).
  destruct (hidden_read_check w2 t r); [exact I|]. rewrite HS.
  pose proof (content_add_dep (emit w2 (EReadEnd r c (sf c r (get_content w r)))) (tn t) (rn r) (DRead r c (sf c r (get_content w r)))) as CA.
  pose proof (cons_add_dep (emit w2 (EReadEnd r c (sf c r (get_content w r)))) (tn t) (rn r) (DRead r c (sf c r (get_content w r)))) as CC.
  destruct (add_dependency _ _ _ _) as [[| |] w4]; cbn [outCF snd] in *; try exact I;
  (split; [intros r' _; rewrite CA; change (get_content w2 r' = get_content w r'); unfold w2; rewrite content_goc_res; reflexivity|
           intros x X; rewrite CC; unfold w2, get_or_create_resource_node; destruct (live _ _); exact X]).
Qed.

Lemma write_tail_CF S t w2 r c w0 :
  (forall r', r' <> r -> get_content w2 r' = get_content w0 r') -> consistent w2 = consistent w0 ->
  gen r = Some t -> memN t (consistent w0) = false -> ~ In t S ->
  forall st, match add_dependency (emit w2 (EWriteEnd r c st)) (tn t) (rn r) (DWrite r c st) with
             | (AddBug, _) => True | (_, w5) => CF S w0 w5 end.
Proof.
  intros Hc Hk Hg Hn Ht st.
  pose proof (content_add_dep (emit w2 (EWriteEnd r c st)) (tn t) (rn r) (DWrite r c st)) as CA.
  pose proof (cons_add_dep (emit w2 (EWriteEnd r c st)) (tn t) (rn r) (DWrite r c st)) as CC.
  destruct (add_dependency _ _ _ _) as [[| |] w5]; cbn [snd] in *; try exact I;
  (split; [|intros x X; rewrite CC; cbn [consistent emit]; rewrite Hk; exact X]; intros r' St; rewrite CA;
   change (get_content w2 r' = get_content w0 r'); apply Hc; intros ->;
   destruct St as [E|[g [E [C|I0]]]]; [congruence|rewrite Hg in E; inversion E; subst; congruence|rewrite Hg in E; inversion E; subst; contradiction]).
Qed.

Lemma sess_write_CF S t w r c v : cur w = Some t -> gen r = Some t -> memN t (consistent w) = false -> ~ In t S ->
  outCF S w (sess_write RC w r c v).
Proof.
  intros Hc Hg Hn Ht. unfold sess_write. rewrite Hc.
  set (w2 := get_or_create_resource_node (emit w (EWriteStart r c)) r).
  destruct (validate_write w2 t r); [exact I|]. rewrite HS.
  pose proof (write_tail_CF S t (set_content w2 r v) r c w) as X.
  assert (A : forall r', r' <> r -> get_content (set_content w2 r v) r' = get_content w r').
  { intros r' Hne. rewrite get_content_set_other by exact Hne. unfold w2. rewrite content_goc_res. reflexivity. }
  assert (B : consistent (set_content w2 r v) = consistent w).
  { destruct v; unfold w2, get_or_create_resource_node; destruct (live _ _); reflexivity. }
  specialize (X A B Hg Hn Ht (sf c r (get_content (set_content w2 r v) r))).
  destruct (add_dependency _ _ _ _) as [[| |] w5]; cbn [outCF]; try exact I; exact X.
Qed.

Lemma sess_written_to_CF S t w0 r c v : cur w0 = Some t -> gen r = Some t -> memN t (consistent w0) = false -> ~ In t S ->
  outCF S w0 (sess_written_to RC w0 r c v).
Proof.
  intros Hc Hg Hn Ht. unfold sess_written_to.
  set (w := set_content w0 r v).
  assert (Hc' : cur w = Some t) by (unfold w; destruct v; exact Hc). rewrite Hc'.
  set (w2 := get_or_create_resource_node (emit w (EWriteStart r c)) r).
  destruct (validate_write w2 t r); [exact I|]. rewrite HS.
  pose proof (write_tail_CF S t w2 r c w0) as X.
  assert (A : forall r', r' <> r -> get_content w2 r' = get_content w0 r').
  { intros r' Hne. unfold w2. rewrite content_goc_res. change (get_content w r' = get_content w0 r'). unfold w. apply get_content_set_other. exact Hne. }
  assert (B : consistent w2 = consistent w0).
  { unfold w2, w, get_or_create_resource_node. destruct (live _ _); destruct v; reflexivity. }
  specialize (X A B Hg Hn Ht (sf c r (get_content w2 r))).
  destruct (add_dependency _ _ _ _) as [[| |] w5]; cbn [outCF]; try exact I; exact X.
Qed.

Lemma step_nc {A} t S w (a : A) w1 extra : okP S [t] [] w (Done a w1) extra -> memN t (consistent w) = false -> memN t (consistent w1) = false.
Proof.
  intros [[seg P1] _] Hn. destruct (memN t (consistent w1)) eqn:Z; [|reflexivity].
  apply (po_keep _ _ _ _ _ _ P1) in Z; [congruence|right; left; reflexivity].
Qed.

Lemma require_with_CF mc t S : MCspec mc -> CFMC mc -> CFREQ t S (require_with OC mc).
Proof.
  intros HM HC w x c PR Hnc. pose proof (require_prefix RC OC P t S w x c PR) as RP. cbv zeta in RP.
  destruct PR as [H J0 C Hc Ho Hn]. unfold require_with.
  set (w2 := get_or_create_task_node (emit w (ERequireStart x c)) x) in *.
  destruct RP as [L2 [Hc2 RP]]. unfold reserve_require_dependency. rewrite Hc2.
  pose proof (content_add_dep w2 (tn t) (tn x) DReserved) as CA. pose proof (cons_add_dep w2 (tn t) (tn x) DReserved) as CC.
  destruct (add_dependency w2 (tn t) (tn x) DReserved) as [[| |] w3] eqn:AD; cbn [bind outCF snd] in *; try exact I.
  destruct RP as [L3 [E3 [C3 [J3 [Ho3 Hc3]]]]].
  assert (CF03 : CF S w w3).
  { split; [intros r _; rewrite CA; unfold w2; rewrite content_goc_task; reflexivity|].
    intros y Y. rewrite CC. unfold w2, get_or_create_task_node. destruct (live _ _); exact Y. }
  pose proof (HM w3 x (t :: S) (lf_ok _ _ _ L3) J3 C3 E3) as M.
  pose proof (HC w3 x (t :: S) (lf_ok _ _ _ L3) J3 C3 E3) as MC.
  destruct (mc w3 x) as [o w4|k w4|]; cbn [bind outCF okP] in *; try exact I.
  destruct M as [_ [Hc4 _]]. rewrite Hc3 in Hc4.
  unfold update_require_dependency. change (cur (emit w4 (ERequireEnd x c (oc_stamp (OC c) o) o))) with (cur w4). rewrite Hc4.
  destruct (get_edata _ _ _); cbn [bind outCF]; try exact I.
  eapply CF_trans; [exact CF03|]. eapply CF_trans; [apply (CF_weaken S t); exact MC|]. apply CF_same; reflexivity.
Qed.

Lemma require_with_CF_strong mc t S : MCspec mc -> CFMC mc ->
  forall w x c, Pre t S w -> memN t (consistent w) = false -> outCF (t :: S) w (require_with OC mc w x c).
Proof.
  intros HM HC w x c PR Hnc. pose proof (require_prefix RC OC P t S w x c PR) as RP. cbv zeta in RP.
  destruct PR as [H J0 C Hc Ho Hn]. unfold require_with.
  set (w2 := get_or_create_task_node (emit w (ERequireStart x c)) x) in *.
  destruct RP as [L2 [Hc2 RP]]. unfold reserve_require_dependency. rewrite Hc2.
  pose proof (content_add_dep w2 (tn t) (tn x) DReserved) as CA. pose proof (cons_add_dep w2 (tn t) (tn x) DReserved) as CC.
  destruct (add_dependency w2 (tn t) (tn x) DReserved) as [[| |] w3] eqn:AD; cbn [bind outCF snd] in *; try exact I.
  destruct RP as [L3 [E3 [C3 [J3 [Ho3 Hc3]]]]].
  assert (CF03 : CF (t :: S) w w3).
  { split; [intros r _; rewrite CA; unfold w2; rewrite content_goc_task; reflexivity|].
    intros y Y. rewrite CC. unfold w2, get_or_create_task_node. destruct (live _ _); exact Y. }
  pose proof (HM w3 x (t :: S) (lf_ok _ _ _ L3) J3 C3 E3) as M.
  pose proof (HC w3 x (t :: S) (lf_ok _ _ _ L3) J3 C3 E3) as MC.
  destruct (mc w3 x) as [o w4|k w4|]; cbn [bind outCF okP] in *; try exact I.
  destruct M as [_ [Hc4 _]]. rewrite Hc3 in Hc4.
  unfold update_require_dependency. change (cur (emit w4 (ERequireEnd x c (oc_stamp (OC c) o) o))) with (cur w4). rewrite Hc4.
  destruct (get_edata _ _ _); cbn [bind outCF]; try exact I.
  eapply CF_trans; [exact CF03|]. eapply CF_trans; [exact MC|]. apply CF_same; reflexivity.
Qed.

Lemma exec_prog_CF t S req : REQspec t S req -> CFREQ t S req ->
  forall p w seen, Pre t S w -> memN t (consistent w) = false -> WFP t seen p -> outCF S w (exec_prog RC OC req p w).
Proof.
  intros HR HC. induction p as [o| |x c k IH|r c k IH|r c v k IH|r c v k IH]; intros w seen PR Hnc HW; cbn [exec_prog].
  - apply CF_refl.
  - exact I.
  - inversion HW as [| |sn x' c' k' Hx Hk| | |]; subst.
    pose proof (HR w x c (pre_ok _ _ _ PR) (pre_inv _ _ _ PR) (pre_chain _ _ _ PR) (pre_cur _ _ _ PR) (pre_out _ _ _ PR) (pre_nores _ _ _ PR)) as SP.
    pose proof (HC w x c PR Hnc) as CQ.
    destruct (req w x c) as [ox w1|k1 w1|]; cbn [bind outCF] in *; try exact I.
    pose proof (pre_step t S w ox w1 PR SP) as PR1. pose proof (step_nc t S w ox w1 _ SP Hnc) as Hnc1.
    specialize (IH (oc_view (OC c) ox) w1 _ PR1 Hnc1 (Hk _)).
    destruct (exec_prog RC OC req (k (oc_view (OC c) ox)) w1); cbn [outCF] in *; try exact I. eapply CF_trans; eassumption.
  - inversion HW as [| | |sn r' c' k' Hx Hg Hk| |]; subst.
    pose proof (sess_read_leaf RC w t r c (pre_ok _ _ _ PR) (pre_cur _ _ _ PR)) as LF.
    pose proof (sess_read_nores RC w t r c (pre_ok _ _ _ PR) (pre_cur _ _ _ PR) (pre_nores _ _ _ PR)) as NRs.
    pose proof (okP_of_leafO S t w (sess_read RC w r c) (chain_head_notin _ _ _ (pre_chain _ _ _ PR)) (pre_cur _ _ _ PR) (pre_out _ _ _ PR) (pre_nores _ _ _ PR) LF NRs) as SP.
    pose proof (sess_read_CF S w r c) as CQ.
    destruct (sess_read RC w r c) as [xv w1|k1 w1|]; cbn [bind outCF] in *; try exact I.
    pose proof (pre_step t S w xv w1 PR SP) as PR1. pose proof (step_nc t S w xv w1 _ SP Hnc) as Hnc1.
    specialize (IH xv w1 _ PR1 Hnc1 (Hk _)).
    destruct (exec_prog RC OC req (k xv) w1); cbn [outCF] in *; try exact I. eapply CF_trans; eassumption.
  - inversion HW as [| | | |sn r' c' v' k' Hx Hg Hwc Hk|]; subst.
    pose proof (sess_write_leaf RC w t r c v (pre_ok _ _ _ PR) (pre_cur _ _ _ PR)) as LF.
    pose proof (sess_write_nores RC w t r c v (pre_ok _ _ _ PR) (pre_cur _ _ _ PR) (pre_nores _ _ _ PR)) as NRs.
    pose proof (okP_of_leafO S t w (sess_write RC w r c v) (chain_head_notin _ _ _ (pre_chain _ _ _ PR)) (pre_cur _ _ _ PR) (pre_out _ _ _ PR) (pre_nores _ _ _ PR) LF NRs) as SP.
    pose proof (sess_write_CF S t w r c v (pre_cur _ _ _ PR) Hg Hnc (chain_head_notin _ _ _ (pre_chain _ _ _ PR))) as CQ.
    destruct (sess_write RC w r c v) as [xv w1|k1 w1|]; cbn [bind outCF] in *; try exact I.
    pose proof (pre_step t S w xv w1 PR SP) as PR1. pose proof (step_nc t S w xv w1 _ SP Hnc) as Hnc1.
    specialize (IH xv w1 _ PR1 Hnc1 (Hk _)).
    destruct (exec_prog RC OC req (k xv) w1); cbn [outCF] in *; try exact I. eapply CF_trans; eassumption.
  - inversion HW as [| | | | |sn r' c' v' k' Hx Hg Hwc Hk]; subst.
    pose proof (sess_written_to_leaf RC w t r c v (pre_ok _ _ _ PR) (pre_cur _ _ _ PR)) as LF.
    pose proof (sess_written_to_nores RC w t r c v (pre_ok _ _ _ PR) (pre_cur _ _ _ PR) (pre_nores _ _ _ PR)) as NRs.
    pose proof (okP_of_leafO S t w (sess_written_to RC w r c v) (chain_head_notin _ _ _ (pre_chain _ _ _ PR)) (pre_cur _ _ _ PR) (pre_out _ _ _ PR) (pre_nores _ _ _ PR) LF NRs) as SP.
    pose proof (sess_written_to_CF S t w r c v (pre_cur _ _ _ PR) Hg Hnc (chain_head_notin _ _ _ (pre_chain _ _ _ PR))) as CQ.
    destruct (sess_written_to RC w r c v) as [xv w1|k1 w1|]; cbn [bind outCF] in *; try exact I.
    pose proof (pre_step t S w xv w1 PR SP) as PR1. pose proof (step_nc t S w xv w1 _ SP Hnc) as Hnc1.
    specialize (IH xv w1 _ PR1 Hnc1 (Hk _)).
    destruct (exec_prog RC OC req (k xv) w1); cbn [outCF] in *; try exact I. eapply CF_trans; eassumption.
Qed.

(* the world an execution of t starts its body in *)
Lemma exec_start_pre t S w : StoreOK w -> Inv2 w -> Chain w (t :: S) -> memN t (consistent w) = false ->
  let w2 := emit (set_cur (reset_task w t) (Some t)) (EExecStart t) in
  Pre t S w2 /\ memN t (consistent w2) = false /\ kidsT w2 t = [] /\ rstate w2 = rstate w /\ consistent w2 = consistent w.
Proof.
  intros H J0 C Hn w2. pose proof (chain_head_notin _ _ _ C) as Ht.
  destruct (reset_task_facts w t H) as [H1 [K1 [L1 [T1 [C1 [U1 [E1 [E0 [O0 O1]]]]]]]]].
  assert (J1 : Inv2 (reset_task w t)).
  { destruct J0 as [N Co]. split.
    - intros t' d X. destruct (N.eq_dec t' t) as [->|Hne]; [exact O0|]. rewrite O1 by exact Hne.
      rewrite E1 in X by (intros E; apply tn_inj in E; contradiction). apply (N t' d X).
    - intros t' X. rewrite C1 in X. destruct (N.eq_dec t' t) as [->|Hne]; [congruence|]. rewrite O1 by exact Hne. apply (Co t' X). }
  assert (Ch2 : Chain w2 (t :: S)).
  { destruct C as [N C]. split; [exact N|]. apply (chain_grow w w2); [exact C|].
    intros s Hs. apply K1. intros E. apply tn_inj in E. subst. tauto. }
  assert (N2 : NoResAt w2 t) by (intros d; change (gr w2) with (gr (reset_task w t)); rewrite E0; discriminate).
  split; [constructor; [exact H1|exact J1|exact Ch2|reflexivity|exact O0|exact N2]|].
  split; [exact Hn|]. split; [|split; reflexivity].
  unfold kidsT. change (gr w2) with (gr (reset_task w t)). destruct (kids_of (gr (reset_task w t)) (tn t)) as [|v tl] eqn:E; [reflexivity|]. exfalso.
  assert (X : get_edata (gr (reset_task w t)) (tn t) v <> None) by (apply (wf_edata _ (proj1 H1)); rewrite E; left; reflexivity).
  rewrite E0 in X. contradiction.
Qed.

Lemma execute_with_CF t S req : REQspec t S req -> CFREQ t S req ->
  forall w, StoreOK w -> Inv2 w -> Chain w (t :: S) -> memN t (consistent w) = false ->
  outCF S w (execute_with RC OC P req w t).
Proof.
  intros HR HC w H J0 C Hn. destruct (exec_start_pre t S w H J0 C Hn) as [PR2 [Hn2 [_ [R2 C2]]]]. unfold execute_with.
  set (w2 := emit (set_cur (reset_task w t) (Some t)) (EExecStart t)) in *.
  pose proof (exec_prog_CF t S req HR HC (P t) w2 [] PR2 Hn2 (HWF t)) as X.
  destruct (exec_prog RC OC req (P t) w2) as [o w3|k w3|]; cbn [bind outCF] in *; try exact I.
  eapply CF_trans; [apply (CF_same S w w2 R2 C2)|]. eapply CF_trans; [exact X|]. apply CF_same; reflexivity.
Qed.

Lemma check_deps_CF mc t S : MCspec mc -> CFMC mc ->
  forall ds w, StoreOK w -> Inv2 w -> Chain w (t :: S) -> (forall d, In d ds -> dep_ok w t d) ->
  outCF (t :: S) w (check_deps RC OC mc ds w).
Proof.
  intros HM HC. induction ds as [|d tl IH]; intros w H J0 C HE; cbn [check_deps]; [apply CF_refl|].
  destruct (HE d (or_introl eq_refl)) as [dp [-> [NRs HX]]].
  assert (HE' : forall w', kids_of (gr w') (tn t) = kids_of (gr w) (tn t) -> forall d, In d tl -> dep_ok w' t d).
  { intros w' Kk d Hd. destruct (HE d (or_intror Hd)) as [dp' [-> [NR' HX']]]. exists dp'. split; [reflexivity|]. split; [exact NR'|].
    intros x c st E. unfold edge. rewrite Kk. apply (HX' x c st E). }
  destruct dp as [|x c st|r c st|r c st]; [congruence| | |].
  - set (w1 := emit w (ECheckTaskStart x c st)).
    assert (P1 : Post (t :: S) [] [] w w1 [ECheckTaskStart x c st]) by (apply post_emit; [exact H|exact Logic.I]).
    assert (C1 : Chain w1 (t :: S)) by (apply (chain_post_all w w1 _ _ _ C P1)).
    assert (E1 : entry_ok w1 (t :: S) x) by (cbn; apply (HX x c st eq_refl)).
    pose proof (HM w1 x (t :: S) H (po_inv _ _ _ _ _ _ P1 J0) C1 E1) as M.
    pose proof (HC w1 x (t :: S) H (po_inv _ _ _ _ _ _ P1 J0) C1 E1) as MC.
    destruct (mc w1 x) as [o w2|k w2|]; cbn [bind outCF okP] in *; try exact I.
    destruct M as [[s2 P2] _].
    set (w3 := emit w2 (ECheckTaskEnd x c st (negb (oc_check (OC c) o st)))).
    assert (CF3 : CF (t :: S) w w3).
    { eapply CF_trans; [apply (CF_same _ w w1); reflexivity|]. eapply CF_trans; [exact MC|]. apply CF_same; reflexivity. }
    destruct (oc_check (OC c) o st); [|exact CF3].
    assert (X : outCF (t :: S) w3 (check_deps RC OC mc tl w3)).
    { apply IH.
      - apply (po_ok _ _ _ _ _ _ P2).
      - apply (po_inv _ _ _ _ _ _ P2). apply (po_inv _ _ _ _ _ _ P1 J0).
      - pose proof (chain_post_all w1 w2 (t :: S) [] s2 C1 P2) as [N2 C2']. split; [exact N2|].
        apply (chain_frame w2 w3); [exact C2'|]. intros; reflexivity.
      - apply HE'. change (gr w3) with (gr w2). apply (po_frame _ _ _ _ _ _ P2). left. reflexivity. }
    destruct (check_deps RC OC mc tl w3); cbn [outCF] in *; try exact I. eapply CF_trans; eassumption.
  - unfold check_resource_td. cbv zeta.
    set (w1 := emit w (ECheckResStart r c st)).
    set (xx := rc_check (RC c) (env w1) r (get_content w1 r) st).
    set (w2 := emit w1 (ECheckResEnd r c st xx)).
    assert (C2 : Chain w2 (t :: S)).
    { destruct C as [N C]. split; [exact N|]. apply (chain_frame w w2); [exact C|]. intros; reflexivity. }
    destruct xx as [| |e]; cbv iota beta; cbn [outCF].
    + assert (X : outCF (t :: S) w2 (check_deps RC OC mc tl w2)) by (apply IH; [exact H|exact J0|exact C2|apply HE'; reflexivity]).
      destruct (check_deps RC OC mc tl w2); cbn [outCF] in *; try exact I. eapply CF_trans; [apply (CF_same _ w w2); reflexivity|exact X].
    + apply CF_same; reflexivity.
    + apply CF_same; reflexivity.
  - unfold check_resource_td. cbv zeta.
    set (w1 := emit w (ECheckResStart r c st)).
    set (xx := rc_check (RC c) (env w1) r (get_content w1 r) st).
    set (w2 := emit w1 (ECheckResEnd r c st xx)).
    assert (C2 : Chain w2 (t :: S)).
    { destruct C as [N C]. split; [exact N|]. apply (chain_frame w w2); [exact C|]. intros; reflexivity. }
    destruct xx as [| |e]; cbv iota beta; cbn [outCF].
    + assert (X : outCF (t :: S) w2 (check_deps RC OC mc tl w2)) by (apply IH; [exact H|exact J0|exact C2|apply HE'; reflexivity]).
      destruct (check_deps RC OC mc tl w2); cbn [outCF] in *; try exact I. eapply CF_trans; [apply (CF_same _ w w2); reflexivity|exact X].
    + apply CF_same; reflexivity.
    + apply CF_same; reflexivity.
Qed.

Theorem make_consistent_td_CF fuel : CFMC (make_consistent_td RC OC P fuel).
Proof.
  induction fuel as [|f IH]; intros w t S H J0 C E; cbn [make_consistent_td]; [exact I|].
  pose proof (goc_task_post S w t H) as P0.
  set (w0 := get_or_create_task_node w t) in *.
  assert (CF0 : CF S w w0).
  { split; [intros r _; unfold w0; apply content_goc_task|intros x X; unfold w0, get_or_create_task_node; destruct (live _ _); exact X]. }
  pose proof (po_ok _ _ _ _ _ _ P0) as H0. pose proof (po_inv _ _ _ _ _ _ P0 J0) as J1.
  pose proof (chain_post_all w w0 S [] [] C P0) as C0.
  assert (E0 : entry_ok w0 S t).
  { destruct S as [|top tl]; [exact Logic.I|]. cbn in *. unfold edge in *. rewrite (po_frame _ _ _ _ _ _ P0) by (left; reflexivity). exact E. }
  pose proof (entry_not_in w0 S t (proj1 H0) C0 E0) as Ht.
  assert (C1 : Chain w0 (t :: S)).
  { destruct C0 as [N0 K0']. split; [constructor; assumption|]. destruct S as [|top tl]; [exact Logic.I|]. split; [exact E0|exact K0']. }
  pose proof (make_consistent_td_spec RC OC P f) as HM.
  pose proof (require_with_spec RC OC P (make_consistent_td RC OC P f) t S HM) as HR.
  pose proof (require_with_CF (make_consistent_td RC OC P f) t S HM IH) as HCq.
  assert (EM : forall w', StoreOK w' -> Inv2 w' -> Chain w' (t :: S) -> memN t (consistent w') = false ->
               outCF S w' (bind (execute_with RC OC P (require_with OC (make_consistent_td RC OC P f)) w' t) (fun o w2 => Done o (mark_consistent w2 t)))).
  { intros w' A1 A2 A3 A4. pose proof (execute_with_CF t S _ HR HCq w' A1 A2 A3 A4) as X.
    destruct (execute_with RC OC P (require_with OC (make_consistent_td RC OC P f)) w' t) as [o w2|k w2|]; cbn [bind outCF] in *; try exact I.
    eapply CF_trans; [exact X|]. split; [reflexivity|]. intros x Y. unfold mark_consistent. cbn [consistent set_consistent]. rewrite memN_cons, Y. apply orb_true_r. }
  assert (MK : forall w', CF S w' (mark_consistent w' t)).
  { intros w'. split; [reflexivity|]. intros x Y. unfold mark_consistent. cbn [consistent set_consistent]. rewrite memN_cons, Y. apply orb_true_r. }
  destruct (memN t (consistent w0)) eqn:Hm.
  - destruct (get_task_output w0 t); cbn [outCF]; [exact CF0|exact I].
  - destruct (get_task_output w0 t) as [o0|] eqn:Ho.
    + pose proof (check_deps_spec RC OC (make_consistent_td RC OC P f) t S HM (deps_of_task w0 t) w0 H0 J1 C1 (deps_ok w0 t o0 H0 J1 Ho)) as CD.
      pose proof (check_deps_CF (make_consistent_td RC OC P f) t S HM IH (deps_of_task w0 t) w0 H0 J1 C1 (deps_ok w0 t o0 H0 J1 Ho)) as CK.
      destruct (check_deps RC OC (make_consistent_td RC OC P f) (deps_of_task w0 t) w0) as [ok w1|k w1|]; cbn [bind outCF okP] in *; try exact I.
      destruct CD as [[s1 P1] Hc1].
      assert (CF1 : CF S w w1) by (eapply CF_trans; [exact CF0|apply (CF_weaken S t); exact CK]).
      destruct (if ok then get_task_output w1 t else None) as [o|]; cbn [outCF].
      * eapply CF_trans; [exact CF1|apply MK].
      * assert (X : outCF S w1 (bind (execute_with RC OC P (require_with OC (make_consistent_td RC OC P f)) w1 t) (fun o w2 => Done o (mark_consistent w2 t)))).
        { apply EM; [apply (po_ok _ _ _ _ _ _ P1)|apply (po_inv _ _ _ _ _ _ P1 J1)|eapply chain_post_all; eassumption|].
          destruct (memN t (consistent w1)) eqn:Z; [|reflexivity]. apply (po_keep _ _ _ _ _ _ P1) in Z; [congruence|left; left; reflexivity]. }
        destruct (bind _ _); cbn [outCF] in *; try exact I. eapply CF_trans; eassumption.
    + pose proof (EM w0 H0 J1 C1 Hm) as X. destruct (bind _ _); cbn [outCF] in *; try exact I. eapply CF_trans; eassumption.
Qed.
End Cp.
End Cl.

(* The store invariant over whole builds and histories: the dependency graph stays a well-formed DAG (C10's WF),
   edges are well typed (task -> task for requires, task -> resource for reads/writes), and every resource has at most
   one recorded writer (C06).  Instantiates the generic principle of Inv.v: holds after Done AND Abort outcomes. *)
From Coq Require Import List NArith ZArith Bool Lia.
From PieV Require Import Model.Dag Model.Build Proofs.DagLib Proofs.DagWF Proofs.DagPath Proofs.DagAddEdge Proofs.DagViews Proofs.Inv.
Import ListNotations.
Open Scope N_scope.

Definition dep_target_ok (v : node) (dp : dep) : Prop :=
  match dp with DReserved => is_tn v = true | DRequire t _ _ => v = tn t | DRead r _ _ => v = rn r | DWrite r _ _ => v = rn r end.
Definition Typed (g : dag dep) : Prop :=
  forall u v dp, get_edata g u v = Some dp -> is_tn u = true /\ dep_target_ok v dp.
Definition writers (g : dag dep) (r : res) : list node :=
  map fst (filter (fun p => is_write (snd p)) (get_incoming_edges g (rn r))).
Definition SingleWriter (g : dag dep) : Prop := forall r, (length (writers g r) <= 1)%nat.
Definition GOK (g : dag dep) : Prop := WF g /\ Typed g /\ SingleWriter g.
Definition StoreOK (w : world) : Prop := GOK (gr w).

Lemma tn_even t : is_tn (tn t) = true. Proof. unfold is_tn, tn. rewrite N.even_mul. reflexivity. Qed.
Lemma rn_odd r : is_tn (rn r) = false.
Proof. unfold is_tn, rn. rewrite N.even_add, N.even_mul. reflexivity. Qed.
Lemma tn_rn t r : tn t <> rn r. Proof. intros E. pose proof (tn_even t). rewrite E, rn_odd in H. discriminate. Qed.

(* writers only depend on the incoming adjacency of the resource node and the data on those edges *)
Lemma writers_ext g g' r :
  pars_of g' (rn r) = pars_of g (rn r) -> (forall p, get_edata g' p (rn r) = get_edata g p (rn r)) -> writers g' r = writers g r.
Proof.
  intros Hp He. unfold writers, get_incoming_edges. rewrite Hp. f_equal. f_equal. apply map_ext. intros p. rewrite He. reflexivity.
Qed.

Lemma writers_removeN_l (f f' : node -> option dep) s l :
  (forall p, p <> s -> f' p = f p) ->
  (length (filter (fun p : node * option dep => is_write (snd p)) (map (fun p => (p, f' p)) (removeN s l))) <=
   length (filter (fun p : node * option dep => is_write (snd p)) (map (fun p => (p, f p)) l)))%nat.
Proof.
  intros He. induction l as [|p tl IH]; [cbn; lia|].
  unfold removeN in *. cbn [filter map].
  destruct (N.eqb_spec s p) as [->|Hne]; cbn [negb filter map snd].
  - destruct (is_write (f p)); cbn [length]; lia.
  - rewrite He by congruence. destruct (is_write (f p)); cbn [length]; lia.
Qed.

Lemma writers_removeN g g' r s :
  pars_of g' (rn r) = removeN s (pars_of g (rn r)) -> (forall p, p <> s -> get_edata g' p (rn r) = get_edata g p (rn r)) ->
  (length (writers g' r) <= length (writers g r))%nat.
Proof.
  intros Hp He. unfold writers, get_incoming_edges. rewrite Hp. rewrite !map_length.
  apply (writers_removeN_l (fun p => get_edata g p (rn r)) (fun p => get_edata g' p (rn r))). exact He.
Qed.

Lemma GOK_empty : GOK empty.
Proof.
  split; [apply WF_empty|]. split.
  - intros u v dp H. discriminate.
  - intros r. cbn. lia.
Qed.

(* ---- graph-level preservation ---- *)
Lemma GOK_add_node g id : GOK g -> live g id = false -> GOK (add_node_at g id).
Proof.
  intros [W [T S]] Hd. split; [apply WF_add_node_at; assumption|]. split.
  - intros u v dp H. apply (T u v dp). exact H.
  - intros r. rewrite (writers_ext g (add_node_at g id) r); [apply S| |reflexivity].
    unfold pars_of. rewrite (get_info_add_node g id (rn r) Hd). destruct (N.eqb_spec (rn r) id) as [E|]; [|reflexivity].
    subst id. unfold live in Hd. destruct (get_info g (rn r)); [discriminate|reflexivity].
Qed.

Lemma GOK_add_edge g s d dp :
  GOK g -> is_tn s = true -> dep_target_ok d dp ->
  (is_write (Some dp) = true -> forall r, d = rn r -> writers g r = []) ->
  fst (add_edge g s d dp) <> AFuel -> GOK (snd (add_edge g s d dp)).
Proof.
  intros [W [T S]] Hs Hd Hw NF. split; [apply add_edge_WF; assumption|].
  pose proof (add_edge_view g s d dp W) as V.
  destruct (fst (add_edge g s d dp)) as [[|]|err|] eqn:R; try congruence.
  - destruct V as [Hnk [VL [VK [VP VE]]]]. split.
    + intros u v dp' H. rewrite VE in H. destruct (pair_eqb (s, d) (u, v)) eqn:X.
      * apply pair_eqb_eq in X. inversion X; subst. inversion H; subst. split; assumption.
      * apply (T u v dp'). exact H.
    + intros r. destruct (N.eq_dec d (rn r)) as [->|Hne].
      * (* the new edge enters this resource node *)
        unfold writers, get_incoming_edges. rewrite VP, N.eqb_refl, map_app, filter_app, map_app, app_length. cbn [map].
        rewrite VE, pair_eqb_refl.
        assert (Old : map (fun p => (p, get_edata (snd (add_edge g s (rn r) dp)) p (rn r))) (pars_of g (rn r)) = map (fun p => (p, get_edata g p (rn r))) (pars_of g (rn r))).
        { apply map_ext_in. intros p Hp. rewrite VE. destruct (pair_eqb (s, rn r) (p, rn r)) eqn:X; [|reflexivity].
          apply pair_eqb_eq in X. inversion X; subst. exfalso. apply Hnk. apply (wf_sym g W). exact Hp. }
        rewrite Old. fold (get_incoming_edges g (rn r)). fold (writers g r). cbn [filter snd].
        destruct (is_write (Some dp)) eqn:Wd; cbn [map length].
        -- rewrite (Hw eq_refl r eq_refl). cbn. lia.
        -- specialize (S r). lia.
      * rewrite (writers_ext g _ r); [apply S| |].
        -- rewrite VP. destruct (N.eqb_spec (rn r) d); [congruence|reflexivity].
        -- intros p. rewrite VE. destruct (pair_eqb (s, d) (p, rn r)) eqn:X; [|reflexivity]. apply pair_eqb_eq in X. inversion X. congruence.
  - destruct V as [-> _]. split; assumption.
  - rewrite V. split; assumption.
Qed.

Lemma WF_insert_edata_existing (g : dag dep) s d dp : WF g -> get_edata g s d <> None -> WF (insert_edata g s d dp).
Proof.
  intros [Wi Wk Wp Ws Wc We Wj Wr Wl Wt] H. constructor; try assumption.
  intros u v. change (kids_of (insert_edata g s d dp) u) with (kids_of g u). rewrite get_edata_insert.
  destruct (pair_eqb (s, d) (u, v)) eqn:X; [|apply We].
  apply pair_eqb_eq in X. inversion X; subst. split; [intros _; apply We; exact H|intros _; discriminate].
Qed.

Lemma GOK_update g s d dp :
  GOK g -> get_edata g s d <> None -> is_tn s = true -> is_tn d = true -> dep_target_ok d dp -> is_write (Some dp) = false ->
  GOK (insert_edata g s d dp).
Proof.
  intros [W [T S]] H Hs Hd Ht Hw. split; [apply WF_insert_edata_existing; assumption|]. split.
  - intros u v dp' X. rewrite get_edata_insert in X. destruct (pair_eqb (s, d) (u, v)) eqn:Y.
    + apply pair_eqb_eq in Y. inversion Y; subst. inversion X; subst. split; assumption.
    + apply (T u v dp'). exact X.
  - intros r. rewrite (writers_ext g _ r); [apply S|reflexivity|].
    intros p. rewrite get_edata_insert. destruct (pair_eqb (s, d) (p, rn r)) eqn:Y; [|reflexivity].
    apply pair_eqb_eq in Y. inversion Y; subst. rewrite rn_odd in Hd. discriminate.
Qed.

Lemma GOK_remove_outgoing g s : GOK g -> GOK (snd (remove_outgoing g s)).
Proof.
  intros [W [T S]]. split; [apply WF_remove_outgoing; exact W|].
  destruct (live g s) eqn:L.
  - destruct (remove_outgoing_view g s W L) as [_ [_ [_ [_ [VK [VP VE]]]]]]. split.
    + intros u v dp X. rewrite VE in X. destruct (N.eqb u s); [discriminate|]. apply (T u v dp). exact X.
    + intros r. specialize (S r). pose proof (writers_removeN g (snd (remove_outgoing g s)) r s (VP (rn r))) as X.
      assert (Y : forall p, p <> s -> get_edata (snd (remove_outgoing g s)) p (rn r) = get_edata g p (rn r)).
      { intros p Hp. rewrite VE. destruct (N.eqb_spec p s); [congruence|reflexivity]. }
      specialize (X Y). lia.
  - rewrite remove_outgoing_snd, L. cbn. split; assumption.
Qed.

(* ---- the session primitives preserve StoreOK ---- *)
Section Prim.
Variable RC : rcid -> rchecker.
Variable OC : ocid -> ochecker.
Variable P : task -> prog.

Lemma goc_task_ok w t : StoreOK w -> StoreOK (get_or_create_task_node w t).
Proof. intros H. unfold get_or_create_task_node. destruct (live (gr w) (tn t)) eqn:L; [exact H|]. apply GOK_add_node; assumption. Qed.
Lemma goc_res_ok w r : StoreOK w -> StoreOK (get_or_create_resource_node w r).
Proof. intros H. unfold get_or_create_resource_node. destruct (live (gr w) (rn r)) eqn:L; [exact H|]. apply GOK_add_node; assumption. Qed.

Lemma add_dependency_ok w s d dp :
  StoreOK w -> is_tn s = true -> dep_target_ok d dp ->
  (is_write (Some dp) = true -> forall r, d = rn r -> writers (gr w) r = []) ->
  match add_dependency w s d dp with (AddBug, _) => True | (_, w') => StoreOK w' end.
Proof.
  intros H Hs Hd Hw. unfold add_dependency.
  pose proof (GOK_add_edge (gr w) s d dp H Hs Hd Hw) as G.
  destruct (add_edge (gr w) s d dp) as [[b|[|]|] g'] eqn:E; cbn [fst snd] in G; try exact Coq.Init.Logic.I;
  apply G; discriminate.
Qed.

Lemma writers_nil_of_none w r : get_task_writing_to_resource w r = None -> writers (gr w) r = [].
Proof.
  unfold get_task_writing_to_resource, writers, incoming. destruct (filter _ _) as [|[n d] tl]; [reflexivity|discriminate].
Qed.

Theorem StoreOK_preserved : Preserved RC StoreOK.
Proof.
  constructor.
  - intros w e H. exact H.
  - intros w t H. apply goc_task_ok. exact H.
  - (* reserve *)
    intros w t H. unfold reserve_require_dependency. destruct (cur w) as [src|]; [|exact H].
    pose proof (add_dependency_ok w (tn src) (tn t) DReserved H (tn_even src) (tn_even t)) as A.
    destruct (add_dependency w (tn src) (tn t) DReserved) as [[| |] w'].
    + apply A. discriminate.
    + right. apply A. discriminate.
    + left. reflexivity.
  - (* update_require *)
    intros w t c st H. unfold update_require_dependency. destruct (cur w) as [src|]; [|exact H].
    destruct (get_edata (gr w) (tn src) (tn t)) eqn:X; [|right; exact H].
    apply GOK_update; try assumption; try apply tn_even; try reflexivity. congruence.
  - (* read *)
    intros w r c H. unfold sess_read. destruct (cur w) as [t|]; [|exact H].
    assert (H2 : StoreOK (get_or_create_resource_node (emit w (EReadStart r c)) r)) by (apply goc_res_ok; exact H).
    set (w2 := get_or_create_resource_node (emit w (EReadStart r c)) r) in *.
    destruct (hidden_read_check w2 t r); [right; exact H2|].
    destruct (rc_stamp (RC c) (env w2) r (get_content w r)) as [st|e]; [|exact H2].
    pose proof (add_dependency_ok (emit w2 (EReadEnd r c st)) (tn t) (rn r) (DRead r c st) H2 (tn_even t) eq_refl) as A.
    destruct (add_dependency (emit w2 (EReadEnd r c st)) (tn t) (rn r) (DRead r c st)) as [[| |] w4].
    + apply A. discriminate.
    + apply A. discriminate.
    + left. reflexivity.
  - (* write *)
    intros w r c v H. unfold sess_write. destruct (cur w) as [t|]; [|destruct v; exact H].
    assert (H2 : StoreOK (get_or_create_resource_node (emit w (EWriteStart r c)) r)) by (apply goc_res_ok; exact H).
    set (w2 := get_or_create_resource_node (emit w (EWriteStart r c)) r) in *.
    destruct (validate_write w2 t r) as [k|] eqn:V; [right; exact H2|].
    assert (NW : get_task_writing_to_resource w2 r = None).
    { unfold validate_write in V. destruct (get_task_writing_to_resource w2 r); [discriminate|reflexivity]. }
    assert (H3 : StoreOK (set_content w2 r v)) by (destruct v; exact H2).
    destruct (rc_stamp (RC c) (env (set_content w2 r v)) r (get_content (set_content w2 r v) r)) as [st|e]; [|exact H3].
    assert (G : gr (emit (set_content w2 r v) (EWriteEnd r c st)) = gr w2) by (destruct v; reflexivity).
    pose proof (add_dependency_ok (emit (set_content w2 r v) (EWriteEnd r c st)) (tn t) (rn r) (DWrite r c st) H3 (tn_even t) eq_refl) as A.
    assert (Hw : is_write (Some (DWrite r c st)) = true -> forall r0, rn r = rn r0 -> writers (gr (emit (set_content w2 r v) (EWriteEnd r c st))) r0 = []).
    { intros _ r0 E. assert (r = r0) by (unfold rn in E; lia). subst r0. rewrite G. apply writers_nil_of_none. exact NW. }
    specialize (A Hw).
    destruct (add_dependency (emit (set_content w2 r v) (EWriteEnd r c st)) (tn t) (rn r) (DWrite r c st)) as [[| |] w5].
    + apply A. + apply A. + left. reflexivity.
  - (* written_to *)
    intros w0 r c v H. unfold sess_written_to.
    assert (H1 : StoreOK (set_content w0 r v)) by (destruct v; exact H).
    set (w := set_content w0 r v) in *.
    destruct (cur w) as [t|]; [|exact H1].
    assert (H2 : StoreOK (get_or_create_resource_node (emit w (EWriteStart r c)) r)) by (apply goc_res_ok; exact H1).
    set (w2 := get_or_create_resource_node (emit w (EWriteStart r c)) r) in *.
    destruct (validate_write w2 t r) as [k|] eqn:V; [right; exact H2|].
    assert (NW : get_task_writing_to_resource w2 r = None).
    { unfold validate_write in V. destruct (get_task_writing_to_resource w2 r); [discriminate|reflexivity]. }
    destruct (rc_stamp (RC c) (env w2) r (get_content w2 r)) as [st|e]; [|exact H2].
    pose proof (add_dependency_ok (emit w2 (EWriteEnd r c st)) (tn t) (rn r) (DWrite r c st) H2 (tn_even t) eq_refl) as A.
    assert (Hw : is_write (Some (DWrite r c st)) = true -> forall r0, rn r = rn r0 -> writers (gr (emit w2 (EWriteEnd r c st))) r0 = []).
    { intros _ r0 E. assert (r = r0) by (unfold rn in E; lia). subst r0. apply writers_nil_of_none. exact NW. }
    specialize (A Hw).
    destruct (add_dependency (emit w2 (EWriteEnd r c st)) (tn t) (rn r) (DWrite r c st)) as [[| |] w5].
    + apply A. + apply A. + left. reflexivity.
  - (* exec start: reset_task *)
    intros w t H. unfold StoreOK, reset_task. cbn [gr emit set_cur set_gr set_outs]. apply GOK_remove_outgoing. exact H.
  - intros w w0 t o H. exact H.
  - intros w t H. exact H.
  - intros w e H. exact H.
  - intros w q H. exact H.
  - intros w r H. apply goc_res_ok. exact H.
Qed.

End Prim.

(* C09 / C18, global forward direction for top-down validation: in EVERY session (top-down requires, bottom-up builds, any
   mix, completed or aborted, from any store, for all programs and checkers), a dependency check of the top-down validation
   whose checker did NOT say "consistent" (it said "inconsistent", or it failed with an error) is DIRECTLY followed by the start
   of a task execution: no event lies between the failing check end and an EExecStart -- in particular no further check, no
   require end, no reuse of the cached output.  Which task is started is the owner of the dependency: [mc_failed_check_executes_owner].
   (The converse -- an execution of a task with an output only directly after such a failing check -- is Justify.v.) *)
From Coq Require Import List NArith ZArith Bool Lia.
From PieV Require Import Model.Dag Model.Build Proofs.Justify.
Import ListNotations.
Open Scope N_scope.

Definition failing (e : event) : bool :=
  match e with
  | ECheckTaskEnd _ _ _ b => b
  | ECheckResEnd _ _ _ Consistent => false
  | ECheckResEnd _ _ _ _ => true
  | _ => false
  end.
Definition isstart (e : event) : bool := match e with EExecStart _ => true | _ => false end.
(* newest first: an event whose predecessor is a failing check end is an execution start *)
Fixpoint FJ (tr : list event) : Prop :=
  match tr with
  | [] => True
  | e :: rest => match rest with f :: _ => failing f = true -> isstart e = true | [] => True end /\ FJ rest
  end.
Definition headok (tr : list event) : Prop := match tr with e :: _ => failing e = false | [] => True end.
Definition R (w : world) : Prop := FJ (trace w) /\ headok (trace w).

Lemma FJ_cons_ok e tr : FJ tr -> headok tr -> FJ (e :: tr).
Proof. intros H K. cbn [FJ]. split; [|exact H]. destruct tr as [|f tl]; [exact I|]. cbn in K. intros X. congruence. Qed.
Lemma FJ_cons_start t tr : FJ tr -> FJ (EExecStart t :: tr).
Proof. intros H. cbn [FJ]. split; [|exact H]. destruct tr; [exact I|]. intros _. reflexivity. Qed.

Definition quiet (w w' : world) : Prop := exists seg, trace w' = seg ++ trace w /\ Forall (fun e => failing e = false) seg.
Lemma quiet_refl w : quiet w w. Proof. exists []; split; [reflexivity|constructor]. Qed.
Lemma quiet_trans a b c : quiet a b -> quiet b c -> quiet a c.
Proof.
  intros [s1 [T1 F1]] [s2 [T2 F2]].
  exists (s2 ++ s1). split; [rewrite T2, T1, app_assoc; reflexivity|apply Forall_app; split; assumption].
Qed.
Lemma quiet_same w w' : trace w' = trace w -> quiet w w'.
Proof. intros T. exists []; split; [exact T|constructor]. Qed.
Lemma quiet_emit w e : failing e = false -> quiet w (emit w e).
Proof. intros H. exists [e]; split; [reflexivity|constructor; [exact H|constructor]]. Qed.
Lemma quiet_R w w' : quiet w w' -> R w -> R w'.
Proof.
  intros [s [T F]] [H K]. unfold R. rewrite T. clear T. induction F as [|e seg He _ IH]; cbn [app]; [split; assumption|].
  destruct IH as [I1 I2]. split; [apply FJ_cons_ok; assumption|exact He].
Qed.
Lemma quiet_goc_task w t : quiet w (get_or_create_task_node w t).
Proof. unfold get_or_create_task_node. destruct (live _ _); [apply quiet_refl|apply quiet_same; reflexivity]. Qed.
Lemma quiet_goc_res w r : quiet w (get_or_create_resource_node w r).
Proof. unfold get_or_create_resource_node. destruct (live _ _); [apply quiet_refl|apply quiet_same; reflexivity]. Qed.
Lemma quiet_add_dependency w s d dp : quiet w (snd (add_dependency w s d dp)).
Proof. unfold add_dependency. destruct (add_edge (gr w) s d dp) as [[b|[|]|] g']; apply quiet_same; reflexivity. Qed.
Lemma quiet_set_content w r v : quiet w (set_content w r v). Proof. destruct v; apply quiet_same; reflexivity. Qed.
Lemma quiet_queue_add w t : quiet w (queue_add w t).
Proof. unfold queue_add. destruct (memN _ _); [apply quiet_refl|apply quiet_same; reflexivity]. Qed.

Definition okR {A} (m : outcome A) : Prop := match m with Done _ w' | Abort _ w' => R w' | OutOfFuel => True end.
Definition quietO {A} (w : world) (m : outcome A) : Prop := match m with Done _ w' | Abort _ w' => quiet w w' | OutOfFuel => True end.
Lemma quietO_R {A} w (m : outcome A) : quietO w m -> R w -> okR m.
Proof. destruct m; cbn; intros Q H; [eapply quiet_R; eassumption|eapply quiet_R; eassumption|exact Logic.I]. Qed.
Lemma bind_R {A B} (m : outcome A) (f : A -> world -> outcome B) : okR m -> (forall a w, R w -> okR (f a w)) -> okR (bind m f).
Proof. destruct m; cbn; intros H F; [apply F; exact H|exact H|exact Logic.I]. Qed.
Lemma push_err_R w x : R w -> R (push_err w x). Proof. intros H. exact H. Qed.

Section TF.
Variable RC : rcid -> rchecker.
Variable OC : ocid -> ochecker.
Variable P : task -> prog.

Lemma sess_read_quiet w r c : quietO w (sess_read RC w r c).
Proof.
  unfold sess_read. destruct (cur w) as [t|]; [|apply quiet_refl].
  assert (Q2 : quiet w (get_or_create_resource_node (emit w (EReadStart r c)) r)).
  { eapply quiet_trans; [|apply quiet_goc_res]; [apply quiet_emit; reflexivity]. }
  set (w2 := get_or_create_resource_node (emit w (EReadStart r c)) r) in *.
  destruct (hidden_read_check w2 t r); [exact Q2|]. destruct (rc_stamp _ _ _ _) as [st|e]; [|exact Q2].
  assert (Q3 : quiet w (snd (add_dependency (emit w2 (EReadEnd r c st)) (tn t) (rn r) (DRead r c st)))).
  { eapply quiet_trans; [exact Q2|]. eapply quiet_trans; [|apply quiet_add_dependency]; [apply quiet_emit; reflexivity]. }
  destruct (add_dependency _ _ _ _) as [[| |] w4]; exact Q3.
Qed.
Lemma sess_write_quiet w r c v : quietO w (sess_write RC w r c v).
Proof.
  unfold sess_write. destruct (cur w) as [t|]; [|apply quiet_set_content].
  assert (Q2 : quiet w (get_or_create_resource_node (emit w (EWriteStart r c)) r)).
  { eapply quiet_trans; [|apply quiet_goc_res]; [apply quiet_emit; reflexivity]. }
  set (w2 := get_or_create_resource_node (emit w (EWriteStart r c)) r) in *.
  destruct (validate_write w2 t r); [exact Q2|].
  assert (Q3 : quiet w (set_content w2 r v)) by (eapply quiet_trans; [exact Q2|apply quiet_set_content]).
  destruct (rc_stamp _ _ _ _) as [st|e]; [|exact Q3].
  assert (Q4 : quiet w (snd (add_dependency (emit (set_content w2 r v) (EWriteEnd r c st)) (tn t) (rn r) (DWrite r c st)))).
  { eapply quiet_trans; [exact Q3|]. eapply quiet_trans; [|apply quiet_add_dependency]; [apply quiet_emit; reflexivity]. }
  destruct (add_dependency _ _ _ _) as [[| |] w4]; exact Q4.
Qed.
Lemma sess_written_to_quiet w r c v : quietO w (sess_written_to RC w r c v).
Proof.
  unfold sess_written_to.
  assert (Q0 : quiet w (set_content w r v)) by apply quiet_set_content.
  set (w0 := set_content w r v) in *.
  destruct (cur w0) as [t|]; [|exact Q0].
  assert (Q2 : quiet w (get_or_create_resource_node (emit w0 (EWriteStart r c)) r)).
  { eapply quiet_trans; [exact Q0|]. eapply quiet_trans; [|apply quiet_goc_res]; [apply quiet_emit; reflexivity]. }
  set (w2 := get_or_create_resource_node (emit w0 (EWriteStart r c)) r) in *.
  destruct (validate_write w2 t r); [exact Q2|].
  destruct (rc_stamp _ _ _ _) as [st|e]; [|exact Q2].
  assert (Q4 : quiet w (snd (add_dependency (emit w2 (EWriteEnd r c st)) (tn t) (rn r) (DWrite r c st)))).
  { eapply quiet_trans; [exact Q2|]. eapply quiet_trans; [|apply quiet_add_dependency]; [apply quiet_emit; reflexivity]. }
  destruct (add_dependency _ _ _ _) as [[| |] w4]; exact Q4.
Qed.
Lemma reserve_quiet w t : quietO w (reserve_require_dependency w t).
Proof.
  unfold reserve_require_dependency. destruct (cur w) as [s|]; [|apply quiet_refl].
  pose proof (quiet_add_dependency w (tn s) (tn t) DReserved) as Q. destruct (add_dependency _ _ _ _) as [[| |] w']; exact Q.
Qed.
Lemma update_quiet w t c st : quietO w (update_require_dependency w t c st).
Proof.
  unfold update_require_dependency. destruct (cur w) as [s|]; [|apply quiet_refl].
  destruct (get_edata _ _ _); [apply quiet_same; reflexivity|apply quiet_refl].
Qed.

Definition RREQ (req : world -> task -> ocid -> outcome Z) : Prop := forall w t c, R w -> okR (req w t c).
Definition RMC (mc : world -> task -> outcome Z) : Prop := forall w t, R w -> okR (mc w t).

Ltac fin H := first [exact H | exact (proj1 H) | exact Logic.I].

Lemma exec_prog_R req : RREQ req -> forall p w, R w -> okR (exec_prog RC OC req p w).
Proof.
  intros Hreq. induction p as [o| |t c k IH|r c k IH|r c v k IH|r c v k IH]; intros w Hw; cbn [exec_prog].
  - exact Hw.
  - fin Hw.
  - apply bind_R; [apply Hreq; exact Hw|]. intros o w' Hw'. apply IH. exact Hw'.
  - apply bind_R; [apply (quietO_R w); [apply sess_read_quiet|exact Hw]|]. intros x w' Hw'. apply IH. exact Hw'.
  - apply bind_R; [apply (quietO_R w); [apply sess_write_quiet|exact Hw]|]. intros x w' Hw'. apply IH. exact Hw'.
  - apply bind_R; [apply (quietO_R w); [apply sess_written_to_quiet|exact Hw]|]. intros x w' Hw'. apply IH. exact Hw'.
Qed.

Lemma execute_with_R req w t : RREQ req -> R w -> okR (execute_with RC OC P req w t).
Proof.
  intros Hreq Hw. unfold execute_with. apply bind_R.
  - apply exec_prog_R; [exact Hreq|]. eapply quiet_R; [|exact Hw].
    eapply quiet_trans; [apply (quiet_same w (set_cur (reset_task w t) (Some t))); reflexivity|apply quiet_emit; reflexivity].
  - intros o w3 H3. cbn. eapply quiet_R; [|exact H3].
    eapply quiet_trans; [apply (quiet_emit w3 (EExecEnd t o)); reflexivity|apply quiet_same; reflexivity].
Qed.

(* after a failing check: the trace satisfies FJ but its head is the failing check end; the execution start restores R *)
Lemma execute_with_F req w t : RREQ req -> FJ (trace w) -> okR (execute_with RC OC P req w t).
Proof.
  intros Hreq Hw. unfold execute_with. apply bind_R.
  - apply exec_prog_R; [exact Hreq|]. split; [cbn [emit trace set_cur]; apply FJ_cons_start; exact Hw|reflexivity].
  - intros o w3 H3. cbn. eapply quiet_R; [|exact H3].
    eapply quiet_trans; [apply (quiet_emit w3 (EExecEnd t o)); reflexivity|apply quiet_same; reflexivity].
Qed.

Lemma require_with_R mc : RMC mc -> RREQ (require_with OC mc).
Proof.
  intros Hmc w t c Hw. unfold require_with.
  assert (H2 : R (get_or_create_task_node (emit w (ERequireStart t c)) t)).
  { eapply quiet_R; [|exact Hw]. eapply quiet_trans; [|apply quiet_goc_task]; [apply quiet_emit; reflexivity]. }
  apply bind_R; [apply (quietO_R _ _ (reserve_quiet _ t) H2)|]. intros _ w3 H3.
  apply bind_R; [apply Hmc; exact H3|]. intros o w4 H4.
  assert (H5 : R (emit w4 (ERequireEnd t c (oc_stamp (OC c) o) o))) by (eapply quiet_R; [apply quiet_emit; reflexivity|exact H4]).
  apply bind_R; [apply (quietO_R _ _ (update_quiet _ t c _) H5)|]. intros _ w6 H6. exact H6.
Qed.

(* check_resource_td + the push of its error, as check_deps uses it: a consistent check keeps R; a failing one leaves FJ with
   the failing end event at the head *)
Lemma check_resource_R w r c st : R w ->
  match check_resource_td RC w r c st with (Consistent, w1) => R w1 | (CErr e, w1) => FJ (trace (push_err w1 e)) | (_, w1) => FJ (trace w1) end.
Proof.
  intros Hw. unfold check_resource_td. cbv zeta.
  set (w1 := emit w (ECheckResStart r c st)).
  assert (H1 : R w1) by (eapply quiet_R; [apply quiet_emit; reflexivity|exact Hw]).
  destruct (rc_check (RC c) (env w1) r (get_content w1 r) st) as [| |e] eqn:X.
  - eapply quiet_R; [apply quiet_emit; reflexivity|exact H1].
  - cbn [emit trace]. apply FJ_cons_ok; [exact (proj1 H1)|exact (proj2 H1)].
  - cbn [push_err emit trace]. apply FJ_cons_ok; [exact (proj1 H1)|exact (proj2 H1)].
Qed.

Definition okC (m : outcome bool) : Prop :=
  match m with Done true w' => R w' | Done false w' => FJ (trace w') | Abort _ w' => R w' | OutOfFuel => True end.

Lemma check_deps_R mc : RMC mc -> forall ds w, R w -> okC (check_deps RC OC mc ds w).
Proof.
  intros Hmc. induction ds as [|d tl IH]; intros w Hw; cbn [check_deps]; [exact Hw|].
  destruct d as [[|t c st|r c st|r c st]|]; try exact Hw.
  - assert (H1 : R (emit w (ECheckTaskStart t c st))) by (eapply quiet_R; [apply quiet_emit; reflexivity|exact Hw]).
    specialize (Hmc _ t H1). destruct (mc (emit w (ECheckTaskStart t c st)) t) as [o w2|k w2|]; cbn [bind okR okC] in *; [|exact Hmc|exact Logic.I].
    destruct (oc_check (OC c) o st) eqn:OK; cbn [negb].
    + apply IH. eapply quiet_R; [apply quiet_emit; reflexivity|exact Hmc].
    + cbn [emit trace]. apply FJ_cons_ok; [exact (proj1 Hmc)|exact (proj2 Hmc)].
  - pose proof (check_resource_R w r c st Hw) as X. destruct (check_resource_td RC w r c st) as [[| |e] w1]; [apply IH; exact X|exact X|exact X].
  - pose proof (check_resource_R w r c st Hw) as X. destruct (check_resource_td RC w r c st) as [[| |e] w1]; [apply IH; exact X|exact X|exact X].
Qed.

Lemma mark_R w t : R w -> R (mark_consistent w t).
Proof. apply quiet_R. apply quiet_same; reflexivity. Qed.

Theorem make_consistent_td_R fuel : RMC (make_consistent_td RC OC P fuel).
Proof.
  induction fuel as [|f IH]; intros w t Hw; cbn [make_consistent_td]; [exact Logic.I|].
  assert (H0 : R (get_or_create_task_node w t)) by (eapply quiet_R; [apply quiet_goc_task|exact Hw]).
  set (w0 := get_or_create_task_node w t) in *.
  destruct (memN t (consistent w0)); [destruct (get_task_output w0 t); fin H0|].
  assert (Hreq : RREQ (require_with OC (make_consistent_td RC OC P f))) by (apply require_with_R; exact IH).
  destruct (get_task_output w0 t).
  - pose proof (check_deps_R _ IH (deps_of_task w0 t) w0 H0) as X.
    destruct (check_deps RC OC (make_consistent_td RC OC P f) (deps_of_task w0 t) w0) as [[|] w1|k w1|]; cbn [bind okC] in *; [| |exact X|exact Logic.I].
    + destruct (get_task_output w1 t).
      * apply mark_R. exact X.
      * apply bind_R; [apply execute_with_R; assumption|]. intros o w2 H2. apply mark_R. exact H2.
    + apply bind_R; [apply execute_with_F; assumption|]. intros o w2 H2. apply mark_R. exact H2.
  - apply bind_R; [apply execute_with_R; assumption|]. intros o w2 H2. apply mark_R. exact H2.
Qed.

(* ---- bottom-up ---- *)
Lemma try_schedule_R w t r c st : R w -> R (try_schedule RC w t r c st).
Proof.
  intros Hw. unfold try_schedule. cbv zeta.
  set (w1 := emit w (ECheckReadResStart t c st)).
  assert (H1 : R w1) by (eapply quiet_R; [apply quiet_emit; reflexivity|exact Hw]).
  destruct (rc_check (RC c) (env w1) r (get_content w1 r) st) as [| |e] eqn:X.
  - eapply quiet_R; [apply quiet_emit; reflexivity|exact H1].
  - eapply quiet_R; [apply quiet_queue_add|]. eapply quiet_R; [apply quiet_emit; reflexivity|].
    eapply quiet_R; [apply quiet_emit; reflexivity|exact H1].
  - eapply quiet_R; [apply quiet_queue_add|]. eapply quiet_R; [apply quiet_emit; reflexivity|].
    apply push_err_R. eapply quiet_R; [apply quiet_emit; reflexivity|exact H1].
Qed.
Lemma try_schedule_edge_R b w p : R w -> R (try_schedule_edge RC b w p).
Proof.
  intros Hw. unfold try_schedule_edge. destruct (snd p) as [[|t c st|r c st|r c st]|]; try exact Hw.
  - apply try_schedule_R; exact Hw.
  - destruct b; [exact Hw|apply try_schedule_R; exact Hw].
Qed.
Lemma fold_R {X} (f : world -> X -> world) l : (forall w x, R w -> R (f w x)) -> forall w, R w -> R (fold_left f l w).
Proof. intros Hf. induction l as [|x tl IH]; intros w Hw; cbn [fold_left]; [exact Hw|apply IH, Hf; exact Hw]. Qed.
Lemma schedule_tasks_affected_by_R w r : R w -> R (schedule_tasks_affected_by RC w r).
Proof.
  intros Hw. unfold schedule_tasks_affected_by. cbv zeta.
  eapply quiet_R; [apply quiet_emit; reflexivity|]. apply fold_R; [intros; apply try_schedule_edge_R; assumption|].
  eapply quiet_R; [|exact Hw]. eapply quiet_trans; [|apply quiet_goc_res]; [apply quiet_emit; reflexivity].
Qed.
Lemma schedule_by_written_R w r : R w -> R (schedule_by_written RC w r).
Proof.
  intros Hw. unfold schedule_by_written. cbv zeta.
  eapply quiet_R; [apply quiet_emit; reflexivity|]. apply fold_R; [intros; apply try_schedule_edge_R; assumption|].
  eapply quiet_R; [apply quiet_emit; reflexivity|exact Hw].
Qed.
Lemma schedule_requirer_R o w p : R w -> R (schedule_requirer OC o w p).
Proof.
  intros Hw. unfold schedule_requirer. destruct (snd p) as [[|t c st|r c st|r c st]|]; try exact Hw. cbv zeta.
  destruct (oc_check (OC c) o st).
  - eapply quiet_R; [apply quiet_emit; reflexivity|]. eapply quiet_R; [apply quiet_emit; reflexivity|exact Hw].
  - eapply quiet_R; [apply quiet_queue_add|]. eapply quiet_R; [apply quiet_emit; reflexivity|].
    eapply quiet_R; [apply quiet_emit; reflexivity|]. eapply quiet_R; [apply quiet_emit; reflexivity|exact Hw].
Qed.
Lemma schedule_after_R w t o : R w -> R (schedule_after RC OC w t o).
Proof.
  intros Hw. unfold schedule_after. cbv zeta. apply mark_R.
  eapply quiet_R; [apply quiet_emit; reflexivity|]. apply fold_R; [intros; apply schedule_requirer_R; assumption|].
  eapply quiet_R; [apply quiet_emit; reflexivity|]. apply fold_R; [intros; apply schedule_by_written_R; assumption|exact Hw].
Qed.
Lemma require_bu_with_R mc : RMC mc -> RREQ (require_bu_with OC mc).
Proof.
  intros Hmc w t c Hw. unfold require_bu_with. apply bind_R; [apply require_with_R; assumption|].
  intros o w' H'. cbn. apply mark_R. exact H'.
Qed.
Lemma set_queue_R w q : R w -> R (set_queue w q). Proof. apply quiet_R. apply quiet_same; reflexivity. Qed.
Lemma queue_pop_R w t w' : R w -> queue_pop w = Some (t, w') -> R w'.
Proof. unfold queue_pop. destruct (rev (sort_queue w)); [discriminate|]. intros Hw H. inversion H; subst. apply set_queue_R. exact Hw. Qed.
Lemma pop_least_R w s t w' : R w -> pop_least_from w s = Some (t, w') -> R w'.
Proof. unfold pop_least_from. destruct (find _ _); [|discriminate]. intros Hw H. inversion H; subst. apply set_queue_R. exact Hw. Qed.

Theorem bottom_up_R fuel :
  (forall w t, R w -> okR (bu_execute_and_schedule RC OC P fuel w t)) /\
  RMC (bu_make_consistent RC OC P fuel) /\
  (forall w t, R w -> okR (bu_require_scheduled_now RC OC P fuel w t)).
Proof.
  induction fuel as [|f [IH1 [IH2 IH3]]]; [repeat split; intros; exact Logic.I|].
  assert (Hreq : RREQ (require_bu_with OC (bu_make_consistent RC OC P f))) by (apply require_bu_with_R; exact IH2).
  split; [|split].
  - intros w t Hw. cbn [bu_execute_and_schedule]. apply bind_R; [apply execute_with_R; assumption|].
    intros o w1 H1. cbn [okR]. apply schedule_after_R. exact H1.
  - intros w t Hw. cbn [bu_make_consistent]. destruct (memN t (consistent w)); [destruct (get_task_output w t); fin Hw|].
    destruct ((match get_task_output w t with None => true | Some _ => false end) && negb (memN t (queue w)))%bool;
      [apply execute_with_R; assumption|].
    apply bind_R; [apply IH3; exact Hw|]. intros r w1 H1. destruct r; [exact H1|]. destruct (get_task_output w1 t); fin H1.
  - intros w t Hw. cbn [bu_require_scheduled_now]. destruct (queue w); [exact Hw|].
    destruct (pop_least_from w t) as [[m w1]|] eqn:X; [|exact Hw].
    apply bind_R; [apply IH1; eapply pop_least_R; eassumption|]. intros o w2 H2. destruct (N.eqb m t); [exact H2|apply IH3; exact H2].
Qed.

Theorem execute_scheduled_R fuel : forall w, R w -> okR (execute_scheduled RC OC P fuel w).
Proof.
  induction fuel as [|f IH]; intros w Hw; cbn [execute_scheduled]; [exact Logic.I|].
  destruct (queue_pop w) as [[t w1]|] eqn:X; [|exact Hw].
  apply bind_R; [apply (proj1 (bottom_up_R f)); eapply queue_pop_R; eassumption|]. intros _ w2 H2. apply IH. exact H2.
Qed.

Variable always : ocid.

Theorem session_require_R fuel w t : R w -> okR (session_require RC OC P always fuel w t).
Proof.
  intros Hw. unfold session_require, require_td.
  apply bind_R; [apply require_with_R; [apply make_consistent_td_R|]|].
  - eapply quiet_R; [|exact Hw]. eapply quiet_trans; [apply (quiet_same w (set_cur w None)); reflexivity|apply quiet_emit; reflexivity].
  - intros o w2 H2. cbn. eapply quiet_R; [apply quiet_emit; reflexivity|exact H2].
Qed.

Theorem session_bottom_up_R fuel w ch : R w -> okR (session_bottom_up RC OC P fuel w ch).
Proof.
  intros Hw. unfold session_bottom_up. cbv zeta.
  set (w1 := fold_left (schedule_tasks_affected_by RC) ch (set_queue w [])).
  assert (H1 : R w1) by (apply fold_R; [intros; apply schedule_tasks_affected_by_R; assumption|apply set_queue_R; exact Hw]).
  apply bind_R; [apply execute_scheduled_R|].
  - eapply quiet_R; [|exact H1]. eapply quiet_trans; [apply (quiet_same w1 (set_cur w1 None)); reflexivity|apply quiet_emit; reflexivity].
  - intros _ w3 H3. cbn. eapply quiet_R; [apply quiet_emit; reflexivity|exact H3].
Qed.

Lemma run_sop_R fuel w o : R w ->
  R (snd (run_sop RC OC P always fuel w o)).
Proof.
  intros Hw. destruct o as [t|ch]; cbn [run_sop].
  - pose proof (session_require_R fuel w t Hw) as X. destruct (session_require RC OC P always fuel w t); cbn in *; [exact X|exact X|exact Hw].
  - pose proof (session_bottom_up_R fuel w ch Hw) as X. destruct (session_bottom_up RC OC P fuel w ch); cbn in *; [exact X|exact X|exact Hw].
Qed.

Lemma run_session_R fuel ops : forall w, R w -> R (snd (run_session RC OC P always fuel w ops)).
Proof.
  induction ops as [|o tl IH]; intros w Hw; cbn [run_session]; [exact Hw|].
  pose proof (run_sop_R fuel w o Hw) as X. destruct (run_sop RC OC P always fuel w o) as [[x|k|] w']; cbn [snd] in *; [|exact X|exact X].
  specialize (IH w' X). destruct (run_session RC OC P always fuel w' tl) as [rs w'']. exact IH.
Qed.

(* readable form (newest-first stream  post ++ e :: pre): the event directly after a failing check end is an execution start *)
Lemma FJ_split post e pre : FJ (post ++ e :: pre) -> failing e = true -> post = [] \/ exists post' t, post = post' ++ [EExecStart t].
Proof.
  induction post as [|x tl IH]; intros H He; [left; reflexivity|right].
  cbn [app FJ] in H. destruct H as [H1 H2]. destruct tl as [|y tl'].
  - cbn [app] in H1. specialize (H1 He). destruct x; try discriminate. exists [], t. reflexivity.
  - destruct (IH H2 He) as [X|[post' [t X]]]; [discriminate|]. exists (x :: post'), t. rewrite X. reflexivity.
Qed.

(* every session, from any store, whether it completes or aborts: a top-down dependency check whose checker did not say
   "consistent" is never the last event of the stream, and the event directly after it is the start of a task execution *)
Theorem session_failed_check_then_execution fuel w ops :
  let w' := snd (run_session RC OC P always fuel (new_session w) ops) in
  forall post e pre, trace w' = post ++ e :: pre -> failing e = true ->
    exists post' t, post = post' ++ [EExecStart t].
Proof.
  intros w' post e pre T He.
  assert (X : R w') by (apply run_session_R; split; exact Logic.I).
  destruct X as [X1 X2]. rewrite T in X1, X2.
  destruct (FJ_split post e pre X1 He) as [E|E]; [|exact E]. subst post. cbn in X2. congruence.
Qed.

(* which task: the owner.  When the validation of t's recorded dependencies answers "inconsistent", the failing check end is the
   last event, it belongs to one of t's recorded dependencies, and make_task_consistent goes on to EXECUTE t from that world:
   the next event is EExecStart t -- the cached output is not reused. *)
Theorem mc_failed_check_executes_owner f w t o0 w1 :
  let w0 := get_or_create_task_node w t in
  memN t (consistent w0) = false -> get_task_output w0 t = Some o0 ->
  check_deps RC OC (make_consistent_td RC OC P f) (deps_of_task w0 t) w0 = Done false w1 ->
  (exists d e, In d (deps_of_task w0 t) /\ failed d e /\ hd_error (trace w1) = Some e /\ failing e = true) /\
  make_consistent_td RC OC P (Datatypes.S f) w t =
    bind (exec_prog RC OC (require_with OC (make_consistent_td RC OC P f)) (P t) (emit (set_cur (reset_task w1 t) (Some t)) (EExecStart t)))
      (fun o w3 => Done o (mark_consistent (set_task_output (set_cur (emit w3 (EExecEnd t o)) (cur (reset_task w1 t))) t o) t)).
Proof.
  intros w0 Hm Ho CD. split.
  - destruct (check_deps_false RC OC _ _ _ _ CD) as [d [e [A [B C]]]]. exists d, e. repeat split; try assumption.
    destruct d as [[|x c st|r c st|r c st]|]; cbn in B; try contradiction.
    + subst e. reflexivity.
    + destruct B as [xx [B1 B2]]. subst e. destruct xx; [congruence|reflexivity|reflexivity].
    + destruct B as [xx [B1 B2]]. subst e. destruct xx; [congruence|reflexivity|reflexivity].
  - cbn [make_consistent_td]. fold w0. rewrite Hm, Ho, CD. cbn [bind]. unfold execute_with.
    destruct (exec_prog _ _ _ _ _); reflexivity.
Qed.

End TF.

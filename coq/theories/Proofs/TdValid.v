(* AllValid ("every recorded dependency of every task that has an output is accepted by its checker") is preserved by every
   session of top-down requires -- of known tasks (they execute nothing: Idem.v) and of NEW tasks (they execute, record fresh and
   therefore consistent dependencies, and have no dependents) -- in the static class with reflexive checkers.  Together with
   UpToDate.v / GoodHist.v: AllValid is an invariant of every history in which each batch of external changes is followed by a
   session that starts with a bottom-up build told about every changed resource. *)
From Coq Require Import List NArith ZArith Bool Lia Permutation.
From PieV Require Import Model.Dag Model.Build Proofs.DagLib Proofs.DagWF Proofs.DagPath Proofs.DagQueries Proofs.DagNoFuel Proofs.StoreInv
  Proofs.Sorting Proofs.Effects Proofs.Inv Proofs.History Proofs.ExecInv Proofs.ExecSession Proofs.Cert Proofs.Stable Proofs.NoBug4 Proofs.NoAbort
  Proofs.NoBug4All Proofs.Trace Proofs.Queue Proofs.BuJust Proofs.BuOnce Proofs.NoReentry Proofs.NoBugAll Proofs.CertAll Proofs.NoAbortAll Proofs.HasOut
  Proofs.Sim Proofs.Valid Proofs.Idem Proofs.OnceAll Proofs.UpToDate Proofs.GoodHist.
Import ListNotations.
Open Scope N_scope.

Section TV.
Variable gen : res -> option task.
Variable wck : rcid -> Prop.
Variable ord : task -> nat.
Variable RC : rcid -> rchecker.
Variable OC : ocid -> ochecker.
Variable P : task -> prog.
Variable sf : rcid -> res -> content -> Z.
Hypothesis HS : forall c env r v, rc_stamp (RC c) env r v = inl (sf c r v).
Hypothesis HWF : forall t, WFP gen wck t [] (P t).
Hypothesis HWO : forall t, WFO ord t (P t).
Hypothesis HRefl : forall c env r v, rc_check (RC c) env r v (sf c r v) = Consistent.
Hypothesis HReflO : forall c o, oc_check (OC c) o (oc_stamp (OC c) o) = true.
Let HNR : forall t, NR [] (P t). Proof. intros t. eapply WFP_NR. apply HWF. Qed.

Notation K := (K RC OC P sf).
Notation Q := (Q gen ord).
Notation Om := (Om gen).
Notation B := (B gen ord RC OC P sf).
Notation mc := (make_consistent_td RC OC P).
Notation reqtd := (fun f => require_with OC (make_consistent_td RC OC P f)).

(* re-validation marks only tasks of X *)
Definition IDEM2 (f : nat) : Prop :=
  forall X w t, ValidX RC OC X w -> In t X -> StoreOK w -> Q w -> (ord t < f)%nat ->
    forall o w', mc f w t = Done o w' -> forall c, isC w' c -> isC w c \/ In c X.
Lemma idem2_chk f X t : IDEM gen ord RC OC P f -> IDEM2 f -> (ord t <= f)%nat ->
  forall l w, ValidX RC OC X w -> StoreOK w -> Q w -> In t X -> (forall d, In d l -> In d (kidsT w t)) ->
    forall ok w', check_deps RC OC (mc f) (map (row w t) l) w = Done ok w' -> forall c, isC w' c -> isC w c \/ In c X.
Proof.
  intros IH IH2 Hf. induction l as [|d l' IHl]; intros w V H Hq Ht Hl ok w' E c Hc; cbn [map check_deps] in E.
  - inversion E; subst. left. exact Hc.
  - assert (Kd : In d (kidsT w t)) by (apply Hl; left; reflexivity).
    pose proof Kd as Ed. apply (wf_edata _ (proj1 H)) in Ed. unfold kidsT in Ed.
    destruct (row w t d) as [dp|] eqn:R; [|unfold row in R; contradiction].
    pose proof (proj2 (V t Ht) d dp R) as D.
    assert (NEXT : forall w1, Quiet w w1 -> (forall c0, isC w1 c0 -> isC w c0 \/ In c0 X) ->
              forall ok0 w0', check_deps RC OC (mc f) (map (row w t) l') w1 = Done ok0 w0' -> forall c0, isC w0' c0 -> isC w c0 \/ In c0 X).
    { intros w1 Q1 M1 ok0 w0' E0 c0 Hc0.
      assert (E1 : map (row w t) l' = map (row w1 t) l') by (apply map_ext; intros d0; symmetry; apply (proj2 (qt_rows _ _ Q1 t))).
      rewrite E1 in E0.
      destruct (IHl w1 (validx_quiet RC OC X w w1 Q1 V) (qt_ok _ _ Q1)
                  ltac:(intros a; destruct (qt_rows _ _ Q1 a) as [KK RR]; apply (QR_same gen ord w); [exact KK|exact RR|apply Hq]) Ht
                  ltac:(intros d0 I0; rewrite (proj1 (qt_rows _ _ Q1 t)); apply Hl; right; exact I0) ok0 w0' E0 c0 Hc0) as [Y|Y]; [apply M1; exact Y|right; exact Y]. }
    destruct dp as [|y c' st|r c' st|r c' st]; cbn [DepOKX] in D; [contradiction| | |].
    + destruct D as [Hy [oy [Oy Ck]]].
      assert (Oyt : (ord y < ord t)%nat).
      { apply (proj1 (Hq t)). destruct H as [W [T Sw]]. destruct (T _ _ _ R) as [_ TG]. cbn in TG. subst d. exact Kd. }
      set (w1 := emit w (ECheckTaskStart y c' st)) in *.
      assert (Q1 : Quiet w w1) by (apply quiet_emit; [exact H|exact I]).
      assert (Q1q : Q w1) by (intros a; destruct (qt_rows _ _ Q1 a) as [KK RR]; apply (QR_same gen ord w); [exact KK|exact RR|apply Hq]).
      destruct (IH X w1 y (validx_quiet RC OC X w w1 Q1 V) Hy (qt_ok _ _ Q1) Q1q ltac:(lia)) as [o2 [w2 [M2 [O2 [Q2 Hc2]]]]].
      rewrite M2 in E. cbn [bind] in E.
      assert (Eo : o2 = oy) by (change (get_task_output w y = Some o2) in O2; rewrite Oy in O2; inversion O2; reflexivity). subst o2.
      rewrite Ck in E. cbn [negb] in E.
      set (w3 := emit w2 (ECheckTaskEnd y c' st false)) in *.
      assert (Q3 : Quiet w w3).
      { eapply quiet_trans; [exact Q1|]. eapply quiet_trans; [exact Q2|]. apply quiet_emit; [apply (qt_ok _ _ Q2)|exact I]. }
      apply (NEXT w3 Q3) with (ok0 := ok) (w0' := w'); [|exact E|exact Hc].
      intros c0 Hc0. change (isC w2 c0) in Hc0. destruct (IH2 X w1 y (validx_quiet RC OC X w w1 Q1 V) Hy (qt_ok _ _ Q1) Q1q ltac:(lia) oy w2 M2 c0 Hc0) as [Y|Y]; [left; exact Y|right; exact Y].
    + unfold check_resource_td in E. cbv zeta in E.
      change (env (emit w (ECheckResStart r c' st))) with (env w) in E. change (get_content (emit w (ECheckResStart r c' st)) r) with (get_content w r) in E.
      rewrite D in E. cbv iota beta in E.
      eapply NEXT; [| |exact E|exact Hc]; [eapply quiet_trans; apply quiet_emit; try exact H; exact I|intros c0 Hc0; left; exact Hc0].
    + unfold check_resource_td in E. cbv zeta in E.
      change (env (emit w (ECheckResStart r c' st))) with (env w) in E. change (get_content (emit w (ECheckResStart r c' st)) r) with (get_content w r) in E.
      rewrite D in E. cbv iota beta in E.
      eapply NEXT; [| |exact E|exact Hc]; [eapply quiet_trans; apply quiet_emit; try exact H; exact I|intros c0 Hc0; left; exact Hc0].
Qed.
Theorem idem2_mc : forall f, IDEM2 f.
Proof.
  induction f as [|f IH]; intros X w t V Ht H Hq Hf o w' E c Hc; [lia|]. cbn [make_consistent_td] in E.
  pose proof (quiet_goc_task w t H) as Q0. set (w0 := get_or_create_task_node w t) in *.
  pose proof (validx_quiet RC OC X w w0 Q0 V) as V0.
  destruct (proj1 (V0 t Ht)) as [o0 Ho0].
  assert (C0 : forall c0, isC w0 c0 -> isC w c0) by (intros c0 Y; unfold isC, w0, get_or_create_task_node in *; destruct (live _ _); exact Y).
  destruct (memN t (consistent w0)).
  - rewrite Ho0 in E. inversion E; subst. left. apply C0. exact Hc.
  - rewrite Ho0 in E. rewrite deps_of_task_map in E.
    assert (Q0q : Q w0) by (intros a; destruct (qt_rows _ _ Q0 a) as [KK RR]; apply (QR_same gen ord w); [exact KK|exact RR|apply Hq]).
    destruct (idem_chk gen ord RC OC P f X t (idem_mc gen ord RC OC P f) ltac:(lia) (kidsT w0 t) w0 V0 (qt_ok _ _ Q0) Q0q Ht ltac:(intros d I0; exact I0)) as [w1 [CD [Q1 Hc1]]].
    change (kids_of (gr w0) (tn t)) with (kidsT w0 t) in E. change (fun d => get_edata (gr w0) (tn t) d) with (row w0 t) in E.
    pose proof (idem2_chk f X t (idem_mc gen ord RC OC P f) IH ltac:(lia) (kidsT w0 t) w0 V0 (qt_ok _ _ Q0) Q0q Ht ltac:(intros d I0; exact I0) true w1 CD) as M1.
    rewrite CD in E. cbn [bind] in E.
    assert (Ho1 : get_task_output w1 t = Some o0) by (unfold get_task_output in *; rewrite (qt_outs _ _ Q1); exact Ho0).
    rewrite Ho1 in E. inversion E; subst. apply isC_mark in Hc. destruct Hc as [->|Hc]; [right; exact Ht|].
    destruct (M1 c Hc) as [Y|Y]; [left; apply C0; exact Y|right; exact Y].
Qed.
Notation DepGood := (DepGood RC OC).
Notation PhiT := (PhiT RC OC).
Notation PhiO := (PhiO RC OC).
Notation Psi := (Psi RC OC).
Notation Psi3 := (Psi3 gen RC OC).
Notation AllValid := (AllValid RC OC).

Lemma td_marks f w t o w' : mc f w t = Done o w' -> isC w' t.
Proof.
  destruct f as [|f]; [discriminate|]. cbn [make_consistent_td]. set (w0 := get_or_create_task_node w t).
  destruct (memN t (consistent w0)) eqn:Mc; [destruct (get_task_output w0 t); intros E; inversion E; subst; exact Mc|].
  assert (EX : forall w1 o1 w2, bind (execute_with RC OC P (require_with OC (mc f)) w1 t) (fun o w2 => Done o (mark_consistent w2 t)) = Done o1 w2 -> isC w2 t).
  { intros w1 o1 w2 E. destruct (execute_with RC OC P (require_with OC (mc f)) w1 t) as [o2 w3|k w3|]; cbn [bind] in E; inversion E; subst. apply isC_mark. left. reflexivity. }
  destruct (get_task_output w0 t); [|apply EX].
  destruct (check_deps RC OC (mc f) (deps_of_task w0 t) w0) as [ok w1|k w1|]; cbn [bind]; try discriminate.
  destruct (if ok then get_task_output w1 t else None); [intros E; inversion E; subst; apply isC_mark; left; reflexivity|apply EX].
Qed.

(* every task with an output: the set X of the re-validation lemmas *)
Definition Xo (w : world) : list task := map fst (outs w).
Lemma Xo_in w x : In x (Xo w) <-> get_task_output w x <> None. Proof. unfold Xo. symmetry. apply alookup_in. Qed.
Lemma valid_of_Psi (F : task -> Prop) w : StoreOK w -> Q w -> queue w = [] -> (forall t, opn w t -> F t) -> Psi3 None None F w -> ValidX RC OC (Xo w) w.
Proof.
  intros HS0 Hq Qe HF [[HT _] HN] x Ix. apply Xo_in in Ix. split; [destruct (get_task_output w x) as [o|]; [exists o; reflexivity|contradiction Ix; reflexivity]|].
  intros d dp R. destruct (HT x ltac:(discriminate) Ix d dp R) as [G|[G|G]]; [|rewrite Qe in G; destruct G|].
  - destruct dp as [|y c st|r c st|r c st]; cbn [UpToDate.DepGood DepOKX] in *; [exact G| |exact G|exact G].
    destruct G as [oy [Oy Cy]]. split; [apply Xo_in; rewrite Oy; discriminate|exists oy; split; assumption].
  - exfalso. destruct dp as [|y c st|r c st|r c st]; cbn [DepExc] in G; try contradiction.
    + destruct G as [G|G]; [|discriminate]. exact (proj2 (HN y (HF y G)) x Ix d _ R eq_refl).
    + destruct G as [g [[G|G] [dpw [Rw Iw]]]]; [|discriminate]. exact (proj2 (HN g (HF g G)) x Ix d _ R (proj1 (proj2 (Hq g)) r dpw Rw Iw)).
Qed.
Lemma validx_reach X w c x : StoreOK w -> ValidX RC OC X w -> In c X -> RT w c x -> In x X.
Proof.
  intros HS0 VX Hc [<-|Pth]; [exact Hc|].
  assert (Gen : forall u z, path (gr w) u z -> forall a, u = tn a -> In a X -> forall y, z = tn y -> In y X).
  { intros u z Pz. induction Pz as [u z E|u m z E Pz IH]; intros a -> Ca y ->.
    - pose proof (proj2 (wf_edata _ (proj1 HS0) (tn a) (tn y)) E) as Y. destruct (get_edata (gr w) (tn a) (tn y)) as [dp|] eqn:Ed; [|contradiction].
      pose proof (proj2 (VX a Ca) (tn y) dp Ed) as D. destruct (proj1 (proj2 HS0) _ _ _ Ed) as [_ Dd].
      destruct dp as [|y' c' st|r c' st|r c' st]; cbn in D, Dd; [contradiction| |exfalso; exact (tn_rn _ _ Dd)|exfalso; exact (tn_rn _ _ Dd)].
      apply tn_inj in Dd. subst y'. apply D.
    - pose proof (OnceAll.path_src_task (gr w) m (tn y) HS0 Pz) as Tm. apply even_tn' in Tm. rewrite Tm in E.
      apply (IH (un m) Tm); [|reflexivity].
      pose proof (proj2 (wf_edata _ (proj1 HS0) (tn a) (tn (un m))) E) as Y. destruct (get_edata (gr w) (tn a) (tn (un m))) as [dp|] eqn:Ed; [|contradiction].
      pose proof (proj2 (VX a Ca) (tn (un m)) dp Ed) as D. destruct (proj1 (proj2 HS0) _ _ _ Ed) as [_ Dd].
      destruct dp as [|y' c' st|r c' st|r c' st]; cbn in D, Dd; [contradiction| |exfalso; exact (tn_rn _ _ Dd)|exfalso; exact (tn_rn _ _ Dd)].
      apply tn_inj in Dd. subst y'. apply D. }
  apply (Gen _ _ Pth c eq_refl Hc x eq_refl).
Qed.

(* a re-validation (quiet, marks only tasks with outputs) keeps the invariants *)
Lemma Om_revalidated w w' : StoreOK w -> V w -> queue w = [] -> ValidX RC OC (Xo w) w -> Quiet w w' ->
  opens (trace w') = opens (trace w) -> queue w' = queue w -> (forall c, isC w' c -> isC w c \/ In c (Xo w)) -> Om w -> Om w'.
Proof.
  intros HS0 HV Qe VX Qt Op Qu HM [A [C D]].
  assert (RTs : forall a b, RT w' a b -> RT w a b).
  { intros a b [->|Pth]; [left; reflexivity|right]. apply (path_sub (gr w) (gr w')); [|exact Pth]. intros n y Y.
    pose proof (proj2 (wf_edata _ (proj1 (qt_ok _ _ Qt)) n y) Y) as Z. destruct (get_edata (gr w') n y) as [dp|] eqn:Ed; [|contradiction].
    destruct (proj1 (proj2 (qt_ok _ _ Qt)) _ _ _ Ed) as [Tu _]. rewrite (even_tn' n Tu) in Y |- *.
    change (In y (kidsT w (un n))). rewrite <- (proj1 (qt_rows _ _ Qt (un n))). exact Y. }
  split; [|split].
  - intros c x Hc R. unfold opn. rewrite Op, Qu. destruct (HM c Hc) as [Y|Y]; [apply (A c x Y (RTs _ _ R))|].
    pose proof (validx_reach (Xo w) w c x HS0 VX Y (RTs _ _ R)) as Ix. apply Xo_in in Ix. split; [|rewrite Qe; intros []].
    intros Ox. apply Ix. apply (proj1 (proj2 (proj2 HV))). exact Ox.
  - intros x y Ox N. unfold opn in Ox. rewrite Op in Ox. apply (qt_mono _ _ Qt). apply (C x y Ox).
    destruct N as [[c [st N]]|[r [dp [N [I E]]]]]; [left; exists c, st|right; exists r, dp; split; [|split; assumption]]; rewrite <- (proj2 (qt_rows _ _ Qt x)); exact N.
  - intros x Ox. unfold opn in Ox. rewrite Op in Ox. rewrite Qu. apply D. exact Ox.
Qed.
Lemma Psi3_revalidated own e (F : task -> Prop) w w' : Quiet w w' -> opens (trace w') = opens (trace w) -> queue w' = queue w ->
  Psi3 own e F w -> Psi3 own e F w'.
Proof.
  intros Qt Op Qu [[HT HO] HN].
  assert (KP : keep w w') by (split; [apply (qt_content _ _ Qt)|split; [apply (qt_env _ _ Qt)|apply (qt_outs _ _ Qt)]]).
  assert (Wt : forall g r, wrote w g r -> wrote w' g r) by (intros g r [dpw [Rw Iw]]; exists dpw; split; [rewrite (proj2 (qt_rows _ _ Qt g)); exact Rw|exact Iw]).
  split; [split|].
  - intros x Hx Ox d dp R. unfold get_task_output in Ox. rewrite (qt_outs _ _ Qt) in Ox. rewrite (proj2 (qt_rows _ _ Qt x)) in R.
    destruct (HT x Hx Ox d dp R) as [G|[G|G]]; [left; eapply DepGood_keep; eassumption|right; left; rewrite Qu; exact G|right; right].
    destruct dp as [|y c st|r c st|r c st]; cbn [DepExc] in *; try contradiction; unfold opn in *; rewrite Op; [exact G|].
    destruct G as [g [G Wg]]. exists g. split; [exact G|apply Wt; exact Wg].
  - intros t Ot d dp R. unfold opn in Ot. rewrite Op in Ot. rewrite (proj2 (qt_rows _ _ Qt t)) in R.
    destruct (HO t Ot d dp R) as [G|G]; [left; exact G|right; eapply DepGood_keep; eassumption].
  - apply (ND_step gen F w w'); [intros t; unfold opn; rewrite Op; trivial| |exact HN].
    intros x Ox. unfold get_task_output in *. rewrite (qt_outs _ _ Qt) in Ox. split; [exact Ox|intros d; apply (proj2 (qt_rows _ _ Qt x))].
Qed.

(* recording a require whose target is already consistent (top-down: the target was marked inside make_task_consistent) *)
Lemma Om_update s x c st w : opn w s -> isC w x -> Om w -> Om (set_gr w (insert_edata (gr w) (tn s) (tn x) (DRequire x c st))).
Proof.
  intros Os Cx [A [C D]]. set (w6 := set_gr w (insert_edata (gr w) (tn s) (tn x) (DRequire x c st))).
  assert (RTs : forall a b, RT w6 a b -> RT w a b).
  { intros a b [->|Pth]; [left; reflexivity|right]. apply (path_sub (gr w) (gr w6)); [|exact Pth].
    intros n y Y. change (gr w6) with (insert_edata (gr w) (tn s) (tn x) (DRequire x c st)) in Y.
    rewrite (proj1 (insert_edata_same (gr w) (tn s) (tn x) (DRequire x c st)) n) in Y. exact Y. }
  assert (Row : forall y d, row w6 y d = if pair_eqb (tn s, tn x) (tn y, d) then Some (DRequire x c st) else row w y d).
  { intros y d. unfold row. change (gr w6) with (insert_edata (gr w) (tn s) (tn x) (DRequire x c st)). apply get_edata_insert. }
  split; [|split].
  - intros a b Ha R. apply (A a b Ha (RTs _ _ R)).
  - intros a y Oa N. change (isC w y).
    destruct N as [[c' [st' N]]|[r [dp [N [I E]]]]]; rewrite Row in N.
    + destruct (pair_eqb (tn s, tn x) (tn a, tn y)) eqn:Z.
      * apply pair_eqb_eq in Z. inversion Z as [[Z1 Z2]]. apply tn_inj in Z2. subst y. exact Cx.
      * apply (C a y Oa). left. exists c', st'. exact N.
    + destruct (pair_eqb (tn s, tn x) (tn a, rn r)) eqn:Z.
      * apply pair_eqb_eq in Z. inversion Z as [[Z1 Z2]]. exfalso. exact (tn_rn _ _ Z2).
      * apply (C a y Oa). right. exists r, dp. split; [exact N|split; assumption].
  - exact D.
Qed.
Lemma Psi3_update own e (F : task -> Prop) s x c o w : opn w s -> get_task_output w s = None -> get_task_output w x = Some o ->
  Psi3 own e F w -> Psi3 own e F (set_gr w (insert_edata (gr w) (tn s) (tn x) (DRequire x c (oc_stamp (OC c) o)))).
Proof.
  intros Os Ho Hx [HP HN]. pose proof (Psi_update_mark RC OC HReflO own e s x c o w Os Ho Hx HP) as [HT HO]. split; [split|].
  - intros y Hy Oy d dp R. exact (HT y Hy Oy d dp R).
  - intros t Ot d dp R. exact (HO t Ot d dp R).
  - apply (ND_cur gen F s w); [exact Ho|reflexivity|reflexivity| |exact HN].
    intros y d Hy. unfold row. cbn [gr set_gr]. rewrite get_edata_insert. destruct (pair_eqb (tn s, tn x) (tn y, d)) eqn:Z; [|reflexivity].
    apply pair_eqb_eq in Z. inversion Z as [[Z1 Z2]]. apply tn_inj in Z1. congruence.
Qed.
(* ---- the earlier passes, bundled, for the top-down interpreters ---- *)
Definition rqt (f : nat) := require_with OC (make_consistent_td RC OC P f).
Notation okB := (okB gen ord RC OC P sf).

Lemma td_facts f :
  NoBugAll.VMC (mc f) /\ NoBugAll.VREQ (rqt f) /\ CertAll.QREQ RC OC P sf (rqt f) /\ NoAbortAll.AREQ gen ord RC OC P sf (rqt f) /\ HasOut.HREQ (rqt f).
Proof.
  pose proof (NoBugAll.make_consistent_td_V RC OC P f) as HV. pose proof (CertAll.make_consistent_td_Q RC OC P sf HS HNR f) as HQ.
  pose proof (NoAbortAll.make_consistent_td_A gen wck ord RC OC P sf HS HWF HWO f) as HA.
  split; [exact HV|]. split; [apply (NoBugAll.require_with_V RC); exact HV|]. split; [apply (CertAll.require_with_Q RC OC P sf); assumption|].
  split; [apply NoAbortAll.require_with_A; assumption|].
  apply (HasOut.require_with_H RC); [apply (NoBug4All.make_consistent_td_R RC OC P f)|apply (HasOut.make_consistent_td_H RC OC P f)|apply (HasOut.td_out RC OC P f)].
Qed.
Lemma BMCt f a w t : B a w -> live (gr w) (tn t) = true -> reach a w t -> okB a w (mc f w t).
Proof.
  intros HB0 Lt R. pose proof HB0 as [Hw [Kw [Hq Hh]]]. destruct (td_facts f) as [F1 _].
  eapply (pack gen ord RC OC P sf); [exact HB0|apply (NoBug4All.make_consistent_td_R RC OC P f); [apply Hw|exact Lt]|apply (proj2 (proj1 F1)); [apply Hw|exact Lt|exact R]|
    apply (proj2 F1 a w t Hw Lt R)|apply (CertAll.make_consistent_td_Q RC OC P sf HS HNR f a); assumption|
    apply (NoAbortAll.make_consistent_td_A gen wck ord RC OC P sf HS HWF HWO f a); assumption|apply (HasOut.make_consistent_td_H RC OC P f); [apply Hw|exact Lt|exact Hh]].
Qed.
Lemma BEXt f a w t : B a w -> live (gr w) (tn t) = true -> reach a w t -> okB a w (execute_with RC OC P (rqt f) w t).
Proof.
  intros HB0 Lt R. pose proof HB0 as [Hw [Kw [Hq Hh]]]. destruct (td_facts f) as [F1 [F2 [F3 [F4 F5]]]].
  eapply (pack gen ord RC OC P sf); [exact HB0|apply NoBug4All.execute_with_R; [exact (proj1 (proj1 F2))|apply Hw|exact Lt]|apply NoReentry.execute_with_N; [exact (proj1 F2)|apply Hw|exact Lt|exact R]|
    apply (NoBugAll.execute_with_V RC OC P); assumption|apply (CertAll.execute_with_Q RC OC P sf HS HNR _ a); assumption|
    apply (NoAbortAll.execute_with_A gen wck ord RC OC P sf HS HWF HWO _ a); assumption|apply HasOut.execute_with_H; [exact (proj1 (proj1 F2))|exact F5|apply Hw|exact Lt|exact Hh]].
Qed.
Lemma BREQt f w x c s : B (Some s) w -> cur w = Some s -> (ord x < ord s)%nat -> ~ In (tn x) (kidsT w s) ->
  okB (Some s) w (rqt f w x c) /\ (forall o w', rqt f w x c = Done o w' -> RowStep s w w' (tn x) (DRequire x c (oc_stamp (OC c) o))).
Proof.
  intros HB0 Hc Ho Hn. pose proof HB0 as [Hw [Kw [Hq Hh]]]. destruct (td_facts f) as [F1 [F2 [F3 [F4 F5]]]].
  assert (Hw' : VPre (cur w) w) by (rewrite Hc; exact Hw).
  split.
  - eapply (pack gen ord RC OC P sf); [exact HB0|apply (proj1 (proj1 F2)); apply Hw| | | | |apply F5; [apply Hw|exact Hh]].
    + pose proof (proj2 (proj1 F2) w x c (proj1 Hw')) as X. rewrite Hc in X. exact X.
    + pose proof (proj2 F2 w x c Hw') as X. rewrite Hc in X. exact X.
    + apply (proj1 F3 w x c Hw' Kw).
    + apply (F4 w x c Hw' Kw Hq). intros t' X. rewrite Hc in X. inversion X; subst t'. split; assumption.
  - intros o w' E. apply (proj2 F3 w x c s o w' Hw' Kw Hc Hn E).
Qed.
(* ---- the top-down interpreters ---- *)
Definition TInv (F : task -> Prop) (w : world) : Prop := Om w /\ queue w = [] /\ (forall t, opn w t -> F t) /\ Psi3 None None F w.
Definition TREQ (f : nat) (req : world -> task -> ocid -> outcome Z) : Prop :=
  forall (F : task -> Prop) w x c s, B (Some s) w -> cur w = Some s -> (ord x < ord s)%nat -> ~ In (tn x) (kidsT w s) -> (ord x < f)%nat -> OF w s ->
    TInv F w -> okO (req w x c) (fun _ w' => TInv F w').
Definition TMC (f : nat) : Prop :=
  forall (F : task -> Prop) a w t, B a w -> live (gr w) (tn t) = true -> reach a w t -> (ord t < f)%nat -> TInv F w ->
    okO (mc f w t) (fun _ w' => TInv F w' /\ isC w' t).

Lemma exec_prog_T f t (F : task -> Prop) : TREQ f (rqt f) -> (ord t <= f)%nat -> forall p w, B (Some t) w -> cur w = Some t -> OF w t -> TInv F w ->
  WFP gen wck t (kidsT w t) p -> WFO ord t p ->
  okO (exec_prog RC OC (rqt f) p w) (fun _ w' => TInv F w' /\ OF w' t /\ B (Some t) w' /\ opens (trace w') = opens (trace w)).
Proof.
  intros HR Hf. induction p as [o| |x c k IH|r c k IH|r c v k IH|r c v k IH]; intros w HB0 Hc HF HI HW HWo; cbn [exec_prog okO].
  - split; [exact HI|split; [exact HF|split; [exact HB0|reflexivity]]].
  - exact Logic.I.
  - inversion HW as [| |sn x' c' k' Hx Hk| | |]; subst. inversion HWo as [|x' c' k' Hox Hok| | |]; subst.
    destruct (BREQt f w x c t HB0 Hc Hox Hx) as [BQ RS]. pose proof (HR F w x c t HB0 Hc Hox Hx ltac:(lia) HF HI) as RO.
    destruct (rqt f w x c) as [ox w1|k1 w1|]; cbn [bind OnceAll.okB okO] in *; [|exact Logic.I|exact Logic.I].
    destruct BQ as [B1 [C1 [_ [_ Op1]]]]. rewrite Hc in C1. destruct (RS ox w1 eq_refl) as [RK [RD RO']].
    assert (F1 : OF w1 t) by (intros d; destruct (N.eq_dec d (tn x)) as [->|Hne]; [rewrite RD; discriminate|rewrite (RO' d Hne); apply HF]).
    specialize (IH (oc_view (OC c) ox) w1 B1 C1 F1 RO). rewrite RK in IH. specialize (IH (Hk _) (Hok _)).
    destruct (exec_prog RC OC (rqt f) (k (oc_view (OC c) ox)) w1) as [o w'|k2 w'|]; cbn [okO] in *; [|exact Logic.I|exact Logic.I].
    destruct IH as [X1 [X2 [X3 X4]]]. split; [exact X1|split; [exact X2|split; [exact X3|congruence]]].
  - inversion HW as [| | |sn r' c' k' Hx Hg Hk| |]; subst. inversion HWo as [| |r' c' k' Hok| |]; subst.
    destruct (B_read gen ord RC OC P sf HS w t r c HB0 Hc Hx Hg) as [xv [w1 [Eq [Ex LS]]]].
    destruct (Sim.sess_read_done RC sf HS w t r c xv w1 Hc Eq) as [_ [S1 S2 _ _]]. rewrite Eq. cbn [bind].
    destruct HI as [HO [Qe [HFo HP]]].
    destruct (Om_leaf gen ord RC OC P sf t w w1 r _ LS HB0 Hc HO HF ltac:(discriminate) ltac:(intros; discriminate) ltac:(intros _; exact Hg)) as [O1 [F1 _]].
    assert (Op1 : opens (trace w1) = opens (trace w)) by (destruct (ls_q3 _ _ _ _ _ _ _ _ _ _ _ LS) as [[s0 [T0 F0]] _]; rewrite T0; apply opens_app3; exact F0).
    assert (U1 : Psi3 None None F w1).
    { apply (Psi3_leaf gen ord RC OC P sf F t w w1 r _ LS HB0 Hc HO); [intros r' _; apply S1|exact S2|intros _; apply S1|intros X; discriminate|right; reflexivity| |exact Hx|exact HP].
      cbn. rewrite S1, S2. apply HRefl. }
    assert (I1 : TInv F w1) by (split; [exact O1|split; [rewrite (ls_queue _ _ _ _ _ _ _ _ _ _ _ LS); exact Qe|split; [intros t0; unfold opn; rewrite Op1; apply HFo|exact U1]]]).
    specialize (IH xv w1 (ls_B _ _ _ _ _ _ _ _ _ _ _ LS) (ls_cur _ _ _ _ _ _ _ _ _ _ _ LS) F1 I1). rewrite (proj1 (ls_row _ _ _ _ _ _ _ _ _ _ _ LS)) in IH. specialize (IH (Hk _) (Hok _)).
    destruct (exec_prog RC OC (rqt f) (k xv) w1) as [o w'|k2 w'|]; cbn [okO] in *; [|exact Logic.I|exact Logic.I].
    destruct IH as [X1 [X2 [X3 X4]]]. split; [exact X1|split; [exact X2|split; [exact X3|congruence]]].
  - inversion HW as [| | | |sn r' c' v' k' Hx Hg Hwc Hk|]; subst. inversion HWo as [| | |r' c' v' k' Hok|]; subst.
    destruct (B_write gen ord RC OC P sf HS w t r c v HB0 Hc Hx Hg) as [xv [w1 [Eq [Ex LS]]]].
    destruct (Sim.sess_write_done RC sf HS w t r c v xv w1 Hc Eq) as [_ [W1 [W2 [W3 _]]]]. rewrite Eq. cbn [bind].
    destruct HI as [HO [Qe [HFo HP]]].
    destruct (Om_leaf gen ord RC OC P sf t w w1 r _ LS HB0 Hc HO HF ltac:(discriminate) ltac:(intros; discriminate) ltac:(intros X; discriminate)) as [O1 [F1 _]].
    assert (Op1 : opens (trace w1) = opens (trace w)) by (destruct (ls_q3 _ _ _ _ _ _ _ _ _ _ _ LS) as [[s0 [T0 F0]] _]; rewrite T0; apply opens_app3; exact F0).
    assert (U1 : Psi3 None None F w1).
    { apply (Psi3_leaf gen ord RC OC P sf F t w w1 r _ LS HB0 Hc HO); [exact W2|exact W3|intros X; discriminate|intros _; exact Hg|left; reflexivity| |exact Hx|exact HP].
      cbn. rewrite W1, W3. apply HRefl. }
    assert (I1 : TInv F w1) by (split; [exact O1|split; [rewrite (ls_queue _ _ _ _ _ _ _ _ _ _ _ LS); exact Qe|split; [intros t0; unfold opn; rewrite Op1; apply HFo|exact U1]]]).
    specialize (IH xv w1 (ls_B _ _ _ _ _ _ _ _ _ _ _ LS) (ls_cur _ _ _ _ _ _ _ _ _ _ _ LS) F1 I1). rewrite (proj1 (ls_row _ _ _ _ _ _ _ _ _ _ _ LS)) in IH. specialize (IH (Hk _) (Hok _)).
    destruct (exec_prog RC OC (rqt f) (k xv) w1) as [o w'|k2 w'|]; cbn [okO] in *; [|exact Logic.I|exact Logic.I].
    destruct IH as [X1 [X2 [X3 X4]]]. split; [exact X1|split; [exact X2|split; [exact X3|congruence]]].
  - inversion HW as [| | | | |sn r' c' v' k' Hx Hg Hwc Hk]; subst. inversion HWo as [| | | |r' c' v' k' Hok]; subst.
    destruct (B_written_to gen ord RC OC P sf HS w t r c v HB0 Hc Hx Hg) as [xv [w1 [Eq [Ex LS]]]].
    destruct (Sim.sess_written_to_done RC sf HS w t r c v xv w1 Hc Eq) as [_ [W1 [W2 [W3 _]]]]. rewrite Eq. cbn [bind].
    destruct HI as [HO [Qe [HFo HP]]].
    destruct (Om_leaf gen ord RC OC P sf t w w1 r _ LS HB0 Hc HO HF ltac:(discriminate) ltac:(intros; discriminate) ltac:(intros X; discriminate)) as [O1 [F1 _]].
    assert (Op1 : opens (trace w1) = opens (trace w)) by (destruct (ls_q3 _ _ _ _ _ _ _ _ _ _ _ LS) as [[s0 [T0 F0]] _]; rewrite T0; apply opens_app3; exact F0).
    assert (U1 : Psi3 None None F w1).
    { apply (Psi3_leaf gen ord RC OC P sf F t w w1 r _ LS HB0 Hc HO); [exact W2|exact W3|intros X; discriminate|intros _; exact Hg|left; reflexivity| |exact Hx|exact HP].
      cbn. rewrite W1, W3. apply HRefl. }
    assert (I1 : TInv F w1) by (split; [exact O1|split; [rewrite (ls_queue _ _ _ _ _ _ _ _ _ _ _ LS); exact Qe|split; [intros t0; unfold opn; rewrite Op1; apply HFo|exact U1]]]).
    specialize (IH xv w1 (ls_B _ _ _ _ _ _ _ _ _ _ _ LS) (ls_cur _ _ _ _ _ _ _ _ _ _ _ LS) F1 I1). rewrite (proj1 (ls_row _ _ _ _ _ _ _ _ _ _ _ LS)) in IH. specialize (IH (Hk _) (Hok _)).
    destruct (exec_prog RC OC (rqt f) (k xv) w1) as [o w'|k2 w'|]; cbn [okO] in *; [|exact Logic.I|exact Logic.I].
    destruct IH as [X1 [X2 [X3 X4]]]. split; [exact X1|split; [exact X2|split; [exact X3|congruence]]].
Qed.
Lemma execute_with_T f a w t (F : task -> Prop) : TREQ f (rqt f) -> (ord t <= f)%nat -> B a w -> live (gr w) (tn t) = true -> reach a w t ->
  get_task_output w t = None -> TInv F w ->
  okO (execute_with RC OC P (rqt f) w t) (fun _ w1 => TInv F w1 /\ Fin w1 t /\ get_task_output w1 t <> None).
Proof.
  intros HR Hf HB0 Lt R Hno [HO [Qe [HFo [HPs HN]]]]. pose proof (BEXt f a w t HB0 Lt R) as XB. pose proof (execute_with_out RC OC P (rqt f) w t) as XO.
  unfold execute_with in *. fold (startw w t) in *.
  destruct (start_B gen ord RC OC P sf a w t HB0 Lt R) as [B2 [KT2 [Hnot HF2]]].
  assert (HP : P3 w t).
  { intros c Hc Rc. apply (reachC_out gen w c t (B_S gen ord RC OC P sf _ w HB0) (B_V gen ord RC OC P sf _ w HB0) (proj2 (proj2 (proj2 HB0))) HO Hc Rc). exact Hno. }
  assert (Hq : ~ In t (queue w)) by (rewrite Qe; intros []).
  pose proof (Om_start gen w t (B_S gen ord RC OC P sf _ w HB0) HO HP Hq) as O2. fold (startw w t) in O2.
  assert (NFt : ~ F t -> True) by trivial.
  assert (HPs' : Psi (Some t) None w) by (split; [apply PhiT_weaken; apply HPs|apply HPs]).
  pose proof (Psi_start gen RC OC w t (B_S gen ord RC OC P sf _ w HB0) HO HP Hnot HPs') as P2.
  set (F' := fun x => x = t \/ F x).
  assert (N2 : ND gen F' (startw w t)) by (apply (ND_start_new gen ord F w t (B_S gen ord RC OC P sf _ w HB0) (B_V gen ord RC OC P sf _ w HB0) (proj2 (proj2 (proj2 HB0))) (proj1 (proj2 (proj2 HB0))) Hno Hnot HN)).
  assert (I2 : TInv F' (startw w t)).
  { split; [exact O2|]. split; [exact Qe|]. split; [|split; [exact P2|exact N2]].
    intros x Ox. unfold opn, startw in Ox. change (opens (trace (emit (set_cur (reset_task w t) (Some t)) (EExecStart t)))) with (t :: opens (trace (reset_task w t))) in Ox.
    destruct (reset_task_facts w t (B_S gen ord RC OC P sf _ w HB0)) as [_ [_ [_ [R4 _]]]]. rewrite R4 in Ox. destruct Ox as [<-|Ox]; [left; reflexivity|right; apply HFo; exact Ox]. }
  pose proof (exec_prog_T f t F' HR Hf (P t) (startw w t) B2 eq_refl HF2 I2) as X. rewrite KT2 in X. specialize (X (HWF t) (HWO t)).
  destruct (exec_prog RC OC (rqt f) (P t) (startw w t)) as [o w3|k w3|]; cbn [bind okO OnceAll.okB outIs] in *; [|exact Logic.I|exact Logic.I].
  destruct X as [[O3 [Qe3 [HF3 [P3' N3]]]] [F3 [B3 Op3]]].
  assert (Ot3 : opn w3 t) by (unfold opn; rewrite Op3; left; reflexivity).
  fold (endw w3 t o (cur (reset_task w t))) in *. set (w4 := endw w3 t o (cur (reset_task w t))) in *.
  destruct XB as [B4 _].
  pose proof (Psi_end gen RC OC w3 t o (cur (reset_task w t)) (B_S gen ord RC OC P sf _ w3 B3) O3 Ot3 (open_no_output gen ord RC OC P sf _ w3 t B3 Ot3) F3 P3') as P4. fold w4 in P4.
  assert (NFt' : ~ F t) by (intros X; exact (Hnot (proj1 (HN t X)))).
  assert (N4 : ND gen F w4).
  { apply (ND_end gen ord F w3 t o (cur (reset_task w t)) (B_S gen ord RC OC P sf _ w3 B3) (proj1 (proj2 (proj2 B3))) O3 Ot3 F3 NFt'). intros x Fx. apply N3. right. exact Fx. }
  assert (PD : PhiT None None w4).
  { apply (PhiT_discharge gen ord RC OC w4 t (B_S gen ord RC OC P sf _ w4 B4) (proj1 (proj2 (proj2 B4)))); [|apply P4].
    apply (NoDep_end_self gen ord w3 t o (cur (reset_task w t)) (B_S gen ord RC OC P sf _ w3 B3) (proj1 (proj2 (proj2 B3))) O3 Ot3). apply (N3 t). left. reflexivity. }
  split; [|split; [|rewrite XO; discriminate]].
  - split; [apply Om_end; exact O3|]. split; [exact Qe3|]. split; [|split; [split; [exact PD|apply P4]|exact N4]].
    intros x Ox. apply opn_end in Ox. destruct Ox as [Ox Hx]. destruct (HF3 x Ox) as [->|Y]; [contradiction|exact Y].
  - (* everything reachable from the finished task is settled *)
    intros x Rx. assert (NQ : ~ In t (queue w3)) by (rewrite Qe3; intros []).
    destruct Rx as [<-|Pth]; [split; [intros Y; apply opn_end in Y; apply (proj2 Y); reflexivity|exact NQ]|].
    change (path (gr w3) (tn t) (tn x)) in Pth.
    assert (Gen : forall k0, In k0 (kids_of (gr w3) (tn t)) -> (k0 = tn x \/ path (gr w3) k0 (tn x)) -> ~ opn w3 x /\ ~ In x (queue w3)).
    { intros k0 Ik Hk. destruct (kid_of_finished gen ord RC OC P sf w3 t k0 B3 O3 F3 Ot3 Ik) as [[r ->]|[y [-> Cy]]].
      - exfalso. destruct Hk as [E|Pk]; [symmetry in E; exact (tn_rn _ _ E)|]. pose proof (OnceAll.path_src_task _ _ _ (B_S gen ord RC OC P sf _ w3 B3) Pk) as Tk. rewrite rn_odd in Tk. discriminate.
      - apply (proj1 O3 y x Cy). destruct Hk as [E|Pk]; [left; apply tn_inj; exact E|right; exact Pk]. }
    assert (Res : ~ opn w3 x /\ ~ In x (queue w3)).
    { inversion Pth as [u v Ik|u k0 v Ik Pk]; subst; [apply (Gen (tn x) Ik); left; reflexivity|apply (Gen k0 Ik); right; exact Pk]. }
    split; [intros Y; apply opn_end in Y; exact (proj1 Res (proj1 Y))|exact (proj2 Res)].
Qed.
(* the top-down interpreters never touch the bottom-up queue *)
Definition qsame {A} (w : world) (m : outcome A) : Prop := match m with Done _ w' => queue w' = queue w | _ => True end.
Lemma bind_qsame {A B0} w (m : outcome A) (g : A -> world -> outcome B0) :
  qsame w m -> (forall a w1, queue w1 = queue w -> qsame w1 (g a w1)) -> qsame w (bind m g).
Proof. destruct m as [a w1|k w1|]; cbn; intros H G; [|exact Logic.I|exact Logic.I]. specialize (G a w1 H). destruct (g a w1); cbn in *; [congruence|exact Logic.I|exact Logic.I]. Qed.
Lemma queue_goc_task w t : queue (get_or_create_task_node w t) = queue w. Proof. unfold get_or_create_task_node. destruct (live _ _); reflexivity. Qed.
Lemma reserve_qsame w t : qsame w (reserve_require_dependency w t).
Proof.
  unfold reserve_require_dependency. destruct (cur w); [|reflexivity]. pose proof (proj2 (add_dependency_cq w (tn t0) (tn t) DReserved)) as X.
  destruct (add_dependency w (tn t0) (tn t) DReserved) as [[| |] w']; cbn in *; [exact X|exact Logic.I|exact Logic.I].
Qed.
Lemma update_qsame w t c st : qsame w (update_require_dependency w t c st).
Proof. unfold update_require_dependency. destruct (cur w); [|reflexivity]. destruct (get_edata _ _ _); [reflexivity|exact Logic.I]. Qed.
Lemma exec_prog_qsame req : (forall w t c, qsame w (req w t c)) -> forall p w, qsame w (exec_prog RC OC req p w).
Proof.
  intros HR. induction p as [o| |x c k IH|r c k IH|r c v k IH|r c v k IH]; intros w; cbn [exec_prog]; [reflexivity|exact Logic.I| | | |].
  - apply bind_qsame; [apply HR|intros; apply IH].
  - apply bind_qsame; [pose proof (sess_read_q RC w r c) as X; destruct (sess_read RC w r c); cbn in *; [exact X|exact Logic.I|exact Logic.I]|intros; apply IH].
  - apply bind_qsame; [pose proof (sess_write_q RC w r c v) as X; destruct (sess_write RC w r c v); cbn in *; [exact X|exact Logic.I|exact Logic.I]|intros; apply IH].
  - apply bind_qsame; [pose proof (sess_written_to_q RC w r c v) as X; destruct (sess_written_to RC w r c v); cbn in *; [exact X|exact Logic.I|exact Logic.I]|intros; apply IH].
Qed.
Lemma execute_with_qsame req w t : (forall w0 t0 c, qsame w0 (req w0 t0 c)) -> qsame w (execute_with RC OC P req w t).
Proof.
  intros HR. unfold execute_with. pose proof (exec_prog_qsame req HR (P t) (emit (set_cur (reset_task w t) (Some t)) (EExecStart t))) as X.
  destruct (exec_prog RC OC req (P t) _) as [o w3|k w3|]; cbn [bind qsame] in *; [exact X|exact Logic.I|exact Logic.I].
Qed.
Lemma require_with_qsame mc0 w t c : (forall w0 t0, qsame w0 (mc0 w0 t0)) -> qsame w (require_with OC mc0 w t c).
Proof.
  intros HM. unfold require_with. set (w2 := get_or_create_task_node (emit w (ERequireStart t c)) t).
  assert (Q2 : queue w2 = queue w) by (unfold w2; rewrite queue_goc_task; reflexivity).
  pose proof (reserve_qsame w2 t) as X. destruct (reserve_require_dependency w2 t) as [[] w3|k w3|]; cbn [bind qsame] in *; [|exact Logic.I|exact Logic.I].
  pose proof (HM w3 t) as Y. destruct (mc0 w3 t) as [o w4|k w4|]; cbn [bind qsame] in *; [|exact Logic.I|exact Logic.I].
  pose proof (update_qsame (emit w4 (ERequireEnd t c (oc_stamp (OC c) o) o)) t c (oc_stamp (OC c) o)) as Z.
  destruct (update_require_dependency _ _ _ _) as [[] w6|k w6|]; cbn [bind qsame] in *; [|exact Logic.I|exact Logic.I].
  change (queue (emit w4 (ERequireEnd t c (oc_stamp (OC c) o) o))) with (queue w4) in Z. congruence.
Qed.
Lemma check_deps_qsame mc0 : (forall w0 t0, qsame w0 (mc0 w0 t0)) -> forall ds w, qsame w (check_deps RC OC mc0 ds w).
Proof.
  intros HM. induction ds as [|d tl IH]; intros w; cbn [check_deps]; [reflexivity|].
  destruct d as [[|t c st|r c st|r c st]|]; try exact Logic.I.
  - apply (bind_qsame (emit w (ECheckTaskStart t c st))); [apply HM|]. intros o w2 Q2. destruct (oc_check (OC c) o st); [|cbn; reflexivity].
    exact (IH (emit w2 (ECheckTaskEnd t c st (negb true)))).
  - unfold check_resource_td. cbv zeta. destruct (rc_check _ _ _ _ _); [|reflexivity|reflexivity].
    exact (IH (emit (emit w (ECheckResStart r c st)) (ECheckResEnd r c st Consistent))).
  - unfold check_resource_td. cbv zeta. destruct (rc_check _ _ _ _ _); [|reflexivity|reflexivity].
    exact (IH (emit (emit w (ECheckResStart r c st)) (ECheckResEnd r c st Consistent))).
Qed.
Theorem mc_qsame f : forall w t, qsame w (mc f w t).
Proof.
  induction f as [|f IH]; intros w t; cbn [make_consistent_td]; [exact Logic.I|].
  set (w0 := get_or_create_task_node w t). assert (Q0 : queue w0 = queue w) by apply queue_goc_task.
  destruct (memN t (consistent w0)); [destruct (get_task_output w0 t); [exact Q0|exact Logic.I]|].
  assert (HRq : forall w1 t1 c, qsame w1 (require_with OC (mc f) w1 t1 c)) by (intros; apply require_with_qsame; exact IH).
  assert (EX : forall w1, queue w1 = queue w -> qsame w (bind (execute_with RC OC P (require_with OC (mc f)) w1 t) (fun o w2 => Done o (mark_consistent w2 t)))).
  { intros w1 Q1. pose proof (execute_with_qsame (require_with OC (mc f)) w1 t HRq) as X.
    destruct (execute_with RC OC P (require_with OC (mc f)) w1 t) as [o w2|k w2|]; cbn [bind qsame] in *; [change (queue w2 = queue w); congruence|exact Logic.I|exact Logic.I]. }
  destruct (get_task_output w0 t); [|apply EX; exact Q0].
  pose proof (check_deps_qsame (mc f) IH (deps_of_task w0 t) w0) as X.
  destruct (check_deps RC OC (mc f) (deps_of_task w0 t) w0) as [ok w1|k w1|]; cbn [bind qsame] in *; [|exact Logic.I|exact Logic.I].
  destruct (if ok then get_task_output w1 t else None); [change (queue w1 = queue w); congruence|apply EX; congruence].
Qed.
Lemma require_with_T f : TMC f -> TREQ f (rqt f).
Proof.
  intros HM F w x c s HB0 Hc Ho Hn Hxf HF [HO [Qe [HFo HP]]]. unfold rqt, require_with.
  set (w1 := emit w (ERequireStart x c)). set (w2 := get_or_create_task_node w1 x).
  assert (C2 : cur w2 = Some s) by (unfold w2, get_or_create_task_node; destruct (live _ _); exact Hc).
  unfold reserve_require_dependency. rewrite C2.
  destruct (add_dependency w2 (tn s) (tn x) DReserved) as [ar w3] eqn:E.
  destruct ar; cbn [bind okO]; [|exact Logic.I|exact Logic.I].
  destruct (reserve_B gen ord RC OC P sf w s x c w3 HB0 Hc Ho Hn E) as [B2 [QQ2 [B3 [C3 [Lt3 [R3 [EN [ED [ER [Co3 [T3 Qu3]]]]]]]]]]]. fold w1 w2 in B2, QQ2, EN, ED, Co3, T3, Qu3.
  pose proof (Om_qq gen w w2 QQ2 HO) as O2.
  pose proof (cur_opn gen ord RC OC P sf _ w2 s B2 C2) as Os2.
  assert (QK2 : qk w w2) by (eapply qk_trans; [apply (qk_emit w (ERequireStart x c)); reflexivity|apply qk_goc_task]).
  pose proof (Psi3_qk gen RC OC None None F w w2 QK2 HP) as P2.
  assert (Qe2 : queue w2 = []) by (unfold w2; rewrite queue_goc_task; exact Qe).
  assert (O3 : Om w3).
  { apply (Om_grow gen s w2 w3 Os2); [intros n Hn'; apply (proj1 (EN n Hn'))|intros m d Hm; apply (proj2 (EN m Hm))|exact Co3|rewrite T3; reflexivity|exact Qu3| |exact O2].
    intros y N. left. destruct N as [[c' [st' N]]|[r [dp [N [I E']]]]]; unfold row in N.
    - destruct (N.eq_dec (tn y) (tn x)) as [Ey|Ey]; [rewrite Ey, ER in N; discriminate|]. left. exists c', st'. unfold row. rewrite <- (ED _ Ey). exact N.
    - right. exists r, dp. split; [unfold row; rewrite <- (ED (rn r)); [exact N|intros X; symmetry in X; exact (tn_rn _ _ X)]|split; assumption]. }
  assert (KP3 : keep w2 w3) by (pose proof (keep_add_dependency w2 (tn s) (tn x) DReserved) as Y; rewrite E in Y; exact Y).
  assert (Ho2 : get_task_output w2 s = None) by (apply (open_no_output gen ord RC OC P sf _ w2 s B2 Os2)).
  assert (P3' : Psi3 None None F w3).
  { split; [apply (Psi_reserve RC OC None None s x w2 w3 Os2 Ho2 EN ED ER T3 Qu3 KP3); apply P2|].
    apply (ND_cur gen F s w2 w3 Ho2 (proj2 (proj2 KP3))); [rewrite T3; reflexivity| |apply P2].
    intros y d Hy. apply (proj2 (EN (tn y) ltac:(intros X; apply tn_inj in X; contradiction))). }
  assert (I3 : TInv F w3).
  { split; [exact O3|]. split; [rewrite Qu3; exact Qe2|]. split; [|exact P3']. intros t0 Ot. apply HFo. unfold opn in *. rewrite T3 in Ot.
    rewrite <- (proj1 (proj2 (proj2 QK2))). exact Ot. }
  pose proof (HM F (Some s) w3 x B3 Lt3 R3 Hxf I3) as MO. pose proof (BMCt f (Some s) w3 x B3 Lt3 R3) as MB.
  pose proof (HasOut.td_out RC OC P f w3 x) as MOut.
  destruct (mc f w3 x) as [o w4|k w4|]; cbn [bind okO OnceAll.okB outIs] in *; [|exact Logic.I|exact Logic.I].
  destruct MB as [B4 [C4 [_ [_ Op4]]]]. destruct MO as [[O4 [Qe4 [HF4 P4]]] Cx4].
  set (st := oc_stamp (OC c) o). set (w5 := emit w4 (ERequireEnd x c st o)).
  unfold update_require_dependency. change (cur w5) with (cur w4). rewrite C4, C3. change (gr w5) with (gr w4).
  destruct (get_edata (gr w4) (tn s) (tn x)) as [old|]; cbn [bind okO]; [|exact Logic.I].
  assert (Os4 : opn w4 s) by (unfold opn; rewrite Op4, T3; exact Os2).
  assert (Q5 : qk w4 w5) by (apply qk_emit; reflexivity).
  assert (QQ5 : qq w4 w5) by (apply qq_emit; reflexivity).
  pose proof (Psi3_qk gen RC OC None None F w4 w5 Q5 P4) as P5.
  assert (Os5 : opn w5 s) by (unfold opn; rewrite (proj1 (proj2 (proj2 Q5))); exact Os4).
  assert (Ho5 : get_task_output w5 s = None) by (change (get_task_output w4 s = None); apply (open_no_output gen ord RC OC P sf _ w4 s B4 Os4)).
  change (set_gr w5 (insert_edata (gr w4) (tn s) (tn x) (DRequire x c st))) with (set_gr w5 (insert_edata (gr w5) (tn s) (tn x) (DRequire x c st))).
  split; [apply Om_update; [exact Os5|exact Cx4|apply (Om_qq gen w4 w5 QQ5 O4)]|].
  split; [exact Qe4|]. split; [intros t0 Ot; apply HF4; exact Ot|].
  apply (Psi3_update None None F s x c o w5 Os5 Ho5 MOut P5).
Qed.

Theorem make_consistent_td_T : forall f, TMC f.
Proof.
  induction f as [|f IH]; intros F a w t HB0 Lt R Hf [HO [Qe [HFo HP]]]; [lia|].
  pose proof (BMCt (S f) a w t HB0 Lt R) as MB. pose proof (mc_qsame (S f) w t) as MQ.
  destruct (get_task_output w t) as [o0|] eqn:Ho.
  - (* a known task: pure re-validation *)
    assert (VX : ValidX RC OC (Xo w) w) by (apply (valid_of_Psi F w (B_S gen ord RC OC P sf _ w HB0) (proj1 (proj2 (proj2 HB0))) Qe HFo HP)).
    assert (Ht : In t (Xo w)) by (apply Xo_in; rewrite Ho; discriminate).
    destruct (idem_mc gen ord RC OC P (S f) (Xo w) w t VX Ht (B_S gen ord RC OC P sf _ w HB0) (proj1 (proj2 (proj2 HB0))) Hf) as [o' [w' [E [_ [Qt Hc']]]]].
    pose proof (idem2_mc (S f) (Xo w) w t VX Ht (B_S gen ord RC OC P sf _ w HB0) (proj1 (proj2 (proj2 HB0))) Hf o' w' E) as HMk.
    pose proof (td_marks (S f) w t o' w' E) as Ct.
    rewrite E in *. cbn [okO OnceAll.okB qsame] in *. destruct MB as [B' [_ [_ [_ Op']]]].
    split; [|exact Ct]. split; [apply (Om_revalidated w w' (B_S gen ord RC OC P sf _ w HB0) (B_V gen ord RC OC P sf _ w HB0) Qe VX Qt Op' MQ HMk HO)|].
    split; [rewrite MQ; exact Qe|]. split; [intros t0; unfold opn; rewrite Op'; apply HFo|apply (Psi3_revalidated None None F w w' Qt Op' MQ HP)].
  - (* a new task: execute it *)
    cbn [make_consistent_td] in *. set (w0 := get_or_create_task_node w t) in *.
    assert (QQ0 : qq w w0) by apply qq_goc_task. assert (QK0 : qk w w0) by apply qk_goc_task.
    assert (Ho0 : get_task_output w0 t = None) by (unfold w0, get_or_create_task_node; destruct (live _ _); exact Ho).
    destruct (memN t (consistent w0)); [rewrite Ho0; exact Logic.I|]. rewrite Ho0 in *.
    assert (L0 : L w0) by (apply goc_task_L; apply HB0).
    assert (B0 : B a w0).
    { destruct HB0 as [Hw [Kw [Hq Hh]]]. split; [eapply lv_VPre; [apply lv_goc_task|exact L0|exact Hw]|]. split; [apply (lv_geq_K RC OC P sf w); [apply lv_goc_task|apply geq_goc_task|exact Kw]|].
      split; [apply (geq_Q gen ord w); [apply geq_goc_task|exact Hq]|apply (HB_hq w); [apply hq_goc_task|exact Hh]]. }
    assert (I0 : TInv F w0).
    { split; [apply (Om_qq gen w w0 QQ0 HO)|]. split; [unfold w0; rewrite queue_goc_task; exact Qe|]. split; [|apply (Psi3_qk gen RC OC None None F w w0 QK0 HP)].
      intros t0; unfold opn; rewrite (proj1 (proj2 (proj2 QK0))); apply HFo. }
    assert (R0 : reach a w0 t) by (eapply reach_kgrow; [exact R|apply (proj1 (lv_goc_task w t))]).
    pose proof (execute_with_T f a w0 t F (require_with_T f IH) ltac:(lia) B0 (live_goc_task w t) R0 Ho0 I0) as X.
    pose proof (BEXt f a w0 t B0 (live_goc_task w t) R0) as XB.
    fold (rqt f) in *.
    destruct (execute_with RC OC P (rqt f) w0 t) as [o w2|k w2|]; cbn [bind okO OnceAll.okB] in *; [|exact Logic.I|exact Logic.I].
    destruct X as [[O2 [Qe2 [HF2 P2]]] [Fin2 Out2]].
    split; [|apply isC_mark; left; reflexivity]. split; [apply Om_mark; assumption|]. split; [exact Qe2|]. split; [exact HF2|apply (Psi3_qk gen RC OC None None F w2); [apply qk_mark|exact P2]].
Qed.
(* ---- sessions and histories ---- *)
Variable always : ocid.
Notation NoF := (fun _ : task => False).

Lemma TInv_AllValid w : opens (trace w) = [] -> TInv NoF w -> AllValid w.
Proof.
  intros Op [_ [Qe [_ [[HT _] _]]]] x Ox d dp R. destruct (HT x ltac:(discriminate) Ox d dp R) as [G|[G|G]]; [exact G|rewrite Qe in G; destruct G|exfalso].
  destruct dp as [|y c st|r c st|r c st]; cbn [DepExc] in G; try contradiction; unfold opn in G; rewrite Op in G.
  - destruct G as [[]|G]; discriminate.
  - destruct G as [g [[[]|G] _]]. discriminate.
Qed.
Lemma AllValid_TInv w : consistent w = [] -> opens (trace w) = [] -> queue w = [] -> AllValid w -> TInv NoF w.
Proof.
  intros Cs Op Qe AV. split; [|split; [exact Qe|split; [intros t Ot; unfold opn in Ot; rewrite Op in Ot; destruct Ot|]]].
  - split; [|split]; [intros c x Hc; unfold isC in Hc; rewrite Cs in Hc; discriminate|intros x y Ox; unfold opn in Ox; rewrite Op in Ox; destruct Ox|intros x Ox; unfold opn in Ox; rewrite Op in Ox; destruct Ox].
  - split; [split|intros t []]; [intros x _ Ox d dp R; left; exact (AV x Ox d dp R)|intros t Ot; unfold opn in Ot; rewrite Op in Ot; destruct Ot].
Qed.

Lemma session_require_T fuel w t : VS w -> K w -> Q w -> HB w -> (ord t < fuel)%nat -> TInv NoF w ->
  okO (session_require RC OC P always fuel w t) (fun _ w' => TInv NoF w').
Proof.
  intros [[Hw Hc] HV] Kw Hq Hh Hf [HO [Qe [HFo HP]]]. unfold session_require, require_td, require_with.
  set (w1 := emit (set_cur w None) EBuildStart).
  assert (QQ1 : qq w w1) by (eapply qq_trans; [apply (qq_same w (set_cur w None)); try reflexivity; trivial|apply qq_emit; reflexivity]).
  assert (QK1 : qk w w1) by (eapply qk_trans; [apply (qk_same w (set_cur w None)); try reflexivity; trivial|apply qk_emit; reflexivity]).
  set (w2 := get_or_create_task_node (emit w1 (ERequireStart t always)) t).
  assert (QQ2 : qq w w2) by (eapply qq_trans; [exact QQ1|]; eapply qq_trans; [apply (qq_emit w1 (ERequireStart t always)); reflexivity|apply qq_goc_task]).
  assert (QK2 : qk w w2) by (eapply qk_trans; [exact QK1|]; eapply qk_trans; [apply (qk_emit w1 (ERequireStart t always)); reflexivity|apply qk_goc_task]).
  assert (C2 : cur w2 = None) by (unfold w2, get_or_create_task_node; destruct (live _ _); reflexivity).
  unfold reserve_require_dependency. rewrite C2. cbn [bind].
  assert (Q1l : lv w w2).
  { eapply lv_trans; [apply (lv_same w (set_cur w None)); try reflexivity; [cbn; symmetry; exact Hc|trivial]|].
    eapply lv_trans; [apply (lv_emit (set_cur w None) EBuildStart); reflexivity|]. eapply lv_trans; [apply (lv_emit w1 (ERequireStart t always)); reflexivity|apply lv_goc_task]. }
  assert (L2 : L w2) by (apply goc_task_L; apply L_emit; apply L_emit, L_set_cur_none; apply Hw).
  assert (B2 : B None w2).
  { split; [eapply lv_VPre; [exact Q1l|exact L2|split; assumption]|]. split; [apply (lv_geq_K RC OC P sf w); [exact Q1l|apply QQ2|exact Kw]|].
    split; [apply (geq_Q gen ord w); [apply QQ2|exact Hq]|apply (HB_hq w); [|exact Hh]].
    eapply hq_trans; [apply (hq_same w (set_cur w None)); reflexivity|]. eapply hq_trans; [apply (hq_emit (set_cur w None) EBuildStart); reflexivity|].
    eapply hq_trans; [apply (hq_emit w1 (ERequireStart t always)); reflexivity|apply hq_goc_task]. }
  assert (I2 : TInv NoF w2).
  { split; [apply (Om_qq gen w w2 QQ2 HO)|]. split; [unfold w2; rewrite queue_goc_task; exact Qe|]. split; [|apply (Psi3_qk gen RC OC None None NoF w w2 QK2 HP)].
    intros t0; unfold opn; rewrite (proj1 (proj2 (proj2 QK2))); apply HFo. }
  pose proof (make_consistent_td_T fuel NoF None w2 t B2 (live_goc_task _ t) ltac:(intros c X; discriminate) Hf I2) as MO.
  pose proof (BMCt fuel None w2 t B2 (live_goc_task _ t) ltac:(intros c X; discriminate)) as MB.
  destruct (mc fuel w2 t) as [o w4|k w4|]; cbn [bind okO OnceAll.okB] in *; [|exact Logic.I|exact Logic.I].
  destruct MB as [B4 [C4 _]]. destruct MO as [[O4 [Qe4 [HF4 P4]]] _].
  unfold update_require_dependency. cbn [cur emit]. rewrite C4, C2. cbn [bind okO].
  set (w5 := emit (emit w4 (ERequireEnd t always (oc_stamp (OC always) o) o)) EBuildEnd).
  assert (QQ5 : qq w4 w5) by (eapply qq_trans; apply qq_emit; reflexivity).
  assert (QK5 : qk w4 w5) by (eapply qk_trans; apply qk_emit; reflexivity).
  split; [apply (Om_qq gen w4 w5 QQ5 O4)|]. split; [exact Qe4|]. split; [|apply (Psi3_qk gen RC OC None None NoF w4 w5 QK5 P4)].
  intros t0; unfold opn; rewrite (proj1 (proj2 (proj2 QK5))); apply HF4.
Qed.

(* AllValid is kept by every session of top-down requires (known tasks are re-validated, new tasks are built) *)
Theorem requires_keep_AllValid fuel h ops :
  let wh := snd (run_history RC OC P always fuel init_world h) in
  AllValid wh -> roots_below ord fuel ops ->
  AllValid (snd (run_history RC OC P always fuel init_world (h ++ [HSession ops]))).
Proof.
  intros wh AV RB. rewrite (run_history_app RC OC P always fuel h init_world [HSession ops]). fold wh. cbn [run_history run_step].
  destruct (run_history_HBs gen wck ord RC OC P sf HS HWF HWO always fuel h init_world) as [Jh [Kh [Qh Hh]]]; [split; [apply L_init|intros x d X; discriminate]|apply K_init|apply Q_init|apply HBs_init|].
  fold wh in Jh, Kh, Qh, Hh. set (w := new_session wh).
  assert (VSw : VS w) by (apply VS_new_session; exact Jh).
  assert (Kw : K w) by (apply (geq_K RC OC P sf wh); [apply geq_same; reflexivity|reflexivity|exact Kh]).
  assert (Qw : Q w) by (apply (Q_same gen ord wh); [reflexivity|exact Qh]).
  assert (Hhw : HB w) by (apply HBs_new_session; exact Hh).
  assert (I0 : TInv NoF w) by (apply AllValid_TInv; try reflexivity; exact AV).
  assert (Gen : forall ops0 w0, roots_below ord fuel ops0 -> VS w0 -> K w0 -> Q w0 -> HB w0 -> TInv NoF w0 ->
            let v := snd (run_session RC OC P always fuel w0 ops0) in TInv NoF v /\ opens (trace v) = []).
  { induction ops0 as [|o tl IH]; intros w0 RB0 V0 K0 Q0 H0 T0; cbn [run_session]; [split; [exact T0|apply VS_opens; exact V0]|].
    destruct o as [t|ch]; [|destruct RB0]. destruct RB0 as [Hf RB0]. cbn [run_sop].
    pose proof (NoBugAll.session_require_V RC OC P always fuel w0 t V0) as Y. pose proof (CertAll.session_require_Q RC OC P sf HS HNR always fuel w0 t V0 K0) as Z.
    pose proof (NoAbortAll.session_require_A gen wck ord RC OC P sf HS HWF HWO always fuel w0 t V0 K0 Q0) as A0.
    pose proof (HasOut.session_require_H RC OC P always fuel w0 t (proj1 (proj1 (proj1 V0))) H0) as HH.
    pose proof (session_require_T fuel w0 t V0 K0 Q0 H0 Hf T0) as TT0.
    destruct (session_require RC OC P always fuel w0 t) as [x w'|k w'|]; cbn in *; [|contradiction|split; [exact T0|apply VS_opens; exact V0]].
    specialize (IH w' RB0 Y Z A0 HH TT0). destruct (run_session RC OC P always fuel w' tl) as [rs w'']. exact IH. }
  destruct (Gen ops w RB VSw Kw Qw Hhw I0) as [TI Op]. destruct (run_session RC OC P always fuel w ops) as [rs v]. cbn [snd] in *.
  apply TInv_AllValid; assumption.
Qed.
End TV.

(* C17: the tracker stream of every top-down require and every bottom-up build is properly nested -- for all programs,
   checkers, worlds and fuel.  A Done outcome extends the stream by a balanced segment; an Abort outcome by a prefix of one.
   A read/write whose stamping failed leaves a start that is never closed (the code emits no end for it): such a dangling
   ReadStart/WriteStart counts as an atom. *)
From Coq Require Import List NArith ZArith Bool Lia.
From PieV Require Import Model.Dag Model.Build.
Import ListNotations.
Open Scope N_scope.

Definition matching (s e : event) : bool :=
  match s, e with
  | EBuildStart, EBuildEnd => true
  | ERequireStart t c, ERequireEnd t' c' _ _ => N.eqb t t' && N.eqb c c'
  | EReadStart r c, EReadEnd r' c' _ => N.eqb r r' && N.eqb c c'
  | EWriteStart r c, EWriteEnd r' c' _ => N.eqb r r' && N.eqb c c'
  | ECheckTaskStart t c st, ECheckTaskEnd t' c' st' _ => N.eqb t t' && N.eqb c c' && Z.eqb st st'
  | ECheckResStart r c st, ECheckResEnd r' c' st' _ => N.eqb r r' && N.eqb c c' && Z.eqb st st'
  | EExecStart t, EExecEnd t' _ => N.eqb t t'
  | ESchedByTaskStart t, ESchedByTaskEnd t' => N.eqb t t'
  | ECheckReqTaskStart t c st, ECheckReqTaskEnd t' c' st' _ => N.eqb t t' && N.eqb c c' && Z.eqb st st'
  | ESchedByResStart r, ESchedByResEnd r' => N.eqb r r'
  | ECheckReadResStart t c st, ECheckReadResEnd t' c' st' _ => N.eqb t t' && N.eqb c c' && Z.eqb st st'
  | _, _ => false
  end.
Definition atom (e : event) : bool :=
  match e with ESchedTask _ | EReadStart _ _ | EWriteStart _ _ => true | _ => false end.

Inductive balanced : list event -> Prop :=
| bal_nil : balanced []
| bal_atom e : atom e = true -> balanced [e]
| bal_wrap s body e : matching s e = true -> balanced body -> balanced (s :: body ++ [e])
| bal_app a b : balanced a -> balanced b -> balanced (a ++ b).
Definition pbal (tr : list event) : Prop := exists rest, balanced (tr ++ rest).

Lemma balanced_pbal tr : balanced tr -> pbal tr.
Proof. intros H. exists []. rewrite app_nil_r. exact H. Qed.
Lemma pbal_app_l a b : balanced a -> pbal b -> pbal (a ++ b).
Proof. intros Ha [r Hr]. exists r. rewrite <- app_assoc. apply bal_app; assumption. Qed.
(* an open bracket followed by a prefix of a balanced body is a prefix of a balanced stream, for every start event *)
Lemma pbal_open s b : (exists e, matching s e = true) -> pbal b -> pbal (s :: b).
Proof. intros [e He] [r Hr]. exists (r ++ [e]). cbn. rewrite app_assoc. apply bal_wrap; assumption. Qed.

(* the stream of w' extends the stream of w by the chronological segment seg (streams are stored newest first) *)
Definition ext (w w' : world) (seg : list event) : Prop := trace w' = rev seg ++ trace w.
Lemma ext_refl w : ext w w []. Proof. reflexivity. Qed.
Lemma ext_trans w1 w2 w3 a b : ext w1 w2 a -> ext w2 w3 b -> ext w1 w3 (a ++ b).
Proof. unfold ext. intros H1 H2. rewrite H2, H1, rev_app_distr, app_assoc. reflexivity. Qed.
Lemma ext_emit w e : ext w (emit w e) [e]. Proof. reflexivity. Qed.
Lemma ext_same w w' : trace w' = trace w -> ext w w' []. Proof. intros H. exact H. Qed.

Definition okD {A} (w : world) (m : outcome A) : Prop :=
  match m with
  | Done _ w' => exists seg, ext w w' seg /\ balanced seg
  | Abort _ w' => exists seg, ext w w' seg /\ pbal seg
  | OutOfFuel => True
  end.

Lemma okD_done {A} w (a : A) w' seg : ext w w' seg -> balanced seg -> okD w (Done a w').
Proof. intros H B. exists seg. split; assumption. Qed.
Lemma okD_abort {A} w k w' seg : ext w w' seg -> pbal seg -> okD w (@Abort A k w').
Proof. intros H B. exists seg. split; assumption. Qed.

(* sequencing: a balanced prefix followed by anything ok *)
Lemma okD_pre {A} w w1 seg (m : outcome A) : ext w w1 seg -> balanced seg -> okD w1 m -> okD w m.
Proof.
  intros H B M. destruct m as [a w2|k w2|]; cbn in *; [| |exact I].
  - destruct M as [s2 [E2 B2]]. exists (seg ++ s2). split; [eapply ext_trans; eassumption|apply bal_app; assumption].
  - destruct M as [s2 [E2 B2]]. exists (seg ++ s2). split; [eapply ext_trans; eassumption|apply pbal_app_l; assumption].
Qed.
Lemma okD_bind {A B} w (m : outcome A) (f : A -> world -> outcome B) :
  okD w m -> (forall a w1, okD w1 (f a w1)) -> okD w (bind m f).
Proof.
  intros M F. destruct m as [a w1|k w1|]; cbn in *; [|exact M|exact I].
  destruct M as [seg [E B']]. eapply okD_pre; [exact E|exact B'|apply F].
Qed.
(* bracket: start event, a computation, then (on Done) the matching end event followed by any well-behaved tail *)
Lemma okD_bracket {A B} w s (m : outcome A) (e : A -> event) (tailf : A -> world -> outcome B) :
  (forall a, matching s (e a) = true) -> (exists e0, matching s e0 = true) ->
  okD (emit w s) m ->
  (forall a w1, okD (emit w1 (e a)) (tailf a (emit w1 (e a)))) ->
  okD w (bind m (fun a w1 => tailf a (emit w1 (e a)))).
Proof.
  intros Hm Hex M T. destruct m as [a w1|k w1|]; cbn in *; [| |exact I].
  - destruct M as [seg [E Bs]].
    assert (X : ext w (emit w1 (e a)) (s :: seg ++ [e a])).
    { unfold ext in *. cbn [trace emit] in *. rewrite E. cbn. rewrite rev_app_distr. cbn. rewrite <- app_assoc. reflexivity. }
    assert (Y : balanced (s :: seg ++ [e a])) by (apply bal_wrap; [apply Hm|exact Bs]).
    eapply okD_pre; [exact X|exact Y|apply T].
  - destruct M as [seg [E Bs]]. exists (s :: seg). split.
    + unfold ext in *. cbn [trace emit] in *. rewrite E. cbn. rewrite <- app_assoc. reflexivity.
    + apply pbal_open; assumption.
Qed.

Lemma okD_quiet {A} w (m : outcome A) :
  match m with Done _ w' | Abort _ w' => trace w' = trace w | OutOfFuel => True end -> okD w m.
Proof.
  destruct m as [a w'|k w'|]; cbn; intros H; [| |exact I].
  - exists []. split; [exact H|constructor].
  - exists []. split; [exact H|apply balanced_pbal; constructor].
Qed.
(* okD only depends on the stream of the starting world *)
Lemma okD_start {A} w w0 (m : outcome A) : trace w0 = trace w -> okD w0 m -> okD w m.
Proof. intros H M. destruct m as [a w'|k w'|]; cbn in *; try exact I; destruct M as [seg [E B']]; exists seg; (split; [|exact B']); unfold ext in *; rewrite E, H; reflexivity. Qed.

Section T.
Variable RC : rcid -> rchecker.
Variable OC : ocid -> ochecker.
Variable P : task -> prog.

(* primitives that emit nothing *)
Lemma trace_goc_task w t : trace (get_or_create_task_node w t) = trace w.
Proof. unfold get_or_create_task_node. destruct (live _ _); reflexivity. Qed.
Lemma trace_goc_res w r : trace (get_or_create_resource_node w r) = trace w.
Proof. unfold get_or_create_resource_node. destruct (live _ _); reflexivity. Qed.
Lemma trace_add_dependency w s d dp : trace (snd (add_dependency w s d dp)) = trace w.
Proof. unfold add_dependency. destruct (add_edge _ _ _ _) as [[b|[|]|] g']; reflexivity. Qed.
Lemma trace_reserve w t : match reserve_require_dependency w t with Done _ w' | Abort _ w' => trace w' = trace w | OutOfFuel => True end.
Proof.
  unfold reserve_require_dependency. destruct (cur w); [|reflexivity].
  pose proof (trace_add_dependency w (tn t0) (tn t) DReserved) as X. destruct (add_dependency _ _ _ _) as [[| |] w']; exact X.
Qed.
Lemma trace_update w t c st : match update_require_dependency w t c st with Done _ w' | Abort _ w' => trace w' = trace w | OutOfFuel => True end.
Proof. unfold update_require_dependency. destruct (cur w); [|reflexivity]. destruct (get_edata _ _ _); reflexivity. Qed.
Lemma trace_set_content w r v : trace (set_content w r v) = trace w. Proof. destruct v; reflexivity. Qed.
Lemma trace_queue_add w t : trace (queue_add w t) = trace w. Proof. unfold queue_add. destruct (memN _ _); reflexivity. Qed.

Lemma okD_same {A} w (a : A) w' : trace w' = trace w -> okD w (Done a w').
Proof. intros H. eapply okD_done; [apply ext_same; exact H|constructor]. Qed.
Lemma okD_abort_same {A} w k w' : trace w' = trace w -> okD w (@Abort A k w').
Proof. intros H. eapply okD_abort; [apply ext_same; exact H|apply balanced_pbal; constructor]. Qed.

(* ---- read / write ---- *)
Lemma sess_read_okD w r c : okD w (sess_read RC w r c).
Proof.
  unfold sess_read. destruct (cur w) as [t|]; [|apply okD_same; reflexivity].
  set (w2 := get_or_create_resource_node (emit w (EReadStart r c)) r).
  assert (E2 : ext w w2 [EReadStart r c]) by (unfold ext, w2; rewrite trace_goc_res; reflexivity).
  destruct (hidden_read_check w2 t r).
  - eapply okD_abort; [exact E2|]. apply balanced_pbal. apply bal_atom. reflexivity.
  - destruct (rc_stamp _ _ _ _) as [st|e].
    + pose proof (trace_add_dependency (emit w2 (EReadEnd r c st)) (tn t) (rn r) (DRead r c st)) as X.
      assert (Bl : balanced ([EReadStart r c] ++ [EReadEnd r c st])).
      { apply (bal_wrap (EReadStart r c) [] (EReadEnd r c st)); [cbn; rewrite !N.eqb_refl; reflexivity|constructor]. }
      assert (E3 : forall w4, trace w4 = trace (emit w2 (EReadEnd r c st)) -> ext w w4 ([EReadStart r c] ++ [EReadEnd r c st])).
      { intros w4 H. unfold ext in *. rewrite H. cbn [trace emit]. rewrite E2. reflexivity. }
      destruct (add_dependency _ _ _ _) as [[| |] w4]; cbn [snd] in X.
      * eapply okD_done; [apply E3; exact X|exact Bl].
      * eapply okD_done; [apply E3; exact X|exact Bl].
      * eapply okD_abort; [apply E3; exact X|apply balanced_pbal; exact Bl].
    + eapply okD_done; [exact E2|apply bal_atom; reflexivity].
Qed.

Lemma write_tail_okD w w2 t r c (wv : world) :
  ext w w2 [EWriteStart r c] -> trace wv = trace w2 ->
  okD w (match rc_stamp (RC c) (env wv) r (get_content wv r) with
         | inr e => Done (inr e) wv
         | inl st =>
           match add_dependency (emit wv (EWriteEnd r c st)) (tn t) (rn r) (DWrite r c st) with
           | (AddBug, w5) => Abort (ABug 4) w5
           | (_, w5) => Done (inl tt) w5
           end
         end : outcome (unit + Z)).
Proof.
  intros E2 Hv. destruct (rc_stamp _ _ _ _) as [st|e].
  - pose proof (trace_add_dependency (emit wv (EWriteEnd r c st)) (tn t) (rn r) (DWrite r c st)) as X.
    assert (Bl : balanced ([EWriteStart r c] ++ [EWriteEnd r c st])).
    { apply (bal_wrap (EWriteStart r c) [] (EWriteEnd r c st)); [cbn; rewrite !N.eqb_refl; reflexivity|constructor]. }
    assert (E3 : forall w5, trace w5 = trace (emit wv (EWriteEnd r c st)) -> ext w w5 ([EWriteStart r c] ++ [EWriteEnd r c st])).
    { intros w5 H. unfold ext in *. rewrite H. cbn [trace emit]. rewrite Hv, E2. reflexivity. }
    destruct (add_dependency _ _ _ _) as [[| |] w5]; cbn [snd] in X.
    + eapply okD_done; [apply E3; exact X|exact Bl].
    + eapply okD_done; [apply E3; exact X|exact Bl].
    + eapply okD_abort; [apply E3; exact X|apply balanced_pbal; exact Bl].
  - eapply okD_done; [unfold ext in *; rewrite Hv; exact E2|apply bal_atom; reflexivity].
Qed.

Lemma sess_write_okD w r c v : okD w (sess_write RC w r c v).
Proof.
  unfold sess_write. destruct (cur w) as [t|]; [|apply okD_same; apply trace_set_content].
  set (w2 := get_or_create_resource_node (emit w (EWriteStart r c)) r).
  assert (E2 : ext w w2 [EWriteStart r c]) by (unfold ext, w2; rewrite trace_goc_res; reflexivity).
  destruct (validate_write w2 t r).
  - eapply okD_abort; [exact E2|]. apply balanced_pbal. apply bal_atom. reflexivity.
  - apply (write_tail_okD w w2 t r c (set_content w2 r v) E2). apply trace_set_content.
Qed.

Lemma sess_written_to_okD w0 r c v : okD w0 (sess_written_to RC w0 r c v).
Proof.
  unfold sess_written_to. set (w := set_content w0 r v).
  assert (T0 : trace w = trace w0) by apply trace_set_content.
  destruct (cur w) as [t|]; [|apply okD_same; exact T0].
  set (w2 := get_or_create_resource_node (emit w (EWriteStart r c)) r).
  assert (E2 : ext w0 w2 [EWriteStart r c]) by (unfold ext, w2; rewrite trace_goc_res; cbn [trace emit]; rewrite T0; reflexivity).
  destruct (validate_write w2 t r).
  - eapply okD_abort; [exact E2|]. apply balanced_pbal. apply bal_atom. reflexivity.
  - apply (write_tail_okD w0 w2 t r c w2 E2). reflexivity.
Qed.

(* ---- task bodies, execution, require, validation ---- *)
Lemma exec_prog_okD req :
  (forall w t c, okD w (req w t c)) -> forall p w, okD w (exec_prog RC OC req p w).
Proof.
  intros Hreq. induction p as [o| |t c k IH|r c k IH|r c v k IH|r c v k IH]; intros w; cbn [exec_prog].
  - apply okD_same. reflexivity.
  - apply okD_abort_same. reflexivity.
  - apply okD_bind; [apply Hreq|]. intros o w'. apply IH.
  - apply okD_bind; [apply sess_read_okD|]. intros x w'. apply IH.
  - apply okD_bind; [apply sess_write_okD|]. intros x w'. apply IH.
  - apply okD_bind; [apply sess_written_to_okD|]. intros x w'. apply IH.
Qed.

Lemma execute_with_okD req w t :
  (forall w t c, okD w (req w t c)) -> okD w (execute_with RC OC P req w t).
Proof.
  intros Hreq. unfold execute_with.
  set (w1 := reset_task w t).
  apply (okD_start w (set_cur w1 (Some t))); [reflexivity|].
  apply (okD_bracket (set_cur w1 (Some t)) (EExecStart t) _ (fun o => EExecEnd t o)
           (fun o w' => Done o (set_task_output (set_cur w' (cur w1)) t o))).
  - intros o. cbn. apply N.eqb_refl.
  - exists (EExecEnd t 0%Z). cbn. apply N.eqb_refl.
  - apply exec_prog_okD. exact Hreq.
  - intros o w3. apply okD_quiet. reflexivity.
Qed.

Lemma require_with_okD mc w t c :
  (forall w t, okD w (mc w t)) -> okD w (require_with OC mc w t c).
Proof.
  intros Hmc. unfold require_with.
  set (w2 := get_or_create_task_node (emit w (ERequireStart t c)) t).
  assert (T2 : trace w2 = trace (emit w (ERequireStart t c))) by (unfold w2; apply trace_goc_task).
  pose proof (trace_reserve w2 t) as R. destruct (reserve_require_dependency w2 t) as [[] w3|k w3|]; cbn [bind]; [| |exact I].
  - apply (okD_bracket w (ERequireStart t c) (mc w3 t) (fun o => ERequireEnd t c (oc_stamp (OC c) o) o)
             (fun o w5 => bind (update_require_dependency w5 t c (oc_stamp (OC c) o)) (fun _ w6 => Done o w6))).
    + intros o. cbn. rewrite !N.eqb_refl. reflexivity.
    + exists (ERequireEnd t c 0%Z 0%Z). cbn. rewrite !N.eqb_refl. reflexivity.
    + apply (okD_start _ w3); [rewrite R, T2; reflexivity|apply Hmc].
    + intros o w1. apply okD_quiet.
      pose proof (trace_update (emit w1 (ERequireEnd t c (oc_stamp (OC c) o) o)) t c (oc_stamp (OC c) o)) as U.
      destruct (update_require_dependency _ t c _) as [[] w6|k w6|]; cbn; exact U.
  - exists [ERequireStart t c]. split; [unfold ext; rewrite R, T2; reflexivity|].
    apply pbal_open; [|apply balanced_pbal; constructor].
    exists (ERequireEnd t c 0%Z 0%Z). cbn. rewrite !N.eqb_refl. reflexivity.
Qed.

Lemma check_resource_okD w r c st :
  exists seg, ext w (snd (check_resource_td RC w r c st)) seg /\ balanced seg.
Proof.
  unfold check_resource_td. cbn [snd].
  exists ([ECheckResStart r c st] ++ [ECheckResEnd r c st (rc_check (RC c) (env w) r (get_content w r) st)]). split; [reflexivity|].
  apply (bal_wrap (ECheckResStart r c st) [] _); [cbn; rewrite !N.eqb_refl, Z.eqb_refl; reflexivity|constructor].
Qed.

Lemma check_deps_okD mc :
  (forall w t, okD w (mc w t)) -> forall ds w, okD w (check_deps RC OC mc ds w).
Proof.
  intros Hmc. induction ds as [|d tl IH]; intros w; cbn [check_deps]; [apply okD_quiet; reflexivity|].
  destruct d as [[|t c st|r c st|r c st]|]; try (apply okD_quiet; reflexivity).
  - apply (okD_bracket w (ECheckTaskStart t c st) (mc (emit w (ECheckTaskStart t c st)) t)
             (fun o => ECheckTaskEnd t c st (negb (oc_check (OC c) o st)))
             (fun o w3 => if oc_check (OC c) o st then check_deps RC OC mc tl w3 else Done false w3)).
    + intros o. cbn. rewrite !N.eqb_refl, Z.eqb_refl. reflexivity.
    + exists (ECheckTaskEnd t c st false). cbn. rewrite !N.eqb_refl, Z.eqb_refl. reflexivity.
    + apply Hmc.
    + intros o w1. destruct (oc_check (OC c) o st); [apply IH|apply okD_quiet; reflexivity].
  - destruct (check_resource_okD w r c st) as [seg [E B']].
    destruct (check_resource_td RC w r c st) as [[| |e] w1]; cbn [snd] in E.
    + eapply okD_pre; [exact E|exact B'|apply IH].
    + eapply okD_done; eassumption.
    + eapply okD_done; [|exact B']. exact E.
  - destruct (check_resource_okD w r c st) as [seg [E B']].
    destruct (check_resource_td RC w r c st) as [[| |e] w1]; cbn [snd] in E.
    + eapply okD_pre; [exact E|exact B'|apply IH].
    + eapply okD_done; eassumption.
    + eapply okD_done; [|exact B']. exact E.
Qed.

Theorem make_consistent_td_okD fuel : forall w t, okD w (make_consistent_td RC OC P fuel w t).
Proof.
  induction fuel as [|f IH]; intros w t; cbn [make_consistent_td]; [exact I|].
  set (w0 := get_or_create_task_node w t).
  apply (okD_start w w0); [unfold w0; apply trace_goc_task|].
  destruct (memN t (consistent w0)).
  - destruct (get_task_output w0 t); apply okD_quiet; reflexivity.
  - assert (Hreq : forall w t c, okD w (require_with OC (make_consistent_td RC OC P f) w t c)).
    { intros w' t' c'. apply require_with_okD. exact IH. }
    destruct (get_task_output w0 t).
    + apply okD_bind; [apply check_deps_okD; exact IH|]. intros ok w1.
      destruct (if ok then get_task_output w1 t else None).
      * apply okD_quiet. reflexivity.
      * apply okD_bind; [apply execute_with_okD; exact Hreq|]. intros o w2. apply okD_quiet. reflexivity.
    + apply okD_bind; [apply execute_with_okD; exact Hreq|]. intros o w2. apply okD_quiet. reflexivity.
Qed.

Theorem require_td_okD fuel w t c : okD w (require_td RC OC P fuel w t c).
Proof. unfold require_td. apply require_with_okD. apply make_consistent_td_okD. Qed.

Variable always : ocid.
(* a whole top-down build: BuildStart ... BuildEnd *)
Theorem session_require_okD fuel w t : okD w (session_require RC OC P always fuel w t).
Proof.
  unfold session_require.
  apply (okD_start w (set_cur w None)); [reflexivity|].
  apply (okD_bracket (set_cur w None) EBuildStart _ (fun _ => EBuildEnd) (fun o w2 => Done o w2)).
  - intros o. reflexivity.
  - exists EBuildEnd. reflexivity.
  - apply require_td_okD.
  - intros o w1. apply okD_quiet. reflexivity.
Qed.

(* ---- bottom-up ---- *)
Definition balW (w w' : world) : Prop := exists seg, ext w w' seg /\ balanced seg.
Lemma balW_refl w : balW w w. Proof. exists []. split; [reflexivity|constructor]. Qed.
Lemma balW_trans w1 w2 w3 : balW w1 w2 -> balW w2 w3 -> balW w1 w3.
Proof. intros [a [E1 B1]] [b [E2 B2]]. exists (a ++ b). split; [eapply ext_trans; eassumption|apply bal_app; assumption]. Qed.
Lemma balW_quiet w w' : trace w' = trace w -> balW w w'.
Proof. intros H. exists []. split; [exact H|constructor]. Qed.
Lemma balW_wrap w s w1 e : matching s e = true -> balW (emit w s) w1 -> balW w (emit w1 e).
Proof.
  intros M [seg [E B']]. exists (s :: seg ++ [e]). split; [|apply bal_wrap; assumption].
  unfold ext in *. cbn [trace emit] in *. rewrite E. cbn. rewrite rev_app_distr. cbn. rewrite <- app_assoc. reflexivity.
Qed.
Lemma balW_fold {X} (f : world -> X -> world) l : (forall w x, balW w (f w x)) -> forall w, balW w (fold_left f l w).
Proof. intros H. induction l as [|x tl IH]; intros w; cbn; [apply balW_refl|]. eapply balW_trans; [apply H|apply IH]. Qed.
Lemma okD_after w w1 {A} (m : outcome A) : balW w w1 -> okD w1 m -> okD w m.
Proof. intros [seg [E B']] M. eapply okD_pre; eassumption. Qed.

Lemma try_schedule_bal w t r c st : balW w (try_schedule RC w t r c st).
Proof.
  unfold try_schedule.
  set (x := rc_check (RC c) (env (emit w (ECheckReadResStart t c st))) r (get_content (emit w (ECheckReadResStart t c st)) r) st).
  assert (B1 : balW w (emit (emit w (ECheckReadResStart t c st)) (ECheckReadResEnd t c st x))).
  { apply (balW_wrap w (ECheckReadResStart t c st)); [cbn; rewrite !N.eqb_refl, Z.eqb_refl; reflexivity|apply balW_refl]. }
  destruct x.
  - exact B1.
  - eapply balW_trans; [exact B1|]. exists [ESchedTask t]. split; [unfold ext; rewrite trace_queue_add; reflexivity|apply bal_atom; reflexivity].
  - eapply balW_trans; [exact B1|]. exists [ESchedTask t]. split; [unfold ext; rewrite trace_queue_add; reflexivity|apply bal_atom; reflexivity].
Qed.
Lemma try_schedule_edge_bal b w p : balW w (try_schedule_edge RC b w p).
Proof.
  unfold try_schedule_edge. destruct (snd p) as [[| | |]|]; try apply balW_refl.
  - apply try_schedule_bal.
  - destruct b; [apply balW_refl|apply try_schedule_bal].
Qed.
Lemma schedule_tasks_affected_by_bal w r : balW w (schedule_tasks_affected_by RC w r).
Proof.
  unfold schedule_tasks_affected_by. apply (balW_wrap w (ESchedByResStart r)); [cbn; apply N.eqb_refl|].
  eapply balW_trans; [apply balW_quiet; apply trace_goc_res|]. apply balW_fold. intros w' p. apply try_schedule_edge_bal.
Qed.
Lemma schedule_after_bal w t o : balW w (schedule_after RC OC w t o).
Proof.
  unfold schedule_after.
  eapply balW_trans; [|apply balW_quiet; reflexivity].
  eapply balW_trans.
  - apply (balW_fold (schedule_by_written RC)). intros w' r. unfold schedule_by_written.
    apply (balW_wrap w' (ESchedByResStart r)); [cbn; apply N.eqb_refl|]. apply balW_fold. intros w'' p. apply try_schedule_edge_bal.
  - apply (balW_wrap _ (ESchedByTaskStart t)); [cbn; apply N.eqb_refl|].
    apply balW_fold. intros w' p. unfold schedule_requirer. destruct (snd p) as [[|t' c st| |]|]; try apply balW_refl.
    set (ok := oc_check (OC c) o st).
    assert (B1 : balW w' (emit (emit w' (ECheckReqTaskStart (un (fst p)) c st)) (ECheckReqTaskEnd (un (fst p)) c st (negb ok)))).
    { apply (balW_wrap w' (ECheckReqTaskStart (un (fst p)) c st)); [cbn; rewrite !N.eqb_refl, Z.eqb_refl; reflexivity|apply balW_refl]. }
    destruct ok; [exact B1|]. eapply balW_trans; [exact B1|].
    exists [ESchedTask (un (fst p))]. split; [unfold ext; rewrite trace_queue_add; reflexivity|apply bal_atom; reflexivity].
Qed.

Lemma require_bu_with_okD mc w t c : (forall w t, okD w (mc w t)) -> okD w (require_bu_with OC mc w t c).
Proof.
  intros Hmc. unfold require_bu_with. apply okD_bind; [apply require_with_okD; exact Hmc|]. intros o w'. apply okD_quiet. reflexivity.
Qed.

Lemma trace_queue_pop w t w' : queue_pop w = Some (t, w') -> trace w' = trace w.
Proof. unfold queue_pop. destruct (rev (sort_queue w)); [discriminate|]. intros H. inversion H. reflexivity. Qed.
Lemma trace_pop_least w s t w' : pop_least_from w s = Some (t, w') -> trace w' = trace w.
Proof. unfold pop_least_from. destruct (find _ _); [|discriminate]. intros H. inversion H. reflexivity. Qed.

Theorem bottom_up_okD fuel :
  (forall w t, okD w (bu_execute_and_schedule RC OC P fuel w t)) /\
  (forall w t, okD w (bu_make_consistent RC OC P fuel w t)) /\
  (forall w t, okD w (bu_require_scheduled_now RC OC P fuel w t)).
Proof.
  induction fuel as [|f [IH1 [IH2 IH3]]]; [repeat split; intros; exact I|].
  assert (Hreq : forall w t c, okD w (require_bu_with OC (bu_make_consistent RC OC P f) w t c)).
  { intros w t c. apply require_bu_with_okD. exact IH2. }
  repeat split; intros w t.
  - cbn [bu_execute_and_schedule]. apply okD_bind; [apply execute_with_okD; exact Hreq|].
    intros o w1. destruct (schedule_after_bal w1 t o) as [seg [E B']]. eapply okD_done; eassumption.
  - cbn [bu_make_consistent]. destruct (memN t (consistent w)).
    + destruct (get_task_output w t); apply okD_quiet; reflexivity.
    + destruct ((match get_task_output w t with None => true | Some _ => false end) && negb (memN t (queue w)))%bool;
        [apply execute_with_okD; exact Hreq|].
      apply okD_bind; [apply IH3|]. intros r w1. destruct r; [apply okD_quiet; reflexivity|].
      destruct (get_task_output w1 t); apply okD_quiet; reflexivity.
  - cbn [bu_require_scheduled_now]. destruct (queue w); [apply okD_quiet; reflexivity|].
    destruct (pop_least_from w t) as [[m w1]|] eqn:X; [|apply okD_quiet; reflexivity].
    apply (okD_start w w1); [apply (trace_pop_least _ _ _ _ X)|].
    apply okD_bind; [apply IH1|]. intros o w2. destruct (N.eqb m t); [apply okD_quiet; reflexivity|apply IH3].
Qed.

Theorem execute_scheduled_okD fuel : forall w, okD w (execute_scheduled RC OC P fuel w).
Proof.
  induction fuel as [|f IH]; intros w; cbn [execute_scheduled]; [exact I|].
  destruct (queue_pop w) as [[t w1]|] eqn:X; [|apply okD_quiet; reflexivity].
  apply (okD_start w w1); [apply (trace_queue_pop _ _ _ X)|].
  apply okD_bind; [apply (proj1 (bottom_up_okD f))|]. intros _ w2. apply IH.
Qed.

(* a whole bottom-up build: the scheduling brackets for the reported resources, then BuildStart ... BuildEnd *)
Theorem session_bottom_up_okD fuel w ch : okD w (session_bottom_up RC OC P fuel w ch).
Proof.
  unfold session_bottom_up.
  set (w1 := fold_left (schedule_tasks_affected_by RC) ch (set_queue w [])).
  assert (B1 : balW w w1).
  { apply (balW_trans w (set_queue w []) w1); [apply balW_quiet; reflexivity|]. apply balW_fold. intros w' r. apply schedule_tasks_affected_by_bal. }
  eapply okD_after; [exact B1|].
  apply (okD_start w1 (set_cur w1 None)); [reflexivity|].
  apply (okD_bracket (set_cur w1 None) EBuildStart _ (fun _ => EBuildEnd) (fun _ w3 => Done tt w3)).
  - intros o. reflexivity.
  - exists EBuildEnd. reflexivity.
  - apply execute_scheduled_okD.
  - intros o w2. apply okD_quiet. reflexivity.
Qed.

End T.

(* non-vacuity: nested brackets, a dangling read start, an atom *)
Example balanced_witness :
  balanced [EBuildStart; ERequireStart 1 2; EExecStart 1; EReadStart 3 5; EReadStart 4 0; EReadEnd 4 0 7; ESchedTask 9;
            EExecEnd 1 8; ERequireEnd 1 2 0 8; EBuildEnd].
Proof.
  apply (bal_wrap EBuildStart [_; _; _; _; _; _; _; _] EBuildEnd); [reflexivity|].
  apply (bal_wrap (ERequireStart 1 2) [_; _; _; _; _; _] (ERequireEnd 1 2 0 8)); [reflexivity|].
  apply (bal_wrap (EExecStart 1) [_; _; _; _] (EExecEnd 1 8)); [reflexivity|].
  apply (bal_app [EReadStart 3 5] [_; _; _]); [apply bal_atom; reflexivity|].
  apply (bal_app [EReadStart 4 0; EReadEnd 4 0 7] [_]); [|apply bal_atom; reflexivity].
  apply (bal_wrap (EReadStart 4 0) [] (EReadEnd 4 0 7)); [reflexivity|constructor].
Qed.

(* Theorems about the tracker model: the recorder stores exactly the recorded kinds since the last build start with
   their positions as indices; the query helpers mean what they document; the composite forwards the identical stream. *)
From Coq Require Import List NArith ZArith Bool Lia.
From PieV Require Import Model.Dag Model.Build Model.Tracker.
Import ListNotations.
Open Scope N_scope.

(* ---- recorder ---- *)
Definition recorded (e : event) : option (N -> tevent) :=
  match e with
  | EBuildStart => Some (fun _ => TBuildStart)
  | EBuildEnd => Some (fun _ => TBuildEnd)
  | ERequireStart t c => Some (TRequireStart (ktask t) c)
  | ERequireEnd t c st o => Some (TRequireEnd (ktask t) c st o)
  | EReadStart r c => Some (TReadStart (kres r) c)
  | EReadEnd r c st => Some (TReadEnd (kres r) c st)
  | EWriteStart r c => Some (TWriteStart (kres r) c)
  | EWriteEnd r c st => Some (TWriteEnd (kres r) c st)
  | EExecStart t => Some (TExecuteStart (ktask t))
  | EExecEnd t o => Some (TExecuteEnd (ktask t) o)
  | _ => None
  end.
Fixpoint fm (l : list event) : list (N -> tevent) :=
  match l with [] => [] | e :: tl => match recorded e with Some f => f :: fm tl | None => fm tl end end.
Fixpoint index_from (i : N) (l : list (N -> tevent)) : list tevent :=
  match l with [] => [] | f :: tl => f i :: index_from (i + 1) tl end.
(* the suffix of the stream that starts at the last build start, if any *)
Fixpoint since_last_bs (l : list event) : option (list event) :=
  match l with
  | [] => None
  | e :: tl => match since_last_bs tl with
               | Some x => Some x
               | None => match e with EBuildStart => Some (e :: tl) | _ => None end
               end
  end.

Lemma et_len_push s e : et_len (et_push s e) = et_len s + 1.
Proof. unfold et_len, et_push. cbn. rewrite app_length. cbn. lia. Qed.

Lemma et_step_not_bs s e :
  e <> EBuildStart ->
  (recorded e = None /\ et_step s e = s) \/
  (exists f, recorded e = Some f /\ et_step s e = et_push s (f (et_len s))).
Proof.
  intros Hne. destruct e; try (left; split; reflexivity); try (right; eexists; split; reflexivity).
  congruence.
Qed.

Lemma et_fold_spec l : forall s, clear_on_build_start s = true ->
  et_events (fold_left et_step l s) =
  match since_last_bs l with
  | Some suf => index_from 0 (fm suf)
  | None => et_events s ++ index_from (et_len s) (fm l)
  end /\ clear_on_build_start (fold_left et_step l s) = true.
Proof.
  induction l as [|e tl IH]; intros s Hc.
  - cbn. rewrite app_nil_r. split; [reflexivity|exact Hc].
  - cbn [fold_left since_last_bs].
    assert (Hc' : clear_on_build_start (et_step s e) = true).
    { destruct e; cbn; try exact Hc; try rewrite Hc; reflexivity. }
    destruct (IH (et_step s e) Hc') as [IHe IHc]. split; [|exact IHc].
    rewrite IHe. destruct (since_last_bs tl) as [suf|]; [reflexivity|].
    destruct e; try (cbn [et_step fm recorded]; first [reflexivity |
      (rewrite et_len_push; cbn [et_push et_events index_from]; rewrite <- app_assoc; reflexivity)]).
    (* EBuildStart *)
    cbn [et_step]. rewrite Hc. cbn. reflexivity.
Qed.

Theorem recorder_spec stream :
  et_events (et_run stream) =
  match since_last_bs stream with
  | Some suf => index_from 0 (fm suf)
  | None => index_from 0 (fm stream)
  end.
Proof.
  unfold et_run. destruct (et_fold_spec stream et_default eq_refl) as [H _]. rewrite H.
  destruct (since_last_bs stream); reflexivity.
Qed.

(* ---- composite ---- *)
Theorem composite_forwards {S1 S2} (f1 : S1 -> event -> S1) (f2 : S2 -> event -> S2) l s1 s2 :
  fold_left (composite_step f1 f2) l (s1, s2) = (fold_left f1 l s1, fold_left f2 l s2).
Proof. revert s1 s2. induction l as [|e tl IH]; intros; cbn; [reflexivity|]. apply IH. Qed.

(* ---- helpers ---- *)
Lemma key_eqb_eq a b : key_eqb a b = true <-> a = b.
Proof.
  unfold key_eqb. destruct a, b; cbn. rewrite andb_true_iff, !N.eqb_eq. split; [intros [A B]; subst; reflexivity|intros H; inversion H; split; reflexivity].
Qed.

Theorem is_build_start_spec e : is_build_start e = true <-> e = TBuildStart.
Proof. destruct e; cbn; split; intros H; try discriminate; reflexivity. Qed.

Theorem is_build_end_spec e : is_build_end e = true <-> e = TBuildEnd.
Proof. destruct e; cbn; split; intros H; try discriminate; reflexivity. Qed.
Theorem is_execute_spec e : is_execute e = true <-> (exists k i, e = TExecuteStart k i) \/ (exists k o i, e = TExecuteEnd k o i).
Proof.
  destruct e; cbn; split; intros H; try discriminate; try reflexivity;
  try (destruct H as [[? [? H]]|[? [? [? H]]]]; discriminate).
  - left. eauto.
  - right. eauto.
Qed.
Theorem is_execute_of_spec e k :
  is_execute_of e k = true <-> (exists i, e = TExecuteStart k i) \/ (exists o i, e = TExecuteEnd k o i).
Proof.
  destruct e; cbn; split; intros H; try discriminate;
  try (destruct H as [[? H]|[? [? H]]]; discriminate).
  - apply key_eqb_eq in H. subst. left. eauto.
  - destruct H as [[? H]|[? [? H]]]; inversion H; subst. apply key_eqb_eq. reflexivity.
  - apply key_eqb_eq in H. subst. right. eauto.
  - destruct H as [[? H]|[? [? H]]]; inversion H; subst. apply key_eqb_eq. reflexivity.
Qed.

(* every matcher returns the event itself exactly when it has the documented kind and subject *)
Ltac mt_fwd :=
  match goal with H : (if key_eqb ?a ?b then _ else _) = Some _ |- _ =>
    destruct (key_eqb a b) eqn:E; [apply key_eqb_eq in E; subst; inversion H; subst; repeat eexists | discriminate] end.
Ltac matcher_tac :=
  intros e k e'; split;
  [ destruct e; cbn; try discriminate; intros H; mt_fwd
  | intros H; decompose record H; subst; cbn; rewrite (proj2 (key_eqb_eq _ _) eq_refl); reflexivity ].

Theorem match_require_start_spec : forall e k e', match_require_start e k = Some e' <-> exists c i, e = TRequireStart k c i /\ e' = e.
Proof. matcher_tac. Qed.
Theorem match_require_end_spec : forall e k e', match_require_end e k = Some e' <-> exists c st o i, e = TRequireEnd k c st o i /\ e' = e.
Proof. matcher_tac. Qed.
Theorem match_read_start_spec : forall e k e', match_read_start e k = Some e' <-> exists c i, e = TReadStart k c i /\ e' = e.
Proof. matcher_tac. Qed.
Theorem match_read_end_spec : forall e k e', match_read_end e k = Some e' <-> exists c st i, e = TReadEnd k c st i /\ e' = e.
Proof. matcher_tac. Qed.
Theorem match_write_start_spec : forall e k e', match_write_start e k = Some e' <-> exists c i, e = TWriteStart k c i /\ e' = e.
Proof. matcher_tac. Qed.
Theorem match_write_end_spec : forall e k e', match_write_end e k = Some e' <-> exists c st i, e = TWriteEnd k c st i /\ e' = e.
Proof. matcher_tac. Qed.
Theorem match_execute_start_spec : forall e k e', match_execute_start e k = Some e' <-> exists i, e = TExecuteStart k i /\ e' = e.
Proof. matcher_tac. Qed.
Theorem match_execute_end_spec : forall e k e', match_execute_end e k = Some e' <-> exists o i, e = TExecuteEnd k o i /\ e' = e.
Proof. matcher_tac. Qed.

(* tracker-level queries: find_map returns the first match; any/one count matches *)
Theorem find_map_first {A} (f : tevent -> option A) l x :
  find_map f l = Some x <-> exists l1 e l2, l = l1 ++ e :: l2 /\ f e = Some x /\ forall e0, In e0 l1 -> f e0 = None.
Proof.
  induction l as [|e tl IH]; cbn.
  - split; [discriminate|]. intros [l1 [e [l2 [H _]]]]. destruct l1; discriminate.
  - destruct (f e) eqn:E.
    + split.
      * intros H. inversion H; subst. exists [], e, tl. split; [reflexivity|]. split; [exact E|]. intros e0 [].
      * intros [l1 [e1 [l2 [Hl [Hf Hn]]]]]. destruct l1 as [|a0 l1]; cbn in Hl; inversion Hl; subst.
        -- congruence.
        -- rewrite (Hn _ (or_introl eq_refl)) in E. discriminate.
    + rewrite IH. split.
      * intros [l1 [e1 [l2 [Hl [Hf Hn]]]]]. exists (e :: l1), e1, l2. split; [cbn; rewrite Hl; reflexivity|]. split; [exact Hf|].
        intros e0 [H|H]; [subst; exact E|apply Hn; exact H].
      * intros [l1 [e1 [l2 [Hl [Hf Hn]]]]]. destruct l1 as [|a0 l1]; cbn in Hl; inversion Hl; subst.
        -- congruence.
        -- exists l1, e1, l2. split; [reflexivity|]. split; [exact Hf|]. intros e0 H. apply Hn. right. exact H.
Qed.
Theorem any_execute_spec s : any_execute s = true <-> exists e, In e (et_events s) /\ is_execute e = true.
Proof. unfold any_execute, et_any. apply existsb_exists. Qed.
Theorem one_execute_of_spec s k :
  one_execute_of s k = true <-> length (filter (fun e => match match_execute_start e k with Some _ => true | None => false end) (et_events s)) = 1%nat.
Proof. unfold one_execute_of, et_one. apply Nat.eqb_eq. Qed.

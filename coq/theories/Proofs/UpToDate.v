(* C03 in the static program class with reflexive checkers: if every recorded dependency of every task that has an output is
   consistent ("all known tasks were last consistent"), then after any external changes and the session-opening bottom-up build
   that is told about every changed resource, every recorded dependency of every task with an output is consistent again --
   so requiring any known task afterwards executes nothing and returns the stored output.

   Invariant of the build, on top of OnceAll.v (Om):
     PhiT  every recorded dependency of a task that has an output is consistent, or the task is queued, or the dependency is
           excused: a require of a task that is executing (or has just finished and is about to schedule its dependents), a read
           of a resource that such a task has written in its current execution;
     PhiO  every dependency an executing task has recorded so far is consistent (its stamp is fresh, the required tasks and the
           generators of the resources it read are in the consistent set and never run again). *)
From Coq Require Import List NArith ZArith Bool Lia Permutation.
From PieV Require Import Model.Dag Model.Build Proofs.DagLib Proofs.DagWF Proofs.DagPath Proofs.DagQueries Proofs.DagNoFuel Proofs.StoreInv
  Proofs.Sorting Proofs.Effects Proofs.Inv Proofs.History Proofs.ExecInv Proofs.ExecSession Proofs.Cert Proofs.Stable Proofs.NoBug4 Proofs.NoAbort
  Proofs.NoBug4All Proofs.Trace Proofs.Queue Proofs.BuJust Proofs.BuOnce Proofs.NoReentry Proofs.NoBugAll Proofs.CertAll Proofs.NoAbortAll Proofs.HasOut
  Proofs.Sim Proofs.Valid Proofs.Idem Proofs.OnceAll.
Import ListNotations.
Open Scope N_scope.

Section UD.
Variable gen : res -> option task.
Variable RC : rcid -> rchecker.
Variable OC : ocid -> ochecker.

Definition DepGood (w : world) (dp : dep) : Prop :=
  match dp with
  | DReserved => False
  | DRequire y c st => exists oy, get_task_output w y = Some oy /\ oc_check (OC c) oy st = true
  | DRead r c st | DWrite r c st => rc_check (RC c) (env w) r (get_content w r) st = Consistent
  end.
Definition wrote (w : world) (g : task) (r : res) : Prop := exists dpw, row w g (rn r) = Some dpw /\ is_write (Some dpw) = true.
Definition DepExc (e : option task) (w : world) (dp : dep) : Prop :=
  match dp with
  | DRequire y _ _ => opn w y \/ e = Some y
  | DRead r _ _ => exists g, (opn w g \/ e = Some g) /\ wrote w g r
  | _ => False
  end.
Definition PhiT (own e : option task) (w : world) : Prop :=
  forall x, own <> Some x -> get_task_output w x <> None -> forall d dp, row w x d = Some dp ->
    DepGood w dp \/ In x (queue w) \/ DepExc e w dp.
Definition PhiO (w : world) : Prop := forall t, opn w t -> forall d dp, row w t d = Some dp -> dp = DReserved \/ DepGood w dp.
Definition Psi (own e : option task) (w : world) : Prop := PhiT own e w /\ PhiO w.
Definition AllValid (w : world) : Prop := forall x, get_task_output w x <> None -> forall d dp, row w x d = Some dp -> DepGood w dp.

(* what the checkers look at stays the same *)
Definition keep (w w' : world) : Prop := (forall r, get_content w' r = get_content w r) /\ env w' = env w /\ outs w' = outs w.
Lemma keep_refl w : keep w w. Proof. split; [reflexivity|split; reflexivity]. Qed.
Lemma keep_trans a b c : keep a b -> keep b c -> keep a c.
Proof. intros [A1 [A2 A3]] [B1 [B2 B3]]. split; [intros r; rewrite B1; apply A1|split; congruence]. Qed.
Lemma keep_same w w' : rstate w' = rstate w -> env w' = env w -> outs w' = outs w -> keep w w'.
Proof. intros R E O. split; [intros r; unfold get_content; rewrite R; reflexivity|split; assumption]. Qed.
Lemma DepGood_keep w w' dp : keep w w' -> DepGood w dp -> DepGood w' dp.
Proof.
  intros [K1 [K2 K3]]. destruct dp as [|y c st|r c st|r c st]; cbn [DepGood]; [trivial| | |].
  - unfold get_task_output. rewrite K3. trivial.
  - rewrite K1, K2. trivial.
  - rewrite K1, K2. trivial.
Qed.
Lemma keep_sym w w' : keep w w' -> keep w' w.
Proof. intros [K1 [K2 K3]]. split; [intros r; symmetry; apply K1|split; congruence]. Qed.

(* ---- steps that change neither adjacency, edge data, outputs, contents, environment nor open executions; the queue may grow ---- *)
Definition qk (w w' : world) : Prop :=
  geq w w' /\ keep w w' /\ opens (trace w') = opens (trace w) /\ (forall x, In x (queue w) -> In x (queue w')).
Lemma qk_refl w : qk w w. Proof. split; [intros n; apply EqN_refl|split; [apply keep_refl|split; [reflexivity|trivial]]]. Qed.
Lemma qk_trans a b c : qk a b -> qk b c -> qk a c.
Proof.
  intros [G1 [K1 [O1 Q1]]] [G2 [K2 [O2 Q2]]]. split; [eapply geq_trans; eassumption|]. split; [eapply keep_trans; eassumption|]. split; [congruence|intros x X; apply Q2, Q1, X].
Qed.
Lemma qk_same w w' : gr w' = gr w -> rstate w' = rstate w -> env w' = env w -> outs w' = outs w -> opens (trace w') = opens (trace w) ->
  (forall x, In x (queue w) -> In x (queue w')) -> qk w w'.
Proof. intros G R E O T Q. split; [apply geq_same; exact G|]. split; [apply keep_same; assumption|]. split; assumption. Qed.
Lemma qk_emit w e : ev3 e = true -> qk w (emit w e).
Proof. intros H. apply qk_same; try reflexivity; [apply opens_ev3; exact H|trivial]. Qed.
Lemma qk_goc_task w t : qk w (get_or_create_task_node w t).
Proof. split; [apply geq_goc_task|]. unfold get_or_create_task_node. destruct (live _ _); (split; [apply keep_refl || (apply keep_same; reflexivity)|split; [reflexivity|trivial]]). Qed.
Lemma qk_goc_res w r : qk w (get_or_create_resource_node w r).
Proof. split; [apply geq_goc_res|]. unfold get_or_create_resource_node. destruct (live _ _); (split; [apply keep_refl || (apply keep_same; reflexivity)|split; [reflexivity|trivial]]). Qed.
Lemma qk_push_err w e : qk w (push_err w e). Proof. apply qk_same; try reflexivity. trivial. Qed.
Lemma qk_mark w t : qk w (mark_consistent w t). Proof. apply qk_same; try reflexivity. trivial. Qed.
Lemma qk_queue_add w t : qk w (queue_add w t).
Proof. unfold queue_add. destruct (memN _ _); [apply qk_refl|]. apply qk_same; try reflexivity. intros x X. cbn. apply in_or_app. left. exact X. Qed.

Lemma wrote_geq w w' g r : geq w w' -> wrote w g r -> wrote w' g r.
Proof. intros G [dp [R I]]. exists dp. split; [rewrite (geq_row w w' g _ G); exact R|exact I]. Qed.
Lemma DepExc_qk e w w' dp : qk w w' -> DepExc e w dp -> DepExc e w' dp.
Proof.
  intros [G [_ [O _]]]. destruct dp as [|y c st|r c st|r c st]; cbn [DepExc]; try trivial; unfold opn; rewrite O.
  - trivial.
  - intros [g [A B]]. exists g. split; [exact A|eapply wrote_geq; eassumption].
Qed.
Lemma Psi_qk own e w w' : qk w w' -> Psi own e w -> Psi own e w'.
Proof.
  intros Hq [HT HO]. pose proof Hq as [G [K [O Q]]]. split.
  - intros x Hx Ox d dp R. rewrite (geq_row w w' x d G) in R. unfold get_task_output in Ox. rewrite (proj2 (proj2 K)) in Ox.
    destruct (HT x Hx Ox d dp R) as [A|[A|A]]; [left; eapply DepGood_keep; eassumption|right; left; apply Q; exact A|right; right; eapply DepExc_qk; eassumption].
  - intros t Ot d dp R. unfold opn in Ot. rewrite O in Ot. rewrite (geq_row w w' t d G) in R.
    destruct (HO t Ot d dp R) as [A|A]; [left; exact A|right; eapply DepGood_keep; eassumption].
Qed.

(* ---- popping m from the queue: m is exempt until it starts ---- *)
Lemma PhiT_weaken own e w : PhiT None e w -> PhiT own e w.
Proof. intros H x _. apply H. discriminate. Qed.
Lemma Psi_pop e w m : Psi None e w -> Psi (Some m) e (set_queue w (removeN m (sort_queue w))).
Proof.
  intros [HT HO]. split; [|exact HO]. intros x Hx Ox d dp R. change (row w x d = Some dp) in R. change (get_task_output w x <> None) in Ox.
  destruct (HT x ltac:(discriminate) Ox d dp R) as [A|[A|A]]; [left; exact A| |right; right; exact A].
  right. left. cbn. apply In_removeN_other'; [apply sort_queue_In3; exact A|]. intros ->. apply Hx. reflexivity.
Qed.
End UD.

(* ================= static class, reflexive checkers ================= *)
Section UT.
Variable gen : res -> option task.
Variable wck : rcid -> Prop.
Variable ord : task -> nat.
Variable RC : rcid -> rchecker.
Variable OC : ocid -> ochecker.
Variable P : task -> prog.
Variable sf : rcid -> res -> content -> Z.
Hypothesis HS : forall c env r v, rc_stamp (RC c) env r v = inl (sf c r v).
Hypothesis HWF : forall t, WFP gen wck t [] (P t).
Hypothesis HWO : forall t, WFO ord t (P t).
Hypothesis HRefl : forall c env r v, rc_check (RC c) env r v (sf c r v) = Consistent.
Hypothesis HReflO : forall c o, oc_check (OC c) o (oc_stamp (OC c) o) = true.
Let HNR : forall t, NR [] (P t). Proof. intros t. eapply WFP_NR. apply HWF. Qed.

Notation K := (K RC OC P sf).
Notation Q := (Q gen ord).
Notation Om := (Om gen).
Notation B := (B gen ord RC OC P sf).
Notation DepGood := (DepGood RC OC).
Notation PhiT := (PhiT RC OC).
Notation PhiO := (PhiO RC OC).
Notation Psi := (Psi RC OC).
Notation AllValid := (AllValid RC OC).

Lemma no_self_edge w t : StoreOK w -> ~ In (tn t) (kids_of (gr w) (tn t)).
Proof. intros [W _] X. apply (WF_acyclic (gr w) (tn t) W). apply path1. exact X. Qed.
Lemma row_kid w x d dp : StoreOK w -> row w x d = Some dp -> In d (kids_of (gr w) (tn x)).
Proof. intros [W _] R. apply (wf_edata _ W). unfold row in R. rewrite R. discriminate. Qed.

(* ---- start of an execution of m ---- *)
Lemma Psi_start w m : StoreOK w -> Om w -> P3 w m -> ~ opn w m -> Psi (Some m) None w -> Psi None None (startw w m).
Proof.
  intros HS0 [A [C D]] HP Hm [HT HO]. destruct (reset_task_facts w m HS0) as [R1 [R2 [_ [R4 [_ [_ [R7 [R8 [R9 R10]]]]]]]]].
  assert (Op : forall x, opn (startw w m) x <-> x = m \/ opn w x).
  { intros x. unfold opn, startw. change (opens (trace (emit (set_cur (reset_task w m) (Some m)) (EExecStart m)))) with (m :: opens (trace (reset_task w m))). rewrite R4. cbn. split; intros [X|X]; auto. }
  assert (KP : keep w (startw w m) -> True) by trivial.
  assert (GoodT : forall dp, (forall c st, dp <> DRequire m c st) -> DepGood w dp -> DepGood (startw w m) dp).
  { intros dp Hd G. destruct dp as [|y c st|r c st|r c st]; cbn [UpToDate.DepGood] in *; [exact G| |exact G|exact G].
    assert (Hy : y <> m) by (intros ->; eapply Hd; reflexivity).
    change (get_task_output (startw w m) y) with (get_task_output (reset_task w m) y). rewrite (R10 y Hy). exact G. }
  split.
  - intros x _ Ox d dp R. change (get_task_output (reset_task w m) x <> None) in Ox.
    assert (Hx : x <> m) by (intros ->; apply Ox; exact R9). rewrite (R10 x Hx) in Ox.
    assert (X : tn x <> tn m) by (intros E; apply tn_inj in E; contradiction).
    unfold row in R. change (gr (startw w m)) with (gr (reset_task w m)) in R. rewrite (R7 _ _ X) in R.
    destruct (HT x ltac:(congruence) Ox d dp R) as [G|[G|G]].
    + destruct dp as [|y c st|r c st|r c st]; try (left; apply GoodT; [intros; discriminate|exact G]).
      destruct (N.eq_dec y m) as [->|Hy]; [right; right; left; apply Op; left; reflexivity|left; apply GoodT; [intros c' st' E; inversion E; congruence|exact G]].
    + right. left. exact G.
    + right. right. destruct dp as [|y c st|r c st|r c st]; cbn [DepExc] in *; try contradiction.
      * destruct G as [G|G]; [left; apply Op; right; exact G|discriminate].
      * destruct G as [g [[G|G] Wg]]; [|discriminate]. exists g. split; [left; apply Op; right; exact G|].
        assert (Hg : g <> m) by (intros ->; contradiction). destruct Wg as [dpw [Rw Iw]]. exists dpw. split; [|exact Iw].
        unfold row in *. change (gr (startw w m)) with (gr (reset_task w m)). rewrite R7; [exact Rw|intros E; apply tn_inj in E; contradiction].
  - intros t Ot d dp R. apply Op in Ot. unfold row in R. change (gr (startw w m)) with (gr (reset_task w m)) in R.
    destruct (N.eq_dec t m) as [->|Ht]; [rewrite R8 in R; discriminate|]. destruct Ot as [->|Ot]; [contradiction|].
    rewrite R7 in R by (intros E; apply tn_inj in E; contradiction).
    destruct (HO t Ot d dp R) as [G|G]; [left; exact G|right]. apply GoodT; [|exact G].
    intros c st ->. pose proof (row_kid w t d _ HS0 R) as Ik. destruct (proj1 (proj2 HS0) _ _ _ R) as [_ Dd]. cbn in Dd. subst d.
    apply (HP m (C t m Ot (or_introl (ex_intro _ c (ex_intro _ st R))))). left. reflexivity.
Qed.

(* ---- end of the execution of t ---- *)
Lemma Psi_end w t o c : StoreOK w -> Om w -> opn w t -> get_task_output w t = None -> OF w t -> Psi None None w -> Psi None (Some t) (endw w t o c).
Proof.
  intros HS0 [A [C D]] Ot Ho HF [HT HO].
  assert (Out : forall y, y <> t -> get_task_output (endw w t o c) y = get_task_output w y).
  { intros y Hy. change (alookup (aset (outs w) t o) y = alookup (outs w) y). apply alookup_aset_other. exact Hy. }
  assert (GoodT : forall dp, (forall c' st, dp <> DRequire t c' st) -> DepGood w dp -> DepGood (endw w t o c) dp).
  { intros dp Hd G. destruct dp as [|y c' st|r c' st|r c' st]; cbn [UpToDate.DepGood] in *; [exact G| |exact G|exact G].
    assert (Hy : y <> t) by (intros ->; eapply Hd; reflexivity). rewrite (Out y Hy). exact G. }
  split.
  - intros x _ Ox d dp R. change (row w x d = Some dp) in R. destruct (N.eq_dec x t) as [->|Hx].
    + left. destruct (HO t Ot d dp R) as [G|G]; [exfalso; subst dp; exact (HF d R)|]. apply GoodT; [|exact G].
      intros c' st ->. destruct (proj1 (proj2 HS0) _ _ _ R) as [_ Dd]. cbn in Dd. subst d. exact (no_self_edge w t HS0 (row_kid w t _ _ HS0 R)).
    + rewrite (Out x Hx) in Ox. destruct (HT x ltac:(discriminate) Ox d dp R) as [G|[G|G]].
      * left. apply GoodT; [|exact G]. intros c' st ->. cbn in G. destruct G as [oy [G _]]. rewrite Ho in G. discriminate.
      * right. left. exact G.
      * right. right. destruct dp as [|y c' st|r c' st|r c' st]; cbn [DepExc] in *; try contradiction.
        -- destruct G as [G|G]; [|discriminate]. destruct (N.eq_dec y t) as [->|Hy]; [right; reflexivity|left; apply opn_end; split; assumption].
        -- destruct G as [g [[G|G] Wg]]; [|discriminate]. exists g. split; [|exact Wg].
           destruct (N.eq_dec g t) as [->|Hg]; [right; reflexivity|left; apply opn_end; split; assumption].
  - intros t' Ot' d dp R. apply opn_end in Ot'. destruct Ot' as [Ot' Ht']. change (row w t' d = Some dp) in R.
    destruct (HO t' Ot' d dp R) as [G|G]; [left; exact G|right]. apply GoodT; [|exact G].
    intros c' st ->. destruct (proj1 (proj2 HS0) _ _ _ R) as [_ Dd]. cbn in Dd. subst d.
    pose proof (C t' t Ot' (or_introl (ex_intro _ c' (ex_intro _ st R)))) as Ct. exact (proj1 (A t t Ct (or_introl eq_refl)) Ot).
Qed.
(* ---- a read / write of the executing task t ---- *)
Lemma Psi_leaf own e t w w1 r dp : LeafStep gen ord RC OC P sf t w w1 (rn r) dp -> B (Some t) w -> cur w = Some t -> Om w ->
  (forall r', r' <> r -> get_content w1 r' = get_content w r') -> env w1 = env w ->
  (is_write (Some dp) = false -> get_content w1 r = get_content w r) -> (is_write (Some dp) = true -> gen r = Some t) ->
  (is_write (Some dp) = true \/ is_read (Some dp) = true) ->
  DepGood w1 dp -> ~ In (rn r) (kidsT w t) -> Psi own e w -> Psi own e w1.
Proof.
  intros [B1 C1 LF [RK [RD RO]] Q3 Qu] HB0 Hc [A [C D]] CK EK Rd Wr RW Gd Nr [HT HO].
  pose proof (B_S _ _ _ _ _ _ _ w HB0) as HS0. pose proof (proj1 (proj2 (proj2 HB0))) as Hq.
  pose proof (cur_opn gen ord RC OC P sf _ w t HB0 Hc) as Ot.
  assert (Ho : get_task_output w t = None) by (apply (cur_no_output (Some t) w t (proj1 HB0) Hc)).
  assert (Op : opens (trace w1) = opens (trace w)) by (destruct Q3 as [[s0 [T0 F0]] _]; rewrite T0; apply opens_app3; exact F0).
  assert (Ou : outs w1 = outs w) by apply (lf_outs _ _ _ LF).
  assert (Rows : forall x d, x <> t -> row w1 x d = row w x d) by (intros x d Hx; apply (lf_eother _ _ _ LF); intros E; apply tn_inj in E; contradiction).
  (* a consistent dependency stays consistent unless it is on r and r is written *)
  assert (GoodT : forall dp', (forall c st, dp' <> DRead r c st) -> (forall c st, dp' <> DWrite r c st) -> DepGood w dp' -> DepGood w1 dp').
  { intros dp' H1 H2 G. destruct dp' as [|y c st|r' c st|r' c st]; cbn [UpToDate.DepGood] in *; [exact G| | |].
    - unfold get_task_output. rewrite Ou. exact G.
    - assert (r' <> r) by (intros ->; eapply H1; reflexivity). rewrite CK, EK by assumption. exact G.
    - assert (r' <> r) by (intros ->; eapply H2; reflexivity). rewrite CK, EK by assumption. exact G. }
  assert (GoodR : is_write (Some dp) = false -> forall dp', DepGood w dp' -> DepGood w1 dp').
  { intros Hr dp' G. destruct dp' as [|y c st|r' c st|r' c st]; cbn [UpToDate.DepGood] in *; [exact G| | |].
    - unfold get_task_output. rewrite Ou. exact G.
    - destruct (N.eq_dec r' r) as [->|Hne]; [rewrite (Rd Hr), EK; exact G|rewrite CK, EK by assumption; exact G].
    - destruct (N.eq_dec r' r) as [->|Hne]; [rewrite (Rd Hr), EK; exact G|rewrite CK, EK by assumption; exact G]. }
  assert (Wt : forall g r', wrote w g r' -> wrote w1 g r').
  { intros g r' [dpw [Rw Iw]]. exists dpw. split; [|exact Iw]. destruct (N.eq_dec g t) as [->|Hg]; [|rewrite Rows; assumption].
    rewrite RO; [exact Rw|]. intros E. apply Nr. assert (r' = r) by (unfold rn in E; lia). subst r'. exact (row_kid w t _ _ HS0 Rw). }
  split.
  - intros x Hx Ox d dp' R. unfold get_task_output in Ox. rewrite Ou in Ox.
    assert (Hxt : x <> t) by (intros ->; apply Ox; exact Ho). rewrite (Rows x d Hxt) in R.
    destruct (HT x Hx Ox d dp' R) as [G|[G|G]].
    + destruct (is_write (Some dp)) eqn:Iw; [|left; apply GoodR; [reflexivity|exact G]].
      destruct dp' as [|y c st|r' c st|r' c st]; try (left; apply GoodT; [intros; discriminate|intros; discriminate|exact G]).
      * destruct (N.eq_dec r' r) as [->|Hne]; [|left; apply GoodT; [intros c' st' E; inversion E; congruence|intros; discriminate|exact G]].
        right. right. exists t. split; [left; unfold opn; rewrite Op; exact Ot|]. exists dp. split; [exact RD|exact Iw].
      * destruct (N.eq_dec r' r) as [->|Hne]; [|left; apply GoodT; [intros; discriminate|intros c' st' E; inversion E; congruence|exact G]].
        exfalso. destruct (proj1 (proj2 HS0) _ _ _ R) as [_ Dd]. cbn in Dd. subst d.
        pose proof (proj1 (proj2 (Hq x)) r _ R eq_refl) as Gx. rewrite (Wr eq_refl) in Gx. inversion Gx. congruence.
    + right. left. rewrite Qu. exact G.
    + right. right. destruct dp' as [|y c st|r' c st|r' c st]; cbn [DepExc] in *; try contradiction; unfold opn in *; rewrite Op.
      * exact G.
      * destruct G as [g [G Wg]]. exists g. split; [exact G|apply Wt; exact Wg].
  - intros t' Ot' d dp' R. unfold opn in Ot'. rewrite Op in Ot'. destruct (N.eq_dec t' t) as [->|Ht'].
    + destruct (N.eq_dec d (rn r)) as [->|Hd]; [rewrite RD in R; inversion R; subst dp'; right; exact Gd|].
      rewrite (RO d Hd) in R. destruct (HO t Ot' d dp' R) as [G|G]; [left; exact G|right].
      destruct (is_write (Some dp)) eqn:Iw; [|apply GoodR; [reflexivity|exact G]].
      apply GoodT; [| |exact G]; intros c st ->; destruct (proj1 (proj2 HS0) _ _ _ R) as [_ Dd]; cbn in Dd; subst d; apply Hd; reflexivity.
    + rewrite (Rows t' d Ht') in R. destruct (HO t' Ot' d dp' R) as [G|G]; [left; exact G|right].
      destruct (is_write (Some dp)) eqn:Iw; [|apply GoodR; [reflexivity|exact G]].
      apply GoodT; [| |exact G]; intros c st ->; destruct (proj1 (proj2 HS0) _ _ _ R) as [_ Dd]; cbn in Dd; subst d.
      * pose proof (C t' t Ot' (or_intror (ex_intro _ r (ex_intro _ _ (conj R (conj eq_refl (Wr eq_refl))))))) as Ct.
        exact (proj1 (A t t Ct (or_introl eq_refl)) Ot).
      * pose proof (proj1 (proj2 (Hq t')) r _ R eq_refl) as Gx. rewrite (Wr eq_refl) in Gx. inversion Gx. congruence.
Qed.

Lemma keep_add_dependency w s d dp : keep w (snd (add_dependency w s d dp)).
Proof. unfold add_dependency. destruct (add_edge (gr w) s d dp) as [[b|[|]|] g']; apply keep_same; reflexivity. Qed.

(* ---- the reservation of a require by the executing task s ---- *)
Lemma Psi_reserve own e s x w2 w3 : opn w2 s -> get_task_output w2 s = None ->
  (forall n, n <> tn s -> EqN w2 w3 n) -> (forall v, v <> tn x -> get_edata (gr w3) (tn s) v = get_edata (gr w2) (tn s) v) ->
  get_edata (gr w3) (tn s) (tn x) = Some DReserved -> trace w3 = trace w2 -> queue w3 = queue w2 -> keep w2 w3 ->
  Psi own e w2 -> Psi own e w3.
Proof.
  intros Os Ho EN ED ER T3 Qu KP [HT HO].
  assert (Rows : forall y d, y <> s -> row w3 y d = row w2 y d) by (intros y d Hy; apply (proj2 (EN (tn y) ltac:(intros E; apply tn_inj in E; contradiction)))).
  assert (Wt : forall g r, wrote w2 g r -> wrote w3 g r).
  { intros g r [dpw [Rw Iw]]. exists dpw. split; [|exact Iw]. destruct (N.eq_dec g s) as [->|Hg]; [|rewrite Rows; assumption].
    unfold row. rewrite ED; [exact Rw|]. intros E. symmetry in E. exact (tn_rn _ _ E). }
  split.
  - intros y Hy Oy d dp R. unfold get_task_output in Oy. rewrite (proj2 (proj2 KP)) in Oy.
    assert (Hys : y <> s) by (intros ->; apply Oy; exact Ho). rewrite (Rows y d Hys) in R.
    destruct (HT y Hy Oy d dp R) as [G|[G|G]]; [left; eapply DepGood_keep; eassumption|right; left; rewrite Qu; exact G|right; right].
    destruct dp as [|z c st|r c st|r c st]; cbn [DepExc] in *; try contradiction; unfold opn in *; rewrite T3; [exact G|].
    destruct G as [g [G Wg]]. exists g. split; [exact G|apply Wt; exact Wg].
  - intros t Ot d dp R. unfold opn in Ot. rewrite T3 in Ot. destruct (N.eq_dec t s) as [->|Ht].
    + destruct (N.eq_dec d (tn x)) as [->|Hd]; [unfold row in R; rewrite ER in R; inversion R; left; reflexivity|].
      unfold row in R. rewrite (ED d Hd) in R. destruct (HO s Ot d dp R) as [G|G]; [left; exact G|right; eapply DepGood_keep; eassumption].
    + rewrite (Rows t d Ht) in R. destruct (HO t Ot d dp R) as [G|G]; [left; exact G|right; eapply DepGood_keep; eassumption].
Qed.

(* ---- recording the require (reserved -> DRequire with the stamp of the returned output) and marking the target ---- *)
Lemma Psi_update_mark own e s x c o w : opn w s -> get_task_output w s = None -> get_task_output w x = Some o ->
  Psi own e w -> Psi own e (mark_consistent (set_gr w (insert_edata (gr w) (tn s) (tn x) (DRequire x c (oc_stamp (OC c) o)))) x).
Proof.
  intros Os Ho Hx [HT HO]. set (w7 := mark_consistent (set_gr w (insert_edata (gr w) (tn s) (tn x) (DRequire x c (oc_stamp (OC c) o)))) x).
  assert (Row : forall y d, row w7 y d = if pair_eqb (tn s, tn x) (tn y, d) then Some (DRequire x c (oc_stamp (OC c) o)) else row w y d).
  { intros y d. unfold row. change (gr w7) with (insert_edata (gr w) (tn s) (tn x) (DRequire x c (oc_stamp (OC c) o))). apply get_edata_insert. }
  assert (KP : keep w w7) by (apply keep_same; reflexivity).
  assert (Rows : forall y d, y <> s -> row w7 y d = row w y d).
  { intros y d Hy. rewrite Row. destruct (pair_eqb (tn s, tn x) (tn y, d)) eqn:Z; [|reflexivity]. apply pair_eqb_eq in Z. inversion Z as [[Z1 Z2]]. apply tn_inj in Z1. congruence. }
  assert (Wt : forall g r, wrote w g r -> wrote w7 g r).
  { intros g r [dpw [Rw Iw]]. exists dpw. split; [|exact Iw]. rewrite Row. destruct (pair_eqb (tn s, tn x) (tn g, rn r)) eqn:Z; [|exact Rw].
    apply pair_eqb_eq in Z. inversion Z as [[Z1 Z2]]. exfalso. exact (tn_rn _ _ Z2). }
  split.
  - intros y Hy Oy d dp R. change (get_task_output w y <> None) in Oy.
    assert (Hys : y <> s) by (intros ->; apply Oy; exact Ho). rewrite (Rows y d Hys) in R.
    destruct (HT y Hy Oy d dp R) as [G|[G|G]]; [left; eapply DepGood_keep; eassumption|right; left; exact G|right; right].
    destruct dp as [|z c' st|r c' st|r c' st]; cbn [DepExc] in *; try contradiction; [exact G|].
    destruct G as [g [G Wg]]. exists g. split; [exact G|apply Wt; exact Wg].
  - intros t Ot d dp R. change (opn w t) in Ot. rewrite Row in R. destruct (pair_eqb (tn s, tn x) (tn t, d)) eqn:Z.
    + inversion R; subst dp. right. cbn. exists o. split; [exact Hx|apply HReflO].
    + destruct (HO t Ot d dp R) as [G|G]; [left; exact G|right; eapply DepGood_keep; eassumption].
Qed.
(* ---- scheduling after the execution of t discharges the excuse "depends on t" ---- *)
Lemma incoming_of_row w x v dp : StoreOK w -> row w x v = Some dp -> In (tn x, Some dp) (incoming w v).
Proof.
  intros HS0 R. unfold incoming, get_incoming_edges. apply in_map_iff. exists (tn x). split; [unfold row in R; rewrite R; reflexivity|].
  apply (wf_sym _ (proj1 HS0)). eapply row_kid; eassumption.
Qed.
Lemma written_of_row w t r dp : StoreOK w -> row w t (rn r) = Some dp -> is_write (Some dp) = true -> In r (resources_written_by w t).
Proof.
  intros HS0 R I. unfold resources_written_by. apply in_map_iff. exists (rn r, Some dp). split; [cbn; apply un_rn|].
  apply filter_In. split; [|exact I]. unfold get_outgoing_edges. apply in_map_iff. exists (rn r). split; [unfold row in R; rewrite R; reflexivity|eapply row_kid; eassumption].
Qed.
Lemma In_queue_add w x : In x (queue (queue_add w x)).
Proof. unfold queue_add. destruct (memN x (queue w)) eqn:E; [apply memN_In; exact E|cbn; apply in_or_app; right; left; reflexivity]. Qed.

(* steps of the scheduling folds: as qk, and the incoming-edge lists are the same *)
Definition qg (w w' : world) : Prop := qk w w' /\ forall v, incoming w' v = incoming w v.
Lemma qg_refl w : qg w w. Proof. split; [apply qk_refl|reflexivity]. Qed.
Lemma qg_trans a b c : qg a b -> qg b c -> qg a c. Proof. intros [A1 A2] [B1 B2]. split; [eapply qk_trans; eassumption|intros v; rewrite B2; apply A2]. Qed.
Lemma qg_emit w e : ev3 e = true -> qg w (emit w e). Proof. intros H. split; [apply qk_emit; exact H|reflexivity]. Qed.
Lemma qg_push_err w e : qg w (push_err w e). Proof. split; [apply qk_push_err|reflexivity]. Qed.
Lemma qg_mark w t : qg w (mark_consistent w t). Proof. split; [apply qk_mark|reflexivity]. Qed.
Lemma qg_queue_add w t : qg w (queue_add w t). Proof. split; [apply qk_queue_add|intros v; unfold incoming; rewrite queue_add_gr; reflexivity]. Qed.
Lemma qg_goc_res w r : qg w (get_or_create_resource_node w r).
Proof.
  split; [apply qk_goc_res|]. intros v. unfold get_or_create_resource_node. destruct (live (gr w) (rn r)) eqn:Lr; [reflexivity|].
  unfold incoming, get_incoming_edges. cbn [gr set_gr]. unfold pars_of. rewrite (get_info_add_node (gr w) (rn r) v Lr).
  destruct (N.eqb_spec v (rn r)) as [->|Hv].
  - unfold live in Lr. destruct (get_info (gr w) (rn r)); [discriminate|reflexivity].
  - apply map_ext. intros p. reflexivity.
Qed.
Lemma try_schedule_qg w t r c st : qg w (try_schedule RC w t r c st).
Proof.
  unfold try_schedule. cbv zeta. destruct (rc_check _ _ _ _ _) as [| |e].
  - eapply qg_trans; apply qg_emit; reflexivity.
  - eapply qg_trans; [|apply qg_queue_add]. eapply qg_trans; [|apply qg_emit; reflexivity]. eapply qg_trans; apply qg_emit; reflexivity.
  - eapply qg_trans; [|apply qg_queue_add]. eapply qg_trans; [|apply qg_emit; reflexivity].
    eapply qg_trans; [|apply qg_push_err]. eapply qg_trans; apply qg_emit; reflexivity.
Qed.
Lemma try_schedule_edge_qg b w p : qg w (try_schedule_edge RC b w p).
Proof.
  unfold try_schedule_edge. destruct (snd p) as [[|t c st|r c st|r c st]|]; try apply qg_refl; [apply try_schedule_qg|].
  destruct b; [apply qg_refl|apply try_schedule_qg].
Qed.
Lemma fold_qg {X} (f : world -> X -> world) l : (forall w x, qg w (f w x)) -> forall w, qg w (fold_left f l w).
Proof. intros Hf. induction l as [|x tl IH]; intros w; cbn [fold_left]; [apply qg_refl|eapply qg_trans; [apply Hf|apply IH]]. Qed.
Lemma schedule_by_written_qg w r : qg w (schedule_by_written RC w r).
Proof.
  unfold schedule_by_written. cbv zeta. eapply qg_trans; [|apply qg_emit; reflexivity].
  eapply qg_trans; [|apply fold_qg; intros; apply try_schedule_edge_qg]. apply qg_emit; reflexivity.
Qed.
Lemma schedule_requirer_qg o w p : qg w (schedule_requirer OC o w p).
Proof.
  unfold schedule_requirer. destruct (snd p) as [[|t c st|r c st|r c st]|]; try apply qg_refl. cbv zeta.
  destruct (oc_check (OC c) o st).
  - eapply qg_trans; apply qg_emit; reflexivity.
  - eapply qg_trans; [|apply qg_queue_add]. eapply qg_trans; [|apply qg_emit; reflexivity]. eapply qg_trans; apply qg_emit; reflexivity.
Qed.
Lemma schedule_after_qg w t o : qg w (schedule_after RC OC w t o).
Proof.
  unfold schedule_after. cbv zeta. eapply qg_trans; [|apply qg_mark]. eapply qg_trans; [|apply qg_emit; reflexivity].
  eapply qg_trans; [|apply fold_qg; intros; apply schedule_requirer_qg]. eapply qg_trans; [|apply qg_emit; reflexivity].
  apply fold_qg; intros; apply schedule_by_written_qg.
Qed.
Lemma schedule_after_qk w t o : qk w (schedule_after RC OC w t o). Proof. apply schedule_after_qg. Qed.
Lemma schedule_tasks_affected_by_qk w r : qk w (schedule_tasks_affected_by RC w r).
Proof.
  unfold schedule_tasks_affected_by. cbv zeta. eapply qk_trans; [|apply qk_emit; reflexivity].
  eapply qk_trans; [|apply (fold_qg (try_schedule_edge RC false)); intros; apply try_schedule_edge_qg]. eapply qk_trans; [|apply qk_goc_res]. apply qk_emit; reflexivity.
Qed.

Lemma fold_post {X} (f : world -> X -> world) (I : world -> Prop) (Post : X -> world -> Prop) l :
  (forall w x, I w -> I (f w x)) -> (forall w x, I w -> Post x (f w x)) -> (forall w x y, I w -> Post y w -> Post y (f w x)) ->
  forall w, I w -> I (fold_left f l w) /\ forall x, In x l -> Post x (fold_left f l w).
Proof.
  intros HI HP HM. induction l as [|a tl IH]; intros w Hw; cbn [fold_left]; [split; [exact Hw|intros x []]|].
  destruct (IH (f w a) (HI w a Hw)) as [I1 P1]. split; [exact I1|]. intros x [<-|Ix]; [|apply P1; exact Ix].
  clear IH P1 I1. assert (G : forall l' w', I w' -> Post a w' -> Post a (fold_left f l' w')).
  { induction l' as [|b l' IH']; intros w' Iw' Pw'; cbn [fold_left]; [exact Pw'|apply IH'; [apply HI; exact Iw'|apply HM; assumption]]. }
  apply G; [apply HI; exact Hw|apply HP; exact Hw].
Qed.

(* the check made for an incoming read edge: consistent, or the reader is queued *)
Definition PostE (w0 : world) (p : node * option dep) (w : world) : Prop :=
  match snd p with
  | Some (DRead r c st) => rc_check (RC c) (env w0) r (get_content w0 r) st = Consistent \/ In (un (fst p)) (queue w)
  | _ => True
  end.
Lemma try_schedule_edge_post w0 b w p : qg w0 w -> PostE w0 p (try_schedule_edge RC b w p).
Proof.
  intros [[_ [[K1 [K2 _]] _]] _]. unfold PostE, try_schedule_edge. destruct (snd p) as [[|y c st|r c st|r c st]|]; try exact Logic.I.
  unfold try_schedule. cbv zeta. cbn [env emit]. change (get_content (emit w (ECheckReadResStart (un (fst p)) c st)) r) with (get_content w r).
  rewrite K1, K2. destruct (rc_check (RC c) (env w0) r (get_content w0 r) st); [left; reflexivity|right; apply In_queue_add|right; apply In_queue_add].
Qed.
Lemma PostE_qg w0 p w w' : qg w w' -> PostE w0 p w -> PostE w0 p w'.
Proof. intros [[_ [_ [_ Q0]]] _]. unfold PostE. destruct (snd p) as [[|y c st|r c st|r c st]|]; trivial. intros [A|A]; [left; exact A|right; apply Q0; exact A]. Qed.

Definition PostR (w0 : world) (r : res) (w : world) : Prop := forall p, In p (incoming w0 (rn r)) -> PostE w0 p w.
Lemma schedule_by_written_post w0 w r : qg w0 w -> PostR w0 r (schedule_by_written RC w r).
Proof.
  intros Hq p Ip. unfold schedule_by_written. cbv zeta. set (w1 := emit w (ESchedByResStart r)).
  assert (Q1 : qg w0 w1) by (eapply qg_trans; [exact Hq|apply qg_emit; reflexivity]).
  assert (Inc : incoming w1 (rn r) = incoming w0 (rn r)) by apply (proj2 Q1).
  rewrite Inc.
  destruct (fold_post (try_schedule_edge RC true) (qg w0) (PostE w0) (incoming w0 (rn r))
              ltac:(intros w' x Hw'; eapply qg_trans; [exact Hw'|apply try_schedule_edge_qg])
              ltac:(intros w' x Hw'; apply try_schedule_edge_post; exact Hw')
              ltac:(intros w' x y Hw' Py; eapply PostE_qg; [apply try_schedule_edge_qg|exact Py]) w1 Q1) as [_ X].
  eapply PostE_qg; [apply qg_emit; reflexivity|]. apply X. exact Ip.
Qed.
Lemma PostR_qg w0 r w w' : qg w w' -> PostR w0 r w -> PostR w0 r w'.
Proof. intros Hq H p Ip. eapply PostE_qg; [exact Hq|apply H; exact Ip]. Qed.

Definition PostQ (o : Z) (p : node * option dep) (w : world) : Prop :=
  match snd p with
  | Some (DRequire _ c st) => oc_check (OC c) o st = true \/ In (un (fst p)) (queue w)
  | _ => True
  end.
Lemma schedule_requirer_post o w p : PostQ o p (schedule_requirer OC o w p).
Proof.
  unfold PostQ, schedule_requirer. destruct (snd p) as [[|y c st|r c st|r c st]|]; try exact Logic.I. cbv zeta.
  destruct (oc_check (OC c) o st); [left; reflexivity|right; apply In_queue_add].
Qed.
Lemma PostQ_qg o p w w' : qg w w' -> PostQ o p w -> PostQ o p w'.
Proof. intros [[_ [_ [_ Q0]]] _]. unfold PostQ. destruct (snd p) as [[|y c st|r c st|r c st]|]; trivial. intros [A|A]; [left; exact A|right; apply Q0; exact A]. Qed.

Lemma Psi_schedule_after w t o : StoreOK w -> get_task_output w t = Some o -> Psi None (Some t) w -> Psi None None (schedule_after RC OC w t o).
Proof.
  intros HS0 Ho HP. pose proof (schedule_after_qk w t o) as QK. pose proof (Psi_qk RC OC None (Some t) w _ QK HP) as [HT HO].
  unfold schedule_after in *. cbv zeta in *.
  set (w1 := fold_left (schedule_by_written RC) (resources_written_by w t) w) in *.
  destruct (fold_post (schedule_by_written RC) (qg w) (PostR w) (resources_written_by w t)
              ltac:(intros w' x Hw'; eapply qg_trans; [exact Hw'|apply schedule_by_written_qg])
              ltac:(intros w' x Hw'; apply schedule_by_written_post; exact Hw')
              ltac:(intros w' x y Hw' Py; eapply PostR_qg; [apply schedule_by_written_qg|exact Py]) w (qg_refl w)) as [Q1 PR1]. fold w1 in Q1, PR1.
  set (w2 := emit w1 (ESchedByTaskStart t)) in *.
  assert (Q2 : qg w w2) by (eapply qg_trans; [exact Q1|apply qg_emit; reflexivity]).
  set (w3 := fold_left (schedule_requirer OC o) (incoming w2 (tn t)) w2) in *.
  destruct (fold_post (schedule_requirer OC o) (qg w) (PostQ o) (incoming w2 (tn t))
              ltac:(intros w' x Hw'; eapply qg_trans; [exact Hw'|apply schedule_requirer_qg])
              ltac:(intros w' x Hw'; apply schedule_requirer_post)
              ltac:(intros w' x y Hw' Py; eapply PostQ_qg; [apply schedule_requirer_qg|exact Py]) w2 Q2) as [Q3 PQ3]. fold w3 in Q3, PQ3.
  set (w4 := emit w3 (ESchedByTaskEnd t)) in *. set (w5 := mark_consistent w4 t) in *.
  assert (Q35 : qg w3 w5) by (eapply qg_trans; [apply (qg_emit w3 (ESchedByTaskEnd t)); reflexivity|apply qg_mark]).
  assert (Q15 : qg w1 w5) by (eapply qg_trans; [apply (qg_emit w1 (ESchedByTaskStart t)); reflexivity|]; eapply qg_trans; [|exact Q35]; apply fold_qg; intros; apply schedule_requirer_qg).
  assert (Q05 : qg w w5) by (eapply qg_trans; eassumption).
  assert (Rw : forall x d, row w5 x d = row w x d) by (intros x d; apply (geq_row w w5 x d (proj1 (proj1 Q05)))).
  split; [|exact HO]. intros x _ Ox d dp R.
  destruct (HT x ltac:(discriminate) Ox d dp R) as [G|[G|G]]; [left; exact G|right; left; exact G|].
  rewrite Rw in R. destruct (proj1 (proj2 HS0) _ _ _ R) as [_ Dd].
  destruct dp as [|y c st|r c st|r c st]; cbn [DepExc] in G; try contradiction.
  - destruct G as [G|G]; [right; right; left; exact G|]. inversion G; subst y. cbn in Dd. subst d.
    pose proof (incoming_of_row w x (tn t) _ HS0 R) as Ip.
    assert (Ip2 : In (tn x, Some (DRequire t c st)) (incoming w2 (tn t))) by (rewrite (proj2 Q2); exact Ip).
    pose proof (PQ3 _ Ip2) as PQ. unfold PostQ in PQ. cbn [fst snd] in PQ. rewrite un_tn in PQ.
    destruct PQ as [PQ|PQ]; [left; cbn; exists o; split; [|exact PQ]|right; left; apply (proj2 (proj2 (proj2 (proj1 Q35)))); exact PQ].
    change (get_task_output w5 t = Some o). unfold get_task_output. rewrite (proj2 (proj2 (proj1 (proj2 (proj1 Q05))))). exact Ho.
  - destruct G as [g [[G|G] Wg]]; [right; right; exists g; split; [left; exact G|exact Wg]|]. inversion G; subst g. cbn in Dd. subst d.
    destruct Wg as [dpw [Rw5 Iw]]. rewrite Rw in Rw5.
    pose proof (PR1 r (written_of_row w t r dpw HS0 Rw5 Iw) _ (incoming_of_row w x (rn r) _ HS0 R)) as PE. unfold PostE in PE. cbn [fst snd] in PE. rewrite un_tn in PE.
    destruct PE as [PE|PE]; [left; cbn|right; left; apply (proj2 (proj2 (proj2 (proj1 Q15)))); exact PE].
    destruct (proj1 (proj2 (proj1 Q05))) as [K1 [K2 _]]. change (rc_check (RC c) (env w5) r (get_content w5 r) st = Consistent). rewrite K1, K2. exact PE.
Qed.
(* ---- tasks executed as "new" (no output before) have no dependents; tracked while they execute ---- *)
Definition DepOn (dp : dep) (t : task) : Prop :=
  match dp with DRequire y _ _ => y = t | DRead r _ _ => gen r = Some t | _ => False end.
Definition NoDep (w : world) (t : task) : Prop :=
  forall x, get_task_output w x <> None -> forall d dp, row w x d = Some dp -> ~ DepOn dp t.
Definition ND (F : task -> Prop) (w : world) : Prop := forall t, F t -> opn w t /\ NoDep w t.
Definition Psi3 (own e : option task) (F : task -> Prop) (w : world) : Prop := Psi own e w /\ ND F w.

Lemma ND_step F w w' : (forall t, opn w t -> opn w' t) ->
  (forall x, get_task_output w' x <> None -> get_task_output w x <> None /\ forall d, row w' x d = row w x d) -> ND F w -> ND F w'.
Proof.
  intros Ho Hr H t Ft. destruct (H t Ft) as [Ot Nt]. split; [apply Ho; exact Ot|].
  intros x Ox d dp R. destruct (Hr x Ox) as [Ox' Rx]. rewrite Rx in R. exact (Nt x Ox' d dp R).
Qed.
Lemma ND_qk F w w' : qk w w' -> ND F w -> ND F w'.
Proof.
  intros [G [[_ [_ K3]] [O _]]]. apply ND_step; [intros t; unfold opn; rewrite O; trivial|].
  intros x Ox. unfold get_task_output in *. rewrite K3 in Ox. split; [exact Ox|intros d; apply (geq_row w w' x d G)].
Qed.
Lemma ND_pop F w q : ND F w -> ND F (set_queue w q).
Proof. apply ND_step; [trivial|intros x Ox; split; [exact Ox|reflexivity]]. Qed.
Lemma ND_start F w m : StoreOK w -> ND F w -> ND F (startw w m).
Proof.
  intros HS0. destruct (reset_task_facts w m HS0) as [_ [_ [_ [R4 [_ [_ [R7 [_ [R9 R10]]]]]]]]].
  apply ND_step.
  - intros t Ot. unfold opn, startw. change (opens (trace (emit (set_cur (reset_task w m) (Some m)) (EExecStart m)))) with (m :: opens (trace (reset_task w m))). rewrite R4. right. exact Ot.
  - intros x Ox. change (get_task_output (reset_task w m) x <> None) in Ox. assert (Hx : x <> m) by (intros ->; apply Ox; exact R9).
    rewrite (R10 x Hx) in Ox. split; [exact Ox|]. intros d. unfold row. change (gr (startw w m)) with (gr (reset_task w m)). apply R7. intros E. apply tn_inj in E. contradiction.
Qed.
(* a task without output that is not executing has no dependents *)
Lemma NoDep_new w m : StoreOK w -> V w -> HB w -> Q w -> get_task_output w m = None -> ~ opn w m -> NoDep w m.
Proof.
  intros HS0 HV Hh Hq Ho Hm x Ox d dp R Dn. destruct (proj1 (proj2 HS0) _ _ _ R) as [_ Dd].
  destruct dp as [|y c st|r c st|r c st]; cbn in Dn; try contradiction.
  - subst y. cbn in Dd. subst d. destruct (Hh x m c st R) as [Y|Y]; [exact (Y Ho)|exact (Hm Y)].
  - cbn in Dd. subst d. destruct (proj2 (proj2 (Hq x)) r _ R eq_refl) as [G|[g [G Bf]]]; [congruence|]. rewrite Dn in G. inversion G; subst g.
    pose proof (before_in _ _ _ Bf) as Ik. pose proof (proj2 (wf_edata _ (proj1 HS0) (tn x) (tn m)) Ik) as X.
    destruct (get_edata (gr w) (tn x) (tn m)) as [d0|] eqn:Ed; [|contradiction]. destruct (proj1 (proj2 HS0) _ _ _ Ed) as [_ D0].
    destruct d0 as [|y' c' st'|r0 c' st'|r0 c' st']; cbn in D0.
    + apply Ox. apply (proj1 HV x (tn m)). exact Ed.
    + apply tn_inj in D0. subst y'. destruct (Hh x m c' st' Ed) as [Y|Y]; [exact (Y Ho)|exact (Hm Y)].
    + exact (tn_rn _ _ D0).
    + exact (tn_rn _ _ D0).
Qed.
Lemma ND_start_new F w m : StoreOK w -> V w -> HB w -> Q w -> get_task_output w m = None -> ~ opn w m -> ND F w ->
  ND (fun t => t = m \/ F t) (startw w m).
Proof.
  intros HS0 HV Hh Hq Ho Hm H. pose proof (ND_start F w m HS0 H) as H'. pose proof (ND_start (fun t => t = m) w m HS0) as Hn.
  intros t [->|Ft]; [|apply H'; exact Ft]. split.
  - unfold opn, startw. change (opens (trace (emit (set_cur (reset_task w m) (Some m)) (EExecStart m)))) with (m :: opens (trace (reset_task w m))). left. reflexivity.
  - destruct (reset_task_facts w m HS0) as [_ [_ [_ [_ [_ [_ [R7 [_ [R9 R10]]]]]]]]].
    intros x Ox d dp R. change (get_task_output (reset_task w m) x <> None) in Ox. assert (Hx : x <> m) by (intros ->; apply Ox; exact R9).
    rewrite (R10 x Hx) in Ox. unfold row in R. change (gr (startw w m)) with (gr (reset_task w m)) in R. rewrite R7 in R by (intros E; apply tn_inj in E; contradiction).
    exact (NoDep_new w m HS0 HV Hh Hq Ho Hm x Ox d dp R).
Qed.
(* the end of an execution of m: the dependencies m recorded are on consistent tasks, none of which is executing *)
Lemma ND_end F w m o c : StoreOK w -> Q w -> Om w -> opn w m -> OF w m -> ~ F m -> ND F w -> ND F (endw w m o c).
Proof.
  intros HS0 Hq [A [C D]] Om0 HF Fm H t Ft. destruct (H t Ft) as [Ot Nt]. assert (Htm : t <> m) by (intros ->; contradiction).
  split; [apply opn_end; split; assumption|]. intros x Ox d dp R Dn. change (row w x d = Some dp) in R.
  destruct (N.eq_dec x m) as [->|Hx].
  - assert (Ct : isC w t).
    { destruct dp as [|y c' st|r c' st|r c' st]; cbn in Dn; try contradiction.
      - subst y. apply (C m t Om0). left. exists c', st. destruct (proj1 (proj2 HS0) _ _ _ R) as [_ Dd]. cbn in Dd. subst d. exact R.
      - apply (C m t Om0). right. exists r, (DRead r c' st). destruct (proj1 (proj2 HS0) _ _ _ R) as [_ Dd]. cbn in Dd. subst d. split; [exact R|split; [reflexivity|exact Dn]]. }
    exact (proj1 (A t t Ct (or_introl eq_refl)) Ot).
  - change (alookup (aset (outs w) m o) x <> None) in Ox. rewrite alookup_aset_other in Ox by exact Hx. exact (Nt x Ox d dp R Dn).
Qed.
(* ... and the finished "new" task itself has no dependents: its excuse can be dropped *)
Lemma NoDep_end_self w m o c : StoreOK w -> Q w -> Om w -> opn w m -> NoDep w m -> NoDep (endw w m o c) m.
Proof.
  intros HS0 Hq [A [C D]] Om0 Nm x Ox d dp R Dn. change (row w x d = Some dp) in R.
  destruct (N.eq_dec x m) as [->|Hx].
  - assert (Cm : isC w m).
    { destruct dp as [|y c' st|r c' st|r c' st]; cbn in Dn; try contradiction.
      - subst y. apply (C m m Om0). left. exists c', st. destruct (proj1 (proj2 HS0) _ _ _ R) as [_ Dd]. cbn in Dd. subst d. exact R.
      - apply (C m m Om0). right. exists r, (DRead r c' st). destruct (proj1 (proj2 HS0) _ _ _ R) as [_ Dd]. cbn in Dd. subst d. split; [exact R|split; [reflexivity|exact Dn]]. }
    exact (proj1 (A m m Cm (or_introl eq_refl)) Om0).
  - change (alookup (aset (outs w) m o) x <> None) in Ox. rewrite alookup_aset_other in Ox by exact Hx. exact (Nm x Ox d dp R Dn).
Qed.
Lemma PhiT_discharge w t : StoreOK w -> Q w -> NoDep w t -> PhiT None (Some t) w -> PhiT None None w.
Proof.
  intros HS0 Hq Nt HT x Hx Ox d dp R. destruct (HT x Hx Ox d dp R) as [G|[G|G]]; [left; exact G|right; left; exact G|right; right].
  destruct dp as [|y c st|r c st|r c st]; cbn [DepExc] in *; try contradiction.
  - destruct G as [G|G]; [left; exact G|]. exfalso. inversion G; subst y. exact (Nt x Ox d _ R eq_refl).
  - destruct G as [g [[G|G] Wg]]; [exists g; split; [left; exact G|exact Wg]|]. exfalso. inversion G; subst g.
    destruct Wg as [dpw [Rw Iw]]. exact (Nt x Ox d _ R (proj1 (proj2 (Hq t)) r dpw Rw Iw)).
Qed.
(* ---- the interpreters ---- *)
Notation reqf := (reqf RC OC P).
Notation OREQ := (OREQ gen ord RC OC P sf).
Notation OMC := (OMC gen ord RC OC P sf).

Lemma Psi3_qk own e F w w' : qk w w' -> Psi3 own e F w -> Psi3 own e F w'.
Proof. intros Hq [A0 B0]. split; [eapply Psi_qk; eassumption|eapply ND_qk; eassumption]. Qed.
(* a step that changes only the dependency row of the executing task s *)
Lemma ND_cur F s w w' : get_task_output w s = None -> outs w' = outs w -> opens (trace w') = opens (trace w) ->
  (forall x d, x <> s -> row w' x d = row w x d) -> ND F w -> ND F w'.
Proof.
  intros Ho Ou Op Rows. apply ND_step; [intros t; unfold opn; rewrite Op; trivial|].
  intros x Ox. unfold get_task_output in *. rewrite Ou in Ox. split; [exact Ox|]. intros d. apply Rows. intros ->. apply Ox. exact Ho.
Qed.

Definition UREQ (req : world -> task -> ocid -> outcome Z) : Prop :=
  forall F w x c s, B (Some s) w -> cur w = Some s -> (ord x < ord s)%nat -> ~ In (tn x) (kidsT w s) -> Om w -> TT None w -> OF w s ->
    Psi3 None None F w -> okO (req w x c) (fun _ w' => Psi3 None None F w').
Definition UMC (mc : world -> task -> outcome Z) : Prop :=
  forall F a w t, B a w -> live (gr w) (tn t) = true -> reach a w t -> Om w -> TT None w -> Psi3 None None F w ->
    okO (mc w t) (fun _ w' => Psi3 None None F w').

Lemma Psi3_leaf F t w w1 r dp : LeafStep gen ord RC OC P sf t w w1 (rn r) dp -> B (Some t) w -> cur w = Some t -> Om w ->
  (forall r', r' <> r -> get_content w1 r' = get_content w r') -> env w1 = env w ->
  (is_write (Some dp) = false -> get_content w1 r = get_content w r) -> (is_write (Some dp) = true -> gen r = Some t) ->
  (is_write (Some dp) = true \/ is_read (Some dp) = true) ->
  DepGood w1 dp -> ~ In (rn r) (kidsT w t) -> Psi3 None None F w -> Psi3 None None F w1.
Proof.
  intros LS HB0 Hc HO CK EK Rd Wr RW Gd Nr [HP HN]. split; [eapply Psi_leaf; eassumption|].
  apply (ND_cur F t w w1); [apply (cur_no_output (Some t) w t (proj1 HB0) Hc)|apply (lf_outs _ _ _ (ls_leaf _ _ _ _ _ _ _ _ _ _ _ LS))| | |exact HN].
  - destruct (ls_q3 _ _ _ _ _ _ _ _ _ _ _ LS) as [[s0 [T0 F0]] _]. rewrite T0. apply opens_app3. exact F0.
  - intros x d Hx. apply (lf_eother _ _ _ (ls_leaf _ _ _ _ _ _ _ _ _ _ _ LS)). intros E. apply tn_inj in E. contradiction.
Qed.

Lemma exec_prog_U f t : OREQ (reqf f) -> UREQ (reqf f) -> forall F p w, B (Some t) w -> cur w = Some t -> Om w -> TT None w -> OF w t ->
  Psi3 None None F w -> WFP gen wck t (kidsT w t) p -> WFO ord t p ->
  okO (exec_prog RC OC (reqf f) p w) (fun _ w' => Psi3 None None F w').
Proof.
  intros HR HU F. induction p as [o| |x c k IH|r c k IH|r c v k IH|r c v k IH]; intros w HB0 Hc HO HT HF HP HW HWo; cbn [exec_prog okO].
  - exact HP.
  - exact Logic.I.
  - inversion HW as [| |sn x' c' k' Hx Hk| | |]; subst. inversion HWo as [|x' c' k' Hox Hok| | |]; subst.
    destruct (BREQ gen wck ord RC OC P sf HS HWF HWO f w x c t HB0 Hc Hox Hx) as [BQ RS]. pose proof (HR w x c t HB0 Hc Hox Hx HO HT HF) as RO.
    pose proof (HU F w x c t HB0 Hc Hox Hx HO HT HF HP) as RU.
    destruct (reqf f w x c) as [ox w1|k1 w1|]; cbn [bind okB okO] in *; [|exact Logic.I|exact Logic.I].
    destruct BQ as [B1 [C1 _]]. rewrite Hc in C1. destruct (RS ox w1 eq_refl) as [RK [RD RO']]. destruct RO as [O1 T1].
    assert (F1 : OF w1 t) by (intros d; destruct (N.eq_dec d (tn x)) as [->|Hne]; [rewrite RD; discriminate|rewrite (RO' d Hne); apply HF]).
    specialize (IH (oc_view (OC c) ox) w1 B1 C1 O1 T1 F1 RU). rewrite RK in IH. exact (IH (Hk _) (Hok _)).
  - inversion HW as [| | |sn r' c' k' Hx Hg Hk| |]; subst. inversion HWo as [| |r' c' k' Hok| |]; subst.
    destruct (B_read gen ord RC OC P sf HS w t r c HB0 Hc Hx Hg) as [xv [w1 [Eq [Ex LS]]]].
    destruct (Sim.sess_read_done RC sf HS w t r c xv w1 Hc Eq) as [_ [S1 S2 _ _]]. rewrite Eq. cbn [bind].
    destruct (Om_leaf gen ord RC OC P sf t w w1 r _ LS HB0 Hc HO HF ltac:(discriminate) ltac:(intros; discriminate) ltac:(intros _; exact Hg)) as [O1 [F1 T1]].
    assert (U1 : Psi3 None None F w1).
    { apply (Psi3_leaf F t w w1 r _ LS HB0 Hc HO); [intros r' _; apply S1|exact S2|intros _; apply S1|intros X; discriminate|right; reflexivity| |exact Hx|exact HP].
      cbn. rewrite S1, S2. apply HRefl. }
    specialize (IH xv w1 (ls_B _ _ _ _ _ _ _ _ _ _ _ LS) (ls_cur _ _ _ _ _ _ _ _ _ _ _ LS) O1 (T1 _ HT) F1 U1). rewrite (proj1 (ls_row _ _ _ _ _ _ _ _ _ _ _ LS)) in IH. exact (IH (Hk _) (Hok _)).
  - inversion HW as [| | | |sn r' c' v' k' Hx Hg Hwc Hk|]; subst. inversion HWo as [| | |r' c' v' k' Hok|]; subst.
    destruct (B_write gen ord RC OC P sf HS w t r c v HB0 Hc Hx Hg) as [xv [w1 [Eq [Ex LS]]]].
    destruct (Sim.sess_write_done RC sf HS w t r c v xv w1 Hc Eq) as [_ [W1 [W2 [W3 _]]]]. rewrite Eq. cbn [bind].
    destruct (Om_leaf gen ord RC OC P sf t w w1 r _ LS HB0 Hc HO HF ltac:(discriminate) ltac:(intros; discriminate) ltac:(intros X; discriminate)) as [O1 [F1 T1]].
    assert (U1 : Psi3 None None F w1).
    { apply (Psi3_leaf F t w w1 r _ LS HB0 Hc HO); [exact W2|exact W3|intros X; discriminate|intros _; exact Hg|left; reflexivity| |exact Hx|exact HP].
      cbn. rewrite W1, W3. apply HRefl. }
    specialize (IH xv w1 (ls_B _ _ _ _ _ _ _ _ _ _ _ LS) (ls_cur _ _ _ _ _ _ _ _ _ _ _ LS) O1 (T1 _ HT) F1 U1). rewrite (proj1 (ls_row _ _ _ _ _ _ _ _ _ _ _ LS)) in IH. exact (IH (Hk _) (Hok _)).
  - inversion HW as [| | | | |sn r' c' v' k' Hx Hg Hwc Hk]; subst. inversion HWo as [| | | |r' c' v' k' Hok]; subst.
    destruct (B_written_to gen ord RC OC P sf HS w t r c v HB0 Hc Hx Hg) as [xv [w1 [Eq [Ex LS]]]].
    destruct (Sim.sess_written_to_done RC sf HS w t r c v xv w1 Hc Eq) as [_ [W1 [W2 [W3 _]]]]. rewrite Eq. cbn [bind].
    destruct (Om_leaf gen ord RC OC P sf t w w1 r _ LS HB0 Hc HO HF ltac:(discriminate) ltac:(intros; discriminate) ltac:(intros X; discriminate)) as [O1 [F1 T1]].
    assert (U1 : Psi3 None None F w1).
    { apply (Psi3_leaf F t w w1 r _ LS HB0 Hc HO); [exact W2|exact W3|intros X; discriminate|intros _; exact Hg|left; reflexivity| |exact Hx|exact HP].
      cbn. rewrite W1, W3. apply HRefl. }
    specialize (IH xv w1 (ls_B _ _ _ _ _ _ _ _ _ _ _ LS) (ls_cur _ _ _ _ _ _ _ _ _ _ _ LS) O1 (T1 _ HT) F1 U1). rewrite (proj1 (ls_row _ _ _ _ _ _ _ _ _ _ _ LS)) in IH. exact (IH (Hk _) (Hok _)).
Qed.
Lemma open_no_output a w t : B a w -> opn w t -> get_task_output w t = None.
Proof. intros HB0 Ot. apply (proj1 (proj2 (proj2 (B_V gen ord RC OC P sf a w HB0)))). exact Ot. Qed.

Lemma execute_with_U f a w t F (isnew : bool) : OREQ (reqf f) -> UREQ (reqf f) -> B a w -> live (gr w) (tn t) = true -> reach a w t ->
  Om w -> TT None w -> P3 w t -> ~ In t (queue w) -> (isnew = true -> get_task_output w t = None) ->
  Psi3 (if isnew then None else Some t) None F w ->
  okO (execute_with RC OC P (reqf f) w t) (fun _ w1 => Psi3 None (if isnew then None else Some t) F w1).
Proof.
  intros HR HU HB0 Lt R HO HT HP Hq Hnew [HPs HN]. pose proof (BEX gen wck ord RC OC P sf HS HWF HWO f a w t HB0 Lt R) as XB.
  unfold execute_with in *. fold (startw w t) in *.
  destruct (start_B gen ord RC OC P sf a w t HB0 Lt R) as [B2 [KT2 [Hnot HF2]]].
  assert (NC : ~ isC w t) by (intros X; exact (HP t X (or_introl eq_refl))).
  pose proof (Om_start gen w t (B_S gen ord RC OC P sf _ w HB0) HO HP Hq) as O2. fold (startw w t) in O2.
  pose proof (TT_start w t HT NC Hnot) as T2. fold (startw w t) in T2.
  assert (NFt : ~ F t) by (intros X; exact (Hnot (proj1 (HN t X)))).
  assert (HPs' : Psi (Some t) None w) by (destruct isnew; [split; [apply PhiT_weaken; apply HPs|apply HPs]|exact HPs]).
  pose proof (Psi_start w t (B_S gen ord RC OC P sf _ w HB0) HO HP Hnot HPs') as P2.
  set (F' := fun x => (isnew = true /\ x = t) \/ F x).
  assert (N2 : ND F' (startw w t)).
  { intros x [[In0 ->]|Fx].
    - apply (ND_start_new F w t (B_S gen ord RC OC P sf _ w HB0) (B_V gen ord RC OC P sf _ w HB0) (proj2 (proj2 (proj2 HB0))) (proj1 (proj2 (proj2 HB0))) (Hnew In0) Hnot HN). left. reflexivity.
    - apply (ND_start F w t (B_S gen ord RC OC P sf _ w HB0) HN). exact Fx. }
  pose proof (exec_prog_O gen wck ord RC OC P sf HS HWF HWO f t HR (P t) (startw w t) B2 eq_refl O2 T2 HF2) as X. rewrite KT2 in X. specialize (X (HWF t) (HWO t)).
  pose proof (exec_prog_U f t HR HU F' (P t) (startw w t) B2 eq_refl O2 T2 HF2 (conj P2 N2)) as XU. rewrite KT2 in XU. specialize (XU (HWF t) (HWO t)).
  destruct (exec_prog RC OC (reqf f) (P t) (startw w t)) as [o w3|k w3|]; cbn [bind okO okB] in *; [|exact Logic.I|exact Logic.I].
  destruct X as [O3 [T3 [F3 [B3 Op3]]]]. destruct XU as [P3' N3].
  assert (Ot3 : opn w3 t) by (unfold opn; rewrite Op3; left; reflexivity).
  fold (endw w3 t o (cur (reset_task w t))) in *. set (w4 := endw w3 t o (cur (reset_task w t))) in *.
  destruct XB as [B4 _].
  pose proof (Psi_end w3 t o (cur (reset_task w t)) (B_S gen ord RC OC P sf _ w3 B3) O3 Ot3 (open_no_output _ w3 t B3 Ot3) F3 P3') as P4. fold w4 in P4.
  assert (N4 : ND F w4).
  { apply (ND_end F w3 t o (cur (reset_task w t)) (B_S gen ord RC OC P sf _ w3 B3) (proj1 (proj2 (proj2 B3))) O3 Ot3 F3 NFt). intros x Fx. apply N3. right. exact Fx. }
  destruct isnew; [|split; assumption].
  split; [|exact N4]. split; [|apply P4].
  apply (PhiT_discharge w4 t (B_S gen ord RC OC P sf _ w4 B4) (proj1 (proj2 (proj2 B4)))); [|apply P4].
  apply (NoDep_end_self w3 t o (cur (reset_task w t)) (B_S gen ord RC OC P sf _ w3 B3) (proj1 (proj2 (proj2 B3))) O3 Ot3). apply (N3 t). left. split; reflexivity.
Qed.

Lemma require_bu_with_U f : OMC (bu_make_consistent RC OC P f) -> UMC (bu_make_consistent RC OC P f) -> UREQ (reqf f).
Proof.
  intros HM HU F w x c s HB0 Hc Ho Hn HO HT HF HP. unfold OnceAll.reqf, require_bu_with, require_with.
  set (w1 := emit w (ERequireStart x c)). set (w2 := get_or_create_task_node w1 x).
  assert (C2 : cur w2 = Some s) by (unfold w2, get_or_create_task_node; destruct (live _ _); exact Hc).
  unfold reserve_require_dependency. rewrite C2.
  destruct (add_dependency w2 (tn s) (tn x) DReserved) as [ar w3] eqn:E.
  destruct ar; cbn [bind okO]; [|exact Logic.I|exact Logic.I].
  destruct (reserve_B gen ord RC OC P sf w s x c w3 HB0 Hc Ho Hn E) as [B2 [QQ2 [B3 [C3 [Lt3 [R3 [EN [ED [ER [Co3 [T3 Qu3]]]]]]]]]]]. fold w1 w2 in B2, QQ2, EN, ED, Co3, T3, Qu3.
  pose proof (Om_qq gen w w2 QQ2 HO) as O2. pose proof (TT_qq None w w2 QQ2 HT) as T2.
  pose proof (cur_opn gen ord RC OC P sf _ w2 s B2 C2) as Os2.
  assert (QK2 : qk w w2) by (eapply qk_trans; [apply (qk_emit w (ERequireStart x c)); reflexivity|apply qk_goc_task]).
  pose proof (Psi3_qk None None F w w2 QK2 HP) as P2.
  assert (O3 : Om w3).
  { apply (Om_grow gen s w2 w3 Os2); [intros n Hn'; apply (proj1 (EN n Hn'))|intros m d Hm; apply (proj2 (EN m Hm))|exact Co3|rewrite T3; reflexivity|exact Qu3| |exact O2].
    intros y N. left. destruct N as [[c' [st' N]]|[r [dp [N [I E']]]]]; unfold row in N.
    - destruct (N.eq_dec (tn y) (tn x)) as [Ey|Ey]; [rewrite Ey, ER in N; discriminate|]. left. exists c', st'. unfold row. rewrite <- (ED _ Ey). exact N.
    - right. exists r, dp. split; [unfold row; rewrite <- (ED (rn r)); [exact N|intros X; symmetry in X; exact (tn_rn _ _ X)]|split; assumption]. }
  pose proof (TT_same None w2 w3 T3 Co3 T2) as TT3.
  assert (KP3 : keep w2 w3) by (pose proof (keep_add_dependency w2 (tn s) (tn x) DReserved) as Y; rewrite E in Y; exact Y).
  assert (Ho2 : get_task_output w2 s = None) by (apply (open_no_output _ w2 s B2 Os2)).
  assert (P3' : Psi3 None None F w3).
  { split; [apply (Psi_reserve None None s x w2 w3 Os2 Ho2 EN ED ER T3 Qu3 KP3); apply P2|].
    apply (ND_cur F s w2 w3 Ho2 (proj2 (proj2 KP3))); [rewrite T3; reflexivity| |apply P2].
    intros y d Hy. apply (proj2 (EN (tn y) ltac:(intros X; apply tn_inj in X; contradiction))). }
  pose proof (HM (Some s) w3 x B3 Lt3 R3 O3 TT3) as MO. pose proof (BMC gen wck ord RC OC P sf HS HWF HWO f (Some s) w3 x B3 Lt3 R3) as MB.
  pose proof (HU F (Some s) w3 x B3 Lt3 R3 O3 TT3 P3') as MU. pose proof (proj1 (proj2 (bu_out RC OC P f)) w3 x) as MOut.
  destruct (bu_make_consistent RC OC P f w3 x) as [o w4|k w4|]; cbn [bind okO okB outIs] in *; [|exact Logic.I|exact Logic.I].
  destruct MB as [B4 [C4 [_ [_ Op4]]]]. destruct MO as [O4 [T4 F4]].
  set (st := oc_stamp (OC c) o). set (w5 := emit w4 (ERequireEnd x c st o)).
  unfold update_require_dependency. change (cur w5) with (cur w4). rewrite C4, C3. change (gr w5) with (gr w4).
  destruct (get_edata (gr w4) (tn s) (tn x)) as [old|]; cbn [bind okO]; [|exact Logic.I].
  assert (Os4 : opn w4 s) by (unfold opn; rewrite Op4, T3; exact Os2).
  assert (Q5 : qk w4 w5) by (apply qk_emit; reflexivity).
  pose proof (Psi3_qk None None F w4 w5 Q5 MU) as P5.
  assert (Os5 : opn w5 s) by (unfold opn; rewrite (proj1 (proj2 (proj2 Q5))); exact Os4).
  assert (Ho5 : get_task_output w5 s = None) by (change (get_task_output w4 s = None); apply (open_no_output _ w4 s B4 Os4)).
  change (set_gr w5 (insert_edata (gr w4) (tn s) (tn x) (DRequire x c st))) with (set_gr w5 (insert_edata (gr w5) (tn s) (tn x) (DRequire x c st))).
  split; [apply (Psi_update_mark None None s x c o w5 Os5 Ho5 MOut); apply P5|].
  apply (ND_cur F s w5); [exact Ho5|reflexivity|reflexivity| |apply P5].
  intros y d Hy. unfold row. change (gr (mark_consistent (set_gr w5 (insert_edata (gr w5) (tn s) (tn x) (DRequire x c st))) x)) with (insert_edata (gr w5) (tn s) (tn x) (DRequire x c st)).
  rewrite get_edata_insert. destruct (pair_eqb (tn s, tn x) (tn y, d)) eqn:Z; [|reflexivity]. apply pair_eqb_eq in Z. inversion Z as [[Z1 Z2]]. apply tn_inj in Z1. congruence.
Qed.

Definition UBU (f : nat) : Prop :=
  (forall F a w t, B a w -> live (gr w) (tn t) = true -> reach a w t -> Om w -> TT None w -> P3 w t -> ~ In t (queue w) -> Psi3 (Some t) None F w ->
     okO (bu_execute_and_schedule RC OC P f w t) (fun _ w' => Psi3 None None F w')) /\
  UMC (bu_make_consistent RC OC P f) /\
  (forall F a w t, B a w -> reach a w t -> Om w -> TT None w -> Psi3 None None F w ->
     okO (bu_require_scheduled_now RC OC P f w t) (fun _ w' => Psi3 None None F w')).

Theorem bottom_up_U f : UBU f.
Proof.
  induction f as [|f [IH1 [IH2 IH3]]]; [repeat split; intros; exact Logic.I|].
  destruct (bottom_up_O gen wck ord RC OC P sf HS HWF HWO f) as [OB1 [OB2 OB3]].
  assert (HR : OREQ (reqf f)) by (apply (require_bu_with_O gen wck ord RC OC P sf HS HWF HWO); exact OB2).
  assert (HU : UREQ (reqf f)) by (apply require_bu_with_U; assumption).
  split; [|split].
  - intros F a w t HB0 Lt R HO HT HP Hq HPs. rewrite bes_S. fold (reqf f).
    pose proof (execute_with_O gen wck ord RC OC P sf HS HWF HWO f a w t HR HB0 Lt R HO HT HP Hq) as X.
    pose proof (BEX gen wck ord RC OC P sf HS HWF HWO f a w t HB0 Lt R) as XB.
    pose proof (execute_with_U f a w t F false HR HU HB0 Lt R HO HT HP Hq ltac:(discriminate) HPs) as XU.
    pose proof (execute_with_out RC OC P (reqf f) w t) as XO.
    destruct (execute_with RC OC P (reqf f) w t) as [o w1|k w1|]; cbn [bind okO okB outIs] in *; [|exact Logic.I|exact Logic.I].
    destruct XU as [P1 N1]. split; [apply (Psi_schedule_after w1 t o (B_S gen ord RC OC P sf _ w1 (proj1 XB)) XO P1)|].
    apply (ND_qk F w1); [apply schedule_after_qk|exact N1].
  - intros F a w t HB0 Lt R HO HT HPs. rewrite bmc_S. fold (reqf f).
    destruct (memN t (consistent w)) eqn:Mc; [destruct (get_task_output w t); cbn [okO]; [exact HPs|exact Logic.I]|].
    destruct ((match get_task_output w t with None => true | Some _ => false end) && negb (memN t (queue w)))%bool eqn:Cond.
    + apply andb_true_iff in Cond. destruct Cond as [C1 C2]. apply negb_true_iff in C2. apply memN_false in C2.
      assert (Hno : get_task_output w t = None) by (destruct (get_task_output w t); [discriminate|reflexivity]).
      assert (HP : P3 w t).
      { intros c Hc Rc. apply (reachC_out gen w c t (B_S gen ord RC OC P sf _ w HB0) (B_V gen ord RC OC P sf _ w HB0) (proj2 (proj2 (proj2 HB0))) HO Hc Rc). exact Hno. }
      apply (execute_with_U f a w t F true HR HU HB0 Lt R HO HT HP C2 (fun _ => Hno) HPs).
    + pose proof (OB3 a w t HB0 R HO HT) as X. pose proof (BRSN gen wck ord RC OC P sf HS HWF HWO f a w t HB0 R) as XB.
      pose proof (IH3 F a w t HB0 R HO HT HPs) as XU.
      destruct (bu_require_scheduled_now RC OC P f w t) as [r w1|k w1|]; cbn [bind okO okB] in *; [|exact Logic.I|exact Logic.I].
      destruct r as [o|]; [exact XU|]. destruct (get_task_output w1 t); cbn [okO]; [exact XU|exact Logic.I].
  - intros F a w t HB0 R HO HT HPs. rewrite rsn_S. destruct (queue w) as [|q0 qs] eqn:Qe; [exact HPs|].
    destruct (pop_least_from w t) as [[m w1]|] eqn:X; [|exact HPs].
    destruct (pop_least_from_max w t m w1 X) as [Im [_ [_ [Qi G1]]]].
    destruct (pop_least_L RC OC P w t m w1 (B_L gen ord RC OC P sf _ w HB0) X) as [L1 [_ Lm]].
    assert (W1 : w1 = set_queue w (removeN m (sort_queue w))) by (unfold pop_least_from in X; destruct (find _ _); inversion X; reflexivity).
    rewrite W1 in L1. destruct (pop_B gen ord RC OC P sf a w m HB0 L1) as [B1 QQ1].
    assert (U1 : Psi3 (Some m) None F w1) by (rewrite W1; split; [apply Psi_pop; apply HPs|apply ND_pop; apply HPs]).
    rewrite <- W1 in B1, QQ1.
    assert (Lm1 : live (gr w1) (tn m) = true) by (rewrite G1; exact Lm).
    assert (R1 : reach a w1 t) by (intros c Hc; rewrite G1; apply R; exact Hc).
    pose proof (Om_qq gen w w1 QQ1 HO) as O1. pose proof (TT_qq None w w1 QQ1 HT) as T1.
    pose proof (P3_qq w w1 m QQ1 (queued_P3 gen w m HO Im)) as P1.
    assert (NQ1 : ~ In m (queue w1)) by (intros Y; apply Qi in Y; apply (proj2 Y); reflexivity).
    destruct (pop_least_reach w t m w1 (B_S gen ord RC OC P sf _ w HB0) X) as [Em|Pm].
    + subst m. rewrite N.eqb_refl. pose proof (IH1 F a w1 t B1 Lm1 R1 O1 T1 P1 NQ1 U1) as Y.
      destruct (bu_execute_and_schedule RC OC P f w1 t) as [o w2|k w2|]; cbn [bind okO] in *; [exact Y|exact Logic.I|exact Logic.I].
    + assert (Hmt : m <> t) by (intros ->; exact (WF_acyclic (gr w) (tn t) (proj1 (B_S gen ord RC OC P sf _ w HB0)) Pm)).
      destruct (N.eqb_spec m t) as [|_]; [contradiction|].
      assert (Pm1 : path (gr w1) (tn t) (tn m)) by (rewrite G1; exact Pm).
      assert (PS : B (Some t) w1).
      { destruct B1 as [[[LL [HOI NNt]] VV] RR]. split; [split; [split; [exact LL|split; [eapply OI_strengthen; [exact HOI|exact R1]|exact NNt]]|exact VV]|exact RR]. }
      assert (RS : reach (Some t) w1 m) by (intros c Hc; inversion Hc; subst c; exact Pm1).
      pose proof (OB1 (Some t) w1 m PS Lm1 RS O1 T1 P1 NQ1) as Y. pose proof (BES gen wck ord RC OC P sf HS HWF HWO f (Some t) w1 m PS Lm1 RS) as YB.
      pose proof (IH1 F (Some t) w1 m PS Lm1 RS O1 T1 P1 NQ1 U1) as YU.
      destruct (bu_execute_and_schedule RC OC P f w1 m) as [o w2|k w2|]; cbn [bind okO okB] in *; [|exact Logic.I|exact Logic.I].
      destruct YB as [B2s [C2 [M2 [F2 Op2]]]]. destruct Y as [O2 [T2 _]].
      assert (Fa : FrameO a w1 w2) by (eapply FrameO_weaken; eassumption).
      assert (B2 : B a w2) by (eapply B_reanchor; eassumption).
      assert (R2 : reach a w2 t) by (eapply reach_pres; eassumption).
      apply (IH3 F a w2 t B2 R2 O2 T2 YU).
Qed.
Theorem execute_scheduled_U f : forall F w, B None w -> Om w -> TT None w -> Psi3 None None F w ->
  okO (execute_scheduled RC OC P f w) (fun _ w' => Psi3 None None F w' /\ Om w' /\ B None w' /\ queue w' = []).
Proof.
  induction f as [|f IH]; intros F w HB0 HO HT HPs; [exact Logic.I|]. rewrite es_S.
  destruct (queue_pop w) as [[t w1]|] eqn:X.
  2:{ cbn [okO]. split; [exact HPs|]. split; [exact HO|]. split; [exact HB0|]. unfold queue_pop in X. destruct (rev (sort_queue w)) eqn:E; [|discriminate].
      destruct (queue w) as [|q qs] eqn:Qe; [reflexivity|]. exfalso. assert (In q (rev (sort_queue w))) by (apply in_rev; rewrite rev_involutive; apply In_sort_queue; rewrite Qe; left; reflexivity).
      rewrite E in H. destruct H. }
  destruct (queue_pop_max w t w1 X) as [Im [_ [Qi [G1 _]]]].
  destruct (queue_pop_L RC OC P w t w1 (B_L gen ord RC OC P sf _ w HB0) X) as [L1 [_ Lt]].
  assert (W1 : w1 = set_queue w (removeN t (sort_queue w))) by (unfold queue_pop in X; destruct (rev (sort_queue w)); [discriminate|inversion X; reflexivity]).
  rewrite W1 in L1. destruct (pop_B gen ord RC OC P sf None w t HB0 L1) as [B1 QQ1].
  assert (U1 : Psi3 (Some t) None F w1) by (rewrite W1; split; [apply Psi_pop; apply HPs|apply ND_pop; apply HPs]).
  rewrite <- W1 in B1, QQ1.
  assert (Lt1 : live (gr w1) (tn t) = true) by (rewrite G1; exact Lt).
  assert (R1 : reach None w1 t) by (intros c Hc; discriminate).
  pose proof (Om_qq gen w w1 QQ1 HO) as O1. pose proof (TT_qq None w w1 QQ1 HT) as T1.
  pose proof (P3_qq w w1 t QQ1 (queued_P3 gen w t HO Im)) as P1.
  assert (NQ1 : ~ In t (queue w1)) by (intros Y; apply Qi in Y; apply (proj2 Y); reflexivity).
  pose proof (proj1 (bottom_up_O gen wck ord RC OC P sf HS HWF HWO f) None w1 t B1 Lt1 R1 O1 T1 P1 NQ1) as Y.
  pose proof (BES gen wck ord RC OC P sf HS HWF HWO f None w1 t B1 Lt1 R1) as YB.
  pose proof (proj1 (bottom_up_U f) F None w1 t B1 Lt1 R1 O1 T1 P1 NQ1 U1) as YU.
  destruct (bu_execute_and_schedule RC OC P f w1 t) as [o w2|k w2|]; cbn [bind okO okB] in *; [|exact Logic.I|exact Logic.I].
  apply IH; [apply YB|apply Y|apply Y|exact YU].
Qed.

(* ---- the initial scheduling ---- *)
Definition PostE2 (w0 : world) (p : node * option dep) (w : world) : Prop :=
  match snd p with
  | Some (DRead r c st) | Some (DWrite r c st) => rc_check (RC c) (env w0) r (get_content w0 r) st = Consistent \/ In (un (fst p)) (queue w)
  | _ => True
  end.
Lemma try_schedule_edge_post2 w0 w p : qg w0 w -> PostE2 w0 p (try_schedule_edge RC false w p).
Proof.
  intros [[_ [[K1 [K2 _]] _]] _]. unfold PostE2, try_schedule_edge. destruct (snd p) as [[|y c st|r c st|r c st]|]; try exact Logic.I;
    unfold try_schedule; cbv zeta; cbn [env emit]; change (get_content (emit w (ECheckReadResStart (un (fst p)) c st)) r) with (get_content w r);
    rewrite K1, K2; (destruct (rc_check (RC c) (env w0) r (get_content w0 r) st); [left; reflexivity|right; apply In_queue_add|right; apply In_queue_add]).
Qed.
Lemma PostE2_qg w0 p w w' : qg w w' -> PostE2 w0 p w -> PostE2 w0 p w'.
Proof. intros [[_ [_ [_ Q0]]] _]. unfold PostE2. destruct (snd p) as [[|y c st|r c st|r c st]|]; trivial; (intros [A|A]; [left; exact A|right; apply Q0; exact A]). Qed.
Definition PostR2 (w0 : world) (r : res) (w : world) : Prop := forall p, In p (incoming w0 (rn r)) -> PostE2 w0 p w.
Lemma schedule_tasks_affected_by_qg w r : qg w (schedule_tasks_affected_by RC w r).
Proof.
  unfold schedule_tasks_affected_by. cbv zeta. eapply qg_trans; [|apply qg_emit; reflexivity].
  eapply qg_trans; [|apply fold_qg; intros; apply try_schedule_edge_qg]. eapply qg_trans; [|apply qg_goc_res]. apply qg_emit; reflexivity.
Qed.
Lemma schedule_tasks_affected_by_post w0 w r : qg w0 w -> PostR2 w0 r (schedule_tasks_affected_by RC w r).
Proof.
  intros Hq p Ip. unfold schedule_tasks_affected_by. cbv zeta. set (w1 := emit w (ESchedByResStart r)). set (w2 := get_or_create_resource_node w1 r).
  assert (Q2 : qg w0 w2) by (eapply qg_trans; [exact Hq|]; eapply qg_trans; [apply (qg_emit w (ESchedByResStart r)); reflexivity|apply qg_goc_res]).
  rewrite (proj2 Q2 (rn r)).
  destruct (fold_post (try_schedule_edge RC false) (qg w0) (PostE2 w0) (incoming w0 (rn r))
              ltac:(intros w' x Hw'; eapply qg_trans; [exact Hw'|apply try_schedule_edge_qg])
              ltac:(intros w' x Hw'; apply try_schedule_edge_post2; exact Hw')
              ltac:(intros w' x y Hw' Py; eapply PostE2_qg; [apply try_schedule_edge_qg|exact Py]) w2 Q2) as [_ X].
  eapply PostE2_qg; [apply qg_emit; reflexivity|]. apply X. exact Ip.
Qed.

Lemma init_PhiT w ch : StoreOK w -> queue w = [] ->
  (forall x, get_task_output w x <> None -> forall d dp, row w x d = Some dp ->
     DepGood w dp \/ exists r c st, (dp = DRead r c st \/ dp = DWrite r c st) /\ In r ch) ->
  PhiT None None (fold_left (schedule_tasks_affected_by RC) ch w).
Proof.
  intros HS0 Qe HV.
  destruct (fold_post (schedule_tasks_affected_by RC) (qg w) (PostR2 w) ch
              ltac:(intros w' x Hw'; eapply qg_trans; [exact Hw'|apply schedule_tasks_affected_by_qg])
              ltac:(intros w' x Hw'; apply schedule_tasks_affected_by_post; exact Hw')
              ltac:(intros w' x y Hw' Py p Ip; eapply PostE2_qg; [apply schedule_tasks_affected_by_qg|apply Py; exact Ip]) w (qg_refl w)) as [Q1 PR].
  set (w1 := fold_left (schedule_tasks_affected_by RC) ch w) in *.
  intros x _ Ox d dp R. rewrite (geq_row w w1 x d (proj1 (proj1 Q1))) in R. unfold get_task_output in Ox. rewrite (proj2 (proj2 (proj1 (proj2 (proj1 Q1))))) in Ox.
  destruct (HV x Ox d dp R) as [G|[r [c [st [Hd Ir]]]]]; [left; eapply DepGood_keep; [apply (proj1 (proj2 (proj1 Q1)))|exact G]|].
  destruct (proj1 (proj2 HS0) _ _ _ R) as [_ Dd].
  pose proof (PR r Ir (tn x, Some dp) ltac:(destruct Hd as [Hd|Hd]; rewrite Hd in Dd; cbn in Dd; subst d; apply (incoming_of_row w x _ _ HS0 R))) as PE.
  unfold PostE2 in PE. cbn [fst snd] in PE. rewrite un_tn in PE.
  destruct (proj1 (proj2 (proj1 Q1))) as [K1 [K2 _]].
  destruct Hd as [Hd|Hd]; rewrite Hd in PE |- *; (destruct PE as [PE|PE]; [left; cbn; rewrite K1, K2; exact PE|right; left; exact PE]).
Qed.

(* ---- sessions and histories ---- *)
Variable always : ocid.

Lemma content_eq_dec (a b : content) : {a = b} + {a <> b}.
Proof. unfold content in *. decide equality. apply Z.eq_dec. Qed.

Definition edits_of (l : list (res * content)) : list step := map (fun e => HEdit (fst e) (snd e)) l.
Lemma edits_same fuel l : forall w, let w' := snd (run_history RC OC P always fuel w (edits_of l)) in
  gr w' = gr w /\ outs w' = outs w /\ env w' = env w.
Proof.
  induction l as [|[r v] tl IH]; intros w; cbn [edits_of map run_history]; [repeat split|].
  cbn [run_step fst snd]. specialize (IH (set_content w r v)). cbv zeta in IH. unfold edits_of in IH.
  destruct (run_history RC OC P always fuel (set_content w r v) (map (fun e => HEdit (fst e) (snd e)) tl)) as [rs w']. cbn [snd] in *.
  destruct IH as [A1 [A2 A3]]. split; [rewrite A1; destruct v; reflexivity|split; [rewrite A2; destruct v; reflexivity|rewrite A3; destruct v; reflexivity]].
Qed.

(* C03 (first half): all known tasks consistent, then external changes, then the bottom-up build that is told about every changed
   resource: every recorded dependency of every task with an output is consistent again *)
Theorem bottom_up_restores_validity fuel h edits ch :
  let wh := snd (run_history RC OC P always fuel init_world h) in
  let w1 := snd (run_history RC OC P always fuel wh (edits_of edits)) in
  AllValid wh -> (forall r, get_content w1 r <> get_content wh r -> In r ch) ->
  match session_bottom_up RC OC P fuel (new_session w1) ch with
  | Done _ w' => AllValid w' /\ StoreOK w' /\ Q w' /\ NoRes w' /\ K w'
  | Abort _ _ => False
  | OutOfFuel => True
  end.
Proof.
  intros wh w1 AV Hch.
  destruct (run_history_HBs gen wck ord RC OC P sf HS HWF HWO always fuel h init_world) as [Jh [Kh [Qh Hh]]]; [split; [apply L_init|intros x d X; discriminate]|apply K_init|apply Q_init|apply HBs_init|].
  fold wh in Jh, Kh, Qh, Hh.
  destruct (run_history_HBs gen wck ord RC OC P sf HS HWF HWO always fuel (edits_of edits) wh Jh Kh Qh Hh) as [J1 [K1 [Q1 H1]]]. fold w1 in J1, K1, Q1, H1.
  destruct (edits_same fuel edits wh) as [G1 [O1 E1]]. fold w1 in G1, O1, E1.
  set (w := new_session w1).
  assert (VSw : VS w) by (apply VS_new_session; exact J1).
  assert (Kw : K w) by (apply (geq_K RC OC P sf w1); [apply geq_same; reflexivity|reflexivity|exact K1]).
  assert (Qw : Q w) by (apply (Q_same gen ord w1); [reflexivity|exact Q1]).
  assert (Hhw : HB w) by (apply HBs_new_session; exact H1).
  pose proof (session_bottom_up_A gen wck ord RC OC P sf HS HWF HWO fuel w ch VSw Kw Qw) as NA.
  destruct VSw as [[Hw Hc] HV]. unfold session_bottom_up in *. cbv zeta in *.
  assert (L0 : L (set_queue w [])). { destruct (proj1 Hw) as [X1 [X2 X3]]. split; [exact X1|]. split; [exact X2|intros x []]. }
  destruct (fold_affected_L RC ch _ L0) as [L1 M1]. set (wf := fold_left (schedule_tasks_affected_by RC) ch (set_queue w [])) in *.
  assert (V0 : V (set_queue w [])) by (apply pop_V; exact HV).
  assert (Q01 : lv (set_queue w []) wf) by (apply fold_lv; intros; apply schedule_tasks_affected_by_lv).
  assert (V1 : V wf) by (eapply lv_V; eassumption).
  assert (KQ1 : K wf /\ Q wf).
  { unfold wf. assert (KF : forall l w0', K w0' /\ Q w0' -> K (fold_left (schedule_tasks_affected_by RC) l w0') /\ Q (fold_left (schedule_tasks_affected_by RC) l w0')).
    { induction l as [|r tl IH]; intros w0' K0; cbn [fold_left]; [exact K0|apply IH; split; [apply schedule_tasks_affected_by_K; apply K0|apply (schedule_tasks_affected_by_Q gen ord); apply K0]]. }
    apply KF. split; [apply (geq_K RC OC P sf w); [apply geq_same; reflexivity|reflexivity|exact Kw]|apply (Q_same gen ord w); [reflexivity|exact Qw]]. }
  assert (Hf : HB wf).
  { apply (HB_hq w); [|exact Hhw]. eapply hq_trans; [apply (hq_same w (set_queue w [])); reflexivity|apply fold_hq; intros; apply schedule_tasks_affected_by_hq]. }
  set (w2 := emit (set_cur wf None) EBuildStart) in *.
  assert (C1 : cur wf = None) by (rewrite (proj2 (proj2 (proj1 Q01))); exact Hc).
  assert (Q12 : lv wf w2).
  { eapply lv_trans; [apply (lv_same wf (set_cur wf None)); try reflexivity; [cbn; symmetry; exact C1|trivial]|apply lv_emit; reflexivity]. }
  assert (L2 : L w2) by (apply L_emit, L_set_cur_none; exact L1).
  assert (P2 : VPre None w2).
  { split; [|eapply lv_V; eassumption]. eapply q3_Pre; [apply Q12|exact L2|]. eapply q3_Pre; [apply Q01|exact L1|].
    split; [exact L0|split; [apply Hw|apply Hw]]. }
  assert (K2 : K w2) by (apply (geq_K RC OC P sf wf); [apply geq_same; reflexivity|reflexivity|apply KQ1]).
  assert (Qq2 : Q w2) by (apply (Q_same gen ord wf); [reflexivity|apply KQ1]).
  assert (H2 : HB w2) by (apply (HB_hq wf); [apply hq_same; reflexivity|exact Hf]).
  assert (LV : lv (set_queue w []) w2) by (eapply lv_trans; eassumption).
  assert (Cs2 : consistent w2 = []) by (rewrite (proj1 (proj2 (proj2 LV))); reflexivity).
  assert (Op2 : opens (trace w2) = []) by (rewrite (lv_opens _ _ LV); reflexivity).
  assert (Ex2 : execs (trace w2) = []).
  { destruct (proj1 (proj1 LV)) as [s0 [T0 F0]]. rewrite T0, execs_app, (execs_ev3 s0 F0). reflexivity. }
  assert (O2 : Om w2).
  { split; [|split]; [intros c x Hcc; unfold isC in Hcc; rewrite Cs2 in Hcc; discriminate|intros x y Ox; unfold opn in Ox; rewrite Op2 in Ox; destruct Ox|intros x Ox; unfold opn in Ox; rewrite Op2 in Ox; destruct Ox]. }
  assert (T2 : TT None w2) by (unfold TT; rewrite Ex2; split; [constructor|intros x []]).
  (* the initial scheduling covers every dependency the external changes made inconsistent *)
  assert (PT : PhiT None None wf).
  { apply init_PhiT; [apply L0|reflexivity|]. intros x Ox d dp R. change (get_task_output w1 x <> None) in Ox. change (row w1 x d = Some dp) in R.
    unfold get_task_output in Ox. rewrite O1 in Ox. unfold row in R. rewrite G1 in R. pose proof (AV x Ox d dp R) as G.
    destruct dp as [|y c st|r c st|r c st]; cbn [UpToDate.DepGood] in *.
    - contradiction.
    - left. change (exists oy, get_task_output w1 y = Some oy /\ oc_check (OC c) oy st = true). unfold get_task_output. rewrite O1. exact G.
    - change (rc_check (RC c) (env w1) r (get_content w1 r) st = Consistent \/ (exists r0 c0 st0, (DRead r c st = DRead r0 c0 st0 \/ DRead r c st = DWrite r0 c0 st0) /\ In r0 ch)).
      destruct (content_eq_dec (get_content w1 r) (get_content wh r)) as [Ec|Ec]; [left; rewrite Ec, E1; exact G|right; exists r, c, st; split; [left; reflexivity|apply Hch; exact Ec]].
    - change (rc_check (RC c) (env w1) r (get_content w1 r) st = Consistent \/ (exists r0 c0 st0, (DWrite r c st = DRead r0 c0 st0 \/ DWrite r c st = DWrite r0 c0 st0) /\ In r0 ch)).
      destruct (content_eq_dec (get_content w1 r) (get_content wh r)) as [Ec|Ec]; [left; rewrite Ec, E1; exact G|right; exists r, c, st; split; [right; reflexivity|apply Hch; exact Ec]]. }
  assert (QK2 : qk wf w2) by (apply qk_same; try reflexivity; trivial).
  assert (POf : PhiO wf) by (intros t Ot; unfold opn in Ot; rewrite (lv_opens _ _ Q01) in Ot; destruct Ot).
  assert (U2 : Psi3 None None (fun _ => False) w2).
  { split; [split; [|intros t Ot; unfold opn in Ot; rewrite Op2 in Ot; destruct Ot]|intros t []].
    apply (proj1 (Psi_qk RC OC None None wf w2 QK2 (conj PT POf))). }
  pose proof (execute_scheduled_U fuel (fun _ => False) w2 (conj P2 (conj K2 (conj Qq2 H2))) O2 T2 U2) as X.
  destruct (execute_scheduled RC OC P fuel w2) as [u w3|k w3|]; cbn [bind okO okA] in *; [|exact NA|exact Logic.I].
  destruct X as [[[PT3 _] _] [O3 [B3 Q3]]].
  assert (Op3 : opens (trace w3) = []) by apply (proj1 (proj2 (proj1 (proj1 B3)))).
  split; [|split; [apply (B_S gen ord RC OC P sf _ w3 B3)|split; [apply (Q_same gen ord w3); [reflexivity|apply B3]|split; [apply (proj1 (B_V gen ord RC OC P sf _ w3 B3))|apply (geq_K RC OC P sf w3); [apply geq_same; reflexivity|reflexivity|apply B3]]]]].
  intros x Ox d dp R. change (get_task_output w3 x <> None) in Ox. change (row w3 x d = Some dp) in R.
  destruct (PT3 x ltac:(discriminate) Ox d dp R) as [G|[G|G]].
  - apply (DepGood_keep RC OC w3); [apply keep_same; reflexivity|exact G].
  - rewrite Q3 in G. destruct G.
  - exfalso. destruct dp as [|y c st|r c st|r c st]; cbn [DepExc] in G; try contradiction; unfold opn in G; rewrite Op3 in G.
    + destruct G as [[]|G]; discriminate.
    + destruct G as [g [[[]|G] _]]. discriminate.
Qed.
Lemma alookup_in {V} (l : list (N * V)) k : alookup l k <> None <-> In k (map fst l).
Proof.
  induction l as [|[a v] tl IH]; cbn; [split; [intros X; contradiction X; reflexivity|intros []]|].
  destruct (N.eqb_spec a k) as [->|Hne]; [split; [intros _; left; reflexivity|intros _; discriminate]|].
  rewrite IH. split; [intros X; right; exact X|intros [X|X]; [contradiction|exact X]].
Qed.

(* C03: ... and then requiring any known task executes nothing and returns its stored output *)
Theorem bottom_up_leaves_tasks_up_to_date fuel h edits ch ops :
  let wh := snd (run_history RC OC P always fuel init_world h) in
  let w1 := snd (run_history RC OC P always fuel wh (edits_of edits)) in
  AllValid wh -> (forall r, get_content w1 r <> get_content wh r -> In r ch) -> roots_below ord fuel ops ->
  match session_bottom_up RC OC P fuel (new_session w1) ch with
  | Done _ w' =>
      (forall t, In t (roots ops) -> get_task_output w' t <> None) ->
      let r := run_session RC OC P always fuel (new_session w') ops in
      fst r = map (fun t => RDone (get_task_output w' t)) (roots ops) /\ execs (rev (trace (snd r))) = [] /\
      forall r0, get_content (snd r) r0 = get_content w' r0
  | Abort _ _ => False
  | OutOfFuel => True
  end.
Proof.
  intros wh w1 AV Hch RB. pose proof (bottom_up_restores_validity fuel h edits ch AV Hch) as X. fold wh w1 in X.
  destruct (session_bottom_up RC OC P fuel (new_session w1) ch) as [u w'|k w'|]; [|exact X|exact Logic.I].
  destruct X as [AV' [HS' [Q' [NR' _]]]]. intros HX r.
  set (X := map fst (outs w')).
  assert (VX : ValidX RC OC X (new_session w')).
  { intros x Ix. apply alookup_in in Ix. change (get_task_output w' x <> None) in Ix. split.
    - destruct (get_task_output w' x) as [o|] eqn:E; [exists o; exact E|contradiction Ix; reflexivity].
    - intros d dp R. change (row w' x d = Some dp) in R. pose proof (AV' x Ix d dp R) as G.
      destruct dp as [|y c st|r0 c st|r0 c st]; cbn [UpToDate.DepGood DepOKX] in *; [exact G| |exact G|exact G].
      destruct G as [oy [Oy Cy]]. split; [apply alookup_in; change (get_task_output w' y <> None); rewrite Oy; discriminate|exists oy; split; assumption]. }
  destruct (idem_session gen ord RC OC P always X fuel ops (new_session w') VX HS' ltac:(apply (Q_same gen ord w'); [reflexivity|exact Q']) RB
              ltac:(intros t It; apply alookup_in; apply HX; exact It)) as [Qt E2]. fold r in Qt, E2.
  split; [exact E2|]. split.
  - destruct (qt_seg _ _ Qt) as [seg [T Ex]]. rewrite T. cbn [new_session trace]. rewrite app_nil_r, rev_involutive. exact Ex.
  - intros r0. rewrite (qt_content _ _ Qt). reflexivity.
Qed.
(* C03, complete: ... and the outputs returned are those of a from-scratch build in the current state.  Needs, as C01, that an
   accepting checker shows the same view (HC, HOC) and that write checkers accept only the written value (HW). *)
Hypothesis HC : forall c env r v v', rc_check (RC c) env r v' (sf c r v) = Consistent -> rc_view (RC c) v' = rc_view (RC c) v.
Hypothesis HW : forall c env r v v', wck c -> rc_check (RC c) env r v' (sf c r v) = Consistent -> v' = v.
Hypothesis HOC : forall c o o', oc_check (OC c) o' (oc_stamp (OC c) o) = true -> oc_view (OC c) o' = oc_view (OC c) o.

Theorem bottom_up_then_require_equals_scratch fuel fuel0 h edits ch ops :
  let wh := snd (run_history RC OC P always fuel init_world h) in
  let w1 := snd (run_history RC OC P always fuel wh (edits_of edits)) in
  AllValid wh -> (forall r, get_content w1 r <> get_content wh r -> In r ch) -> roots_below ord fuel ops -> roots_below ord fuel0 ops ->
  match session_bottom_up RC OC P fuel (new_session w1) ch with
  | Done _ w' =>
      (forall t, In t (roots ops) -> get_task_output w' t <> None) ->
      let ra := run_session RC OC P always fuel (new_session w') ops in
      let rb := run_session RC OC P always fuel0 (new_session (fresh_of w')) ops in
      execs (rev (trace (snd ra))) = [] /\ fst ra = fst rb /\ Forall is_done (fst rb) /\ forall r, get_content (snd ra) r = get_content (snd rb) r
  | Abort _ _ => False
  | OutOfFuel => True
  end.
Proof.
  intros wh w1 AV Hch RB RB0. pose proof (bottom_up_restores_validity fuel h edits ch AV Hch) as X.
  pose proof (bottom_up_leaves_tasks_up_to_date fuel h edits ch ops AV Hch RB) as Y. fold wh w1 in X, Y.
  destruct (session_bottom_up RC OC P fuel (new_session w1) ch) as [u w'|k w'|]; [|exact X|exact Logic.I].
  destruct X as [AV' [HS' [Q' [NR' K']]]]. intros HX ra rb. specialize (Y HX). cbv zeta in Y. fold ra in Y. destruct Y as [E1 [E2 E3]].
  assert (Ja : ExecSession.J (new_session w')) by (split; [exact HS'|split; [exact NR'|intros t X; discriminate]]).
  assert (Jf : ExecSession.J (new_session (fresh_of w'))) by (split; [exact GOK_empty|split; [intros t d X; discriminate|intros t X; discriminate]]).
  assert (Ff : FreshW (new_session (fresh_of w'))) by (intros x _; reflexivity).
  assert (S0 : Sim (new_session w') (new_session (fresh_of w'))) by (constructor; [reflexivity|reflexivity|reflexivity|intros x X; discriminate]).
  assert (Qf : Q (new_session (fresh_of w'))) by (intros a; apply QR_empty; reflexivity).
  destruct (session_returns gen wck ord RC OC P sf HS HWF HWO always fuel0 ops (new_session (fresh_of w')) RB0 Jf Qf) as [DB _]. fold rb in DB.
  assert (DA : Forall is_done (fst ra)) by (rewrite E1; apply Forall_forall; intros x Ix; apply in_map_iff in Ix; destruct Ix as [t [<- _]]; eexists; reflexivity).
  destruct (sim_session gen wck RC OC P sf HS HWF HC HW HOC always fuel fuel0 ops (new_session w') (new_session (fresh_of w')) (roots_td ord OC always fuel ops RB) Ja
              ltac:(apply (K_same RC OC P sf w'); [reflexivity|reflexivity|exact K']) Jf Ff S0 DA DB) as [E S1]. fold ra rb in E, S1.
  split; [exact E2|]. split; [exact E|]. split; [exact DB|]. intros r. apply (sim_content _ _ S1).
Qed.
(* the same in the SAME session, right after the build (the session's consistent set is the one the build left) *)
Theorem bottom_up_then_require_same_session fuel fuel0 h edits ch ops :
  let wh := snd (run_history RC OC P always fuel init_world h) in
  let w1 := snd (run_history RC OC P always fuel wh (edits_of edits)) in
  AllValid wh -> (forall r, get_content w1 r <> get_content wh r -> In r ch) -> roots_below ord fuel ops -> roots_below ord fuel0 ops ->
  match session_bottom_up RC OC P fuel (new_session w1) ch with
  | Done _ w' =>
      (forall t, In t (roots ops) -> get_task_output w' t <> None) ->
      let ra := run_session RC OC P always fuel w' ops in
      let rb := run_session RC OC P always fuel0 (new_session (fresh_of w')) ops in
      (exists seg, trace (snd ra) = rev seg ++ trace w' /\ execs seg = []) /\ fst ra = fst rb /\ Forall is_done (fst rb) /\
      forall r, get_content (snd ra) r = get_content (snd rb) r
  | Abort _ _ => False
  | OutOfFuel => True
  end.
Proof.
  intros wh w1 AV Hch RB RB0. pose proof (bottom_up_restores_validity fuel h edits ch AV Hch) as X.
  pose proof (bottom_up_then_require_equals_scratch fuel fuel0 h edits ch ops AV Hch RB RB0) as Y. fold wh w1 in X, Y.
  pose proof (bottom_up_leaves_tasks_up_to_date fuel h edits ch ops AV Hch RB) as Z. fold wh w1 in Z.
  destruct (session_bottom_up RC OC P fuel (new_session w1) ch) as [u w'|k w'|]; [|exact X|exact Logic.I].
  destruct X as [AV' [HS' [Q' [NR' K']]]]. intros HX ra rb. specialize (Y HX). specialize (Z HX). cbv zeta in Y, Z. fold rb in Y.
  destruct Y as [_ [E [DB EC]]]. destruct Z as [Z1 [_ Z3]].
  set (X := map fst (outs w')).
  assert (VX : ValidX RC OC X w').
  { intros x Ix. apply alookup_in in Ix. change (get_task_output w' x <> None) in Ix. split.
    - destruct (get_task_output w' x) as [o|] eqn:E0; [exists o; reflexivity|contradiction Ix; reflexivity].
    - intros d dp R. pose proof (AV' x Ix d dp R) as G.
      destruct dp as [|y c st|r0 c st|r0 c st]; cbn [UpToDate.DepGood DepOKX] in *; [exact G| |exact G|exact G].
      destruct G as [oy [Oy Cy]]. split; [apply alookup_in; change (get_task_output w' y <> None); rewrite Oy; discriminate|exists oy; split; assumption]. }
  destruct (idem_session gen ord RC OC P always X fuel ops w' VX HS' Q' RB ltac:(intros t It; apply alookup_in; apply HX; exact It)) as [Qt E2]. fold ra in Qt, E2.
  split; [apply (qt_seg _ _ Qt)|]. split; [rewrite E2, <- E; exact (eq_sym Z1)|]. split; [exact DB|].
  intros r. rewrite (qt_content _ _ Qt r), <- EC. symmetry. apply Z3.
Qed.
End UT.

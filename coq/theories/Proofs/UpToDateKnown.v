(* C03 with "known to the Pie instance" read literally: a task is known when it has a node in the dependency store.  In the
   static class every such task has an output (FullOut.v), so the premise of UpToDate.bottom_up_leaves_tasks_up_to_date
   ("the required tasks have an output") is the same as "the required tasks are known". *)
From Coq Require Import List NArith ZArith Bool Lia Permutation.
From PieV Require Import Model.Dag Model.Build Proofs.DagLib Proofs.DagWF Proofs.StoreInv Proofs.Inv Proofs.History Proofs.ExecInv Proofs.ExecSession
  Proofs.Cert Proofs.Stable Proofs.NoBug4 Proofs.NoAbort Proofs.NoBug4All Proofs.NoReentry Proofs.NoBugAll Proofs.CertAll Proofs.NoAbortAll Proofs.HasOut
  Proofs.Sim Proofs.Valid Proofs.Idem Proofs.OnceAll Proofs.UpToDate Proofs.GoodHist Proofs.FullOut.
Import ListNotations.
Open Scope N_scope.

Section UK.
Variable gen : res -> option task.
Variable wck : rcid -> Prop.
Variable ord : task -> nat.
Variable RC : rcid -> rchecker.
Variable OC : ocid -> ochecker.
Variable P : task -> prog.
Variable sf : rcid -> res -> content -> Z.
Variable always : ocid.
Hypothesis HS : forall c env r v, rc_stamp (RC c) env r v = inl (sf c r v).
Hypothesis HWF : forall t, WFP gen wck t [] (P t).
Hypothesis HWO : forall t, WFO ord t (P t).
Hypothesis HRefl : forall c env r v, rc_check (RC c) env r v (sf c r v) = Consistent.
Hypothesis HReflO : forall c o, oc_check (OC c) o (oc_stamp (OC c) o) = true.

Theorem bottom_up_leaves_known_tasks_up_to_date fuel h edits ch ops :
  let wh := snd (run_history RC OC P always fuel init_world h) in
  let w1 := snd (run_history RC OC P always fuel wh (edits_of edits)) in
  AllValid RC OC wh -> (forall r, get_content w1 r <> get_content wh r -> In r ch) -> roots_below ord fuel ops ->
  match session_bottom_up RC OC P fuel (new_session w1) ch with
  | Done _ w' =>
      (forall t, In t (roots ops) -> live (gr w') (tn t) = true) ->       (* the required tasks are known to the instance *)
      let r := run_session RC OC P always fuel (new_session w') ops in
      fst r = map (fun t => RDone (get_task_output w' t)) (roots ops) /\ execs (rev (trace (snd r))) = [] /\
      forall r0, get_content (snd r) r0 = get_content w' r0
  | Abort _ _ => False
  | OutOfFuel => True
  end.
Proof.
  intros wh w1 AV Hch RB.
  pose proof (bottom_up_leaves_tasks_up_to_date gen wck ord RC OC P sf HS HWF HWO HRefl HReflO always fuel h edits ch ops AV Hch RB) as X. fold wh w1 in X.
  destruct (session_bottom_up RC OC P fuel (new_session w1) ch) as [u w'|k w'|] eqn:E; [|exact X|exact Logic.I].
  intros HK. apply X. intros t It.
  pose proof (static_class_every_known_task_has_an_output gen wck ord RC OC P sf always HS HWF HWO fuel (h ++ edits_of edits ++ [HSession [SBottomUp ch]])) as F.
  cbv zeta in F. rewrite (run_history_app RC OC P always) in F. fold wh in F. rewrite (run_history_app RC OC P always) in F. fold w1 in F.
  cbn [run_history run_step run_session run_sop snd] in F. rewrite E in F. cbn [snd] in F.
  apply F. apply HK. exact It.
Qed.
End UK.

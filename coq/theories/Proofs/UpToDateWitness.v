(* Non-vacuity of the C03 theorems of UpToDate.v: a decision procedure for their premise AllValid ("all known tasks were last
   consistent"), and the generator/consumer instance of C01Witness.v: after a session that built both tasks every recorded
   dependency is consistent; the generator's input then changes, the bottom-up build is told so and re-executes both tasks;
   requiring the consumer afterwards executes nothing and returns the new stored output. *)
From Coq Require Import List NArith ZArith Bool Lia.
From PieV Require Import Model.Dag Model.Build Proofs.DagLib Proofs.DagWF Proofs.StoreInv Proofs.ExecInv Proofs.Cert Proofs.NoBug4All Proofs.NoAbort Proofs.Valid
  Proofs.C01Witness Proofs.OnceAll Proofs.UpToDate.
Import ListNotations.
Open Scope N_scope.

Section Dec.
Variable RC : rcid -> rchecker.
Variable OC : ocid -> ochecker.
Definition dep_goodb (w : world) (dp : dep) : bool :=
  match dp with
  | DReserved => false
  | DRequire y c st => match get_task_output w y with Some oy => oc_check (OC c) oy st | None => false end
  | DRead r c st | DWrite r c st => match rc_check (RC c) (env w) r (get_content w r) st with Consistent => true | _ => false end
  end.
Definition allvalidb (w : world) : bool :=
  forallb (fun p => forallb (fun e => match snd e with Some dp => dep_goodb w dp | None => true end) (get_outgoing_edges (gr w) (tn (fst p)))) (outs w).
Lemma alookup_some_in {V} (l : list (N * V)) k v : alookup l k = Some v -> In (k, v) l.
Proof.
  induction l as [|[a x] tl IH]; cbn; [discriminate|]. destruct (N.eqb_spec a k) as [->|Hne]; [intros E; inversion E; left; reflexivity|intros E; right; apply IH; exact E].
Qed.
Lemma allvalidb_sound w : WF (gr w) -> allvalidb w = true -> AllValid RC OC w.
Proof.
  intros W H x Ox d dp R. unfold allvalidb in H. rewrite forallb_forall in H.
  destruct (get_task_output w x) as [o|] eqn:E; [|contradiction Ox; reflexivity]. specialize (H (x, o) (alookup_some_in _ _ _ E)). cbn [fst] in H.
  rewrite forallb_forall in H. specialize (H (d, Some dp)). cbn [snd] in H.
  assert (Ik : In (d, Some dp) (get_outgoing_edges (gr w) (tn x))).
  { unfold get_outgoing_edges. apply in_map_iff. exists d. unfold row in R. rewrite R. split; [reflexivity|]. apply (wf_edata _ W). rewrite R. discriminate. }
  specialize (H Ik). destruct dp as [|y c st|r c st|r c st]; cbn in *; [discriminate| | |].
  - destruct (get_task_output w y) as [oy|]; [exists oy; split; [reflexivity|exact H]|discriminate].
  - destruct (rc_check (RC c) (env w) r (get_content w r) st); [reflexivity|discriminate|discriminate].
  - destruct (rc_check (RC c) (env w) r (get_content w r) st); [reflexivity|discriminate|discriminate].
Qed.
End Dec.

Definition hy : list step := [HEdit 1 (Some 1%Z); HSession [SRequire 0]].
Notation wy := (snd (run_history RCx OCx Px 0 50 init_world hy)).
Definition editsy : list (res * content) := [(1, Some 2%Z)].
Notation wy1 := (snd (run_history RCx OCx Px 0 50 wy (edits_of editsy))).

Lemma C03_witness_premises :
  AllValid RCx OCx wy /\ (forall r, get_content wy1 r <> get_content wy r -> In r [1]) /\ roots_below ordx 50 [SRequire 0].
Proof.
  split; [|split].
  - apply allvalidb_sound; [|vm_compute; reflexivity]. apply (run_history_R RCx OCx Px 0 50 hy init_world L_init).
  - intros r Hne. destruct (N.eq_dec r 1) as [->|Hr]; [left; reflexivity|]. exfalso. apply Hne.
    cbn [edits_of editsy map run_history run_step fst snd]. unfold set_content, get_content. cbn [rstate set_rstate]. apply alookup_aset_other. exact Hr.
  - cbn. split; [lia|exact I].
Qed.
(* the bottom-up build does real work, and the require afterwards does none *)
Lemma C03_witness_does_real_work :
  match session_bottom_up RCx OCx Px 50 (new_session wy1) [1] with
  | Done _ w' => execs (trace w') = [0; 1] /\ get_task_output w' 0 = Some 211%Z /\
                 fst (run_session RCx OCx Px 0 50 (new_session w') [SRequire 0]) = [RDone (Some 211%Z)]
  | _ => False
  end.
Proof. vm_compute. repeat split. Qed.
Lemma C03_witness_instance :
  match session_bottom_up RCx OCx Px 50 (new_session wy1) [1] with
  | Done _ w' =>
      (forall t, In t (roots [SRequire 0]) -> get_task_output w' t <> None) ->
      let r := run_session RCx OCx Px 0 50 (new_session w') [SRequire 0] in
      fst r = map (fun t => RDone (get_task_output w' t)) (roots [SRequire 0]) /\ execs (rev (trace (snd r))) = [] /\
      forall r0, get_content (snd r) r0 = get_content w' r0
  | Abort _ _ => False
  | OutOfFuel => True
  end.
Proof.
  destruct C03_witness_premises as [A [B C]].
  exact (bottom_up_leaves_tasks_up_to_date genx (fun _ => True) ordx RCx OCx Px (fun _ _ v => enc v) HSx HWFx HWOx HReflx HReflOx 0 50 hy editsy [1] [SRequire 0] A B C).
Qed.
(* ... and the complete form: the outputs equal those of a from-scratch build in the current state *)
Lemma C03_witness_complete_instance :
  match session_bottom_up RCx OCx Px 50 (new_session wy1) [1] with
  | Done _ w' =>
      (forall t, In t (roots [SRequire 0]) -> get_task_output w' t <> None) ->
      let ra := run_session RCx OCx Px 0 50 (new_session w') [SRequire 0] in
      let rb := run_session RCx OCx Px 0 50 (new_session (Sim.fresh_of w')) [SRequire 0] in
      execs (rev (trace (snd ra))) = [] /\ fst ra = fst rb /\ Forall Sim.is_done (fst rb) /\ forall r, get_content (snd ra) r = get_content (snd rb) r
  | Abort _ _ => False
  | OutOfFuel => True
  end.
Proof.
  destruct C03_witness_premises as [A [B C]].
  exact (bottom_up_then_require_equals_scratch genx (fun _ => True) ordx RCx OCx Px (fun _ _ v => enc v) HSx HWFx HWOx HReflx HReflOx 0 HCx HWx HOCx 50 50 hy editsy [1] [SRequire 0] A B C C).
Qed.

(* C02, idempotence: requiring again with nothing changed executes nothing.
   VC: during a session every task marked consistent has only recorded dependencies that its own checkers accept in the CURRENT
   state (resource contents, outputs of required tasks), and the tasks it requires are consistent as well.  VC is a session
   invariant inside the static class (NoAbort.v), given reflexive checkers (a checker accepts the value it just stamped).
   Hence after a session all tasks it made consistent validate again without any execution in the next session. *)
From Coq Require Import List NArith ZArith Bool Lia.
From PieV Require Import Model.Dag Model.Build Proofs.DagLib Proofs.DagWF Proofs.DagPath Proofs.Inv Proofs.StoreInv Proofs.History
  Proofs.Effects Proofs.Local Proofs.Local2 Proofs.ExecInv Proofs.ExecSession Proofs.Cert Proofs.Stable Proofs.NoBug4 Proofs.Sim Proofs.NoAbort.
Import ListNotations.
Open Scope N_scope.

Section V.
Variable gen : res -> option task.
Variable wck : rcid -> Prop.
Variable ord : task -> nat.
Variable RC : rcid -> rchecker.
Variable OC : ocid -> ochecker.
Variable P : task -> prog.
Variable sf : rcid -> res -> content -> Z.
Hypothesis HS : forall c env r v, rc_stamp (RC c) env r v = inl (sf c r v).
Hypothesis HWF : forall t, WFP gen wck t [] (P t).
Hypothesis HWO : forall t, WFO ord t (P t).
(* a checker accepts the value it has just stamped *)
Hypothesis HRefl : forall c env r v, rc_check (RC c) env r v (sf c r v) = Consistent.
Hypothesis HReflO : forall c o, oc_check (OC c) o (oc_stamp (OC c) o) = true.

(* the checker environment is never changed by a build *)
Lemma env_goc_res w r : env (get_or_create_resource_node w r) = env w.
Proof. unfold get_or_create_resource_node. destruct (live _ _); reflexivity. Qed.
Lemma env_goc_task w r : env (get_or_create_task_node w r) = env w.
Proof. unfold get_or_create_task_node. destruct (live _ _); reflexivity. Qed.
Ltac env_leaf :=
  repeat match goal with
         | |- context [match ?x with _ => _ end] =>
             lazymatch x with
             | context [match _ with _ => _ end] => fail
             | _ => destruct x
             end
         end; cbn; rewrite ?env_goc_res, ?env_goc_task; cbn; first [assumption | right; assumption | left; reflexivity | exact Logic.I | idtac].
Lemma env_preserved e : Preserved RC (fun w => env w = e).
Proof.
  constructor; intros; unfold okO, get_or_create_task_node, get_or_create_resource_node, reserve_require_dependency,
    update_require_dependency, sess_read, sess_write, sess_written_to, add_dependency, set_content, mark_consistent in *; env_leaf.
Qed.

Lemma mc_env f w t o w' : make_consistent_td RC OC P f w t = Done o w' -> env w' = env w.
Proof.
  intros Eq. assert (X : okO (fun w0 => env w0 = env w) (make_consistent_td RC OC P f w t)).
  { eapply make_consistent_td_ok; [apply env_preserved|reflexivity]. }
  rewrite Eq in X. exact X.
Qed.
Lemma req_env f w x c o w' : require_with OC (make_consistent_td RC OC P f) w x c = Done o w' -> env w' = env w.
Proof.
  intros Eq. assert (X : okO (fun w0 => env w0 = env w) (require_with OC (make_consistent_td RC OC P f) w x c)).
  { eapply require_with_ok; [apply env_preserved| |reflexivity]. intros w0 t0 H0. eapply make_consistent_td_ok; [apply env_preserved|exact H0]. }
  rewrite Eq in X. exact X.
Qed.
Lemma chk_env f ds w ok w' : check_deps RC OC (make_consistent_td RC OC P f) ds w = Done ok w' -> env w' = env w.
Proof.
  intros Eq. assert (X : okO (fun w0 => env w0 = env w) (check_deps RC OC (make_consistent_td RC OC P f) ds w)).
  { eapply check_deps_ok; [apply env_preserved| |reflexivity]. intros w0 t0 H0. eapply make_consistent_td_ok; [apply env_preserved|exact H0]. }
  rewrite Eq in X. exact X.
Qed.

(* ---- validity of recorded dependencies in the current state ---- *)
Definition DepOK (w : world) (dp : dep) : Prop :=
  match dp with
  | DReserved => False
  | DRequire y c st => memN y (consistent w) = true /\ exists oy, get_task_output w y = Some oy /\ oc_check (OC c) oy st = true
  | DRead r c st | DWrite r c st => rc_check (RC c) (env w) r (get_content w r) st = Consistent
  end.
Definition RowV (w : world) (x : task) : Prop := forall d dp, row w x d = Some dp -> DepOK w dp.
Definition VC (w : world) : Prop := forall x, memN x (consistent w) = true -> RowV w x.

Definition dep_res (dp : dep) : option res := match dp with DRead r _ _ | DWrite r _ _ => Some r | _ => None end.

(* a valid entry stays valid when the environment, the consistent tasks' outputs and its own resource are unchanged *)
Lemma depok_keep w w' dp : env w' = env w -> cons_mono w w' ->
  (forall y, memN y (consistent w) = true -> get_task_output w' y = get_task_output w y) ->
  (forall r, dep_res dp = Some r -> get_content w' r = get_content w r) -> DepOK w dp -> DepOK w' dp.
Proof.
  intros E M O C. destruct dp as [|y c st|r c st|r c st]; cbn [DepOK dep_res] in *.
  - tauto.
  - intros [Y [oy [A B]]]. split; [apply M; exact Y|]. exists oy. split; [rewrite O by exact Y; exact A|exact B].
  - rewrite E, (C r eq_refl). tauto.
  - rewrite E, (C r eq_refl). tauto.
Qed.

(* the resources a valid, class-conforming row depends on are stable (Stable.v) *)
Lemma row_stab S w x r dp : StoreOK w -> QR gen ord w x -> RowV w x -> (memN x (consistent w) = true \/ In x S) ->
  row w x (rn r) = Some dp -> StabC gen S w r.
Proof.
  intros [W [T _]] [_ [Q2 Q3]] RV Hx R.
  destruct (T _ _ _ R) as [_ TG]. destruct dp as [|y c st|r' c st|r' c st]; cbn in TG.
  - rewrite rn_odd in TG. discriminate.
  - exfalso. exact (tn_rn _ _ (eq_sym TG)).
  - destruct (Q3 r _ R eq_refl) as [E|[g [E B]]]; [left; exact E|right; exists g; split; [exact E|left]].
    pose proof (before_in _ _ _ B) as I. apply (wf_edata _ W) in I. unfold kidsT in I.
    destruct (get_edata (gr w) (tn x) (tn g)) as [dp'|] eqn:G; [|contradiction].
    pose proof (RV (tn g) dp' G) as D. destruct (T _ _ _ G) as [_ TG'].
    destruct dp' as [|y c' st'|r2 c' st'|r2 c' st']; cbn in D, TG'; try contradiction.
    + apply tn_inj in TG'. subst y. exact (proj1 D).
    + exfalso. exact (tn_rn _ _ TG').
    + exfalso. exact (tn_rn _ _ TG').
  - right. exists x. split; [exact (Q2 r _ R eq_refl)|exact Hx].
Qed.

Notation mc := (make_consistent_td RC OC P).
Let HNR : forall t, NR [] (P t). Proof. intros t. eapply WFP_NR. apply HWF. Qed.

(* facts about a returning make_task_consistent inside the class *)
Lemma mc_seg f w t S o w' : StoreOK w -> Inv2 w -> Chain w S -> entry_ok w S t -> Q gen ord w -> (ord t < f)%nat -> mc f w t = Done o w' ->
  (exists seg, Post S [] [] w w' seg) /\ memN t (consistent w') = true /\ get_task_output w' t = Some o /\
  CF gen S w w' /\ Q gen ord w' /\ env w' = env w.
Proof.
  intros H J0 C E Hq Hf Eq.
  pose proof (make_consistent_td_spec RC OC P f w t S H J0 C E) as A.
  pose proof (make_consistent_td_CF gen wck RC OC P sf HS HWF f w t S H J0 C E) as B.
  pose proof (make_consistent_td_Q gen wck ord RC OC P sf HS HWF HWO f w t S H J0 C E Hq Hf) as D.
  rewrite Eq in *. cbn in A, B, D. destruct A as [A1 [_ [A3 A4]]].
  split; [exact A1|]. split; [exact A3|]. split; [exact A4|]. split; [exact B|]. split; [exact D|apply (mc_env f w t o w' Eq)].
Qed.

(* a valid row stays valid across a computation that runs below it or beside it *)
Lemma seg_keep S w w' seg x : Post S [] [] w w' seg -> CF gen S w w' -> env w' = env w ->
  StoreOK w -> QR gen ord w x -> RowV w x -> (memN x (consistent w) = true \/ In x S) -> RowV w' x.
Proof.
  intros P1 CFw E H Qx RV Hx d dp R'.
  assert (Rows : forall d0, row w' x d0 = row w x d0).
  { intros d0. destruct Hx as [Hx|Hx].
    - destruct (po_others _ _ _ _ _ _ P1 x) as [_ [Y _]]; [|intros []|apply Y].
      intros Z. destruct (po_fresh _ _ _ _ _ _ P1 x Z) as [_ [_ Z']]. congruence.
    - apply (po_eframe _ _ _ _ _ _ P1). exact Hx. }
  rewrite Rows in R'. apply (depok_keep w w' dp E (po_mono _ _ _ _ _ _ P1)); [| |apply (RV d dp R')].
  - intros y Y. destruct (po_others _ _ _ _ _ _ P1 y) as [_ [_ O]]; [|intros []|exact O].
    intros Z. destruct (po_fresh _ _ _ _ _ _ P1 y Z) as [_ [_ Z']]. congruence.
  - intros r Er. apply (proj1 CFw). destruct H as [W [T Sw]]. destruct (T _ _ _ R') as [_ TG].
    assert (Ed : d = rn r).
    { destruct dp as [|y c st|r' c st|r' c st]; cbn in Er, TG; inversion Er; congruence. }
    subst d.
    apply (row_stab S w x r dp (conj W (conj T Sw)) Qx RV Hx R').
Qed.

(* rows of tasks other than the executing one across leaf steps of the executing task *)
Lemma leaf_rowv t w w' x : Leaf t w w' -> Same w w' -> x <> t -> RowV w x -> RowV w' x.
Proof.
  intros L Sm Hne RV d dp R'. unfold row in R'. rewrite (lf_eother _ _ _ L) in R' by (intros E; apply tn_inj in E; contradiction).
  apply (depok_keep w w' dp (same_env _ _ Sm)); [intros y Y; rewrite (same_cons _ _ Sm); exact Y| | |apply (RV d dp R')].
  - intros y _. unfold get_task_output. rewrite (same_outs _ _ Sm). reflexivity.
  - intros r _. apply (same_content _ _ Sm).
Qed.
Lemma same_rowv w w' x : gr w' = gr w -> Same w w' -> RowV w x -> RowV w' x.
Proof.
  intros G Sm RV d dp R'. unfold row in R'. rewrite G in R'.
  apply (depok_keep w w' dp (same_env _ _ Sm)); [intros y Y; rewrite (same_cons _ _ Sm); exact Y| | |apply (RV d dp R')].
  - intros y _. unfold get_task_output. rewrite (same_outs _ _ Sm). reflexivity.
  - intros r _. apply (same_content _ _ Sm).
Qed.
Lemma VC_same w w' : gr w' = gr w -> Same w w' -> VC w -> VC w'.
Proof. intros G Sm V x X. rewrite (same_cons _ _ Sm) in X. apply (same_rowv w w' x G Sm). apply V. exact X. Qed.

Definition VMC (f : nat) : Prop :=
  forall w t S o w', StoreOK w -> Inv2 w -> Chain w S -> entry_ok w S t -> Q gen ord w -> VC w -> (ord t < f)%nat ->
    mc f w t = Done o w' -> VC w'.

(* the inside of a returning require of the executing task t *)
Lemma require_done f t S w x c o w' :
  Pre t S w -> live (gr w) (tn t) = true -> Q gen ord w -> (ord x < ord t)%nat -> ~ In (tn x) (kidsT w t) -> (ord t <= f)%nat ->
  require_with OC (mc f) w x c = Done o w' ->
  exists w3 w4, Leaf t w w3 /\ Same w w3 /\ StoreOK w3 /\ Inv2 w3 /\ Chain w3 (t :: S) /\ edge w3 t x /\ Q gen ord w3 /\
    mc f w3 x = Done o w4 /\ Same w4 w' /\
    (forall a, a <> t -> kidsT w' a = kidsT w4 a /\ forall d, row w' a d = row w4 a d).
Proof.
  intros PR Lt Hq Ho Hnew Hf Eq. pose proof (require_prefix RC OC P t S w x c PR) as RP. cbv zeta in RP.
  destruct PR as [H J0 C Hc Hout Hn]. unfold require_with in Eq.
  set (w2 := get_or_create_task_node (emit w (ERequireStart x c)) x) in *.
  destruct RP as [L2 [Hc2 RP]]. unfold reserve_require_dependency in Eq. rewrite Hc2 in Eq.
  destruct (goc_task_row (emit w (ERequireStart x c)) x t) as [K2 R2]. fold w2 in K2, R2.
  assert (Q2 : Q gen ord w2) by (apply Q_goc_task; apply (Q_same gen ord w); [reflexivity|exact Hq]).
  pose proof (Same_add_dep w2 (tn t) (tn x) DReserved) as SA3.
  destruct (add_dependency w2 (tn t) (tn x) DReserved) as [[| |] w3] eqn:AD; cbn [bind snd] in *; try discriminate.
  destruct RP as [L3 [E3 [C3 [J3 [Ho3 Hc3]]]]].
  assert (Hn2 : ~ In (tn x) (kids_of (gr w2) (tn t))) by (unfold kidsT in *; rewrite K2; exact Hnew).
  destruct (add_dep_new w2 (tn t) (tn x) DReserved w3 (proj1 (lf_ok _ _ _ L2)) Hn2 AD) as [A3 [B3 D3]].
  assert (Q3 : Q gen ord w3).
  { intros a. destruct (N.eq_dec a t) as [->|Hne]; [|apply (Q_leaf_other gen ord t w w3 a L3 Hne); apply Hq].
    apply (QR_step gen ord t w w3 (tn x) DReserved); [|apply Hq| | |].
    - unfold RowStep, kidsT, row. split; [rewrite A3; f_equal; exact K2|]. split; [exact B3|]. intros d' Hd. rewrite D3 by exact Hd. apply R2.
    - intros y E. apply tn_inj in E. subst y. exact Ho.
    - intros r E. exfalso. exact (tn_rn _ _ E).
    - intros r E. exfalso. exact (tn_rn _ _ E). }
  assert (Sw3 : Same w w3).
  { eapply Same_trans; [apply (Same_struct w (emit w (ERequireStart x c))); reflexivity|]. eapply Same_trans; [apply Same_goc_task|exact SA3]. }
  destruct (mc f w3 x) as [o4 w4|k w4|] eqn:MA; cbn [bind] in Eq; try discriminate.
  pose proof (make_consistent_td_spec RC OC P f w3 x (t :: S) (lf_ok _ _ _ L3) J3 C3 E3) as M. rewrite MA in M. destruct M as [_ [Hc4 _]]. rewrite Hc3 in Hc4.
  unfold update_require_dependency in Eq.
  change (cur (emit w4 (ERequireEnd x c (oc_stamp (OC c) o4) o4))) with (cur w4) in Eq. rewrite Hc4 in Eq.
  destruct (get_edata (gr (emit w4 _)) (tn t) (tn x)); cbn [bind] in Eq; try discriminate.
  inversion Eq; subst o w'. exists w3, w4.
  split; [exact L3|]. split; [exact Sw3|]. split; [apply (lf_ok _ _ _ L3)|]. split; [exact J3|]. split; [exact C3|]. split; [exact E3|]. split; [exact Q3|].
  split; [exact MA|]. split; [apply Same_struct; reflexivity|].
  intros a Hne. split; [reflexivity|]. intros d0. unfold row. cbn [gr set_gr emit]. rewrite get_edata_insert.
  destruct (pair_eqb (tn t, tn x) (tn a, d0)) eqn:Z; [|reflexivity]. apply pair_eqb_eq in Z. inversion Z as [[Z1 Z2]]. apply tn_inj in Z1. congruence.
Qed.

Lemma rows_same_rowv w w' a : Same w w' -> kidsT w' a = kidsT w a -> (forall d, row w' a d = row w a d) -> RowV w a -> RowV w' a.
Proof.
  intros Sm _ R RV d dp R'. rewrite R in R'.
  apply (depok_keep w w' dp (same_env _ _ Sm)); [intros y Y; rewrite (same_cons _ _ Sm); exact Y| | |apply (RV d dp R')].
  - intros y _. unfold get_task_output. rewrite (same_outs _ _ Sm). reflexivity.
  - intros r _. apply (same_content _ _ Sm).
Qed.

(* a returning require keeps VC and the validity of the executing task's partial record *)
Lemma req_V f t S w x c o w' : VMC f ->
  Pre t S w -> live (gr w) (tn t) = true -> Q gen ord w -> (ord x < ord t)%nat -> ~ In (tn x) (kidsT w t) -> (ord t <= f)%nat ->
  VC w -> RowV w t -> memN t (consistent w) = false ->
  require_with OC (mc f) w x c = Done o w' -> VC w' /\ RowV w' t.
Proof.
  intros IH PR Lt Hq Ho Hnew Hf V RVt Hnc Eq.
  destruct (require_done f t S w x c o w' PR Lt Hq Ho Hnew Hf Eq) as [w3 [w4 [L3 [Sw3 [H3 [J3 [C3 [E3 [Q3 [MA [S4 Rows]]]]]]]]]]].
  destruct (mc_seg f w3 x (t :: S) o w4 H3 J3 C3 E3 Q3 ltac:(lia) MA) as [[s4 P4] [Cx4 [Ox4 [CF4 [Q4 E4]]]]].
  assert (V3 : VC w3).
  { intros y Y. rewrite (same_cons _ _ Sw3) in Y. apply (leaf_rowv t w w3 y L3 Sw3); [intros ->; congruence|apply V; exact Y]. }
  pose proof (IH w3 x (t :: S) o w4 H3 J3 C3 E3 Q3 V3 ltac:(lia) MA) as V4.
  assert (Hnc4 : memN t (consistent w4) = false).
  { destruct (memN t (consistent w4)) eqn:Z; [|reflexivity]. apply (po_keep _ _ _ _ _ _ P4) in Z; [|left; left; reflexivity].
    rewrite (same_cons _ _ Sw3) in Z. congruence. }
  split.
  - intros y Y. rewrite (same_cons _ _ S4) in Y. assert (Hne : y <> t) by (intros ->; congruence).
    destruct (Rows y Hne) as [K R]. apply (rows_same_rowv w4 w' y S4 K R). apply V4. exact Y.
  - (* the executing task's record: old entries kept, the new one valid by reflexivity *)
    pose proof (require_with_row RC OC P (mc f) t S (make_consistent_td_spec RC OC P f) w x c o w' PR Hnew Eq) as [RK [RN RO]].
    pose proof (require_with_spec RC OC P (mc f) t S (make_consistent_td_spec RC OC P f) w x c
                  (pre_ok _ _ _ PR) (pre_inv _ _ _ PR) (pre_chain _ _ _ PR) (pre_cur _ _ _ PR) (pre_out _ _ _ PR) (pre_nores _ _ _ PR)) as SP.
    rewrite Eq in SP. destruct SP as [[sg PS] _].
    pose proof (require_with_CF_strong gen RC OC P (mc f) t S (make_consistent_td_spec RC OC P f) (make_consistent_td_CF gen wck RC OC P sf HS HWF f) w x c PR Hnc) as CFs.
    rewrite Eq in CFs. cbn in CFs.
    intros d dp R'. destruct (N.eq_dec d (tn x)) as [->|Hd].
    + rewrite RN in R'. inversion R'; subst dp. cbn [DepOK]. split; [rewrite (same_cons _ _ S4); exact Cx4|].
      exists o. split; [unfold get_task_output; rewrite (same_outs _ _ S4); exact Ox4|apply HReflO].
    + rewrite RO in R' by exact Hd.
      apply (depok_keep w w' dp (req_env f w x c o w' Eq) (po_mono _ _ _ _ _ _ PS)); [| |apply (RVt d dp R')].
      * intros y Y. destruct (po_others _ _ _ _ _ _ PS y) as [_ [_ O]]; [| |exact O].
        -- intros Z. destruct (po_fresh _ _ _ _ _ _ PS y Z) as [_ [_ Z']]. congruence.
        -- intros [E|[]]. subst y. congruence.
      * intros r Er. apply (proj1 CFs). destruct (pre_ok _ _ _ PR) as [W [T Sw]]. destruct (T _ _ _ R') as [_ TG].
        assert (Ed : d = rn r). { destruct dp as [|y c' st|r' c' st|r' c' st]; cbn in Er, TG; inversion Er; congruence. }
        subst d. apply (row_stab (t :: S) w t r dp (conj W (conj T Sw)) (Hq t) RVt (or_intror (or_introl eq_refl)) R').
Qed.

(* ---- one operation of the executing task: the bundle of facts the passes need ---- *)
Notation req f := (require_with OC (mc f)).

Lemma req_step f t S w x c o w' : (ord t <= f)%nat ->
  Pre t S w -> live (gr w) (tn t) = true -> Q gen ord w -> (ord x < ord t)%nat -> ~ In (tn x) (kidsT w t) ->
  req f w x c = Done o w' ->
  Pre t S w' /\ live (gr w') (tn t) = true /\ Q gen ord w' /\ RowStep t w w' (tn x) (DRequire x c (oc_stamp (OC c) o)).
Proof.
  intros Hf PR Lt Hq Ho Hnew Eq.
  pose proof (require_with_spec RC OC P (mc f) t S (make_consistent_td_spec RC OC P f) w x c
                (pre_ok _ _ _ PR) (pre_inv _ _ _ PR) (pre_chain _ _ _ PR) (pre_cur _ _ _ PR) (pre_out _ _ _ PR) (pre_nores _ _ _ PR)) as SP.
  pose proof (require_with_Q gen ord RC OC P (mc f) f t S (make_consistent_td_spec RC OC P f) (make_consistent_td_Q gen wck ord RC OC P sf HS HWF HWO f) Hf w x c PR Lt Hq Ho Hnew) as RQ.
  rewrite Eq in SP, RQ. cbn in RQ.
  split; [eapply (pre_step t S w); eassumption|]. split; [eapply (step_live t S w); eassumption|]. split; [exact RQ|].
  apply (require_with_row RC OC P (mc f) t S (make_consistent_td_spec RC OC P f) w x c o w' PR Hnew Eq).
Qed.

Lemma read_step t S w r c xv w' :
  Pre t S w -> live (gr w) (tn t) = true -> Q gen ord w -> ~ In (rn r) (kidsT w t) ->
  (gen r = None \/ exists g, gen r = Some g /\ In (tn g) (kidsT w t)) ->
  sess_read RC w r c = Done xv w' ->
  xv = inl (rc_view (RC c) (get_content w r)) /\ Pre t S w' /\ live (gr w') (tn t) = true /\ Q gen ord w' /\
  RowStep t w w' (rn r) (DRead r c (sf c r (get_content w r))) /\ Leaf t w w' /\ Same w w'.
Proof.
  intros PR Lt Hq Hx Hg Eq.
  pose proof (sess_read_leaf RC w t r c (pre_ok _ _ _ PR) (pre_cur _ _ _ PR)) as LF.
  pose proof (sess_read_nores RC w t r c (pre_ok _ _ _ PR) (pre_cur _ _ _ PR) (pre_nores _ _ _ PR)) as NRs.
  pose proof (okP_of_leafO S t w (sess_read RC w r c) (chain_head_notin _ _ _ (pre_chain _ _ _ PR)) (pre_cur _ _ _ PR) (pre_out _ _ _ PR) (pre_nores _ _ _ PR) LF NRs) as SP.
  destruct (sess_read_row RC sf HS w t r c xv w' (pre_ok _ _ _ PR) (pre_cur _ _ _ PR) Hx Eq) as [Ex RS].
  destruct (sess_read_done RC sf HS w t r c xv w' (pre_cur _ _ _ PR) Eq) as [_ Sm].
  rewrite Eq in *. cbn [leafO] in LF.
  split; [exact Ex|]. split; [eapply (pre_step t S w); eassumption|]. split; [eapply (step_live t S w); eassumption|].
  split; [|split; [exact RS|split; [exact LF|exact Sm]]].
  intros a. destruct (N.eq_dec a t) as [->|Hne]; [|apply (Q_leaf_other gen ord t w w' a LF Hne); apply Hq].
  apply (QR_step gen ord t w w' _ _ RS (Hq t)).
  - intros y E. exfalso. symmetry in E. exact (tn_rn _ _ E).
  - intros r0 _ X. discriminate.
  - intros r0 E _. assert (r0 = r) by (unfold rn in E; lia). subst r0. exact Hg.
Qed.

Lemma write_step t S w r c v xv w' :
  Pre t S w -> live (gr w) (tn t) = true -> Q gen ord w -> ~ In (rn r) (kidsT w t) -> gen r = Some t ->
  sess_write RC w r c v = Done xv w' ->
  xv = inl tt /\ Pre t S w' /\ live (gr w') (tn t) = true /\ Q gen ord w' /\
  RowStep t w w' (rn r) (DWrite r c (sf c r v)) /\ Leaf t w w' /\ Wrote w w' r v.
Proof.
  intros PR Lt Hq Hx Hg Eq.
  pose proof (sess_write_leaf RC w t r c v (pre_ok _ _ _ PR) (pre_cur _ _ _ PR)) as LF.
  pose proof (sess_write_nores RC w t r c v (pre_ok _ _ _ PR) (pre_cur _ _ _ PR) (pre_nores _ _ _ PR)) as NRs.
  pose proof (okP_of_leafO S t w (sess_write RC w r c v) (chain_head_notin _ _ _ (pre_chain _ _ _ PR)) (pre_cur _ _ _ PR) (pre_out _ _ _ PR) (pre_nores _ _ _ PR) LF NRs) as SP.
  destruct (sess_write_row RC sf HS w t r c v xv w' (pre_ok _ _ _ PR) (pre_cur _ _ _ PR) Hx Eq) as [Ex RS].
  destruct (sess_write_done RC sf HS w t r c v xv w' (pre_cur _ _ _ PR) Eq) as [_ Wr].
  rewrite Eq in *. cbn [leafO] in LF.
  split; [exact Ex|]. split; [eapply (pre_step t S w); eassumption|]. split; [eapply (step_live t S w); eassumption|].
  split; [|split; [exact RS|split; [exact LF|exact Wr]]].
  intros a. destruct (N.eq_dec a t) as [->|Hne]; [|apply (Q_leaf_other gen ord t w w' a LF Hne); apply Hq].
  apply (QR_step gen ord t w w' _ _ RS (Hq t)).
  - intros y E. exfalso. symmetry in E. exact (tn_rn _ _ E).
  - intros r0 E _. assert (r0 = r) by (unfold rn in E; lia). subst r0. exact Hg.
  - intros r0 _ X. discriminate.
Qed.

Lemma written_to_step t S w r c v xv w' :
  Pre t S w -> live (gr w) (tn t) = true -> Q gen ord w -> ~ In (rn r) (kidsT w t) -> gen r = Some t ->
  sess_written_to RC w r c v = Done xv w' ->
  xv = inl tt /\ Pre t S w' /\ live (gr w') (tn t) = true /\ Q gen ord w' /\
  RowStep t w w' (rn r) (DWrite r c (sf c r v)) /\ Leaf t w w' /\ Wrote w w' r v.
Proof.
  intros PR Lt Hq Hx Hg Eq.
  pose proof (sess_written_to_leaf RC w t r c v (pre_ok _ _ _ PR) (pre_cur _ _ _ PR)) as LF.
  pose proof (sess_written_to_nores RC w t r c v (pre_ok _ _ _ PR) (pre_cur _ _ _ PR) (pre_nores _ _ _ PR)) as NRs.
  pose proof (okP_of_leafO S t w (sess_written_to RC w r c v) (chain_head_notin _ _ _ (pre_chain _ _ _ PR)) (pre_cur _ _ _ PR) (pre_out _ _ _ PR) (pre_nores _ _ _ PR) LF NRs) as SP.
  destruct (sess_written_to_row RC sf HS w t r c v xv w' (pre_ok _ _ _ PR) (pre_cur _ _ _ PR) Hx Eq) as [Ex RS].
  destruct (sess_written_to_done RC sf HS w t r c v xv w' (pre_cur _ _ _ PR) Eq) as [_ Wr].
  rewrite Eq in *. cbn [leafO] in LF.
  split; [exact Ex|]. split; [eapply (pre_step t S w); eassumption|]. split; [eapply (step_live t S w); eassumption|].
  split; [|split; [exact RS|split; [exact LF|exact Wr]]].
  intros a. destruct (N.eq_dec a t) as [->|Hne]; [|apply (Q_leaf_other gen ord t w w' a LF Hne); apply Hq].
  apply (QR_step gen ord t w w' _ _ RS (Hq t)).
  - intros y E. exfalso. symmetry in E. exact (tn_rn _ _ E).
  - intros r0 E _. assert (r0 = r) by (unfold rn in E; lia). subst r0. exact Hg.
  - intros r0 _ X. discriminate.
Qed.

(* a consistent task has no recorded dependency on a product of a task that is not consistent *)
Lemma no_dep_on_unbuilt_product w y t r dp : StoreOK w -> QR gen ord w y -> RowV w y -> memN y (consistent w) = true ->
  memN t (consistent w) = false -> gen r = Some t -> row w y (rn r) = Some dp -> False.
Proof.
  intros [W [T _]] [_ [Q2 Q3]] RV Hy Ht Hg R. destruct (T _ _ _ R) as [_ TG].
  destruct dp as [|z c st|r' c st|r' c st]; cbn in TG.
  - rewrite rn_odd in TG. discriminate.
  - exact (tn_rn _ _ (eq_sym TG)).
  - destruct (Q3 r _ R eq_refl) as [E|[g [E B]]]; [congruence|]. rewrite Hg in E. inversion E; subst g.
    pose proof (before_in _ _ _ B) as I. apply (wf_edata _ W) in I. unfold kidsT in I.
    destruct (get_edata (gr w) (tn y) (tn t)) as [dp'|] eqn:G; [|contradiction].
    pose proof (RV (tn t) dp' G) as D. destruct (T _ _ _ G) as [_ TG'].
    destruct dp' as [|z c' st'|r2 c' st'|r2 c' st']; cbn in D, TG'; try contradiction.
    + apply tn_inj in TG'. subst z. destruct D as [D _]. congruence.
    + exact (tn_rn _ _ TG').
    + exact (tn_rn _ _ TG').
  - pose proof (Q2 r _ R eq_refl) as E. rewrite Hg in E. inversion E; subst y. congruence.
Qed.

Lemma wrote_rowv w w' r v y : StoreOK w -> Wrote w w' r v -> (forall d, row w' y d = row w y d) ->
  (forall dp, row w y (rn r) = Some dp -> False) -> RowV w y -> RowV w' y.
Proof.
  intros H [W1 [W2 [W3 [W4 W5]]]] R NoR RV d dp R'. rewrite R in R'.
  apply (depok_keep w w' dp W3); [intros z Z; rewrite W4; exact Z| | |apply (RV d dp R')].
  - intros z _. unfold get_task_output. rewrite W5. reflexivity.
  - intros r0 Er. apply W2. intros ->. destruct H as [_ [T _]]. destruct (T _ _ _ R') as [_ TG].
    assert (Ed : d = rn r). { destruct dp as [|z c' st|r' c' st|r' c' st]; cbn in Er, TG; inversion Er; congruence. }
    subst d. exact (NoR dp R').
Qed.

Lemma exec_prog_V f t S : VMC f -> (ord t <= f)%nat ->
  forall p w o w', Pre t S w -> live (gr w) (tn t) = true -> Q gen ord w -> VC w -> RowV w t -> memN t (consistent w) = false ->
    WFP gen wck t (kidsT w t) p -> WFO ord t p ->
    exec_prog RC OC (req f) p w = Done o w' -> VC w' /\ RowV w' t /\ memN t (consistent w') = false /\ Q gen ord w' /\ StoreOK w'.
Proof.
  intros IH Hf. induction p as [o0| |x c k IHp|r c k IHp|r c v k IHp|r c v k IHp]; intros w o w' PR Lt Hq V RVt Hnc HW HO Eq; cbn [exec_prog] in Eq.
  - inversion Eq; subst. split; [exact V|]. split; [exact RVt|]. split; [exact Hnc|]. split; [exact Hq|apply (pre_ok _ _ _ PR)].
  - discriminate.
  - inversion HW as [| |sn x' c' k' Hx Hk| | |]; subst. inversion HO as [|x' c' k' Hox Hok| | |]; subst.
    destruct (req f w x c) as [ox w1|k1 w1|] eqn:RQ; cbn [bind] in Eq; try discriminate.
    destruct (req_step f t S w x c ox w1 Hf PR Lt Hq Hox Hx RQ) as [PR1 [Lt1 [Q1 RS]]].
    destruct (req_V f t S w x c ox w1 IH PR Lt Hq Hox Hx Hf V RVt Hnc RQ) as [V1 RV1].
    assert (Hnc1 : memN t (consistent w1) = false).
    { pose proof (require_with_spec RC OC P (mc f) t S (make_consistent_td_spec RC OC P f) w x c
                    (pre_ok _ _ _ PR) (pre_inv _ _ _ PR) (pre_chain _ _ _ PR) (pre_cur _ _ _ PR) (pre_out _ _ _ PR) (pre_nores _ _ _ PR)) as SP.
      rewrite RQ in SP. apply (step_nc t S w ox w1 _ SP Hnc). }
    apply (IHp (oc_view (OC c) ox) w1 o w' PR1 Lt1 Q1 V1 RV1 Hnc1); [rewrite (proj1 RS); apply Hk|apply Hok|exact Eq].
  - inversion HW as [| | |sn r' c' k' Hx Hg Hk| |]; subst. inversion HO as [| |r' c' k' Hok| |]; subst.
    destruct (sess_read RC w r c) as [xv w1|k1 w1|] eqn:RQ; cbn [bind] in Eq; try discriminate.
    destruct (read_step t S w r c xv w1 PR Lt Hq Hx Hg RQ) as [-> [PR1 [Lt1 [Q1 [RS [LF Sm]]]]]].
    assert (V1 : VC w1).
    { intros y Y. rewrite (same_cons _ _ Sm) in Y. apply (leaf_rowv t w w1 y LF Sm); [intros ->; congruence|apply V; exact Y]. }
    assert (RV1 : RowV w1 t).
    { destruct RS as [_ [RN RO]]. intros d dp R'. destruct (N.eq_dec d (rn r)) as [->|Hd].
      - rewrite RN in R'. inversion R'; subst dp. cbn [DepOK]. rewrite (same_env _ _ Sm), (same_content _ _ Sm). apply HRefl.
      - rewrite RO in R' by exact Hd. apply (depok_keep w w1 dp (same_env _ _ Sm)); [intros z Z; rewrite (same_cons _ _ Sm); exact Z| | |apply (RVt d dp R')].
        + intros z _. unfold get_task_output. rewrite (same_outs _ _ Sm). reflexivity.
        + intros r0 _. apply (same_content _ _ Sm). }
    apply (IHp (inl (rc_view (RC c) (get_content w r))) w1 o w' PR1 Lt1 Q1 V1 RV1 ltac:(rewrite (same_cons _ _ Sm); exact Hnc)); [rewrite (proj1 RS); apply Hk|apply Hok|exact Eq].
  - inversion HW as [| | | |sn r' c' v' k' Hx Hg Hwc Hk|]; subst. inversion HO as [| | |r' c' v' k' Hok|]; subst.
    destruct (sess_write RC w r c v) as [xv w1|k1 w1|] eqn:RQ; cbn [bind] in Eq; try discriminate.
    destruct (write_step t S w r c v xv w1 PR Lt Hq Hx Hg RQ) as [-> [PR1 [Lt1 [Q1 [RS [LF Wr]]]]]].
    pose proof Wr as [W1 [W2 [W3 [W4 W5]]]].
    assert (V1 : VC w1).
    { intros y Y. rewrite W4 in Y. assert (Hne : y <> t) by (intros ->; congruence).
      apply (wrote_rowv w w1 r v y (pre_ok _ _ _ PR) Wr); [intros d; apply (lf_eother _ _ _ LF); intros E; apply tn_inj in E; contradiction| |apply V; exact Y].
      intros dp R. exact (no_dep_on_unbuilt_product w y t r dp (pre_ok _ _ _ PR) (Hq y) (V y Y) Y Hnc Hg R). }
    assert (RV1 : RowV w1 t).
    { destruct RS as [_ [RN RO]]. intros d dp R'. destruct (N.eq_dec d (rn r)) as [->|Hd].
      - rewrite RN in R'. inversion R'; subst dp. cbn [DepOK]. rewrite W1. apply HRefl.
      - rewrite RO in R' by exact Hd. apply (depok_keep w w1 dp W3); [intros z Z; rewrite W4; exact Z| | |apply (RVt d dp R')].
        + intros z _. unfold get_task_output. rewrite W5. reflexivity.
        + intros r0 Er. apply W2. intros ->. destruct (pre_ok _ _ _ PR) as [_ [T _]]. destruct (T _ _ _ R') as [_ TG].
          apply Hd. destruct dp as [|z c' st|r' c' st|r' c' st]; cbn in Er, TG; inversion Er; congruence. }
    apply (IHp (inl tt) w1 o w' PR1 Lt1 Q1 V1 RV1 ltac:(rewrite W4; exact Hnc)); [rewrite (proj1 RS); apply Hk|apply Hok|exact Eq].
  - inversion HW as [| | | | |sn r' c' v' k' Hx Hg Hwc Hk]; subst. inversion HO as [| | | |r' c' v' k' Hok]; subst.
    destruct (sess_written_to RC w r c v) as [xv w1|k1 w1|] eqn:RQ; cbn [bind] in Eq; try discriminate.
    destruct (written_to_step t S w r c v xv w1 PR Lt Hq Hx Hg RQ) as [-> [PR1 [Lt1 [Q1 [RS [LF Wr]]]]]].
    pose proof Wr as [W1 [W2 [W3 [W4 W5]]]].
    assert (V1 : VC w1).
    { intros y Y. rewrite W4 in Y. assert (Hne : y <> t) by (intros ->; congruence).
      apply (wrote_rowv w w1 r v y (pre_ok _ _ _ PR) Wr); [intros d; apply (lf_eother _ _ _ LF); intros E; apply tn_inj in E; contradiction| |apply V; exact Y].
      intros dp R. exact (no_dep_on_unbuilt_product w y t r dp (pre_ok _ _ _ PR) (Hq y) (V y Y) Y Hnc Hg R). }
    assert (RV1 : RowV w1 t).
    { destruct RS as [_ [RN RO]]. intros d dp R'. destruct (N.eq_dec d (rn r)) as [->|Hd].
      - rewrite RN in R'. inversion R'; subst dp. cbn [DepOK]. rewrite W1. apply HRefl.
      - rewrite RO in R' by exact Hd. apply (depok_keep w w1 dp W3); [intros z Z; rewrite W4; exact Z| | |apply (RVt d dp R')].
        + intros z _. unfold get_task_output. rewrite W5. reflexivity.
        + intros r0 Er. apply W2. intros ->. destruct (pre_ok _ _ _ PR) as [_ [T _]]. destruct (T _ _ _ R') as [_ TG].
          apply Hd. destruct dp as [|z c' st|r' c' st|r' c' st]; cbn in Er, TG; inversion Er; congruence. }
    apply (IHp (inl tt) w1 o w' PR1 Lt1 Q1 V1 RV1 ltac:(rewrite W4; exact Hnc)); [rewrite (proj1 RS); apply Hk|apply Hok|exact Eq].
Qed.

Lemma execute_with_V f t S : VMC f -> (ord t <= f)%nat ->
  forall w o w', StoreOK w -> Inv2 w -> Chain w (t :: S) -> memN t (consistent w) = false -> live (gr w) (tn t) = true ->
    Q gen ord w -> VC w -> execute_with RC OC P (req f) w t = Done o w' ->
    VC w' /\ RowV w' t /\ memN t (consistent w') = false /\ Q gen ord w' /\ get_task_output w' t = Some o.
Proof.
  intros IH Hf w o w' H J0 C Hn Lt Hq V Eq.
  destruct (exec_start_pre OC t S w H J0 C Hn) as [PR2 [Hn2 [KT2 [R2 C2]]]]. unfold execute_with in Eq.
  set (w2 := emit (set_cur (reset_task w t) (Some t)) (EExecStart t)) in *.
  destruct (reset_task_facts w t H) as [_ [K1 [L1 [_ [_ [_ [E1 [E0 [_ O1]]]]]]]]].
  assert (Lt2 : live (gr w2) (tn t) = true) by (apply L1; exact Lt).
  assert (Q2 : Q gen ord w2).
  { intros a. destruct (N.eq_dec a t) as [->|Hne].
    - apply QR_empty; [exact KT2|intros d; apply E0].
    - assert (X : tn a <> tn t) by (intros E; apply tn_inj in E; contradiction).
      apply (QR_same gen ord w); [apply K1; exact X|intros d; apply E1; exact X|apply Hq]. }
  assert (V2 : VC w2).
  { intros y Y. rewrite C2 in Y. assert (Hne : y <> t) by (intros ->; congruence).
    assert (X : tn y <> tn t) by (intros E; apply tn_inj in E; contradiction).
    intros d dp R'. unfold row in R'. change (gr w2) with (gr (reset_task w t)) in R'. rewrite E1 in R' by exact X.
    apply (depok_keep w w2 dp eq_refl); [intros z Z; rewrite C2; exact Z| | |apply (V y Y d dp R')].
    - intros z Z. change (get_task_output (reset_task w t) z = get_task_output w z). apply O1. intros ->. congruence.
    - intros r0 _. unfold get_content. rewrite R2. reflexivity. }
  assert (RV2 : RowV w2 t) by (intros d dp R'; unfold row in R'; change (gr w2) with (gr (reset_task w t)) in R'; rewrite E0 in R'; discriminate).
  assert (HW2 : WFP gen wck t (kidsT w2 t) (P t)) by (rewrite KT2; apply HWF).
  destruct (exec_prog RC OC (req f) (P t) w2) as [o3 w3|k w3|] eqn:XQ; cbn [bind] in Eq; try discriminate.
  destruct (exec_prog_V f t S IH Hf (P t) w2 o3 w3 PR2 Lt2 Q2 V2 RV2 Hn2 HW2 (HWO t) XQ) as [V3 [RV3 [Hn3 [Q3 H3]]]].
  inversion Eq; subst o w'. clear Eq.
  set (w4 := set_task_output (set_cur (emit w3 (EExecEnd t o3)) (cur (reset_task w t))) t o3).
  assert (O4 : forall z, z <> t -> get_task_output w4 z = get_task_output w3 z).
  { intros z Hz. unfold get_task_output, w4, set_task_output. cbn [outs set_outs set_cur emit]. apply alookup_aset_other. exact Hz. }
  assert (KP : forall y, RowV w3 y -> RowV w4 y).
  { intros y RVy d dp R'. apply (depok_keep w3 w4 dp eq_refl); [intros z Z; exact Z| |intros r0 _; reflexivity|apply (RVy d dp R')].
    intros z Z. apply O4. intros ->. congruence. }
  split; [intros y Y; apply KP; apply V3; exact Y|]. split; [apply KP; exact RV3|]. split; [exact Hn3|].
  split; [apply (Q_same gen ord w3); [reflexivity|exact Q3]|].
  unfold get_task_output, w4, set_task_output. cbn [outs set_outs]. apply alookup_aset_eq.
Qed.

Lemma nodup_split_unique (b : node) : forall (m1 m2 p1 p2 : list node),
  NoDup (m1 ++ b :: m2) -> m1 ++ b :: m2 = p1 ++ b :: p2 -> m1 = p1.
Proof.
  induction m1 as [|a m1 IH]; intros m2 p1 p2 ND E; destruct p1 as [|q p1]; cbn in *.
  - reflexivity.
  - inversion E; subst. exfalso. inversion ND as [|? ? N1 N2]; subst. apply N1. apply in_or_app. right. left. reflexivity.
  - inversion E; subst. exfalso. inversion ND as [|? ? N1 N2]; subst. apply N1. apply in_or_app. right. left. reflexivity.
  - inversion E; subst. f_equal. inversion ND; subst. eapply IH; eassumption.
Qed.
Lemma before_prefix (a b : node) l1 l2 : NoDup (l1 ++ l2) -> before a b (l1 ++ l2) -> In b l1 -> In a l1.
Proof.
  intros ND [m1 [m2 [E I]]] Hb. apply in_split in Hb. destruct Hb as [p1 [p2 ->]].
  rewrite <- app_assoc in E, ND. cbn [app] in E, ND.
  assert (X : p1 = m1) by (eapply nodup_split_unique; [exact ND|exact E]).
  subst m1. apply in_or_app. left. exact I.
Qed.

(* the stability condition for the entries of the validated prefix l1 of t's dependency list *)
Lemma prefix_stab t S w l1 l2 d r dp : StoreOK w -> QR gen ord w t -> kidsT w t = l1 ++ l2 ->
  (forall d0 dp0, In d0 l1 -> row w t d0 = Some dp0 -> DepOK w dp0) ->
  In d l1 -> row w t d = Some dp -> dep_res dp = Some r -> StabC gen (t :: S) w r.
Proof.
  intros [W [T Sw]] [_ [Q2 Q3]] K V1 Hd R Er. destruct (T _ _ _ R) as [_ TG].
  assert (Ed : d = rn r). { destruct dp as [|y c st|r' c st|r' c st]; cbn in Er, TG; inversion Er; congruence. }
  subst d. destruct dp as [|y c st|r' c st|r' c st]; cbn in Er; inversion Er; subst r'.
  - destruct (Q3 r _ R eq_refl) as [E|[g [E B]]]; [left; exact E|right; exists g; split; [exact E|left]].
    assert (Ig : In (tn g) l1).
    { apply (before_prefix (tn g) (rn r) l1 l2); [rewrite <- K; apply (wf_kn _ W)|rewrite <- K; exact B|exact Hd]. }
    assert (Ik : In (tn g) (kidsT w t)) by (rewrite K; apply in_or_app; left; exact Ig).
    apply (wf_edata _ W) in Ik. destruct (get_edata (gr w) (tn t) (tn g)) as [dp'|] eqn:G; [|contradiction].
    pose proof (V1 (tn g) dp' Ig G) as D. destruct (T _ _ _ G) as [_ TG'].
    destruct dp' as [|z c' st'|r2 c' st'|r2 c' st']; cbn in D, TG'; try contradiction.
    + apply tn_inj in TG'. subst z. exact (proj1 D).
    + exfalso. exact (tn_rn _ _ TG').
    + exfalso. exact (tn_rn _ _ TG').
  - right. exists t. split; [exact (Q2 r _ R eq_refl)|right; left; reflexivity].
Qed.

Definition ChkOut (t : task) (S : list task) (L : list node) (w w' : world) (ok : bool) : Prop :=
  VC w' /\ Q gen ord w' /\ StoreOK w' /\ Inv2 w' /\ Chain w' (t :: S) /\ memN t (consistent w') = false /\
  kidsT w' t = kidsT w t /\ (forall d, row w' t d = row w t d) /\ get_task_output w' t = get_task_output w t /\
  (live (gr w) (tn t) = true -> live (gr w') (tn t) = true) /\
  (ok = true -> forall d dp, In d L -> row w' t d = Some dp -> DepOK w' dp).

Lemma check_deps_V f t S : VMC f -> (ord t <= f)%nat ->
  forall l2 l1 w ok w', kidsT w t = l1 ++ l2 ->
    StoreOK w -> Inv2 w -> Chain w (t :: S) -> Q gen ord w -> VC w -> memN t (consistent w) = false ->
    (forall d dp, In d l1 -> row w t d = Some dp -> DepOK w dp) ->
    (forall d, In d l2 -> dep_ok w t (row w t d)) ->
    check_deps RC OC (mc f) (map (row w t) l2) w = Done ok w' ->
    ChkOut t S (l1 ++ l2) w w' ok.
Proof.
  intros IH Hf. induction l2 as [|d l2' IHl]; intros l1 w ok w' K H J0 C Hq V Hnc V1 Hdo Eq; cbn [map check_deps] in Eq.
  - inversion Eq; subst ok w'. unfold ChkOut. rewrite app_nil_r.
    split; [exact V|]. split; [exact Hq|]. split; [exact H|]. split; [exact J0|]. split; [exact C|]. split; [exact Hnc|].
    split; [reflexivity|]. split; [intros; reflexivity|]. split; [reflexivity|]. split; [intros X; exact X|].
    intros _ d dp Hd R. exact (V1 d dp Hd R).
  - destruct (Hdo d (or_introl eq_refl)) as [dp [Ed [NRs HX]]]. rewrite Ed in Eq.
    assert (Kd : In d (kidsT w t)) by (rewrite K; apply in_or_app; right; left; reflexivity).
    (* what every successful step has to re-establish for the recursive call *)
    assert (REC : forall a3 okd,
              StoreOK a3 -> Inv2 a3 -> Chain a3 (t :: S) -> Q gen ord a3 -> VC a3 -> memN t (consistent a3) = false ->
              kidsT a3 t = kidsT w t -> (forall d0, row a3 t d0 = row w t d0) -> get_task_output a3 t = get_task_output w t ->
              (live (gr w) (tn t) = true -> live (gr a3) (tn t) = true) ->
              (forall d0 dp0, In d0 l1 -> row w t d0 = Some dp0 -> DepOK a3 dp0) -> DepOK a3 dp ->
              check_deps RC OC (mc f) (map (row w t) l2') a3 = Done okd w' -> ChkOut t S (l1 ++ d :: l2') w w' okd).
    { intros a3 okd H3 J3 C3 Q3 V3 Hn3 K3 R3 O3 L3 V13 Vd E3.
      assert (E3' : check_deps RC OC (mc f) (map (row a3 t) l2') a3 = Done okd w').
      { rewrite (map_ext (row a3 t) (row w t) R3). exact E3. }
      assert (Ka : kidsT a3 t = (l1 ++ [d]) ++ l2') by (rewrite K3, K, <- app_assoc; reflexivity).
      assert (V1a : forall d0 dp0, In d0 (l1 ++ [d]) -> row a3 t d0 = Some dp0 -> DepOK a3 dp0).
      { intros d0 dp0 I0 R0. rewrite R3 in R0. apply in_app_or in I0. destruct I0 as [I0|[<-|[]]]; [apply (V13 d0 dp0 I0 R0)|].
        rewrite Ed in R0. inversion R0; subst dp0. exact Vd. }
      assert (Hdoa : forall d0, In d0 l2' -> dep_ok a3 t (row a3 t d0)).
      { intros d0 I0. rewrite R3. destruct (Hdo d0 (or_intror I0)) as [dp0 [E0 [N0 X0]]]. exists dp0. split; [exact E0|]. split; [exact N0|].
        intros x c st E. unfold edge. change (kids_of (gr a3) (tn t)) with (kidsT a3 t). rewrite K3. apply (X0 x c st E). }
      destruct (IHl (l1 ++ [d]) a3 okd w' Ka H3 J3 C3 Q3 V3 Hn3 V1a Hdoa E3') as [A1 [A2 [A3 [A4 [A5 [A6 [A7 [A8 [A9 [A10 A11]]]]]]]]]].
      unfold ChkOut. split; [exact A1|]. split; [exact A2|]. split; [exact A3|]. split; [exact A4|]. split; [exact A5|]. split; [exact A6|].
      split; [rewrite A7; exact K3|]. split; [intros d0; rewrite A8; apply R3|]. split; [rewrite A9; exact O3|]. split; [intros X; apply A10, L3; exact X|].
      intros Hok d0 dp0 I0 R0. apply (A11 Hok d0 dp0); [|exact R0]. rewrite <- app_assoc. exact I0. }
    (* the same conclusion when validation stops here *)
    assert (STOP : forall a3, StoreOK a3 -> Inv2 a3 -> Chain a3 (t :: S) -> Q gen ord a3 -> VC a3 -> memN t (consistent a3) = false ->
              kidsT a3 t = kidsT w t -> (forall d0, row a3 t d0 = row w t d0) -> get_task_output a3 t = get_task_output w t ->
              (live (gr w) (tn t) = true -> live (gr a3) (tn t) = true) -> ChkOut t S (l1 ++ d :: l2') w a3 false).
    { intros a3 H3 J3 C3 Q3 V3 Hn3 K3 R3 O3 L3. unfold ChkOut.
      split; [exact V3|]. split; [exact Q3|]. split; [exact H3|]. split; [exact J3|]. split; [exact C3|]. split; [exact Hn3|].
      split; [exact K3|]. split; [exact R3|]. split; [exact O3|]. split; [exact L3|]. discriminate. }
    destruct dp as [|x c st|r c st|r c st]; [congruence| | |].
    + set (a1 := emit w (ECheckTaskStart x c st)) in *.
      destruct (mc f a1 x) as [ox a2|k a2|] eqn:MA; cbn [bind] in Eq; try discriminate.
      assert (C1 : Chain a1 (t :: S)) by (destruct C as [N C]; split; [exact N|apply (chain_frame w a1); [exact C|intros; reflexivity]]).
      assert (E1 : entry_ok a1 (t :: S) x) by (cbn; apply (HX x c st eq_refl)).
      assert (Ox : (ord x < ord t)%nat) by (apply (proj1 (Hq t)); apply (HX x c st eq_refl)).
      assert (Q1 : Q gen ord a1) by (apply (Q_same gen ord w); [reflexivity|exact Hq]).
      assert (Va1 : VC a1) by (apply (VC_same w a1); [reflexivity|apply Same_struct; reflexivity|exact V]).
      destruct (mc_seg f a1 x (t :: S) ox a2 H J0 C1 E1 Q1 ltac:(lia) MA) as [[s2 P2] [Cx2 [Ox2 [CF2 [Q2 E2]]]]].
      pose proof (IH a1 x (t :: S) ox a2 H J0 C1 E1 Q1 Va1 ltac:(lia) MA) as V2.
      set (a3 := emit a2 (ECheckTaskEnd x c st (negb (oc_check (OC c) ox st)))) in *.
      assert (H3 : StoreOK a3) by apply (po_ok _ _ _ _ _ _ P2).
      assert (J3 : Inv2 a3) by apply (po_inv _ _ _ _ _ _ P2 J0).
      assert (C3 : Chain a3 (t :: S)).
      { pose proof (chain_post_all a1 a2 (t :: S) [] s2 C1 P2) as [N2 C2']. split; [exact N2|]. apply (chain_frame a2 a3); [exact C2'|]. intros; reflexivity. }
      assert (Q3 : Q gen ord a3) by (apply (Q_same gen ord a2); [reflexivity|exact Q2]).
      assert (V3 : VC a3) by (apply (VC_same a2 a3); [reflexivity|apply Same_struct; reflexivity|exact V2]).
      assert (Hn3 : memN t (consistent a3) = false).
      { destruct (memN t (consistent a3)) eqn:Z; [|reflexivity]. apply (po_keep _ _ _ _ _ _ P2) in Z; [|left; left; reflexivity].
        change (memN t (consistent w) = true) in Z. congruence. }
      assert (K3 : kidsT a3 t = kidsT w t) by (apply (po_frame _ _ _ _ _ _ P2); left; reflexivity).
      assert (R3 : forall d0, row a3 t d0 = row w t d0) by (intros d0; apply (po_eframe _ _ _ _ _ _ P2); left; reflexivity).
      assert (O3 : get_task_output a3 t = get_task_output w t) by (apply (po_oframe _ _ _ _ _ _ P2); left; left; reflexivity).
      assert (L3 : live (gr w) (tn t) = true -> live (gr a3) (tn t) = true) by (intros X; apply (po_live _ _ _ _ _ _ P2); exact X).
      destruct (oc_check (OC c) ox st) eqn:OK1.
      * apply (REC a3 ok H3 J3 C3 Q3 V3 Hn3 K3 R3 O3 L3); [| |exact Eq].
        -- intros d0 dp0 I0 R0. apply (depok_keep w a3 dp0); [exact E2|apply (po_mono _ _ _ _ _ _ P2)| | |apply (V1 d0 dp0 I0 R0)].
           ++ intros y Y. destruct (po_others _ _ _ _ _ _ P2 y) as [_ [_ O]]; [|intros []|exact O].
              intros Z. destruct (po_fresh _ _ _ _ _ _ P2 y Z) as [_ [_ Z']]. change (memN y (consistent w) = false) in Z'. congruence.
           ++ intros r Er. apply (proj1 CF2). apply (prefix_stab t S w l1 (d :: l2') d0 r dp0 H (Hq t) K V1 I0 R0 Er).
        -- cbn [DepOK]. split; [exact Cx2|]. exists ox. split; [exact Ox2|exact OK1].
      * inversion Eq; subst ok w'. apply (STOP a3 H3 J3 C3 Q3 V3 Hn3 K3 R3 O3 L3).
    + unfold check_resource_td in Eq. cbv zeta in Eq.
      set (a1 := emit w (ECheckResStart r c st)) in *.
      set (xx := rc_check (RC c) (env a1) r (get_content a1 r) st) in *.
      set (a2 := emit a1 (ECheckResEnd r c st xx)) in *.
      assert (Sa : Same w a2) by (apply Same_struct; reflexivity).
      assert (C2 : Chain a2 (t :: S)) by (destruct C as [N C]; split; [exact N|apply (chain_frame w a2); [exact C|intros; reflexivity]]).
      assert (Q2 : Q gen ord a2) by (apply (Q_same gen ord w); [reflexivity|exact Hq]).
      assert (V2 : VC a2) by (apply (VC_same w a2); [reflexivity|exact Sa|exact V]).
      assert (KP : forall dp0, DepOK w dp0 -> DepOK a2 dp0).
      { intros dp0 D0. apply (depok_keep w a2 dp0 eq_refl); [intros y Y; exact Y|intros; reflexivity|intros; reflexivity|exact D0]. }
      destruct xx as [| |e] eqn:XX; cbv iota beta in Eq.
      * apply (REC a2 ok H J0 C2 Q2 V2 Hnc eq_refl ltac:(intros; reflexivity) eq_refl ltac:(intros X; exact X)); [| |exact Eq].
        -- intros d0 dp0 I0 R0. apply KP. apply (V1 d0 dp0 I0 R0).
        -- cbn [DepOK]. exact XX.
      * inversion Eq; subst ok w'. apply (STOP a2 H J0 C2 Q2 V2 Hnc eq_refl ltac:(intros; reflexivity) eq_refl ltac:(intros X; exact X)).
      * inversion Eq; subst ok w'.
        assert (Sp : Same w (push_err a2 e)) by (apply Same_struct; reflexivity).
        apply (STOP (push_err a2 e) H J0 ltac:(destruct C as [N C]; split; [exact N|apply (chain_frame w _); [exact C|intros; reflexivity]])
                 ltac:(apply (Q_same gen ord w); [reflexivity|exact Hq]) ltac:(apply (VC_same w _); [reflexivity|exact Sp|exact V]) Hnc eq_refl ltac:(intros; reflexivity) eq_refl ltac:(intros X; exact X)).
    + unfold check_resource_td in Eq. cbv zeta in Eq.
      set (a1 := emit w (ECheckResStart r c st)) in *.
      set (xx := rc_check (RC c) (env a1) r (get_content a1 r) st) in *.
      set (a2 := emit a1 (ECheckResEnd r c st xx)) in *.
      assert (Sa : Same w a2) by (apply Same_struct; reflexivity).
      assert (C2 : Chain a2 (t :: S)) by (destruct C as [N C]; split; [exact N|apply (chain_frame w a2); [exact C|intros; reflexivity]]).
      assert (Q2 : Q gen ord a2) by (apply (Q_same gen ord w); [reflexivity|exact Hq]).
      assert (V2 : VC a2) by (apply (VC_same w a2); [reflexivity|exact Sa|exact V]).
      assert (KP : forall dp0, DepOK w dp0 -> DepOK a2 dp0).
      { intros dp0 D0. apply (depok_keep w a2 dp0 eq_refl); [intros y Y; exact Y|intros; reflexivity|intros; reflexivity|exact D0]. }
      destruct xx as [| |e] eqn:XX; cbv iota beta in Eq.
      * apply (REC a2 ok H J0 C2 Q2 V2 Hnc eq_refl ltac:(intros; reflexivity) eq_refl ltac:(intros X; exact X)); [| |exact Eq].
        -- intros d0 dp0 I0 R0. apply KP. apply (V1 d0 dp0 I0 R0).
        -- cbn [DepOK]. exact XX.
      * inversion Eq; subst ok w'. apply (STOP a2 H J0 C2 Q2 V2 Hnc eq_refl ltac:(intros; reflexivity) eq_refl ltac:(intros X; exact X)).
      * inversion Eq; subst ok w'.
        assert (Sp : Same w (push_err a2 e)) by (apply Same_struct; reflexivity).
        apply (STOP (push_err a2 e) H J0 ltac:(destruct C as [N C]; split; [exact N|apply (chain_frame w _); [exact C|intros; reflexivity]])
                 ltac:(apply (Q_same gen ord w); [reflexivity|exact Hq]) ltac:(apply (VC_same w _); [reflexivity|exact Sp|exact V]) Hnc eq_refl ltac:(intros; reflexivity) eq_refl ltac:(intros X; exact X)).
Qed.

Lemma mark_V w t : VC w -> RowV w t -> VC (mark_consistent w t).
Proof.
  intros V RVt y Y. unfold mark_consistent in Y. cbn [consistent set_consistent] in Y. rewrite memN_cons in Y.
  assert (KP : forall x, RowV w x -> RowV (mark_consistent w t) x).
  { intros x RVx d dp R'. apply (depok_keep w (mark_consistent w t) dp eq_refl); [|intros; reflexivity|intros; reflexivity|apply (RVx d dp R')].
    intros z Z. unfold mark_consistent. cbn [consistent set_consistent]. rewrite memN_cons, Z. apply orb_true_r. }
  destruct (N.eq_dec y t) as [E|Hne]; [subst y; apply KP; exact RVt|]. rewrite (proj2 (N.eqb_neq y t) Hne) in Y. apply KP. apply V. exact Y.
Qed.

Theorem make_consistent_td_V : forall f, VMC f.
Proof.
  induction f as [|f IH]; intros w t S o w' H J0 C E Hq V Hf Eq; [discriminate|]. cbn [make_consistent_td] in Eq.
  pose proof (goc_task_post S w t H) as P0.
  set (w0 := get_or_create_task_node w t) in *.
  assert (Sm0 : Same w w0) by apply Same_goc_task.
  assert (Q0 : Q gen ord w0) by (apply Q_goc_task; exact Hq).
  assert (V0 : VC w0).
  { intros y Y. rewrite (same_cons _ _ Sm0) in Y. destruct (goc_task_row w t y) as [A B]. apply (rows_same_rowv w w0 y Sm0 A B). apply V. exact Y. }
  pose proof (po_ok _ _ _ _ _ _ P0) as H0. pose proof (po_inv _ _ _ _ _ _ P0 J0) as J1.
  pose proof (chain_post_all w w0 S [] [] C P0) as C0.
  assert (E0 : entry_ok w0 S t).
  { destruct S as [|top tl]; [exact Logic.I|]. cbn in *. unfold edge in *. rewrite (po_frame _ _ _ _ _ _ P0) by (left; reflexivity). exact E. }
  pose proof (entry_not_in w0 S t (proj1 H0) C0 E0) as Ht.
  assert (C1 : Chain w0 (t :: S)).
  { destruct C0 as [N0 K0']. split; [constructor; assumption|]. destruct S as [|top tl]; [exact Logic.I|]. split; [exact E0|exact K0']. }
  assert (Lt0 : live (gr w0) (tn t) = true) by apply live_goc_task.
  assert (EM : forall w1 o1 w2, StoreOK w1 -> Inv2 w1 -> Chain w1 (t :: S) -> memN t (consistent w1) = false -> live (gr w1) (tn t) = true ->
               Q gen ord w1 -> VC w1 -> execute_with RC OC P (req f) w1 t = Done o1 w2 -> VC (mark_consistent w2 t)).
  { intros w1 o1 w2 A1 A2 A3 A4 A5 A6 A7 A8.
    destruct (execute_with_V f t S IH ltac:(lia) w1 o1 w2 A1 A2 A3 A4 A5 A6 A7 A8) as [V2 [RV2 _]]. apply mark_V; assumption. }
  destruct (memN t (consistent w0)) eqn:Hm.
  - destruct (get_task_output w0 t); [|discriminate]. inversion Eq; subst. exact V0.
  - destruct (get_task_output w0 t) as [o0|] eqn:Ho.
    + destruct (check_deps RC OC (mc f) (deps_of_task w0 t) w0) as [ok w1|k w1|] eqn:CD; cbn [bind] in Eq; try discriminate.
      rewrite deps_of_task_map in CD.
      assert (Hdo : forall d, In d (kidsT w0 t) -> dep_ok w0 t (row w0 t d)).
      { intros d Hd. apply (deps_ok w0 t o0 H0 J1 Ho). rewrite deps_of_task_map. apply in_map. exact Hd. }
      destruct (check_deps_V f t S IH ltac:(lia) (kidsT w0 t) [] w0 ok w1 eq_refl H0 J1 C1 Q0 V0 Hm ltac:(intros d dp []) Hdo CD)
        as [V1 [Q1 [H1 [J2 [C2 [Hn1 [K1 [R1 [O1 [L1 Vall]]]]]]]]]].
      destruct ok.
      * rewrite O1, Ho in Eq. inversion Eq; subst o w'. apply mark_V; [exact V1|].
        intros d dp R'. apply (Vall eq_refl d dp); [|exact R']. cbn [app]. rewrite <- K1.
        apply (wf_edata _ (proj1 H1)). unfold row in R'. congruence.
      * destruct (execute_with RC OC P (req f) w1 t) as [o1 w2|k w2|] eqn:XQ; cbn [bind] in Eq; try discriminate.
        inversion Eq; subst o w'. apply (EM w1 o1 w2 H1 J2 C2 Hn1 (L1 Lt0) Q1 V1 XQ).
    + destruct (execute_with RC OC P (req f) w0 t) as [o1 w2|k w2|] eqn:XQ; cbn [bind] in Eq; try discriminate.
      inversion Eq; subst o w'. apply (EM w0 o1 w2 H0 J1 C1 Hm Lt0 Q0 V0 XQ).
Qed.

(* ---- sessions: VC holds at the end of every returning session ---- *)
Variable always : ocid.

Lemma session_require_V fuel w t o w' : StoreOK w -> Inv2 w -> Q gen ord w -> VC w -> (ord t < fuel)%nat ->
  session_require RC OC P always fuel w t = Done o w' ->
  VC w' /\ memN t (consistent w') = true /\ get_task_output w' t = Some o /\ cons_mono w w' /\
  (forall y, memN y (consistent w) = true -> get_task_output w' y = get_task_output w y).
Proof.
  intros H J0 Hq V Hf Eq. unfold session_require, require_td, require_with in Eq.
  set (w1 := emit (set_cur w None) EBuildStart) in *.
  set (w2 := get_or_create_task_node (emit w1 (ERequireStart t always)) t) in *.
  assert (P2 : Post [] [] [] w1 w2 ([ERequireStart t always] ++ [])).
  { eapply post_seq; [apply post_emit; [exact H|exact Logic.I]|apply goc_task_post; exact H]. }
  assert (Hc2 : cur w2 = None) by (unfold w2, get_or_create_task_node; destruct (live _ _); reflexivity).
  assert (Q2 : Q gen ord w2) by (apply Q_goc_task; apply (Q_same gen ord w); [reflexivity|exact Hq]).
  assert (Sm2 : Same w w2).
  { eapply Same_trans; [apply (Same_struct w (emit w1 (ERequireStart t always))); reflexivity|apply Same_goc_task]. }
  assert (V2 : VC w2).
  { intros y Y. rewrite (same_cons _ _ Sm2) in Y. destruct (goc_task_row (emit w1 (ERequireStart t always)) t y) as [A B].
    apply (rows_same_rowv w w2 y Sm2 A B). apply V. exact Y. }
  unfold reserve_require_dependency in Eq. rewrite Hc2 in Eq. cbn [bind] in Eq.
  destruct (mc fuel w2 t) as [o4 w4|k w4|] eqn:MA; cbn [bind] in Eq; try discriminate.
  destruct (mc_seg fuel w2 t [] o4 w4 (po_ok _ _ _ _ _ _ P2) (po_inv _ _ _ _ _ _ P2 J0) (chain_nil w2) Logic.I Q2 Hf MA) as [[s4 P4] [C4 [O4 [_ [_ E4]]]]].
  pose proof (make_consistent_td_V fuel w2 t [] o4 w4 (po_ok _ _ _ _ _ _ P2) (po_inv _ _ _ _ _ _ P2 J0) (chain_nil w2) Logic.I Q2 V2 Hf MA) as V4.
  pose proof (make_consistent_td_spec RC OC P fuel w2 t [] (po_ok _ _ _ _ _ _ P2) (po_inv _ _ _ _ _ _ P2 J0) (chain_nil w2) Logic.I) as M. rewrite MA in M. destruct M as [_ [Hc4 _]].
  unfold update_require_dependency in Eq.
  change (cur (emit w4 (ERequireEnd t always (oc_stamp (OC always) o4) o4))) with (cur w4) in Eq. rewrite Hc4, Hc2 in Eq. cbn [bind] in Eq.
  inversion Eq; subst o w'.
  split; [apply (VC_same w4); [reflexivity|apply Same_struct; reflexivity|exact V4]|]. split; [exact C4|]. split; [exact O4|]. split.
  - intros y Y. change (memN y (consistent w4) = true). apply (po_mono _ _ _ _ _ _ P4). rewrite (same_cons _ _ Sm2). exact Y.
  - intros y Y. change (get_task_output w4 y = get_task_output w y).
    destruct (po_others _ _ _ _ _ _ P4 y) as [_ [_ O]]; [|intros []|].
    + intros Z. destruct (po_fresh _ _ _ _ _ _ P4 y Z) as [_ [_ Z']]. rewrite (same_cons _ _ Sm2) in Z'. congruence.
    + rewrite O. unfold get_task_output. rewrite (same_outs _ _ Sm2). reflexivity.
Qed.

(* the roots of a session and the outputs it returned *)
Fixpoint roots (ops : list sop) : list task := match ops with [] => [] | SRequire t :: tl => t :: roots tl | SBottomUp _ :: tl => roots tl end.

Theorem session_V fuel ops : forall w, roots_below ord fuel ops -> J w -> Q gen ord w -> VC w ->
  let r := run_session RC OC P always fuel w ops in
  VC (snd r) /\ J (snd r) /\ Q gen ord (snd r) /\ cons_mono w (snd r) /\
  (forall y, memN y (consistent w) = true -> get_task_output (snd r) y = get_task_output w y) /\
  exists outs_, fst r = map (fun o => RDone (Some o)) outs_ /\ length outs_ = length (roots ops) /\
    forall i t o, nth_error (roots ops) i = Some t -> nth_error outs_ i = Some o ->
      memN t (consistent (snd r)) = true /\ get_task_output (snd r) t = Some o.
Proof.
  induction ops as [|op tl IH]; intros w RB Jw Hq V; cbn [run_session roots].
  - cbn. split; [exact V|]. split; [exact Jw|]. split; [exact Hq|]. split; [intros y Y; exact Y|]. split; [intros; reflexivity|].
    exists []. split; [reflexivity|]. split; [reflexivity|]. intros i t o X. destruct i; discriminate.
  - destruct op as [t|ch]; [|destruct RB]. destruct RB as [Hf RB]. cbn [run_sop roots].
    pose proof (session_require_Q gen wck ord RC OC P sf HS HWF HWO always fuel w t (proj1 Jw) (proj2 Jw) Hq Hf) as SQ.
    pose proof (session_require_execs RC OC P always fuel w t Jw) as SE.
    destruct (session_require RC OC P always fuel w t) as [x w1|k w1|] eqn:SR; cbn [ret] in SQ; try contradiction.
    destruct SE as [J1 _].
    destruct (session_require_V fuel w t x w1 (proj1 Jw) (proj2 Jw) Hq V Hf SR) as [V1 [C1 [O1 [M1 St1]]]].
    specialize (IH w1 RB J1 SQ V1). cbv zeta in IH.
    destruct (run_session RC OC P always fuel w1 tl) as [rs w2]. cbn [fst snd] in *.
    destruct IH as [A1 [A2 [A3 [A4 [A5 [outs_ [A6 [A7 A8]]]]]]]].
    split; [exact A1|]. split; [exact A2|]. split; [exact A3|]. split; [intros y Y; apply A4, M1; exact Y|].
    split; [intros y Y; rewrite (A5 y (M1 y Y)); apply St1; exact Y|].
    exists (x :: outs_). split; [cbn; rewrite A6; reflexivity|]. split; [cbn; rewrite A7; reflexivity|].
    intros i t' o X Y. destruct i as [|i]; cbn in X, Y.
    + inversion X; inversion Y; subst. split; [apply A4; exact C1|]. rewrite (A5 t' C1). exact O1.
    + apply (A8 i t' o X Y).
Qed.
End V.

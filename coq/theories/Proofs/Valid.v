(* C02, idempotence: requiring again with nothing changed executes nothing.
   VC: during a session every task marked consistent has only recorded dependencies that its own checkers accept in the CURRENT
   state (resource contents, outputs of required tasks), and the tasks it requires are consistent as well.  VC is a session
   invariant inside the static class (NoAbort.v), given reflexive checkers (a checker accepts the value it just stamped).
   Hence after a session all tasks it made consistent validate again without any execution in the next session. *)
From Coq Require Import List NArith ZArith Bool Lia.
From PieV Require Import Model.Dag Model.Build Proofs.DagLib Proofs.DagWF Proofs.DagPath Proofs.Inv Proofs.StoreInv Proofs.History
  Proofs.Effects Proofs.Local Proofs.Local2 Proofs.ExecInv Proofs.ExecSession Proofs.Cert Proofs.Stable Proofs.NoBug4 Proofs.Sim Proofs.NoAbort.
Import ListNotations.
Open Scope N_scope.

Section V.
Variable gen : res -> option task.
Variable wck : rcid -> Prop.
Variable ord : task -> nat.
Variable RC : rcid -> rchecker.
Variable OC : ocid -> ochecker.
Variable P : task -> prog.
Variable sf : rcid -> res -> content -> Z.
Hypothesis HS : forall c env r v, rc_stamp (RC c) env r v = inl (sf c r v).
Hypothesis HWF : forall t, WFP gen wck t [] (P t).
Hypothesis HWO : forall t, WFO ord t (P t).
(* a checker accepts the value it has just stamped *)
Hypothesis HRefl : forall c env r v, rc_check (RC c) env r v (sf c r v) = Consistent.
Hypothesis HReflO : forall c o, oc_check (OC c) o (oc_stamp (OC c) o) = true.

(* the checker environment is never changed by a build *)
Lemma env_goc_res w r : env (get_or_create_resource_node w r) = env w.
Proof. unfold get_or_create_resource_node. destruct (live _ _); reflexivity. Qed.
Lemma env_goc_task w r : env (get_or_create_task_node w r) = env w.
Proof. unfold get_or_create_task_node. destruct (live _ _); reflexivity. Qed.
Ltac env_leaf :=
  repeat match goal with
         | |- context [match ?x with _ => _ end] =>
             lazymatch x with
             | context [match _ with _ => _ end] => fail
             | _ => destruct x
             end
         end; cbn; rewrite ?env_goc_res, ?env_goc_task; cbn; first [assumption | right; assumption | left; reflexivity | exact Logic.I | idtac].
Lemma env_preserved e : Preserved RC (fun w => env w = e).
Proof.
  constructor; intros; unfold okO, get_or_create_task_node, get_or_create_resource_node, reserve_require_dependency,
    update_require_dependency, sess_read, sess_write, sess_written_to, add_dependency, set_content, mark_consistent in *; env_leaf.
Qed.

Lemma mc_env f w t o w' : make_consistent_td RC OC P f w t = Done o w' -> env w' = env w.
Proof.
  intros Eq. assert (X : okO (fun w0 => env w0 = env w) (make_consistent_td RC OC P f w t)).
  { eapply make_consistent_td_ok; [apply env_preserved|reflexivity]. }
  rewrite Eq in X. exact X.
Qed.
Lemma req_env f w x c o w' : require_with OC (make_consistent_td RC OC P f) w x c = Done o w' -> env w' = env w.
Proof.
  intros Eq. assert (X : okO (fun w0 => env w0 = env w) (require_with OC (make_consistent_td RC OC P f) w x c)).
  { eapply require_with_ok; [apply env_preserved| |reflexivity]. intros w0 t0 H0. eapply make_consistent_td_ok; [apply env_preserved|exact H0]. }
  rewrite Eq in X. exact X.
Qed.
Lemma chk_env f ds w ok w' : check_deps RC OC (make_consistent_td RC OC P f) ds w = Done ok w' -> env w' = env w.
Proof.
  intros Eq. assert (X : okO (fun w0 => env w0 = env w) (check_deps RC OC (make_consistent_td RC OC P f) ds w)).
  { eapply check_deps_ok; [apply env_preserved| |reflexivity]. intros w0 t0 H0. eapply make_consistent_td_ok; [apply env_preserved|exact H0]. }
  rewrite Eq in X. exact X.
Qed.

(* ---- validity of recorded dependencies in the current state ---- *)
Definition DepOK (w : world) (dp : dep) : Prop :=
  match dp with
  | DReserved => False
  | DRequire y c st => memN y (consistent w) = true /\ exists oy, get_task_output w y = Some oy /\ oc_check (OC c) oy st = true
  | DRead r c st | DWrite r c st => rc_check (RC c) (env w) r (get_content w r) st = Consistent
  end.
Definition RowV (w : world) (x : task) : Prop := forall d dp, row w x d = Some dp -> DepOK w dp.
Definition VC (w : world) : Prop := forall x, memN x (consistent w) = true -> RowV w x.

Definition dep_res (dp : dep) : option res := match dp with DRead r _ _ | DWrite r _ _ => Some r | _ => None end.

(* a valid entry stays valid when the environment, the consistent tasks' outputs and its own resource are unchanged *)
Lemma depok_keep w w' dp : env w' = env w -> cons_mono w w' ->
  (forall y, memN y (consistent w) = true -> get_task_output w' y = get_task_output w y) ->
  (forall r, dep_res dp = Some r -> get_content w' r = get_content w r) -> DepOK w dp -> DepOK w' dp.
Proof.
  intros E M O C. destruct dp as [|y c st|r c st|r c st]; cbn [DepOK dep_res] in *.
  - tauto.
  - intros [Y [oy [A B]]]. split; [apply M; exact Y|]. exists oy. split; [rewrite O by exact Y; exact A|exact B].
  - rewrite E, (C r eq_refl). tauto.
  - rewrite E, (C r eq_refl). tauto.
Qed.

(* the resources a valid, class-conforming row depends on are stable (Stable.v) *)
Lemma row_stab S w x r dp : StoreOK w -> QR gen ord w x -> RowV w x -> (memN x (consistent w) = true \/ In x S) ->
  row w x (rn r) = Some dp -> StabC gen S w r.
Proof.
  intros [W [T _]] [_ [Q2 Q3]] RV Hx R.
  destruct (T _ _ _ R) as [_ TG]. destruct dp as [|y c st|r' c st|r' c st]; cbn in TG.
  - rewrite rn_odd in TG. discriminate.
  - exfalso. exact (tn_rn _ _ (eq_sym TG)).
  - destruct (Q3 r _ R eq_refl) as [E|[g [E B]]]; [left; exact E|right; exists g; split; [exact E|left]].
    pose proof (before_in _ _ _ B) as I. apply (wf_edata _ W) in I. unfold kidsT in I.
    destruct (get_edata (gr w) (tn x) (tn g)) as [dp'|] eqn:G; [|contradiction].
    pose proof (RV (tn g) dp' G) as D. destruct (T _ _ _ G) as [_ TG'].
    destruct dp' as [|y c' st'|r2 c' st'|r2 c' st']; cbn in D, TG'; try contradiction.
    + apply tn_inj in TG'. subst y. exact (proj1 D).
    + exfalso. exact (tn_rn _ _ TG').
    + exfalso. exact (tn_rn _ _ TG').
  - right. exists x. split; [exact (Q2 r _ R eq_refl)|exact Hx].
Qed.

Notation mc := (make_consistent_td RC OC P).
Let HNR : forall t, NR [] (P t). Proof. intros t. eapply WFP_NR. apply HWF. Qed.

(* facts about a returning make_task_consistent inside the class *)
Lemma mc_seg f w t S o w' : StoreOK w -> Inv2 w -> Chain w S -> entry_ok w S t -> Q gen ord w -> (ord t < f)%nat -> mc f w t = Done o w' ->
  (exists seg, Post S [] [] w w' seg) /\ memN t (consistent w') = true /\ get_task_output w' t = Some o /\
  CF gen S w w' /\ Q gen ord w' /\ env w' = env w.
Proof.
  intros H J0 C E Hq Hf Eq.
  pose proof (make_consistent_td_spec RC OC P f w t S H J0 C E) as A.
  pose proof (make_consistent_td_CF gen wck RC OC P sf HS HWF f w t S H J0 C E) as B.
  pose proof (make_consistent_td_Q gen wck ord RC OC P sf HS HWF HWO f w t S H J0 C E Hq Hf) as D.
  rewrite Eq in *. cbn in A, B, D. destruct A as [A1 [_ [A3 A4]]].
  split; [exact A1|]. split; [exact A3|]. split; [exact A4|]. split; [exact B|]. split; [exact D|apply (mc_env f w t o w' Eq)].
Qed.

(* a valid row stays valid across a computation that runs below it or beside it *)
Lemma seg_keep S w w' seg x : Post S [] [] w w' seg -> CF gen S w w' -> env w' = env w ->
  StoreOK w -> QR gen ord w x -> RowV w x -> (memN x (consistent w) = true \/ In x S) -> RowV w' x.
Proof.
  intros P1 CFw E H Qx RV Hx d dp R'.
  assert (Rows : forall d0, row w' x d0 = row w x d0).
  { intros d0. destruct Hx as [Hx|Hx].
    - destruct (po_others _ _ _ _ _ _ P1 x) as [_ [Y _]]; [|intros []|apply Y].
      intros Z. destruct (po_fresh _ _ _ _ _ _ P1 x Z) as [_ [_ Z']]. congruence.
    - apply (po_eframe _ _ _ _ _ _ P1). exact Hx. }
  rewrite Rows in R'. apply (depok_keep w w' dp E (po_mono _ _ _ _ _ _ P1)); [| |apply (RV d dp R')].
  - intros y Y. destruct (po_others _ _ _ _ _ _ P1 y) as [_ [_ O]]; [|intros []|exact O].
    intros Z. destruct (po_fresh _ _ _ _ _ _ P1 y Z) as [_ [_ Z']]. congruence.
  - intros r Er. apply (proj1 CFw). destruct H as [W [T Sw]]. destruct (T _ _ _ R') as [_ TG].
    assert (Ed : d = rn r).
    { destruct dp as [|y c st|r' c st|r' c st]; cbn in Er, TG; inversion Er; congruence. }
    subst d.
    apply (row_stab S w x r dp (conj W (conj T Sw)) Qx RV Hx R').
Qed.

(* rows of tasks other than the executing one across leaf steps of the executing task *)
Lemma leaf_rowv t w w' x : Leaf t w w' -> Same w w' -> x <> t -> RowV w x -> RowV w' x.
Proof.
  intros L Sm Hne RV d dp R'. unfold row in R'. rewrite (lf_eother _ _ _ L) in R' by (intros E; apply tn_inj in E; contradiction).
  apply (depok_keep w w' dp (same_env _ _ Sm)); [intros y Y; rewrite (same_cons _ _ Sm); exact Y| | |apply (RV d dp R')].
  - intros y _. unfold get_task_output. rewrite (same_outs _ _ Sm). reflexivity.
  - intros r _. apply (same_content _ _ Sm).
Qed.
Lemma same_rowv w w' x : gr w' = gr w -> Same w w' -> RowV w x -> RowV w' x.
Proof.
  intros G Sm RV d dp R'. unfold row in R'. rewrite G in R'.
  apply (depok_keep w w' dp (same_env _ _ Sm)); [intros y Y; rewrite (same_cons _ _ Sm); exact Y| | |apply (RV d dp R')].
  - intros y _. unfold get_task_output. rewrite (same_outs _ _ Sm). reflexivity.
  - intros r _. apply (same_content _ _ Sm).
Qed.
Lemma VC_same w w' : gr w' = gr w -> Same w w' -> VC w -> VC w'.
Proof. intros G Sm V x X. rewrite (same_cons _ _ Sm) in X. apply (same_rowv w w' x G Sm). apply V. exact X. Qed.

Definition VMC (f : nat) : Prop :=
  forall w t S o w', StoreOK w -> Inv2 w -> Chain w S -> entry_ok w S t -> Q gen ord w -> VC w -> (ord t < f)%nat ->
    mc f w t = Done o w' -> VC w'.
End V.

(* C10 - The DAG stays acyclic with a gap-free topological order.  Property theorems only. *)
From Coq Require Import List NArith Bool.
From PieV Require Import Model.Dag Proofs.DagBasics.
Open Scope N_scope.

(* partial: rejection of self loops and of missing nodes leaves the graph exactly as it was
   (the cycle-through-a-path case and the rank invariant are in progress, see DESIGN.md section 6) *)
Theorem C10_reject_early_noop_partial :
  forall (E : Type) (g : dag E) (s d : node) (e : E),
    (live g s = false \/ live g d = false -> add_edge g s d e = (AErr NodeMissing, g)) /\
    (live g s = true -> add_edge g s s e = (AErr CycleDetected, g)).
Proof. intros; split; [apply add_edge_missing_noop | apply add_edge_selfloop_noop]. Qed.
Check C10_reject_early_noop_partial :
  forall (E : Type) (g : dag E) (s d : node) (e : E),
    (live g s = false \/ live g d = false -> add_edge g s d e = (AErr NodeMissing, g)) /\
    (live g s = true -> add_edge g s s e = (AErr CycleDetected, g)).
Print Assumptions C10_reject_early_noop_partial.

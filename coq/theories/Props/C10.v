(* C10 - The DAG stays acyclic with a gap-free topological order.  Property theorems only. *)
From Coq Require Import List NArith Bool Permutation.
From PieV Require Import Model.Dag Proofs.DagLib Proofs.DagWF Proofs.DagPath Proofs.DagAddEdge Proofs.DagRun Proofs.DagFuel Proofs.DagNoFuel.
Import ListNotations.
Open Scope N_scope.

(* WF: duplicate-free ids and adjacency, symmetric adjacency, edges only between live nodes, edge data exactly on edges,
   ranks injective on live nodes and within 1..n with n = number of nodes, rank(source) < rank(destination) for every edge. *)

(* the invariant holds after EVERY finite sequence of add_node, add_edge, remove_edge, remove_outgoing_edges_of_node and
   remove_node -- including operations on removed nodes -- in which no add_edge ran out of the (modelled) search fuel *)
Theorem C10_invariant : forall (E : Type) (ops : list (gop E)), run_ok empty ops -> WF (grun ops).
Proof. exact @grun_WF. Qed.
Check C10_invariant : forall (E : Type) (ops : list (gop E)), run_ok empty ops -> WF (grun ops).
Print Assumptions C10_invariant.

(* the ranks form a bijection onto 1..n *)
Theorem C10_ranks_bijection : forall (E : Type) (g : dag E), WF g ->
  Permutation (map (rank_of g) (ids g)) (map N.of_nat (seq 1 (length (infos g)))).
Proof. exact @WF_ranks_permutation. Qed.
Print Assumptions C10_ranks_bijection.

(* every edge increases the rank; hence the graph is acyclic *)
Theorem C10_edges_increase_rank : forall (E : Type) (g : dag E), WF g -> forall u v, In v (kids_of g u) -> rank_of g u < rank_of g v.
Proof. intros E g W. exact (wf_topo g W). Qed.
Print Assumptions C10_edges_increase_rank.
Theorem C10_acyclic : forall (E : Type) (g : dag E) u, WF g -> ~ path g u u.
Proof. exact @WF_acyclic. Qed.
Print Assumptions C10_acyclic.

(* add_edge is rejected as a cycle exactly when both nodes are the same or the destination already reaches the source *)
Theorem C10_cycle_iff : forall (E : Type) (g : dag E) s d e,
  WF g -> live g s = true -> live g d = true -> fst (add_edge g s d e) <> AFuel ->
  (fst (add_edge g s d e) = AErr CycleDetected <-> s = d \/ path g d s).
Proof. exact @add_edge_cycle_iff. Qed.
Check C10_cycle_iff : forall (E : Type) (g : dag E) s d e,
  WF g -> live g s = true -> live g d = true -> fst (add_edge g s d e) <> AFuel ->
  (fst (add_edge g s d e) = AErr CycleDetected <-> s = d \/ path g d s).
Print Assumptions C10_cycle_iff.

(* a rejected insertion leaves the graph EXACTLY as it was (structural equality of the whole state) *)
Theorem C10_reject_noop : forall (E : Type) (g : dag E) s d e err,
  WF g -> fst (add_edge g s d e) = AErr err -> snd (add_edge g s d e) = g.
Proof. exact @add_edge_reject_noop. Qed.
Print Assumptions C10_reject_noop.

(* one step: add_edge preserves the invariant whenever it answers *)
Theorem C10_add_edge_preserves : forall (E : Type) (g : dag E) s d e,
  WF g -> fst (add_edge g s d e) <> AFuel -> WF (snd (add_edge g s d e)).
Proof. exact @add_edge_WF. Qed.
Print Assumptions C10_add_edge_preserves.

(* non-vacuity: a run with a reorder, a rejected cycle, removals and an operation on a removed node satisfies run_ok *)
Example C10_run_ok_witness :
  run_ok (@empty N) [GAddNode; GAddNode; GAddNode; GAddNode; GAddEdge 3 2 1; GAddEdge 2 1 2; GAddEdge 1 3 3; GRemoveNode 2;
                     GAddEdge 3 2 9; GAddEdge 1 0 4; GAddEdge 3 1 5; GRemoveOut 3; GRemoveEdge 1 0].
Proof. vm_compute. repeat split; discriminate. Qed.
Print Assumptions C10_run_ok_witness.


(* ---- the fuel premise is always true (Proofs/DagFuel.v, DagNoFuel.v): the model's bounded searches never run out ---- *)
(* both depth-first searches of add_edge terminate within the model's fuel on every well-formed graph (potential argument
   over the LIFO stack: a node may be pushed several times, but when a second copy is popped everything its first copy pushed
   has been popped) *)
Theorem C10_search_fuel_suffices : forall (E : Type) (g : dag E) s d e, WF g -> fst (add_edge g s d e) <> AFuel.
Proof. exact @add_edge_no_fuel. Qed.
Check C10_search_fuel_suffices : forall (E : Type) (g : dag E) s d e, WF g -> fst (add_edge g s d e) <> AFuel.
Print Assumptions C10_search_fuel_suffices.

(* hence the invariant after EVERY operation sequence, with no premise at all *)
Theorem C10_invariant_all_sequences : forall (E : Type) (ops : list (gop E)), WF (grun ops).
Proof. intros E ops. apply grun_WF. apply run_ok_always; [apply WF_empty|intros n []]. Qed.
Check C10_invariant_all_sequences : forall (E : Type) (ops : list (gop E)), WF (grun ops).
Print Assumptions C10_invariant_all_sequences.

(* and: an insertion is rejected as a cycle exactly when the destination already reaches the source *)
Theorem C10_cycle_iff_all : forall (E : Type) (g : dag E) s d e,
  WF g -> live g s = true -> live g d = true ->
  (fst (add_edge g s d e) = AErr CycleDetected <-> s = d \/ path g d s).
Proof. intros E g s d e W Ls Ld. apply add_edge_cycle_iff; try assumption. apply add_edge_no_fuel. exact W. Qed.
Check C10_cycle_iff_all : forall (E : Type) (g : dag E) s d e,
  WF g -> live g s = true -> live g d = true ->
  (fst (add_edge g s d e) = AErr CycleDetected <-> s = d \/ path g d s).
Print Assumptions C10_cycle_iff_all.

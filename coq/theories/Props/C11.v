(* C11 - DAG queries and iteration order agree with the true edge set.  Property theorems only. *)
From Coq Require Import List NArith Bool.
From PieV Require Import Model.Dag Proofs.DagBasics.
Import ListNotations.
Open Scope N_scope.

(* Regression witness of the defect repaired by "fix: DAG::add_edge keeps the insertion position of an existing edge":
   re-adding an existing edge keeps first-insertion order and the data given at first insertion. *)
Example C11_readd_keeps_first_insertion_witness :
  get_outgoing_edges (grun [GAddNode; GAddNode; GAddNode; GAddEdge 0 1 10; GAddEdge 0 2 20; GAddEdge 0 1 30]) 0
  = [(1, Some 10); (2, Some 20)].
Proof. vm_compute. reflexivity. Qed.
Print Assumptions C11_readd_keeps_first_insertion_witness.

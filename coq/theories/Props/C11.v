(* C11 - DAG queries and iteration order agree with the true edge set.  Property theorems only.
   The true edge set of a well-formed graph is its kids lists; by C11_first_insertion it is, after any operation sequence,
   the log of accepted and not yet removed insertions in insertion order. *)
From Coq Require Import List NArith Bool Sorted.
From PieV Require Import Model.Dag Proofs.DagLib Proofs.DagWF Proofs.DagPath Proofs.DagRun Proofs.DagViews Proofs.DagQueries Proofs.DagLog Proofs.DagFuel Proofs.DagNoFuel Proofs.DescNoFuel.
Import ListNotations.
Open Scope N_scope.

Theorem C11_contains_edge : forall (E : Type) (g : dag E) u v, WF g -> (contains_edge g u v = true <-> In v (kids_of g u)).
Proof. exact @contains_edge_spec. Qed.
Print Assumptions C11_contains_edge.

Theorem C11_transitive : forall (E : Type) (g : dag E) u v b,
  WF g -> contains_transitive_edge g u v = Some b -> (b = true <-> path g u v).
Proof. exact @contains_transitive_edge_spec. Qed.
Print Assumptions C11_transitive.

Theorem C11_adjacency : forall (E : Type) (g : dag E), WF g ->
  (forall u, map fst (get_outgoing_edges g u) = kids_of g u /\ forall v e, In (v, e) (get_outgoing_edges g u) -> e = get_edata g u v /\ e <> None) /\
  (forall v, map fst (get_incoming_edges g v) = pars_of g v /\ forall u e, In (u, e) (get_incoming_edges g v) -> e = get_edata g u v /\ e <> None) /\
  (forall u v, In v (map fst (get_outgoing_edges g u)) <-> In u (map fst (get_incoming_edges g v))).
Proof.
  intros E g W. split; [intros u; apply outgoing_spec; exact W|]. split; [intros v; apply incoming_spec; exact W|].
  intros u v. apply adjacency_symmetric. exact W.
Qed.
Print Assumptions C11_adjacency.

(* iteration order = order of first insertion (since the last removal), data = the data given at that insertion,
   for every operation sequence, including re-insertion of an existing edge *)
Theorem C11_first_insertion : forall (E : Type) (ops : list (gop E)), run_ok empty ops ->
  let g := grun ops in let log := run_log empty [] ops in
  (forall u, kids_of g u = lkids log u) /\ (forall v, pars_of g v = lpars log v) /\ (forall u v, get_edata g u v = ldata log u v).
Proof. exact @grun_first_insertion_order. Qed.
Check C11_first_insertion : forall (E : Type) (ops : list (gop E)), run_ok empty ops ->
  let g := grun ops in let log := run_log empty [] ops in
  (forall u, kids_of g u = lkids log u) /\ (forall v, pars_of g v = lpars log v) /\ (forall u v, get_edata g u v = ldata log u v).
Print Assumptions C11_first_insertion.

Theorem C11_descendants_unsorted : forall (E : Type) (g : dag E) n l,
  WF g -> descendants_unsorted g n = AOk l ->
  NoDup (map snd l) /\ (forall x, In x (map snd l) <-> path g n x) /\ (forall r x, In (r, x) l -> r = rank_of g x).
Proof. exact @descendants_unsorted_spec. Qed.
Print Assumptions C11_descendants_unsorted.

Theorem C11_descendants_sorted : forall (E : Type) (g : dag E) n l,
  WF g -> descendants g n = AOk l ->
  NoDup l /\ (forall x, In x l <-> path g n x) /\ StronglySorted (fun a b => rank_of g a < rank_of g b) l.
Proof. exact @descendants_spec. Qed.
Print Assumptions C11_descendants_sorted.

(* without a fuel premise: on a well-formed graph the two descendants queries always answer (the model's out-of-fuel
   outcome is unreachable, DescNoFuel.v), and the answer is the set of proper descendants, each once *)
Theorem C11_descendants_unsorted_always_answers : forall (E : Type) (g : dag E) n, WF g -> live g n = true ->
  exists l, descendants_unsorted g n = AOk l /\
    NoDup (map snd l) /\ (forall x, In x (map snd l) <-> path g n x) /\ (forall r x, In (r, x) l -> r = rank_of g x).
Proof. exact @descendants_unsorted_total. Qed.
Check C11_descendants_unsorted_always_answers : forall (E : Type) (g : dag E) n, WF g -> live g n = true ->
  exists l, descendants_unsorted g n = AOk l /\
    NoDup (map snd l) /\ (forall x, In x (map snd l) <-> path g n x) /\ (forall r x, In (r, x) l -> r = rank_of g x).
Print Assumptions C11_descendants_unsorted_always_answers.

Theorem C11_descendants_sorted_always_answers : forall (E : Type) (g : dag E) n, WF g -> live g n = true ->
  exists l, descendants g n = AOk l /\
    NoDup l /\ (forall x, In x l <-> path g n x) /\ StronglySorted (fun a b => rank_of g a < rank_of g b) l.
Proof. exact @descendants_total. Qed.
Check C11_descendants_sorted_always_answers : forall (E : Type) (g : dag E) n, WF g -> live g n = true ->
  exists l, descendants g n = AOk l /\
    NoDup l /\ (forall x, In x l <-> path g n x) /\ StronglySorted (fun a b => rank_of g a < rank_of g b) l.
Print Assumptions C11_descendants_sorted_always_answers.

Theorem C11_topo_cmp : forall (E : Type) (g : dag E) a b,
  live g a = true -> live g b = true -> topo_cmp g a b = Some (N.compare (rank_of g a) (rank_of g b)).
Proof. exact @topo_cmp_spec. Qed.
Print Assumptions C11_topo_cmp.

(* removals remove exactly the named edges and their data, and nothing else *)
Theorem C11_remove_edge_exact : forall (E : Type) (g : dag E) s d, WF g ->
  let g' := snd (remove_edge g s d) in
  match fst (remove_edge g s d) with
  | None => g' = g /\ (live g s = false \/ live g d = false \/ ~ In d (kids_of g s))
  | Some e =>
      get_edata g s d = Some e /\ In d (kids_of g s) /\
      (forall m, live g' m = live g m) /\ (forall m, rank_of g' m = rank_of g m) /\
      (forall m, kids_of g' m = if N.eqb m s then removeN d (kids_of g m) else kids_of g m) /\
      (forall m, pars_of g' m = if N.eqb m d then removeN s (pars_of g m) else pars_of g m) /\
      (forall u v, get_edata g' u v = if pair_eqb (s, d) (u, v) then None else get_edata g u v)
  end.
Proof. exact @remove_edge_view. Qed.
Print Assumptions C11_remove_edge_exact.

Theorem C11_remove_outgoing_exact : forall (E : Type) (g : dag E) s, WF g -> live g s = true ->
  let g' := snd (remove_outgoing g s) in
  map fst (infos g') = map fst (infos g) /\ last g' = last g /\
  (forall m, live g' m = live g m) /\ (forall m, rank_of g' m = rank_of g m) /\
  (forall m, kids_of g' m = if N.eqb m s then [] else kids_of g m) /\
  (forall m, pars_of g' m = removeN s (pars_of g m)) /\
  (forall u v, get_edata g' u v = if N.eqb u s then None else get_edata g u v).
Proof. exact @remove_outgoing_view. Qed.
Print Assumptions C11_remove_outgoing_exact.

Theorem C11_remove_node_exact : forall (E : Type) (g : dag E) n, WF g -> live g n = true ->
  let g' := snd (remove_node g n) in
  fst (remove_node g n) = true /\
  (forall m, live g' m = if N.eqb m n then false else live g m) /\
  (forall m, kids_of g' m = if N.eqb m n then [] else removeN n (kids_of g m)) /\
  (forall m, pars_of g' m = if N.eqb m n then [] else removeN n (pars_of g m)) /\
  (forall m, m <> n -> rank_of g' m = if N.ltb (rank_of g n) (rank_of g m) then rank_of g m - 1 else rank_of g m) /\
  (forall u v, get_edata g' u v = if N.eqb u n || N.eqb v n then None else get_edata g u v).
Proof. exact @remove_node_view. Qed.
Print Assumptions C11_remove_node_exact.

(* regression witness of the defect repaired by "fix: DAG::add_edge keeps the insertion position of an existing edge" *)
Example C11_readd_keeps_first_insertion_witness :
  get_outgoing_edges (grun [GAddNode; GAddNode; GAddNode; GAddEdge 0 1 10; GAddEdge 0 2 20; GAddEdge 0 1 30]) 0
  = [(1, Some 10); (2, Some 20)].
Proof. vm_compute. reflexivity. Qed.
Print Assumptions C11_readd_keeps_first_insertion_witness.


(* ---- without the fuel premise (Proofs/DagNoFuel.v) ---- *)
Theorem C11_transitive_always_answers : forall (E : Type) (g : dag E) u v,
  WF g -> exists b, contains_transitive_edge g u v = Some b /\ (b = true <-> path g u v).
Proof.
  intros E g u v W. destruct (contains_transitive_edge g u v) as [b|] eqn:X.
  - exists b. split; [reflexivity|]. apply (contains_transitive_edge_spec g u v b W X).
  - exfalso. exact (contains_transitive_edge_answers g u v W X).
Qed.
Check C11_transitive_always_answers : forall (E : Type) (g : dag E) u v,
  WF g -> exists b, contains_transitive_edge g u v = Some b /\ (b = true <-> path g u v).
Print Assumptions C11_transitive_always_answers.

Theorem C11_first_insertion_all_sequences : forall (E : Type) (ops : list (gop E)),
  let g := grun ops in let log := run_log empty [] ops in
  (forall u, kids_of g u = lkids log u) /\ (forall v, pars_of g v = lpars log v) /\ (forall u v, get_edata g u v = ldata log u v).
Proof. intros E ops. apply grun_first_insertion_order. apply run_ok_always; [apply WF_empty|intros n []]. Qed.
Check C11_first_insertion_all_sequences : forall (E : Type) (ops : list (gop E)),
  let g := grun ops in let log := run_log empty [] ops in
  (forall u, kids_of g u = lkids log u) /\ (forall v, pars_of g v = lpars log v) /\ (forall u v, get_edata g u v = ldata log u v).
Print Assumptions C11_first_insertion_all_sequences.

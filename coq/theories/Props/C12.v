(* C12 - Built-in output checkers decide exactly their documented relation.  Property theorems only. *)
From Coq Require Import List NArith Bool.
From PieV Require Import Model.Checkers Proofs.CheckersP.

Section C12.
Variables T E : Type.
Variable eqT : T -> T -> bool.
Variable eqE : E -> E -> bool.
Hypothesis eqT_spec : forall a b, eqT a b = true <-> a = b.
Hypothesis eqE_spec : forall a b, eqE a b = true <-> a = b.

(* for all payload types with decidable equality and all pairs of outputs: consistent (no inconsistency reported) exactly when
   the documented relation holds *)
Theorem C12_decides : forall o1 o2 : result T E,
  (equals_check T E eqT eqE o1 (equals_stamp T E o2) = false <-> o1 = o2) /\
  (ok_equals_check T E eqT o1 (ok_equals_stamp T E o2) = false <->
     match o1, o2 with Ok a, Ok b => a = b | Err _, Err _ => True | _, _ => False end) /\
  (err_equals_check T E eqE o1 (err_equals_stamp T E o2) = false <->
     match o1, o2 with Err a, Err b => a = b | Ok _, Ok _ => True | _, _ => False end) /\
  (result_check T E o1 (result_stamp T E o2) = false <->
     match o1, o2 with Ok _, Ok _ => True | Err _, Err _ => True | _, _ => False end) /\
  (always_check T E o1 (always_stamp T E o2) = false <-> True).
Proof.
  intros o1 o2. repeat split;
  first [ apply (equals_decides T E eqT eqE eqT_spec eqE_spec) | apply (proj2 (equals_decides T E eqT eqE eqT_spec eqE_spec o1 o2))
        | apply (ok_equals_decides T E eqT eqT_spec) | apply (proj2 (ok_equals_decides T E eqT eqT_spec o1 o2))
        | apply (err_equals_decides T E eqE eqE_spec) | apply (proj2 (err_equals_decides T E eqE eqE_spec o1 o2))
        | apply (result_decides T E) | apply (proj2 (result_decides T E o1 o2)) | tauto ].
Qed.

Theorem C12_reflexive : forall c (o : result T E), inconsistent T E eqT eqE c o o = false.
Proof. exact (reflexive T E eqT eqE eqT_spec eqE_spec). Qed.
End C12.
Check C12_decides.
Check C12_reflexive : forall (T E : Type) (eqT : T -> T -> bool) (eqE : E -> E -> bool),
  (forall a b, eqT a b = true <-> a = b) -> (forall a b, eqE a b = true <-> a = b) ->
  forall c (o : result T E), inconsistent T E eqT eqE c o o = false.
Print Assumptions C12_decides.
Print Assumptions C12_reflexive.

(* C13 - File checkers detect exactly what they document; stamp routes agree.  Property theorems only.
   The operating system is modelled (FileRes.v); SHA-256 collision freeness is the explicit premise sha_inj. *)
From Coq Require Import List NArith Bool.
From PieV Require Import Model.FileRes Proofs.FileResP.
Import ListNotations.
Open Scope N_scope.

Theorem C13_routes_agree_reader : forall (H : Type) (sha : bytes -> H) s,
  ex_stamp s = ex_stamp_reader (open_read s) /\ mo_stamp s = mo_stamp_reader (open_read s) /\
  ha_stamp H sha s = fst (ha_stamp_reader H sha s (open_read s)).
Proof. exact routes_agree_reader. Qed.
Print Assumptions C13_routes_agree_reader.

Theorem C13_routes_agree_writer : forall (H : Type) (sha : bytes -> H) s b now s',
  open_write s now = Some s' ->
  let f := write_bytes s' b now in
  ex_stamp_writer f = ex_stamp f /\ mo_stamp_writer f = mo_stamp f /\ ha_stamp_writer H sha f = ha_stamp H sha f.
Proof. exact routes_agree_writer. Qed.
Print Assumptions C13_routes_agree_writer.

Theorem C13_untouched_consistent : forall (H : Type) (sha : bytes -> H) (eqH : H -> H -> bool),
  (forall a b, eqH a b = true <-> a = b) -> forall s,
  ex_check s (ex_stamp s) = false /\ mo_check s (mo_stamp s) = false /\ ha_check H sha eqH s (ha_stamp H sha s) = false.
Proof. exact untouched_consistent. Qed.
Print Assumptions C13_untouched_consistent.

Theorem C13_exists_detects : forall s1 s2, ex_check s2 (ex_stamp s1) = true <-> p_exists s1 <> p_exists s2.
Proof. exact exists_decides. Qed.
Print Assumptions C13_exists_detects.
Theorem C13_modified_detects : forall s1 s2, mo_check s2 (mo_stamp s1) = true <-> p_modified s1 <> p_modified s2.
Proof. exact modified_decides. Qed.
Print Assumptions C13_modified_detects.
Theorem C13_hash_file_detects : forall (H : Type) (sha : bytes -> H) (eqH : H -> H -> bool),
  (forall a b, eqH a b = true <-> a = b) -> (forall a b, sha a = sha b -> a = b) ->
  forall c1 m1 c2 m2, ha_check H sha eqH (PFile c2 m2) (ha_stamp H sha (PFile c1 m1)) = true <-> c1 <> c2.
Proof. exact hash_file_detects. Qed.
Print Assumptions C13_hash_file_detects.
Theorem C13_hash_existence_detects : forall (H : Type) (sha : bytes -> H) (eqH : H -> H -> bool),
  (forall a b, eqH a b = true <-> a = b) -> forall s1 s2,
  p_exists s1 <> p_exists s2 -> ha_check H sha eqH s2 (ha_stamp H sha s1) = true.
Proof. exact hash_exists_detects. Qed.
Print Assumptions C13_hash_existence_detects.

Theorem C13_reader_rewound : forall (H : Type) (sha : bytes -> H) c m,
  reader_rest (snd (ha_stamp_reader H sha (PFile c m) (open_read (PFile c m)))) = c /\ reader_rest (open_read (PFile c m)) = c.
Proof. exact reader_rewound. Qed.
Print Assumptions C13_reader_rewound.

Theorem C13_open_write : forall s now,
  match s with PDir _ _ => open_write s now = None | _ => open_write s now = Some (PFile [] now) end.
Proof. exact open_write_spec. Qed.
Print Assumptions C13_open_write.

(* directories: a different set of entry names => inconsistent (names never contain NUL; each is NUL-terminated in the
   hashed stream since "fix: HashChecker::hash_directory terminates each entry name") *)
Theorem C13_hash_dir_detects : forall (H : Type) (sha : bytes -> H) (eqH : H -> H -> bool),
  (forall a b, eqH a b = true <-> a = b) -> (forall a b, sha a = sha b -> a = b) ->
  forall n1 m1 n2 m2, nul_free n1 -> nul_free n2 -> ~ (forall x, In x n1 <-> In x n2) ->
  ha_check H sha eqH (PDir n2 m2) (ha_stamp H sha (PDir n1 m1)) = true.
Proof. exact hash_dir_detects. Qed.
Print Assumptions C13_hash_dir_detects.

(* regression witness of the repaired defect: {"ba","a"} and {"b","aa"} now have different hashed streams *)
Example C13_dir_witness : dir_stream [[98; 97]; [97]] <> dir_stream [[98]; [97; 97]].
Proof. cbv. discriminate. Qed.
Print Assumptions C13_dir_witness.

(* C14 - Map resource gives read-your-writes with per-type isolation.  Property theorems only. *)
From Coq Require Import List NArith ZArith Bool.
From PieV Require Import Model.MapRes Proofs.MapResP.
Import ListNotations.
Open Scope N_scope.

(* a read returns the abstract value and never changes any abstract value *)
Theorem C14_read : forall m kt k, fst (map_read m kt k) = lookup m kt k /\
  forall kt' k', lookup (snd (map_read m kt k)) kt' k' = lookup m kt' k'.
Proof. exact map_read_spec. Qed.
Print Assumptions C14_read.

(* latest value wins; other keys, and all keys of other key types, are untouched (writer insert and direct insert) *)
Theorem C14_insert : forall m kt k v kt' k',
  lookup (map_insert m kt k v) kt' k' = if N.eqb kt kt' && N.eqb k k' then Some v else lookup m kt' k'.
Proof. exact insert_lookup. Qed.
Print Assumptions C14_insert.
Theorem C14_remove : forall m kt k kt' k',
  lookup (map_remove m kt k) kt' k' = if N.eqb kt kt' && N.eqb k k' then None else lookup m kt' k'.
Proof. exact remove_lookup. Qed.
Print Assumptions C14_remove.

(* typed state for one resource type is invisible to and not replaced by an access for another resource type *)
Theorem C14_isolated : forall m r s r' s', r <> r' -> rs_get (snd (rs_get_or_set_default m r s)) r' s' = rs_get m r' s'.
Proof. exact typed_access_isolated. Qed.
Print Assumptions C14_isolated.
Theorem C14_set_get : forall m r s v, rs_get (rs_set m r s v) r s = Some v.
Proof. exact rs_get_set_same. Qed.
Print Assumptions C14_set_get.

(* the equality checker: all three stamping routes agree; consistent exactly when current = stamped *)
Theorem C14_routes_agree : forall m kt k,
  let '(s1, m1) := meq_stamp m kt k in
  let '(rd, m2) := map_read m1 kt k in
  let '(s3, m3) := meq_stamp_writer m2 kt k in
  s1 = lookup m kt k /\ meq_stamp_reader rd = lookup m kt k /\ s3 = lookup m kt k.
Proof. exact routes_agree. Qed.
Print Assumptions C14_routes_agree.
Theorem C14_check_decides : forall m kt k st, fst (meq_check m kt k st) = false <-> lookup m kt k = st.
Proof. exact check_decides. Qed.
Print Assumptions C14_check_decides.

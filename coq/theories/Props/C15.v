(* C15 - Task and resource identity is (concrete type, value).  Property theorems only. *)
From Coq Require Import List NArith Bool.
From PieV Require Import Model.Keys Proofs.KeysP.
Import ListNotations.
Open Scope N_scope.

(* two keys are the same exactly when type and value are equal *)
Theorem C15_eq_any : forall a b : key, eq_any a b = true <-> a = b.
Proof. exact eq_any_spec. Qed.
Print Assumptions C15_eq_any.

(* inserting a new key leaves every other key alone, even one that collides in the hash (same value, other type) *)
Theorem C15_insert : forall m k n k', klookup m k = None ->
  klookup (kinsert m k n) k' = if eq_any k k' then Some n else klookup m k'.
Proof. exact klookup_insert. Qed.
Print Assumptions C15_insert.

(* MAIN: for every sequence of get_or_create calls, two calls get the same node exactly when their keys have the same
   concrete type and compare equal -- whatever the hashes do *)
Theorem C15_lookup : forall ks i j ki kj ni nj,
  nth_error ks i = Some ki -> nth_error ks j = Some kj ->
  nth_error (assign ks) i = Some ni -> nth_error (assign ks) j = Some nj ->
  (ni = nj <-> ki = kj).
Proof. intros ks. unfold assign. apply assign_same_iff. apply KInv_init. Qed.
Check C15_lookup : forall ks i j ki kj ni nj,
  nth_error ks i = Some ki -> nth_error ks j = Some kj ->
  nth_error (assign ks) i = Some ni -> nth_error (assign ks) j = Some nj ->
  (ni = nj <-> ki = kj).
Print Assumptions C15_lookup.

(* non-vacuity: same value, different types, colliding hashes: different nodes; the same key again: the same node *)
Example C15_witness : assign [(1, 7); (2, 7); (1, 7); (3, 7); (2, 7)] = [0; 1; 0; 2; 1].
Proof. reflexivity. Qed.
Print Assumptions C15_witness.

(* C17 - Tracker events are a faithful, well-nested account of the build.  Property theorems only. *)
From Coq Require Import List NArith ZArith Bool.
From PieV Require Import Model.Dag Model.Build Model.Tracker Proofs.TrackerP Proofs.Trace Proofs.Local2 Proofs.InvE Proofs.ExecEnd Proofs.RequireEnd.
Import ListNotations.
Open Scope N_scope.

(* the recording tracker stores exactly the recorded kinds since the last build start, index = position *)
Theorem C17_recorder : forall stream,
  et_events (et_run stream) =
  match since_last_bs stream with Some suf => index_from 0 (fm suf) | None => index_from 0 (fm stream) end.
Proof. exact recorder_spec. Qed.
Check C17_recorder : forall stream,
  et_events (et_run stream) =
  match since_last_bs stream with Some suf => index_from 0 (fm suf) | None => index_from 0 (fm stream) end.
Print Assumptions C17_recorder.

(* a composite tracker delivers the identical stream to both children *)
Theorem C17_composite : forall (S1 S2 : Type) (f1 : S1 -> event -> S1) (f2 : S2 -> event -> S2) l s1 s2,
  fold_left (composite_step f1 f2) l (s1, s2) = (fold_left f1 l s1, fold_left f2 l s2).
Proof. exact @composite_forwards. Qed.
Check C17_composite : forall (S1 S2 : Type) (f1 : S1 -> event -> S1) (f2 : S2 -> event -> S2) l s1 s2,
  fold_left (composite_step f1 f2) l (s1, s2) = (fold_left f1 l s1, fold_left f2 l s2).
Print Assumptions C17_composite.

(* the query helpers mean what they document *)
Theorem C17_helpers :
  (forall e, is_build_start e = true <-> e = TBuildStart) /\
  (forall e, is_build_end e = true <-> e = TBuildEnd) /\
  (forall e, is_execute e = true <-> (exists k i, e = TExecuteStart k i) \/ (exists k o i, e = TExecuteEnd k o i)) /\
  (forall e k, is_execute_of e k = true <-> (exists i, e = TExecuteStart k i) \/ (exists o i, e = TExecuteEnd k o i)) /\
  (forall e k e', match_require_start e k = Some e' <-> exists c i, e = TRequireStart k c i /\ e' = e) /\
  (forall e k e', match_require_end e k = Some e' <-> exists c st o i, e = TRequireEnd k c st o i /\ e' = e) /\
  (forall e k e', match_read_start e k = Some e' <-> exists c i, e = TReadStart k c i /\ e' = e) /\
  (forall e k e', match_read_end e k = Some e' <-> exists c st i, e = TReadEnd k c st i /\ e' = e) /\
  (forall e k e', match_write_start e k = Some e' <-> exists c i, e = TWriteStart k c i /\ e' = e) /\
  (forall e k e', match_write_end e k = Some e' <-> exists c st i, e = TWriteEnd k c st i /\ e' = e) /\
  (forall e k e', match_execute_start e k = Some e' <-> exists i, e = TExecuteStart k i /\ e' = e) /\
  (forall e k e', match_execute_end e k = Some e' <-> exists o i, e = TExecuteEnd k o i /\ e' = e).
Proof.
  repeat split; first [ apply is_build_start_spec | apply is_build_end_spec | apply is_execute_spec | apply is_execute_of_spec
                      | apply match_require_start_spec | apply match_require_end_spec | apply match_read_start_spec | apply match_read_end_spec
                      | apply match_write_start_spec | apply match_write_end_spec | apply match_execute_start_spec | apply match_execute_end_spec ].
Qed.
Print Assumptions C17_helpers.

(* the tracker-level queries are find_map (first match) / any / exactly-one over the stored events *)
Theorem C17_find_map_first : forall (A : Type) (f : tevent -> option A) l x,
  find_map f l = Some x <-> exists l1 e l2, l = l1 ++ e :: l2 /\ f e = Some x /\ forall e0, In e0 l1 -> f e0 = None.
Proof. exact @find_map_first. Qed.
Print Assumptions C17_find_map_first.

(* ---- the stream of every build is properly nested, for ALL programs, checkers, worlds and fuel ----
   balanced: the grammar  S ::= empty | atom | start S matching-end | S S   where an atom is a schedule_task event or a
   dangling ReadStart/WriteStart (a read/write whose stamping failed: the code emits no end for it).
   The stream is stored newest first; seg is the chronological segment the build appended. *)
Theorem C17_nested_top_down : forall RC OC P always fuel w t,
  match session_require RC OC P always fuel w t with
  | Done _ w' => exists seg, trace w' = rev seg ++ trace w /\ balanced seg
  | Abort _ w' => exists seg, trace w' = rev seg ++ trace w /\ pbal seg          (* a prefix of a balanced stream *)
  | OutOfFuel => True
  end.
Proof. exact session_require_okD. Qed.
Print Assumptions C17_nested_top_down.

Theorem C17_nested_bottom_up : forall RC OC P fuel w changed,
  match session_bottom_up RC OC P fuel w changed with
  | Done _ w' => exists seg, trace w' = rev seg ++ trace w /\ balanced seg
  | Abort _ w' => exists seg, trace w' = rev seg ++ trace w /\ pbal seg
  | OutOfFuel => True
  end.
Proof. exact session_bottom_up_okD. Qed.
Print Assumptions C17_nested_bottom_up.

(* every nested require, at any depth, likewise (the induction behind the two theorems above) *)
Theorem C17_nested_require : forall RC OC P fuel w t c,
  match require_td RC OC P fuel w t c with
  | Done _ w' => exists seg, trace w' = rev seg ++ trace w /\ balanced seg
  | Abort _ w' => exists seg, trace w' = rev seg ++ trace w /\ pbal seg
  | OutOfFuel => True
  end.
Proof. exact require_td_okD. Qed.
Print Assumptions C17_nested_require.

(* a require-end event carries the value returned to the caller (and the stamp the dependency is updated with) *)
Theorem C17_require_end_value : forall OC mc w t c o w',
  require_with OC mc w t c = Done o w' ->
  exists w3 w4, mc w3 t = Done o w4 /\
    update_require_dependency (emit w4 (ERequireEnd t c (oc_stamp (OC c) o) o)) t c (oc_stamp (OC c) o) = Done tt w'.
Proof. exact require_with_done. Qed.
Print Assumptions C17_require_end_value.

(* ---- "every task execution that really ran appears ... with the output it returned" ----
   last_exec tr t: the latest execution event of t in the (newest-first) stream: Some (Some o) = its end with output o,
   Some None = its start (still running, or aborted), None = t was not executed in this session.
   XI w: for every task, if the latest execution event is the END with o, the store holds exactly o for the task (the value every
   later require returns from the cache); if it is the START, the task has no output.
   For ALL programs, checkers and fuel, after EVERY history -- top-down requires and bottom-up builds in any mix, external
   changes, any number of aborted builds: *)
Theorem C17_exec_events_agree_with_outputs_any_history : forall RC OC P always fuel h,
  XI (snd (run_history RC OC P always fuel init_world h)).
Proof. exact exec_events_agree_with_outputs_any_history. Qed.
Check C17_exec_events_agree_with_outputs_any_history : forall RC OC P always fuel h,
  XI (snd (run_history RC OC P always fuel init_world h)).
Print Assumptions C17_exec_events_agree_with_outputs_any_history.

(* the step form, from ANY world satisfying it, for completed and aborted builds (okO: the world an abort leaves behind; the
   model-only abort ABug 4 aside) -- the invariant is kept by every primitive of the session, in particular between the
   operations of one session *)
Theorem C17_exec_events_agree_top_down : forall RC OC P always fuel w t,
  XI w -> okO XI (session_require RC OC P always fuel w t).
Proof. exact session_require_XI. Qed.
Check C17_exec_events_agree_top_down : forall RC OC P always fuel w t,
  XI w -> okO XI (session_require RC OC P always fuel w t).
Print Assumptions C17_exec_events_agree_top_down.

Theorem C17_exec_events_agree_bottom_up : forall RC OC P fuel w ch,
  XI w -> okO XI (session_bottom_up RC OC P fuel w ch).
Proof. exact session_bottom_up_XI. Qed.
Check C17_exec_events_agree_bottom_up : forall RC OC P fuel w ch,
  XI w -> okO XI (session_bottom_up RC OC P fuel w ch).
Print Assumptions C17_exec_events_agree_bottom_up.

(* ---- "a require-end event carries the value returned to the caller", as a statement about the stream ---- *)
(* every require that returns -- issued by a task top-down, or inside a bottom-up build, whatever make_task_consistent did --
   leaves as NEWEST event its end event with the checker it passed, the stamp of the returned output and the returned output *)
Theorem C17_require_end_is_newest_event_with_returned_value : forall OC mc w t c o w',
  require_with OC mc w t c = Done o w' ->
  exists rest, trace w' = ERequireEnd t c (oc_stamp (OC c) o) o :: rest.
Proof. exact require_end_is_newest_event. Qed.
Check C17_require_end_is_newest_event_with_returned_value : forall OC mc w t c o w',
  require_with OC mc w t c = Done o w' ->
  exists rest, trace w' = ERequireEnd t c (oc_stamp (OC c) o) o :: rest.
Print Assumptions C17_require_end_is_newest_event_with_returned_value.

Theorem C17_require_end_value_bottom_up : forall OC mc w t c o w',
  require_bu_with OC mc w t c = Done o w' ->
  exists rest, trace w' = ERequireEnd t c (oc_stamp (OC c) o) o :: rest.
Proof. exact require_bu_end_value. Qed.
Check C17_require_end_value_bottom_up : forall OC mc w t c o w',
  require_bu_with OC mc w t c = Done o w' ->
  exists rest, trace w' = ERequireEnd t c (oc_stamp (OC c) o) o :: rest.
Print Assumptions C17_require_end_value_bottom_up.

(* Session::require: the stream ends with RequireEnd(task, AlwaysConsistent, stamp, RETURNED output), BuildEnd *)
Theorem C17_session_require_end_value : forall RC OC P always fuel w t o w',
  session_require RC OC P always fuel w t = Done o w' ->
  exists rest, trace w' = EBuildEnd :: ERequireEnd t always (oc_stamp (OC always) o) o :: rest.
Proof. exact session_require_end_value. Qed.
Check C17_session_require_end_value : forall RC OC P always fuel w t o w',
  session_require RC OC P always fuel w t = Done o w' ->
  exists rest, trace w' = EBuildEnd :: ERequireEnd t always (oc_stamp (OC always) o) o :: rest.
Print Assumptions C17_session_require_end_value.

(* non-vacuity: a stream whose latest event for task 1 is the end with 8, for task 2 the start *)
Example C17_last_exec_witness :
  last_exec [EExecStart 2; EExecEnd 1 8; EReadStart 3 5; EExecStart 1] 1 = Some (Some 8%Z) /\
  last_exec [EExecStart 2; EExecEnd 1 8; EReadStart 3 5; EExecStart 1] 2 = Some None /\
  last_exec [EExecStart 2; EExecEnd 1 8; EReadStart 3 5; EExecStart 1] 3 = None.
Proof. repeat split. Qed.
Print Assumptions C17_last_exec_witness.

Example C17_balanced_witness :
  balanced [EBuildStart; ERequireStart 1 2; EExecStart 1; EReadStart 3 5; EReadStart 4 0; EReadEnd 4 0 7; ESchedTask 9;
            EExecEnd 1 8; ERequireEnd 1 2 0 8; EBuildEnd].
Proof. exact balanced_witness. Qed.
Print Assumptions C17_balanced_witness.

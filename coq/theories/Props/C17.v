(* C17 - Tracker events are a faithful, well-nested account of the build.  Property theorems only. *)
From Coq Require Import List NArith ZArith Bool.
From PieV Require Import Model.Dag Model.Build Model.Tracker Proofs.TrackerP.
Import ListNotations.
Open Scope N_scope.

(* the recording tracker stores exactly the recorded kinds since the last build start, index = position *)
Theorem C17_recorder : forall stream,
  et_events (et_run stream) =
  match since_last_bs stream with Some suf => index_from 0 (fm suf) | None => index_from 0 (fm stream) end.
Proof. exact recorder_spec. Qed.
Check C17_recorder : forall stream,
  et_events (et_run stream) =
  match since_last_bs stream with Some suf => index_from 0 (fm suf) | None => index_from 0 (fm stream) end.
Print Assumptions C17_recorder.

(* a composite tracker delivers the identical stream to both children *)
Theorem C17_composite : forall (S1 S2 : Type) (f1 : S1 -> event -> S1) (f2 : S2 -> event -> S2) l s1 s2,
  fold_left (composite_step f1 f2) l (s1, s2) = (fold_left f1 l s1, fold_left f2 l s2).
Proof. exact @composite_forwards. Qed.
Check C17_composite : forall (S1 S2 : Type) (f1 : S1 -> event -> S1) (f2 : S2 -> event -> S2) l s1 s2,
  fold_left (composite_step f1 f2) l (s1, s2) = (fold_left f1 l s1, fold_left f2 l s2).
Print Assumptions C17_composite.

(* the query helpers mean what they document *)
Theorem C17_helpers :
  (forall e, is_build_start e = true <-> e = TBuildStart) /\
  (forall e, is_build_end e = true <-> e = TBuildEnd) /\
  (forall e, is_execute e = true <-> (exists k i, e = TExecuteStart k i) \/ (exists k o i, e = TExecuteEnd k o i)) /\
  (forall e k, is_execute_of e k = true <-> (exists i, e = TExecuteStart k i) \/ (exists o i, e = TExecuteEnd k o i)) /\
  (forall e k e', match_require_start e k = Some e' <-> exists c i, e = TRequireStart k c i /\ e' = e) /\
  (forall e k e', match_require_end e k = Some e' <-> exists c st o i, e = TRequireEnd k c st o i /\ e' = e) /\
  (forall e k e', match_read_start e k = Some e' <-> exists c i, e = TReadStart k c i /\ e' = e) /\
  (forall e k e', match_read_end e k = Some e' <-> exists c st i, e = TReadEnd k c st i /\ e' = e) /\
  (forall e k e', match_write_start e k = Some e' <-> exists c i, e = TWriteStart k c i /\ e' = e) /\
  (forall e k e', match_write_end e k = Some e' <-> exists c st i, e = TWriteEnd k c st i /\ e' = e) /\
  (forall e k e', match_execute_start e k = Some e' <-> exists i, e = TExecuteStart k i /\ e' = e) /\
  (forall e k e', match_execute_end e k = Some e' <-> exists o i, e = TExecuteEnd k o i /\ e' = e).
Proof.
  repeat split; first [ apply is_build_start_spec | apply is_build_end_spec | apply is_execute_spec | apply is_execute_of_spec
                      | apply match_require_start_spec | apply match_require_end_spec | apply match_read_start_spec | apply match_read_end_spec
                      | apply match_write_start_spec | apply match_write_end_spec | apply match_execute_start_spec | apply match_execute_end_spec ].
Qed.
Print Assumptions C17_helpers.

(* the tracker-level queries are find_map (first match) / any / exactly-one over the stored events *)
Theorem C17_find_map_first : forall (A : Type) (f : tevent -> option A) l x,
  find_map f l = Some x <-> exists l1 e l2, l = l1 ++ e :: l2 /\ f e = Some x /\ forall e0, In e0 l1 -> f e0 = None.
Proof. exact @find_map_first. Qed.
Print Assumptions C17_find_map_first.

"""Shared machinery of ./check: builds (Coq, extraction driver, Rust harness), the proof gate, verdicts, evidence."""
import fcntl, hashlib, json, os, re, subprocess, sys, time

ROOT = os.path.dirname(os.path.dirname(os.path.abspath(__file__)))
COQ = os.path.join(ROOT, 'coq')
CACHE = os.path.join(ROOT, '.cache')
TARGET = os.path.join(CACHE, 'target')
DRIVER_DIR = os.path.join(ROOT, 'model_driver')
HARNESS = os.path.join(ROOT, 'harness')
ENV = dict(os.environ, CARGO_NET_OFFLINE='true', CARGO_TARGET_DIR=TARGET)

ALLOWED_AXIOMS = set([
    # stdlib axioms we accept when a library pulls them in (named in the trusted base of the evidence)
    'functional_extensionality_dep', 'Eqdep.Eq_rect_eq.eq_rect_eq', 'proof_irrelevance', 'classic', 'JMeq_eq',
])

FORBIDDEN = re.compile(r'\b(Admitted|admit|Axiom|Axioms|Parameter|Parameters|Conjecture|Admit Obligations|bypass_check|give_up)\b'
                       r'|Unset\s+Guard|Unset\s+Positivity|Unset\s+Universe|type-in-type|impredicative-set')


def log(*a):
    print(*a, file=sys.stderr, flush=True)


def sh(cmd, cwd=None, timeout=3600, env=None, stdin=None):
    t0 = time.time()
    try:
        p = subprocess.run(cmd, cwd=cwd, env=env or ENV, stdout=subprocess.PIPE, stderr=subprocess.STDOUT,
                           timeout=timeout, shell=isinstance(cmd, str), input=stdin)
        return p.returncode, p.stdout.decode('utf-8', 'replace'), time.time() - t0
    except subprocess.TimeoutExpired as e:
        return 124, (e.stdout or b'').decode('utf-8', 'replace') + '\nTIMEOUT', time.time() - t0


class Lock:
    def __init__(self, name):
        os.makedirs(CACHE, exist_ok=True)
        self.path = os.path.join(CACHE, name + '.lock')
    def __enter__(self):
        self.f = open(self.path, 'w')
        fcntl.flock(self.f, fcntl.LOCK_EX)
    def __exit__(self, *a):
        fcntl.flock(self.f, fcntl.LOCK_UN)
        self.f.close()

# ----------------------------------------------------------------------------- Coq

def coq_sources():
    out = []
    for d, _, fs in os.walk(os.path.join(COQ, 'theories')):
        for f in fs:
            if f.endswith('.v'):
                out.append(os.path.join(d, f))
    return sorted(out)


def strip_comments(src):
    out = []
    depth = 0
    i = 0
    while i < len(src):
        if src.startswith('(*', i):
            depth += 1; i += 2
        elif src.startswith('*)', i) and depth > 0:
            depth -= 1; i += 2
        else:
            if depth == 0:
                out.append(src[i])
            i += 1
    return ''.join(out)


def forbidden_scan():
    bad = []
    for f in coq_sources():
        txt = strip_comments(open(f).read())
        for m in FORBIDDEN.finditer(txt):
            line = txt.count('\n', 0, m.start()) + 1
            bad.append('%s:%d: %s' % (os.path.relpath(f, ROOT), line, m.group(0)))
        # Variable/Hypothesis outside a section
        depth = 0
        for ln, l in enumerate(txt.split('\n'), 1):
            ls = l.strip()
            if re.match(r'Section\s', ls): depth += 1
            elif re.match(r'End\s', ls) and depth > 0: depth -= 1
            elif depth == 0 and re.match(r'(Variable|Variables|Hypothesis|Hypotheses|Context)\b', ls):
                bad.append('%s:%d: %s outside a section' % (os.path.relpath(f, ROOT), ln, ls.split()[0]))
    return bad


def build_coq(targets=None, timeout=3000):
    """full .vo build through coq_makefile (never -vos).  Returns (ok, log)."""
    with Lock('coq'):
        mk = os.path.join(COQ, 'Makefile')
        cp = os.path.join(COQ, '_CoqProject')
        if not os.path.exists(mk) or os.path.getmtime(mk) < os.path.getmtime(cp):
            rc, out, _ = sh(['coq_makefile', '-f', '_CoqProject', '-o', 'Makefile'], cwd=COQ, timeout=120)
            if rc != 0:
                return False, out
        cmd = ['make', '-j16'] + (targets or [])
        rc, out, dt = sh(cmd, cwd=COQ, timeout=timeout)
        return rc == 0, out


def props_file(prop):
    return os.path.join(COQ, 'theories', 'Props', prop + '.v')


def coqchk_gate(prop, res):
    """thorough tier: independent re-check of the compiled property file and everything it depends on (coqchk -o);
    the axiom summary must be empty (allow-list: standard-library axioms)."""
    with Lock('coq'):
        rc, out, _t = sh(['coqchk', '-o', '-silent', '-Q', 'theories', 'PieV', 'PieV.Props.%s' % prop], cwd=COQ, timeout=3000)
    txt = out
    res['coqchk'] = 'rc=%d' % rc
    if rc != 0:
        res['ok'] = False
        res['problems'].append('coqchk failed on Props.%s:\n%s' % (prop, txt[-1500:]))
        return
    m = re.search(r'\* Axioms:(.*?)\n\s*\n\* Constants', txt, re.S)
    body = m.group(1).strip() if m else '?'
    res['coqchk'] = 'Axioms: ' + ' '.join(body.split())
    if body != '<none>':
        names = re.findall(r'([A-Za-z0-9_.\']+)\s*$', body, re.M)
        for a in names:
            if a not in ALLOWED_AXIOMS and a.split('.')[-1] not in ALLOWED_AXIOMS:
                res['ok'] = False
                res['problems'].append('coqchk reports non-allow-listed axiom ' + a)
    for key in ('type-in-type', 'unsafe (co)fixpoints', 'positivity is assumed'):
        mm = re.search(re.escape(key) + r':(.*?)\n', txt)
        if mm and mm.group(1).strip() != '<none>':
            res['ok'] = False
            res['problems'].append('coqchk: %s: %s' % (key, mm.group(1).strip()))


def proof_gate(prop, tier='quick'):
    """Builds the development, scans for forbidden constructs, re-checks Props/<prop>.v and parses Print Assumptions.
    Returns dict(ok, theorems, axioms, problems, log)."""
    res = {'ok': True, 'theorems': [], 'axioms': [], 'problems': [], 'checker_cmd': ''}
    bad = forbidden_scan()
    if bad:
        res['ok'] = False
        res['problems'] += ['forbidden construct: ' + b for b in bad]
    pf = props_file(prop)
    if not os.path.exists(pf):
        res['ok'] = False
        res['problems'].append('no Props file for ' + prop)
        return res
    vo = 'theories/Props/%s.vo' % prop
    ok, out = build_coq([vo])
    res['checker_cmd'] = 'cd coq && coq_makefile -f _CoqProject -o Makefile && make -j16 %s && coqc -Q theories PieV theories/Props/%s.v (Print Assumptions parsed)' % (vo, prop)
    if not ok:
        res['ok'] = False
        tail = '\n'.join(out.strip().split('\n')[-25:])
        res['problems'].append('Coq build failed for %s:\n%s' % (vo, tail))
        m = re.findall(r'File "([^"]+)", line (\d+)', out)
        res['broken_at'] = ['%s:%s' % x for x in m[-3:]]
        return res
    # re-run coqc on the (tiny) property file to obtain its Print Assumptions output
    with Lock('coq'):
        rc, out, _ = sh(['coqc', '-q', '-Q', 'theories', 'PieV', '-w', '-all', 'theories/Props/%s.v' % prop], cwd=COQ, timeout=600)
    if rc != 0:
        res['ok'] = False
        res['problems'].append('coqc on Props/%s.v failed:\n%s' % (prop, out[-2000:]))
        return res
    src = strip_comments(open(pf).read())
    thms = re.findall(r'\b(?:Theorem|Lemma|Corollary|Example)\s+([A-Za-z0-9_\']+)', src)
    pins = re.findall(r'\bCheck\s+([A-Za-z0-9_\']+)\s*:', src)
    pa = re.findall(r'\bPrint Assumptions\s+([A-Za-z0-9_\']+)', src)
    res['theorems'] = thms
    res['pins'] = pins
    for t in thms:
        if t not in pa:
            res['ok'] = False
            res['problems'].append('theorem %s has no Print Assumptions' % t)
    # parse the assumptions blocks
    closed = out.count('Closed under the global context')
    axioms = []
    blocks = re.split(r'\n(?=Axioms:)', out)
    for b in blocks:
        if b.startswith('Axioms:') or '\nAxioms:' in b:
            body = b.split('Axioms:', 1)[1]
            for m in re.finditer(r'^\s*([A-Za-z0-9_.\']+)\s*:', body, re.M):
                axioms.append(m.group(1))
    res['axioms'] = sorted(set(axioms))
    for a in res['axioms']:
        short = a.split('.')[-1]
        if a not in ALLOWED_AXIOMS and short not in ALLOWED_AXIOMS:
            res['ok'] = False
            res['problems'].append('theorem depends on non-allow-listed axiom ' + a)
    if closed + (1 if axioms else 0) < 1 and pa:
        res['ok'] = False
        res['problems'].append('could not parse Print Assumptions output')
    res['closed_blocks'] = closed
    if tier != 'quick' and res['ok']:
        coqchk_gate(prop, res)
    return res

# ----------------------------------------------------------------------------- extraction driver

def build_driver():
    """(re)build the OCaml driver from the extracted model.  Extraction itself is the Coq target theories/Extract.vo."""
    ok, out = build_coq(['theories/Extract.vo'])
    if not ok:
        return None, 'extraction failed:\n' + '\n'.join(out.strip().split('\n')[-25:])
    with Lock('driver'):
        exe = os.path.join(DRIVER_DIR, 'driver')
        srcs = [os.path.join(DRIVER_DIR, f) for f in ('model.mli', 'model.ml', 'driver.ml')]
        if os.path.exists(exe) and all(os.path.getmtime(exe) >= os.path.getmtime(s) for s in srcs):
            return exe, ''
        rc, out, _ = sh('ocamlfind ocamlopt -O2 -w -a model.mli model.ml driver.ml -o driver', cwd=DRIVER_DIR, timeout=600)
        if rc != 0:
            return None, 'driver compilation failed:\n' + out[-3000:]
        return exe, ''

# ----------------------------------------------------------------------------- rust harness

def build_harness(binname, release=False):
    """cargo build of one harness binary against /repo's current working tree with the hooks enabled."""
    with Lock('cargo'):
        lock_src = '/repo/Cargo.lock'
        lock_dst = os.path.join(HARNESS, 'Cargo.lock')
        if not os.path.exists(lock_dst):
            import shutil
            shutil.copy(lock_src, lock_dst)
        cmd = ['cargo', 'build', '--offline', '--features', 'hooks', '--bin', binname] + (['--release'] if release else [])
        rc, out, dt = sh(cmd, cwd=HARNESS, timeout=3000)
        if rc != 0:
            return None, out
        return os.path.join(TARGET, 'release' if release else 'debug', binname), out


_ESC = [None]
def escalation():
    """Source fingerprint (DESIGN 4.5): does /repo's working tree differ from the validated baseline (baseline.json) in
    graph/src or pie/src?  Never an alarm: it only multiplies the number of generated cases of the quick tier, because a changed
    behaviour can only sit in changed code and a rare trigger deserves more draws there.  Returns (factor, changed files)."""
    if _ESC[0] is not None:
        return _ESC[0]
    factor, files = 1, []
    try:
        base = json.load(open(os.path.join(ROOT, 'baseline.json')))['repo_commit']
        rc, out, _ = sh(['git', '-C', '/repo', 'diff', '--name-only', base, '--', 'graph/src', 'pie/src'])
        if rc == 0:
            files = [l for l in out.split('\n') if l.strip()]
        else:
            files = ['<baseline commit unknown to /repo>']
        rc, out, _ = sh(['git', '-C', '/repo', 'status', '--porcelain', '--', 'graph/src', 'pie/src'])
        files += [l[3:] for l in out.split('\n') if l.startswith('??')]
        if files:
            factor = int(os.environ.get('VERIF_ESCALATE', '3') or 3)
    except Exception as e:
        files = ['<fingerprint unavailable: %s>' % e]
    _ESC[0] = (max(1, factor), sorted(set(files)))
    return _ESC[0]


def quick_n(n, tier):
    """number of generated cases: the quick tier's n, multiplied when the source fingerprint differs from the baseline"""
    if tier != 'quick':
        return n
    return n * escalation()[0]


def repo_state():
    rc, head, _ = sh(['git', '-C', '/repo', 'rev-parse', 'HEAD'])
    rc, diff, _ = sh(['git', '-C', '/repo', 'diff', 'HEAD', '--', '.'])
    return head.strip(), hashlib.sha1(diff.encode()).hexdigest()[:12] if diff.strip() else 'clean'

# ----------------------------------------------------------------------------- known findings / verdict / evidence

def load_known(prop):
    p = os.path.join(ROOT, 'known_findings.json')
    if not os.path.exists(p):
        return []
    data = json.load(open(p))
    return [f for f in data.get('findings', []) if f['property'] == prop]


def write_replay(prop, seed, n, payload):
    d = os.path.join(ROOT, 'replays')
    os.makedirs(d, exist_ok=True)
    path = os.path.join(d, '%s-%s-%d.json' % (prop, seed, n))
    json.dump(payload, open(path, 'w'), indent=1)
    return path


def write_evidence(prop, tier, seed, coverage, assumptions, wall, violations):
    d = os.path.join(ROOT, 'evidence')
    os.makedirs(d, exist_ok=True)
    try:
        f, files = escalation()
        coverage = dict(coverage)
        coverage['source_fingerprint'] = {'repo_differs_from_validated_baseline': bool(files), 'changed_files': files[:20],
                                          'quick_tier_case_factor': (f if tier == 'quick' else 1)}
    except Exception:
        pass
    ev = {'property_id': prop, 'tier': tier, 'seed': seed, 'level': 'proof', 'coverage': coverage,
          'assumptions': assumptions, 'wall_s': round(wall, 2), 'violations': violations}
    json.dump(ev, open(os.path.join(d, prop + '.json'), 'w'), indent=1)


TRUSTED_BASE = [
    'Coq 8.16.1 kernel (coqc; vm_compute used in witness lemmas; native_compute not used)',
    'no axioms declared; Print Assumptions of every property theorem is parsed on each run (allow-list: stdlib axioms only)',
    'extraction: ExtrOcamlBasic directives only, no Extract Constant; OCaml 4.13.1; model_driver/driver.ml',
    'hand-written Gallina model tied to /repo by the correspondence run (Rust harness in harness/, python differ in gen/)',
    'the gohla_pie_verif hook (Pie::verif_dump_store) in /repo',
]

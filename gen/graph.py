"""Graph layer (C10, C11): generator of DAG operation sequences, parser of observations, and the
implementation-level oracle (a reference 'true edge set' kept in python, independent of the Coq model)."""
import random

# ----------------------------------------------------------------------------- generator

def gen_case(rng, max_ops, max_live, malformed=False):
    """One op sequence as a token list.  Biased towards: edges against the current creation order (so the
    Pearce-Kelly reordering runs), cycles, re-adding existing edges, remove-then-re-add, ops on removed nodes."""
    toks = []
    created = 0
    live = []
    dead = []
    edges = []  # (s,d) believed present (best effort, only to bias choices)
    nops = rng.randint(5, max_ops)
    # start with a few nodes
    for _ in range(rng.randint(2, min(5, max_live))):
        toks += ['A']; live.append(created); created += 1
    data = 1
    for _ in range(nops):
        r = rng.random()
        pick_dead = dead and (rng.random() < (0.35 if malformed else 0.04))
        def node():
            if pick_dead and rng.random() < 0.5:
                return rng.choice(dead)
            return rng.choice(live) if live else (rng.choice(dead) if dead else 0)
        if created == 0 or (r < 0.12 and len(live) < max_live):
            toks += ['A']; live.append(created); created += 1
        elif r < 0.62:
            mode = rng.random()
            if edges and mode < 0.15:          # re-add an existing edge
                s, d = rng.choice(edges)
            elif edges and mode < 0.30:        # reverse of an existing edge (direct cycle) or path closing edge
                d, s = rng.choice(edges)
            elif mode < 0.36:
                s = node(); d = s              # self loop
            else:
                s = node(); d = node()
                if mode < 0.75 and s < d and rng.random() < 0.7:
                    s, d = d, s                # against creation order -> reorder path
            toks += ['E', str(s), str(d), str(data)]; data += 1
            if s != d and (s, d) not in edges and s in live and d in live:
                edges.append((s, d))
        elif r < 0.74:
            if edges and rng.random() < 0.8:
                s, d = rng.choice(edges)
                edges.remove((s, d))
            else:
                s = node(); d = node()
            toks += ['X', str(s), str(d)]
        elif r < 0.82:
            s = node()
            toks += ['O', str(s)]
            edges = [e for e in edges if e[0] != s]
        elif r < 0.90 and (len(live) > 2 or malformed):
            n = node()
            toks += ['R', str(n)]
            if n in live:
                live.remove(n); dead.append(n)
            edges = [e for e in edges if n not in e]
        else:
            s = node(); d = node()
            toks += ['E', str(s), str(d), str(data)]; data += 1
            if s != d and (s, d) not in edges and s in live and d in live:
                edges.append((s, d))
    return toks


def gen_dense_case(rng, max_live):
    """A dense DAG first (many nodes with several parents and shared ancestors, edges inserted in random order so that the parent
    and child lists have unrelated orders), then edges from late nodes to early nodes: every such edge either closes a cycle or
    forces a reorder whose backward search walks diamonds -- a parent already visited through another path followed by one that
    was not -- and whose forward search does the same on the child lists; then the whole order is probed by further edges."""
    toks = []
    n = rng.randint(5, 8) if rng.random() < 0.6 else rng.randint(5, max(6, min(max_live, 14)))
    toks += ['A'] * n
    data = 1
    fw = [(i, j) for i in range(n) for j in range(i + 1, n)]
    rng.shuffle(fw)
    dens = rng.uniform(0.25, 0.7)
    # edges i -> j with i > j go WITH the creation order of ranks? ranks follow creation order, an edge s -> d needs rank s < rank d:
    # forward edges (s < d) need no reorder; choose the direction per case so that both the parent-side and the child-side searches get diamonds
    flip = rng.random() < 0.5
    for (i, j) in fw:
        if rng.random() < dens:
            s, d = (j, i) if flip else (i, j)
            toks += ['E', str(s), str(d), str(data)]; data += 1
    for _ in range(rng.randint(4, 12)):
        a, b = rng.sample(range(n), 2)
        if rng.random() < 0.8 and ((a < b) != flip):
            a, b = b, a                      # from a node late in the current order to an early one: reorder or cycle
        toks += ['E', str(a), str(b), str(data)]; data += 1
        if rng.random() < 0.3:
            toks += ['X', str(rng.randrange(n)), str(rng.randrange(n))]
    return toks


def corpus_cases():
    """Hand-written / minimized cases that run first on every check."""
    return [
        # backward search of a reorder: a parent already visited through another path, followed in the parent list by one that was not
        "A A A A A A E 5 4 1 E 5 2 3 E 3 2 4 E 2 1 5 E 4 1 6 E 1 0 7 E 2 3 8".split(),
        "A A A A A E 1 3 1 E 2 3 2 E 3 4 3 E 1 4 4 E 4 0 5 E 3 2 6".split(),
        # O1 witness: re-adding an existing edge must keep first-insertion order
        "A A A E 0 1 10 E 0 2 20 E 0 1 30".split(),
        # cycle through a path, then legal edge forcing a reorder
        "A A A A E 0 1 1 E 1 2 2 E 2 0 3 E 3 0 4 E 2 3 5".split(),
        # remove node compaction, op on removed node, re-add after removal
        "A A A A E 3 2 1 E 2 1 2 R 2 E 3 2 9 E 3 1 3 X 3 1 E 3 1 4 O 3 A E 4 3 5 E 1 4 6".split(),
        # diamond + reorder of a larger affected region
        "A A A A A A E 4 5 1 E 2 3 2 E 0 1 3 E 5 2 4 E 3 0 5 E 1 4 6 E 5 0 7".split(),
        # query-then-add-edge patterns (scratch space re-use): path a->b->c then closing edge
        "A A A E 0 1 1 E 1 2 2 E 2 0 3 E 2 1 4 E 1 0 5".split(),
    ]

# ----------------------------------------------------------------------------- observation parsing

def parse_obs(lines):
    """Split driver output into cases: list of list of (result_line, state_line, query_line|None)."""
    cases = []
    cur = None
    i = 0
    while i < len(lines):
        l = lines[i]
        if l.startswith('C '):
            cur = []
            cases.append(cur)
            i += 1
            continue
        if l.startswith('r '):
            r = l
            s = lines[i + 1] if i + 1 < len(lines) else ''
            q = None
            j = i + 2
            if j < len(lines) and lines[j].startswith('q '):
                q = lines[j]; j += 1
            cur.append((r, s, q))
            i = j
            continue
        i += 1
    return cases


def parse_state(s):
    """'s id:rank:kids:pars ...' -> {id: (rank, [(c,data)], [(p,data)])}"""
    out = {}
    for item in s.split()[1:]:
        bad = item.endswith('!ITER')
        if bad:
            item = item[:-5]
        i, r, ks, ps = item.split(':')
        def adj(t):
            if t == '':
                return []
            res = []
            for kv in t.split(','):
                a, b = kv.split('=')
                res.append((int(a), b))
            return res
        out[int(i)] = (r, adj(ks), adj(ps), bad)
    return out

# ----------------------------------------------------------------------------- reference + oracle

class Ref:
    """The abstract specification: a set of live nodes and an edge log with first-insertion order and data."""
    def __init__(self):
        self.created = 0
        self.live = set()
        self.out = {}    # s -> list of (d, data) in first-insertion order
        self.inn = {}    # d -> list of (s, data) in first-insertion order

    def has(self, s, d):
        return any(c == d for c, _ in self.out.get(s, []))

    def reach(self, a):
        seen = set()
        st = [c for c, _ in self.out.get(a, [])]
        while st:
            x = st.pop()
            if x in seen:
                continue
            seen.add(x)
            st.extend(c for c, _ in self.out.get(x, []))
        return seen

    def expect(self, op):
        """apply op, return expected result string (None = unspecified)"""
        k = op[0]
        if k == 'A':
            n = self.created; self.created += 1
            self.live.add(n); self.out[n] = []; self.inn[n] = []
            return 'r A %d' % n
        if k == 'R':
            n = op[1]
            if n not in self.live:
                return 'r R 0'
            self.live.remove(n)
            for c, _ in self.out.pop(n):
                self.inn[c] = [(p, x) for p, x in self.inn[c] if p != n]
            for p, _ in self.inn.pop(n):
                self.out[p] = [(c, x) for c, x in self.out[p] if c != n]
            return 'r R 1'
        if k == 'E':
            s, d, x = op[1], op[2], op[3]
            if s not in self.live or d not in self.live:
                return 'r E missing'
            if s == d:
                return 'r E cycle'
            if self.has(s, d):
                return 'r E ok0'
            if s in self.reach(d):
                return 'r E cycle'
            self.out[s].append((d, str(x))); self.inn[d].append((s, str(x)))
            return 'r E ok1'
        if k == 'X':
            s, d = op[1], op[2]
            if s not in self.live or d not in self.live or not self.has(s, d):
                return 'r X none'
            x = [v for c, v in self.out[s] if c == d][0]
            self.out[s] = [(c, v) for c, v in self.out[s] if c != d]
            self.inn[d] = [(p, v) for p, v in self.inn[d] if p != s]
            return 'r X %s' % x
        if k == 'O':
            s = op[1]
            if s not in self.live or not self.out[s]:
                return 'r O none'
            l = self.out[s]
            self.out[s] = []
            for c, _ in l:
                self.inn[c] = [(p, v) for p, v in self.inn[c] if p != s]
            return 'r O some ' + ','.join('%d=%s' % (c, v) for c, v in l)
        raise ValueError(op)


def toks_to_ops(toks):
    ops = []
    i = 0
    while i < len(toks):
        t = toks[i]
        if t == 'A':
            ops.append(('A',)); i += 1
        elif t == 'R':
            ops.append(('R', int(toks[i + 1]))); i += 2
        elif t == 'E':
            ops.append(('E', int(toks[i + 1]), int(toks[i + 2]), int(toks[i + 3]))); i += 4
        elif t == 'X':
            ops.append(('X', int(toks[i + 1]), int(toks[i + 2]))); i += 3
        elif t == 'O':
            ops.append(('O', int(toks[i + 1]))); i += 2
        else:
            raise ValueError(t)
    return ops


def oracle(toks, obs, prop):
    """Check one case's implementation observations against the abstract spec.
    prop = 'C10' (invariant, cycle verdicts, rejected insertion is a no-op) or 'C11' (queries, adjacency, removal).
    Returns (None, stats) or (message, stats)."""
    ops = toks_to_ops(toks)
    ref = Ref()
    stats = {'reorders': 0, 'cycles': 0, 'readds': 0, 'removed_node_ops': 0}
    if len(obs) != len(ops):
        return ('observation count %d != op count %d' % (len(obs), len(ops)), stats)
    prev_state = 's'
    prev_ranks = {}
    for k, (op, (r, s, q)) in enumerate(zip(ops, obs)):
        was_live = set(ref.live)
        exp = ref.expect(op)
        where = 'op %d %s' % (k, ' '.join(map(str, op)))
        if 'PANIC' in r or 'PANIC' in s or (q and 'PANIC' in q):
            return ('%s: panic in the implementation (%s)' % (where, r), stats)
        for x in op[1:3] if op[0] in 'EX' else op[1:2]:
            if op[0] != 'A' and x not in was_live:
                stats['removed_node_ops'] += 1
                break
        st = parse_state(s)
        if prop == 'C10':
            if op[0] == 'E' and r != exp:
                return ('%s: add_edge answered %r, the true edge set requires %r' % (where, r, exp), stats)
            if r in ('r E cycle', 'r E missing') and s != prev_state:
                return ('%s: rejected insertion changed the graph: %r -> %r' % (where, prev_state, s), stats)
            ranks = sorted(int(v[0]) if v[0].isdigit() else -1 for v in st.values())
            if ranks != list(range(1, len(st) + 1)):
                return ('%s: ranks are not a bijection onto 1..n: %r' % (where, ranks), stats)
            if set(st.keys()) != ref.live:
                return ('%s: live node set %r differs from %r' % (where, sorted(st.keys()), sorted(ref.live)), stats)
            for u, (ru, ks, ps, _) in st.items():
                for c, _ in ks:
                    if c not in st or int(ru) >= int(st[c][0]):
                        return ('%s: edge %d->%d does not increase rank (%s -> %s)' % (where, u, c, ru, st.get(c, ('?',))[0]), stats)
            if r == 'r E cycle':
                stats['cycles'] += 1
            if r == 'r E ok1':
                cur = {u: v[0] for u, v in st.items()}
                if any(prev_ranks.get(u) != cur[u] for u in cur if u in prev_ranks):
                    stats['reorders'] += 1
            prev_ranks = {u: v[0] for u, v in st.items()}
        else:  # C11
            if r != exp and not (op[0] == 'E'):
                return ('%s: result %r, the true edge set requires %r' % (where, r, exp), stats)
            if r == 'r E ok0':
                stats['readds'] += 1
            for u in ref.live:
                if u not in st:
                    return ('%s: node %d missing from the graph' % (where, u), stats)
                _, ks, ps, bad = st[u]
                if bad:
                    return ('%s: adjacency iterators of node %d disagree with each other' % (where, u), stats)
                if ks != ref.out[u]:
                    return ('%s: outgoing adjacency of %d is %r, true edge set in first-insertion order with data is %r' % (where, u, ks, ref.out[u]), stats)
                if ps != ref.inn[u]:
                    return ('%s: incoming adjacency of %d is %r, true edge set in first-insertion order with data is %r' % (where, u, ps, ref.inn[u]), stats)
            if q is not None:
                parts = q[2:].split(' | ')
                bits = parts[0].strip(); desc = parts[1].strip() if len(parts) > 1 else ''; cmp_ = parts[2].strip() if len(parts) > 2 else ''
                n = ref.created
                reach = {a: ref.reach(a) for a in ref.live}
                if len(bits) != n * n:
                    return ('%s: malformed query line' % where, stats)
                for a in range(n):
                    for b in range(n):
                        v = int(bits[a * n + b])
                        ce = a in ref.live and b in ref.live and ref.has(a, b)
                        cte = a in ref.live and b in ref.live and a != b and b in reach[a]
                        if (v & 1) != int(ce):
                            return ('%s: contains_edge(%d,%d)=%d but true edge set says %d' % (where, a, b, v & 1, int(ce)), stats)
                        if (v >> 1) != int(cte):
                            return ('%s: contains_transitive_edge(%d,%d)=%d but reachability says %d' % (where, a, b, v >> 1, int(cte)), stats)
                ranks = {u: int(v[0]) for u, v in st.items()}
                for item in desc.split():
                    a, rest = item.split(':', 1)
                    a = int(a)
                    if a not in ref.live:
                        if rest != 'missing[missing]':
                            return ('%s: descendants of removed node %d = %r' % (where, a, rest), stats)
                        continue
                    uns, srt = rest[1:].split(')[')
                    srt = srt[:-1]
                    ul = [tuple(map(int, x.split('.'))) for x in uns.split(',')] if uns else []
                    sl = [int(x) for x in srt.split(',')] if srt else []
                    if sorted(x[1] for x in ul) != sorted(reach[a]):
                        return ('%s: descendants_unsorted(%d)=%r, reachable set is %r' % (where, a, ul, sorted(reach[a])), stats)
                    if any(ranks.get(nn) != rr for rr, nn in ul):
                        return ('%s: descendants_unsorted(%d) reports wrong ranks %r' % (where, a, ul), stats)
                    if sorted(sl) != sorted(reach[a]):
                        return ('%s: descendants(%d)=%r, reachable set is %r' % (where, a, sl, sorted(reach[a])), stats)
                    if [ranks[x] for x in sl] != sorted(ranks[x] for x in sl):
                        return ('%s: descendants(%d)=%r is not in ascending topological rank' % (where, a, sl), stats)
                for a in range(n):
                    for b in range(n):
                        c = cmp_[a * n + b]
                        if a in ref.live and b in ref.live:
                            e = 'L' if ranks[a] < ranks[b] else ('G' if ranks[a] > ranks[b] else 'E')
                            if c != e:
                                return ('%s: topo_cmp(%d,%d)=%s but ranks say %s' % (where, a, b, c, e), stats)
        prev_state = s
    return (None, stats)

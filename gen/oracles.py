"""Implementation-level oracles for the pie layer.  Each works only on observations of the REAL code (never the model)
and returns a list of (property, signature, message).  `case` carries generator metadata."""
from . import pie as P

RECORDED = ('BS', 'BE', 'RS', 'RE', 'rS', 'rE', 'wS', 'wE', 'XS', 'XE')


def aborted(sess):
    return any('abort' in o for o in sess.ops)


def abort_kinds(sess):
    return [o.split('abort ')[1] for o in sess.ops if 'abort' in o]


def view(c, v):
    if c in (0, 4): return 0 if v is None else v + 1
    if c == 1: return 0 if v is None else 1 + v % 2
    if c == 2: return 0 if v is None else 1
    return 0


def maps_equal_mod_writer_view(prog, a, b):
    for r in set(a) | set(b):
        wc = prog.generated.get(r, (None, 0))[1]
        if view(wc, a.get(r)) != view(wc, b.get(r)):
            return r
    return None


class Shadow:
    """The dependency bookkeeping of the store, rebuilt from the tracker stream alone (require starts, read ends, write ends,
    execution starts), kept across the sessions of a history.  It mirrors what the store keeps: the first kind of dependency per
    (task, resource); reserved require edges from the moment the require starts; everything of a task dropped when it starts
    executing again.  A read end (write end) that the implementation let happen although the recorded writer is not reachable
    from the reader (a recorded reader does not reach the writer / another writer is recorded) is a violation of C05 (C06)."""
    def __init__(self):
        self.req = {}; self.reads = {}; self.writes = {}
    def reach(self, a, b):
        seen = set(); st = [a]
        while st:
            x = st.pop()
            for y in self.req.get(x, ()):
                if y == b: return True
                if y not in seen:
                    seen.add(y); st.append(y)
        return False
    def session(self, events, kinds):
        out = []
        stack = []
        last_rs = None
        for e in events:
            f = e.split()
            k = f[0]
            if k == 'BS':
                stack = []          # a new build: nothing is executing (the previous build of this session may have been aborted)
                last_rs = None
            elif k == 'XS':
                t = int(f[1]); stack.append(t)
                self.req[t] = []; self.reads[t] = set(); self.writes[t] = set()
                last_rs = None
            elif k == 'XE':
                if stack: stack.pop()
                last_rs = None
            elif k == 'RS' and stack:
                t, x = stack[-1], int(f[1])
                if x not in self.req.setdefault(t, []):
                    self.req[t].append(x); last_rs = (t, x)
                else:
                    last_rs = None
            elif k == 'rE' and stack:
                t, r = stack[-1], f[1]
                last_rs = None
                ws = [x for x, rs in self.writes.items() if r in rs and x != t]
                for x in ws:
                    if not self.reach(t, x):
                        out.append(('C05', 'hidden-read-undetected', 'task %d was handed a reader of R%s, which task %d has written, although nothing task %d required so far leads to task %d' % (t, r, x, t, x)))
                if r not in self.writes.setdefault(t, set()):
                    self.reads.setdefault(t, set()).add(r)
            elif k == 'wE' and stack:
                t, r = stack[-1], f[1]
                last_rs = None
                for x, rs in self.writes.items():
                    if r in rs and x != t:
                        out.append(('C06', 'overlap-undetected', 'task %d completed a write of R%s although task %d is recorded as its writer' % (t, r, x)))
                for y, rs in self.reads.items():
                    if r in rs and y != t and not self.reach(y, t):
                        out.append(('C05', 'hidden-write-undetected', 'task %d completed a write of R%s, which task %d has read, although nothing task %d required leads to task %d' % (t, r, y, y, t)))
                if r not in self.reads.setdefault(t, set()):
                    self.writes.setdefault(t, set()).add(r)
            elif k in ('rS', 'wS'):
                pass
        # a require whose reservation was refused (cycle) leaves no edge behind
        if 'cycle' in kinds and last_rs is not None and events and events[-1].split()[0] == 'RS':
            t, x = last_rs
            if x in self.req.get(t, []): self.req[t].remove(x)
        return out


def exec_stack_ops(execlog):
    """-> list of executions in order of completion: (task, [ops], completed)"""
    stack = []
    done = []
    for e in execlog:
        f = e.split()
        if f[0] == 'XS':
            stack.append((int(f[1]), []))
        elif f[0] == 'XE':
            if stack:
                t, ops = stack.pop()
                done.append((t, ops, True))
        elif f[0] == 'op' and stack:
            stack[-1][1].append((f[1], f[2], f[3]))
    while stack:
        t, ops = stack.pop()
        done.append((t, ops, False))
    return done


def out_check(c, cur, st):
    """output checker c (0 equals, 1 parity, 2 always) applied to the current output text and the recorded stamp text"""
    try:
        v = int(cur)
        if c == '0': return str(v) == st or cur == st
        if c == '2': return True
        if c in ('3', '4'): return abs(v % 1000 - int(st) % 1000) <= (400 if c == '3' else 100)          # the tolerance checkers of the harness (OutNear(400), OutNear(100))
    except ValueError:
        pass
    return None


def res_check(c, val, st):
    """resource checker c (0 exact, 1 parity, 2 exists, 3 always) applied to the current content and the recorded stamp (model encoding)"""
    try:
        s_ = int(st)
    except ValueError:
        return None
    if c == '0': return (0 if val is None else val + 1) == s_
    if c == '1': return (0 if val is None else 1 + val % 2) == s_
    if c == '2': return (0 if val is None else 1) == s_
    if c == '3': return True
    return None


def env_at(toks):
    """failing set of the checker environment at each step of a case: step index -> set of resources (from the 'F k r..' steps)"""
    out = {}
    try:
        i = toks.index('H') + 1
    except ValueError:
        return out
    env = set(); step = 0
    while i < len(toks):
        t = toks[i]
        if t == 'E': i += 3
        elif t == 'D': i += 2
        elif t == 'F':
            k = int(toks[i + 1]); env = set(int(x) for x in toks[i + 2:i + 2 + k]); i += 2 + k
        elif t in ('S', 'Z'):
            n = int(toks[i + 1]); i += 2
            for _ in range(n):
                o = toks[i]
                if o == 'q': i += 2
                elif o == 'b': i += 2 + int(toks[i + 1])
                elif o == 'e': i += 3
                else: return out
            out[step] = set(env)
        else:
            return out
        step += 1
    return out


def run_oracles(prog, meta, sessions):
    """sessions: list of P.Sess of one case (implementation side, with fresh references).  Returns findings."""
    out = []
    completed = set()       # tasks that currently have a cached output (XE seen, no XS since)
    had_abort = False
    latest_ops = {}
    prev_nodes = {}
    prev_map = None
    shadow = Shadow()
    td_exec_since_bu = False        # a top-down session executed something since the last bottom-up build (or the start)
    td_exec_before_last_bu = False  # ... as it was when the last bottom-up build started: the recorded finding O4 needs it
    tdx_since_bu = set()            # the tasks such top-down sessions executed
    tdx_before_last_bu = set()
    bu_exec_last = set()            # the tasks the last bottom-up build executed
    hist_stamps = {}                # (task, kind, target) -> stamp taken when the dependency was created, latest execution, across sessions
    task_out = {}
    wf = prog.kind == 'wf'
    for si, s in enumerate(sessions):
        ab = aborted(s)
        kinds = abort_kinds(s)
        is_bu = any(o.startswith('o b') for o in s.ops)
        q_only = all(o.startswith('o q') for o in s.ops) and s.ops
        counts = P.exec_counts(s.events)
        where = 'session at step %d' % s.step

        # ---- internal invariant errors are never acceptable (C19)
        for k in kinds:
            if k.startswith('bug') or k.startswith('other'):
                out.append(('C19', 'internal-error ' + k.split(':')[0], '%s: build failed with an internal error: %s' % (where, k)))

        # ---- C05 / C06: every read / write that was let through must be justified by the dependencies recorded so far
        for (pr, sig, m) in shadow.session(s.events, kinds):
            out.append((pr, sig, '%s: %s' % (where, m)))

        # ---- C20: well-formed programs never abort with a diagnosis
        for k in kinds:
            if k in ('cycle', 'hidden', 'overlap'):
                if wf:
                    prop = 'C19' if had_abort else 'C20'
                    out.append((prop, 'wf-abort ' + k, '%s: well-formed program aborted with %s (no violation exists in any state)' % (where, k)))
                elif prog.kind == 'roles' and s.fresh_all is not None:
                    if all('abort' not in x for x in s.fresh_all):
                        suffix, why = stale_owner_status(s, k, prev_nodes)
                        if genuine_hidden_read(s, k, shadow): continue
                        if is_bu:
                            # the recorded role-inversion findings are top-down patterns; bottom-up, the dependency order protects a
                            # task from the stale dependencies of the tasks it (still, as recorded) depends on: those run first.  What it
                            # cannot protect from is a stale dependency of a task the executing one is NOT related to -- O5a, bottom-up
                            suffix += '-bottom-up'
                            if k == 'overlap' and s.events and s.events[-1].split()[0] == 'wS':
                                opened = []
                                for e in s.events:
                                    f = e.split()
                                    if f[0] == 'XS': opened.append('T' + f[1])
                                    elif f[0] == 'XE' and opened: opened.pop()
                                cur_t = opened[-1] if opened else None
                                olds = [src for (kk, src) in prev_nodes.get('R' + s.events[-1].split()[1], {}).get('ins', []) if kk == 'W']
                                if cur_t and olds and not any(o in P.reach(prev_nodes, cur_t) for o in olds):
                                    suffix += '-unrelated-writers'
                                    why += ' (no recorded dependency leads from the executing task %s to the recorded writer %s: the build has no order to run the old writer first)' % (cur_t, ','.join(olds))
                        out.append(('C20', 'spurious-' + k + suffix, '%s: incremental build aborted with %s but from-scratch builds of all known tasks (two orders) in the current state succeed%s' % (where, k, why)))
                elif had_abort and s.fresh_all is not None and prog.kind in ('inject', 'panic'):
                    # C19: after an abort, a later build may abort again only for a violation that still exists
                    if all('abort' not in x for x in s.fresh_all):
                        suffix, why = stale_owner_status(s, k, prev_nodes)
                        if genuine_hidden_read(s, k, shadow): continue
                        out.append(('C19', 'spurious-' + k + '-after-abort' + suffix, '%s: after an earlier abort, the incremental build aborted with %s although from-scratch builds of all known tasks (two orders) in the current state succeed%s' % (where, k, why)))

        # ---- C06: re-execution of the same writer is never an overlap
        if 'overlap' in kinds and s.events:
            last = s.events[-1].split()
            if last[0] == 'wS':
                stk = []          # [task, resources written so far in this execution]
                wrote = set()     # (task, resource) written anywhere in this session so far
                for e in s.events[:-1]:
                    f = e.split()
                    if f[0] == 'XS': stk.append([int(f[1]), set()])
                    elif f[0] == 'XE' and stk: stk.pop()
                    elif f[0] == 'wS' and stk:
                        stk[-1][1].add(f[1]); wrote.add((stk[-1][0], f[1]))
                nd = prev_nodes.get('R' + last[1], {'ins': []})
                ws = [src for (k, src) in nd['ins'] if k == 'W']
                # (a second write of the same resource within one execution is the class boundary O8, not this)
                if stk and last[1] not in stk[-1][1] and ws and all(src == 'T%d' % stk[-1][0] for src in ws) \
                        and not any(r_ == last[1] for (t_, r_) in wrote):
                    stk = [x[0] for x in stk]
                    out.append(('C06', 'self-overlap', '%s: task %d re-executed and wrote R%s, whose only recorded writer is the task itself, and the build aborted with an overlapping write' % (where, stk[-1], last[1])))

        # ---- C01 / C19: incremental == from scratch
        if q_only and not ab and s.fresh_ops is not None and prog.kind in ('wf', 'multi'):
            fresh_ab = any('abort' in o for o in s.fresh_ops)
            prop = 'C19' if had_abort else ('C18' if prog.uses_failing and any('err' in e for e in s.events) else 'C01')
            if not fresh_ab:
                if [o for o in s.ops] != [o for o in s.fresh_ops]:
                    d = next((a, b) for a, b in zip(s.ops, s.fresh_ops) if a != b)
                    out.append((prop, 'stale-output', '%s: incremental %r but a from-scratch build of the same state gives %r' % (where, d[0], d[1])))
                else:
                    r = maps_equal_mod_writer_view(prog, s.map, s.fresh_map)
                    if r is not None:
                        out.append((prop, 'stale-resource', '%s: resource %d holds %r after the incremental build, %r after a from-scratch build' % (where, r, s.map.get(r), s.fresh_map.get(r))))

        # ---- C19 / C01: a build returns a value only if a from-scratch build of the same state returns too: when the from-scratch
        # reference is aborted by a task panic, the violation still exists and the incremental build must hit it as well.  Exact
        # checkers only (a coarse checker may legitimately keep reusing a task whose unseen input change would make it panic)
        if q_only and s.fresh_ops is not None and prog.exact_only and prog.kind in ('panic', 'wf') and not prog.uses_failing:
            for a_, b_ in zip(s.ops, s.fresh_ops):
                if 'abort' in b_:
                    if 'abort panic' in b_ and 'abort' not in a_:
                        out.append(('C19' if had_abort else 'C01', 'returned-although-from-scratch-aborts', '%s: incremental %r but a from-scratch build of the same state is aborted by a task panic: %r' % (where, a_, b_)))
                    break
                if 'abort' in a_: break

        # ---- C02 / C04: multiplicity
        for t, n in counts.items():
            if n > 1:
                out.append(('C04' if is_bu else 'C02', 'executed-twice', '%s: task %d executed %d times in one %s' % (where, t, n, 'bottom-up build session' if is_bu else 'session')))
        # repeat probe executes nothing
        if s.step in meta.get('repeat_steps', ()) and counts and not ab and not had_abort and not s.errs:
            out.append(('C02', 'repeat-executes', '%s: requiring again with nothing changed executed %r' % (where, sorted(counts))))
        # exact checkers: executed subset of from-scratch executed
        if prog.exact_only and q_only and not ab and s.fresh_exec is not None and wf and not had_abort:
            fresh_x = set(int(e.split()[1]) for e in s.fresh_exec if e.startswith('XS '))
            extra = set(counts) - fresh_x
            if extra:
                out.append(('C02', 'unnecessary-execution', '%s: executed %r which a from-scratch build of the current state does not execute' % (where, sorted(extra))))

        # ---- C02: a task that had an output is executed only if one of the dependencies it had recorded is inconsistent: for a
        # require, with the output the required task has AFTER it was made consistent (early cut-off); for a resource, with its content
        if q_only and not ab and not had_abort and wf and prev_nodes and prev_map is not None and prog.kind == 'wf':
            now = P.parse_dump(s.dump)
            # dependency checks that failed with an error in this session (they count as inconsistent): (resource, checker, stamp)
            erred = set()
            for e in s.events:
                f = e.split()
                if f[0] == 'CRE' and f[-1].startswith('err'): erred.add((f[1], f[2], f[3]))
            for t in counts:
                nd = prev_nodes.get('T%d' % t)
                if nd is None or nd['out'] == '-' or not nd['outs']: continue
                allok = True
                for (k, tgt, c, st) in nd['outs']:
                    if k == 'Q':
                        cur = now.get(tgt, {}).get('out', '-')
                        ok = cur != '-' and out_check(c, cur, st)
                    elif k in ('R', 'W'):
                        r = tgt[1:]
                        if not r.isdigit() or s.pre_map is None or s.pre_map.get(int(r)) != s.map.get(int(r)): ok = False     # content changed during the session: not judged here
                        elif (r, c, st) in erred: ok = False          # its own check failed: executing the task is justified
                        else: ok = res_check('0' if c == '4' else c, s.pre_map.get(int(r)), st)      # checker 4 is the exact checker while it does not fail
                    else:
                        ok = False
                    if ok is not True:
                        allok = False; break
                if allok:
                    out.append(('C02', 'executed-with-consistent-dependencies', '%s: task %d was executed although every dependency it had recorded is consistent: the tasks it required have, once made consistent, outputs its checkers accept, and the resources it read or wrote are unchanged' % (where, t)))

        # ---- C09 (converse): a task that was validated in this session and NOT executed was reused, so every resource dependency it had
        # recorded must be consistent by its own checker on its own stamp (a verdict borrowed from another dependency is not enough)
        if q_only and not ab and not had_abort and not s.errs and not prog.uses_failing and prev_nodes and s.pre_map is not None:
            seen = set()
            for e in s.events:
                f = e.split()
                if f[0] in ('RS', 'CTS'): seen.add(int(f[1]))
            for t in sorted(seen):
                if t in counts: continue
                nd = prev_nodes.get('T%d' % t)
                if nd is None or nd['out'] == '-': continue
                for (k, tgt, c, st) in nd['outs']:
                    if k not in ('R', 'W'): continue
                    r = tgt[1:]
                    if not r.isdigit() or s.pre_map.get(int(r)) != s.map.get(int(r)): continue      # content changed during the session: not judged here
                    if res_check(c, s.pre_map.get(int(r)), st) is False:
                        out.append(('C09', 'reused-with-inconsistent-dependency', '%s: task %d was validated and reused although its recorded %s dependency on %s (checker %s, stamp %s) is inconsistent with the current content %r by its own checker' % (where, t, 'read' if k == 'R' else 'write', tgt, c, st, s.pre_map.get(int(r)))))
                        break

        # ---- C03: probe after a complete bottom-up build
        if s.step in meta.get('probe_steps', {}) and ab and not had_abort and wf and not prog.uses_failing:
            out.append(('C03', 'probe-aborts-after-bottom-up', '%s: after the bottom-up build, requiring the known tasks aborted (%s) instead of returning their up-to-date outputs' % (where, ','.join(kinds))))
        if s.step in meta.get('probe_steps', {}) and not ab and not had_abort and wf:
            stale = sorted(t for t in counts if t in completed)
            mixed = meta.get('mode') == 'mixed' and td_exec_before_last_bu
            if mixed and stale and prev_nodes:
                # O4 is: a top-down build in the window re-executed a DEPENDENCY of a task it did not reach.  It explains a stale task
                # only if that task depends -- through recorded requires, or reads of resources such a task writes -- on a task that a
                # top-down build executed between the last two bottom-up builds
                def deps_of(t):
                    seen = set(); st = ['T%d' % t]
                    while st:
                        x = st.pop()
                        for (k, tgt, c_, st_) in prev_nodes.get(x, {}).get('outs', []):
                            nxt = [tgt] if k in ('Q', 'V') else ([src for (kk, src) in prev_nodes.get(tgt, {}).get('ins', []) if kk == 'W'] if k == 'R' else [])
                            for y in nxt:
                                if y not in seen: seen.add(y); st.append(y)
                    return seen
                # ... and the bottom-up build did not execute that task again (O4: 'the bottom-up build then schedules nothing' for it)
                mixed = all(any(('T%d' % x) in deps_of(t) for x in tdx_before_last_bu if x not in bu_exec_last) for t in stale)
            if prog.uses_failing:
                if stale and not s.errs and not mixed:
                    out.append(('C18', 'stale-after-erring-bottom-up', '%s: after a bottom-up build during which checkers failed, task(s) %r were left stale (reused although a dependency check failed or was skipped)' % (where, stale)))
            elif stale:
                out.append(('C03', 'stale-after-bottom-up' + ('-mixed' if mixed else ''), '%s: after the bottom-up build, requiring known task(s) %r executed them (they were not up to date)' % (where, stale)))
            elif s.fresh_ops is not None and all('abort' not in o for o in s.fresh_ops) and s.ops != s.fresh_ops:
                d = next((a, b) for a, b in zip(s.ops, s.fresh_ops) if a != b)
                out.append(('C03', 'stale-output-after-bottom-up', '%s: %r but from scratch %r' % (where, d[0], d[1])))

        # ---- C04: after a task has executed, the readers of what it wrote are checked -- never the task itself against its own fresh write
        if is_bu:
            cur_x = None; in_w = False
            for e in s.events:
                f = e.split()
                if f[0] == 'XE': cur_x = f[1]; in_w = False
                elif f[0] == 'SBRS' and cur_x is not None: in_w = True
                elif f[0] == 'SBRE': in_w = False
                elif f[0] in ('SBTE', 'XS', 'BE'): cur_x = None; in_w = False
                elif f[0] == 'CDS' and in_w and cur_x is not None and f[1] == cur_x:
                    out.append(('C04', 'own-write-checked', '%s: after task %s was executed, its own dependency on a resource it has just written was checked (it could reschedule itself): only tasks that READ the resource are affected by the write' % (where, cur_x)))
                    break

        # ---- C04: a task is scheduled only directly after a check of one of ITS OWN dependencies that did not say "consistent"
        # (the event before `ST t` is the end of a check of t: CDE t .. inc|err, or CQE t .. 1)
        if is_bu:
            evs = [e.split() for e in s.events]
            for j, f in enumerate(evs):
                if f[0] != 'ST': continue
                g = evs[j - 1] if j > 0 else ['?']
                okj = (g[0] == 'CDE' and g[1] == f[1] and g[-1] != 'ok') or (g[0] == 'CQE' and g[1] == f[1] and g[-1] == '1')
                if not okj:
                    out.append(('C04', 'scheduled-without-failed-check', '%s: task %s was scheduled although the event before is not a failed / inconsistent check of one of its own dependencies (%s)' % (where, f[1], ' '.join(g))))
                    break

        # ---- C09 (C04): after a task was executed in a bottom-up build, every task that holds a recorded require of it is checked with its
        # own checker against the new output.  Judged for requirers that held the dependency when the session began and have not
        # started executing in this session before that point (only their own re-execution removes the dependency)
        if is_bu and prev_nodes and not ab:
            started = set(); seg = None
            for e in s.events:
                f = e.split()
                if f[0] == 'XS': started.add('T' + f[1])
                elif f[0] == 'SBTS': seg = (f[1], set(), set(started))
                elif f[0] == 'CQS' and seg is not None: seg[1].add('T' + f[1])
                elif f[0] == 'SBTE' and seg is not None:
                    x, checked, st0 = seg; seg = None
                    holders = [src for (k, src) in prev_nodes.get('T' + x, {}).get('ins', []) if k == 'Q' and src not in st0]
                    missing = [h for h in holders if h not in checked]
                    if missing:
                        out.append(('C09', 'requirer-not-checked', '%s: task %s was executed in the bottom-up build, but the recorded require(s) of it by %r were not checked against its new output (checked: %r)' % (where, x, missing, sorted(checked))))
                        break

        # ---- C18: "the error is reported ... never swallowed", bottom-up: every recorded read / write dependency on a REPORTED resource is
        # validated; when its checker is the failing one (id 4) and the resource is in the failing set of the moment, that validation
        # errs and the error (100 + resource) must be among the session's dependency-check errors -- once per such dependency
        env = meta.get('env_at', {}).get(s.step)
        if is_bu and prev_nodes and env and not ab:
            evs_ = [e.split() for e in s.events]
            reported = []
            for e in evs_:
                if e[0] == 'BS': break
                if e[0] == 'SBRS' and e[1] not in reported: reported.append(e[1])
            for r in reported:
                if int(r) not in env: continue
                holders = [src for (k, src) in prev_nodes.get('R' + r, {}).get('ins', []) if k in ('R', 'W')
                           and any(tgt == 'R' + r and c_ == '4' for (kk, tgt, c_, st_) in prev_nodes.get(src, {}).get('outs', []))]
                got = sum(1 for x in s.errs if x == str(100 + int(r)))
                if got < len(holders):
                    out.append(('C18', 'erring-check-not-reported', '%s: resource R%s was reported to the bottom-up build while its checker fails; %d recorded dependencies on it use that checker (%r), but the session reports the error only %d time(s): %r' % (where, r, len(holders), holders, got, s.errs)))
                    break

        # ---- C09 (C03): scheduling for a reported resource checks every recorded read and write dependency on it with its own checker
        if is_bu and prev_nodes:
            i = 0
            evs = [e.split() for e in s.events]
            while i < len(evs) and evs[i][0] != 'BS':
                if evs[i][0] == 'SBRS':
                    r = evs[i][1]; j = i + 1; seen = []
                    while j < len(evs) and evs[j][0] != 'SBRE':
                        if evs[j][0] == 'CDS': seen.append('T' + evs[j][1])
                        j += 1
                    want = sorted(src for (k, src) in prev_nodes.get('R' + r, {}).get('ins', []) if k in ('R', 'W'))
                    if sorted(seen) != want:
                        out.append(('C09', 'dependency-not-checked', '%s: scheduling for the reported resource R%s checked the dependencies of %r, the store records dependencies of %r on it: each is decided by its own checker' % (where, r, sorted(seen), want)))
                    i = j
                i += 1

        # ---- C04: executions in a bottom-up build are scheduled or first-time
        if is_bu:
            sched = set()
            have = set(completed)
            depth = 0
            started = set()
            for e in s.events:
                f = e.split()
                if f[0] == 'ST': sched.add(int(f[1]))
                elif f[0] == 'XE':
                    have.add(int(f[1])); depth = max(0, depth - 1)
                elif f[0] == 'XS':
                    t = int(f[1])
                    if t not in sched and t in have:
                        out.append(('C04', 'unscheduled-execution', '%s: task %d executed in a bottom-up build without being scheduled or new' % (where, t)))
                    # ordering: a task popped from the queue (not nested in another execution) must not depend on another task
                    # that is still scheduled.  Dependencies are read from the store as the previous session left it, along
                    # paths through tasks that have not started in this build (their recorded edges cannot have changed).
                    if t in sched and not ab and prev_nodes:     # at any depth: require_scheduled_now also runs the deepest scheduled dependency first
                        seen = set(); st = ['T%d' % t]; hit = None
                        while st and hit is None:
                            x = st.pop()
                            for (_k, y, _c, _s) in prev_nodes.get(x, {}).get('outs', []):
                                if not str(y).startswith('T') or y in seen: continue
                                seen.add(y)
                                try: yi = int(str(y)[1:])
                                except ValueError: continue
                                if yi in sched and yi != t:
                                    hit = yi; break
                                if yi not in started:
                                    st.append(y)
                        if hit is not None:
                            out.append(('C04', 'dependency-order', '%s: scheduled task %d started executing before the scheduled task %d it (transitively) depends on' % (where, t, hit)))
                    sched.discard(t); started.add(t); depth += 1

        # ---- C07: no re-entry
        stack = []
        for e in s.events:
            f = e.split()
            if f[0] == 'XS':
                if int(f[1]) in stack:
                    out.append(('C07', 're-entry', '%s: task %s started executing while it was still executing' % (where, f[1])))
                stack.append(int(f[1]))
            elif f[0] == 'XE' and stack:
                stack.pop()

        # ---- dump based: C05 / C06 / C08 / C09
        nodes = P.parse_dump(s.dump)
        if '!MAPS' in nodes or '!BAD' in nodes:
            out.append(('C15', 'store-maps', '%s: store key maps inconsistent with the graph' % where))
        # every dependency in the store was recorded by an execution of its owner that the tracker saw (the shadow bookkeeping is
        # rebuilt from the event stream alone): an edge nobody recorded -- e.g. a require attributed to a task that is not executing --
        # makes later builds abort or skip a diagnosis
        if '!BAD' not in nodes:
            for name, nd in nodes.items():
                if not name.startswith('T') or not name[1:].isdigit(): continue
                t = int(name[1:])
                for (k, tgt, _c, _st) in nd['outs']:
                    bad = False
                    if k in ('Q', 'V') and tgt[1:].isdigit(): bad = int(tgt[1:]) not in shadow.req.get(t, [])
                    elif k == 'R': bad = tgt[1:] not in shadow.reads.get(t, set())
                    elif k == 'W': bad = tgt[1:] not in shadow.writes.get(t, set())
                    if bad:
                        out.append(('C19' if (had_abort or ab) else 'C08', 'phantom-dependency', '%s: the store holds a %s dependency %s -> %s that no execution of %s recorded (tracker stream)' % (where, {'Q': 'require', 'V': 'reserved require', 'R': 'read', 'W': 'write'}[k], name, tgt, name)))
        if not ab:
            for name, nd in nodes.items():
                if not name.startswith('R'): continue
                writers = [src for (k, src) in nd['ins'] if k == 'W']
                readers = [src for (k, src) in nd['ins'] if k == 'R']
                if len(writers) > 1:
                    out.append(('C06', 'two-writers', '%s: build returned with resource %s written by %r' % (where, name, writers)))
                for w in writers[:1]:
                    for rd in readers:
                        if rd != w and w not in P.reach(nodes, rd):
                            # the recorded O6 pattern arises WITHOUT the reader or the writer executing in the session (an
                            # intermediate task drops its require); if one of them executed here, the read or the write itself
                            # went undiagnosed in this very top-down session -- a different violation
                            ran = set(counts.keys())
                            def tid(nm):
                                try: return int(str(nm).lstrip('T'))
                                except ValueError: return None
                            if (not is_bu) and (tid(rd) in ran or tid(w) in ran):
                                out.append(('C05', 'hidden-dependency-undetected', '%s: build returned although %s reads %s written by %s without (transitively) requiring it, and the reader or the writer executed in this session' % (where, rd, name, w)))
                            else:
                                out.append(('C05', 'reader-without-path', '%s: build returned although %s reads %s written by %s without (transitively) requiring it' % (where, rd, name, w)))
        # harness-side record: who wrote / read what in its latest completed execution (across the history)
        for e in s.execlog:
            f = e.split()
            if f[0] == 'XS':
                latest_ops.pop(int(f[1]), None)
        for t, ops, ok in exec_stack_ops(s.execlog):
            if ok: latest_ops[t] = ops
        if not ab and '!BAD' not in nodes:
            wr = {}
            for t, ops in latest_ops.items():
                for (k, tgt, c) in ops:
                    if k == 'W': wr.setdefault(tgt, set()).add(t)
            for tgt, ws in wr.items():
                rec = [src for (k, src) in nodes.get(tgt, {}).get('ins', []) if k == 'W']
                if len(ws) > 1:
                    out.append(('C06', 'two-writers-log', '%s: build returned although tasks %r all wrote %s in their latest executions' % (where, sorted(ws), tgt)))
                for w_ in ws:
                    if 'T%d' % w_ not in rec:
                        out.append(('C05', 'writer-not-recorded', '%s: task %d wrote %s in its latest execution but the store records writer(s) %r, so readers are not checked against it' % (where, w_, tgt, rec)))

        # ---- C07: a build that returns never leaves tasks whose latest completed executions require each other in a cycle (each of
        # them returned a value computed from the other's)
        if not ab:
            req = {}
            for t, ops in latest_ops.items():
                req[t] = set(int(str(tgt).lstrip('T')) for (k, tgt, c) in ops if k == 'Q' and str(tgt).lstrip('T').isdigit())
            color = {}
            cyc = None
            def visit(u, path):
                nonlocal cyc
                color[u] = 1
                for v in sorted(req.get(u, ())):
                    if cyc: return
                    if color.get(v) == 1: cyc = path[path.index(v):] + [v] if v in path else [u, v]; return
                    if v not in color and v in req: visit(v, path + [v])
                color[u] = 2
            for t0 in sorted(req):
                if t0 not in color and not cyc: visit(t0, [t0])
            if cyc:
                out.append(('C07', 'cyclic-requirements-not-diagnosed', '%s: build returned although the latest completed executions of tasks %r require each other in a cycle' % (where, cyc)))

        # a read that was rejected (hidden dependency) records nothing: the aborted reader must not be left with a read
        # dependency on that resource (it would make the legitimate writer abort later)
        if ab and kinds and kinds[-1] == 'hidden' and s.events and s.events[-1].split()[0] in ('rS', 'rE'):
            r = s.events[-1].split()[1]
            stk = []; had = set()
            for e in (s.events[:-1] if s.events[-1].startswith('rS ') else s.events[:-2]):
                f = e.split()
                if f[0] == 'BS': stk = []
                elif f[0] == 'XS': stk.append(f[1]); had.discard((f[1], r))
                elif f[0] == 'XE' and stk: stk.pop()
                elif f[0] == 'rE' and stk and f[1] == r: had.add((stk[-1], r))
            if stk and (stk[-1], r) not in had:
                nd = nodes.get('T' + stk[-1])
                if nd is not None and any(k == 'R' and tgt == 'R' + r for (k, tgt, c, st) in nd['outs']):
                    for pr in ('C05', 'C19'):
                        out.append((pr, 'rejected-read-recorded', '%s: the read of R%s by task %s was rejected (hidden dependency), yet the store is left with a read dependency of that task on R%s' % (where, r, stk[-1], r)))

        # write-side abort happens before the resource is modified (Context::write only; written_to declares a write
        # that already happened)
        tries = [e for e in s.execlog if e.startswith('try ')]
        if ab and kinds and kinds[-1] in ('hidden', 'overlap') and s.events and s.events[-1].startswith('wS ') and s.pre_map is not None \
                and tries and tries[-1].startswith('try W '):
            r = int(s.events[-1].split()[1])
            touched = any(e.startswith('wE %d ' % r) for e in s.events) or any(e == 'try N R%d' % r for e in tries)
            if not touched and s.map.get(r) != s.pre_map.get(r):
                out.append(('C05' if kinds[-1] == 'hidden' else 'C06', 'modified-before-abort', '%s: resource %d was modified (%r -> %r) although the write was rejected with %s' % (where, r, s.pre_map.get(r), s.map.get(r), kinds[-1])))

        # C08/C09: recorded dependencies of tasks whose latest execution completed in this session
        execs = exec_stack_ops(s.execlog)
        latest = {}
        for t, ops, ok in execs:
            latest[t] = (ops, ok)
        # stamps seen by the latest execution, from the tracker stream
        ev_stamps = event_stamps(s.events)
        for t, (ops, ok) in latest.items():
            if not ok: continue
            nd = nodes.get('T%d' % t)
            if nd is None:
                out.append(('C08', 'no-node', '%s: executed task %d has no node in the store' % (where, t)))
                continue
            exp = []
            seen = {}
            distinct_checkers = True
            requeried = set()
            for (k, tgt, c) in ops:
                if tgt in seen:
                    pk, pc, pos = seen[tgt]
                    if k == 'Q' and pk == 'Q':
                        # the same task required again: the dependency keeps its place, and carries the checker (and stamp) of
                        # the LATEST require -- the one whose output was returned to the requirer last
                        if pc != c: requeried.add(tgt)
                        exp[pos] = (k, tgt, c); seen[tgt] = (k, c, pos)
                    elif (pk, pc) != (k, c): distinct_checkers = False
                    continue
                seen[tgt] = (k, c, len(exp))
                exp.append((k, tgt, c))
            if not distinct_checkers:
                continue   # read/write dependencies on one resource with different kinds/checkers: recorded finding territory
            got = [(k, tgt, c) for (k, tgt, c, st) in nd['outs']]
            if got != exp:
                bad = [g for g, e_ in zip(got, exp) if g != e_]
                if len(got) == len(exp) and bad and all(g[1] in requeried for g in bad):
                    out.append(('C09', 'require-record-not-latest', '%s: task %d required %s more than once with different checkers; the store records %r, the latest require used %r' % (where, t, bad[0][1], got, exp)))
                else:
                    out.append(('C08', 'recorded-deps-differ', '%s: task %d performed %r in its latest execution but the store records %r' % (where, t, exp, got)))
            else:
                for (k, tgt, c, st) in nd['outs']:
                    es = ev_stamps.get((t, k, tgt))
                    if es is not None and es != st:
                        out.append(('C09', 'stamp-differs', '%s: task %d dependency %s%s recorded stamp %s but the stamp taken at creation was %s' % (where, t, k, tgt, st, es)))

        # ---- C09: a recorded stamp is the one taken when the dependency was created, and stays that until the task executes again
        # (across sessions: nothing re-stamps a dependency when it is merely checked)
        started = set(int(e.split()[1]) for e in s.events if e.startswith('XS '))
        for k_ in [k_ for k_ in hist_stamps if k_[0] in started]: del hist_stamps[k_]
        for k_, v_ in ev_stamps.items():
            if k_[0] in started: hist_stamps[k_] = v_
        if not ab and '!BAD' not in nodes:
            done_now = set(completed)
            for e in s.events:
                f = e.split()
                if f[0] == 'XS': done_now.discard(int(f[1]))
                elif f[0] == 'XE': done_now.add(int(f[1]))
            for (t_, k_, tgt_), st_ in sorted(hist_stamps.items()):
                if t_ in started or t_ not in done_now: continue          # executed in this session: judged above
                nd = nodes.get('T%d' % t_)
                if nd is None: continue
                rec_ = [st2 for (k2, tgt2, c2, st2) in nd['outs'] if k2 == k_ and tgt2 == tgt_]
                if len(rec_) == 1 and rec_[0] != st_:
                    out.append(('C09', 'stamp-drifted', '%s: the dependency %s%s of task %d carries stamp %s, but the stamp taken when the task created it (in an earlier session) was %s and the task has not executed since' % (where, k_, tgt_, t_, rec_[0], st_)))
                    break

        # ---- C09: the verdict of a task-dependency check is the output checker's verdict on the stored stamp
        for e in s.events:
            f = e.split()
            if f[0] == 'XE':
                task_out[int(f[1])] = int(f[2])
            elif f[0] == 'CTE' and int(f[1]) in task_out:
                c, st, inc = int(f[2]), int(f[3]), f[4] == '1'
                o = task_out[int(f[1])]
                exp = (o != st) if c == 0 else ((o % 2) != st if c == 1 else (abs(o % 1000 - st % 1000) > (400 if c == 3 else 100) if c in (3, 4) else False))
                if exp != inc:
                    out.append(('C09', 'check-task-verdict', '%s: require dependency on task %s (checker %d, stamp %d) was reported %s although its output is %d' % (where, f[1], c, st, 'inconsistent' if inc else 'consistent', o)))

        # ---- C07: no task starts executing while an execution of it is open (C07_no_task_entered_while_executing_any_session)
        open_ = []
        for e in s.events:
            f = e.split()
            if f[0] == 'XS':
                if f[1] in open_:
                    out.append(('C07', 'reentered-while-executing', '%s: task %s started executing while an execution of it was still in progress (open: %s)' % (where, f[1], ' '.join(open_))))
                    break
                open_.append(f[1])
            elif f[0] == 'XE' and f[1] in open_:
                open_.remove(f[1])

        # ---- C17: every read / write that COMPLETED (returned Ok to the task: the task-side log has an 'op' line) emitted its end
        # event (a start without end is legitimate only when stamping failed and the error was returned to the task)
        from collections import Counter
        ops_ok = Counter((e.split()[1], e.split()[2][1:]) for e in s.execlog if e.startswith('op R ') or e.startswith('op W '))
        ends = Counter(('R' if e.startswith('rE ') else 'W', e.split()[1]) for e in s.events if e.startswith('rE ') or e.startswith('wE '))
        for key, n in ops_ok.items():
            if ends.get(key, 0) < n:
                out.append(('C17', 'completed-without-end', '%s: %d %s of R%s completed (returned Ok to the task) but the tracker received only %d end event(s) for them' % (where, n, 'read(s)' if key[0] == 'R' else 'write(s)', key[1], ends.get(key, 0))))
                break

        # ---- C17
        msg = P.nesting_check(s.events, ab)
        if msg:
            out.append(('C17', 'nesting', '%s: %s' % (where, msg)))
        if s.v2 is not None:
            out.append(('C17', 'composite', '%s: composite tracker delivered different streams to its children' % where))
        ex_ev = [e for e in s.events if e.startswith(('XS ', 'XE '))]
        ex_log = [e for e in s.execlog if e.startswith(('XS ', 'XE '))]
        if ab:
            ex_log = [e for e in ex_log]
            # on abort the innermost executions never finished: compare starts only
            if [e for e in ex_ev if e.startswith('XS')] != [e for e in ex_log if e.startswith('XS')]:
                out.append(('C17', 'exec-events', '%s: execute events %r differ from the executions that really ran %r' % (where, ex_ev, ex_log)))
        elif ex_ev != ex_log:
            out.append(('C17', 'exec-events', '%s: execute events %r differ from the executions that really ran %r' % (where, ex_ev, ex_log)))
        if s.tracker is not None:
            exp = expected_event_tracker(s.events)
            if exp != s.tracker:
                out.append(('C17', 'event-tracker', '%s: EventTracker stored %r, the stream it was given implies %r' % (where, s.tracker[:200], exp[:200])))
        # require end carries the value returned to the caller
        tops = top_level_require_ends(s.events)
        rets = [o for o in s.ops if o.startswith('o q') and 'abort' not in o]
        for o, re_ in zip(rets, tops):
            t, val = o.split()[2], o.split()[4]
            if re_ != (t, val):
                out.append(('C17', 'require-end-value', '%s: require of %s returned %s but its require-end event says %r' % (where, t, val, re_)))

        # ---- C18: every checker error is reported, in order
        ev_errs = [e.split()[-1][3:] for e in s.events if e.split()[0] in ('CRE', 'CDE') and e.split()[-1].startswith('err')]
        if ev_errs != s.errs:
            out.append(('C18', 'errors-not-reported', '%s: checkers returned errors %r during validation, the session reports %r' % (where, ev_errs, s.errs)))

        prev_nodes = nodes
        prev_map = dict(s.map)
        if is_bu:
            td_exec_before_last_bu = td_exec_since_bu; td_exec_since_bu = False
            tdx_before_last_bu = tdx_since_bu; tdx_since_bu = set()
            bu_exec_last = set(counts)
        elif counts and s.step not in meta.get('probe_steps', {}):
            td_exec_since_bu = True
            tdx_since_bu |= set(counts)
        for e in s.events:
            f = e.split()
            if f[0] == 'XS': completed.discard(int(f[1]))
            elif f[0] == 'XE': completed.add(int(f[1]))
        if ab:
            had_abort = True
    return out


def event_stamps(events):
    """(task, kind, target) -> stamp seen when the dependency was created in the LAST execution of task.
    reads/writes keep the first stamp per target (the store keeps the first edge), requires the last."""
    res = {}
    stack = []
    for e in events:
        f = e.split()
        if f[0] == 'XS':
            t = int(f[1]); stack.append(t)
            for k in [k for k in res if k[0] == t]:
                del res[k]
        elif f[0] == 'XE':
            if stack: stack.pop()
        elif f[0] == 'rE' and stack:
            res.setdefault((stack[-1], 'R', 'R' + f[1]), f[3])
        elif f[0] == 'wE' and stack:
            res.setdefault((stack[-1], 'W', 'R' + f[1]), f[3])
        elif f[0] == 'RE' and stack:
            res[(stack[-1], 'Q', 'T' + f[1])] = f[3]
    return res


def expected_event_tracker(events):
    last_bs = None
    for i, e in enumerate(events):
        if e == 'BS': last_bs = i
    if last_bs is None:
        sub = [e for e in events if e.split()[0] in RECORDED]
    else:
        sub = [e for e in events[last_bs:] if e.split()[0] in RECORDED]
    out = []
    for i, e in enumerate(sub):
        out.append(e if e in ('BS', 'BE') else '%s@%d' % (e, i))
    return ';'.join(out)


def top_level_require_ends(events):
    depth = 0
    res = []
    for e in events:
        f = e.split()
        if f[0] == 'RS':
            depth += 1
        elif f[0] == 'RE':
            depth -= 1
            if depth == 0:
                res.append((f[1], f[4]))
        elif f[0] == 'BS':
            depth = 0
    return res


def genuine_hidden_read(s, kind, shadow):
    """a hidden-dependency abort on the READ side is genuine -- whatever order a from-scratch reference happened to use -- when the
    resource is written by a task that was executed or validated in THIS session (so its recorded write is what it does in the
    current state) and that the reader has not (transitively) required so far in its current execution: the reader reads before it
    requires (or without requiring)"""
    if kind != 'hidden' or not s.events: return False
    last = s.events[-1].split()
    if last[0] != 'rS': return False
    stack = []; ran = set()          # ran: executed or validated in this session, so what the bookkeeping holds about them is current
    for e in s.events:
        f = e.split()
        if f[0] == 'BS': stack = []
        elif f[0] == 'XS': stack.append(int(f[1])); ran.add(int(f[1]))
        elif f[0] == 'XE' and stack: stack.pop()
        elif f[0] in ('RS', 'CTS'): ran.add(int(f[1]))
    if not stack: return False
    t, r = stack[-1], last[1]
    return any(r in rs and x != t and x in ran and not shadow.reach(t, x) for x, rs in shadow.writes.items())


def stale_owner_status(s, kind, prev_nodes):
    """for a spurious abort: was the owner of the recorded (stale) dependency that triggered it already visited (validated or
    being validated) in this session?  The recorded findings O5a-c are the cases where it was NOT."""
    visited = set()
    open_req = []
    for e in s.events:
        f = e.split()
        if f[0] in ('RS', 'CTS', 'XS'): visited.add('T' + f[1])
        if f[0] == 'RS': open_req.append('T' + f[1])
        elif f[0] == 'RE' and open_req: open_req.pop()
        elif f[0] == 'BS': open_req = []
    last = s.events[-1].split() if s.events else ['?']
    if kind == 'cycle' and last[0] == 'RS':
        tgt = 'T' + last[1]
        if tgt in open_req[:-1]:
            return '-target-being-validated', ' (the required task %s is itself being validated in this build)' % tgt
        if tgt in [v for v in visited if v != tgt] and False:
            return '', ''
        # target reached for the first time in this session?
        first = sum(1 for e in s.events if e.split()[0] in ('RS', 'CTS') and 'T' + e.split()[1] == tgt) == 1
        return ('', '') if first else ('-owner-visited', ' (the owner of the stale edge was already validated in this session)')
    if kind in ('overlap', 'hidden') and last[0] in ('wS', 'rS'):
        r = 'R' + last[1]
        nd = prev_nodes.get(r, {'ins': []})
        # what can be stale: for an overlap and for a hidden dependency found on the READ side a recorded writer, for one found on the WRITE side a recorded reader
        owners = [src for (k, src) in nd['ins'] if k in (('W',) if (kind == 'overlap' or last[0] == 'rS') else ('R',))]
        vis = [o for o in owners if o in visited]
        if not owners:
            # the recorded role-inversion findings need a dependency recorded in an EARLIER state; without one nothing stale explains the abort
            return '-no-recorded-dependency', ' (no task held a recorded dependency on %s when this session began: nothing stale explains the abort)' % r
        if owners and len(vis) == len(owners):
            return '-owner-visited', ' (every task holding a recorded dependency on %s was already validated in this session)' % r
        return '', ''
    return '', ''

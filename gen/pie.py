"""Pie layer: generator of DSL task programs and histories, observation parser, implementation-level oracles."""
import random, re

MOD = 1000003

# ----------------------------------------------------------------------------- program generator

class Prog:
    """tasks: dict id -> code (nested tuples); meta for the oracles"""
    def __init__(self):
        self.tasks = {}
        self.sources = []
        self.generated = {}     # resource -> (generator task, writer checker)
        self.exact_only = True
        self.uses_failing = False
        self.kind = 'wf'
        self.expect = {}        # session step index -> expectation dict (injection streams)

# code tuples:
# ('D',) ('T',expr) ('P',) ('R',r,c,k) ('Q',t,c,k) ('W',r,c,expr,k) ('N',r,c,expr,k) ('X',r,c,k) ('I',cond,th,el)

def code_tokens(c):
    k = c[0]
    if k == 'D': return ['D']
    if k == 'T': return ['T'] + list(map(str, c[1]))
    if k == 'P': return ['P']
    if k in ('R', 'Q', 'X'): return [k, str(c[1]), str(c[2])] + code_tokens(c[3])
    if k in ('W', 'N'): return [k, str(c[1]), str(c[2])] + list(map(str, c[3])) + code_tokens(c[4])
    if k == 'I': return ['I'] + list(map(str, c[1])) + code_tokens(c[2]) + code_tokens(c[3])
    raise ValueError(c)


def coarser_ok(wc):
    """reader checkers whose view is determined by the writer checker's stamp (W6)"""
    return {0: [0, 0, 0, 1, 2, 3, 4], 4: [0, 0, 1, 2, 3, 4], 1: [1, 1, 2, 3], 2: [2, 3], 3: [3]}[wc]


def gen_wf_program(rng, ntasks, exact_only=False, allow_fail=False, coarse_writers=False, norepeat=False):
    """Well-formed by construction (class W1-W6):
    requires only go from lower to higher task ids; each generated resource has one generator which writes it at most
    once per execution and never reads it; a reader requires the generator (same path, before the read);
    one checker per target per execution; writer checker at least as fine as the readers' views."""
    p = Prog()
    p.exact_only = exact_only
    p.norepeat = norepeat
    ns = rng.randint(2, 4)
    p.sources = list(range(ns))
    ng = rng.randint(1, 3)
    # generators are the higher numbered tasks so that readers (lower ids) can require them
    gens = {}
    for g in range(ng):
        gt = rng.randint(max(1, ntasks // 2), ntasks - 1)
        wc = 0
        if not exact_only:
            if allow_fail and rng.random() < 0.25:
                wc = 4
            elif coarse_writers and rng.random() < 0.5:
                wc = rng.choice([1, 2])
        gens[10 + g] = (gt, wc)
    p.generated = gens
    for t in range(ntasks):
        p.tasks[t] = gen_body(rng, p, t, ntasks, exact_only, allow_fail, depth=0, used={}, wrote=set(), budget=[rng.randint(2, 6)])
    for g in sorted(getattr(p, 'relays_used', ())):
        # relay: requires the generator and passes its output on; half of them read a source first, so that the relay can be executing (out of
        # date itself) when it requires a generator that is out of date too
        body = ('Q', p.generated[g][0], 0, ('T', ('a',)))
        p.tasks[relay_of(g)] = ('R', rng.choice(p.sources), 0, body) if rng.random() < 0.5 else body
    if allow_fail:
        p.uses_failing = True
    return p


def relay_of(g):
    return 80 + (g - 10)


def pick_rc(rng, exact_only, allow_fail):
    if exact_only:
        # 'fail_exact': exact checkers, some of which can be made to fail at validation time (checker 4 stamps and compares exactly)
        return 4 if (allow_fail and rng.random() < 0.3) else 0
    r = rng.random()
    if allow_fail and r < 0.3:
        return 4
    if r < 0.55: return 0
    if r < 0.75: return 1
    if r < 0.9: return 2
    return 3


NEAR = [False]      # set by the 'near' streams: requires may use the tolerance checker 3

def pick_oc(rng, exact_only):
    if exact_only:
        return 0
    r = rng.random()
    if NEAR[0] and r < 0.45: return 3
    return 0 if r < 0.6 else (1 if r < 0.8 else 2)


def gen_expr(rng):
    r = rng.random()
    if r < 0.5: return ('a',)
    if r < 0.8: return ('p', rng.randint(1, 50))
    return ('k', rng.randint(0, 9))


def gen_cond(rng):
    r = rng.random()
    if r < 0.45: return ('l', rng.randint(0, 3))      # last view == z  (views of small source values are small)
    if r < 0.9: return ('m', rng.choice([2, 3]), rng.randint(0, 1))
    return ('e', rng.randint(0, 5))


def gen_body(rng, p, t, ntasks, exact_only, allow_fail, depth, used, wrote, budget):
    """used: target -> checker already used on this path ('t3' / 'r5'); wrote: generated resources written on this path"""
    if budget[0] <= 0:
        # make sure a generator writes before finishing (most of the time)
        mine = [g for g, (gt, wc) in p.generated.items() if gt == t and g not in wrote]
        if mine and rng.random() < 0.8:
            g = mine[0]
            return ('W' if rng.random() < 0.8 else 'N', g, p.generated[g][1], gen_expr(rng), ('D',) if rng.random() < 0.7 else ('T', gen_expr(rng)))
        return ('D',) if rng.random() < 0.6 else ('T', gen_expr(rng))
    budget[0] -= 1
    r = rng.random()
    mine = [g for g, (gt, wc) in p.generated.items() if gt == t and g not in wrote]
    norep = getattr(p, 'norepeat', False)
    if r < 0.30:
        s = rng.choice(p.sources)
        if norep and ('r%d' % s) in used:
            return gen_body(rng, p, t, ntasks, exact_only, allow_fail, depth, used, wrote, budget)
        c = used.get('r%d' % s)
        if c is None:
            c = pick_rc(rng, exact_only, allow_fail)
        u = dict(used); u['r%d' % s] = c
        return ('R', s, c, gen_body(rng, p, t, ntasks, exact_only, allow_fail, depth, u, wrote, budget))
    if r < 0.52 and t < ntasks - 1:
        q = rng.randint(t + 1, ntasks - 1)
        if norep and ('t%d' % q) in used:
            return gen_body(rng, p, t, ntasks, exact_only, allow_fail, depth, used, wrote, budget)
        c = used.get('t%d' % q)
        if c is None:
            c = pick_oc(rng, exact_only)
        u = dict(used); u['t%d' % q] = c
        return ('Q', q, c, gen_body(rng, p, t, ntasks, exact_only, allow_fail, depth, u, wrote, budget))
    if r < 0.66:
        # read a generated resource whose generator has a higher id: require the generator first (same path)
        cands = [g for g, (gt, wc) in p.generated.items() if gt > t]
        if cands:
            g = rng.choice(cands)
            gt, wc = p.generated[g]
            if norep and (('r%d' % g) in used or ('t%d' % gt) in used):
                return gen_body(rng, p, t, ntasks, exact_only, allow_fail, depth, used, wrote, budget)
            rc = used.get('r%d' % g)
            if rc is None:
                rc = rng.choice(coarser_ok(wc)) if not exact_only else 0
                if rc == 4 and not allow_fail:
                    rc = 0
            u = dict(used); u['r%d' % g] = rc
            inner = ('R', g, rc, gen_body(rng, p, t, ntasks, exact_only, allow_fail, depth, u, wrote, budget))
            if ('t%d' % gt) in used:
                return inner if rng.random() < 0.7 else ('Q', gt, used['t%d' % gt], inner)
            if not norep and rng.random() < 0.25:
                # the generator is reached TRANSITIVELY: the reader requires a relay task that requires the generator (the hidden-dependency
                # rule is about transitive requires; outside the class of the C01 theorem, inside the property's)
                rl = relay_of(g)
                p.relays_used = getattr(p, 'relays_used', set()) | {g}
                u['t%d' % rl] = 0
                inner = ('R', g, rc, gen_body(rng, p, t, ntasks, exact_only, allow_fail, depth, u, wrote, budget))
                return ('Q', rl, 0, inner)
            oc = pick_oc(rng, exact_only)
            u['t%d' % gt] = oc
            inner = ('R', g, rc, gen_body(rng, p, t, ntasks, exact_only, allow_fail, depth, u, wrote, budget))
            return ('Q', gt, oc, inner)
    if r < 0.78 and mine:
        g = mine[0]
        w2 = set(wrote); w2.add(g)
        kind = rng.random()
        op = 'W' if kind < 0.7 else ('N' if kind < 0.9 else 'X')
        k = gen_body(rng, p, t, ntasks, exact_only, allow_fail, depth, used, w2, budget)
        if op == 'X':
            return ('X', g, p.generated[g][1], k)
        return (op, g, p.generated[g][1], gen_expr(rng), k)
    if r < 0.92 and depth < 2:
        b1 = [budget[0]]; b2 = [budget[0]]
        th = gen_body(rng, p, t, ntasks, exact_only, allow_fail, depth + 1, used, wrote, b1)
        el = gen_body(rng, p, t, ntasks, exact_only, allow_fail, depth + 1, used, wrote, b2)
        budget[0] = 0
        return ('I', gen_cond(rng), th, el)
    return gen_body(rng, p, t, ntasks, exact_only, allow_fail, depth, used, wrote, budget)

# ----------------------------------------------------------------------------- histories

def gen_history(rng, p, nsteps, mode='td', probes=True):
    """mode: 'td' top-down sessions only; 'bu' bottom-up builds with completely reported change sets (+ probe sessions);
    'mixed' both interleaved (home of the recorded finding O4).  Returns list of steps (token lists) + metadata."""
    steps = []
    meta = {'probe': {}, 'bu': set(), 'repeat': set()}
    ntasks = len([t for t in p.tasks if t < 80])       # relay tasks (ids >= 80) are never required at top level, except by the probes
    res_all = p.sources + list(p.generated.keys())
    pending = set()          # edited since the last bottom-up build
    known = set()            # tasks required at top level or possibly reached (over-approximation not needed)
    # initial contents
    for s in p.sources:
        if rng.random() < 0.8:
            steps.append(['E', str(s), str(rng.randint(0, 3))]); pending.add(s)
    first = True
    last_session_reqs = None
    for i in range(nsteps):
        # edits
        if not first:
            for _ in range(rng.randint(0, 3)):
                r = rng.choice(res_all) if rng.random() < 0.25 else rng.choice(p.sources)
                if rng.random() < 0.15:
                    steps.append(['D', str(r)])
                else:
                    steps.append(['E', str(r), str(rng.randint(0, 5))])
                pending.add(r)
                last_session_reqs = None
            if p.uses_failing and rng.random() < 0.4:
                fs = [r for r in res_all if rng.random() < 0.3]
                steps.append(['F', str(len(fs))] + [str(r) for r in fs])
                last_session_reqs = None
        kind = mode
        if mode == 'mixed':
            kind = 'bu' if (rng.random() < 0.5 and not first) else 'td'
        if kind == 'bu' and first:
            kind = 'td'
        if kind == 'td':
            k = rng.randint(1, 3)
            reqs = [rng.randint(0, ntasks - 1) for _ in range(k)]
            if rng.random() < 0.5:
                reqs[0] = rng.randint(0, max(0, ntasks // 3))      # roots tend to be low-numbered
            steps.append(['S', str(len(reqs))] + sum((['q', str(t)] for t in reqs), []))
            meta_idx = len(steps) - 1
            if probes and rng.random() < 0.3:
                # repeat probe: same requires again, nothing changed -> must execute nothing
                steps.append(['S', str(len(reqs))] + sum((['q', str(t)] for t in reqs), []))
                meta['repeat'].add(len(steps) - 1)
        else:
            ch = sorted(pending)
            pending = set()
            sess = ['S', '1', 'b', str(len(ch))] + [str(r) for r in ch]
            steps.append(sess)
            meta['bu'].add(len(steps) - 1)
            bu_idx = len(steps) - 1
            if probes and p.uses_failing and rng.random() < 0.6:
                steps.append(['F', '0'])     # checkers stop failing before the probe: everything must be up to date
            if probes:
                # probe: require every task; must execute nothing for tasks that were known, and equal a fresh build
                steps.append(['S', str(len(p.tasks))] + sum((['q', str(t)] for t in sorted(p.tasks)), []))
                meta['probe'][len(steps) - 1] = bu_idx
        first = False
    return steps, meta


def case_tokens(p, steps):
    toks = ['T', str(len(p.tasks))]
    for t in sorted(p.tasks):
        toks += [str(t)] + code_tokens(p.tasks[t])
    toks.append('H')
    for s in steps:
        toks += s
    return toks

# ----------------------------------------------------------------------------- observation parsing

class Sess:
    def __init__(self, step):
        self.step = step
        self.ops = []        # 'o ...' lines
        self.errs = []
        self.events = []
        self.v2 = None
        self.tracker = None
        self.execlog = []
        self.checklog = []
        self.dump = []
        self.map = {}
        self.fresh_ops = None
        self.fresh_exec = None
        self.fresh_map = None
        self.pre_map = None
        self.fresh_all = None


def parse_obs(lines):
    cases = []
    cur = None
    s = None
    for l in lines:
        if l.startswith('C '):
            cur = []; cases.append(cur); s = None
        elif l.startswith('S '):
            s = Sess(int(l[2:])); cur.append(s)
        elif s is None:
            continue
        elif l.startswith('o '):
            s.ops.append(l)
        elif l.startswith('e'):
            s.errs = l[2:].split()
        elif l.startswith('v2 '):
            s.v2 = l[3:]
        elif l.startswith('v'):
            s.events = [e for e in l[2:].split(';') if e]
        elif l.startswith('t '):
            s.tracker = l[2:]
        elif l.startswith('t'):
            s.tracker = ''
        elif l.startswith('x'):
            s.execlog = [e for e in l[2:].split(';') if e]
        elif l.startswith('k'):
            s.checklog = [e for e in l[2:].split(';') if e]
        elif l.startswith('d '):
            s.dump.append(l)
        elif l.startswith('m'):
            s.map = dict((int(a), int(b)) for a, b in (kv.split('=') for kv in l[2:].split()))
        elif l.startswith('fo '):
            if s.fresh_ops is None: s.fresh_ops = []
            s.fresh_ops.append(l[1:])
        elif l.startswith('fx'):
            s.fresh_exec = [e for e in l[3:].split(';') if e]
        elif l.startswith('fm'):
            s.fresh_map = dict((int(a), int(b)) for a, b in (kv.split('=') for kv in l[3:].split()))
        elif l.startswith('fk '):
            if s.fresh_all is None: s.fresh_all = []
            s.fresh_all += l.split()[2:]
        elif l.startswith('pm'):
            s.pre_map = dict((int(a), int(b)) for a, b in (kv.split('=') for kv in l[3:].split()))
    return cases


def projection(sess_lines_case, keep):
    """filter the comparable lines of one case; keep = set of line-kind letters among o,e,v,d,m"""
    return [l for l in sess_lines_case if l[:1] in keep or l.startswith('S ')]


def split_cases_raw(lines):
    cases = []
    cur = None
    for l in lines:
        if l.startswith('C '):
            cur = []; cases.append(cur)
        elif cur is not None and l and not l.startswith(('t', 'x', 'k', 'v2', 'fo', 'fx', 'fm', 'pm', 'fk')):
            cur.append(l)
    return cases

# ----------------------------------------------------------------------------- dump helpers

def parse_dump(dump):
    """-> nodes: name -> dict(rank, out, outs=[(kind,target,c,st)], ins=[(kind,src)])"""
    nodes = {}
    for l in dump:
        if l == 'd !MAPS':
            nodes['!MAPS'] = {}
            continue
        m = re.match(r'd (\S+) (\S+) (\S+) O:(\S*) I:(\S*)$', l)
        if not m:
            nodes['!BAD'] = {'line': l}
            continue
        name, rank, out, os_, is_ = m.groups()
        outs = []
        for e in os_.split(','):
            if not e: continue
            k = e[0]
            tgt, c, st = e[1:].split('/')
            outs.append((k, tgt, c, st))
        ins = []
        for e in is_.split(','):
            if not e: continue
            ins.append((e[0], e[1:]))
        nodes[name] = {'rank': int(rank), 'out': out, 'outs': outs, 'ins': ins}
    return nodes


def reach(nodes, a):
    seen = set()
    st = [t for (_, t, _, _) in nodes.get(a, {}).get('outs', [])]
    while st:
        x = st.pop()
        if x in seen: continue
        seen.add(x)
        st.extend(t for (_, t, _, _) in nodes.get(x, {}).get('outs', []))
    return seen

# ----------------------------------------------------------------------------- event stream helpers

START_END = {'BS': 'BE', 'RS': 'RE', 'rS': 'rE', 'wS': 'wE', 'CTS': 'CTE', 'CRS': 'CRE', 'XS': 'XE', 'SBTS': 'SBTE',
             'CQS': 'CQE', 'SBRS': 'SBRE', 'CDS': 'CDE'}
END_START = {v: k for k, v in START_END.items()}
SUBJ_LEN = {'BS': 0, 'RS': 2, 'rS': 2, 'wS': 2, 'CTS': 3, 'CRS': 3, 'XS': 1, 'SBTS': 1, 'CQS': 3, 'SBRS': 1, 'CDS': 3}


def nesting_check(events, aborted):
    """stack automaton: every end closes the most recent unclosed start of the same kind and subject.
    A read/write whose stamping failed (error returned to the task) leaves a start that is never closed: such a
    dangling rS/wS may be skipped over by the end that closes the enclosing operation.
    Returns None or message."""
    stack = []
    for i, e in enumerate(events):
        f = e.split()
        k = f[0]
        if k in START_END:
            stack.append((k, f[1:1 + SUBJ_LEN[k]], i))
        elif k in END_START:
            sk = END_START[k]
            subj = f[1:1 + SUBJ_LEN[sk]]
            # pop dangling failed reads/writes
            while stack and stack[-1][0] in ('rS', 'wS') and (stack[-1][0] != sk or stack[-1][1] != subj):
                stack.pop()
            if not stack:
                return 'event %d %r closes nothing' % (i, e)
            top = stack.pop()
            if top[0] != sk or top[1] != subj:
                return 'event %d %r closes %r (opened at %d) instead of the most recent unclosed start of its kind and subject' % (i, e, ' '.join([top[0]] + top[1]), top[2])
        elif k == 'ST':
            pass
        else:
            return 'unknown event %r' % e
    rest = [s for s in stack if s[0] not in ('rS', 'wS')]
    if rest and not aborted:
        return 'stream ended with unclosed %r although the session returned' % (' '.join([rest[-1][0]] + rest[-1][1]))
    return None


def exec_counts(events):
    c = {}
    for e in events:
        if e.startswith('XS '):
            t = int(e.split()[1]); c[t] = c.get(t, 0) + 1
    return c


def completed_tasks(events):
    return set(int(e.split()[1]) for e in events if e.startswith('XE '))


# ----------------------------------------------------------------------------- injection / special streams

def subst_first(code, f):
    """apply f at the root"""
    return f(code)


def inject_hidden_read(rng, p):
    """a task reads a generated resource without requiring its generator"""
    g = rng.choice(list(p.generated))
    gt, wc = p.generated[g]
    cands = [t for t in p.tasks if t != gt]
    a = rng.choice(cands)
    c = rng.choice([0, 0, 1, 2])
    p.tasks[a] = insert_at(rng, p.tasks[a], lambda k: ('R', g, c, k))
    p.kind = 'inject'
    return p


def inject_foreign_write(rng, p):
    """a task that is not the generator writes a generated resource (overlap, or hidden dependency for its readers)"""
    g = rng.choice(list(p.generated))
    gt, wc = p.generated[g]
    a = rng.choice([t for t in p.tasks if t != gt])
    op = rng.choice(['W', 'W', 'N'])
    p.tasks[a] = insert_at(rng, p.tasks[a], lambda k: (op, g, rng.choice([0, wc]), ('k', rng.randint(0, 9)), k))
    if op == 'N':
        p.uses_written_to = True
    p.kind = 'inject'
    return p


def inject_source_write(rng, p):
    """a task writes a resource that other tasks read as a source (hidden dependency found on the writing or reading side)"""
    s = rng.choice(p.sources)
    a = rng.choice(list(p.tasks))
    p.tasks[a] = insert_at(rng, p.tasks[a], lambda k: ('W', s, 0, ('k', rng.randint(0, 9)), k))
    p.kind = 'inject'
    return p


def inject_self_rw(rng, p):
    """a generator reads its own target before writing it / writes it twice (class boundary)"""
    g = rng.choice(list(p.generated))
    gt, wc = p.generated[g]
    if rng.random() < 0.5:
        p.tasks[gt] = ('R', g, 0, p.tasks[gt])
    else:
        p.tasks[gt] = insert_at(rng, p.tasks[gt], lambda k: ('W', g, wc, ('k', 3), k))
    p.kind = 'inject'
    return p


def inject_back_require(rng, p):
    """a higher task requires a lower one: a cycle when the lower one (transitively) requires it in the current state"""
    n = len([t for t in p.tasks if t < 80])
    for _ in range(rng.randint(1, 2)):
        j = rng.randint(1, n - 1)
        i = rng.randint(0, j)          # i == j: self cycle
        oc = rng.choice([0, 1, 2])
        p.tasks[j] = insert_at(rng, p.tasks[j], lambda k: ('Q', i, oc, k))
        # make the forward path likely
        if i < j and rng.random() < 0.7:
            p.tasks[i] = insert_at(rng, p.tasks[i], lambda k: ('Q', j, rng.choice([0, 2]), k), top=True)
    p.kind = 'inject'
    return p


def inject_panic(rng, p):
    """a panic at some operation of some task, guarded by a source value so that later edits can remove the cause"""
    for _ in range(rng.randint(1, 2)):
        t = rng.choice(list(p.tasks))
        s = rng.choice([7, 8])            # dedicated guard sources (one checker per target per execution)
        for x in (7, 8):
            if x not in p.sources: p.sources.append(x)
        guard = rng.randint(0, 3)
        if rng.random() < 0.25:
            p.tasks[t] = insert_at(rng, p.tasks[t], lambda k: ('I', ('m', 2, rng.randint(0, 1)), ('P',), k))
        else:
            p.tasks[t] = insert_at(rng, p.tasks[t], lambda k: ('R', s, 0, ('I', ('l', guard), ('P',), k)))
    return p          # kind stays 'wf': apart from the panic the program is in the class


def insert_at(rng, code, wrap, top=False):
    """wrap the continuation at a random position along a random path of the code tree"""
    if top or code[0] in ('D', 'T', 'P') or rng.random() < 0.35:
        return wrap(code)
    k = code[0]
    if k in ('R', 'Q', 'X'):
        return (k, code[1], code[2], insert_at(rng, code[3], wrap))
    if k in ('W', 'N'):
        return (k, code[1], code[2], code[3], insert_at(rng, code[4], wrap))
    if k == 'I':
        if rng.random() < 0.5:
            return ('I', code[1], insert_at(rng, code[2], wrap), code[3])
        return ('I', code[1], code[2], insert_at(rng, code[3], wrap))
    return wrap(code)


def gen_roles_program(rng):
    """tasks whose roles (who writes g, who reads it, who requires whom) depend on source 0; no violation within one state"""
    p = Prog()
    p.kind = 'roles'
    p.exact_only = True
    p.sources = [0, 1]
    g = 10
    tmpl = rng.choice(['writer-moves', 'require-flips', 'reader-becomes-written', 'writer-becomes-reader', 'mix'])
    v1, v2 = 1, 2      # exact views of source values 0 and 1
    def on(view, then, els=('D',)):
        return ('R', 0, 0, ('I', ('l', view), then, els))
    if tmpl == 'writer-moves':
        p.tasks[1] = on(v1, ('W', g, 0, ('k', 5), ('D',)))
        p.tasks[2] = on(v2, ('W', g, 0, ('k', 6), ('D',)))
        p.tasks[0] = ('R', 1, 0, ('D',))
    elif tmpl == 'require-flips':
        p.tasks[1] = on(v1, ('Q', 2, 0, ('D',)))
        p.tasks[2] = on(v2, ('Q', 1, 0, ('D',)))
        p.tasks[0] = ('R', 1, 0, ('D',))
    elif tmpl == 'writer-becomes-reader':
        # task 1 writes g in one state and only reads it in the other, where task 3 reads it too (nobody writes it then)
        p.tasks[1] = on(v1, ('W', g, 0, ('k', 5), ('D',)), ('R', g, 0, ('D',)))
        p.tasks[3] = on(v2, ('R', g, 0, ('D',)))
        p.tasks[0] = ('R', 1, 0, ('D',))
        p.tasks[2] = ('Q', 3, 0, ('D',)) if rng.random() < 0.5 else ('D',)
    elif tmpl == 'reader-becomes-written':
        p.tasks[3] = on(v1, ('R', g, 0, ('D',)))
        p.tasks[1] = on(v2, ('W', g, 0, ('k', 7), ('D',)))
        p.tasks[0] = ('R', 1, 0, ('D',))
        p.tasks[2] = ('D',)
    else:
        p.tasks[0] = on(v1, ('Q', 1, 0, ('R', g, 0, ('D',))), ('R', 1, 0, ('D',)))
        p.tasks[1] = on(v1, ('W', g, 0, ('a',), ('D',)), ('Q', 2, 2, ('D',)))
        p.tasks[2] = on(v2, ('W', g, 0, ('k', 9), ('Q', 0, 2, ('D',))), ('D',))
    p.generated = {g: (None, 0)}
    return p


def gen_roles_history(rng, p, nsteps):
    steps = [['E', '0', str(rng.randint(0, 1))], ['E', '1', '0']]
    ts = sorted(p.tasks)
    for i in range(nsteps):
        if i > 0:
            steps.append(['E', '0', str(rng.randint(0, 1))])
            if rng.random() < 0.3:
                steps.append(['E', '1', str(rng.randint(0, 3))])
        order = ts[:]
        rng.shuffle(order)
        order = order[:rng.randint(1, len(order))]
        if rng.random() < 0.6:
            steps.append(['S', str(len(order))] + sum((['q', str(t)] for t in order), []))
        else:
            for t in order:
                steps.append(['S', '1', 'q', str(t)])
    return steps, {'mode': 'roles'}


def gen_role_swap_bu_program(rng):
    """Directed family for C20 (bottom-up): a dependency pair GEN <- USE swaps the writer role of a product between two states. In
    state A GEN writes it and USE requires GEN and reads it; in state B GEN writes nothing and USE writes it itself, without
    requiring GEN.  A bottom-up build told about the switch schedules both; as long as the recorded (by then stale) require keeps
    GEN before USE in the dependency order, GEN runs first and drops its write, and nothing aborts -- in either direction, and
    however the tasks became known (GEN first, then USE, then tasks that start requiring USE later, which re-arranges the order)."""
    p = Prog(); p.kind = 'roles'; p.exact_only = True
    p.sources = [0, 1]
    g = 10
    GEN, USE = 1, 2
    tid = 3
    p.tasks[GEN] = ('R', 0, 0, ('I', ('l', 1), ('W', g, 0, ('k', 5), ('T', ('a',))), ('T', ('a',))))
    p.tasks[USE] = ('R', 0, 0, ('I', ('l', 1), ('Q', GEN, 0, ('R', g, 0, ('T', ('a',)))), ('W', g, 0, ('k', 6), ('T', ('a',)))))
    # later tasks that start requiring USE (directly or through each other) only when source 1 says so
    packs = []
    for i in range(rng.randint(1, 3)):
        t = tid; tid += 1
        target = USE if (not packs or rng.random() < 0.5) else rng.choice(packs)
        p.tasks[t] = ('R', 1, 0, ('I', ('l', 2), ('Q', target, 0, ('T', ('a',))), ('T', ('a',))))
        packs.append(t)
    p.tasks[0] = ('R', 1, 0, ('T', ('a',)))
    p.generated = {g: (None, 0)}
    steps = [['E', '0', '0'], ['E', '1', '0']]
    first = [GEN, USE] if rng.random() < 0.8 else [USE]
    for t in first + packs:
        steps.append(['S', '1', 'q', str(t)])
    if rng.random() < 0.5:            # a first round trip of the switch before anything requires USE from above
        steps += [['E', '0', '1'], ['S', '1', 'b', '1', '0'], ['E', '0', '0'], ['S', '1', 'b', '1', '0'] if rng.random() < 0.5 else ['S', '1', 'q', str(USE)]]
    steps += [['E', '1', '1'], ['S', '1', 'b', '1', '1'] if rng.random() < 0.7 else ['S', str(len(packs))] + sum((['q', str(t)] for t in packs), [])]
    for _ in range(rng.randint(1, 3)):
        cur = steps  # flip the switch and report it bottom-up
        last = [st for st in steps if st[0] == 'E' and st[1] == '0'][-1][2]
        steps.append(['E', '0', '1' if last == '0' else '0'])
        steps.append(['S', '1', 'b', '1', '0'])
    steps.append(['S', str(len(p.tasks))] + sum((['q', str(t)] for t in sorted(p.tasks)), []))
    return p, steps


def gen_multi_program(rng):
    """one task requires the same task twice with different output checkers (recorded finding for C08)"""
    p = Prog()
    p.kind = 'multi'
    p.sources = [0]
    c1, c2 = rng.choice([(0, 2), (0, 1), (2, 0), (1, 0), (3, 4), (4, 3), (0, 3), (4, 2)])     # 3 / 4: one checker TYPE with two tolerances
    p.tasks[0] = ('Q', 1, c1, ('Q', 1, c2, ('D',)))
    p.tasks[1] = ('R', 0, 0, ('D',))
    p.exact_only = False
    return p


def gen_multi_read_program(rng):
    """one task READS the same resource twice with different checkers (C09 / C08).  The store keeps one dependency per target: for
    reads the FIRST one (a second add_dependency on an existing edge changes nothing).  With the stricter checker first nothing
    is lost; with the more lenient one first the record is incomplete (the read form of the recorded finding O7)."""
    p = Prog()
    p.kind = 'multi'
    p.sources = [0]
    c1, c2 = rng.choice([(0, 1), (0, 2), (1, 0), (2, 0), (0, 3), (3, 0), (1, 2), (2, 1), (1, 3), (0, 1), (0, 2)])
    body = ('R', 0, c1, ('R', 0, c2, ('T', ('a',))))
    if rng.random() < 0.5:
        p.tasks[0] = ('Q', 1, 0, ('T', ('a',)))
        p.tasks[1] = body
    else:
        p.tasks[0] = body
    p.exact_only = False
    vals = rng.choice([(1, 3), (1, 2), (2, 4), (0, 2), (1, 5)])
    steps = [['E', '0', str(vals[0])], ['S', '1', 'q', '0'], ['E', '0', str(vals[1])], ['S', '1', 'q', '0'], ['S', '1', 'q', '0'],
             ['E', '0', str(vals[0])], ['S', '1', 'b', '1', '0'], ['S', '1', 'q', '0']]
    return p, steps


def gen_newreq_program(rng):
    """Directed family for C16/C04: in a bottom-up build an executing task NEWLY requires an existing task B that is not yet
    consistent while several of B's (transitive) dependencies are still scheduled -- the only place where the build picks
    'the least scheduled task with a dependency from B', so the only place where an unordered pick would show."""
    p = Prog(); p.kind = 'wf'; p.exact_only = True
    k = rng.randint(2, 4)
    p.sources = list(range(k + 1))
    # task 0 = A: read r0; if r0 == 1 require B.   task 1 = B: requires C_1..C_k (directly or through a middle task).
    # what A does AFTER the new require returned (the nested build must have restored A as the executing task):
    #   nothing / another read / another require / an overlapping write (violation) / a require that closes a cycle (violation)
    extra_first = []
    tailkind = rng.choice(['none', 'read', 'read', 'require', 'overlap', 'cycle', 'hidden_read', 'hidden_write'])
    p.tasks[0] = None
    tid = 2
    body = ('T', ('a',))
    cs = []
    shared = k + 1 if rng.random() < 0.6 else None     # a source several dependencies of B read (a diamond below B), never changed
    if shared is not None: p.sources.append(shared)
    for i in range(k):
        c = tid; tid += 1
        p.tasks[c] = ('R', 1 + i, 0, ('T', ('a',)))
        if shared is not None and rng.random() < 0.7:
            p.tasks[c] = ('R', shared, 0, p.tasks[c]) if rng.random() < 0.5 else ('R', 1 + i, 0, ('R', shared, 0, ('T', ('a',))))
        cs.append(c)
        head = c
        if rng.random() < 0.4:
            m = tid; tid += 1
            p.tasks[m] = ('Q', c, (0 if rng.random() < 0.85 else 2), ('T', ('a',)))
            head = m
        body = ('Q', head, (0 if rng.random() < 0.85 else 2), body)
    p.tasks[1] = body
    tail = ('T', ('a',))
    if tailkind == 'read':
        src = 40; p.sources.append(src); tail = ('R', src, 0, ('T', ('a',)))
    elif tailkind == 'require':
        e = tid; tid += 1; src = 40; p.sources.append(src)
        p.tasks[e] = ('R', src, 0, ('T', ('a',))); tail = ('Q', e, 0, ('T', ('a',)))
    elif tailkind == 'overlap':
        # C_1 owns product 30; A writes it too after the require: an overlapping write that must be diagnosed
        p.generated = {30: (cs[0], 0)}
        p.tasks[cs[0]] = ('W', 30, 0, ('k', 3), p.tasks[cs[0]])
        tail = ('W', 30, 0, ('k', 4), ('T', ('a',)))
        p.kind = 'inject'
    elif tailkind == 'cycle':
        bk = tid; tid += 1
        p.tasks[bk] = ('Q', 0, 0, ('T', ('a',))); tail = ('Q', bk, 0, ('T', ('a',)))
        p.kind = 'inject'
    elif tailkind == 'hidden_read':
        # an unrelated task H generates product 31; A reads it after the nested require without requiring H: a hidden dependency
        # that must be diagnosed on the reading side (the executing task must be A again after the nested execution)
        h = tid; tid += 1; src = 41; p.sources.append(src)
        p.generated = {31: (h, 0)}
        p.tasks[h] = ('R', src, 0, ('W', 31, 0, ('k', 6), ('T', ('a',))))
        tail = ('R', 31, 0, ('T', ('a',)))
        p.kind = 'inject'; extra_first = [h]
    elif tailkind == 'hidden_write':
        # an unrelated task Rd reads resource 32; A writes it after the nested require: a hidden dependency that must be diagnosed
        # on the writing side, before the resource is modified
        rd = tid; tid += 1; p.sources.append(32)
        p.tasks[rd] = ('R', 32, 0, ('T', ('a',)))
        tail = ('W', 32, 0, ('k', 8), ('T', ('a',)))
        p.kind = 'inject'; extra_first = [rd]
    p.tasks[0] = ('R', 0, 0, ('I', ('l', 2), ('Q', 1, (0 if rng.random() < 0.85 else 2), tail), ('T', ('k', 5))))
    # an independent scheduled chain M -> L (... -> L'), unrelated to B: it sits in the queue while B's dependencies are pulled out of it
    chain = []
    extra_srcs = []
    if rng.random() < 0.7:
        n = rng.randint(2, 3)
        ids = list(range(tid, tid + n)); tid += n
        for j, c in enumerate(ids):
            src = k + 2 + j
            p.sources.append(src); extra_srcs.append(src)
            nxt = ('Q', ids[j + 1], 0, ('T', ('a',))) if j + 1 < n else ('T', ('a',))
            p.tasks[c] = ('R', src, 0, nxt)
        chain = ids
    steps = [['E', str(i), '0'] for i in range(k + 1)] + [['E', str(x), '0'] for x in extra_srcs] + ([['E', '40', '7']] if 40 in p.sources else [])
    if shared is not None: steps.append(['E', str(shared), '3'])
    if 41 in p.sources: steps.append(['E', '41', '2'])
    if 32 in p.sources: steps.append(['E', '32', '5'])
    # in a quarter of the cases B (and everything below it) is unknown to the instance when the bottom-up build starts: A's new
    # require then runs B through the first-time path (executed at once, never scheduled), and A goes on afterwards
    b_new = rng.random() < 0.25
    first = [['S', '1', 'q', '0']] + ([] if b_new else [['S', '1', 'q', '1']]) + ([['S', '1', 'q', str(chain[0])]] if chain else []) + [['S', '1', 'q', str(x)] for x in extra_first]
    rng.shuffle(first)
    steps += first
    changed = [0] + [1 + i for i in range(k) if rng.random() < 0.85] + [x for x in extra_srcs if rng.random() < 0.9]
    for r in changed:
        steps.append(['E', str(r), '1'])
    rng.shuffle(changed)
    bu = len(steps)
    steps.append(['S', '1', 'b', str(len(changed))] + [str(r) for r in changed])
    steps.append(['S', '1', 'q', '0'])
    return p, steps, {'bu': {bu}}


def gen_cutoff_newreq_program(rng):
    """Directed family for C04/C03: early cut-off meets a first-time require.  D re-executes with an output its requirer R
    accepts (constant output, or a coarse output checker), while R is affected through another dependency and waits in the
    queue; a third scheduled task T, which did not require R before, requires it for the first time in this build (a switch
    source flipped).  T must wait for R (R is executed nested) and every task runs once."""
    p = Prog(); p.kind = 'wf'; p.exact_only = True
    p.sources = [0, 1, 2]
    D, R, T = 0, 1, 2
    p.tasks[D] = ('R', 0, 0, ('T', ('k', rng.randint(0, 9)) if rng.random() < 0.75 else ('a',)))
    oc = 0 if rng.random() < 0.8 else 2
    if oc != 0: p.exact_only = False
    p.tasks[R] = ('Q', D, oc, ('R', 1, 0, ('T', ('a',)))) if rng.random() < 0.5 else ('R', 1, 0, ('Q', D, oc, ('T', ('a',))))
    cond = ('I', ('l', 1), ('T', ('a',)), ('Q', R, 0, ('T', ('a',))))        # r2 = 0: nothing; otherwise require R
    shape = rng.randrange(3)
    if shape == 0:   p.tasks[T] = ('Q', D, 0, ('R', 2, 0, cond))
    elif shape == 1: p.tasks[T] = ('R', 2, 0, ('Q', D, 0, cond))
    else:            p.tasks[T] = ('R', 2, 0, cond)
    tid = 3
    top = T
    if rng.random() < 0.5:
        p.tasks[tid] = ('Q', T, 0, ('T', ('a',))); top = tid; tid += 1
    if rng.random() < 0.3:      # a second requirer of D that accepts as well and has no other dependency
        p.tasks[tid] = ('Q', D, oc, ('T', ('k', 1))); tid += 1
    steps = [['E', '0', '1'], ['E', '1', '1'], ['E', '2', '0']]
    first = [R, top] + [t for t in range(3, tid) if t != top]
    rng.shuffle(first)
    if rng.random() < 0.5:
        steps.append(['S', str(len(first))] + sum((['q', str(t)] for t in first), []))
    else:
        steps += [['S', '1', 'q', str(t)] for t in first]
    changed = [0] + ([1] if rng.random() < 0.85 else []) + ([2] if rng.random() < 0.85 else [])
    for r in changed:
        steps.append(['E', str(r), str(rng.randint(2, 4)) if r != 2 else '1'])
    rng.shuffle(changed)
    bu = len(steps)
    steps.append(['S', '1', 'b', str(len(changed))] + [str(r) for r in changed])
    allt = sorted(p.tasks)
    probe = len(steps)
    steps.append(['S', str(len(allt))] + sum((['q', str(t)] for t in allt), []))
    return p, steps, {'bu': {bu}, 'probe': {probe: bu}}


def gen_reported_products_program(rng):
    """Directed family for C03/C04: the bottom-up build is told not only about the changed sources but also about generated
    resources (a file watcher reports outputs too) -- before or after the source whose change makes their generator rewrite them.
    The readers of a rewritten product must be checked AFTER the write, whatever was checked for that product before; the reader
    has no other route to being rescheduled (its require of the generator accepts the generator's new output)."""
    p = Prog(); p.kind = 'wf'; p.exact_only = False
    n = rng.randint(1, 2)                      # generators
    p.sources = list(range(n)) + [5]
    tid = 0; gens = []
    for i in range(n):
        g = 10 + i
        out = ('k', rng.randint(0, 5)) if rng.random() < 0.6 else ('a',)
        p.tasks[tid] = ('R', i, 0, ('W', g, 0, ('a',), ('T', out)))
        p.generated[g] = (tid, 0); gens.append((tid, g, out)); tid += 1
    readers = []
    for (gt, g, out) in gens:
        for _ in range(rng.randint(1, 2)):
            c = 2 if (out == ('a',) or rng.random() < 0.4) else 0          # accepts the generator's new output
            body = ('Q', gt, c, ('R', g, 0, ('T', ('a',))))
            if rng.random() < 0.3: body = ('R', 5, 0, body)
            p.tasks[tid] = body; readers.append(tid); tid += 1
    if rng.random() < 0.5:
        p.tasks[tid] = ('Q', rng.choice(readers), 0, ('T', ('a',))); readers.append(tid); tid += 1
    steps = [['E', str(i), '1'] for i in range(n)] + [['E', '5', '1']]
    roots = readers[:]; rng.shuffle(roots)
    steps.append(['S', str(len(roots))] + sum((['q', str(t)] for t in roots), []))
    ch = [i for i in range(n) if rng.random() < 0.8] or [0]
    for i in ch: steps.append(['E', str(i), str(rng.randint(2, 4))])
    told = [str(i) for i in ch] + [str(10 + i) for i in range(n) if rng.random() < 0.8] + (['5'] if rng.random() < 0.3 else [])
    rng.shuffle(told)
    bu = len(steps)
    steps.append(['S', '1', 'b', str(len(told))] + told)
    allt = sorted(p.tasks)
    probe = len(steps)
    steps.append(['S', str(len(allt))] + sum((['q', str(t)] for t in allt), []))
    return p, steps, {'bu': {bu}, 'probe': {probe: bu}}


def gen_chain_readers_program(rng):
    """Directed family for C20/C05 (well-formed: never aborts): a require chain T_k -> ... -> T_1 -> Gen of depth 2..5 in which SEVERAL
    tasks of the chain read Gen's product (each after its require of the next task, so each reaches the generator transitively,
    through the tasks below it); optionally a side reader that reaches the chain in the middle.  When Gen re-executes, the write is
    validated against every recorded reader: each of them has a path to the generator, the later ones only through the earlier."""
    p = Prog(); p.kind = 'wf'; p.exact_only = True
    p.sources = [0, 1]
    g = 10
    depth = rng.randint(2, 5)
    gen = depth                     # ids: chain tasks 0 (top) .. depth-1, generator = depth
    p.tasks[gen] = ('R', 0, 0, ('W', g, 0, ('a',), ('T', ('a',) if rng.random() < 0.6 else ('k', 3))))
    p.generated = {g: (gen, 0)}
    readers = [i for i in range(depth) if rng.random() < 0.6]
    if len(readers) < 2: readers = sorted(set(readers) | {0, depth - 1})
    for i in range(depth):
        body = ('R', g, 0, ('T', ('a',))) if i in readers else ('T', ('a',))
        if rng.random() < 0.3: body = ('R', 1, 0, body)
        p.tasks[i] = ('Q', i + 1, rng.choice([0, 0, 2]) if i + 1 != gen or i not in readers else 0, body)
    tid = gen + 1
    if rng.random() < 0.5:          # a side reader hanging on a middle task
        m = rng.randint(0, depth - 1)
        p.tasks[tid] = ('Q', m, 0, ('R', g, 0, ('T', ('a',)))); tid += 1
    steps = [['E', '0', '1'], ['E', '1', '1']]
    roots = [0] + list(range(gen + 1, tid)); rng.shuffle(roots)
    steps.append(['S', str(len(roots))] + sum((['q', str(t)] for t in roots), []))
    for _ in range(rng.randint(1, 2)):
        steps.append(['E', '0', str(rng.randint(2, 5))])
        if rng.random() < 0.3: steps.append(['E', '1', str(rng.randint(2, 5))])
        if rng.random() < 0.5:
            rs = roots[:]; rng.shuffle(rs)
            steps.append(['S', str(len(rs))] + sum((['q', str(t)] for t in rs), []))
        else:
            steps.append(['S', '1', 'b', '2', '0', '1'])
            steps.append(['S', str(len(roots))] + sum((['q', str(t)] for t in roots), []))
    return p, steps, {}


def gen_abort_bu_program(rng):
    """Directed family for C04/C19: tasks abort (panic guarded by a source value) in earlier sessions, which leaves tasks
    with recorded read dependencies but no output; the cause is then removed and a bottom-up build is run over the changed
    sources, in which such a task is both scheduled (through its read dependency) and freshly required by another task."""
    p = Prog(); p.kind = 'panic'; p.exact_only = True
    if rng.random() < 0.35:
        # second family: Mid(1) is aborted AFTER it recorded a require (the panic guard r6 is read last); later it is executed again
        # and requires something else (mode r5).  Root(0) requires Mid only once r7 is set.  The bottom-up build is told about all
        # changes, or only about those of the tasks that have an output (r7, r8, r9): then Mid, which has none, is not scheduled
        # but executed as a first-time require of Root; what its aborted run recorded must be gone afterwards.
        p.sources = [5, 6, 7, 8, 9]
        a, b = (2, 3) if rng.random() < 0.5 else (3, 2)
        p.tasks[0] = ('R', 7, 0, ('I', ('l', 1), ('T', ('a',)), ('Q', 1, 0, ('T', ('a',)))))
        p.tasks[1] = ('R', 5, 0, ('I', ('l', 1), ('Q', a, 0, ('R', 6, 0, ('I', ('l', 2), ('P',), ('T', ('a',))))),
                                                 ('Q', b, 0, ('R', 6, 0, ('I', ('l', 2), ('P',), ('T', ('a',)))))))
        p.tasks[2] = ('R', 8, 0, ('T', ('a',)))
        p.tasks[3] = ('R', 9, 0, ('T', ('a',)))
        steps = [['E', '5', '0'], ['E', '6', '1'], ['E', '7', '0'], ['E', '8', '1'], ['E', '9', '1']]
        first = [['S', '1', 'q', '0'], ['S', '1', 'q', '1']] + ([['S', '1', 'q', str(b)]] if rng.random() < 0.6 else [])
        rng.shuffle(first)
        steps += first
        steps += [['E', '5', '1'], ['E', '6', '0'], ['E', '7', '1']]
        changed = [5, 6, 7]
        src_a = 8 if a == 2 else 9
        now = rng.random() < 0.5
        if now:
            steps.append(['E', str(src_a), '2']); changed.append(src_a)
        told = changed if rng.random() < 0.4 else [r for r in changed if r >= 7]
        told = told[:]; rng.shuffle(told)
        bus = {len(steps)}
        steps.append(['S', '1', 'b', str(len(told))] + [str(r) for r in told])
        if not now:
            steps.append(['E', str(src_a), '2'])
            bus.add(len(steps))
            steps.append(['S', '1', 'b', '1', str(src_a)])
        steps.append(['S', '1', 'q', str(rng.randrange(4))])
        return p, steps, {'bu': bus}
    n = rng.randint(2, 5)
    p.sources = list(range(n))
    for t in range(n):
        body = ('T', ('a',))
        later = [u for u in range(t + 1, n)]
        rng.shuffle(later)
        for u in later[:rng.randint(0, 2)]:
            body = ('Q', u, rng.choice([0, 2]), body)
        p.tasks[t] = ('R', t, 0, ('I', ('l', 2), ('P',), body))
    steps = []
    bad = [t for t in range(n) if rng.random() < 0.7] or [n - 1]
    for t in range(n):
        steps.append(['E', str(t), '1' if t in bad else '0'])
    order = list(range(n)); rng.shuffle(order)
    for t in order[:rng.randint(1, n)]:
        steps.append(['S', '1', 'q', str(t)])
    changed = []
    for t in range(n):
        if t in bad or rng.random() < 0.3:
            steps.append(['E', str(t), rng.choice(['0', '2'])]); changed.append(t)
    rng.shuffle(changed)
    bu = len(steps)
    steps.append(['S', '1', 'b', str(len(changed))] + [str(r) for r in changed])
    steps.append(['S', '1', 'q', str(rng.randrange(n))])
    return p, steps, {'bu': {bu}}


def gen_reorder_cycle_program(rng):
    """Directed family for C07/C10: a root requires the tasks of a random DAG in an order unrelated to the DAG (so that the
    topological order has to be repaired by several successive reorders while the DAG's own edges arrive), then one task
    starts requiring a task that (transitively) requires it: the cycle has to be diagnosed on exactly that repaired order."""
    p = Prog(); p.kind = 'inject'; p.exact_only = True
    p.sources = [0]
    n = rng.randint(3, 7)
    ids = list(range(1, n + 1))
    edges = [(i, j) for i in ids for j in ids if i < j and rng.random() < 0.45]
    if not edges: edges = [(1, 2)]
    # reachability (natural order is topological)
    reach = {i: set() for i in ids}
    for i in reversed(ids):
        for (a, b) in edges:
            if a == i: reach[i] |= {b} | reach[b]
    u = rng.choice([i for i in ids if reach[i]])
    v = rng.choice(sorted(reach[u]))
    for i in ids:
        body = ('T', ('a',))
        outs = [b for (a, b) in edges if a == i]
        rng.shuffle(outs)
        for b in outs:
            body = ('Q', b, rng.choice([0, 2]), body)
        if i == v:
            body = ('R', 0, 0, ('I', ('l', 2), ('Q', u, 0, body), body))
        p.tasks[i] = body
    order = ids[:]; rng.shuffle(order)
    body = ('T', ('a',))
    for i in reversed(order):
        body = ('Q', i, rng.choice([0, 2]), body)
    p.tasks[0] = body
    steps = [['E', '0', '0'], ['S', '1', 'q', '0'], ['E', '0', '1'], ['S', '1', 'q', str(rng.choice([0, v, u]))], ['E', '0', '0'], ['S', '1', 'q', '0']]
    return p, steps


def gen_cycle_then_hidden_program(rng):
    """Directed family for C05 (also C19): a build is aborted by a cyclic requirement that is diagnosed only AFTER the cycle search
    has already walked into other dependencies of the requiring task (they precede the closing require in its dependency list);
    the very next reachability question asked of the instance is a hidden-dependency check -- on the reading side (a task reads a
    product without requiring its generator) or on the writing side (a generator writes a resource that an unrelated task reads).
    Whatever the cycle search left behind must not answer that question."""
    p = Prog(); p.kind = 'inject'; p.exact_only = True
    p.sources = [0, 1]
    OUTER, W = 0, 1
    tid = 2
    variant = rng.choice(['read', 'read', 'write'])
    # W: generator of product 10 (and, in the 'write' variant, of resource 11 once source 1 says so)
    wbody = ('W', 10, 0, ('p', 5), ('T', ('a',)))
    if variant == 'write':
        wbody = ('W', 10, 0, ('p', 5), ('I', ('l', 2), ('W', 11, 0, ('k', 9), ('T', ('a',))), ('T', ('a',))))
    p.tasks[W] = ('R', 1, 0, wbody)
    p.generated = {10: (W, 0)}
    # a chain MID_1 -> ... -> MID_n -> W below OUTER
    n = rng.randint(1, 3)
    mids = list(range(tid, tid + n)); tid += n
    for i, m in enumerate(mids):
        nxt = mids[i + 1] if i + 1 < n else W
        p.tasks[m] = ('Q', nxt, 0, ('T', ('a',)))
    # further leaves OUTER requires before the closing require
    leaves = []
    for _ in range(rng.randint(0, 2)):
        l = tid; tid += 1; src = 20 + len(leaves); p.sources.append(src)
        p.tasks[l] = ('R', src, 0, ('T', ('a',))); leaves.append(l)
    BACK = tid; tid += 1
    hops = rng.randint(0, 1)          # BACK -> (HOP ->) OUTER
    if hops:
        HOP = tid; tid += 1
        p.tasks[HOP] = ('Q', OUTER, 0, ('T', ('a',)))
        p.tasks[BACK] = ('Q', HOP, 0, ('T', ('a',)))
    else:
        p.tasks[BACK] = ('Q', OUTER, 0, ('T', ('a',)))
    closing = ('I', ('l', 2), ('Q', BACK, 0, ('T', ('a',))), ('T', ('a',)))
    # OUTER: require the chain and the leaves (shuffled), read source 0 last, then -- when it says so -- the closing require
    pre = [mids[0]] + leaves
    rng.shuffle(pre)
    body = ('R', 0, 0, closing)
    for t in reversed(pre):
        body = ('Q', t, 0, body)
    p.tasks[OUTER] = body
    RD = tid; tid += 1
    if variant == 'read':
        p.tasks[RD] = ('R', 10, 0, ('T', ('a',)))          # reads W's product, never requires W
    else:
        p.sources.append(11)
        p.tasks[RD] = ('R', 11, 0, ('T', ('a',)))          # reads 11, which W starts writing later
    steps = [['E', '0', '0'], ['E', '1', '0']] + [['E', str(20 + i), '3'] for i in range(len(leaves))]
    if variant == 'write':
        steps.append(['E', '11', '4'])
    steps.append(['S', '1', 'q', str(OUTER)])
    if variant == 'write' or rng.random() < 0.5:
        steps.append(['S', '1', 'q', str(RD)] if variant == 'write' else ['S', '1', 'q', str(mids[-1])])
    steps.append(['E', '0', '1'])
    steps.append(['S', '1', 'q', str(OUTER)])             # aborted: cyclic requirement, found after the chain was walked
    if variant == 'read':
        steps.append(['S', '1', 'q', str(RD)])            # hidden dependency on the reading side: must abort
    else:
        steps.append(['E', '1', '1'])
        steps.append(['S', '1', 'q', str(W)])             # W now writes 11, which RD read: hidden dependency on the writing side
    steps.append(['E', '0', '0'])
    steps.append(['S', '1', 'q', str(OUTER)])
    return p, steps


def gen_cycle_after_query_program(rng):
    """Directed family for C07: a chain of requires top -> ... -> mid; mid requires a generator, READS the generated resource (the
    hidden-dependency check is a transitive-reachability query that walks part of the graph) and then requires a closer, which
    (always, or only when a source says so) requires a task further up the chain: a cycle of length >= 3 whose diagnosis has to run
    right after that query.  Variants: position of the read, several reads, where the cycle closes, a first build without the cycle."""
    p = Prog(); p.kind = 'inject'; p.exact_only = True
    p.sources = [0]
    k = rng.randint(1, 3)                       # chain 0 -> 1 -> ... -> k (= mid)
    mid, gen, closer = k, k + 1, k + 2
    g = 10
    for t in range(k):
        p.tasks[t] = ('Q', t + 1, 0, ('T', ('a',)))
    back = rng.randrange(0, k + 1) if rng.random() < 0.7 else 0
    tail = ('Q', closer, 0, ('T', ('a',)))
    body = ('R', g, 0, tail)
    if rng.random() < 0.4: body = ('R', g, 0, ('R', 0, 0, tail))
    if rng.random() < 0.2: body = tail if rng.random() < 0.5 else ('Q', closer, 0, ('R', g, 0, ('T', ('a',))))
    p.tasks[mid] = ('Q', gen, 0, body)
    p.tasks[gen] = ('W', g, 0, ('k', 7), ('T', ('k', 1)))
    cond = rng.random() < 0.5
    if cond:
        p.tasks[closer] = ('R', 0, 0, ('I', ('l', 2), ('Q', back, 0, ('T', ('a',))), ('T', ('k', 3))))
    else:
        p.tasks[closer] = ('Q', back, 0, ('T', ('a',)))
    p.generated = {g: (gen, 0)}
    steps = [['E', '0', '0' if cond else '1']]
    root = rng.randrange(0, k + 1)
    steps.append(['S', '1', 'q', str(root)])
    if cond:
        steps.append(['E', '0', '1']); steps.append(['S', '1', 'q', str(rng.randrange(0, k + 1))])
        steps.append(['E', '0', '0']); steps.append(['S', '1', 'q', str(root)])
    return p, steps


def gen_same_session_program(rng):
    """Directed family for C05/C06 (implementation only: the model's session ends at the first abort): a build of a session is
    aborted after a task read (or wrote) a resource; the SAME session is then used for another build in which a different task
    writes (reads) that resource without any dependency between the two.  Nothing may be executing when the second build starts."""
    p = Prog(); p.kind = 'inject'; p.exact_only = True
    p.sources = [0]
    g = 10
    mode = rng.choice(['read-then-write', 'read-then-write', 'write-then-read', 'write-then-write'])
    # task 0 touches g and then aborts (panics itself, or requires a task that panics)
    tail = ('P',) if rng.random() < 0.5 else ('Q', 3, 0, ('T', ('a',)))
    p.tasks[3] = ('P',)
    if mode == 'read-then-write':
        p.tasks[0] = ('R', g, 0, tail)
        p.tasks[1] = ('R', 0, 0, ('W', g, 0, ('k', 3), ('D',)))
    elif mode == 'write-then-write':             # the aborted task keeps its recorded write: another writer is an overlap, also when retried
        p.tasks[0] = ('W', g, 0, ('k', 3), tail)
        p.tasks[1] = ('R', 0, 0, ('W', g, 0, ('k', 4), ('D',)))
    else:
        p.tasks[0] = ('W', g, 0, ('k', 3), tail)
        p.tasks[1] = ('R', g, 0, ('T', ('a',)))
    if rng.random() < 0.4:                       # the second task reached through a wrapper
        p.tasks[2] = ('Q', 1, 0, ('T', ('a',)))
        second = 2
    else:
        second = 1
    p.generated = {g: (None, 0)}
    ops = ['q', '0', 'q', str(second)]
    if rng.random() < 0.5:
        ops += ['q', str(second)]          # the rejected build is simply tried again in the same session: it must be rejected again
        if rng.random() < 0.4: ops += ['q', str(second)]
    steps = [['E', '0', str(rng.randint(0, 3))], ['E', str(g), '5'], ['Z', str(len(ops) // 2)] + ops]
    if rng.random() < 0.5:
        steps.append(['S', '1', 'q', str(second)])      # ... and in a new session
    return p, steps, {}


def gen_same_abort_program(rng):
    """Directed family for C19/C20/C08 (implementation only: the model's session ends at the first abort): a task panics inside
    a nested require; the SAME session is then used for further builds -- the same root again, an unrelated task, a task that
    requires the one that panicked -- with or without removing the cause in between (external resources, ids >= 50, edited
    while the session is alive); later sessions build everything.  Nothing may be left 'executing' by the aborted build."""
    p = Prog(); p.kind = 'panic'; p.exact_only = True
    if rng.random() < 0.35:
        # bottom-up family: inner(0) panics while r50 == 1; outer(1) requires inner only once r52 != 1 (a first-time require inside
        # the bottom-up build, so that inner -- scheduled as well -- is executed NESTED in outer's require and aborts there);
        # the same session is then used for requires of inner / outer / other, with or without removing the cause
        p.sources = [50, 52]
        p.tasks[0] = ('R', 50, 0, ('I', ('l', 2), ('P',), ('T', ('a',))))
        p.tasks[1] = ('R', 52, 0, ('I', ('l', 2), ('T', ('a',)), ('Q', 0, 0, ('T', ('a',)))))
        p.tasks[2] = ('Q', 0, 0, ('T', ('a',)))
        steps = [['E', '50', '0'], ['E', '52', '1']]
        first = [0, 1] + ([2] if rng.random() < 0.5 else [])
        rng.shuffle(first)
        steps += [['S', '1', 'q', str(t)] for t in first]
        steps += [['E', '50', '1'], ['E', '52', '2']]
        told = ['52', '50'] if rng.random() < 0.8 else ['52']
        rng.shuffle(told)
        ops = ['b', str(len(told))] + told
        n = 1
        for _ in range(rng.randint(1, 3)):
            r = rng.random()
            if r < 0.3: ops += ['e', '50', '2']
            else: ops += ['q', str(rng.choice([0, 0, 1, 2]))]
            n += 1
        steps.append(['Z', str(n)] + ops)
        steps.append(['E', '50', '2'])
        order = [0, 1, 2]; rng.shuffle(order)
        for t in order[:rng.randint(1, 3)]:
            steps.append(['S', '1', 'q', str(t)])
        return p, steps, {}
    p.sources = [50, 51]
    p.tasks[0] = ('R', 50, 0, ('I', ('l', 2), ('P',), ('T', ('a',))))                         # inner: panics while 50 == 1
    p.tasks[1] = ('Q', 0, 0, ('T', ('a',)))                                                    # outer: requires inner
    p.tasks[2] = ('R', 51, 0, ('I', ('l', 2), ('Q', 0, 0, ('T', ('a',))), ('T', ('a',))))       # other: requires inner while 51 == 1
    roots = [1, 2, 0]
    if rng.random() < 0.4:
        p.tasks[3] = ('Q', 1, 0, ('T', ('a',))); roots.append(3)
    steps = [['E', '50', '1'], ['E', '51', rng.choice(['0', '0', '1'])]]
    ops = ['q', str(rng.choice([1, 1, 3]) if 3 in p.tasks else 1)]
    n = 1
    for _ in range(rng.randint(1, 3)):
        r = rng.random()
        if r < 0.25: ops += ['e', '50', '2']
        elif r < 0.4: ops += ['e', '51', rng.choice(['0', '1'])]
        else: ops += ['q', str(rng.choice(roots))]
        n += 1
    steps.append(['Z', str(n)] + ops)
    steps.append(['E', '50', '2'])
    if rng.random() < 0.7: steps.append(['E', '51', '1'])
    order = roots[:]; rng.shuffle(order)
    for t in order[:rng.randint(1, len(order))]:
        steps.append(['S', '1', 'q', str(t)])
    return p, steps, {'impl_only': True}


def gen_mid_session_program(rng):
    """Directed family for C03 (implementation only: the model's edits happen between sessions): resources whose content lives
    OUTSIDE the Pie instance (ids >= 50, like files) change while a Session is alive -- after a top-down require or a first
    bottom-up build of that session made tasks consistent -- and the change is then reported to a bottom-up build of the SAME
    session.  The bottom-up build must still bring every known task up to date."""
    p = Prog(); p.kind = 'wf'; p.exact_only = True
    if rng.random() < 0.12:
        # a cycle that is closed while the session is alive: Outer(1) requires Inner(0) (through k wrappers); Inner reads the marker
        # r51 and requires Outer once it exists.  One session requires Outer (everything consistent), then the marker appears and
        # is reported to a bottom-up build of that session: it must abort with a cyclic-dependency error
        p.kind = 'inject'
        p.sources = [51]
        k = rng.randint(0, 2)
        top = 1 + k
        p.tasks[0] = ('R', 51, 0, ('I', ('l', 0), ('T', ('a',)), ('Q', top, 0, ('T', ('a',)))))
        for j in range(1, top + 1):
            p.tasks[j] = ('Q', j - 1, 0, ('T', ('a',)))
        first = [top] + ([0] if rng.random() < 0.5 else [])
        steps = []
        if rng.random() < 0.5:
            steps.append(['S', '1', 'q', str(top)])
        sess = sum((['q', str(t)] for t in first), []) + ['e', '51', '1', 'b', '1', '51']
        bu = len(steps)
        steps.append(['S', str(len(first) + 2)] + sess)
        steps.append(['S', '1', 'q', '0'])
        return p, steps, {'bu': {bu}}
    if rng.random() < 0.3:
        # directed diamond: leaf A reads r50; a chain B_k -> .. -> B_1 -> A; X reads a marker (absent at first) and, once it exists,
        # requires A and B_k (either order).  An earlier session makes the chain and X known; then one session requires A or
        # B_k top-down, r50 and the marker change, and both are reported to a bottom-up build of that session.
        p.sources = [50, 51]
        k = rng.randint(1, 2)
        p.tasks[0] = ('R', 50, 0, ('T', ('a',)))
        for j in range(1, k + 1):
            p.tasks[j] = ('Q', j - 1, 0, ('T', ('a',)))
        x = k + 1
        two = [0, k]; rng.shuffle(two)
        p.tasks[x] = ('R', 51, 0, ('I', ('l', 0), ('T', ('a',)), ('Q', two[0], 0, ('Q', two[1], 0, ('T', ('a',))))))
        pre = [k, x]; rng.shuffle(pre)
        steps = [['E', '50', '1'], ['S', '2'] + sum((['q', str(t)] for t in pre), [])]
        first = rng.choice([[0], [0], [k], [0, k]])
        sess = sum((['q', str(t)] for t in first), []) + ['e', '50', str(rng.randint(2, 5)), 'e', '51', '1']
        rep = ['50', '51']; rng.shuffle(rep)
        sess += ['b', '2'] + rep
        bu = len(steps)
        steps.append(['S', str(len(first) + 3)] + sess)
        allt = sorted(p.tasks)
        probe = len(steps)
        steps.append(['S', str(len(allt))] + sum((['q', str(t)] for t in allt), []))
        return p, steps, {'bu': {bu}, 'probe': {probe: bu}}
    n = rng.randint(2, 4)
    p.sources = [50 + i for i in range(n)]
    # leaf tasks read one external source each; inner tasks require leaves / inner tasks
    tid = 0
    leaves = []
    for i in range(n):
        p.tasks[tid] = ('R', 50 + i, 0, ('T', ('a',))); leaves.append(tid); tid += 1
    tops = []
    for _ in range(rng.randint(1, 3)):
        body = ('T', ('a',))
        for x in rng.sample(leaves + tops, rng.randint(1, min(3, len(leaves + tops)))):
            body = ('Q', x, 0, body)
        p.tasks[tid] = body; tops.append(tid); tid += 1
    # dynamic tasks: read a marker (absent at first, so no task dependencies are recorded); once the marker exists they require
    # some leaves / inner tasks in a random order (diamonds through tasks the session already holds as consistent)
    dyns = []; markers = []
    for k in range(rng.randint(0, 2)):
        mk = 50 + n + k
        body = ('T', ('a',))
        for x in rng.sample(leaves + tops, rng.randint(1, min(3, len(leaves + tops)))):
            body = ('Q', x, 0, body)
        p.tasks[tid] = ('R', mk, 0, ('I', ('l', 0), ('T', ('a',)), body)); dyns.append(tid); markers.append(mk); tid += 1
    p.sources += markers
    steps = [['E', str(50 + i), '1'] for i in range(n)]
    if dyns or rng.random() < 0.3:      # an earlier session in which (some of) the tasks become known
        pre = rng.sample(tops + leaves + dyns, rng.randint(1, len(tops + leaves + dyns)))
        for d in dyns:
            if d not in pre and rng.random() < 0.7: pre.append(d)
        steps.append(['S', str(len(pre))] + sum((['q', str(t)] for t in pre), []))
    roots = rng.sample(tops + leaves, rng.randint(1, len(tops)))
    first = sum((['q', str(t)] for t in roots), [])
    ch = rng.sample(range(n), rng.randint(1, n))
    ch += [n + k for k in range(len(markers)) if rng.random() < 0.7]
    edits = sum((['e', str(50 + i), str(rng.randint(2, 5))] for i in ch), [])
    if rng.random() < 0.5:
        sess = first + edits + ['b', str(len(ch))] + [str(50 + i) for i in ch]
        nops = len(roots) + len(ch) + 1
    else:       # a first bottom-up build (nothing changed) instead of the requires, then the change and a second build
        steps.append(['S', str(len(roots))] + first)
        sess = ['b', '0'] + edits + ['b', str(len(ch))] + [str(50 + i) for i in ch]
        nops = 1 + len(ch) + 1
    bu = len(steps)
    steps.append(['S', str(nops)] + sess)
    allt = sorted(p.tasks)
    probe = len(steps)
    steps.append(['S', str(len(allt))] + sum((['q', str(t)] for t in allt), []))
    return p, steps, {'bu': {bu}, 'probe': {probe: bu}}


def gen_td_mid_program(rng):
    """Directed family for C02 (implementation only: the model's edits happen between sessions): external resources (ids >= 50)
    change while a Session is alive, between two top-level requires of that session which reach common tasks.  Judged only
    on 'a task is executed at most once per session' (what a later require of the same session returns is the session's view)."""
    p = Prog(); p.kind = 'wf'; p.exact_only = True
    n = rng.randint(1, 3)
    p.sources = [50 + i for i in range(n)]
    tid = 0; leaves = []
    for i in range(n):
        p.tasks[tid] = ('R', 50 + i, 0, ('T', ('a',))); leaves.append(tid); tid += 1
    tops = []
    for _ in range(rng.randint(1, 4)):
        body = ('T', ('a',))
        for x in rng.sample(leaves + tops, rng.randint(1, min(3, len(leaves + tops)))):
            body = ('Q', x, 0, body)
        p.tasks[tid] = body; tops.append(tid); tid += 1
    steps = [['E', str(50 + i), '1'] for i in range(n)]
    for _ in range(rng.randint(1, 3)):
        sess = []; nops = 0
        for j in range(rng.randint(2, 4)):
            sess += ['q', str(rng.choice(tops + leaves))]; nops += 1
            if rng.random() < 0.7:
                sess += ['e', str(50 + rng.randrange(n)), str(rng.randint(2, 6))]; nops += 1
        steps.append(['S', str(nops)] + sess)
    return p, steps, {}


def gen_sibling_program(rng):
    """Directed family for C05: a top task requires several sibling chains (generators are reached TRANSITIVELY, at
    depth >= 2, so the hidden-dependency queries really walk the graph and leave work on their stack), reads the generated
    resources, and a separate task then reads or overwrites one generated resource without requiring its generator."""
    p = Prog(); p.kind = 'inject'; p.exact_only = True
    p.sources = [0, 1]
    k = rng.randint(2, 4)                      # sibling chains
    depth = [rng.randint(1, 3) for _ in range(k)]
    tid = 1
    chains = []                                # per chain: list of task ids, last = generator
    for i in range(k):
        ids = list(range(tid, tid + depth[i] + 1)); tid += depth[i] + 1
        chains.append(ids)
    p.generated = {10 + i: (chains[i][-1], 0) for i in range(k)}
    for i, ids in enumerate(chains):
        for a, b in zip(ids, ids[1:]):
            p.tasks[a] = ('Q', b, rng.choice([0, 2]), ('T', ('k', rng.randint(0, 9))))
        p.tasks[ids[-1]] = ('R', rng.choice(p.sources), 0, ('W', 10 + i, 0, ('a',), ('T', ('k', i))))
    order = list(range(k)); rng.shuffle(order)
    readers = [i for i in order if rng.random() < 0.8] or [order[0]]
    body = ('T', ('a',))
    for i in reversed(readers):
        body = ('R', 10 + i, 0, body)
    for i in reversed(order):
        body = ('Q', chains[i][0], rng.choice([0, 2]), body)
    p.tasks[0] = body
    # the violator: reads (or overwrites) a generated resource without requiring anything that reaches its generator
    victim = rng.choice(range(k))
    x = tid
    if rng.random() < 0.7:
        p.tasks[x] = ('R', 10 + victim, 0, ('T', ('a',)))
    else:
        p.tasks[x] = ('W', 10 + victim, 0, ('k', 99), ('D',))
    # optionally the violator first requires an unrelated chain head (more leftovers on the search stack)
    others = [i for i in range(k) if i != victim]
    if others and rng.random() < 0.5:
        p.tasks[x] = ('Q', chains[rng.choice(others)][0], 0, p.tasks[x])
    steps = [['E', '0', str(rng.randint(0, 3))], ['E', '1', str(rng.randint(0, 3))]]
    first = [['S', '1', 'q', '0'], ['S', '1', 'q', str(x)]]
    if rng.random() < 0.5: first.reverse()
    steps += first
    if rng.random() < 0.5:
        steps += [['E', str(rng.choice(p.sources)), str(rng.randint(4, 6))], ['S', '2', 'q', '0', 'q', str(x)]]
    return p, steps


def in_proved_class(p):
    """Is the program inside the class of the Rocq theorems C01_incremental_equals_scratch / C08_exact_record (WFP: no target
    twice on a path, a generated resource read only after a DIRECT require of its generator, writes only to own products
    through exact checkers, no stamping errors) and, in addition, inside the static class of C20_static_class_never_aborts /
    C01_total (requires go to higher task ids -- true by construction of the generators -- and no panic)?
    Returns (wfp, static)."""
    gen = {g: gt for g, (gt, wc) in p.generated.items()}
    state = {'panic': False, 'ok': True}
    def walk(t, c, seen, req):
        k = c[0]
        if k in ('D', 'T'): return
        if k == 'P': state['panic'] = True; return
        if k == 'I':
            walk(t, c[2], seen, req); walk(t, c[3], seen, req); return
        if k == 'Q':
            tgt = 't%d' % c[1]
            if tgt in seen or c[1] <= t: state['ok'] = False
            walk(t, c[3], seen | {tgt}, req | {c[1]}); return
        if k == 'R':
            tgt = 'r%d' % c[1]
            if tgt in seen or c[2] == 5: state['ok'] = False
            if c[1] in gen and (gen[c[1]] not in req or gen[c[1]] == t): state['ok'] = False
            walk(t, c[3], seen | {tgt}, req); return
        if k in ('W', 'N', 'X'):
            tgt = 'r%d' % c[1]
            if tgt in seen or gen.get(c[1]) != t or c[2] not in (0, 4): state['ok'] = False
            walk(t, c[4] if k != 'X' else c[3], seen | {tgt}, req); return
        state['ok'] = False
    for t, c in p.tasks.items():
        walk(t, c, frozenset(), frozenset())
    return state['ok'], state['ok'] and not state['panic']

from . import run_graph, run_pie, run_small
RUNNERS = {
    'C10': run_graph.run,
    'C11': run_graph.run,
}
for p in ('C01', 'C02', 'C03', 'C04', 'C05', 'C06', 'C07', 'C08', 'C09', 'C16', 'C17', 'C18', 'C19', 'C20'):
    RUNNERS[p] = run_pie.run
for p in ('C12', 'C13', 'C14', 'C15'):
    RUNNERS[p] = run_small.run
HARNESS_BINS = ['graph_ops', 'pie_hist', 'misc_probe', 'fs_probe']

from . import run_graph
RUNNERS = {
    'C10': run_graph.run,
    'C11': run_graph.run,
}
HARNESS_BINS = ['graph_ops']

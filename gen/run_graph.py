"""Checks for the graph layer: C10 and C11."""
import os, random, time
from . import common as C
from . import graph as G


def gallina_ops(toks):
    out = []; i = 0
    while i < len(toks):
        t = toks[i]
        if t == 'A': out.append('GAddNode'); i += 1
        elif t == 'R': out.append('GRemoveNode %s' % toks[i + 1]); i += 2
        elif t == 'E': out.append('GAddEdge %s %s %s' % (toks[i + 1], toks[i + 2], toks[i + 3])); i += 4
        elif t == 'X': out.append('GRemoveEdge %s %s' % (toks[i + 1], toks[i + 2])); i += 3
        elif t == 'O': out.append('GRemoveOut %s' % toks[i + 1]); i += 2
        else: raise ValueError(t)
    return '[' + '; '.join(out) + ']'


def extraction_crosscheck(exe_model, cases, work, k):
    """Trusted-base reduction: the correspondence run executes the EXTRACTED model.  For k of this run's cases the final graph the
    extracted code computes is pasted into a Coq file as a term, and the kernel checks by vm_compute that Model.Dag.grun -- the
    very function the C10/C11 theorems are about -- yields that graph for the same operation list."""
    pick = [c for c in cases if len(c) <= 120 and all(t.lstrip('-').isdigit() or t in 'AREXO' for t in c)]
    step = max(1, len(pick) // k)
    pick = pick[::step][:k]
    f = os.path.join(work, 'xc_cases.txt')
    open(f, 'w').write('\n'.join(' '.join(c) for c in pick) + '\n')
    rc, out, _ = C.sh([exe_model, 'graphraw', f], timeout=600)
    terms = [l for l in out.split('\n') if l.startswith('(mkDag')]
    if rc != 0 or len(terms) != len(pick):
        return {'agree': False, 'cases': len(pick), 'log': 'driver graphraw failed: rc=%s, %d terms for %d cases' % (rc, len(terms), len(pick))}
    v = ['From Coq Require Import List NArith.', 'Import ListNotations.', 'From PieV Require Import Model.Dag.', 'Open Scope N_scope.',
         'Definition ops : list (list (gop N)) := [' + ';\n  '.join(gallina_ops(c) for c in pick) + '].',
         'Definition expected : list (dag N) := [' + ';\n  '.join(terms) + '].',
         'Example extraction_agrees_with_kernel_evaluation : map (@grun N) ops = expected.',
         'Proof. vm_compute. reflexivity. Qed.']
    vf = os.path.join(work, 'XCheck.v')
    open(vf, 'w').write('\n'.join(v) + '\n')
    rc, out, dt = C.sh(['coqc', '-q', '-Q', os.path.join(C.COQ, 'theories'), 'PieV', vf], cwd=work, timeout=900)
    return {'agree': rc == 0, 'cases': len(pick), 'ops': sum(len(c) for c in pick), 'wall_s': round(dt, 2), 'log': out[-1500:] if rc != 0 else ''}


def run(prop, tier, seed, replay=None):
    t0 = time.time()
    problems = []      # things that break the proof or the correspondence
    proof = C.proof_gate(prop, tier)
    if not proof['ok']:
        problems += proof['problems']
    exe_model, err = C.build_driver()
    if exe_model is None:
        problems.append(err)
    exe_impl, out = C.build_harness('graph_ops')
    if exe_impl is None:
        # the repository does not build with the hooks on: nothing can be explored
        print('harness build failed:\n' + out[-3000:])
        rp = C.write_replay(prop, seed, 0, {'property': prop, 'kind': 'no-failing-input-found', 'broken': 'harness build (graph_ops) against /repo failed', 'log': out[-4000:]})
        print('VIOLATION property=%s replay=%s no-failing-input-found' % (prop, rp))
        C.write_evidence(prop, tier, seed, {'obligations': len(proof['theorems']) or 1, 'discharged': 0, 'checker_cmd': proof['checker_cmd'],
                                           'trusted_base': C.TRUSTED_BASE, 'explanation': 'harness build failed'}, [], time.time() - t0, 1)
        return 1

    rng = random.Random(seed * 7919 + (10 if prop == 'C10' else 11))
    if replay:
        import json
        cases = [json.load(open(replay))['case']]
    else:
        n = C.quick_n(800, tier) if tier == 'quick' else 20000
        max_ops, max_live = (60, 12) if tier == 'quick' else (200, 24)
        cases = G.corpus_cases()
        for i in range(n):
            big = (tier != 'quick' and i % 50 == 0)
            if i % 3 == 1:
                cases.append(G.gen_dense_case(rng, 40 if big else max_live))
            else:
                cases.append(G.gen_case(rng, 400 if big else max_ops, 40 if big else max_live, malformed=(i % 7 == 3)))
    work = os.path.join(C.CACHE, 'run', '%s-%s-%d' % (prop, tier, os.getpid()))
    os.makedirs(work, exist_ok=True)
    violations = []   # (message, case)
    divergences = []  # (case index, first differing line)
    stats = {'ops': 0, 'reorders': 0, 'cycles': 0, 'readds': 0, 'removed_node_ops': 0, 'cases': len(cases)}
    nontrivial = set()
    shard = 16
    chunks = [cases[i::shard] for i in range(shard)]
    import concurrent.futures
    def one(k):
        cs = chunks[k]
        if not cs:
            return k, [], []
        f = os.path.join(work, 'cases%d.txt' % k)
        open(f, 'w').write('\n'.join(' '.join(c) for c in cs) + '\n')
        rc1, o1, _ = C.sh([exe_impl, f], timeout=3000)
        o2 = ''
        if exe_model:
            rc2, o2, _ = C.sh([exe_model, 'graph', f], timeout=3000)
        return k, o1.split('\n'), o2.split('\n')
    with concurrent.futures.ThreadPoolExecutor(max_workers=16) as ex:
        results = list(ex.map(one, range(shard)))
    for k, o1, o2 in results:
        cs = chunks[k]
        if not cs:
            continue
        impl = G.parse_obs(o1)
        model = G.parse_obs(o2) if exe_model else None
        if len(impl) != len(cs):
            problems.append('implementation harness produced %d of %d cases (crash?)' % (len(impl), len(cs)))
            continue
        for ci, toks in enumerate(cs):
            msg, st = G.oracle(toks, impl[ci], prop)
            for key in ('reorders', 'cycles', 'readds', 'removed_node_ops'):
                stats[key] += st[key]
            stats['ops'] += len(impl[ci])
            if st['reorders'] or st['cycles'] or st['readds']:
                nontrivial.add(' '.join(toks))
            if msg:
                violations.append((msg, toks))
            if model is not None:
                proj = (lambda obs: [(r, st) for (r, st, q) in obs]) if prop == 'C10' else (lambda obs: obs)   # C10: op results + ranks/adjacency; C11: also all queries
                if ci >= len(model) or proj(model[ci]) != proj(impl[ci]):
                    mo = model[ci] if ci < len(model) else []
                    first = next((j for j, (a, b) in enumerate(zip(proj(impl[ci]), proj(mo))) if a != b), min(len(impl[ci]), len(mo)))
                    divergences.append((toks, first, impl[ci][first] if first < len(impl[ci]) else None, mo[first] if first < len(mo) else None))
    xc = None
    if exe_model and not replay:
        xc = extraction_crosscheck(exe_model, cases, work, 60 if tier == 'quick' else 400)
        if not xc['agree']:
            problems.append('extraction cross-check: evaluating grun inside Coq (vm_compute) and running the extracted OCaml model disagree, or the check could not run:\n' + xc.get('log', ''))
    import shutil
    shutil.rmtree(work, ignore_errors=True)

    # ---- verdict
    rc = 0
    known = C.load_known(prop)
    nviol = 0
    reported = set()
    if violations:
        violations.sort(key=lambda v: len(v[1]))
        seen_raw = set()
        firsts = []
        for msg, toks in violations:     # shrink only the shortest case of each raw signature
            if signature(msg) not in seen_raw:
                seen_raw.add(signature(msg)); firsts.append((msg, toks))
        for msg, toks in firsts[:6]:
            toks2, msg2 = shrink(exe_impl, toks, prop, msg)
            sig = signature(msg2)
            kf = next((k for k in known if k['signature'] == sig), None)
            if kf:
                if sig not in reported:
                    print('KNOWN-FINDING: property=%s %s' % (prop, kf['text']))
                    reported.add(sig)
                continue
            if sig in reported:
                continue
            reported.add(sig)
            nviol += 1
            rp = C.write_replay(prop, seed, nviol, {'property': prop, 'kind': 'violation', 'case': toks2, 'case_text': ' '.join(toks2),
                                                    'oracle': msg2, 'signature': sig, 'seed': seed,
                                                    'how_to_replay': './check %s --replay <this file>' % prop})
            print('VIOLATION property=%s replay=%s' % (prop, rp))
            print('  ' + msg2)
            rc = 1
            if nviol >= 3:
                break
    if rc == 0 and (problems or divergences):
        # proof or correspondence broken but the oracle found no failing input
        payload = {'property': prop, 'kind': 'no-failing-input-found', 'seed': seed, 'broken': problems[:5]}
        if divergences:
            toks, first, a, b = min(divergences, key=lambda d: len(d[0]))
            payload['correspondence'] = {'projection': 'graph_ops observations (op results, ranks, ordered adjacency with data, all queries)',
                                         'case': toks, 'case_text': ' '.join(toks), 'first_diverging_op': first, 'impl': a, 'model': b,
                                         'diverging_cases': len(divergences)}
            payload['case'] = toks
        rp = C.write_replay(prop, seed, 0, payload)
        for p in problems[:5]:
            print('BROKEN: ' + p.split('\n')[0])
        if divergences:
            print('BROKEN: model and implementation disagree on %d cases; first: %s' % (len(divergences), payload['correspondence']['case_text']))
        print('VIOLATION property=%s replay=%s no-failing-input-found' % (prop, rp))
        rc = 1
        nviol = 1
    cov = {
        'obligations': max(1, len(proof['theorems'])),
        'discharged': len(proof['theorems']) if proof['ok'] else 0,
        'checker_cmd': proof['checker_cmd'],
        'trusted_base': C.TRUSTED_BASE + ['axioms reported by Print Assumptions: ' + (', '.join(proof['axioms']) or 'none (closed under the global context)')] + (['coqchk -o (independent re-check of the compiled property file and its dependencies): ' + proof['coqchk']] if proof.get('coqchk') else []),
        'theorems': proof['theorems'],
        'extraction_crosscheck': ({k: v for k, v in xc.items() if k != 'log'} if xc else None),
        'evaluations': len(cases),
        'distinct_nontrivial': len(nontrivial),
        'rule': 'random + corpus DAG op sequences (add_node/add_edge/remove_edge/remove_outgoing/remove_node, ops on removed nodes, re-adds); '
                'run on pie_graph::DAG (graph_ops) and on the extracted Gallina model, all observations diffed; '
                'non-trivial = sequence with at least one rank reorder, rejected cycle or re-added edge',
        'samples': [' '.join(c) for c in cases[5:8]] or [' '.join(cases[0])],
        'traces_validated_against_impl': len(cases) - len(divergences),
        'distribution': stats,
        'model_impl_divergences': len(divergences),
        'oracle_failures': len(violations),
    }
    C.write_evidence(prop, tier, seed, cov,
                     ['node ids are never reused in the model (slotmap key reuse is translated by the harness)',
                      'u32 ranks modelled as N', 'unordered containers modelled as lists compared as sets'],
                     time.time() - t0, nviol)
    return rc


def signature(msg):
    import re
    m = msg.split(': ', 1)[1] if ': ' in msg else msg
    m = re.sub(r'\d+', 'N', m)
    m = re.sub(r'\[.*?\]', '[..]', m)
    return m[:80]


def shrink(exe_impl, toks, prop, msg):
    """greedy removal of ops while the oracle still fails on the implementation"""
    ops = G.toks_to_ops(toks)
    def flat(ops):
        out = []
        for o in ops:
            out += [str(x) for x in o]
        return out
    def fails(ops):
        # node indices must stay valid: creation order is preserved because we never remove 'A' ops that are referenced
        created = 0
        for o in ops:
            if o[0] == 'A':
                created += 1
            else:
                refs = o[1:3] if o[0] in 'EX' else o[1:2]
                if any(r >= created for r in refs):
                    return None
        t = flat(ops)
        f = os.path.join(C.CACHE, 'shrink-%d.txt' % os.getpid())
        open(f, 'w').write(' '.join(t) + '\n')
        rc, o1, _ = C.sh([exe_impl, f], timeout=60)
        os.remove(f)
        obs = G.parse_obs(o1.split('\n'))
        if not obs:
            return None
        m, _ = G.oracle(t, obs[0], prop)
        return m
    cur = ops
    curmsg = msg
    changed = True
    rounds = 0
    while changed and rounds < 6:
        changed = False
        rounds += 1
        i = len(cur) - 1
        while i >= 0:
            cand = cur[:i] + cur[i + 1:]
            m = fails(cand)
            if m:
                cur = cand; curmsg = m; changed = True
            i -= 1
    return flat(cur), curmsg

"""Checks for the pie layer (C01-C09, C16-C20): proof gate + correspondence (extracted model vs real Pie) + oracles."""
import concurrent.futures, json, os, random, shutil, time
from . import common as C
from . import pie as P
from . import oracles as O
from . import small as SM

CONFIG = {
    'C01': dict(xcheck=True, streams=[('td_class', 480), ('td_wf', 880), ('td_coarse', 320), ('fail_wf', 200), ('panic', 240), ('multi', 40), ('inj_cycle', 240), ('inj_hidden', 80), ('inj_overlap', 80)], keep='om'),
    'C02': dict(streams=[('td_exact', 880), ('td_wf', 480), ('td_mid', 160), ('panic', 240), ('fail_wf', 240), ('fail_exact', 320), ('bu_wf', 240), ('newreq', 120)], keep='ov'),
    'C03': dict(xcheck=True, streams=[('bu_class', 320), ('bu_wf', 720), ('mixed_wf', 320), ('newreq', 160), ('cutoff_newreq', 160), ('reported_products', 160), ('fail_bu', 200), ('mid_session', 160), ('abort_bu', 120)], keep='ovm', extra='lossy'),
    'C04': dict(xcheck=True, streams=[('bu_class', 320), ('bu_wf', 960), ('mixed_wf', 160), ('newreq', 160), ('cutoff_newreq', 240), ('reported_products', 120), ('abort_bu', 240)], keep='ov'),
    'C05': dict(streams=[('inj_hidden', 1200), ('siblings', 240), ('td_wf', 160), ('same_session', 80), ('chain_readers', 160), ('newreq', 240), ('cycle_then_hidden', 160)], keep='om', extra='wabort'),
    'C06': dict(streams=[('inj_overlap', 1200), ('td_wf', 160), ('same_session', 80), ('newreq', 160)], keep='om', extra='wabort'),
    'C07': dict(streams=[('inj_cycle', 880), ('reorder_cycle', 240), ('cycle_query', 240), ('newreq', 160), ('mid_session', 240)], keep='ov'),
    'C08': dict(xcheck=True, streams=[('td_wf', 560), ('bu_wf', 320), ('multi', 80), ('panic', 240), ('abort_bu', 120), ('newreq', 160), ('same_abort', 80), ('fail_wf', 160)], keep='od'),
    'C09': dict(streams=[('td_coarse', 880), ('bu_wf', 320), ('multi', 80), ('near_td', 300), ('near_bu', 200), ('panic', 120), ('multi_read', 60)], keep='dv', extra='stampsrc,lossy'),
    'C16': dict(streams=[('td_wf', 240), ('bu_wf', 240), ('mixed_wf', 120), ('newreq', 160), ('abort_bu', 200), ('panic', 160)], keep='oevdm', two_process=True, extra='fsclock'),
    'C17': dict(streams=[('td_wf', 480), ('bu_wf', 480), ('fail_wf', 240), ('panic', 160), ('failstamp', 160)], keep='v', extra='tracker'),
    'C18': dict(streams=[('fail_wf', 800), ('fail_bu', 500), ('fail_mixed', 300), ('fail_panic', 400)], keep='eov', extra='flaky'),
    'C19': dict(xcheck=True, streams=[('panic', 800), ('abort_bu', 160), ('inj_hidden', 200), ('inj_overlap', 200), ('inj_cycle', 200), ('same_abort', 120)], keep='od'),
    'C20': dict(streams=[('td_class', 320), ('td_wf', 480), ('bu_wf', 240), ('roles', 640), ('same_abort', 120), ('chain_readers', 200), ('role_swap_bu', 200)], keep='o'),
}
THOROUGH_FACTOR = 12


def has_extra(cfg, name):
    return name in str(cfg.get('extra', '')).split(',')


def make_case(rng, stream, big=False):
    P.NEAR[0] = False
    nt = rng.randint(3, 7) if not big else rng.randint(8, 16)
    ns = rng.randint(2, 6) if not big else rng.randint(5, 12)
    if stream == 'roles':
        p = P.gen_roles_program(rng)
        steps, meta = P.gen_roles_history(rng, p, rng.randint(2, 5))
        return p, steps, norm_meta(meta, 'roles')
    if stream == 'siblings':
        p, steps = P.gen_sibling_program(rng)
        return p, steps, norm_meta({}, 'td')
    if stream == 'newreq':
        p, steps, meta = P.gen_newreq_program(rng)
        return p, steps, norm_meta(meta, 'mixed')
    if stream == 'chain_readers':
        p, steps, meta = P.gen_chain_readers_program(rng)
        return p, steps, norm_meta(meta, 'mixed')
    if stream == 'reported_products':
        p, steps, meta = P.gen_reported_products_program(rng)
        return p, steps, norm_meta(meta, 'bu')
    if stream == 'cutoff_newreq':
        p, steps, meta = P.gen_cutoff_newreq_program(rng)
        return p, steps, norm_meta(meta, 'bu')
    if stream == 'abort_bu':
        p, steps, meta = P.gen_abort_bu_program(rng)
        return p, steps, norm_meta(meta, 'mixed')
    if stream == 'role_swap_bu':
        p, steps = P.gen_role_swap_bu_program(rng)
        return p, steps, norm_meta({}, 'roles')
    if stream == 'cycle_then_hidden':
        p, steps = P.gen_cycle_then_hidden_program(rng)
        return p, steps, norm_meta({}, 'td')
    if stream == 'cycle_query':
        p, steps = P.gen_cycle_after_query_program(rng)
        return p, steps, norm_meta({}, 'td')
    if stream == 'reorder_cycle':
        p, steps = P.gen_reorder_cycle_program(rng)
        return p, steps, norm_meta({}, 'td')
    if stream == 'same_session':
        p, steps, meta = P.gen_same_session_program(rng)
        m = norm_meta({}, 'td')         # compared with the model (Build.run_zsession)
        return p, steps, m
    if stream == 'same_abort':
        p, steps, meta = P.gen_same_abort_program(rng)
        m = norm_meta({}, 'td')         # compared with the model (Build.run_zsession)
        return p, steps, m
    if stream == 'td_mid':
        p, steps, meta = P.gen_td_mid_program(rng)
        m = norm_meta({}, 'td'); m['only_sigs'] = ('executed-twice',)      # compared with the model (Build.run_msession)
        return p, steps, m
    if stream == 'mid_session':
        p, steps, meta = P.gen_mid_session_program(rng)
        m = norm_meta(meta, 'bu')      # compared with the model (Build.run_msession)
        return p, steps, m
    if stream == 'multi_read':
        p, steps = P.gen_multi_read_program(rng)
        return p, steps, norm_meta({}, 'td')
    if stream == 'multi':
        p = P.gen_multi_program(rng)
        steps = [['E', '0', '1'], ['S', '1', 'q', '0'], ['E', '0', '2'], ['S', '1', 'q', '0'], ['S', '1', 'q', '0']]
        return p, steps, norm_meta({}, 'td')
    P.NEAR[0] = stream in ('near_td', 'near_bu')      # requires with the tolerance checker (a verdict depends on exactly which stamp is stored)
    exact = stream in ('td_exact', 'fail_exact') or (stream == 'panic' and rng.random() < 0.5)      # half of the panic programs use exact checkers only
    fail = stream in ('fail_wf', 'failstamp', 'fail_bu', 'fail_mixed', 'fail_panic', 'fail_exact')
    coarse = stream == 'td_coarse'
    p = P.gen_wf_program(rng, nt, exact_only=exact, allow_fail=fail, coarse_writers=coarse, norepeat=(stream in ('td_class', 'bu_class')))
    mode = 'td'
    if stream in ('bu_wf', 'fail_bu', 'bu_class', 'near_bu'): mode = 'bu'
    if stream == 'fail_mixed': mode = 'mixed'
    if stream == 'mixed_wf': mode = 'mixed'
    if stream == 'inj_hidden':
        f = rng.choice([P.inject_hidden_read, P.inject_hidden_read, P.inject_source_write, P.inject_self_rw])
        p = f(rng, p); mode = rng.choice(['td', 'td', 'mixed'])
    elif stream == 'inj_overlap':
        f = rng.choice([P.inject_foreign_write, P.inject_foreign_write, P.inject_self_rw])
        p = f(rng, p); mode = rng.choice(['td', 'td', 'mixed'])
    elif stream == 'inj_cycle':
        p = P.inject_back_require(rng, p); mode = rng.choice(['td', 'td', 'mixed'])
    elif stream == 'panic':
        p = P.inject_panic(rng, p); mode = rng.choice(['td', 'td', 'td', 'mixed'])
    elif stream == 'fail_panic':      # failing checkers AND builds that abort (a task panics): the errors raised before the abort are still reported
        p = P.inject_panic(rng, p); mode = rng.choice(['bu', 'bu', 'mixed', 'td'])
    if stream == 'failstamp':
        p.kind = 'failstamp'          # stamping errors are returned to the task: outside the C01 class
        p.tasks = {t: swap_checker(c, 4, 5) for t, c in p.tasks.items()}
        p.generated = {g: (gt, 5 if wc == 4 else wc) for g, (gt, wc) in p.generated.items()}
    steps, meta = P.gen_history(rng, p, ns, mode=mode, probes=True)
    return p, steps, norm_meta(meta, mode)


def swap_checker(c, a, b):
    k = c[0]
    if k in ('R', 'X'): return (k, c[1], b if c[2] == a else c[2], swap_checker(c[3], a, b))
    if k == 'Q': return (k, c[1], c[2], swap_checker(c[3], a, b))
    if k in ('W', 'N'): return (k, c[1], b if c[2] == a else c[2], c[3], swap_checker(c[4], a, b))
    if k == 'I': return (k, c[1], swap_checker(c[2], a, b), swap_checker(c[3], a, b))
    return c


def norm_meta(meta, mode):
    return {'mode': mode, 'repeat_steps': set(meta.get('repeat', ())), 'probe_steps': dict(meta.get('probe', {})), 'bu_steps': set(meta.get('bu', ()))}


def step_index_map(steps):
    """history steps are numbered as the harness numbers them: one per step token group"""
    return list(range(len(steps)))


def run_cases(exe_impl, exe_model, cases, work, fresh=True, tag='', noise=False):
    """cases: list of token lists.  Returns (impl_lines_per_case, model_lines_per_case or None, problems)"""
    shard = 16
    chunks = [cases[i::shard] for i in range(shard)]
    problems = []
    def one(k):
        cs = chunks[k]
        if not cs:
            return k, [], []
        f = os.path.join(work, 'cases%s%d.txt' % (tag, k))
        open(f, 'w').write('\n'.join(' '.join(c) for c in cs) + '\n')
        rc1, o1, _ = C.sh([exe_impl, f] + (['--fresh'] if fresh else []) + (['--noise'] if noise else []), timeout=3000)
        o2 = None
        if exe_model:
            rc2, o2, _ = C.sh([exe_model, 'pie', f], timeout=3000)
        return k, (rc1, o1.split('\n')), (o2.split('\n') if o2 is not None else None)
    with concurrent.futures.ThreadPoolExecutor(max_workers=16) as ex:
        results = list(ex.map(one, range(shard)))
    impl = [None] * len(cases)
    model = [None] * len(cases)
    for k, r1, o2 in results:
        cs = chunks[k]
        if not cs:
            continue
        rc1, o1 = r1
        # split by case
        ic = split_all(o1)
        mc = split_all(o2) if o2 is not None else None
        if rc1 != 0 and ic:
            ic = ic[:-1]          # the process died inside its last case (output is flushed at every case start): that case is the crash
        for j in range(len(cs)):
            gi = k + j * shard
            impl[gi] = ic[j] if j < len(ic) else None
            if mc is not None:
                model[gi] = mc[j] if j < len(mc) else None
        if len(ic) < len(cs):
            problems.append(('crash', k + len(ic) * shard if len(ic) * shard + k < len(cases) else k, rc1))
    return impl, (model if exe_model else None), problems


def split_all(lines):
    cases = []
    cur = None
    for l in lines:
        if l.startswith('C '):
            cur = []; cases.append(cur)
        elif cur is not None and l:
            cur.append(l)
    return cases


COMPARABLE_SKIP = ('t', 'x', 'k', 'v2', 'fo', 'fx', 'fm', 'pm', 'fk')


def comparable(lines, keep):
    out = []
    for l in lines:
        tag = l.split(' ', 1)[0]
        if tag == 'S' or (tag in ('o', 'e', 'v', 'd', 'm') and tag in keep):
            out.append(l)
    return out


def extraction_crosscheck(exe_model, toks_list, work, k):
    """Trusted-base reduction for the engine layer: for k of this run's histories the OCaml driver prints table, steps and the
    observable projection of what the EXTRACTED model computed as Gallina terms; the kernel then checks by vm_compute that
    the three session runners of the model (Build.run_history's step function, run_msession, run_zsession at the harness's checker
    tables; the wrapper is proved equal to Dsl.dsl_run_history on plain histories in the same file) yield
    exactly that: session results, outputs, resource contents, consistent set, errors, the complete event stream, queue, and the
    dependency graph with ranks, ordered adjacency and edge data."""
    pick = [c for c in toks_list if len(c) <= 160]
    step = max(1, len(pick) // (k * 2))
    pick = pick[::step][:k * 2]
    f = os.path.join(work, 'xc_cases.txt')
    open(f, 'w').write('\n'.join(' '.join(c) for c in pick) + '\n')
    rc, out, _ = C.sh([exe_model, 'pieraw', f], timeout=900)
    lines = [l for l in out.split('\n') if l.startswith('X ') or l == 'SKIP']
    if rc != 0 or len(lines) != len(pick):
        return {'agree': False, 'cases': 0, 'log': 'driver pieraw failed: rc=%s, %d lines for %d cases\n%s' % (rc, len(lines), len(pick), out[-800:])}
    terms = [l[2:].split(' @@ ') for l in lines if l.startswith('X ')][:k]
    v = ['From Coq Require Import List NArith ZArith.', 'Import ListNotations.', 'From PieV Require Import Model.Dag Model.Build Model.Dsl.',
         '(* the three session runners the correspondence run uses, folded over a history exactly as the driver folds them *)',
         'Inductive xstep := XPlain (s : step) | XM (ops : list mop) | XZ (ops : list mop).',
         'Definition xrun (tb : table) (fuel : nat) (w : world) (x : xstep) : list sres * world :=',
         '  match x with XPlain s => dsl_run_step tb fuel w s | XM ops => dsl_run_msession tb fuel (new_session w) ops',
         '             | XZ ops => dsl_run_zsession tb fuel (new_session w) ops end.',
         'Fixpoint xhist (tb : table) (fuel : nat) (w : world) (l : list xstep) : list (list sres) * world :=',
         '  match l with [] => ([], w) | x :: tl => let (r, w1) := xrun tb fuel w x in let (rs, w2) := xhist tb fuel w1 tl in (r :: rs, w2) end.',
         '(* on plain steps this is Build.run_history at the harness tables *)',
         'Lemma xhist_plain tb fuel : forall l w, xhist tb fuel w (map XPlain l) = dsl_run_history tb fuel w l.',
         'Proof. induction l as [|s tl IH]; intros w; cbn [map xhist]; [reflexivity|]. unfold dsl_run_history in *. cbn [Build.run_history xrun]. unfold dsl_run_step. destruct (Build.run_step _ _ _ _ _ _ _) as [r w1]. rewrite IH. reflexivity. Qed.',
         'Definition proj (x : list (list sres) * world) :=',
         '  (fst x, outs (snd x), rstate (snd x), consistent (snd x), errs (snd x), trace (snd x), queue (snd x),',
         '   map (fun p => (fst p, rank (snd p), kids (snd p), pars (snd p))) (infos (gr (snd x))), edata (gr (snd x))).']
    for i, (tb, steps, exp) in enumerate(terms):
        v.append('Example xc_%d : proj (xhist %s (N.to_nat 3000) init_world %s) = %s.' % (i, tb, steps, exp))
        v.append('Proof. vm_compute. reflexivity. Qed.')
    vf = os.path.join(work, 'XCheckPie.v')
    open(vf, 'w').write('\n'.join(v) + '\n')
    rc, out, dt = C.sh(['coqc', '-q', '-Q', os.path.join(C.COQ, 'theories'), 'PieV', vf], cwd=work, timeout=1500)
    return {'agree': rc == 0, 'cases': len(terms), 'wall_s': round(dt, 2), 'log': out[-1500:] if rc != 0 else ''}


def run(prop, tier, seed, replay=None):
    t0 = time.time()
    cfg = CONFIG[prop]
    problems = []
    proof = C.proof_gate(prop, tier)
    if not proof['ok']:
        problems += proof['problems']
    exe_model, err = C.build_driver()
    if exe_model is None:
        problems.append(err)
    exe_impl, out = C.build_harness('pie_hist')
    if exe_impl is None:
        print('harness build failed:\n' + out[-3000:])
        rp = C.write_replay(prop, seed, 0, {'property': prop, 'kind': 'no-failing-input-found', 'broken': 'harness build (pie_hist) against /repo failed', 'log': out[-4000:]})
        print('VIOLATION property=%s replay=%s no-failing-input-found' % (prop, rp))
        C.write_evidence(prop, tier, seed, {'obligations': len(proof['theorems']) or 1, 'discharged': 0, 'checker_cmd': proof['checker_cmd'],
                                           'trusted_base': C.TRUSTED_BASE, 'explanation': 'harness build failed'}, [], time.time() - t0, 1)
        return 1

    rng = random.Random(seed * 104729 + int(prop[1:]))
    cases = []     # (prog, steps, meta, toks, stream)
    if replay:
        data = json.load(open(replay))
        toks = data['case']
        cases.append((restore_prog(data), None, restore_meta(data), toks, data.get('stream', 'replay')))
    else:
        for prog, steps, meta, stream in corpus(prop):
            cases.append((prog, steps, meta, P.case_tokens(prog, steps), stream))
        for stream, n in cfg['streams']:
            if tier != 'quick':
                n *= THOROUGH_FACTOR
            for i in range(n):
                prog, steps, meta = make_case(rng, stream, big=((tier != 'quick' and i % 10 == 0) or (tier == 'quick' and stream.startswith('inj_') and i % 4 == 0)))
                cases.append((prog, steps, meta, P.case_tokens(prog, steps), stream))
        if tier == 'quick' and C.escalation()[0] > 1:
            # the working tree differs from the validated baseline: more draws per stream, AFTER the standard ones (same prefix)
            rng2 = random.Random(seed * 15485863 + int(prop[1:]))
            for stream, n in cfg['streams']:
                for i in range(n * (C.escalation()[0] - 1)):
                    prog, steps, meta = make_case(rng2, stream, big=(stream.startswith('inj_') and i % 4 == 0))
                    cases.append((prog, steps, meta, P.case_tokens(prog, steps), stream))
    work = os.path.join(C.CACHE, 'run', '%s-%s-%d' % (prop, tier, os.getpid()))
    os.makedirs(work, exist_ok=True)
    toks_list = [c[3] for c in cases]
    if replay and cases[0][4].endswith('_probe'):
        toks_list = []
    impl, model, crashes = run_cases(exe_impl, exe_model, toks_list, work)
    xc = None
    if cfg.get('xcheck') and exe_model and not replay:
        xc = extraction_crosscheck(exe_model, toks_list, work, 40 if tier == 'quick' else 300)
        if not xc['agree']:
            problems.append('extraction cross-check: evaluating dsl_run_history inside Coq (vm_compute) and running the extracted OCaml model disagree, or the check could not run:\n' + xc.get('log', ''))
    impl2 = None
    if cfg.get('two_process'):
        impl2, _, _ = run_cases(exe_impl, None, toks_list, work, tag='b', noise=True)   # second process: after an unrelated instance in the same thread

    findings = []      # (sig, msg, case index)
    divergences = []
    dist = {'sessions': 0, 'executions': 0, 'aborts': {}, 'reused_sessions': 0, 'bottom_up_builds': 0, 'checker_errors': 0, 'streams': {}}
    nontrivial = set()
    for i, (prog, steps, meta, toks, stream) in enumerate(cases):
        if stream.endswith('_probe'):
            continue
        if impl[i] is None:
            findings.append(('crash', 'the implementation harness crashed or did not terminate on this case (stack overflow / abort)', i))
            continue
        sessions = P.parse_obs(['C 0'] + impl[i])[0]
        dist['streams'][stream] = dist['streams'].get(stream, 0) + 1
        try:
            wfp_, static_ = P.in_proved_class(prog)
        except Exception:
            wfp_, static_ = False, False
        if wfp_: dist['in_theorem_class_WFP'] = dist.get('in_theorem_class_WFP', 0) + 1
        if static_: dist['in_static_class_WFP_WFO'] = dist.get('in_static_class_WFP_WFO', 0) + 1
        nx = 0
        for s in sessions:
            dist['sessions'] += 1
            c = sum(P.exec_counts(s.events).values())
            nx += c
            dist['executions'] += c
            if c == 0 and not O.aborted(s): dist['reused_sessions'] += 1
            for k in O.abort_kinds(s):
                dist['aborts'][k] = dist['aborts'].get(k, 0) + 1
            if any(o.startswith('o b') for o in s.ops): dist['bottom_up_builds'] += 1
            dist['checker_errors'] += len(s.errs)
        if nx >= 2 and len(sessions) >= 2:
            nontrivial.add(' '.join(toks))
        meta = dict(meta); meta['env_at'] = O.env_at(toks)
        fs = O.run_oracles(prog, meta, sessions)
        if meta.get('only_sigs'):
            fs = [f for f in fs if f[1] in meta['only_sigs']]
        for (pr, sig, msg) in fs:
            pr2, sig2 = remap(prog, pr, sig, toks)
            if mine(prop, pr2, sig2):
                findings.append((sig2, msg, i))
        if impl2 is not None and impl2[i] != impl[i]:
            a, b = impl[i], impl2[i] or []
            first = next((j for j, (x, y) in enumerate(zip(a, b)) if x != y), min(len(a), len(b)))
            findings.append(('nondeterministic', 'two replays of the same history in two processes (the second one after an unrelated instance had been built, and a bottom-up build of it abandoned, in the same thread, and with freed heap blocks held in quarantine so that heap addresses are reused differently) differ at observation line %d: %r vs %r' % (first, a[first] if first < len(a) else None, b[first] if first < len(b) else None), i))
        if model is not None and not meta.get('impl_only'):
            a = comparable(impl[i], cfg['keep'])
            b = comparable(model[i] or [], cfg['keep'])
            if a != b:
                first = next((j for j, (x, y) in enumerate(zip(a, b)) if x != y), min(len(a), len(b)))
                divergences.append((i, first, a[first] if first < len(a) else None, b[first] if first < len(b) else None))
    if has_extra(cfg, 'stampsrc') and (not replay or cases[0][4] == 'stampsrc_probe'):
        # where stamps come from: a resource that numbers its opens (harness misc_probe stampsrc), both contexts, nested or not
        exe_probe, pout = C.build_harness('misc_probe')
        rc1, o1, _ = C.sh([exe_probe, 'stampsrc'], timeout=600) if exe_probe else (1, '', 0)
        lines = [l for l in o1.split('\n') if l.startswith('stampsrc ')]
        base = len(cases) if not replay else 0
        if not replay: cases.append((None, None, {}, ['stampsrc'], 'stampsrc_probe'))
        if rc1 != 0 or len(lines) != 12:
            findings.append(('crash', 'the stamp-source probe crashed or printed %d of 12 lines' % len(lines), base))
        for l in lines:
            kv = dict(x.split('=') for x in l.split()[1:])
            seen0 = kv['seen'].split(',')[0]
            exp = {'0': 'r' + seen0, '1': 'w' + seen0, '2': 'w0'}[kv['mode']]
            if kv['stamps'] != exp or kv['opens'] != '1':
                what = {'0': 'read', '1': 'write', '2': 'create_writer + written_to'}[kv['mode']]
                findings.append(('stamp-source', 'stamp-source probe (%s context, %s%s): the task used open #%s of the resource, the recorded stamp is %s (expected %s) and the resource was opened %s time(s) (expected 1): the stamp was not taken from the very reader/writer handed to the task' % (kv['ctx'], what, ', nested' if kv['nested'] == '1' else '', seen0, kv['stamps'], exp, kv['opens']), base))
                break
    if has_extra(cfg, 'fsclock') and (not replay or cases[0][4] == 'fsclock_probe'):
        # stamps and verdicts of the file checkers are functions of the file, not of the wall clock: the same path states (with
        # modification times in the past and in the future) probed twice, more than a second apart, give the same lines
        exe_fs, pout = C.build_harness('fs_probe')
        fcases = ["F 10 0 100 | F 10 0 100", "F 10 0 3000000000 | F 10 0 3000000000", "F 0 0 3000000000 | F 0 0 3000000001",
                  "D 3000000000 1 a | D 3000000000 1 a", "F 9000 1 3000000000 | A", "A | F 10 0 3000000000"]
        f = os.path.join(work if os.path.isdir(work) else C.CACHE, 'fsclock.txt')
        os.makedirs(os.path.dirname(f), exist_ok=True)
        open(f, 'w').write('\n'.join(fcases) + '\n')
        base = len(cases) if not replay else 0
        if not replay: cases.append((None, None, {}, ['fsclock'], 'fsclock_probe'))
        if exe_fs:
            rc1, o1, _ = C.sh([exe_fs, f, '--stamps'], timeout=600)
            time.sleep(1.3)
            rc2, o2, _ = C.sh([exe_fs, f, '--stamps'], timeout=600)
            l1 = [l for l in o1.split('\n') if l and not l.startswith('w ') and not l.startswith('w2 ')]    # the write route stamps a file written NOW
            l2 = [l for l in o2.split('\n') if l and not l.startswith('w ') and not l.startswith('w2 ')]
            if rc1 != 0 or rc2 != 0 or not l1:
                findings.append(('crash', 'the file-clock probe crashed', base))
            elif l1 != l2:
                d = next((a, b) for a, b in zip(l1, l2) if a != b) if len(l1) == len(l2) else (len(l1), len(l2))
                findings.append(('clock-dependent', 'the same path states probed twice, 1.3 s apart, give different stamps / verdicts: %r vs %r' % d, base))
        else:
            findings.append(('crash', 'fs_probe did not build', base))
    for pname, plines, expect, what in (
            ('flaky', 4, {'flaky ctx=td armed=1 errs=[77] execs=1 checks=1 left=0', 'flaky ctx=td armed=2 errs=[77] execs=1 checks=1 left=1',
                          'flaky ctx=bu armed=1 errs=[77] execs=1 checks=1 left=0', 'flaky ctx=bu armed=2 errs=[77] execs=1 checks=1 left=1'},
             'a resource checker that fails its next N checks: the one check of the dependency fails once, the error is reported, the owner is executed (top-down) / scheduled and executed (bottom-up), and the checker is not asked again'),
            ('lossy', 2, {'lossy ctx=td first=2 out=4 up_execs_in_bottom_up=0 up_execs_total=1', 'lossy ctx=bu first=2 out=4 up_execs_in_bottom_up=1 up_execs_total=1'},
             'an output type whose Debug text is the same for every value: the requirer with the equality checker is re-executed (top-down) / scheduled and executed in the bottom-up build (and not again afterwards) when the required output changes')):
        if has_extra(cfg, pname) and (not replay or cases[0][4] == pname + '_probe'):
            exe_probe, pout = C.build_harness('misc_probe')
            rc1, o1, _ = C.sh([exe_probe, pname], timeout=600) if exe_probe else (1, '', 0)
            got = [l for l in o1.split('\n') if l.startswith(pname + ' ')]
            base = len(cases) if not replay else 0
            if not replay: cases.append((None, None, {}, [pname], pname + '_probe'))
            if rc1 != 0 or len(got) != plines:
                findings.append(('crash', 'the %s probe crashed or printed %d of %d lines' % (pname, len(got), plines), base))
            else:
                bad = [l for l in got if l not in expect]
                if bad:
                    findings.append((pname + '-probe', '%s probe: observed %r; expected: %s' % (pname, bad[0], what), base))
    if has_extra(cfg, 'wabort') and (not replay or cases[0][4] == 'wabort_probe'):
        # opening a resource for writing may itself modify it (a file is created / truncated): a rejected write through the
        # context must be rejected before Resource::write is called
        exe_probe, pout = C.build_harness('misc_probe')
        rc1, o1, _ = C.sh([exe_probe, 'wabort'], timeout=600) if exe_probe else (1, '', 0)
        kind = 'hidden' if prop == 'C05' else 'overlap'
        lines = [l for l in o1.split('\n') if l.startswith('wabort kind=%s ' % kind)]
        base = len(cases) if not replay else 0
        if not replay: cases.append((None, None, {}, ['wabort'], 'wabort_probe'))
        if rc1 != 0 or len(lines) != 4:
            findings.append(('crash', 'the write-abort probe crashed or printed %d of 4 lines' % len(lines), base))
        for l in lines:
            kv = dict(x.split('=', 1) for x in l.split()[1:])
            where = 'write-abort probe (%s, second build in the %s session%s)' % (kind, kv['session'], ', writer required by another task' if kv['nested'] == '1' else '')
            if kv['aborted'] != '1' or not kv['msg'].startswith('Hidden' if kind == 'hidden' else 'Overlapping'):
                findings.append(('not-detected', '%s: the build did not abort with the %s diagnosis (aborted=%s %s)' % (where, kind, kv['aborted'], kv['msg']), base)); break
            if kv['opens_after'] != kv['opens_before']:
                findings.append(('modified-before-abort', '%s: the resource was opened for writing (%s -> %s opens; a file would have been created or truncated) although the write was rejected' % (where, kv['opens_before'], kv['opens_after']), base)); break
    if has_extra(cfg, 'tracker') and (not replay or cases[0][4] == 'tracker_probe'):
        tcases = [c[3] for c in cases] if replay else [SM.ALL_KINDS_CASE] + [SM.gen_tracker_case(rng) for _ in range(C.quick_n(600, tier) if tier == 'quick' else 20000)]
        exe_probe, pout = C.build_harness('misc_probe')
        f = os.path.join(work, 'tracker.txt')
        open(f, 'w').write('\n'.join(' '.join(c) for c in tcases) + '\n')
        rc1, o1, _ = C.sh([exe_probe, 'tracker', f], timeout=3000) if exe_probe else (1, '', 0)
        ic = split_all(o1.split('\n'))
        mc = None
        if exe_model:
            rc2, o2, _ = C.sh([exe_model, 'tracker', f], timeout=3000)
            mc = split_all(o2.split('\n'))
        base = len(cases) if not replay else 0
        for j, toks in enumerate(tcases):
            if not replay:
                cases.append((None, None, {}, toks, 'tracker_probe'))
            if j >= len(ic):
                findings.append(('crash', 'tracker probe crashed on this event sequence', base + j)); continue
            msg = SM.tracker_oracle(toks, ic[j])
            if msg:
                import re as _re
                findings.append(('tracker-' + _re.sub(r'[0-9]+', 'N', msg.split(':')[0].split(' (')[0])[:40], msg, base + j))
            if mc is not None and (j >= len(mc) or mc[j] != ic[j]):
                a, b_ = ic[j], (mc[j] if j < len(mc) else [])
                first = next((k for k, (x, y) in enumerate(zip(a, b_)) if x != y), min(len(a), len(b_)))
                divergences.append((base + j, first, a[first] if first < len(a) else None, b_[first] if first < len(b_) else None))
            if len(toks) > 12: nontrivial.add(' '.join(toks))
    shutil.rmtree(work, ignore_errors=True)

    # ---- verdict
    rc = 0
    nviol = 0
    known = C.load_known(prop)
    reported = set()
    by_sig = {}
    for sig, msg, i in findings:
        if sig not in by_sig or len(cases[i][3]) < len(cases[by_sig[sig][1]][3]):
            by_sig[sig] = (msg, i)
    for sig, (msg, i) in sorted(by_sig.items())[:4]:
        kf = next((k for k in known if k['signature'] == sig), None)
        if kf:
            print('KNOWN-FINDING: property=%s %s' % (prop, kf['text']))
            continue
        prog, steps, meta, toks, stream = cases[i]
        toks2, msg2 = shrink_case(exe_impl, prog, steps, meta, prop, sig, msg) if steps is not None else (toks, msg)
        nviol += 1
        rp = C.write_replay(prop, seed, nviol, replay_payload(prop, 'violation', seed, prog, meta, toks2, stream, {'oracle': msg2, 'signature': sig}))
        print('VIOLATION property=%s replay=%s' % (prop, rp))
        print('  ' + msg2)
        rc = 1
    if rc == 0 and (problems or divergences):
        payload = {'broken': [p.split('\n')[0] for p in problems[:5]]}
        prog = meta = toks = stream = None
        if divergences:
            i, first, a, b = min(divergences, key=lambda d: len(cases[d[0]][3]))
            prog, steps, meta, toks, stream = cases[i]
            payload['correspondence'] = {'projection': 'pie_hist observation lines of kinds %r' % cfg['keep'], 'first_diverging_line': first,
                                         'impl': a, 'model': b, 'diverging_cases': len(divergences)}
        rp = C.write_replay(prop, seed, 0, replay_payload(prop, 'no-failing-input-found', seed, prog, meta, toks, stream, payload))
        for p in problems[:5]:
            print('BROKEN: ' + p.split('\n')[0])
        if divergences:
            print('BROKEN: model and implementation disagree on %d cases (projection %r); first: impl %r / model %r' % (len(divergences), cfg['keep'], payload['correspondence']['impl'], payload['correspondence']['model']))
        print('VIOLATION property=%s replay=%s no-failing-input-found' % (prop, rp))
        rc = 1
        nviol = 1
    for k in dist['aborts']:
        pass
    cov = {
        'obligations': max(1, len(proof['theorems'])),
        'discharged': len(proof['theorems']) if proof['ok'] else 0,
        'checker_cmd': proof['checker_cmd'],
        'trusted_base': C.TRUSTED_BASE + ['axioms reported by Print Assumptions: ' + (', '.join(proof['axioms']) or 'none (closed under the global context)')] + (['coqchk -o (independent re-check of the compiled property file and its dependencies): ' + proof['coqchk']] if proof.get('coqchk') else []),
        'theorems': proof['theorems'],
        'extraction_crosscheck': ({k: v for k, v in xc.items() if k != 'log'} if xc else None),
        'evaluations': len(cases),
        'distinct_nontrivial': len(nontrivial),
        'rule': 'generated DSL task programs + histories (streams: %s) run on the real Pie (pie_hist: outputs, full 23-kind event stream, store dump, '
                'resource contents, from-scratch reference on a fresh instance) and on the extracted Gallina model; compared lines: %r; '
                'non-trivial = history with >= 2 sessions and >= 2 task executions' % (', '.join('%s x%d' % s for s in cfg['streams']), cfg['keep']),
        'samples': [' '.join(c[3]) for c in cases[-3:]],
        'traces_validated_against_impl': len(cases) - len(divergences),
        'distribution': dist,
        'model_impl_divergences': len(divergences),
        'oracle_findings': len(findings),
    }
    C.write_evidence(prop, tier, seed, cov,
                     ['task/resource keys are N; the store key maps are the injections tn/rn (C15 treats key identity)',
                      'checkers are records of functions; five concrete resource checkers and three output checkers are executed',
                      'panics are Abort values carrying the world the unwinding leaves behind; single-threaded use'],
                     time.time() - t0, nviol)
    return rc


# findings of a neighbouring property that a check also reports as its own: C01's statement (a require that returns gives
# the from-scratch result) does not stop holding when a checker fails during validation
ALSO = {'C01': {('C18', 'stale-output'), ('C18', 'stale-resource'),
                # ... nor after an earlier build on the same instance was aborted ("whatever was built before")
                ('C19', 'stale-output'), ('C19', 'stale-resource')},
        # a dependency the store records although the task's latest execution did not create it makes later builds re-execute the
        # task for no reason a from-scratch build would have (the "only if one of ITS dependencies ..." clause)
        'C02': {('C08', 'recorded-deps-differ'), ('C08', 'phantom-dependency'), ('C19', 'phantom-dependency'),
                # a task that COMPLETED in a bottom-up build and is executed again by a later require with nothing changed ("only if it
                # has never completed before or a dependency ... is reported inconsistent")
                ('C03', 'stale-after-bottom-up')},
        # the bottom-up build must leave every known task up to date also when a checker fails while scheduling
        'C03': {('C18', 'stale-after-erring-bottom-up'), ('C09', 'dependency-not-checked'), ('C09', 'requirer-not-checked')},
        'C04': {('C09', 'requirer-not-checked'), ('C09', 'dependency-not-checked')},
        # "every dependency it declared can cause it to be re-executed or scheduled": a task left stale by a bottom-up build that was
        # told about the change of a resource the task depends on
        'C08': {('C03', 'stale-after-bottom-up'), ('C18', 'stale-output'), ('C18', 'stale-resource'), ('C09', 'require-record-not-latest'),
                # a dependency in the store that no execution recorded is not "exactly those of the latest execution"
                ('C19', 'phantom-dependency')},
        # 'a dependency whose checker reports consistency never causes re-execution'
        'C09': {('C02', 'executed-with-consistent-dependencies')},
        'C19': {('C08', 'phantom-dependency')},
        # "the error ... never aborts the build": a well-formed program never aborts; in the failing-checker streams an abort is C18's
        # (only in histories without an earlier aborted build: after a task panic the partial record of the aborted task can make a
        # later build stop with a different diagnosis while the panic's cause still exists -- C19's territory, not a checker error's)
        'C18': {('C20', 'wf-abort overlap'), ('C20', 'wf-abort hidden'), ('C20', 'wf-abort cycle'), ('C06', 'self-overlap')},
        # such an edge makes later builds abort (cycle) or skip a diagnosis for a violation that does not / does exist now
        'C20': {('C08', 'phantom-dependency'), ('C19', 'phantom-dependency')}}
def mine(prop, pr, sig):
    return pr == prop or (pr, sig) in ALSO.get(prop, ())


def remap(prog, pr, sig, toks=None):
    """attribute findings of special streams"""
    if prog.kind == 'multi' and sig in ('stale-output', 'stale-resource') and toks and any(toks[i] == 'R' and toks[i + 1] == '0' and toks[i + 3] == 'R' and toks[i + 4] == '0' for i in range(len(toks) - 5)):
        # the read form: one task reads resource 0 twice with two checkers; the store keeps the FIRST read's checker.  The recorded
        # finding explains a stale result only if that first checker is the more lenient one (0 exact < 1 parity < 2 exists < 3 always)
        i = next(i for i in range(len(toks) - 5) if toks[i] == 'R' and toks[i + 1] == '0' and toks[i + 3] == 'R' and toks[i + 4] == '0')
        c1, c2 = int(toks[i + 2]), int(toks[i + 5])
        if c1 > c2:
            return 'C08', 'multi-checker-stale'
        return 'C09', 'first-read-checker-lost'
    if prog.kind == 'multi' and sig in ('stale-output', 'stale-resource'):
        # the recorded finding O7 is: only the LAST checker is recorded.  It explains a stale result only if the last of the two
        # checkers is the more lenient one (checker ids: 0 equals < 1 < 2 always)
        cs = [int(toks[i + 2]) for i in range(len(toks) - 2) if toks[i] == 'Q' and toks[i + 1] == '1'][:2] if toks else []
        lenient = {0: 0, 1: 1, 4: 1, 3: 2, 2: 3}
        if any(c in (3, 4) for c in cs):
            return 'NONE', 'tolerance-accepted-staleness'      # a tolerance checker accepts a drifted output by design: not a stale result in the sense of C01
        if len(cs) < 2 or lenient.get(cs[1], 0) > lenient.get(cs[0], 0):
            return 'C08', 'multi-checker-stale'
    return pr, sig


def replay_payload(prop, kind, seed, prog, meta, toks, stream, extra):
    d = {'property': prop, 'kind': kind, 'seed': seed, 'stream': stream, 'case': toks, 'case_text': ' '.join(toks) if toks else None,
         'how_to_replay': './check %s --replay <this file>' % prop}
    if prog is not None:
        d['prog_meta'] = {'kind': prog.kind, 'exact_only': prog.exact_only, 'uses_failing': prog.uses_failing,
                          'generated': {str(k): list(v) for k, v in prog.generated.items()}, 'sources': prog.sources}
    if meta is not None:
        d['meta'] = {'mode': meta.get('mode'), 'repeat_steps': sorted(meta.get('repeat_steps', ())),
                     'probe_steps': {str(k): v for k, v in meta.get('probe_steps', {}).items()},
                     'bu_steps': sorted(meta.get('bu_steps', ())), 'impl_only': bool(meta.get('impl_only')), 'only_sigs': list(meta.get('only_sigs', ()))}
    d.update(extra)
    return d


def restore_prog(data):
    p = P.Prog()
    pm = data.get('prog_meta', {})
    p.kind = pm.get('kind', 'wf'); p.exact_only = pm.get('exact_only', False); p.uses_failing = pm.get('uses_failing', False)
    p.generated = {int(k): tuple(v) for k, v in pm.get('generated', {}).items()}
    p.sources = pm.get('sources', [])
    return p


def restore_meta(data):
    m = data.get('meta', {})
    r = {'mode': m.get('mode'), 'repeat_steps': set(m.get('repeat_steps', ())), 'probe_steps': {int(k): v for k, v in m.get('probe_steps', {}).items()},
         'bu_steps': set(m.get('bu_steps', ()))}
    if m.get('impl_only'): r['impl_only'] = True
    if m.get('only_sigs'): r['only_sigs'] = tuple(m['only_sigs'])
    return r


def shrink_case(exe_impl, prog, steps, meta, prop, sig, msg):
    """drop history steps while the same finding (property, signature) persists on the implementation"""
    def attempt(st, remapidx):
        toks = P.case_tokens(prog, st)
        f = os.path.join(C.CACHE, 'shrink-%d.txt' % os.getpid())
        open(f, 'w').write(' '.join(toks) + '\n')
        rc, o, _ = C.sh([exe_impl, f, '--fresh'], timeout=60)
        os.remove(f)
        cs = split_all(o.split('\n'))
        if not cs:
            return None
        sessions = P.parse_obs(['C 0'] + cs[0])[0]
        m2 = {'mode': meta.get('mode'),
              'repeat_steps': set(remapidx[x] for x in meta.get('repeat_steps', ()) if x in remapidx),
              'probe_steps': {remapidx[k]: remapidx[v] for k, v in meta.get('probe_steps', {}).items() if k in remapidx and v in remapidx and remapidx[k] > remapidx[v] and all(st[j][0] == 'F' for j in range(remapidx[v] + 1, remapidx[k]))}}
        m2['env_at'] = O.env_at(toks)
        for (pr, sg, m) in O.run_oracles(prog, m2, sessions):
            pr2, sg2 = remap(prog, pr, sg, toks)
            if mine(prop, pr2, sg2) and sg2 == sig:
                return m
        return None
    cur = list(steps)
    idx = list(range(len(steps)))     # original indices of kept steps
    curmsg = msg
    for rounds in range(3):
        changed = False
        i = len(cur) - 1
        while i >= 0:
            cand = cur[:i] + cur[i + 1:]
            cidx = idx[:i] + idx[i + 1:]
            remapidx = {orig: new for new, orig in enumerate(cidx)}
            m = attempt(cand, remapidx)
            if m:
                cur, idx, curmsg, changed = cand, cidx, m, True
            i -= 1
        if not changed:
            break
    return P.case_tokens(prog, cur), curmsg


def corpus(prop):
    """minimized cases that run first"""
    out = []
    def mk(tasks, steps, kind='wf', generated=None, meta=None, exact=True):
        p = P.Prog(); p.tasks = tasks; p.kind = kind; p.exact_only = exact
        p.generated = generated or {}
        p.sources = [0, 1, 2]
        return (p, steps, norm_meta(meta or {}, 'td'), 'corpus')
    # O12: Use requires Gen, reads r10, requires Gen again; Gen writes r10 from r1
    out.append(mk({0: ('Q', 1, 2, ('R', 10, 0, ('Q', 1, 2, ('D',)))), 1: ('R', 1, 0, ('W', 10, 0, ('a',), ('T', ('k', 0))))},
                  [['E', '1', '1'], ['S', '1', 'q', '0'], ['E', '1', '2'], ['S', '1', 'q', '0']], generated={10: (1, 0)}))
    # O2: T0: read r0; if r0 = 1 {require T1; read r0}
    out.append(mk({0: ('R', 0, 0, ('I', ('l', 2), ('Q', 1, 0, ('R', 0, 0, ('D',))), ('D',))), 1: ('R', 1, 0, ('D',))},
                  [['E', '0', '1'], ['E', '1', '1'], ['S', '1', 'q', '0'], ['E', '0', '2'], ['E', '1', '2'], ['S', '1', 'q', '0']]))
    # O3: nested abort, then require again after the cause is gone
    out.append(mk({0: ('Q', 1, 0, ('D',)), 1: ('R', 0, 0, ('I', ('l', 2), ('P',), ('D',)))},
                  [['E', '0', '1'], ['S', '1', 'q', '0'], ['E', '0', '0'], ['S', '1', 'q', '0'], ['S', '1', 'q', '1'], ['S', '1', 'q', '0']]))
    # O6 (recorded finding for C05): R requires X requires W; W writes r10; R reads r10; X drops the require, same output
    out.append(mk({0: ('Q', 1, 0, ('R', 10, 0, ('D',))),
                   1: ('R', 0, 0, ('I', ('l', 2), ('Q', 2, 2, ('T', ('k', 7))), ('T', ('k', 7)))),
                   2: ('W', 10, 0, ('k', 3), ('D',))},
                  [['E', '0', '1'], ['S', '1', 'q', '0'], ['E', '0', '2'], ['S', '1', 'q', '0']], generated={10: (2, 0)}))
    # O14 (fixed 2f9a96c, C04): both tasks aborted earlier (no output, read dependency kept); the bottom-up build schedules both,
    # T0 then requires T1, which used to be executed as 'new' AND again from the queue
    if prop in ('C04', 'C03', 'C08', 'C17', 'C19'):
        p = P.Prog(); p.kind = 'panic'; p.exact_only = True; p.sources = [0, 1]
        p.tasks = {0: ('R', 0, 0, ('I', ('l', 2), ('P',), ('Q', 1, 0, ('T', ('a',))))), 1: ('R', 1, 0, ('I', ('l', 2), ('P',), ('T', ('a',))))}
        out.append((p, [['E', '0', '1'], ['E', '1', '1'], ['S', '1', 'q', '1'], ['S', '1', 'q', '0'], ['E', '0', '2'], ['E', '1', '2'], ['S', '1', 'b', '2', '1', '0'], ['S', '1', 'q', '0']],
                    {'mode': 'mixed', 'repeat_steps': set(), 'probe_steps': {}, 'bu_steps': {6}}, 'corpus'))
    if prop == 'C19':
        # the three recorded C19 findings, so that each is exercised (and reported as KNOWN-FINDING) on every run
        pan = ('R', 3, 0, ('I', ('l', 2), ('P',), ('D',)))      # task 9: panics while r3 = 1 (the earlier abort)
        # O13: A(0): if r0 = 1 require B; B(1): require A.  cycle diagnosed, repaired, B required first
        out.append(mk({0: ('R', 0, 0, ('I', ('l', 2), ('Q', 1, 0, ('D',)), ('D',))), 1: ('Q', 0, 0, ('D',))},
                      [['E', '0', '1'], ['S', '1', 'q', '0'], ['E', '0', '2'], ['S', '1', 'q', '1']], kind='panic'))
        # O5c after an abort: R(0) read r10 while r0 = 1 and keeps that dependency; W(1) writes r10 once r1 = 1 and is built first
        out.append(mk({0: ('R', 0, 0, ('I', ('l', 2), ('R', 10, 0, ('D',)), ('D',))), 1: ('R', 1, 0, ('I', ('l', 2), ('W', 10, 0, ('k', 3), ('D',)), ('D',))), 9: pan},
                      [['E', '3', '1'], ['S', '1', 'q', '9'], ['E', '3', '0'], ['E', '0', '1'], ['E', '1', '0'], ['S', '2', 'q', '0', 'q', '1'],
                       ['E', '0', '0'], ['E', '1', '1'], ['S', '1', 'q', '1']], kind='panic', generated={10: (None, 0)}))
        # O5a after an abort: the writer role of r10 moves from task 0 to task 1 and the new writer is built first
        out.append(mk({0: ('R', 0, 0, ('I', ('l', 2), ('W', 10, 0, ('k', 3), ('D',)), ('D',))), 1: ('R', 1, 0, ('I', ('l', 2), ('W', 10, 0, ('k', 4), ('D',)), ('D',))), 9: pan},
                      [['E', '3', '1'], ['S', '1', 'q', '9'], ['E', '3', '0'], ['E', '0', '1'], ['E', '1', '0'], ['S', '2', 'q', '0', 'q', '1'],
                       ['E', '0', '0'], ['E', '1', '1'], ['S', '1', 'q', '1']], kind='panic', generated={10: (None, 0)}))
    if prop in ('C19', 'C07', 'C20'):
        # seed C19_r16 (traversal state of the cycle search survives the abort): (a) Main(0) requires Middle(1) and Generate(2) and reads
        # Generate's product; Middle requires Main while r0 = 1: diagnosed cycle, cause removed, rebuild must equal from-scratch;
        # (b) a ring of three tasks: the retry must abort in the same way, every task executed once
        out.append(mk({0: ('Q', 1, 0, ('Q', 2, 0, ('R', 10, 0, ('T', ('a',))))), 1: ('R', 0, 0, ('I', ('l', 2), ('Q', 0, 0, ('D',)), ('D',))), 2: ('W', 10, 0, ('k', 3), ('D',))},
                      [['E', '0', '1'], ['S', '1', 'q', '0'], ['E', '0', '0'], ['S', '1', 'q', '0'], ['S', '1', 'q', '0']], kind='panic', generated={10: (2, 0)}))
        out.append(mk({0: ('Q', 1, 0, ('D',)), 1: ('Q', 2, 0, ('D',)), 2: ('Q', 0, 0, ('D',))},
                      [['S', '1', 'q', '0'], ['S', '1', 'q', '0'], ['S', '1', 'q', '1']], kind='panic'))
    if prop in ('C01', 'C19'):
        # an execution is aborted after it recorded a read; the source changes and the task is rebuilt; then the source returns to the
        # value the ABORTED run saw: nothing of that run may survive (the recorded stamp must be the rebuilt run's)
        out.append(mk({0: ('R', 0, 0, ('Q', 1, 0, ('T', ('a',)))), 1: ('R', 1, 0, ('I', ('l', 2), ('P',), ('T', ('a',))))},
                      [['E', '0', '1'], ['E', '1', '1'], ['S', '1', 'q', '0'], ['E', '0', '2'], ['E', '1', '0'], ['S', '1', 'q', '0'],
                       ['E', '0', '1'], ['S', '1', 'q', '0']], kind='wf'))
    if prop == 'C20':
        # the guarding read comes before the conditional require in creation order, although the task reads the same source again
        # afterwards: after the role flip the stale require must not be followed (a re-added edge must keep its place)
        out.append(mk({0: ('R', 0, 0, ('I', ('l', 1), ('Q', 1, 0, ('R', 0, 0, ('D',))), ('R', 0, 0, ('D',)))),
                       1: ('R', 0, 0, ('I', ('l', 2), ('Q', 0, 0, ('D',)), ('D',)))},
                      [['E', '0', '0'], ['S', '1', 'q', '0'], ['E', '0', '1'], ['S', '1', 'q', '0']], kind='roles'))
    if prop == 'C20':
        # bottom-up, the writer role of r10 moves from Deep(2) to Mid(1) while Root(0) newly requires Mid: require_scheduled_now
        # must run the deepest scheduled dependency (Deep, which drops its write) before Mid (which now writes)
        p = P.Prog(); p.kind = 'roles'; p.exact_only = True; p.sources = [0, 1]; p.generated = {10: (None, 0)}
        p.tasks = {2: ('R', 0, 0, ('I', ('l', 2), ('W', 10, 0, ('k', 3), ('T', ('k', 1))), ('T', ('k', 0)))),
                   1: ('R', 0, 0, ('I', ('l', 2), ('Q', 2, 0, ('T', ('a',))), ('W', 10, 0, ('k', 4), ('T', ('k', 7))))),
                   0: ('R', 1, 0, ('I', ('l', 2), ('Q', 1, 2, ('T', ('k', 9))), ('T', ('k', 9))))}
        out.append((p, [['E', '0', '1'], ['E', '1', '0'], ['S', '2', 'q', '1', 'q', '0'], ['E', '0', '2'], ['E', '1', '1'], ['S', '1', 'b', '2', '0', '1'],
                        ['S', '3', 'q', '0', 'q', '1', 'q', '2']],
                    {'mode': 'mixed', 'repeat_steps': set(), 'probe_steps': {}, 'bu_steps': {5}}, 'corpus'))
    if prop in ('C02', 'C09'):
        # seed C09_r20: B(2) has two requirers A(0) and C(1); B is re-executed while only C is validated; then B's input goes back, so that
        # B's up-to-date output matches A's stamp again: validating A must not execute it (the verdict is taken on the output B has
        # AFTER it was made consistent, not on the stale cached one)
        out.append(mk({0: ('Q', 2, 0, ('T', ('a',))), 1: ('Q', 2, 0, ('T', ('a',))), 2: ('R', 0, 0, ('T', ('a',)))},
                      [['E', '0', '1'], ['S', '2', 'q', '0', 'q', '1'], ['E', '0', '2'], ['S', '1', 'q', '1'], ['E', '0', '1'], ['S', '1', 'q', '0']]))
    # O4 (recorded finding for C03)
    if prop in ('C03',):
        p = P.Prog(); p.tasks = {2: ('Q', 1, 0, ('D',)), 1: ('R', 1, 0, ('D',))}; p.sources = [1]
        out.append((p, [['E', '1', '1'], ['S', '1', 'q', '2'], ['E', '1', '2'], ['S', '1', 'q', '1'], ['S', '1', 'b', '1', '1'], ['S', '2', 'q', '1', 'q', '2']],
                    {'mode': 'mixed', 'repeat_steps': set(), 'probe_steps': {5: 4}, 'bu_steps': {4}}, 'corpus'))
    if prop in ('C03',):
        # same-session diamond (seed C03_r14): Read(0) reads r50, Lower(1) requires Read, Top(2) reads marker r51 and then requires
        # Read and Lower; one session requires Read, then r50 and the marker change and are reported to a bottom-up build
        p = P.Prog(); p.sources = [50, 51]
        p.tasks = {0: ('R', 50, 0, ('T', ('a',))), 1: ('Q', 0, 0, ('T', ('a',))), 2: ('R', 51, 0, ('I', ('l', 0), ('T', ('a',)), ('Q', 0, 0, ('Q', 1, 0, ('T', ('a',))))))}
        m = {'mode': 'bu', 'repeat_steps': set(), 'probe_steps': {3: 2}, 'bu_steps': {2}}
        out.append((p, [['E', '50', '1'], ['S', '2', 'q', '1', 'q', '2'], ['S', '4', 'q', '0', 'e', '50', '2', 'e', '51', '1', 'b', '2', '50', '51'], ['S', '3', 'q', '0', 'q', '1', 'q', '2']], m, 'corpus'))
    return out

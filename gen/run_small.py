"""Checks for the small layers: C12 (output checkers), C13 (file checkers), C14 (map resource), C15 (key identity)."""
import json, os, random, shutil, time
from . import common as C
from . import small as SM


def split_all(lines):
    cases = []
    cur = None
    for l in lines:
        if l.startswith('C '):
            cur = []; cases.append(cur)
        elif cur is not None and l:
            cur.append(l)
    return cases


PROBES = {
    # prop -> (harness binary, mode, takes case file, generator(rng, tier) -> list of token lists or None, oracle(toks, lines) -> msg|None, model mode or None)
    'C12': ('misc_probe', 'checkers', False, None, SM.checkers_oracle, 'checkers'),
    'C13': ('fs_probe', None, True, SM.gen_fs_cases, SM.fs_oracle, 'fs'),
    'C15': ('misc_probe', 'keys', True, SM.gen_keys_cases, SM.keys_oracle, 'keys'),
    'C14': ('misc_probe', 'map', True, SM.gen_map_cases, SM.map_oracle, 'map'),
}


def run(prop, tier, seed, replay=None):
    t0 = time.time()
    binname, mode, has_cases, gen, oracle, model_mode = PROBES[prop]
    problems = []
    proof = C.proof_gate(prop, tier)
    if not proof['ok']:
        problems += proof['problems']
    exe_model, err = C.build_driver()
    if exe_model is None:
        problems.append(err)
    exe_impl, out = C.build_harness(binname)
    if exe_impl is None:
        print('harness build failed:\n' + out[-3000:])
        rp = C.write_replay(prop, seed, 0, {'property': prop, 'kind': 'no-failing-input-found', 'broken': 'harness build (%s) against /repo failed' % binname, 'log': out[-4000:]})
        print('VIOLATION property=%s replay=%s no-failing-input-found' % (prop, rp))
        C.write_evidence(prop, tier, seed, {'obligations': len(proof['theorems']) or 1, 'discharged': 0, 'checker_cmd': proof['checker_cmd'],
                                           'trusted_base': C.TRUSTED_BASE, 'explanation': 'harness build failed'}, [], time.time() - t0, 1)
        return 1
    rng = random.Random(seed * 7727 + int(prop[1:]))
    work = os.path.join(C.CACHE, 'run', '%s-%s-%d' % (prop, tier, os.getpid()))
    os.makedirs(work, exist_ok=True)
    if has_cases:
        if replay and json.load(open(replay))['case'][:1] == ['ENGINE']:
            # replay of an engine-level finding of C15: one pie history, implementation against model
            from . import run_pie as RP
            toks2 = json.load(open(replay))['case'][1:]
            exe_hist, hout = C.build_harness('pie_hist')
            impl, model, crashes = RP.run_cases(exe_hist, exe_model, [toks2], work)
            a = RP.comparable(impl[0] or [], 'ovd'); b = RP.comparable(model[0] or [], 'ovd')
            shutil.rmtree(work, ignore_errors=True)
            if impl[0] is None or a != b:
                first = next((k for k, (x, y) in enumerate(zip(a, b)) if x != y), min(len(a), len(b)))
                print('VIOLATION property=%s replay=%s' % (prop, replay))
                print('  key identity through the engine: implementation %r, model %r' % (a[first] if first < len(a) else None, b[first] if first < len(b) else None))
                return 1
            print('replay: implementation and model agree on this history')
            return 0
        if replay:
            cases = [json.load(open(replay))['case']]
        else:
            cases = gen(rng, tier)
        f = os.path.join(work, 'cases.txt')
        open(f, 'w').write('\n'.join(' '.join(c) for c in cases) + '\n')
        args_impl = [exe_impl, mode, f] if mode else [exe_impl, f]
        args_model = [exe_model, model_mode, f] if (exe_model and model_mode) else None
    else:
        cases = [[mode]]
        args_impl = [exe_impl, mode]
        args_model = [exe_model, model_mode] if (exe_model and model_mode) else None
    rc1, o1, _ = C.sh(args_impl, timeout=3000, cwd=work)
    ic = split_all(o1.split('\n'))
    if prop == 'C13' and args_model:
        # directory listing order is an OS fact: the model gets the order readdir reported
        f2 = os.path.join(work, 'cases_model.txt')
        open(f2, 'w').write('\n'.join(' '.join(SM.fs_with_listing(c, ic[i] if i < len(ic) else [])) for i, c in enumerate(cases)) + '\n')
        args_model = [exe_model, model_mode, f2]
    mc = None
    if args_model:
        rc2, o2, _ = C.sh(args_model, timeout=3000)
        mc = split_all(o2.split('\n'))
    shutil.rmtree(work, ignore_errors=True)
    findings = []
    divergences = []
    nontrivial = 0
    lines_total = 0
    for i, toks in enumerate(cases):
        if i >= len(ic):
            findings.append(('crash', 'the probe crashed on this case', i)); continue
        lines_total += len(ic[i])
        nontrivial += 1 if len(ic[i]) >= 2 else 0
        msg = oracle(toks, ic[i])
        if msg:
            import re
            findings.append((re.sub(r'[0-9]+', 'N', msg.split(':')[0])[:50], msg, i))
        if mc is not None and (i >= len(mc) or SM.comparable(prop, mc[i]) != SM.comparable(prop, ic[i])):
            a, b = SM.comparable(prop, ic[i]), SM.comparable(prop, mc[i] if i < len(mc) else [])
            first = next((k for k, (x, y) in enumerate(zip(a, b)) if x != y), min(len(a), len(b)))
            divergences.append((i, first, a[first] if first < len(a) else None, b[first] if first < len(b) else None))
    engine = None
    if prop == 'C15' and not replay:
        # identity of keys THROUGH THE ENGINE: task and resource keys travel through the build contexts as boxed / borrowed trait
        # objects (requires, written resources handed to the scheduler, boxed change reports).  A small correspondence run of the
        # pie layer (bottom-up builds that are also told about generated resources; ordinary bottom-up histories) with the store dump
        # compared: one node per (type, value), every dependency attached to it
        from . import run_pie as RP
        exe_hist, hout = C.build_harness('pie_hist')
        if exe_hist and exe_model:
            rng2 = random.Random(seed * 9973 + 15)
            ecases = []
            for stream, n in (('reported_products', 60 if tier == 'quick' else 600), ('bu_wf', 40 if tier == 'quick' else 400)):
                for _ in range(n):
                    pg, steps, meta = RP.make_case(rng2, stream)
                    ecases.append(RP.P.case_tokens(pg, steps))
            work2 = os.path.join(C.CACHE, 'run', '%s-engine-%d' % (prop, os.getpid()))
            os.makedirs(work2, exist_ok=True)
            impl, model, crashes = RP.run_cases(exe_hist, exe_model, ecases, work2)
            shutil.rmtree(work2, ignore_errors=True)
            bad = 0
            for j, toks2 in enumerate(ecases):
                a = RP.comparable(impl[j] or [], 'ovd'); b = RP.comparable(model[j] or [], 'ovd')
                if impl[j] is None or a != b:
                    bad += 1
                    if engine is None:
                        first = next((k for k, (x, y) in enumerate(zip(a, b)) if x != y), min(len(a), len(b)))
                        engine = (toks2, a[first] if first < len(a) else None, b[first] if first < len(b) else None)
            if engine is not None:
                findings.append(('engine-key-identity', 'key identity through the engine: on %d of %d pie histories the store (nodes per key, dependencies attached to them), the event stream or the outputs differ from the model, in which a key is (type, value); first: implementation %r, model %r' % (bad, len(ecases), engine[1], engine[2]), len(cases)))
                cases.append(['ENGINE'] + engine[0])
            lines_total += sum(len(x or []) for x in impl)
    rc = 0
    nviol = 0
    known = C.load_known(prop)
    by_sig = {}
    for sig, msg, i in findings:
        if sig not in by_sig or len(cases[i]) < len(cases[by_sig[sig][1]]):
            by_sig[sig] = (msg, i)
    for sig, (msg, i) in sorted(by_sig.items())[:4]:
        kf = next((k for k in known if k['signature'] == sig), None)
        if kf:
            print('KNOWN-FINDING: property=%s %s' % (prop, kf['text'])); continue
        nviol += 1
        rp = C.write_replay(prop, seed, nviol, {'property': prop, 'kind': 'violation', 'seed': seed, 'case': cases[i], 'case_text': ' '.join(cases[i]),
                                                'oracle': msg, 'signature': sig, 'probe': '%s %s' % (binname, mode), 'how_to_replay': './check %s --replay <this file>' % prop})
        print('VIOLATION property=%s replay=%s' % (prop, rp))
        print('  ' + msg)
        rc = 1
    if rc == 0 and (problems or divergences):
        payload = {'property': prop, 'kind': 'no-failing-input-found', 'seed': seed, 'broken': [p.split('\n')[0] for p in problems[:5]]}
        if divergences:
            i, first, a, b = divergences[0]
            payload['correspondence'] = {'projection': '%s %s observations' % (binname, mode), 'case': cases[i], 'first_diverging_line': first, 'impl': a, 'model': b,
                                         'diverging_cases': len(divergences)}
            payload['case'] = cases[i]
        rp = C.write_replay(prop, seed, 0, payload)
        for p in problems[:5]:
            print('BROKEN: ' + p.split('\n')[0])
        if divergences:
            print('BROKEN: model and implementation disagree on %d cases; first: impl %r / model %r' % (len(divergences), payload['correspondence']['impl'], payload['correspondence']['model']))
        print('VIOLATION property=%s replay=%s no-failing-input-found' % (prop, rp))
        rc = 1; nviol = 1
    cov = {
        'obligations': max(1, len(proof['theorems'])),
        'discharged': len(proof['theorems']) if proof['ok'] else 0,
        'checker_cmd': proof['checker_cmd'],
        'trusted_base': C.TRUSTED_BASE + ['axioms reported by Print Assumptions: ' + (', '.join(proof['axioms']) or 'none (closed under the global context)')] + (['coqchk -o (independent re-check of the compiled property file and its dependencies): ' + proof['coqchk']] if proof.get('coqchk') else []),
        'theorems': proof['theorems'],
        'evaluations': max(len(cases), lines_total) if not has_cases else len(cases),
        'distinct_nontrivial': max(nontrivial, lines_total if not has_cases else 0),
        'exhaustive': not has_cases,
        'rule': SM.RULES.get(prop, ''),
        'samples': [' '.join(c) for c in cases[:3]] if has_cases else (ic[0][:5] if ic else ['-']),
        'traces_validated_against_impl': len(cases) - len(divergences),
        'model_impl_divergences': len(divergences),
        'oracle_findings': len(findings),
        'observation_lines': lines_total,
    }
    C.write_evidence(prop, tier, seed, cov, SM.ASSUMPTIONS.get(prop, []), time.time() - t0, nviol)
    return rc

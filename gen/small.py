"""Small layers: generators + documented-meaning oracles for the tracker probe (C17), the output checkers (C12),
the file checkers (C13), the map resource (C14) and key identity (C15)."""
import random
from . import common as C

# ----------------------------------------------------------------------------- tracker probe (C17)

def gen_event(rng):
    k = rng.choice(['BS', 'BE', 'RS', 'RE', 'rS', 'rE', 'wS', 'wE', 'CTS', 'CTE', 'CRS', 'CRE', 'XS', 'XE', 'SBTS', 'SBTE',
                    'CQS', 'CQE', 'SBRS', 'SBRE', 'CDS', 'CDE', 'ST', 'XS', 'XE', 'RS', 'RE', 'rS', 'rE', 'wS', 'wE'])
    s = str(rng.randint(1, 3))
    oc = rng.randint(0, 2); rc = rng.randint(0, 5)
    def ost(c): return str(rng.randint(0, 9)) if c < 2 else '0'
    def rst(c): return '0' if c == 3 else str(rng.randint(0, 9))
    cres = rng.choice(['ok', 'inc', 'err10%d' % rng.randint(0, 3)])
    if k in ('BS', 'BE'): return [k]
    if k == 'RS': return [k, s, str(oc)]
    if k == 'RE': return [k, s, str(oc), ost(oc), str(rng.randint(0, 99))]
    if k in ('rS', 'wS'): return [k, s, str(rc)]
    if k in ('rE', 'wE'): return [k, s, str(rc), rst(rc)]
    if k in ('CTS', 'CQS'): return [k, s, str(oc), ost(oc)]
    if k in ('CTE', 'CQE'): return [k, s, str(oc), ost(oc), str(rng.randint(0, 1))]
    if k in ('CRS', 'CDS'): return [k, s, str(rc), rst(rc)]
    if k in ('CRE', 'CDE'): return [k, s, str(rc), rst(rc), cres]
    if k == 'XE': return [k, s, str(rng.randint(0, 99))]
    return [k, s]          # XS SBTS SBTE SBRS SBRE ST


ALL_KINDS_CASE = ("BS RS 1 0 CTS 2 1 1 CTE 2 1 1 1 CRS 2 0 5 CRE 2 0 5 err101 XS 1 rS 2 0 rE 2 0 5 wS 1 1 wE 1 1 2 XE 1 7 RE 1 0 7 7 "
                  "SBRS 1 CDS 1 4 3 CDE 1 4 3 inc ST 1 SBRE 1 SBTS 2 CQS 1 0 4 CQE 1 0 4 0 SBTE 2 BE").split()


def gen_tracker_case(rng):
    toks = []
    for _ in range(rng.randint(1, 25)):
        toks += gen_event(rng)
    return toks


RECORDED = ('BS', 'BE', 'RS', 'RE', 'rS', 'rE', 'wS', 'wE', 'XS', 'XE')
SUBJECTS = [('T', '1'), ('T', '2'), ('R', '1'), ('R', '2')]
KIND_TYPE = {'RS': 'T', 'RE': 'T', 'XS': 'T', 'XE': 'T', 'rS': 'R', 'rE': 'R', 'wS': 'R', 'wE': 'R'}


def tracker_oracle(toks, lines):
    """documented meaning of the recording tracker and its helpers, recomputed from the stream.  -> message or None"""
    d = {}
    hs = []
    fs = []
    for l in lines:
        tag = l.split(' ', 1)[0]
        if tag == 'h': hs.append(l)
        elif tag == 'f': fs.append(l)
        else: d[tag] = l[len(tag) + 1:]
    stream = [e for e in d.get('v', '').split(';') if e]
    # all 23 kinds reach the tracker as the calls were made
    exp_stream = regroup(toks)
    if stream != exp_stream:
        return 'recording tracker saw %r for the calls %r' % (stream[:8], exp_stream[:8])
    if d.get('c') != '1':
        return 'composite tracker delivered different streams to its children'
    last_bs = max([i for i, e in enumerate(stream) if e == 'BS'], default=None)
    sub = [e for e in (stream if last_bs is None else stream[last_bs:]) if e.split()[0] in RECORDED]
    exp_t = ';'.join(e if e in ('BS', 'BE') else '%s@%d' % (e, i) for i, e in enumerate(sub))
    if d.get('t', '') != exp_t:
        return 'EventTracker stored %r, the stream implies %r' % (d.get('t', '')[:120], exp_t[:120])
    if len(hs) != len(sub):
        return 'helper lines %d != stored events %d' % (len(hs), len(sub))
    for i, (e, h) in enumerate(zip(sub, hs)):
        f = e.split()
        k = f[0]
        exp = 'h %d %s%s%s' % (i, b(k == 'BS'), b(k == 'BE'), b(k in ('XS', 'XE')))
        for (ty, v) in SUBJECTS:
            same = KIND_TYPE.get(k) == ty and len(f) > 1 and f[1] == v
            exp += ' ' + ''.join(b(same and k == kk) for kk in ('RS', 'RE', 'rS', 'rE', 'wS', 'wE'))
            exp += b(same and k in ('XS', 'XE')) + b(same and k == 'XS') + b(same and k == 'XE')
        if h != exp:
            return 'helpers on stored event %d (%s): got %r, documented meaning gives %r' % (i, e, h, exp)
    for j, (ty, v) in enumerate(SUBJECTS):
        def first(kind):
            for i, e in enumerate(sub):
                f = e.split()
                if f[0] == kind and KIND_TYPE[kind] == ty and f[1] == v:
                    return i
            return None
        def rng_(a, c):
            x, y = first(a), first(c)
            return '-' if x is None or y is None else '%d..%d' % (x, y)
        def ix(a):
            x = first(a)
            return '-' if x is None else str(x)
        nxs = sum(1 for e in sub if e.split()[0] == 'XS' and ty == 'T' and e.split()[1] == v)
        anyx = any(e.split()[0] in ('XS', 'XE') and ty == 'T' and e.split()[1] == v for e in sub)
        exp = 'f %d req=%s read=%s write=%s exec=%s fre=%s fwe=%s fxe=%s anyxof=%s onexof=%s' % (
            j, rng_('RS', 'RE'), rng_('rS', 'rE'), rng_('wS', 'wE'), rng_('XS', 'XE'), ix('rE'), ix('wE'), ix('XE'), b(anyx), b(nxs == 1))
        if j >= len(fs) or fs[j] != exp:
            return 'tracker queries for %s%s: got %r, documented meaning gives %r' % (ty, v, fs[j] if j < len(fs) else None, exp)
    if d.get('g') != 'anyx=' + b(any(e.split()[0] in ('XS', 'XE') for e in sub)):
        return 'any_execute: got %r' % d.get('g')
    return None


def b(x):
    return '1' if x else '0'


ARITY = {'BS': 0, 'BE': 0, 'RS': 2, 'RE': 4, 'rS': 2, 'rE': 3, 'wS': 2, 'wE': 3, 'CTS': 3, 'CTE': 4, 'CRS': 3, 'CRE': 4, 'XS': 1, 'XE': 2,
         'SBTS': 1, 'SBTE': 1, 'CQS': 3, 'CQE': 4, 'SBRS': 1, 'SBRE': 1, 'CDS': 3, 'CDE': 4, 'ST': 1}


def regroup(toks):
    out = []
    i = 0
    while i < len(toks):
        n = ARITY[toks[i]]
        out.append(' '.join(toks[i:i + 1 + n]))
        i += 1 + n
    return out

# ----------------------------------------------------------------------------- generic

RULES = {
    'C12': 'exhaustive over seven payload families (the last two with payload types whose Debug text and Eq disagree, in either direction: payload equality is Eq): all 36 ordered pairs of outputs over Result<u8,u8> with payloads {0,1,2}, all pairs over Result<(),u8>, Result<u8,()>, Result<(),()> (zero-sized payloads) and Result<String,String> (heap payloads) x the five built-in output checkers (through the generic trait impls), plus EqualsChecker/AlwaysConsistent on a non-Result type; each line compared with the model and with the documented relation',
}
ASSUMPTIONS = {
    'C12': ['payload equality of the checked type is its Eq impl (modelled as a decidable equality)', 'the OutputCheckerObj proxy is crate-private and not probed'],
}


def comparable(prop, lines):
    return [l for l in lines if not l.startswith('ls ')]

# ----------------------------------------------------------------------------- output checkers (C12)

def checkers_oracle(toks, lines):
    """documented relation of each built-in output checker"""
    n = 0
    for l in lines:
        f = l.split()
        if f[0] == 'k':
            o1, o2, bits = f[1], f[2], f[3]
            ok1, ok2 = o1[0] == 'O', o2[0] == 'O'
            exp = [
                o1 != o2,                                              # EqualsChecker: equality
                not ((ok1 and ok2 and o1 == o2) or (not ok1 and not ok2)),   # OkEquals: equal Ok payloads, all errors equivalent
                not ((not ok1 and not ok2 and o1 == o2) or (ok1 and ok2)),   # ErrEquals: equal Err payloads, all successes equivalent
                ok1 != ok2,                                            # ResultChecker: same Ok/Err-ness
                False,                                                 # AlwaysConsistent
            ]
            got = [c == '1' for c in bits]
            if got != exp:
                names = ['EqualsChecker', 'OkEqualsChecker', 'ErrEqualsChecker', 'ResultChecker', 'AlwaysConsistent']
                j = next(i for i in range(5) if got[i] != exp[i])
                return '%s: output %s checked against the stamp of %s is reported %s, the documented relation says %s' % (
                    names[j], o1, o2, 'inconsistent' if got[j] else 'consistent', 'inconsistent' if exp[j] else 'consistent')
            n += 1
        elif f[0] == 'p':
            a, c, bits = f[1], f[2], f[3]
            if (bits[0] == '1') != (a != c) or bits[1] != '0':
                return 'EqualsChecker/AlwaysConsistent on integers: %s vs stamp of %s gives %s' % (a, c, bits)
            n += 1
    if n != 36 + 9 + 9 + 4 + 16 + 16 + 16 + 16:
        return 'probe printed %d lines instead of 122' % n
    return None

# ----------------------------------------------------------------------------- map resource (C14)

MAP_STATES = [1001, 1002, 1003, 11, 12]

def gen_map_case(rng):
    toks = []
    slots = 0
    objs = rng.random() < 0.4
    for _ in range(rng.randint(3, 40)):
        r = rng.random()
        kt = rng.randint(1, 3); k = rng.randint(0, 3)
        if objs and rng.random() < 0.5:
            # the object-valued maps: MapKeyToObj<u32> (4) and MapKeyObjToObj (5; keys 0/1 are unit structs of different types);
            # values are type*100 + payload: two types with equal fields, two zero-sized types
            kt = rng.choice([4, 5]); v = rng.choice([0, 1, 2, 100, 101, 102, 200, 300, 200, 300])
            if r < 0.30: toks += ['w', str(kt), str(k), str(v)]
            elif r < 0.38: toks += ['x', str(kt), str(k)]
            elif r < 0.48: toks += ['i', str(kt), str(k), str(v)]
            elif r < 0.65: toks += ['r', str(kt), str(k)]
            elif r < 0.82: toks += ['t', str(rng.randint(0, 3)), str(kt), str(k)]
            else: toks += ['c', str(rng.randint(0, 3))]
            continue
        if rng.random() < 0.06:
            toks += ['p', str(k)]; continue          # a build aborted inside Context::write
        if rng.random() < 0.12:
            # key type 6: values whose equality is coarser than identity (payloads of one decade are ==); reads and writes only
            v = rng.choice([0, 1, 2, 10, 11, 12])
            if r < 0.45: toks += ['w', '6', str(k), str(v)]
            elif r < 0.55: toks += ['x', '6', str(k)]
            elif r < 0.65: toks += ['i', '6', str(k), str(v)]
            else: toks += ['r', '6', str(k)]
            continue
        if r < 0.22: toks += [rng.choice(['w', 'w', 'm']), str(kt), str(k), str(rng.randint(0, 9))]     # m: the writer's in-place route (get / get_mut)
        elif r < 0.30: toks += ['x', str(kt), str(k)]
        elif r < 0.40: toks += ['i', str(kt), str(k), str(rng.randint(0, 9))]
        elif r < 0.60: toks += ['r', str(kt), str(k)]
        elif r < 0.70: toks += ['t', str(rng.randint(0, 3)), str(kt), str(k)]
        elif r < 0.80: toks += ['c', str(rng.randint(0, 3))]
        elif r < 0.87:
            s = (1000 + kt) if rng.random() < 0.6 else rng.choice(MAP_STATES)
            toks += [rng.choice(['g', 'g', 'G', 'M', 'B']), str(kt), str(s)]         # get / get_boxed / get_mut / get_boxed_mut
        elif r < 0.93:
            s = (1000 + kt) if rng.random() < 0.5 else rng.choice(MAP_STATES)
            toks += [rng.choice(['d', 'D']), str(kt), str(s)]                         # get_or_set_default / _mut
        else:
            toks += [rng.choice(['s', 'S']), str(kt), str(rng.choice(MAP_STATES)), str(rng.randint(0, 9))]   # set / set_boxed
    return toks


def gen_map_cases(rng, tier):
    n = C.quick_n(600, tier) if tier == 'quick' else 20000
    corpus = ["w 1 5 7 t 0 1 5 x 1 5 c 0 r 1 5".split(),                 # stamped Some, then removed: inconsistent
              "t 0 1 5 w 1 5 7 c 0 x 1 5 c 0".split(),
              "w 1 1 1 w 2 1 2 w 3 1 3 r 1 1 r 2 1 r 3 1 d 2 1003 r 1 1 r 2 1 r 3 1".split(),
              "s 1 11 4 g 1 11 r 1 0 g 1 11 g 1 1001".split(),
              "S 1 1001 4 g 1 1001 G 1 1001 r 1 0 M 1 1001 B 1 1001 D 1 1001".split(),
              # object values: zero-sized values of different types, equal fields in different types; unit-struct keys of different types
              "w 4 0 200 t 0 4 0 w 4 0 300 c 0 r 4 0 w 4 1 5 t 1 4 1 w 4 1 105 c 1".split(),
              "w 5 0 7 r 5 1 w 5 1 8 r 5 0 r 5 1 t 0 5 0 x 5 1 c 0 r 5 0".split(),
              "w 6 0 1 r 6 0 w 6 0 2 r 6 0 i 6 0 1 r 6 0 w 6 0 12 r 6 0".split(),
              "w 1 0 5 w 2 0 6 s 3 11 4 p 0 r 1 0 r 2 0 g 3 11 p 1 r 1 0".split(),
              "m 1 0 5 r 1 0 m 1 0 6 r 1 0 t 0 1 0 m 1 0 7 c 0 x 1 0 m 1 0 8 r 1 0".split()]       # a build aborted inside Context::write: every state is still there         # values that are == but not identical: the last one stored is read       # the type-erased route, then the typed ones
    return corpus + [gen_map_case(rng) for _ in range(n)]


def map_oracle(toks, lines):
    """abstract specification: per resource type an optional (state type, dict); read-your-writes; per-type isolation;
    equality checker consistent exactly when current == stamped; the three routes agree"""
    st = {}      # resource type -> (state type, dict)
    slots = {}
    def gmap(kt):   # get_global_map: get_or_set_default of the matching map type
        cur = st.get(kt)
        if cur is None or cur[0] != 1000 + kt:
            st[kt] = (1000 + kt, {})
        return st[kt][1]
    def show(d): return ','.join('%d=%d' % kv for kv in sorted(d.items()))
    def o(v): return 'None' if v is None else 'Some(%d)' % v
    i = 0; li = 0
    while i < len(toks):
        op = toks[i]
        if op in ('g', 'G', 'M', 'B'):
            r, s = int(toks[i + 1]), int(toks[i + 2]); i += 3
            cur = st.get(r)
            exp = 'g None' if cur is None or cur[0] != s else 'g Some[%s]' % show(cur[1])
        elif op in ('s', 'S'):
            r, s, v = int(toks[i + 1]), int(toks[i + 2]), int(toks[i + 3]); i += 4
            st[r] = (s, {0: v}); exp = 'u'
        elif op in ('d', 'D'):
            r, s = int(toks[i + 1]), int(toks[i + 2]); i += 3
            cur = st.get(r)
            if cur is None or cur[0] != s:
                st[r] = (s, {})
            exp = 'd [%s]' % show(st[r][1])
        elif op == 'p':
            k = int(toks[i + 1]); i += 2
            gmap(1); exp = 'u'          # aborted write on key type 1: the writer was created (state access like a read), nothing written
        elif op == 'r':
            kt, k = int(toks[i + 1]), int(toks[i + 2]); i += 3
            exp = 'r ' + o(gmap(kt).get(k))
        elif op in ('w', 'i', 'm'):
            kt, k, v = int(toks[i + 1]), int(toks[i + 2]), int(toks[i + 3]); i += 4
            gmap(kt)[k] = v; exp = 'u'
        elif op == 'x':
            kt, k = int(toks[i + 1]), int(toks[i + 2]); i += 3
            gmap(kt).pop(k, None); exp = 'u'
        elif op == 't':
            sl, kt, k = int(toks[i + 1]), int(toks[i + 2]), int(toks[i + 3]); i += 4
            v = gmap(kt).get(k)
            slots[sl] = (kt, k, v)
            exp = 't %s %s %s' % (o(v), o(v), o(v))
        elif op == 'c':
            sl = int(toks[i + 1]); i += 2
            if sl not in slots: exp = 'c none'
            else:
                kt, k, sv = slots[sl]
                exp = 'c %d' % (0 if gmap(kt).get(k) == sv else 1)
        else:
            return 'bad op ' + op
        if li >= len(lines):
            return 'probe stopped after %d observations' % li
        if lines[li] != exp:
            return 'map resource: operation %d (%s ...) observed %r, the specification (latest value wins, per-type isolation, equality checker) gives %r' % (li, op, lines[li], exp)
        li += 1
    return None

RULES['C14'] = 'random + corpus sequences of typed state accesses (get/set/get_or_set_default with matching and non-matching state types), map reads, writer insert/remove, direct inserts, three-route stamps and checks against kept stamps, over three typed key types (two of them a pair of different types with the same type name), a key type whose values have an equality coarser than identity, and the two object-valued maps (MapKeyToObj, MapKeyObjToObj: values of different concrete types with equal fields, zero-sized values and unit-struct keys of different types); run on the real TypeToAnyMap/map resource (misc_probe map) and on the extracted model; compared line by line with each other and with a python dictionary specification'
ASSUMPTIONS['C14'] = ['TypeId equality is modelled by equality of type codes; HashMap iteration order is canonicalised by sorting']
RULES['C12'] = RULES['C12']

# ----------------------------------------------------------------------------- key identity (C15)

def kval(rng, f):
    """family 4 = files: value = file * 3 + spelling (d/f, d//f, d/./f are equal PathBufs)"""
    return str(rng.randint(0, 1) if f < 2 else (0 if f < 4 else rng.randint(0, 5)))


def gen_keys_case(rng):
    toks = []
    for _ in range(rng.randint(3, 30)):
        r = rng.random()
        if r < 0.40:
            toks += ['q', str(rng.randint(0, 6)), str(rng.randint(0, 2))]
        elif r < 0.65:
            f = rng.randint(0, 4); toks += ['R', str(f), kval(rng, f)]
        elif r < 0.80:
            f = rng.randint(0, 4); toks += ['E', str(f), kval(rng, f), str(rng.randint(0, 5))]
        elif r < 0.85:
            f = rng.randint(0, 4); toks += ['D', str(f), kval(rng, f)]
        else:
            f = rng.randint(0, 4); toks += ['b', str(f), kval(rng, f)]
    return toks


def gen_keys_cases(rng, tier):
    corpus = ["q 0 3 q 1 3 q 3 3 q 0 3 q 4 3 q 5 3 q 6 3 q 2 3 q 3 3 q 6 3".split(),
              "R 2 0 R 3 0 E 2 0 5 b 2 0 R 2 0 R 3 0 E 3 0 7 b 2 0 b 3 0".split(),        # zero-sized resource types, boxed change reports
              "R 0 1 R 1 1 E 0 1 4 b 1 1 b 0 1 R 0 1 R 1 1".split(),
              "E 4 0 3 R 4 0 R 4 1 E 4 2 5 b 4 1 R 4 2 R 4 3 E 4 4 1 R 4 5".split()]      # one file under three equal spellings of its path
    return corpus + [gen_keys_case(rng) for _ in range(C.quick_n(500, tier) if tier == 'quick' else 15000)]


MODK = 1000003
def keys_oracle(toks, lines):
    """identity is (concrete type, value): an independent reference with one cache entry per (family, value)"""
    inner = {0: 0, 1: 1, 2: 2, 3: 0, 4: 0, 5: 0, 6: 1}
    cache = set()          # executed task keys
    content = {}           # (rfam, v) -> value
    rstamp = {}            # reader (rfam, v) -> content seen
    def mixv(v): return (0 * 31 + (0 if v is None else v + 1) + 7) % MODK
    i = 0; li = 0
    while i < len(toks):
        op, f, v = toks[i], int(toks[i + 1]), int(toks[i + 2]); i += 3
        v0 = v
        if f == 4 and op != 'q': v = v // 3          # the spellings of one path are one key
        if op == 'q':
            x = 0 if ('t', f, v) in cache else 1
            cache.add(('t', f, v))
            exp = 'o %d x%d' % (inner[f] * 100 + v, x)
        elif op == 'R':
            key = (f, v)
            cur = content.get(key)
            if key not in rstamp or rstamp[key] != cur:
                rstamp[key] = cur; x = 1
            else:
                x = 0
            exp = 'o %d x%d' % (mixv(cur), x)
        elif op == 'E':
            content[(f, v)] = int(toks[i]); i += 1
            exp = 'o u x0'
        elif op == 'D':
            content.pop((f, v), None); exp = 'o u x0'
        else:
            key = (f, v)
            x = 0
            if key in rstamp and rstamp[key] != content.get(key):
                rstamp[key] = content.get(key); x = 1
            exp = 'o done x%d' % x
        if li >= len(lines): return 'probe stopped after %d observations' % li
        if lines[li] != exp:
            return 'key identity: operation %d (%s %d %d) observed %r; treating keys as (concrete type, value) gives %r' % (li, op, f, v0, lines[li], exp)
        li += 1
    return None

RULES['C15'] = 'random + corpus sequences of requires of tasks from seven type families with identical fields, Hash and Debug text (three newtypes, Box/Rc/Arc of one, Box of another), reader tasks over five resource key types (two of them a pair of different types with the same type name, two zero-sized, and file paths under three equal spellings each), external edits and bottom-up builds whose change report is a boxed trait object; run on the real Pie (misc_probe keys) and on the N-keyed model under the injective renaming (family,value)->N; outputs and execution counts compared, plus an independent (type,value)-keyed reference'
ASSUMPTIONS['C15'] = ['TypeId and downcast_ref are modelled by the type component of the key; Debug text of the families coincides so tracker events are not compared here']

# ----------------------------------------------------------------------------- file checkers (C13)

FS_SIZES = [0, 1, 5, 8191, 8192, 8193, 9000, 20000]
FS_DIRS = [[], ['a'], ['b'], ['a', 'b'], ['ab'], ['ba', 'a'], ['b', 'aa'], ['x', 'y', 'z'], ['xy', 'z'], ['x', 'yz'], ['abc', 'd'], ['ab', 'cd'],
           ['r%E9'], ['r%E8'], ['a', 'r%E9'], ['a', 'r%E8'], ['r%C3%A9']]      # %XX = raw byte: names that are not valid UTF-8 (and one that is)

# modification times (see fs_probe::time): two whole seconds in the past, the same second plus 250 / 500 ms (a change within one
# second, next to a time without a sub-second part, as tools like tar or touch -d leave it), and one far in the future
FS_MTIMES = [100, 200, 200, 5000000100250, 5000000100500, 3000000000]

def fs_state(rng):
    r = rng.random()
    if r < 0.12: return ['A']
    # modification times: two in the past and one far in the FUTURE (clock skew, unpacked archives): a stamp is a function of the file, not of the wall clock
    if r < 0.65: return [rng.choice(['F', 'F', 'F', 'L']), str(rng.choice(FS_SIZES)), str(rng.randint(0, 3)), str(rng.choice(FS_MTIMES))]
    d = rng.choice(FS_DIRS)
    return ['D', str(rng.choice(FS_MTIMES)), str(len(d))] + d


def gen_fs_cases(rng, tier):
    cases = [
        "D 7 2 ba a | D 7 2 b aa".split(),                  # O10 witness: different name sets, same concatenation
        "D 7 2 xy z | D 7 2 x yz".split(),
        "D 7 1 r%E9 | D 7 1 r%E8".split(),                  # names differing only in bytes that are not valid UTF-8
        "D 7 2 a r%E9 | D 7 2 a r%E8".split(),
        "F 9000 0 100 | F 9000 3 100".split(),              # same size and mtime, content differs beyond the 8 KiB buffer
        "F 8193 0 100 | F 8193 1 100".split(),
        "F 10 0 100 | F 10 0 200".split(),
        "L 10 0 100 | L 10 0 100".split(), "L 10 0 100 | L 10 0 200".split(), "L 9000 0 100 | F 9000 0 100".split(), "A | L 0 0 100".split(),     # the path is a symbolic link to the file
        "F 10 0 100 | F 10 0 5000000100500".split(), "F 10 0 5000000100500 | F 10 0 100".split(),     # changed within the same second
        "F 10 0 5000000100250 | F 10 0 5000000100500".split(), "D 100 1 a | D 5000000100500 1 a".split(),
        "F 10 0 3000000000 | F 10 0 3000000000".split(),     # a modification time in the future, nothing changes
        "F 10 0 3000000000 | F 10 0 3000000001".split(), "D 3000000000 1 a | D 3000000000 1 a".split(),
        "A | F 0 0 100".split(), "F 0 0 100 | A".split(), "A | A".split(), "D 100 0 | A".split(),
    ]
    n = C.quick_n(260, tier) if tier == 'quick' else 6000
    for i in range(n):
        s1 = fs_state(rng)
        if rng.random() < 0.35 and s1[0] == 'F':            # a near twin: same size, other variant or other mtime
            s2 = ['F', s1[1], str(rng.randint(0, 3)), rng.choice([s1[3], '100', '200', '5000000100500', '5000000100250'])]
        elif rng.random() < 0.3 and s1[0] == 'D':
            d = rng.choice(FS_DIRS)
            s2 = ['D', rng.choice([s1[1], '100', '200', '5000000100500']), str(len(d))] + d
        else:
            s2 = fs_state(rng)
        cases.append(s1 + ['|'] + s2)
    return cases


def fs_parse_state(toks, i):
    if toks[i] == 'A': return ('A',), i + 1
    if toks[i] in ('F', 'L'): return ('F', int(toks[i + 1]), int(toks[i + 2]), int(toks[i + 3])), i + 4      # L: a symbolic link to such a file
    n = int(toks[i + 2])
    return ('D', int(toks[i + 1]), tuple(toks[i + 3:i + 3 + n])), i + 3 + n


def fs_content_differs(a, b):
    """variants: 0 base, 1 last byte, 2 first byte, 3 byte 8197 (or last byte for small files)"""
    if a[1] != b[1]: return True
    size = a[1]
    if size == 0: return False
    def diffpos(v):
        if v == 0: return set()
        if v == 1: return {size - 1}
        if v == 2: return {0}
        return {8197 if size > 8200 else size - 1}
    return diffpos(a[2]) != diffpos(b[2])


def fs_oracle(toks, lines):
    s1, i = fs_parse_state(toks, 0)
    s2, _ = fs_parse_state(toks, i + 1)
    d = {}
    for l in lines:
        f = l.split()
        if f[0] == 'ls': continue
        d[(f[0], f[1])] = f[2:]
    ex = lambda s: s[0] != 'A'
    mt = lambda s: None if s[0] == 'A' else (s[3] if s[0] == 'F' else s[1])
    names = {'E': 'ExistsChecker', 'M': 'ModifiedChecker', 'H': 'HashChecker'}
    for c in 'EMH':
        r = d.get(('r', c)); u = d.get(('u', c)); k = d.get(('k', c)); w = d.get(('w', c)); w2 = d.get(('w2', c))
        if r is None or u is None or k is None or w is None or (s1[0] != 'D' and w2 is None):
            return 'probe output incomplete for checker %s' % c
        if r[0] != 'eq=1':
            return '%s: stamp from the path and stamp from a fresh reader differ in state %r' % (names[c], s1)
        if s1[0] == 'F' and r[1] != 'rew=1':
            return '%s: after stamp_reader the task does not read the full content (reader not left at the start), state %r' % (names[c], s1)
        if u[0] != '0':
            return '%s: check against its own stamp reports inconsistent although nothing was modified, state %r' % (names[c], s1)
        if s1[0] == 'D':
            if w[0] != 'err': return 'opening a directory for writing did not fail'
        else:
            if w[0] != 'eq=1': return '%s: stamp from a just-used writer differs from a stamp of the path in the same state' % names[c]
            if w[1] != 'content=1': return 'opening for writing did not create/truncate the file (state %r)' % (s1,)
            if w2[0] != 'content=1': return 'a second, shorter write of the same path through the same Pie did not truncate the file (state %r)' % (s1,)
            w3 = d.get(('w3', c))
            if w3 is None: return 'probe output incomplete for checker %s (w3)' % c
            if w3[0] != 'eq=1': return '%s: the path was removed while the writer was open: the stamp from the writer differs from the stamp of the (absent) path' % names[c]
        exp = None
        if c == 'E': exp = ex(s1) != ex(s2)
        elif c == 'M': exp = mt(s1) != mt(s2)
        else:
            if s1[0] == 'A' or s2[0] == 'A': exp = ex(s1) != ex(s2)
            elif s1[0] == 'F' and s2[0] == 'F': exp = fs_content_differs(s1, s2)
            elif s1[0] == 'D' and s2[0] == 'D': exp = set(s1[2]) != set(s2[2])
            else: exp = None     # file <-> directory: not claimed for the hash checker
        if exp is not None and (k[0] == '1') != exp:
            what = {'E': 'existence', 'M': 'modification time', 'H': 'content / set of entry names'}[c]
            return '%s: stamped in %r, checked in %r: reported %s, but the %s %s' % (names[c], s1, s2, 'inconsistent' if k[0] == '1' else 'consistent', what, 'differs' if exp else 'is the same')
    return None

RULES['C13'] = 'ordered pairs (state when stamped, state when checked) over absent / files of sizes 0..20000 around the 8 KiB read buffer in four content variants and two mtimes / directories with twelve name sets, on a real temporary filesystem with explicit modification times: three stamp routes, check untouched, check after the change, reader position after stamp_reader, open-for-write; compared with the model (OS modelled, listing order taken from readdir) and with the documented meaning'
ASSUMPTIONS['C13'] = ['the operating system (stat, readdir order, timestamp granularity, BufReader) is modelled, not verified', 'SHA-256 is modelled as an injective function (sha_inj hypothesis in the theorems)']


def fs_with_listing(toks, lines):
    """rewrite the directory states of a case with the entry order readdir reported"""
    order = {}
    for l in lines:
        f = l.split()
        if f[0] == 'ls': order[int(f[1])] = f[2:]
    s1, i = fs_parse_state(toks, 0)
    s2, _ = fs_parse_state(toks, i + 1)
    out = []
    for j, s in enumerate((s1, s2)):
        if s[0] == 'A': out += ['A']
        elif s[0] == 'F': out += ['F', str(s[1]), str(s[2]), str(s[3])]
        else:
            names = order.get(j, list(s[2]))
            out += ['D', str(s[1]), str(len(names))] + list(names)
        if j == 0: out.append('|')
    return out

"""Small layers: generators + documented-meaning oracles for the tracker probe (C17), the output checkers (C12),
the file checkers (C13), the map resource (C14) and key identity (C15)."""
import random

# ----------------------------------------------------------------------------- tracker probe (C17)

def gen_event(rng):
    k = rng.choice(['BS', 'BE', 'RS', 'RE', 'rS', 'rE', 'wS', 'wE', 'CTS', 'CTE', 'CRS', 'CRE', 'XS', 'XE', 'SBTS', 'SBTE',
                    'CQS', 'CQE', 'SBRS', 'SBRE', 'CDS', 'CDE', 'ST', 'XS', 'XE', 'RS', 'RE', 'rS', 'rE', 'wS', 'wE'])
    s = str(rng.randint(1, 3))
    oc = rng.randint(0, 2); rc = rng.randint(0, 5)
    def ost(c): return str(rng.randint(0, 9)) if c < 2 else '0'
    def rst(c): return '0' if c == 3 else str(rng.randint(0, 9))
    cres = rng.choice(['ok', 'inc', 'err10%d' % rng.randint(0, 3)])
    if k in ('BS', 'BE'): return [k]
    if k == 'RS': return [k, s, str(oc)]
    if k == 'RE': return [k, s, str(oc), ost(oc), str(rng.randint(0, 99))]
    if k in ('rS', 'wS'): return [k, s, str(rc)]
    if k in ('rE', 'wE'): return [k, s, str(rc), rst(rc)]
    if k in ('CTS', 'CQS'): return [k, s, str(oc), ost(oc)]
    if k in ('CTE', 'CQE'): return [k, s, str(oc), ost(oc), str(rng.randint(0, 1))]
    if k in ('CRS', 'CDS'): return [k, s, str(rc), rst(rc)]
    if k in ('CRE', 'CDE'): return [k, s, str(rc), rst(rc), cres]
    if k == 'XE': return [k, s, str(rng.randint(0, 99))]
    return [k, s]          # XS SBTS SBTE SBRS SBRE ST


ALL_KINDS_CASE = ("BS RS 1 0 CTS 2 1 1 CTE 2 1 1 1 CRS 2 0 5 CRE 2 0 5 err101 XS 1 rS 2 0 rE 2 0 5 wS 1 1 wE 1 1 2 XE 1 7 RE 1 0 7 7 "
                  "SBRS 1 CDS 1 4 3 CDE 1 4 3 inc ST 1 SBRE 1 SBTS 2 CQS 1 0 4 CQE 1 0 4 0 SBTE 2 BE").split()


def gen_tracker_case(rng):
    toks = []
    for _ in range(rng.randint(1, 25)):
        toks += gen_event(rng)
    return toks


RECORDED = ('BS', 'BE', 'RS', 'RE', 'rS', 'rE', 'wS', 'wE', 'XS', 'XE')
SUBJECTS = [('T', '1'), ('T', '2'), ('R', '1'), ('R', '2')]
KIND_TYPE = {'RS': 'T', 'RE': 'T', 'XS': 'T', 'XE': 'T', 'rS': 'R', 'rE': 'R', 'wS': 'R', 'wE': 'R'}


def tracker_oracle(toks, lines):
    """documented meaning of the recording tracker and its helpers, recomputed from the stream.  -> message or None"""
    d = {}
    hs = []
    fs = []
    for l in lines:
        tag = l.split(' ', 1)[0]
        if tag == 'h': hs.append(l)
        elif tag == 'f': fs.append(l)
        else: d[tag] = l[len(tag) + 1:]
    stream = [e for e in d.get('v', '').split(';') if e]
    # all 23 kinds reach the tracker as the calls were made
    exp_stream = regroup(toks)
    if stream != exp_stream:
        return 'recording tracker saw %r for the calls %r' % (stream[:8], exp_stream[:8])
    if d.get('c') != '1':
        return 'composite tracker delivered different streams to its children'
    last_bs = max([i for i, e in enumerate(stream) if e == 'BS'], default=None)
    sub = [e for e in (stream if last_bs is None else stream[last_bs:]) if e.split()[0] in RECORDED]
    exp_t = ';'.join(e if e in ('BS', 'BE') else '%s@%d' % (e, i) for i, e in enumerate(sub))
    if d.get('t', '') != exp_t:
        return 'EventTracker stored %r, the stream implies %r' % (d.get('t', '')[:120], exp_t[:120])
    if len(hs) != len(sub):
        return 'helper lines %d != stored events %d' % (len(hs), len(sub))
    for i, (e, h) in enumerate(zip(sub, hs)):
        f = e.split()
        k = f[0]
        exp = 'h %d %s%s%s' % (i, b(k == 'BS'), b(k == 'BE'), b(k in ('XS', 'XE')))
        for (ty, v) in SUBJECTS:
            same = KIND_TYPE.get(k) == ty and len(f) > 1 and f[1] == v
            exp += ' ' + ''.join(b(same and k == kk) for kk in ('RS', 'RE', 'rS', 'rE', 'wS', 'wE'))
            exp += b(same and k in ('XS', 'XE')) + b(same and k == 'XS') + b(same and k == 'XE')
        if h != exp:
            return 'helpers on stored event %d (%s): got %r, documented meaning gives %r' % (i, e, h, exp)
    for j, (ty, v) in enumerate(SUBJECTS):
        def first(kind):
            for i, e in enumerate(sub):
                f = e.split()
                if f[0] == kind and KIND_TYPE[kind] == ty and f[1] == v:
                    return i
            return None
        def rng_(a, c):
            x, y = first(a), first(c)
            return '-' if x is None or y is None else '%d..%d' % (x, y)
        def ix(a):
            x = first(a)
            return '-' if x is None else str(x)
        nxs = sum(1 for e in sub if e.split()[0] == 'XS' and ty == 'T' and e.split()[1] == v)
        anyx = any(e.split()[0] in ('XS', 'XE') and ty == 'T' and e.split()[1] == v for e in sub)
        exp = 'f %d req=%s read=%s write=%s exec=%s fre=%s fwe=%s fxe=%s anyxof=%s onexof=%s' % (
            j, rng_('RS', 'RE'), rng_('rS', 'rE'), rng_('wS', 'wE'), rng_('XS', 'XE'), ix('rE'), ix('wE'), ix('XE'), b(anyx), b(nxs == 1))
        if j >= len(fs) or fs[j] != exp:
            return 'tracker queries for %s%s: got %r, documented meaning gives %r' % (ty, v, fs[j] if j < len(fs) else None, exp)
    if d.get('g') != 'anyx=' + b(any(e.split()[0] in ('XS', 'XE') for e in sub)):
        return 'any_execute: got %r' % d.get('g')
    return None


def b(x):
    return '1' if x else '0'


ARITY = {'BS': 0, 'BE': 0, 'RS': 2, 'RE': 4, 'rS': 2, 'rE': 3, 'wS': 2, 'wE': 3, 'CTS': 3, 'CTE': 4, 'CRS': 3, 'CRE': 4, 'XS': 1, 'XE': 2,
         'SBTS': 1, 'SBTE': 1, 'CQS': 3, 'CQE': 4, 'SBRS': 1, 'SBRE': 1, 'CDS': 3, 'CDE': 4, 'ST': 1}


def regroup(toks):
    out = []
    i = 0
    while i < len(toks):
        n = ARITY[toks[i]]
        out.append(' '.join(toks[i:i + 1 + n]))
        i += 1 + n
    return out

//! Probes the filesystem resource and the three file checkers on real temporary files and directories with explicit
//! modification times.  One case = an ordered pair of path states (state when stamped, state when checked).
use std::fs::{self, File};
use std::io::{Read, Write as _};
use std::path::{Path, PathBuf};
use std::time::{Duration, SystemTime};

use pie::resource::file::hash_checker::HashChecker;
use pie::resource::file::{ExistsChecker, ModifiedChecker};
use pie::{Pie, Resource, ResourceChecker};
use verif_harness::dsl::Toks;
use verif_harness::*;

#[derive(Clone, Debug)]
enum St { Absent, File(usize, u32, u64), Dir(u64, Vec<String>), Link(usize, u32, u64) }   // Link: the path is a symbolic link to a file (the checkers see the file)

fn content(size: usize, variant: u32) -> Vec<u8> {
  let mut v: Vec<u8> = (0..size).map(|i| ((i * 7 + 3) % 251) as u8).collect();
  if size > 0 {
    match variant {
      1 => { let l = size - 1; v[l] = v[l].wrapping_add(1); }
      2 => { v[0] = v[0].wrapping_add(1); }
      3 => { let p = if size > 8200 { 8197 } else { size - 1 }; v[p] = v[p].wrapping_add(1); }
      _ => {}
    }
  }
  v
}

fn parse_state(t: &mut Toks) -> St {
  match t.next() {
    "A" => St::Absent,
    "F" => { let size: usize = t.num(); let variant: u32 = t.num(); let m: u64 = t.num(); St::File(size, variant, m) }
    "L" => { let size: usize = t.num(); let variant: u32 = t.num(); let m: u64 = t.num(); St::Link(size, variant, m) }
    "D" => { let m: u64 = t.num(); let n: usize = t.num(); let mut names = Vec::new(); for _ in 0..n { names.push(t.next().to_string()); } St::Dir(m, names) }
    x => panic!("bad state {}", x),
  }
}

// modification times: seconds after a base date; values >= 5e12 are MILLISECONDS (minus 5e12) after it, used for times that are not whole seconds
fn time(m: u64) -> SystemTime {
  if m >= 5_000_000_000_000 { SystemTime::UNIX_EPOCH + Duration::from_secs(1_600_000_000) + Duration::from_millis(m - 5_000_000_000_000) }
  else { SystemTime::UNIX_EPOCH + Duration::from_secs(1_600_000_000 + m) }
}

fn clear(p: &Path) {
  if let Ok(md) = fs::symlink_metadata(p) {
    if md.is_dir() { fs::remove_dir_all(p).unwrap(); } else { fs::remove_file(p).unwrap(); }
  }
  let target = p.with_extension("target");
  if fs::symlink_metadata(&target).is_ok() { fs::remove_file(&target).unwrap(); }
}

fn set_state(p: &Path, s: &St) {
  clear(p);
  match s {
    St::Absent => {}
    St::File(size, variant, m) => {
      let mut f = File::create(p).unwrap();
      f.write_all(&content(*size, *variant)).unwrap();
      f.set_modified(time(*m)).unwrap();
    }
    St::Link(size, variant, m) => {
      // the file lives next to the path; the link itself gets the time of its creation (now), which differs from the file's
      let target = p.with_extension("target");
      let mut f = File::create(&target).unwrap();
      f.write_all(&content(*size, *variant)).unwrap();
      f.set_modified(time(*m)).unwrap();
      std::os::unix::fs::symlink(&target, p).unwrap();
    }
    St::Dir(m, names) => {
      fs::create_dir(p).unwrap();
      for n in names { File::create(p.join(decode_name(n))).unwrap(); }
      File::open(p).unwrap().set_modified(time(*m)).unwrap();
    }
  }
}

// entry names are given (and printed) with %XX escapes, so that names that are not valid UTF-8 can be used
fn decode_name(s: &str) -> std::ffi::OsString {
  use std::os::unix::ffi::OsStringExt;
  let b = s.as_bytes();
  let mut v = Vec::new();
  let mut i = 0;
  while i < b.len() {
    if b[i] == b'%' && i + 2 < b.len() {
      let h = std::str::from_utf8(&b[i + 1..i + 3]).unwrap();
      v.push(u8::from_str_radix(h, 16).unwrap());
      i += 3;
    } else { v.push(b[i]); i += 1; }
  }
  std::ffi::OsString::from_vec(v)
}
fn encode_name(n: &std::ffi::OsStr) -> String {
  use std::os::unix::ffi::OsStrExt;
  let mut s = String::new();
  for &c in n.as_bytes() {
    if c.is_ascii_alphanumeric() || c == b'_' || c == b'.' || c == b'-' { s.push(c as char); } else { s.push_str(&format!("%{:02X}", c)); }
  }
  s
}
fn listing(p: &Path) -> Vec<String> {
  fs::read_dir(p).unwrap().map(|e| encode_name(&e.unwrap().file_name())).collect()
}

fn b(x: bool) -> char { if x { '1' } else { '0' } }

fn probe<C: ResourceChecker<PathBuf>>(tag: &str, c: &C, p: &PathBuf, s1: &St, s2: &St, out: &mut impl std::io::Write)
  where C::Stamp: PartialEq + std::fmt::Debug, C::Error: std::fmt::Debug {
  let mut pie: Pie<()> = Pie::default();
  set_state(p, s1);
  let st_path = c.stamp(p, pie.resource_state_mut::<PathBuf>()).unwrap();
  if std::env::args().any(|a| a == "--stamps") { writeln!(out, "s {} {:?}", tag, st_path).unwrap(); }   // C16: the stamp itself, for the replay at another time
  let mut reader = p.read(pie.resource_state_mut::<PathBuf>()).unwrap();
  let st_reader = c.stamp_reader(p, &mut reader).unwrap();
  // the task reads from the very reader that was stamped: it must see the full content
  let rew = match (s1, reader.as_file()) {
    (St::File(size, variant, _), Some(f)) | (St::Link(size, variant, _), Some(f)) => { let mut buf = Vec::new(); f.read_to_end(&mut buf).unwrap(); if buf == content(*size, *variant) { "1" } else { "0" } }
    _ => "na",
  };
  writeln!(out, "r {} eq={} rew={}", tag, b(st_path == st_reader), rew).unwrap();
  let untouched = c.check(p, pie.resource_state_mut::<PathBuf>(), &st_path).unwrap().is_some();
  writeln!(out, "u {} {}", tag, b(untouched)).unwrap();
  set_state(p, s2);
  let inc = c.check(p, pie.resource_state_mut::<PathBuf>(), &st_path).unwrap().is_some();
  writeln!(out, "k {} {}", tag, b(inc)).unwrap();
  // writer route on s1: open for writing, write, stamp the just-used writer, compare with a stamp from the path
  set_state(p, s1);
  match p.write(pie.resource_state_mut::<PathBuf>()) {
    Err(_) => { writeln!(out, "w {} err", tag).unwrap(); }
    Ok(mut file) => {
      let w = content(9000, 0);
      file.write_all(&w).unwrap();
      file.flush().unwrap();
      let st_w = c.stamp_writer(p, file).unwrap();
      let st_p = c.stamp(p, pie.resource_state_mut::<PathBuf>()).unwrap();
      let ok = fs::read(p).map(|d| d == w).unwrap_or(false);
      writeln!(out, "w {} eq={} content={}", tag, b(st_w == st_p), b(ok)).unwrap();
      // a second, shorter write of the same path through the same Pie: opening for writing truncates again
      match p.write(pie.resource_state_mut::<PathBuf>()) {
        Err(_) => { writeln!(out, "w2 {} err", tag).unwrap(); }
        Ok(mut file) => {
          let w2 = content(7, 1);
          file.write_all(&w2).unwrap();
          file.flush().unwrap();
          drop(file);
          let ok = fs::read(p).map(|d| d == w2).unwrap_or(false);
          writeln!(out, "w2 {} content={}", tag, b(ok)).unwrap();
        }
      }
      // the path is removed while the writer is still open: the writer route must see the absence, like the path route
      match p.write(pie.resource_state_mut::<PathBuf>()) {
        Err(_) => { writeln!(out, "w3 {} err", tag).unwrap(); }
        Ok(mut file) => {
          file.write_all(&content(11, 2)).unwrap();
          file.flush().unwrap();
          fs::remove_file(p).unwrap();
          let st_w = c.stamp_writer(p, file).unwrap();
          let st_p = c.stamp(p, pie.resource_state_mut::<PathBuf>()).unwrap();
          writeln!(out, "w3 {} eq={}", tag, b(st_w == st_p)).unwrap();
        }
      }
    }
  }
}

fn main() {
  silence_panics();
  let args: Vec<String> = std::env::args().collect();
  let dir = tempfile::tempdir().unwrap();
  let p: PathBuf = dir.path().join("p");
  let out = std::io::stdout();
  let mut out = std::io::BufWriter::new(out.lock());
  for_each_case(&args[1], |idx, toks| {
    writeln!(out, "C {}", idx).unwrap();
    let mut t = Toks { t: &toks, i: 0 };
    let s1 = parse_state(&mut t);
    assert_eq!(t.next(), "|");
    let s2 = parse_state(&mut t);
    for (i, s) in [&s1, &s2].iter().enumerate() {
      if let St::Dir(_, _) = s { set_state(&p, s); writeln!(out, "ls {} {}", i, listing(&p).join(" ")).unwrap(); }
    }
    probe("E", &ExistsChecker, &p, &s1, &s2, &mut out);
    probe("M", &ModifiedChecker, &p, &s1, &s2, &mut out);
    probe("H", &HashChecker, &p, &s1, &s2, &mut out);
    clear(&p);
  });
}

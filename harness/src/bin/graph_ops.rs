//! Drives pie_graph::DAG<u32,u32> with operation sequences and prints canonical observations
//! (same format as model_driver `graph`).
use std::cmp::Ordering;
use std::collections::HashMap;
use std::fmt::Write as _;
use std::io::Write as _;
use std::panic::{catch_unwind, AssertUnwindSafe};

use pie_graph::{Error, Node, DAG};
use verif_harness::*;

fn state(dag: &DAG<u32, u32>, nodes: &[Node]) -> String {
  let mut ranks: HashMap<Node, u32> = HashMap::new();
  for (r, n) in dag.iter_unsorted() { ranks.insert(n, r); }
  let idx: HashMap<Node, usize> = nodes.iter().enumerate().map(|(i, n)| (*n, i)).collect();
  let mut s = String::from("s");
  for (i, n) in nodes.iter().enumerate() {
    if !dag.contains_node(n) { continue; }
    let outs = catch_unwind(AssertUnwindSafe(|| dag.get_outgoing_edges(n).map(|(c, e)| format!("{}={}", idx[c], e)).collect::<Vec<_>>().join(",")))
      .unwrap_or_else(|_| "PANIC".to_string());
    let ins = catch_unwind(AssertUnwindSafe(|| dag.get_incoming_edges(n).map(|(c, e)| format!("{}={}", idx[c], e)).collect::<Vec<_>>().join(",")))
      .unwrap_or_else(|_| "PANIC".to_string());
    // cross-check the other adjacency iterators against get_*_edges (they share the children/parents sets)
    let outs_nodes: Vec<usize> = dag.get_outgoing_edge_nodes(n).map(|c| idx[c]).collect();
    let outs_data: Vec<u32> = catch_unwind(AssertUnwindSafe(|| dag.get_outgoing_edge_data(n).cloned().collect())).unwrap_or_default();
    let ins_nodes: Vec<usize> = dag.get_incoming_edge_nodes(n).map(|c| idx[c]).collect();
    let ins_data: Vec<u32> = catch_unwind(AssertUnwindSafe(|| dag.get_incoming_edge_data(n).cloned().collect())).unwrap_or_default();
    let outs2 = outs_nodes.iter().zip(outs_data.iter()).map(|(c, e)| format!("{}={}", c, e)).collect::<Vec<_>>().join(",");
    let ins2 = ins_nodes.iter().zip(ins_data.iter()).map(|(c, e)| format!("{}={}", c, e)).collect::<Vec<_>>().join(",");
    let mark = if outs2 != outs || ins2 != ins || outs_nodes.len() != outs_data.len() || ins_nodes.len() != ins_data.len() { "!ITER" } else { "" };
    let _ = write!(s, " {}:{}:{}:{}{}", i, ranks.get(n).map(|r| r.to_string()).unwrap_or("?".into()), outs, ins, mark);
  }
  s
}

fn queries(dag: &DAG<u32, u32>, nodes: &[Node]) -> String {
  let idx: HashMap<Node, usize> = nodes.iter().enumerate().map(|(i, n)| (*n, i)).collect();
  let mut s = String::from("q ");
  for a in nodes {
    for b in nodes {
      let ce = if dag.contains_edge(a, b) { 1 } else { 0 };
      let cte = match catch_unwind(AssertUnwindSafe(|| dag.contains_transitive_edge(a, b))) {
        Ok(true) => 2, Ok(false) => 0, Err(_) => 8
      };
      let _ = write!(s, "{}", ce + cte);
    }
  }
  s.push_str(" |");
  for (i, a) in nodes.iter().enumerate() {
    match dag.descendants_unsorted(a) {
      Ok(it) => {
        let l = catch_unwind(AssertUnwindSafe(|| it.map(|(r, n)| format!("{}.{}", r, idx[&n])).collect::<Vec<_>>().join(",")))
          .unwrap_or_else(|_| "PANIC".into());
        let _ = write!(s, " {}:({})", i, l);
      }
      Err(Error::NodeMissing) => { let _ = write!(s, " {}:missing", i); }
      Err(_) => { let _ = write!(s, " {}:err", i); }
    }
    match dag.descendants(a) {
      Ok(it) => {
        let l = catch_unwind(AssertUnwindSafe(|| it.map(|n| format!("{}", idx[&n])).collect::<Vec<_>>().join(",")))
          .unwrap_or_else(|_| "PANIC".into());
        let _ = write!(s, "[{}]", l);
      }
      Err(Error::NodeMissing) => { s.push_str("[missing]"); }
      Err(_) => { s.push_str("[err]"); }
    }
  }
  s.push_str(" | ");
  for a in nodes {
    for b in nodes {
      let c = catch_unwind(AssertUnwindSafe(|| dag.topo_cmp(a, b)));
      s.push(match c { Ok(Ordering::Less) => 'L', Ok(Ordering::Equal) => 'E', Ok(Ordering::Greater) => 'G', Err(_) => '-' });
    }
  }
  s
}

fn main() {
  silence_panics();
  let args: Vec<String> = std::env::args().collect();
  let with_q = !args.iter().any(|a| a == "--noq");
  let out = std::io::stdout();
  let mut out = std::io::BufWriter::new(out.lock());
  for_each_case(&args[1], |idx, toks| {
    writeln!(out, "C {}", idx).unwrap();
    let mut dag: DAG<u32, u32> = DAG::new();
    let mut nodes: Vec<Node> = Vec::new();
    let mut i = 0;
    let num = |s: &String| s.parse::<usize>().unwrap();
    while i < toks.len() {
      match toks[i].as_str() {
        "A" => {
          let n = dag.add_node(nodes.len() as u32);
          nodes.push(n);
          writeln!(out, "r A {}", nodes.len() - 1).unwrap();
          i += 1;
        }
        "R" => {
          let n = nodes[num(&toks[i + 1])];
          let r = catch_unwind(AssertUnwindSafe(|| dag.remove_node(n)));
          writeln!(out, "r R {}", match r { Ok(true) => "1", Ok(false) => "0", Err(_) => "PANIC" }).unwrap();
          i += 2;
        }
        "E" => {
          let (s, d, x) = (nodes[num(&toks[i + 1])], nodes[num(&toks[i + 2])], num(&toks[i + 3]) as u32);
          let r = catch_unwind(AssertUnwindSafe(|| dag.add_edge(s, d, x)));
          writeln!(out, "r E {}", match r {
            Ok(Ok(true)) => "ok1", Ok(Ok(false)) => "ok0", Ok(Err(Error::NodeMissing)) => "missing",
            Ok(Err(Error::CycleDetected)) => "cycle", Err(_) => "PANIC"
          }).unwrap();
          i += 4;
        }
        "X" => {
          let (s, d) = (nodes[num(&toks[i + 1])], nodes[num(&toks[i + 2])]);
          let r = catch_unwind(AssertUnwindSafe(|| dag.remove_edge(s, d)));
          writeln!(out, "r X {}", match r { Ok(None) => "none".to_string(), Ok(Some(x)) => x.to_string(), Err(_) => "PANIC".into() }).unwrap();
          i += 3;
        }
        "O" => {
          let s = nodes[num(&toks[i + 1])];
          let idx: HashMap<Node, usize> = nodes.iter().enumerate().map(|(i, n)| (*n, i)).collect();
          let r = catch_unwind(AssertUnwindSafe(|| dag.remove_outgoing_edges_of_node(s)));
          writeln!(out, "r O {}", match r {
            Ok(None) => "none".to_string(),
            Ok(Some(l)) => format!("some {}", l.iter().map(|(c, e)| format!("{}={}", idx[c], e)).collect::<Vec<_>>().join(",")),
            Err(_) => "PANIC".into()
          }).unwrap();
          i += 2;
        }
        t => panic!("bad token {}", t),
      }
      writeln!(out, "{}", state(&dag, &nodes)).unwrap();
      if with_q { writeln!(out, "{}", queries(&dag, &nodes)).unwrap(); }
    }
  });
}

//! Probes of the small layers: `tracker <cases>` (EventTracker recording + query helpers, CompositeTracker forwarding),
//! `checkers` (built-in output checkers, exhaustive), `map <cases>` (TypeToAnyMap / map resource), `keys <cases>`.
use std::fmt::Debug;
use std::io::Write as _;

use pie::resource::map::MapEqualsChecker;
use pie::task::{AlwaysConsistent, EqualsChecker};
use pie::tracker::event::{Event, EventTracker};
use pie::tracker::{CompositeTracker, Tracker};
use pie::trait_object::KeyObj;
use verif_harness::dsl::*;
use verif_harness::*;

#[derive(Debug)]
struct StrErr(String);
impl std::fmt::Display for StrErr { fn fmt(&self, f: &mut std::fmt::Formatter<'_>) -> std::fmt::Result { write!(f, "{}", self.0) } }
impl std::error::Error for StrErr {}

/// Calls the tracker method corresponding to one canonical event (same text format as the `v` lines of pie_hist).
fn feed(tr: &mut dyn Tracker, t: &mut Toks) {
  let kind = t.next().to_string();
  fn oc<R>(c: u32, f: impl FnOnce(&dyn pie::trait_object::ValueObj) -> R) -> R {
    match c { 0 => f(&EqualsChecker), 1 => f(&OutParity), _ => f(&AlwaysConsistent) }
  }
  fn rc<R>(c: u32, f: impl FnOnce(&dyn pie::trait_object::ValueObj) -> R) -> R {
    match c { 0 => f(&MapEqualsChecker), 1 => f(&RParity), 2 => f(&RExists), 3 => f(&RAlways), 4 => f(&RFailing), _ => f(&RFailStamp) }
  }
  fn ost<R>(c: u32, st: i64, f: impl FnOnce(&dyn pie::trait_object::ValueObj) -> R) -> R {
    match c { 0 | 1 => f(&st), _ => f(&()) }
  }
  fn rst<R>(c: u32, st: i64, f: impl FnOnce(&dyn pie::trait_object::ValueObj) -> R) -> R {
    match c { 0 => { let o: Option<i64> = if st == 0 { None } else { Some(st - 1) }; f(&o) } 3 => f(&()), _ => f(&st) }
  }
  match kind.as_str() {
    "BS" => tr.build_start(),
    "BE" => tr.build_end(),
    "RS" => { let k: u32 = t.num(); let c: u32 = t.num(); oc(c, |c| tr.require_start(&T(k), c)) }
    "RE" => { let k: u32 = t.num(); let c: u32 = t.num(); let st: i64 = t.num(); let o: i64 = t.num(); oc(c, |cc| ost(c, st, |s| tr.require_end(&T(k), cc, s, &o))) }
    "rS" => { let k: u32 = t.num(); let c: u32 = t.num(); rc(c, |c| tr.read_start(&R(k), c)) }
    "rE" => { let k: u32 = t.num(); let c: u32 = t.num(); let st: i64 = t.num(); rc(c, |cc| rst(c, st, |s| tr.read_end(&R(k), cc, s))) }
    "wS" => { let k: u32 = t.num(); let c: u32 = t.num(); rc(c, |c| tr.write_start(&R(k), c)) }
    "wE" => { let k: u32 = t.num(); let c: u32 = t.num(); let st: i64 = t.num(); rc(c, |cc| rst(c, st, |s| tr.write_end(&R(k), cc, s))) }
    "CTS" => { let k: u32 = t.num(); let c: u32 = t.num(); let st: i64 = t.num(); oc(c, |cc| ost(c, st, |s| tr.check_task_start(&T(k), cc, s))) }
    "CTE" => { let k: u32 = t.num(); let c: u32 = t.num(); let st: i64 = t.num(); let i: u32 = t.num();
               oc(c, |cc| ost(c, st, |s| tr.check_task_end(&T(k), cc, s, if i == 1 { Some(&1 as &dyn Debug) } else { None }))) }
    "CRS" => { let k: u32 = t.num(); let c: u32 = t.num(); let st: i64 = t.num(); rc(c, |cc| rst(c, st, |s| tr.check_resource_start(&R(k), cc, s))) }
    "CRE" => { let k: u32 = t.num(); let c: u32 = t.num(); let st: i64 = t.num(); let r = t.next().to_string();
               let e = StrErr(r.trim_start_matches("err").to_string());
               let res: Result<Option<&dyn Debug>, &dyn std::error::Error> = if r == "ok" { Ok(None) } else if r == "inc" { Ok(Some(&1)) } else { Err(&e) };
               rc(c, |cc| rst(c, st, |s| tr.check_resource_end(&R(k), cc, s, res))) }
    "XS" => { let k: u32 = t.num(); tr.execute_start(&T(k)) }
    "XE" => { let k: u32 = t.num(); let o: i64 = t.num(); tr.execute_end(&T(k), &o) }
    "SBTS" => { let k: u32 = t.num(); tr.schedule_affected_by_task_start(&T(k)) }
    "SBTE" => { let k: u32 = t.num(); tr.schedule_affected_by_task_end(&T(k)) }
    "CQS" => { let k: u32 = t.num(); let c: u32 = t.num(); let st: i64 = t.num(); oc(c, |cc| ost(c, st, |s| tr.check_task_require_task_start(&T(k), cc, s))) }
    "CQE" => { let k: u32 = t.num(); let c: u32 = t.num(); let st: i64 = t.num(); let i: u32 = t.num();
               oc(c, |cc| ost(c, st, |s| tr.check_task_require_task_end(&T(k), cc, s, if i == 1 { Some(&1 as &dyn Debug) } else { None }))) }
    "SBRS" => { let k: u32 = t.num(); tr.schedule_affected_by_resource_start(&R(k)) }
    "SBRE" => { let k: u32 = t.num(); tr.schedule_affected_by_resource_end(&R(k)) }
    "CDS" => { let k: u32 = t.num(); let c: u32 = t.num(); let st: i64 = t.num(); rc(c, |cc| rst(c, st, |s| tr.check_task_read_resource_start(&T(k), cc, s))) }
    "CDE" => { let k: u32 = t.num(); let c: u32 = t.num(); let st: i64 = t.num(); let r = t.next().to_string();
               let e = StrErr(r.trim_start_matches("err").to_string());
               let res: Result<Option<&dyn Debug>, &dyn std::error::Error> = if r == "ok" { Ok(None) } else if r == "inc" { Ok(Some(&1)) } else { Err(&e) };
               rc(c, |cc| rst(c, st, |s| tr.check_task_read_resource_end(&T(k), cc, s, res))) }
    "ST" => { let k: u32 = t.num(); tr.schedule_task(&T(k)) }
    x => panic!("bad event {}", x),
  }
}

fn et_text(et: &EventTracker) -> String {
  let d = |x: &dyn Debug| format!("{:?}", x);
  et.slice().iter().map(|e| match e {
    Event::BuildStart => "BS".to_string(),
    Event::BuildEnd => "BE".to_string(),
    Event::RequireStart(x) => format!("RS {} {}@{}", key_num(&x.task), oc_id(&d(&x.checker)), x.index),
    Event::RequireEnd(x) => { let c = d(&x.checker); format!("RE {} {} {} {}@{}", key_num(&x.task), oc_id(&c), stamp_num(&c, &d(&x.stamp)), d(&x.output), x.index) }
    Event::ReadStart(x) => format!("rS {} {}@{}", key_num(&x.resource), rc_id(&d(&x.checker)), x.index),
    Event::ReadEnd(x) => { let c = d(&x.checker); format!("rE {} {} {}@{}", key_num(&x.resource), rc_id(&c), stamp_num(&c, &d(&x.stamp)), x.index) }
    Event::WriteStart(x) => format!("wS {} {}@{}", key_num(&x.resource), rc_id(&d(&x.checker)), x.index),
    Event::WriteEnd(x) => { let c = d(&x.checker); format!("wE {} {} {}@{}", key_num(&x.resource), rc_id(&c), stamp_num(&c, &d(&x.stamp)), x.index) }
    Event::ExecuteStart(x) => format!("XS {}@{}", key_num(&x.task), x.index),
    Event::ExecuteEnd(x) => format!("XE {} {}@{}", key_num(&x.task), d(&x.output), x.index),
  }).collect::<Vec<_>>().join(";")
}

fn b(x: bool) -> char { if x { '1' } else { '0' } }

fn tracker_probe(path: &str) {
  let out = std::io::stdout();
  let mut out = std::io::BufWriter::new(out.lock());
  for_each_case(path, |idx, toks| {
    writeln!(out, "C {}", idx).unwrap();
    let mut et = EventTracker::default();
    let mut comp = CompositeTracker::new(Rec::default(), CompositeTracker::new(Rec::default(), Rec::default()));
    let mut direct = Rec::default();
    let mut t = Toks { t: &toks, i: 0 };
    while t.peek().is_some() {
      let start = t.i;
      feed(&mut et, &mut t);
      let mut t2 = Toks { t: &toks, i: start }; feed(&mut comp, &mut t2);
      let mut t3 = Toks { t: &toks, i: start }; feed(&mut direct, &mut t3);
    }
    writeln!(out, "v {}", direct.events.join(";")).unwrap();
    let same = comp.0.events == direct.events && comp.1.0.events == direct.events && comp.1.1.events == direct.events;
    writeln!(out, "c {}", b(same)).unwrap();
    writeln!(out, "t {}", et_text(&et)).unwrap();
    let subjects: Vec<Box<dyn KeyObj>> = vec![Box::new(T(1)), Box::new(T(2)), Box::new(R(1)), Box::new(R(2))];
    for (i, e) in et.slice().iter().enumerate() {
      let mut s = format!("h {} {}{}{}", i, b(e.is_build_start()), b(e.is_build_end()), b(e.is_execute()));
      for k in &subjects {
        let k = k.as_ref();
        s.push(' ');
        s.push(b(e.match_require_start(k).is_some())); s.push(b(e.match_require_end(k).is_some()));
        s.push(b(e.match_read_start(k).is_some())); s.push(b(e.match_read_end(k).is_some()));
        s.push(b(e.match_write_start(k).is_some())); s.push(b(e.match_write_end(k).is_some()));
        s.push(b(e.is_execute_of(k)));
        s.push(b(e.match_execute_start(k).is_some())); s.push(b(e.match_execute_end(k).is_some()));
      }
      writeln!(out, "{}", s).unwrap();
    }
    let rng = |r: Option<std::ops::RangeInclusive<usize>>| r.map(|r| format!("{}..{}", r.start(), r.end())).unwrap_or("-".into());
    let ix = |r: Option<&usize>| r.map(|r| r.to_string()).unwrap_or("-".into());
    for (j, k) in subjects.iter().enumerate() {
      let k = k.as_ref();
      writeln!(out, "f {} req={} read={} write={} exec={} fre={} fwe={} fxe={} anyxof={} onexof={}", j,
        rng(et.first_require_range(k)), rng(et.first_read_range(k)), rng(et.first_write_range(k)), rng(et.first_execute_range(k)),
        ix(et.first_read_end_index(k)), ix(et.first_write_end_index(k)), ix(et.first_execute_end_index(k)),
        b(et.any_execute_of(k)), b(et.one_execute_of(k))).unwrap();
    }
    writeln!(out, "g anyx={}", b(et.any_execute())).unwrap();
  });
}

fn main() {
  silence_panics();
  let args: Vec<String> = std::env::args().collect();
  match args[1].as_str() {
    "tracker" => tracker_probe(&args[2]),
    x => panic!("unknown probe {}", x),
  }
}

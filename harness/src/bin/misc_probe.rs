//! Probes of the small layers: `tracker <cases>` (EventTracker recording + query helpers, CompositeTracker forwarding),
//! `checkers` (built-in output checkers, exhaustive), `map <cases>` (TypeToAnyMap / map resource), `keys <cases>`.
use std::fmt::Debug;
use std::io::Write as _;

use pie::resource::map::MapEqualsChecker;
use pie::task::{AlwaysConsistent, EqualsChecker};
use pie::tracker::event::{Event, EventTracker};
use pie::tracker::{CompositeTracker, Tracker};
use pie::trait_object::KeyObj;
use verif_harness::dsl::*;
use verif_harness::*;

#[derive(Debug)]
struct StrErr(String);
impl std::fmt::Display for StrErr { fn fmt(&self, f: &mut std::fmt::Formatter<'_>) -> std::fmt::Result { write!(f, "{}", self.0) } }
impl std::error::Error for StrErr {}

/// Calls the tracker method corresponding to one canonical event (same text format as the `v` lines of pie_hist).
fn feed(tr: &mut dyn Tracker, t: &mut Toks) {
  let kind = t.next().to_string();
  fn oc<R>(c: u32, f: impl FnOnce(&dyn pie::trait_object::ValueObj) -> R) -> R {
    match c { 0 => f(&EqualsChecker), 1 => f(&OutParity), _ => f(&AlwaysConsistent) }
  }
  fn rc<R>(c: u32, f: impl FnOnce(&dyn pie::trait_object::ValueObj) -> R) -> R {
    match c { 0 => f(&MapEqualsChecker), 1 => f(&RParity), 2 => f(&RExists), 3 => f(&RAlways), 4 => f(&RFailing), _ => f(&RFailStamp) }
  }
  fn ost<R>(c: u32, st: i64, f: impl FnOnce(&dyn pie::trait_object::ValueObj) -> R) -> R {
    match c { 0 | 1 => f(&st), _ => f(&()) }
  }
  fn rst<R>(c: u32, st: i64, f: impl FnOnce(&dyn pie::trait_object::ValueObj) -> R) -> R {
    match c { 0 => { let o: Option<i64> = if st == 0 { None } else { Some(st - 1) }; f(&o) } 3 => f(&()), _ => f(&st) }
  }
  match kind.as_str() {
    "BS" => tr.build_start(),
    "BE" => tr.build_end(),
    "RS" => { let k: u32 = t.num(); let c: u32 = t.num(); oc(c, |c| tr.require_start(&T(k), c)) }
    "RE" => { let k: u32 = t.num(); let c: u32 = t.num(); let st: i64 = t.num(); let o: i64 = t.num(); oc(c, |cc| ost(c, st, |s| tr.require_end(&T(k), cc, s, &o))) }
    "rS" => { let k: u32 = t.num(); let c: u32 = t.num(); rc(c, |c| tr.read_start(&R(k), c)) }
    "rE" => { let k: u32 = t.num(); let c: u32 = t.num(); let st: i64 = t.num(); rc(c, |cc| rst(c, st, |s| tr.read_end(&R(k), cc, s))) }
    "wS" => { let k: u32 = t.num(); let c: u32 = t.num(); rc(c, |c| tr.write_start(&R(k), c)) }
    "wE" => { let k: u32 = t.num(); let c: u32 = t.num(); let st: i64 = t.num(); rc(c, |cc| rst(c, st, |s| tr.write_end(&R(k), cc, s))) }
    "CTS" => { let k: u32 = t.num(); let c: u32 = t.num(); let st: i64 = t.num(); oc(c, |cc| ost(c, st, |s| tr.check_task_start(&T(k), cc, s))) }
    "CTE" => { let k: u32 = t.num(); let c: u32 = t.num(); let st: i64 = t.num(); let i: u32 = t.num();
               oc(c, |cc| ost(c, st, |s| tr.check_task_end(&T(k), cc, s, if i == 1 { Some(&1 as &dyn Debug) } else { None }))) }
    "CRS" => { let k: u32 = t.num(); let c: u32 = t.num(); let st: i64 = t.num(); rc(c, |cc| rst(c, st, |s| tr.check_resource_start(&R(k), cc, s))) }
    "CRE" => { let k: u32 = t.num(); let c: u32 = t.num(); let st: i64 = t.num(); let r = t.next().to_string();
               let e = StrErr(r.trim_start_matches("err").to_string());
               let res: Result<Option<&dyn Debug>, &dyn std::error::Error> = if r == "ok" { Ok(None) } else if r == "inc" { Ok(Some(&1)) } else { Err(&e) };
               rc(c, |cc| rst(c, st, |s| tr.check_resource_end(&R(k), cc, s, res))) }
    "XS" => { let k: u32 = t.num(); tr.execute_start(&T(k)) }
    "XE" => { let k: u32 = t.num(); let o: i64 = t.num(); tr.execute_end(&T(k), &o) }
    "SBTS" => { let k: u32 = t.num(); tr.schedule_affected_by_task_start(&T(k)) }
    "SBTE" => { let k: u32 = t.num(); tr.schedule_affected_by_task_end(&T(k)) }
    "CQS" => { let k: u32 = t.num(); let c: u32 = t.num(); let st: i64 = t.num(); oc(c, |cc| ost(c, st, |s| tr.check_task_require_task_start(&T(k), cc, s))) }
    "CQE" => { let k: u32 = t.num(); let c: u32 = t.num(); let st: i64 = t.num(); let i: u32 = t.num();
               oc(c, |cc| ost(c, st, |s| tr.check_task_require_task_end(&T(k), cc, s, if i == 1 { Some(&1 as &dyn Debug) } else { None }))) }
    "SBRS" => { let k: u32 = t.num(); tr.schedule_affected_by_resource_start(&R(k)) }
    "SBRE" => { let k: u32 = t.num(); tr.schedule_affected_by_resource_end(&R(k)) }
    "CDS" => { let k: u32 = t.num(); let c: u32 = t.num(); let st: i64 = t.num(); rc(c, |cc| rst(c, st, |s| tr.check_task_read_resource_start(&T(k), cc, s))) }
    "CDE" => { let k: u32 = t.num(); let c: u32 = t.num(); let st: i64 = t.num(); let r = t.next().to_string();
               let e = StrErr(r.trim_start_matches("err").to_string());
               let res: Result<Option<&dyn Debug>, &dyn std::error::Error> = if r == "ok" { Ok(None) } else if r == "inc" { Ok(Some(&1)) } else { Err(&e) };
               rc(c, |cc| rst(c, st, |s| tr.check_task_read_resource_end(&T(k), cc, s, res))) }
    "ST" => { let k: u32 = t.num(); tr.schedule_task(&T(k)) }
    x => panic!("bad event {}", x),
  }
}

fn et_text(et: &EventTracker) -> String {
  let d = |x: &dyn Debug| format!("{:?}", x);
  et.slice().iter().map(|e| match e {
    Event::BuildStart => "BS".to_string(),
    Event::BuildEnd => "BE".to_string(),
    Event::RequireStart(x) => format!("RS {} {}@{}", key_num(&x.task), oc_id(&d(&x.checker)), x.index),
    Event::RequireEnd(x) => { let c = d(&x.checker); format!("RE {} {} {} {}@{}", key_num(&x.task), oc_id(&c), stamp_num(&c, &d(&x.stamp)), d(&x.output), x.index) }
    Event::ReadStart(x) => format!("rS {} {}@{}", key_num(&x.resource), rc_id(&d(&x.checker)), x.index),
    Event::ReadEnd(x) => { let c = d(&x.checker); format!("rE {} {} {}@{}", key_num(&x.resource), rc_id(&c), stamp_num(&c, &d(&x.stamp)), x.index) }
    Event::WriteStart(x) => format!("wS {} {}@{}", key_num(&x.resource), rc_id(&d(&x.checker)), x.index),
    Event::WriteEnd(x) => { let c = d(&x.checker); format!("wE {} {} {}@{}", key_num(&x.resource), rc_id(&c), stamp_num(&c, &d(&x.stamp)), x.index) }
    Event::ExecuteStart(x) => format!("XS {}@{}", key_num(&x.task), x.index),
    Event::ExecuteEnd(x) => format!("XE {} {}@{}", key_num(&x.task), d(&x.output), x.index),
  }).collect::<Vec<_>>().join(";")
}

fn b(x: bool) -> char { if x { '1' } else { '0' } }

fn tracker_probe(path: &str) {
  let out = std::io::stdout();
  let mut out = std::io::BufWriter::new(out.lock());
  for_each_case(path, |idx, toks| {
    writeln!(out, "C {}", idx).unwrap();
    let mut et = EventTracker::default();
    let mut comp = CompositeTracker::new(Rec::default(), CompositeTracker::new(Rec::default(), Rec::default()));
    let mut direct = Rec::default();
    let mut t = Toks { t: &toks, i: 0 };
    while t.peek().is_some() {
      let start = t.i;
      feed(&mut et, &mut t);
      let mut t2 = Toks { t: &toks, i: start }; feed(&mut comp, &mut t2);
      let mut t3 = Toks { t: &toks, i: start }; feed(&mut direct, &mut t3);
    }
    writeln!(out, "v {}", direct.events.join(";")).unwrap();
    let same = comp.0.events == direct.events && comp.1.0.events == direct.events && comp.1.1.events == direct.events;
    writeln!(out, "c {}", b(same)).unwrap();
    writeln!(out, "t {}", et_text(&et)).unwrap();
    let subjects: Vec<Box<dyn KeyObj>> = vec![Box::new(T(1)), Box::new(T(2)), Box::new(R(1)), Box::new(R(2))];
    for (i, e) in et.slice().iter().enumerate() {
      let mut s = format!("h {} {}{}{}", i, b(e.is_build_start()), b(e.is_build_end()), b(e.is_execute()));
      for k in &subjects {
        let k = k.as_ref();
        s.push(' ');
        s.push(b(e.match_require_start(k).is_some())); s.push(b(e.match_require_end(k).is_some()));
        s.push(b(e.match_read_start(k).is_some())); s.push(b(e.match_read_end(k).is_some()));
        s.push(b(e.match_write_start(k).is_some())); s.push(b(e.match_write_end(k).is_some()));
        s.push(b(e.is_execute_of(k)));
        s.push(b(e.match_execute_start(k).is_some())); s.push(b(e.match_execute_end(k).is_some()));
      }
      writeln!(out, "{}", s).unwrap();
    }
    let rng = |r: Option<std::ops::RangeInclusive<usize>>| r.map(|r| format!("{}..{}", r.start(), r.end())).unwrap_or("-".into());
    let ix = |r: Option<&usize>| r.map(|r| r.to_string()).unwrap_or("-".into());
    for (j, k) in subjects.iter().enumerate() {
      let k = k.as_ref();
      writeln!(out, "f {} req={} read={} write={} exec={} fre={} fwe={} fxe={} anyxof={} onexof={}", j,
        rng(et.first_require_range(k)), rng(et.first_read_range(k)), rng(et.first_write_range(k)), rng(et.first_execute_range(k)),
        ix(et.first_read_end_index(k)), ix(et.first_write_end_index(k)), ix(et.first_execute_end_index(k)),
        b(et.any_execute_of(k)), b(et.one_execute_of(k))).unwrap();
    }
    writeln!(out, "g anyx={}", b(et.any_execute())).unwrap();
  });
}

fn checker_family<T, E>(outs: Vec<(String, Result<T, E>)>)
  where T: Clone + Eq + std::fmt::Debug + 'static, E: Clone + Eq + std::fmt::Debug + 'static {
  use pie::task::{ErrEqualsChecker, OkEqualsChecker, ResultChecker};
  use pie::OutputChecker;
  for (n1, o1) in &outs {
    for (n2, o2) in &outs {
      let r0 = <EqualsChecker as OutputChecker<Result<T, E>>>::check(&EqualsChecker, o1, &<EqualsChecker as OutputChecker<Result<T, E>>>::stamp(&EqualsChecker, o2)).is_some();
      let r1 = OkEqualsChecker.check(o1, &<OkEqualsChecker as OutputChecker<Result<T, E>>>::stamp(&OkEqualsChecker, o2)).is_some();
      let r2 = ErrEqualsChecker.check(o1, &<ErrEqualsChecker as OutputChecker<Result<T, E>>>::stamp(&ErrEqualsChecker, o2)).is_some();
      let r3 = ResultChecker.check(o1, &<ResultChecker as OutputChecker<Result<T, E>>>::stamp(&ResultChecker, o2)).is_some();
      let r4 = <AlwaysConsistent as OutputChecker<Result<T, E>>>::check(&AlwaysConsistent, o1, &<AlwaysConsistent as OutputChecker<Result<T, E>>>::stamp(&AlwaysConsistent, o2)).is_some();
      println!("k {} {} {}{}{}{}{}", n1, n2, b(r0), b(r1), b(r2), b(r3), b(r4));
    }
  }
}

fn checkers_probe() {
  use pie::OutputChecker;
  println!("C 0");
  // payload families: small integers, unit (zero-sized) on either or both sides, heap-allocated strings
  let mut outs: Vec<(String, Result<u8, u8>)> = Vec::new();
  for v in 0..3u8 { outs.push((format!("O{}", v), Ok(v))); }
  for v in 0..3u8 { outs.push((format!("E{}", v), Err(v))); }
  checker_family(outs);
  checker_family::<(), u8>(vec![("Ou".into(), Ok(())), ("E0".into(), Err(0)), ("E1".into(), Err(1))]);
  checker_family::<u8, ()>(vec![("O0".into(), Ok(0)), ("O1".into(), Ok(1)), ("Eu".into(), Err(()))]);
  checker_family::<(), ()>(vec![("Ou".into(), Ok(())), ("Eu".into(), Err(()))]);
  checker_family::<String, String>(vec![("Oa".into(), Ok("a".to_string())), ("Ob".into(), Ok("b".to_string())), ("Ea".into(), Err("a".to_string())), ("Eb".into(), Err("b".to_string()))]);
  // payloads whose Debug text and Eq disagree: equality of payloads is Eq, never the printed form
  //   Pd: Debug coarser than Eq (prints only the first field);  Pe: Eq coarser than Debug (compares only the first field)
  #[derive(Clone, PartialEq, Eq)] struct Pd(u8, u8);
  impl std::fmt::Debug for Pd { fn fmt(&self, f: &mut std::fmt::Formatter<'_>) -> std::fmt::Result { write!(f, "Pd({})", self.0) } }
  #[derive(Clone, Debug)] struct Pe(u8, #[allow(dead_code)] u8);
  impl PartialEq for Pe { fn eq(&self, o: &Self) -> bool { self.0 == o.0 } }
  impl Eq for Pe {}
  checker_family::<Pd, Pd>(vec![("Oa".into(), Ok(Pd(0, 0))), ("Ob".into(), Ok(Pd(0, 1))), ("Ea".into(), Err(Pd(0, 0))), ("Eb".into(), Err(Pd(0, 1)))]);
  checker_family::<Pe, Pe>(vec![("Oa".into(), Ok(Pe(0, 0))), ("Oa".into(), Ok(Pe(0, 1))), ("Ea".into(), Err(Pe(0, 0))), ("Ea".into(), Err(Pe(0, 1)))]);
  // EqualsChecker / AlwaysConsistent on a non-Result output type
  for a in 0..4i64 {
    for c in 0..4i64 {
      let r0 = EqualsChecker.check(&a, &<EqualsChecker as OutputChecker<i64>>::stamp(&EqualsChecker, &c)).is_some();
      let r4 = <AlwaysConsistent as OutputChecker<i64>>::check(&AlwaysConsistent, &a, &<AlwaysConsistent as OutputChecker<i64>>::stamp(&AlwaysConsistent, &c)).is_some();
      println!("p {} {} {}{}", a, c, b(r0), b(r4));
    }
  }
}

fn main() {
  silence_panics();
  let args: Vec<String> = std::env::args().collect();
  match args[1].as_str() {
    "tracker" => tracker_probe(&args[2]),
    "checkers" => checkers_probe(),
    "map" => mapprobe::run(&args[2]),
    "keys" => keyprobe::run(&args[2]),
    "stampsrc" => stampsrc::run(),
    "wabort" => wabort::run(),
    "flaky" => flaky::run(),
    "lossy" => lossy::run(),
    x => panic!("unknown probe {}", x),
  }
}

// ------------------------------------------------------------------ map resource / TypeToAnyMap probe (C14)
mod mapprobe {
  use std::collections::hash_map::Entry;
  use std::collections::HashMap;
  use std::io::Write as _;
  use pie::resource::map::{GetGlobalMap, MapEqualsChecker, MapKey, MapKeyObjToObj, MapKeyToObj, MapValueObj};
  use pie::{Pie, Resource, ResourceChecker, ResourceState};
  use verif_harness::dsl::Toks;
  use verif_harness::for_each_case;

  macro_rules! keytype { ($n:ident) => {
    #[derive(Clone, PartialEq, Eq, Hash, Debug)] pub struct $n(pub u32);
    impl MapKey for $n { type Value = i64; }
    impl From<u32> for $n { fn from(v: u32) -> Self { $n(v) } }
    impl Num for $n { fn num(&self) -> u32 { self.0 } }
  } }
  pub trait Num { fn num(&self) -> u32; }
  keytype!(K1);
  // K2 and K3 are two DIFFERENT types with the SAME type name (both are `..::mapprobe::_::Twin`; only their TypeIds differ):
  // identity of a resource type is its TypeId, not its printed name
  pub trait Carrier { type K; }
  pub struct CA; pub struct CB;
  const _: () = { keytype!(Twin); impl Carrier for CA { type K = Twin; } };
  const _: () = { keytype!(Twin); impl Carrier for CB { type K = Twin; } };
  pub type K2 = <CA as Carrier>::K;
  pub type K3 = <CB as Carrier>::K;

  pub trait StateTy: 'static { fn show(&self) -> String; fn make(v: i64) -> Self; }
  impl<K: MapKey<Value = i64> + From<u32> + Num> StateTy for HashMap<K, i64> {
    fn show(&self) -> String { let mut v: Vec<(u32, i64)> = self.iter().map(|(k, v)| (k.num(), *v)).collect(); v.sort(); v.iter().map(|(k, v)| format!("{}={}", k, v)).collect::<Vec<_>>().join(",") }
    fn make(v: i64) -> Self { let mut m = HashMap::new(); m.insert(K::from(0), v); m }
  }
  #[derive(Default)] pub struct S11(pub Option<i64>);
  #[derive(Default)] pub struct S12(pub Option<i64>);
  impl StateTy for S11 { fn show(&self) -> String { self.0.map(|v| format!("0={}", v)).unwrap_or_default() } fn make(v: i64) -> Self { S11(Some(v)) } }
  impl StateTy for S12 { fn show(&self) -> String { self.0.map(|v| format!("0={}", v)).unwrap_or_default() } fn make(v: i64) -> Self { S12(Some(v)) } }

  fn get<R: Resource, S: StateTy>(pie: &Pie<()>) -> String {
    match pie.resource_state::<R>().get::<S>() { Some(s) => format!("Some[{}]", s.show()), None => "None".into() }
  }
  fn set<R: Resource, S: StateTy>(pie: &mut Pie<()>, v: i64) { pie.resource_state_mut::<R>().set::<S>(S::make(v)); }
  // the type-erased and the mutable routes to the same slot
  fn set_boxed<R: Resource, S: StateTy>(pie: &mut Pie<()>, v: i64) { pie.resource_state_mut::<R>().set_boxed(Box::new(S::make(v))); }
  fn get_boxed<R: Resource, S: StateTy>(pie: &Pie<()>) -> String {
    match pie.resource_state::<R>().get_boxed().and_then(|b| b.downcast_ref::<S>()) { Some(s) => format!("Some[{}]", s.show()), None => "None".into() }
  }
  fn get_mut<R: Resource, S: StateTy>(pie: &mut Pie<()>) -> String {
    match pie.resource_state_mut::<R>().get_mut::<S>() { Some(s) => format!("Some[{}]", s.show()), None => "None".into() }
  }
  fn get_boxed_mut<R: Resource, S: StateTy>(pie: &mut Pie<()>) -> String {
    match pie.resource_state_mut::<R>().get_boxed_mut().and_then(|b| b.downcast_mut::<S>()) { Some(s) => format!("Some[{}]", s.show()), None => "None".into() }
  }
  fn default_mut<R: Resource, S: StateTy + Default>(pie: &mut Pie<()>) -> String { format!("[{}]", pie.resource_state_mut::<R>().get_or_set_default_mut::<S>().show()) }
  fn default<R: Resource, S: StateTy + Default>(pie: &mut Pie<()>) -> String { format!("[{}]", pie.resource_state_mut::<R>().get_or_set_default::<S>().show()) }

  macro_rules! by_state { ($s:expr, $f:ident, $r:ty, $($a:expr),*) => { match $s {
    1001 => $f::<$r, HashMap<K1, i64>>($($a),*), 1002 => $f::<$r, HashMap<K2, i64>>($($a),*), 1003 => $f::<$r, HashMap<K3, i64>>($($a),*),
    11 => $f::<$r, S11>($($a),*), _ => $f::<$r, S12>($($a),*) } } }
  macro_rules! by_res { ($r:expr, $s:expr, $f:ident, $($a:expr),*) => { match $r {
    1 => by_state!($s, $f, K1, $($a),*), 2 => by_state!($s, $f, K2, $($a),*), _ => by_state!($s, $f, K3, $($a),*) } } }

  fn o(v: Option<i64>) -> String { match v { Some(x) => format!("Some({})", x), None => "None".into() } }

  fn read<K: MapKey<Value = i64> + From<u32>>(pie: &mut Pie<()>, k: u32) -> Option<i64> {
    let key = K::from(k);
    key.read(pie.resource_state_mut::<K>()).unwrap().copied()
  }
  fn insert<K: MapKey<Value = i64> + From<u32> + Clone>(pie: &mut Pie<()>, k: u32, v: i64) {
    let key = K::from(k);
    let mut w = key.write(pie.resource_state_mut::<K>()).unwrap();
    w.insert(v);
  }
  // the in-place route of the writer: get_mut when the key is present (checked through get), insert otherwise
  fn modify<K: MapKey<Value = i64> + From<u32> + Clone>(pie: &mut Pie<()>, k: u32, v: i64) {
    let key = K::from(k);
    let mut w = key.write(pie.resource_state_mut::<K>()).unwrap();
    let present = w.get().is_some();
    match w.get_mut() {
      Some(slot) => { assert!(present); *slot = v; }
      None => { assert!(!present); w.insert(v); }
    }
    assert_eq!(w.get().copied(), Some(v));
  }
  fn remove<K: MapKey<Value = i64> + From<u32> + Clone>(pie: &mut Pie<()>, k: u32) {
    let key = K::from(k);
    let mut w = key.write(pie.resource_state_mut::<K>()).unwrap();
    if let Entry::Occupied(e) = w.entry() { e.remove(); }
  }
  fn direct<K: MapKey<Value = i64> + From<u32>>(pie: &mut Pie<()>, k: u32, v: i64) {
    pie.resource_state_mut::<K>().get_global_map_mut().insert(K::from(k), v);
  }
  fn stamps<K: MapKey<Value = i64> + From<u32>>(pie: &mut Pie<()>, k: u32) -> (Option<i64>, Option<i64>, Option<i64>) {
    let key = K::from(k);
    let s1 = MapEqualsChecker.stamp(&key, pie.resource_state_mut::<K>()).unwrap();
    let s2 = { let mut rd = key.read(pie.resource_state_mut::<K>()).unwrap(); MapEqualsChecker.stamp_reader(&key, &mut rd).unwrap() };
    let s3 = { let w = key.write(pie.resource_state_mut::<K>()).unwrap(); MapEqualsChecker.stamp_writer(&key, w).unwrap() };
    (s1, s2, s3)
  }
  fn check<K: MapKey<Value = i64> + From<u32>>(pie: &mut Pie<()>, k: u32, st: &Option<i64>) -> bool {
    let key = K::from(k);
    let r = MapEqualsChecker.check(&key, pie.resource_state_mut::<K>(), st).unwrap().is_some();
    r
  }
  macro_rules! by_key { ($kt:expr, $f:ident, $($a:expr),*) => { match $kt { 1 => $f::<K1>($($a),*), 2 => $f::<K2>($($a),*), _ => $f::<K3>($($a),*) } } }

  // a build that is aborted INSIDE Context::write (the task's write function panics; the caller catches the panic and uses the
  // instance on): the resource state of every type must still be there afterwards
  #[derive(Clone, PartialEq, Eq, Hash, Debug)] pub struct PanicWrite(pub u32);
  impl pie::Task for PanicWrite {
    type Output = ();
    fn execute<C: pie::Context>(&self, ctx: &mut C) {
      let _ = ctx.write(&K1(self.0), MapEqualsChecker, |_w| -> Result<(), std::convert::Infallible> { panic!("write function panics") });
    }
  }
  fn aborted_write(pie: &mut Pie<()>, k: u32) {
    let _ = std::panic::catch_unwind(std::panic::AssertUnwindSafe(|| { pie.new_session().require(&PanicWrite(k)); }));
  }

  // key type 6: the VALUE type has an equality coarser than identity (all payloads of one decade are `==`): what a read returns is
  // the value most recently stored, not merely one that is equal to it
  #[derive(Clone, PartialEq, Eq, Hash, Debug)] pub struct K6(pub u32);
  #[derive(Clone, Debug)] pub struct Coarse(pub i64);
  impl PartialEq for Coarse { fn eq(&self, o: &Self) -> bool { self.0 / 10 == o.0 / 10 } }
  impl Eq for Coarse {}
  impl MapKey for K6 { type Value = Coarse; }
  fn read6(pie: &mut Pie<()>, k: u32) -> Option<i64> { K6(k).read(pie.resource_state_mut::<K6>()).unwrap().map(|c| c.0) }
  fn insert6(pie: &mut Pie<()>, k: u32, v: i64) { let key = K6(k); let mut w = key.write(pie.resource_state_mut::<K6>()).unwrap(); w.insert(Coarse(v)); }
  fn remove6(pie: &mut Pie<()>, k: u32) { let key = K6(k); let mut w = key.write(pie.resource_state_mut::<K6>()).unwrap(); if let Entry::Occupied(e) = w.entry() { e.remove(); } }
  fn direct6(pie: &mut Pie<()>, k: u32, v: i64) { pie.resource_state_mut::<K6>().get_global_map_mut().insert(K6(k), Coarse(v)); }

  // ---- the object-valued maps (values Box<dyn MapValueObj>, compared through EqObj::eq_any): values of different concrete
  // types with equal fields, and zero-sized values / keys of different types.  A value is the code  type*100 + payload.
  #[derive(Clone, PartialEq, Eq)] pub struct VI(pub i64);
  #[derive(Clone, PartialEq, Eq)] pub struct VU(pub i64);
  #[derive(Clone, PartialEq, Eq)] pub struct ZA;
  #[derive(Clone, PartialEq, Eq)] pub struct ZB;
  impl std::fmt::Debug for VI { fn fmt(&self, f: &mut std::fmt::Formatter<'_>) -> std::fmt::Result { write!(f, "{}", self.0) } }
  impl std::fmt::Debug for VU { fn fmt(&self, f: &mut std::fmt::Formatter<'_>) -> std::fmt::Result { write!(f, "{}", 100 + self.0) } }
  impl std::fmt::Debug for ZA { fn fmt(&self, f: &mut std::fmt::Formatter<'_>) -> std::fmt::Result { write!(f, "200") } }
  impl std::fmt::Debug for ZB { fn fmt(&self, f: &mut std::fmt::Formatter<'_>) -> std::fmt::Result { write!(f, "300") } }
  fn mkval(code: i64) -> Box<dyn MapValueObj> { match code / 100 { 0 => Box::new(VI(code)), 1 => Box::new(VU(code - 100)), 2 => Box::new(ZA), _ => Box::new(ZB) } }
  fn code(v: &Box<dyn MapValueObj>) -> i64 { format!("{:?}", v).parse().unwrap() }
  #[derive(Clone, PartialEq, Eq, Hash, Debug)] pub struct UA;
  #[derive(Clone, PartialEq, Eq, Hash, Debug)] pub struct UB;
  #[derive(Clone, PartialEq, Eq, Hash, Debug)] pub struct KX(pub u32);
  fn okey5(k: u32) -> MapKeyObjToObj { match k { 0 => MapKeyObjToObj::from(UA), 1 => MapKeyObjToObj::from(UB), _ => MapKeyObjToObj::from(KX(k)) } }
  type OV = Box<dyn MapValueObj>;
  fn read_o<K: MapKey<Value = OV>>(pie: &mut Pie<()>, key: K) -> Option<i64> { key.read(pie.resource_state_mut::<K>()).unwrap().map(code) }
  fn insert_o<K: MapKey<Value = OV> + Clone>(pie: &mut Pie<()>, key: K, v: i64) { let mut w = key.write(pie.resource_state_mut::<K>()).unwrap(); w.insert(mkval(v)); }
  fn remove_o<K: MapKey<Value = OV> + Clone>(pie: &mut Pie<()>, key: K) { let mut w = key.write(pie.resource_state_mut::<K>()).unwrap(); if let Entry::Occupied(e) = w.entry() { e.remove(); } }
  fn direct_o<K: MapKey<Value = OV>>(pie: &mut Pie<()>, key: K, v: i64) { pie.resource_state_mut::<K>().get_global_map_mut().insert(key, mkval(v)); }
  fn stamps_o<K: MapKey<Value = OV>>(pie: &mut Pie<()>, key: K) -> (Option<OV>, Option<i64>, Option<i64>) {
    let s1 = MapEqualsChecker.stamp(&key, pie.resource_state_mut::<K>()).unwrap();
    let s2 = { let mut rd = key.read(pie.resource_state_mut::<K>()).unwrap(); MapEqualsChecker.stamp_reader(&key, &mut rd).unwrap() };
    let s3 = { let w = key.write(pie.resource_state_mut::<K>()).unwrap(); MapEqualsChecker.stamp_writer(&key, w).unwrap() };
    (s1, s2.as_ref().map(code), s3.as_ref().map(code))
  }
  fn check_o<K: MapKey<Value = OV>>(pie: &mut Pie<()>, key: K, st: &Option<OV>) -> bool {
    let r = MapEqualsChecker.check(&key, pie.resource_state_mut::<K>(), st).unwrap().is_some();
    r
  }

  pub fn run(path: &str) {
    let out = std::io::stdout();
    let mut out = std::io::BufWriter::new(out.lock());
    for_each_case(path, |idx, toks| {
      writeln!(out, "C {}", idx).unwrap();
      let mut pie: Pie<()> = Pie::default();
      let mut slots: HashMap<u32, (u32, u32, Option<i64>)> = HashMap::new();
      let mut oslots: HashMap<u32, (u32, u32, Option<OV>)> = HashMap::new();
      let mut t = Toks { t: &toks, i: 0 };
      while t.peek().is_some() {
        match t.next() {
          "g" => { let r: u32 = t.num(); let s: u32 = t.num(); writeln!(out, "g {}", by_res!(r, s, get, &pie)).unwrap(); }
          "s" => { let r: u32 = t.num(); let s: u32 = t.num(); let v: i64 = t.num(); by_res!(r, s, set, &mut pie, v); writeln!(out, "u").unwrap(); }
          "S" => { let r: u32 = t.num(); let s: u32 = t.num(); let v: i64 = t.num(); by_res!(r, s, set_boxed, &mut pie, v); writeln!(out, "u").unwrap(); }
          "G" => { let r: u32 = t.num(); let s: u32 = t.num(); writeln!(out, "g {}", by_res!(r, s, get_boxed, &pie)).unwrap(); }
          "M" => { let r: u32 = t.num(); let s: u32 = t.num(); writeln!(out, "g {}", by_res!(r, s, get_mut, &mut pie)).unwrap(); }
          "B" => { let r: u32 = t.num(); let s: u32 = t.num(); writeln!(out, "g {}", by_res!(r, s, get_boxed_mut, &mut pie)).unwrap(); }
          "D" => { let r: u32 = t.num(); let s: u32 = t.num(); writeln!(out, "d {}", by_res!(r, s, default_mut, &mut pie)).unwrap(); }
          "d" => { let r: u32 = t.num(); let s: u32 = t.num(); writeln!(out, "d {}", by_res!(r, s, default, &mut pie)).unwrap(); }
          "r" => { let kt: u32 = t.num(); let k: u32 = t.num();
                   let v = if kt == 6 { read6(&mut pie, k) } else if kt >= 4 { if kt == 4 { read_o(&mut pie, MapKeyToObj(k)) } else { read_o(&mut pie, okey5(k)) } } else { by_key!(kt, read, &mut pie, k) };
                   writeln!(out, "r {}", o(v)).unwrap(); }
          "w" => { let kt: u32 = t.num(); let k: u32 = t.num(); let v: i64 = t.num();
                   if kt == 6 { insert6(&mut pie, k, v) } else if kt == 4 { insert_o(&mut pie, MapKeyToObj(k), v) } else if kt >= 5 { insert_o(&mut pie, okey5(k), v) } else { by_key!(kt, insert, &mut pie, k, v) }
                   writeln!(out, "u").unwrap(); }
          "m" => { let kt: u32 = t.num(); let k: u32 = t.num(); let v: i64 = t.num();
                   by_key!(kt, modify, &mut pie, k, v);
                   writeln!(out, "u").unwrap(); }
          "x" => { let kt: u32 = t.num(); let k: u32 = t.num();
                   if kt == 6 { remove6(&mut pie, k) } else if kt == 4 { remove_o(&mut pie, MapKeyToObj(k)) } else if kt >= 5 { remove_o(&mut pie, okey5(k)) } else { by_key!(kt, remove, &mut pie, k) }
                   writeln!(out, "u").unwrap(); }
          "i" => { let kt: u32 = t.num(); let k: u32 = t.num(); let v: i64 = t.num();
                   if kt == 6 { direct6(&mut pie, k, v) } else if kt == 4 { direct_o(&mut pie, MapKeyToObj(k), v) } else if kt >= 5 { direct_o(&mut pie, okey5(k), v) } else { by_key!(kt, direct, &mut pie, k, v) }
                   writeln!(out, "u").unwrap(); }
          "t" => { let slot: u32 = t.num(); let kt: u32 = t.num(); let k: u32 = t.num();
                   if kt >= 4 {
                     let (s1, s2, s3) = if kt == 4 { stamps_o(&mut pie, MapKeyToObj(k)) } else { stamps_o(&mut pie, okey5(k)) };
                     writeln!(out, "t {} {} {}", o(s1.as_ref().map(code)), o(s2), o(s3)).unwrap();
                     slots.remove(&slot); oslots.insert(slot, (kt, k, s1));
                   } else {
                     let (s1, s2, s3) = by_key!(kt, stamps, &mut pie, k);
                     oslots.remove(&slot); slots.insert(slot, (kt, k, s1));
                     writeln!(out, "t {} {} {}", o(s1), o(s2), o(s3)).unwrap();
                   } }
          "p" => { let k: u32 = t.num(); aborted_write(&mut pie, k); writeln!(out, "u").unwrap(); }
          "c" => { let slot: u32 = t.num();
                   if let Some((kt, k, st)) = oslots.get(&slot).cloned() {
                     let inc = if kt == 4 { check_o(&mut pie, MapKeyToObj(k), &st) } else { check_o(&mut pie, okey5(k), &st) };
                     writeln!(out, "c {}", if inc { 1 } else { 0 }).unwrap();
                   } else { match slots.get(&slot).cloned() {
                     None => writeln!(out, "c none").unwrap(),
                     Some((kt, k, st)) => { let inc = by_key!(kt, check, &mut pie, k, &st); writeln!(out, "c {}", if inc { 1 } else { 0 }).unwrap(); }
                   } } }
          x => panic!("bad map op {}", x),
        }
      }
    });
  }
}

// ------------------------------------------------------------------ key identity probe (C15)
mod keyprobe {
  use std::cell::RefCell;
  use std::fmt::{Debug, Formatter};
  use std::hash::{Hash, Hasher};
  use std::io::Write as _;
  use std::panic::{catch_unwind, AssertUnwindSafe};
  use std::rc::Rc;
  use std::sync::Arc;
  use pie::resource::map::{GetGlobalMap, MapEqualsChecker, MapKey};
  use pie::trait_object::KeyObj;
  use pie::{Context, Pie, Task};
  use verif_harness::dsl::{mix, stamp_exact, Toks};
  use verif_harness::{for_each_case, panic_message};

  thread_local! { static EXECS: RefCell<u32> = RefCell::new(0); }
  fn bump() { EXECS.with(|e| *e.borrow_mut() += 1); }

  // task families with identical fields, Hash and Debug text
  macro_rules! fam { ($n:ident, $code:expr) => {
    #[derive(Clone, PartialEq, Eq)] pub struct $n(pub u32);
    impl Hash for $n { fn hash<H: Hasher>(&self, h: &mut H) { self.0.hash(h) } }
    impl Debug for $n { fn fmt(&self, f: &mut Formatter<'_>) -> std::fmt::Result { write!(f, "K({})", self.0) } }
    impl Task for $n { type Output = i64; fn execute<C: Context>(&self, _c: &mut C) -> i64 { bump(); $code * 100 + self.0 as i64 } }
    impl From<u32> for $n { fn from(v: u32) -> Self { $n(v) } }
  } }
  fam!(A, 0);
  // B and C (and the resource families RA and RB below) are pairs of DIFFERENT types with the SAME type name (`..::keyprobe::_::Twin`):
  // identity is the TypeId, not the printed type name
  pub trait Carrier { type K; }
  pub struct CB; pub struct CC; pub struct CRA; pub struct CRB;
  const _: () = { fam!(Twin, 1); impl Carrier for CB { type K = Twin; } };
  const _: () = { fam!(Twin, 2); impl Carrier for CC { type K = Twin; } };
  pub type B = <CB as Carrier>::K;
  pub type C = <CC as Carrier>::K;

  // resource families, two of them zero sized
  macro_rules! rfam { ($n:ident) => {
    #[derive(Clone, PartialEq, Eq)] pub struct $n(pub u32);
    impl Hash for $n { fn hash<H: Hasher>(&self, h: &mut H) { self.0.hash(h) } }
    impl Debug for $n { fn fmt(&self, f: &mut Formatter<'_>) -> std::fmt::Result { write!(f, "K({})", self.0) } }
    impl MapKey for $n { type Value = i64; }
    impl From<u32> for $n { fn from(v: u32) -> Self { $n(v) } }
  } }
  const _: () = { rfam!(Twin); impl Carrier for CRA { type K = Twin; } };
  const _: () = { rfam!(Twin); impl Carrier for CRB { type K = Twin; } };
  pub type RA = <CRA as Carrier>::K;
  pub type RB = <CRB as Carrier>::K;
  macro_rules! ufam { ($n:ident) => {
    #[derive(Clone, PartialEq, Eq, Hash)] pub struct $n;
    impl Debug for $n { fn fmt(&self, f: &mut Formatter<'_>) -> std::fmt::Result { write!(f, "K(0)") } }
    impl MapKey for $n { type Value = i64; }
  } }
  ufam!(U1); ufam!(U2);

  #[derive(Clone, PartialEq, Eq, Hash)] pub struct Rd<K>(pub K);
  impl<K> Debug for Rd<K> { fn fmt(&self, f: &mut Formatter<'_>) -> std::fmt::Result { write!(f, "Rd") } }
  impl<K: MapKey<Value = i64>> Task for Rd<K> {
    type Output = i64;
    fn execute<C: Context>(&self, c: &mut C) -> i64 { bump(); let v = c.read(&self.0, MapEqualsChecker).unwrap().copied(); mix(0, stamp_exact(v)) }
  }

  // resource family 4: files.  value = file * 3 + spelling; the three spellings of a path (`d/f`, `d//f`, `d/./f`) are EQUAL PathBufs
  // (PathBuf compares and hashes component-wise), so they are one resource, and readers keyed by them are one task
  thread_local! { static FDIR: tempfile::TempDir = tempfile::tempdir().unwrap(); }
  fn fpath(v: u32) -> std::path::PathBuf {
    let base = FDIR.with(|d| d.path().to_str().unwrap().to_string());
    let f = v / 3;
    std::path::PathBuf::from(match v % 3 { 0 => format!("{}/d/f{}", base, f), 1 => format!("{}/d//f{}", base, f), _ => format!("{}/d/./f{}", base, f) })
  }
  pub fn reset_files() {
    let base = FDIR.with(|d| d.path().to_path_buf());
    let _ = std::fs::remove_dir_all(base.join("d"));
    std::fs::create_dir_all(base.join("d")).unwrap();
  }
  #[derive(Clone, PartialEq, Eq, Hash)] pub struct RdF(pub std::path::PathBuf);
  impl Debug for RdF { fn fmt(&self, f: &mut Formatter<'_>) -> std::fmt::Result { write!(f, "RdF") } }
  impl Task for RdF {
    type Output = i64;
    fn execute<C: Context>(&self, c: &mut C) -> i64 {
      use std::io::Read as _;
      bump();
      let mut rd = c.read(&self.0, pie::resource::file::hash_checker::HashChecker).unwrap();
      let v = match rd.as_file() { Some(f) => { let mut sbuf = String::new(); f.read_to_string(&mut sbuf).unwrap(); sbuf.trim().parse::<i64>().ok() } None => None };
      mix(0, stamp_exact(v))
    }
  }

  fn req(pie: &mut Pie<()>, fam: u32, v: u32) -> i64 {
    let mut s = pie.new_session();
    match fam {
      0 => s.require(&A(v)), 1 => s.require(&B::from(v)), 2 => s.require(&C::from(v)),
      3 => s.require(&Box::new(A(v))), 4 => s.require(&Rc::new(A(v))), 5 => s.require(&Arc::new(A(v))),
      _ => s.require(&Box::new(B::from(v))),
    }
  }
  fn reqr(pie: &mut Pie<()>, fam: u32, v: u32) -> i64 {
    let mut s = pie.new_session();
    match fam { 0 => s.require(&Rd(RA::from(v))), 1 => s.require(&Rd(RB::from(v))), 2 => s.require(&Rd(U1)), 3 => s.require(&Rd(U2)), _ => s.require(&RdF(fpath(v))) }
  }
  fn edit(pie: &mut Pie<()>, fam: u32, v: u32, val: Option<i64>) {
    macro_rules! e { ($k:expr, $t:ty) => { { let m = pie.resource_state_mut::<$t>().get_global_map_mut(); match val { Some(x) => { m.insert($k, x); } None => { m.remove(&$k); } } } } }
    if fam == 4 { match val { Some(x) => std::fs::write(fpath(v), format!("{}", x)).unwrap(), None => { let _ = std::fs::remove_file(fpath(v)); } } return; }
    match fam { 0 => e!(RA::from(v), RA), 1 => e!(RB::from(v), RB), 2 => e!(U1, U1), _ => e!(U2, U2) }
  }
  fn bottom_up(pie: &mut Pie<()>, fam: u32, v: u32) {
    // the changed resource arrives as a boxed trait object, as a file watcher would hand it over
    let boxed: Box<dyn KeyObj> = match fam { 0 => Box::new(RA::from(v)), 1 => Box::new(RB::from(v)), 2 => Box::new(U1), 3 => Box::new(U2), _ => Box::new(fpath(v)) };
    let mut s = pie.new_session();
    let mut bu = s.create_bottom_up_build();
    bu.schedule_tasks_affected_by(boxed.as_ref());
    bu.update_affected_tasks();
  }

  pub fn run(path: &str) {
    let out = std::io::stdout();
    let mut out = std::io::BufWriter::new(out.lock());
    for_each_case(path, |idx, toks| {
      writeln!(out, "C {}", idx).unwrap();
      reset_files();
      let mut pie: Pie<()> = Pie::default();
      let mut t = Toks { t: &toks, i: 0 };
      while t.peek().is_some() {
        EXECS.with(|e| *e.borrow_mut() = 0);
        let op = t.next().to_string();
        let fam: u32 = t.num(); let v: u32 = t.num();
        let r = catch_unwind(AssertUnwindSafe(|| match op.as_str() {
          "q" => format!("{}", req(&mut pie, fam, v)),
          "R" => format!("{}", reqr(&mut pie, fam, v)),
          "E" => { let val: i64 = t.num(); edit(&mut pie, fam, v, Some(val)); "u".into() }
          "D" => { edit(&mut pie, fam, v, None); "u".into() }
          "b" => { bottom_up(&mut pie, fam, v); "done".into() }
          x => panic!("bad key op {}", x),
        }));
        let n = EXECS.with(|e| *e.borrow());
        match r { Ok(s) => writeln!(out, "o {} x{}", s, n).unwrap(), Err(e) => writeln!(out, "o abort:{} x{}", panic_message(&e).chars().take(30).collect::<String>().replace(' ', "_"), n).unwrap() }
      }
    });
  }
}


// ------------------------------------------------------------------ where stamps come from (C09)
// A resource whose every open (read or write) is numbered.  The checker's stamp is the number of the reader / writer it was
// given.  "From the very reader handed to the task": the stamp of a read dependency must be the number of the reader the task
// got, and a read must open the resource exactly once; the stamp of a write dependency must be the number of the writer the
// task's write function used.
mod stampsrc {
  use std::convert::Infallible;
  use std::fmt::Debug;
  use pie::{Context, Pie, Resource, ResourceChecker, ResourceState, Task};
  use pie::tracker::event::{Event, EventTracker};

  #[derive(Clone, PartialEq, Eq, Hash, Debug)] pub struct Probe(pub u32);
  #[derive(Default)] pub struct Opens(pub u32);
  pub struct PR { pub no: u32 }
  pub struct PW { pub no: u32 }
  impl Resource for Probe {
    type Reader<'rs> = PR;
    type Writer<'r> = PW;
    type Error = Infallible;
    fn read<'rs, RS: ResourceState<Self>>(&self, state: &'rs mut RS) -> Result<PR, Infallible> {
      let o = state.get_or_set_default_mut::<Opens>(); o.0 += 1; Ok(PR { no: o.0 })
    }
    fn write<'r, RS: ResourceState<Self>>(&'r self, state: &'r mut RS) -> Result<PW, Infallible> {
      let o = state.get_or_set_default_mut::<Opens>(); o.0 += 1; Ok(PW { no: o.0 })
    }
  }
  // PC(true): check always reports a change (so that a bottom-up build re-executes the task)
  #[derive(Clone, Copy, PartialEq, Eq, Hash, Debug)] pub struct PC(pub bool);
  impl ResourceChecker<Probe> for PC {
    type Stamp = u32;
    type Error = Infallible;
    fn stamp<RS: ResourceState<Probe>>(&self, _r: &Probe, _s: &mut RS) -> Result<u32, Infallible> { Ok(0) }
    fn stamp_reader(&self, _r: &Probe, reader: &mut PR) -> Result<u32, Infallible> { Ok(reader.no) }
    fn stamp_writer(&self, _r: &Probe, writer: PW) -> Result<u32, Infallible> { Ok(writer.no) }
    fn check<RS: ResourceState<Probe>>(&self, _r: &Probe, _s: &mut RS, _stamp: &u32) -> Result<Option<impl Debug>, Infallible> { Ok(if self.0 { Some(1u32) } else { None }) }
    fn wrap_error(&self, e: Infallible) -> Infallible { e }
  }

  // mode 0: read; 1: write through the context; 2: create_writer + written_to.  The task returns the number of the reader / writer it used.
  #[derive(Clone, PartialEq, Eq, Hash, Debug)] pub struct PT(pub u32, pub u32);
  impl Task for PT {
    type Output = u32;
    fn execute<C: Context>(&self, ctx: &mut C) -> u32 {
      match self.1 {
        0 => ctx.read(&Probe(self.0), PC(true)).unwrap().no,
        1 => { let mut seen = 0; ctx.write(&Probe(self.0), PC(true), |w| { seen = w.no; Ok(()) }).unwrap(); seen }
        _ => { let seen = ctx.create_writer(&Probe(self.0)).unwrap().no; ctx.written_to(&Probe(self.0), PC(true)).unwrap(); seen }
      }
    }
  }
  #[derive(Clone, PartialEq, Eq, Hash, Debug)] pub struct Outer(pub u32, pub u32);
  impl Task for Outer {
    type Output = u32;
    fn execute<C: Context>(&self, ctx: &mut C) -> u32 { ctx.require(&PT(self.0, self.1), pie::task::EqualsChecker) }
  }

  fn stamps(tr: &EventTracker) -> Vec<String> {
    tr.iter().filter_map(|e| match e {
      Event::ReadEnd(d) => Some(format!("r{:?}", d.stamp)),
      Event::WriteEnd(d) => Some(format!("w{:?}", d.stamp)),
      _ => None }).collect()
  }
  fn seen_by_task(tr: &EventTracker) -> Vec<String> {
    tr.iter().filter_map(|e| match e { Event::ExecuteEnd(d) => Some(format!("{:?}", d.output)), _ => None }).collect()
  }
  fn opens(pie: &Pie<EventTracker>) -> u32 { pie.resource_state::<Probe>().get::<Opens>().map(|o| o.0).unwrap_or(0) }

  pub fn run() {
    for mode in 0..3u32 {
      for nested in [false, true] {
        let mut pie = Pie::with_tracker(EventTracker::default());
        let seen = if nested { pie.new_session().require(&Outer(mode + 1, mode)) } else { pie.new_session().require(&PT(mode + 1, mode)) };
        println!("stampsrc ctx=td mode={} nested={} seen={} stamps={} opens={}", mode, nested as u8, seen, stamps(pie.tracker()).join(","), opens(&pie));
        // the task re-executed by a bottom-up build (the checker reports a change)
        let before = opens(&pie);
        {
          let mut session = pie.new_session();
          let mut bu = session.create_bottom_up_build();
          bu.schedule_tasks_affected_by(&Probe(mode + 1));
          bu.update_affected_tasks();
        }
        println!("stampsrc ctx=bu mode={} nested={} seen={} stamps={} opens={}", mode, nested as u8, seen_by_task(pie.tracker()).join(","), stamps(pie.tracker()).join(","), opens(&pie) - before);
      }
    }
    println!("#");
  }
}

// ------------------------------------------------------------------ write-side aborts happen before the resource is opened for writing (C05, C06)
// Opening a resource for writing can itself modify it (a file is created / truncated), so a write through the context that is
// rejected (hidden dependency, overlapping write) must be rejected before `Resource::write` is called at all.
mod wabort {
  use std::panic::{catch_unwind, AssertUnwindSafe};
  use pie::{Context, Pie, ResourceState, Task};
  use pie::tracker::event::EventTracker;
  use super::stampsrc::{Probe, PC, Opens};
  use verif_harness::panic_message;

  #[derive(Clone, PartialEq, Eq, Hash, Debug)] pub struct Rd(pub u32);
  impl Task for Rd {
    type Output = u32;
    fn execute<C: Context>(&self, ctx: &mut C) -> u32 { ctx.read(&Probe(self.0), PC(false)).unwrap().no }
  }
  // Wr(resource, tag): writes the resource through the context; the tag distinguishes writer tasks
  #[derive(Clone, PartialEq, Eq, Hash, Debug)] pub struct Wr(pub u32, pub u32);
  impl Task for Wr {
    type Output = u32;
    fn execute<C: Context>(&self, ctx: &mut C) -> u32 { let mut seen = 0; ctx.write(&Probe(self.0), PC(false), |w| { seen = w.no; Ok(()) }).unwrap(); seen }
  }
  // Via(resource, tag): requires the writer (nested write)
  #[derive(Clone, PartialEq, Eq, Hash, Debug)] pub struct Via(pub u32, pub u32);
  impl Task for Via {
    type Output = u32;
    fn execute<C: Context>(&self, ctx: &mut C) -> u32 { ctx.require(&Wr(self.0, self.1), pie::task::EqualsChecker) }
  }
  fn opens(pie: &Pie<EventTracker>) -> u32 { pie.resource_state::<Probe>().get::<Opens>().map(|o| o.0).unwrap_or(0) }

  pub fn run() {
    for kind in ["hidden", "overlap"] {
      for same_session in [true, false] {
        for nested in [false, true] {
          let mut pie = Pie::with_tracker(EventTracker::default());
          let r = 7u32;
          let second = |s: &mut pie::Session| { if nested { s.require(&Via(r, 2)) } else { s.require(&Wr(r, 2)) } };
          let (before, res) = if same_session {
            let mut s = pie.new_session();
            if kind == "hidden" { s.require(&Rd(r)); } else { s.require(&Wr(r, 1)); }
            drop(s);
            let before = opens(&pie);
            // same session variant: first and second build in ONE session
            let mut pie2 = Pie::with_tracker(EventTracker::default());
            let res = {
              let mut s = pie2.new_session();
              if kind == "hidden" { s.require(&Rd(r)); } else { s.require(&Wr(r, 1)); }
              catch_unwind(AssertUnwindSafe(|| second(&mut s)))
            };
            let after = opens(&pie2);
            println!("wabort kind={} session=same nested={} aborted={} msg={} opens_before={} opens_after={}", kind, nested as u8, res.is_err() as u8,
                     res.as_ref().err().map(|e| panic_message(e).chars().take(16).collect::<String>().replace(' ', "_")).unwrap_or_default(), before, after);
            continue;
          } else {
            { let mut s = pie.new_session(); if kind == "hidden" { s.require(&Rd(r)); } else { s.require(&Wr(r, 1)); } }
            let before = opens(&pie);
            let res = { let mut s = pie.new_session(); catch_unwind(AssertUnwindSafe(|| second(&mut s))) };
            (before, res)
          };
          let after = opens(&pie);
          println!("wabort kind={} session=other nested={} aborted={} msg={} opens_before={} opens_after={}", kind, nested as u8, res.is_err() as u8,
                   res.as_ref().err().map(|e| panic_message(e).chars().take(16).collect::<String>().replace(' ', "_")).unwrap_or_default(), before, after);
        }
      }
    }
    println!("#");
  }
}

// ------------------------------------------------------------------ a checker that fails intermittently (C18)
// The checker fails its next N checks and works again afterwards.  EVERY failure is reported and counts as "inconsistent":
// the owner is re-executed (top-down) / scheduled and executed (bottom-up), whatever a second attempt would have answered.
mod flaky {
  use std::cell::Cell;
  use std::fmt::Debug;
  use pie::resource::map::{GetGlobalMap, MapKey};
  use pie::{Context, Pie, Resource, ResourceChecker, ResourceState, Task};
  use verif_harness::dsl::FailErr;

  thread_local! { static FAILS: Cell<u32> = Cell::new(0); static EXECS: Cell<u32> = Cell::new(0); static CHECKS: Cell<u32> = Cell::new(0); }
  #[derive(Clone, PartialEq, Eq, Hash, Debug)] pub struct Slot(pub u32);
  impl MapKey for Slot { type Value = i64; }
  #[derive(Clone, Copy, PartialEq, Eq, Hash, Debug)] pub struct Hiccup;
  impl ResourceChecker<Slot> for Hiccup {
    type Stamp = Option<i64>;
    type Error = FailErr;
    fn stamp<RS: ResourceState<Slot>>(&self, r: &Slot, s: &mut RS) -> Result<Option<i64>, FailErr> { Ok(r.read(s).unwrap().copied()) }
    fn stamp_reader(&self, _r: &Slot, reader: &mut Option<&i64>) -> Result<Option<i64>, FailErr> { Ok(reader.copied()) }
    fn stamp_writer(&self, _r: &Slot, w: pie::resource::map::MapWriter<'_, Slot>) -> Result<Option<i64>, FailErr> { Ok(w.get().copied()) }
    fn check<RS: ResourceState<Slot>>(&self, r: &Slot, s: &mut RS, stamp: &Option<i64>) -> Result<Option<impl Debug>, FailErr> {
      CHECKS.with(|c| c.set(c.get() + 1));
      if FAILS.with(|f| f.get()) > 0 { FAILS.with(|f| f.set(f.get() - 1)); return Err(FailErr(77)); }
      let now = r.read(s).unwrap().copied();
      Ok(if now != *stamp { Some(now) } else { None })
    }
    fn wrap_error(&self, e: std::convert::Infallible) -> FailErr { match e {} }
  }
  #[derive(Clone, PartialEq, Eq, Hash, Debug)] pub struct ReadSlot(pub u32);
  impl Task for ReadSlot {
    type Output = Option<i64>;
    fn execute<C: Context>(&self, c: &mut C) -> Option<i64> { EXECS.with(|e| e.set(e.get() + 1)); c.read(&Slot(self.0), Hiccup).unwrap().copied() }
  }
  pub fn run() {
    for ctx in ["td", "bu"] {
      for fails in [1u32, 2] {
        let mut pie: Pie<()> = Pie::default();
        pie.resource_state_mut::<Slot>().get_global_map_mut().insert(Slot(1), 5);
        pie.new_session().require(&ReadSlot(1));
        EXECS.with(|e| e.set(0)); CHECKS.with(|c| c.set(0)); FAILS.with(|f| f.set(fails));
        let errs = {
          let mut s = pie.new_session();
          if ctx == "td" { s.require(&ReadSlot(1)); } else { let mut b = s.create_bottom_up_build(); b.schedule_tasks_affected_by(&Slot(1)); b.update_affected_tasks(); }
          s.dependency_check_errors().map(|e| format!("{}", e)).collect::<Vec<_>>().join(",")
        };
        println!("flaky ctx={} armed={} errs=[{}] execs={} checks={} left={}", ctx, fails, errs, EXECS.with(|e| e.get()), CHECKS.with(|c| c.get()), FAILS.with(|f| f.get()));
        FAILS.with(|f| f.set(0));
      }
    }
    println!("#");
  }
}

// ------------------------------------------------------------------ an output type whose Debug text hides differences (C03, C09, C12)
// Equality of outputs is Eq.  A requirer with the equality checker is affected whenever the required output is != its stamp, also
// when both print alike.
mod lossy {
  use std::cell::Cell;
  use std::fmt::{Debug, Formatter};
  use pie::resource::map::{GetGlobalMap, MapEqualsChecker, MapKey};
  use pie::task::EqualsChecker;
  use pie::{Context, Pie, Task};

  thread_local! { static UP: Cell<u32> = Cell::new(0); }
  #[derive(Clone, PartialEq, Eq, Hash, Debug)] pub struct Slot(pub u32);
  impl MapKey for Slot { type Value = i64; }
  #[derive(Clone, PartialEq, Eq)] pub struct Lossy(pub i64);
  impl Debug for Lossy { fn fmt(&self, f: &mut Formatter<'_>) -> std::fmt::Result { write!(f, "Lossy(..)") } }     // every value prints alike
  #[derive(Clone, PartialEq, Eq, Hash, Debug)] pub struct Src(pub u32);
  impl Task for Src {
    type Output = Lossy;
    fn execute<C: Context>(&self, c: &mut C) -> Lossy { Lossy(c.read(&Slot(self.0), MapEqualsChecker).unwrap().copied().unwrap_or(0)) }
  }
  #[derive(Clone, PartialEq, Eq, Hash, Debug)] pub struct Up(pub u32);
  impl Task for Up {
    type Output = i64;
    fn execute<C: Context>(&self, c: &mut C) -> i64 { UP.with(|u| u.set(u.get() + 1)); c.require(&Src(self.0), EqualsChecker).0 * 2 }
  }
  fn set(pie: &mut Pie<()>, v: i64) { pie.resource_state_mut::<Slot>().get_global_map_mut().insert(Slot(1), v); }
  pub fn run() {
    for ctx in ["td", "bu"] {
      let mut pie: Pie<()> = Pie::default();
      set(&mut pie, 1);
      let first = pie.new_session().require(&Up(1));
      set(&mut pie, 2);
      UP.with(|u| u.set(0));
      if ctx == "bu" { let mut s = pie.new_session(); let mut b = s.create_bottom_up_build(); b.schedule_tasks_affected_by(&Slot(1)); b.update_affected_tasks(); }
      let in_build = UP.with(|u| u.get());
      let out = pie.new_session().require(&Up(1));
      let total = UP.with(|u| u.get());
      println!("lossy ctx={} first={} out={} up_execs_in_bottom_up={} up_execs_total={}", ctx, first, out, in_build, total);
    }
    println!("#");
  }
}

//! Runs histories (external edits, sessions of top-down requires and bottom-up builds) of DSL task programs on the real
//! `Pie` and prints canonical observations (same format as model_driver `pie`).
use std::io::Write as _;
use std::panic::{catch_unwind, AssertUnwindSafe};
use std::rc::Rc;

use pie::resource::map::GetGlobalMap;
use pie::tracker::event::{Event, EventTracker};
use pie::tracker::CompositeTracker;
use pie::Pie;
use verif_harness::dsl::*;
use verif_harness::*;

type Trk = CompositeTracker<CompositeTracker<Rec, EventTracker>, Rec>;

fn event_tracker_text(et: &EventTracker) -> String {
  // canonical text of the recording tracker's stored events (its 10 recorded kinds), with the stored index
  let mut v = Vec::new();
  for (pos, e) in et.slice().iter().enumerate() {
    let d = |x: &dyn std::fmt::Debug| format!("{:?}", x);
    let s = match e {
      Event::BuildStart => "BS".to_string(),
      Event::BuildEnd => "BE".to_string(),
      Event::RequireStart(x) => format!("RS {} {}@{}", key_num(&x.task), oc_id(&d(&x.checker)), x.index),
      Event::RequireEnd(x) => { let c = d(&x.checker); format!("RE {} {} {} {}@{}", key_num(&x.task), oc_id(&c), stamp_num(&c, &d(&x.stamp)), d(&x.output), x.index) }
      Event::ReadStart(x) => format!("rS {} {}@{}", key_num(&x.resource), rc_id(&d(&x.checker)), x.index),
      Event::ReadEnd(x) => { let c = d(&x.checker); format!("rE {} {} {}@{}", key_num(&x.resource), rc_id(&c), stamp_num(&c, &d(&x.stamp)), x.index) }
      Event::WriteStart(x) => format!("wS {} {}@{}", key_num(&x.resource), rc_id(&d(&x.checker)), x.index),
      Event::WriteEnd(x) => { let c = d(&x.checker); format!("wE {} {} {}@{}", key_num(&x.resource), rc_id(&c), stamp_num(&c, &d(&x.stamp)), x.index) }
      Event::ExecuteStart(x) => format!("XS {}@{}", key_num(&x.task), x.index),
      Event::ExecuteEnd(x) => format!("XE {} {}@{}", key_num(&x.task), d(&x.output), x.index),
    };
    let _ = pos;
    v.push(s);
  }
  v.join(";")
}

/// Runs the given requires on a fresh Pie instance whose resource state is `pre`.
/// one_session: all requires in one session that stops at the first abort; otherwise one session per require.
fn fresh_run(reqs: &[u32], pre: &[(u32, i64)], one_session: bool) -> (Vec<String>, Vec<String>, Vec<(u32, i64)>) {
  let saved = EXECLOG.with(|l| std::mem::take(&mut *l.borrow_mut()));
  let saved_c = CHECKLOG.with(|l| std::mem::take(&mut *l.borrow_mut()));
  let mut pie: Pie<()> = Pie::default();
  for (k, v) in pre { pie.resource_state_mut::<R>().get_global_map_mut().insert(R(*k), *v); }
  let mut ops = Vec::new();
  if one_session {
    let mut session = pie.new_session();
    for t in reqs {
      match catch_unwind(AssertUnwindSafe(|| session.require(&T(*t)))) {
        Ok(o) => ops.push(format!("o q {} -> {}", t, o)),
        Err(e) => { ops.push(format!("o q {} -> abort {}", t, abort_kind(&panic_message(&e)))); break; }
      }
    }
  } else {
    for t in reqs {
      let mut session = pie.new_session();
      match catch_unwind(AssertUnwindSafe(|| session.require(&T(*t)))) {
        Ok(o) => ops.push(format!("o q {} -> {}", t, o)),
        Err(e) => { ops.push(format!("o q {} -> abort {}", t, abort_kind(&panic_message(&e)))); }
      }
    }
  }
  let ex = EXECLOG.with(|l| std::mem::replace(&mut *l.borrow_mut(), saved));
  CHECKLOG.with(|l| *l.borrow_mut() = saved_c);
  let mut m: Vec<(u32, i64)> = pie.resource_state_mut::<R>().get_global_map_mut().iter().map(|(k, v)| (k.0, *v)).collect();
  m.sort();
  (ops, ex, m)
}

#[global_allocator]
static GLOBAL: verif_harness::qalloc::QAlloc = verif_harness::qalloc::QAlloc;

fn main() {
  silence_panics();
  let args: Vec<String> = std::env::args().collect();
  let out = std::io::stdout();
  let mut out = std::io::BufWriter::new(out.lock());
  let no_dump = args.iter().any(|a| a == "--nodump");
  let fresh = args.iter().any(|a| a == "--fresh");
  let noise = args.iter().any(|a| a == "--noise");
  if noise { verif_harness::qalloc::enable_quarantine(); }     // second replay: a different address-reuse pattern of the heap
  for_each_case(&args[1], |idx, toks| {
    writeln!(out, "C {}", idx).unwrap();
    out.flush().unwrap();   // so that a crash (stack overflow, abort) is attributed to the case it happened in
    let mut t = Toks { t: &toks, i: 0 };
    assert_eq!(t.next(), "T");
    let n: usize = t.num();
    TABLE.with(|tb| tb.borrow_mut().clear());
    EXT.with(|m| m.borrow_mut().clear());
    FAILING.with(|f| f.borrow_mut().clear());
    for _ in 0..n {
      let id: u32 = t.num();
      let code = parse_code(&mut t);
      TABLE.with(|tb| tb.borrow_mut().insert(id, Rc::new(code)));
    }
    assert_eq!(t.next(), "H");
    if noise {
      // an earlier, unrelated instance in the same thread: it builds every task of the program top-down (aborts are caught), then
      // changes its own resources and ABANDONS a bottom-up build after scheduling (the build is dropped with a non-empty queue)
      let ids: Vec<u32> = TABLE.with(|tb| { let mut v: Vec<u32> = tb.borrow().keys().copied().collect(); v.sort(); v });
      let mut pie0: Pie<Trk> = Pie::with_tracker(CompositeTracker::new(CompositeTracker::new(Rec::default(), EventTracker::default()), Rec::default()));
      for r in 0..14u32 { pie0.resource_state_mut::<R>().get_global_map_mut().insert(R(r), 1); }
      {
        let mut session = pie0.new_session();
        for id in &ids { let _ = catch_unwind(AssertUnwindSafe(|| { session.require(&T(*id)); })); }
      }
      for r in 0..14u32 { pie0.resource_state_mut::<R>().get_global_map_mut().insert(R(r), 2); }
      let _ = catch_unwind(AssertUnwindSafe(|| {
        let mut session = pie0.new_session();
        let mut bu = session.create_bottom_up_build();
        for r in 0..14u32 { bu.schedule_tasks_affected_by(&R(r)); }
        // dropped here without update_affected_tasks
      }));
      drop(pie0);
      EXECLOG.with(|l| l.borrow_mut().clear());
      CHECKLOG.with(|l| l.borrow_mut().clear());
    }
    let mut pie: Pie<Trk> = Pie::with_tracker(CompositeTracker::new(CompositeTracker::new(Rec::default(), EventTracker::default()), Rec::default()));
    let mut step = 0usize;
    let mut known: std::collections::BTreeSet<u32> = std::collections::BTreeSet::new();
    while t.peek().is_some() {
      match t.next() {
        "E" => { let r: u32 = t.num(); let v: i64 = t.num(); if r >= EXT_BASE { ext_set(r, Some(v)); } else { pie.resource_state_mut::<R>().get_global_map_mut().insert(R(r), v); } }
        "D" => { let r: u32 = t.num(); pie.resource_state_mut::<R>().get_global_map_mut().remove(&R(r)); }
        "F" => {
          let k: usize = t.num();
          FAILING.with(|f| f.borrow_mut().clear());
          for _ in 0..k { let r: u32 = t.num(); FAILING.with(|f| { f.borrow_mut().insert(r); }); }
        }
        tk @ ("S" | "Z") => {
          let cont = tk == "Z";   // Z: keep using the same Session after a caught abort
          let k: usize = t.num();
          #[derive(Debug)]
          enum Sop { Req(u32), Bu(Vec<u32>), Ext(u32, i64) }
          let mut sops = Vec::new();
          for _ in 0..k {
            match t.next() {
              "q" => sops.push(Sop::Req(t.num())),
              "b" => { let m: usize = t.num(); let mut rs = Vec::new(); for _ in 0..m { rs.push(t.num()); } sops.push(Sop::Bu(rs)); }
              "e" => { let r: u32 = t.num(); let v: i64 = t.num(); sops.push(Sop::Ext(r, v)); }   // an external change while the session is alive
              x => panic!("bad sop {}", x),
            }
          }
          writeln!(out, "S {}", step).unwrap();
          let pre: Vec<(u32, i64)> = { let mut m: Vec<(u32, i64)> = pie.resource_state_mut::<R>().get_global_map_mut().iter().map(|(k, v)| (k.0, *v)).collect(); m.sort(); m };
          pie.tracker_mut().0.0.events.clear();
          pie.tracker_mut().1.events.clear();
          EXECLOG.with(|l| l.borrow_mut().clear());
          CHECKLOG.with(|l| l.borrow_mut().clear());
          let mut results: Vec<String> = Vec::new();
          let mut errs: Vec<String> = Vec::new();
          {
            let mut session = pie.new_session();
            for sop in &sops {
              let r = catch_unwind(AssertUnwindSafe(|| {
                match sop {
                  Sop::Req(tk) => { let o = session.require(&T(*tk)); format!("o q {} -> {}", tk, o) }
                  Sop::Bu(rs) => {
                    let mut bu = session.create_bottom_up_build();
                    for r in rs { if *r >= EXT_BASE { bu.schedule_tasks_affected_by(&X(*r)); } else { bu.schedule_tasks_affected_by(&R(*r)); } }
                    bu.update_affected_tasks();
                    "o b -> done".to_string()
                  }
                  Sop::Ext(r, v) => { ext_set(*r, Some(*v)); "o e -> done".to_string() }
                }
              }));
              match r {
                Ok(s) => results.push(s),
                Err(e) => {
                  let k = abort_kind(&panic_message(&e));
                  results.push(match sop { Sop::Req(tk) => format!("o q {} -> abort {}", tk, k), Sop::Bu(_) => format!("o b -> abort {}", k), Sop::Ext(..) => "o e -> abort".to_string() });
                  if !cont { break; }
                }
              }
            }
            for e in session.dependency_check_errors() { errs.push(format!("{}", e)); }
          }
          for r in &results { writeln!(out, "{}", r).unwrap(); }
          writeln!(out, "e {}", errs.join(" ")).unwrap();
          let ev0 = pie.tracker().0.0.events.join(";");
          let ev1 = pie.tracker().1.events.join(";");
          writeln!(out, "v {}", ev0).unwrap();
          if ev0 != ev1 { writeln!(out, "v2 {}", ev1).unwrap(); }
          writeln!(out, "t {}", event_tracker_text(&pie.tracker().0.1)).unwrap();
          writeln!(out, "x {}", EXECLOG.with(|l| l.borrow().join(";"))).unwrap();
          writeln!(out, "k {}", CHECKLOG.with(|l| l.borrow().join(";"))).unwrap();
          if !no_dump {
            for l in canonical_dump(&pie.verif_dump_store()) { writeln!(out, "{}", l).unwrap(); }
          }
          let mut m: Vec<(u32, i64)> = pie.resource_state_mut::<R>().get_global_map_mut().iter().map(|(k, v)| (k.0, *v)).collect();
          m.sort();
          writeln!(out, "m {}", m.iter().map(|(k, v)| format!("{}={}", k, v)).collect::<Vec<_>>().join(" ")).unwrap();
          for e in pie.tracker().0.0.events.iter() { if e.starts_with("RS ") { known.insert(e.split(' ').nth(1).unwrap().parse::<u32>().unwrap()); } }
          if fresh {
            writeln!(out, "pm {}", pre.iter().map(|(k, v)| format!("{}={}", k, v)).collect::<Vec<_>>().join(" ")).unwrap();
            let only_q: Vec<u32> = sops.iter().filter_map(|s| if let Sop::Req(t) = s { Some(*t) } else { None }).collect();
            if only_q.len() == sops.len() {
              // from-scratch reference: a fresh instance on the pre-session resource state, same requires
              let (ops, ex, fm) = fresh_run(&only_q, &pre, true);
              for o in ops { writeln!(out, "f{}", o).unwrap(); }
              writeln!(out, "fx {}", ex.join(";")).unwrap();
              writeln!(out, "fm {}", fm.iter().map(|(k, v)| format!("{}={}", k, v)).collect::<Vec<_>>().join(" ")).unwrap();
            }
            if results.iter().any(|r| r.contains("abort")) {
              // C20 reference: a from-scratch build of all known tasks in the pre-session state, in two orders
              let mut ks: Vec<u32> = known.iter().cloned().collect();
              ks.sort();
              let (ops, _, _) = fresh_run(&ks, &pre, false);
              writeln!(out, "fk asc {}", ops.iter().map(|o| o.replace(' ', "_")).collect::<Vec<_>>().join(" ")).unwrap();
              ks.reverse();
              let (ops, _, _) = fresh_run(&ks, &pre, false);
              writeln!(out, "fk desc {}", ops.iter().map(|o| o.replace(' ', "_")).collect::<Vec<_>>().join(" ")).unwrap();
            }
          }
        }
        x => panic!("bad step {}", x),
      }
      step += 1;
    }
  });
}

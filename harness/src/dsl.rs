//! The task DSL shared with the Gallina model (coq/theories/Model/Dsl.v): tasks `T(n)` whose bodies are `Code` trees
//! held in a thread-local table, an in-memory map resource `R(n)`, five resource checkers, three output checkers,
//! a full-fidelity recording tracker, and the canonicaliser of the store dump.
use std::cell::RefCell;
use std::collections::hash_map::Entry;
use std::collections::{HashMap, HashSet};
use std::convert::Infallible;
use std::error::Error;
use std::fmt::{Debug, Display, Formatter};
use std::rc::Rc;

use pie::resource::map::{MapEqualsChecker, MapKey, MapWriter};
use pie::task::{AlwaysConsistent, EqualsChecker};
use pie::tracker::Tracker;
use pie::trait_object::{KeyObj, ValueObj};
use pie::{Context, OutputChecker, Resource, ResourceChecker, ResourceState, Task};

pub const MODULUS: i64 = 1000003;
pub fn mix(acc: i64, v: i64) -> i64 { (acc * 31 + v + 7).rem_euclid(MODULUS) }
pub fn err_val(e: i64) -> i64 { 900000 + e }

#[derive(Clone, Debug)]
pub enum Expr { Const(i64), Acc, AccPlus(i64) }
#[derive(Clone, Debug)]
pub enum Cond { AccEq(i64), AccMod(i64, i64), LastEq(i64) }
#[derive(Clone, Debug)]
pub enum Code {
  Done,
  Ret(Expr),
  Panic,
  Read(u32, u32, Box<Code>),
  Req(u32, u32, Box<Code>),
  Write(u32, u32, Expr, Box<Code>),
  WrittenTo(u32, u32, Expr, Box<Code>),
  Remove(u32, u32, Box<Code>),
  If(Cond, Box<Code>, Box<Code>),
}

pub struct Toks<'a> { pub t: &'a [String], pub i: usize }
impl<'a> Toks<'a> {
  pub fn next(&mut self) -> &'a str { let s = &self.t[self.i]; self.i += 1; s.as_str() }
  pub fn peek(&self) -> Option<&'a str> { self.t.get(self.i).map(|s| s.as_str()) }
  pub fn num<T: std::str::FromStr>(&mut self) -> T where T::Err: Debug { self.next().parse::<T>().unwrap() }
}

pub fn parse_expr(t: &mut Toks) -> Expr {
  match t.next() { "k" => Expr::Const(t.num()), "a" => Expr::Acc, "p" => Expr::AccPlus(t.num()), x => panic!("bad expr {}", x) }
}
pub fn parse_cond(t: &mut Toks) -> Cond {
  match t.next() {
    "e" => Cond::AccEq(t.num()),
    "m" => { let m = t.num(); let k = t.num(); Cond::AccMod(m, k) }
    "l" => Cond::LastEq(t.num()),
    x => panic!("bad cond {}", x)
  }
}
pub fn parse_code(t: &mut Toks) -> Code {
  match t.next() {
    "D" => Code::Done,
    "T" => Code::Ret(parse_expr(t)),
    "P" => Code::Panic,
    "R" => { let r = t.num(); let c = t.num(); Code::Read(r, c, Box::new(parse_code(t))) }
    "Q" => { let q = t.num(); let c = t.num(); Code::Req(q, c, Box::new(parse_code(t))) }
    "W" => { let r = t.num(); let c = t.num(); let e = parse_expr(t); Code::Write(r, c, e, Box::new(parse_code(t))) }
    "N" => { let r = t.num(); let c = t.num(); let e = parse_expr(t); Code::WrittenTo(r, c, e, Box::new(parse_code(t))) }
    "X" => { let r = t.num(); let c = t.num(); Code::Remove(r, c, Box::new(parse_code(t))) }
    "I" => { let b = parse_cond(t); let th = parse_code(t); let el = parse_code(t); Code::If(b, Box::new(th), Box::new(el)) }
    x => panic!("bad code token {}", x)
  }
}

thread_local! {
  pub static TABLE: RefCell<HashMap<u32, Rc<Code>>> = RefCell::new(HashMap::new());
  pub static FAILING: RefCell<HashSet<u32>> = RefCell::new(HashSet::new());
  pub static EXECLOG: RefCell<Vec<String>> = RefCell::new(Vec::new());
  pub static CHECKLOG: RefCell<Vec<String>> = RefCell::new(Vec::new());
}

// ---------------------------------------------------------------- resource and checkers

#[derive(Clone, PartialEq, Eq, Hash, Debug)]
pub struct R(pub u32);
impl MapKey for R { type Value = i64; }

#[derive(Clone, Copy, PartialEq, Eq, Hash, Debug)]
pub struct FailErr(pub i64);
impl Display for FailErr { fn fmt(&self, f: &mut Formatter<'_>) -> std::fmt::Result { write!(f, "{}", self.0) } }
impl Error for FailErr {}

// An EXTERNAL resource: its content lives outside the Pie instance (like a file on disk), so it can change while a Session is
// alive.  Resource ids >= EXT_BASE use it (read-only from tasks, exact checker); ids below use the in-memory map resource.
pub const EXT_BASE: u32 = 50;
thread_local! { pub static EXT: RefCell<HashMap<u32, i64>> = RefCell::new(HashMap::new()); }
pub fn ext_get(r: u32) -> Option<i64> { EXT.with(|m| m.borrow().get(&r).copied()) }
pub fn ext_set(r: u32, v: Option<i64>) { EXT.with(|m| { match v { Some(z) => { m.borrow_mut().insert(r, z); } None => { m.borrow_mut().remove(&r); } } }) }
#[derive(Clone, PartialEq, Eq, Hash)]
pub struct X(pub u32);
impl Debug for X { fn fmt(&self, f: &mut Formatter<'_>) -> std::fmt::Result { write!(f, "R({})", self.0) } }
pub struct XW(pub u32);
impl Resource for X {
  type Reader<'rs> = Option<i64>;
  type Writer<'r> = XW;
  type Error = Infallible;
  fn read<'rs, RS: ResourceState<Self>>(&self, _state: &'rs mut RS) -> Result<Option<i64>, Infallible> { Ok(ext_get(self.0)) }
  fn write<'r, RS: ResourceState<Self>>(&'r self, _state: &'r mut RS) -> Result<XW, Infallible> { Ok(XW(self.0)) }
}
#[derive(Default, Copy, Clone, PartialEq, Eq, Hash, Debug)]
pub struct XExact;
impl ResourceChecker<X> for XExact {
  type Stamp = i64;
  type Error = Infallible;
  fn stamp<RS: ResourceState<X>>(&self, key: &X, _state: &mut RS) -> Result<i64, Infallible> { Ok(stamp_exact(ext_get(key.0))) }
  fn stamp_reader(&self, _key: &X, value: &mut Option<i64>) -> Result<i64, Infallible> { Ok(stamp_exact(*value)) }
  fn stamp_writer(&self, key: &X, _writer: XW) -> Result<i64, Infallible> { Ok(stamp_exact(ext_get(key.0))) }
  fn check<RS: ResourceState<X>>(&self, key: &X, _state: &mut RS, stamp: &i64) -> Result<Option<impl Debug>, Infallible> {
    let now = stamp_exact(ext_get(key.0));
    Ok(if now != *stamp { Some(now) } else { None })
  }
  fn wrap_error(&self, error: Infallible) -> Infallible { error }
}

pub fn stamp_exact(v: Option<i64>) -> i64 { match v { None => 0, Some(z) => z + 1 } }
pub fn stamp_parity(v: Option<i64>) -> i64 { match v { None => 0, Some(z) => 1 + z.rem_euclid(2) } }
pub fn stamp_exists(v: Option<i64>) -> i64 { match v { None => 0, Some(_) => 1 } }

fn oplog(s: String) { EXECLOG.with(|l| l.borrow_mut().push(s)); }
fn clog(s: String) { CHECKLOG.with(|l| l.borrow_mut().push(s)); }

macro_rules! coarse_checker {
  ($name:ident, $stampfn:ident, $tag:expr) => {
    #[derive(Default, Copy, Clone, PartialEq, Eq, Hash, Debug)]
    pub struct $name;
    impl ResourceChecker<R> for $name {
      type Stamp = i64;
      type Error = Infallible;
      fn stamp<RS: ResourceState<R>>(&self, key: &R, state: &mut RS) -> Result<i64, Infallible> {
        let v = key.read(state)?.copied();
        clog(format!("{} stamp R{} {:?}", $tag, key.0, v));
        Ok($stampfn(v))
      }
      fn stamp_reader(&self, key: &R, value: &mut Option<&i64>) -> Result<i64, Infallible> {
        clog(format!("{} stamp_reader R{} {:?}", $tag, key.0, value.copied()));
        Ok($stampfn(value.copied()))
      }
      fn stamp_writer(&self, key: &R, writer: MapWriter<'_, R>) -> Result<i64, Infallible> {
        clog(format!("{} stamp_writer R{} {:?}", $tag, key.0, writer.get().copied()));
        Ok($stampfn(writer.get().copied()))
      }
      fn check<RS: ResourceState<R>>(&self, key: &R, state: &mut RS, stamp: &i64) -> Result<Option<impl Debug>, Infallible> {
        let v = key.read(state)?.copied();
        clog(format!("{} check R{} {:?} {}", $tag, key.0, v, stamp));
        let now = $stampfn(v);
        Ok(if now != *stamp { Some(now) } else { None })
      }
      fn wrap_error(&self, error: Infallible) -> Infallible { error }
    }
  };
}
coarse_checker!(RParity, stamp_parity, "c1");
coarse_checker!(RExists, stamp_exists, "c2");

#[derive(Default, Copy, Clone, PartialEq, Eq, Hash, Debug)]
pub struct RAlways;
impl ResourceChecker<R> for RAlways {
  type Stamp = ();
  type Error = Infallible;
  fn stamp<RS: ResourceState<R>>(&self, key: &R, _state: &mut RS) -> Result<(), Infallible> { clog(format!("c3 stamp R{}", key.0)); Ok(()) }
  fn stamp_reader(&self, key: &R, _value: &mut Option<&i64>) -> Result<(), Infallible> { clog(format!("c3 stamp_reader R{}", key.0)); Ok(()) }
  fn stamp_writer(&self, key: &R, _writer: MapWriter<'_, R>) -> Result<(), Infallible> { clog(format!("c3 stamp_writer R{}", key.0)); Ok(()) }
  fn check<RS: ResourceState<R>>(&self, key: &R, _state: &mut RS, _stamp: &()) -> Result<Option<impl Debug>, Infallible> {
    clog(format!("c3 check R{}", key.0));
    Ok(None::<()>)
  }
  fn wrap_error(&self, error: Infallible) -> Infallible { error }
}

/// Exact checker whose `check` fails with code 100+r while r is in the FAILING set (validation-time errors, C18).
#[derive(Default, Copy, Clone, PartialEq, Eq, Hash, Debug)]
pub struct RFailing;
/// Exact checker whose stamping fails with code 100+r while r is in the FAILING set.
#[derive(Default, Copy, Clone, PartialEq, Eq, Hash, Debug)]
pub struct RFailStamp;
fn failing(r: u32) -> bool { FAILING.with(|f| f.borrow().contains(&r)) }
macro_rules! failing_checker {
  ($name:ident, $tag:expr, $stamp_fails:expr, $check_fails:expr) => {
    impl ResourceChecker<R> for $name {
      type Stamp = i64;
      type Error = FailErr;
      fn stamp<RS: ResourceState<R>>(&self, key: &R, state: &mut RS) -> Result<i64, FailErr> {
        if $stamp_fails && failing(key.0) { return Err(FailErr(100 + key.0 as i64)); }
        let v = key.read(state).unwrap().copied();
        clog(format!("{} stamp R{} {:?}", $tag, key.0, v));
        Ok(stamp_exact(v))
      }
      fn stamp_reader(&self, key: &R, value: &mut Option<&i64>) -> Result<i64, FailErr> {
        if $stamp_fails && failing(key.0) { return Err(FailErr(100 + key.0 as i64)); }
        clog(format!("{} stamp_reader R{} {:?}", $tag, key.0, value.copied()));
        Ok(stamp_exact(value.copied()))
      }
      fn stamp_writer(&self, key: &R, writer: MapWriter<'_, R>) -> Result<i64, FailErr> {
        if $stamp_fails && failing(key.0) { return Err(FailErr(100 + key.0 as i64)); }
        clog(format!("{} stamp_writer R{} {:?}", $tag, key.0, writer.get().copied()));
        Ok(stamp_exact(writer.get().copied()))
      }
      fn check<RS: ResourceState<R>>(&self, key: &R, state: &mut RS, stamp: &i64) -> Result<Option<impl Debug>, FailErr> {
        if $check_fails && failing(key.0) { return Err(FailErr(100 + key.0 as i64)); }
        let v = key.read(state).unwrap().copied();
        clog(format!("{} check R{} {:?} {}", $tag, key.0, v, stamp));
        let now = stamp_exact(v);
        Ok(if now != *stamp { Some(now) } else { None })
      }
      fn wrap_error(&self, error: Infallible) -> FailErr { match error {} }
    }
  };
}
failing_checker!(RFailing, "c4", false, true);
failing_checker!(RFailStamp, "c5", true, false);

#[derive(Default, Copy, Clone, PartialEq, Eq, Hash, Debug)]
pub struct OutParity;
impl OutputChecker<i64> for OutParity {
  type Stamp = i64;
  fn stamp(&self, output: &i64) -> i64 { output.rem_euclid(2) }
  fn check(&self, output: &i64, stamp: &i64) -> Option<impl Debug> {
    let now = output.rem_euclid(2);
    if now != *stamp { Some(now) } else { None }
  }
}

/// A tolerance checker (not an equivalence relation): the stamp is the output itself; consistent while the output stays within
/// 400 of it (mod 1000).  A verdict depends on exactly WHICH stamp is stored.
#[derive(Copy, Clone, PartialEq, Eq, Hash, Debug)]
pub struct OutNear(pub i64);      // the tolerance is a PARAMETER: two checkers of this one type can differ
impl OutputChecker<i64> for OutNear {
  type Stamp = i64;
  fn stamp(&self, output: &i64) -> i64 { *output }
  fn check(&self, output: &i64, stamp: &i64) -> Option<impl Debug> {
    let d = (output.rem_euclid(1000) - stamp.rem_euclid(1000)).abs();
    if d > self.0 { Some(d) } else { None }
  }
}

// ---------------------------------------------------------------- the task

#[derive(Clone, PartialEq, Eq, Hash, Debug)]
pub struct T(pub u32);

impl Task for T {
  type Output = i64;
  fn execute<C: Context>(&self, ctx: &mut C) -> i64 {
    let code = TABLE.with(|t| t.borrow().get(&self.0).cloned());
    EXECLOG.with(|l| l.borrow_mut().push(format!("XS {}", self.0)));
    let out = match code {
      Some(code) => run(&code, ctx, 0, 0),
      None => 0,
    };
    EXECLOG.with(|l| l.borrow_mut().push(format!("XE {} {}", self.0, out)));
    out
  }
}

fn eval_expr(e: &Expr, acc: i64) -> i64 {
  match e { Expr::Const(z) => *z, Expr::Acc => acc, Expr::AccPlus(z) => (acc + z).rem_euclid(MODULUS) }
}
fn eval_cond(b: &Cond, acc: i64, last: i64) -> bool {
  match b { Cond::AccEq(z) => acc == *z, Cond::AccMod(m, k) => acc.rem_euclid(*m) == *k, Cond::LastEq(z) => last == *z }
}

fn do_read<C: Context>(ctx: &mut C, r: u32, c: u32) -> Result<i64, i64> {
  if r >= EXT_BASE { return Ok(stamp_exact(ctx.read(&X(r), XExact).unwrap())); }
  let res = R(r);
  match c {
    0 => Ok(stamp_exact(ctx.read(&res, MapEqualsChecker).unwrap().copied())),
    1 => Ok(stamp_parity(ctx.read(&res, RParity).unwrap().copied())),
    2 => Ok(stamp_exists(ctx.read(&res, RExists).unwrap().copied())),
    3 => { let _ = ctx.read(&res, RAlways).unwrap(); Ok(0) }
    4 => match ctx.read(&res, RFailing) { Ok(v) => Ok(stamp_exact(v.copied())), Err(e) => Err(e.0) },
    _ => match ctx.read(&res, RFailStamp) { Ok(v) => Ok(stamp_exact(v.copied())), Err(e) => Err(e.0) },
  }
}

fn do_write<C: Context>(ctx: &mut C, r: u32, c: u32, v: Option<i64>) -> Result<(), i64> {
  let res = R(r);
  fn wf(v: Option<i64>) -> impl FnOnce(&mut MapWriter<'_, R>) -> Result<(), Infallible> {
    move |w: &mut MapWriter<'_, R>| {
      match v {
        Some(z) => { w.insert(z); }
        None => { if let Entry::Occupied(o) = w.entry() { o.remove(); } }
      }
      Ok(())
    }
  }
  match c {
    0 => { ctx.write(&res, MapEqualsChecker, wf(v)).unwrap(); Ok(()) }
    1 => { ctx.write(&res, RParity, wf(v)).unwrap(); Ok(()) }
    2 => { ctx.write(&res, RExists, wf(v)).unwrap(); Ok(()) }
    3 => { ctx.write(&res, RAlways, wf(v)).unwrap(); Ok(()) }
    4 => ctx.write(&res, RFailing, wf(v)).map_err(|e| e.0),
    _ => ctx.write(&res, RFailStamp, wf(v)).map_err(|e| e.0),
  }
}

fn do_written_to<C: Context>(ctx: &mut C, r: u32, c: u32, v: i64) -> Result<(), i64> {
  let res = R(r);
  {
    let mut w = ctx.create_writer(&res).unwrap();
    w.insert(v);
  }
  match c {
    0 => { ctx.written_to(&res, MapEqualsChecker).unwrap(); Ok(()) }
    1 => { ctx.written_to(&res, RParity).unwrap(); Ok(()) }
    2 => { ctx.written_to(&res, RExists).unwrap(); Ok(()) }
    3 => { ctx.written_to(&res, RAlways).unwrap(); Ok(()) }
    4 => ctx.written_to(&res, RFailing).map_err(|e| e.0),
    _ => ctx.written_to(&res, RFailStamp).map_err(|e| e.0),
  }
}

fn do_req<C: Context>(ctx: &mut C, t: u32, c: u32) -> i64 {
  match c {
    // the task key handed to `require` lives on the heap and is freed right after the call (as a caller that builds its keys
    // dynamically would do), so that consecutive requires reuse addresses or not depending on the state of the allocator
    0 => { let k = Box::new(T(t)); ctx.require(&*k, EqualsChecker) }
    1 => { let k = Box::new(T(t)); ctx.require(&*k, OutParity).rem_euclid(2) }
    3 => { let k = Box::new(T(t)); ctx.require(&*k, OutNear(400)) }
    4 => { let k = Box::new(T(t)); ctx.require(&*k, OutNear(100)) }
    _ => { let k = Box::new(T(t)); ctx.require(&*k, AlwaysConsistent); 0 }
  }
}

pub fn run<C: Context>(code: &Code, ctx: &mut C, acc: i64, last: i64) -> i64 {
  match code {
    Code::Done => acc,
    Code::Ret(e) => eval_expr(e, acc),
    Code::Panic => panic!("task panic"),
    Code::Read(r, c, k) => match do_read(ctx, *r, *c) {
      Ok(v) => { oplog(format!("op R R{} {}", r, c)); run(k, ctx, mix(acc, v), v) }
      Err(e) => run(k, ctx, mix(acc, err_val(e)), err_val(e)),
    },
    Code::Req(t, c, k) => { let v = do_req(ctx, *t, *c); oplog(format!("op Q T{} {}", t, c)); run(k, ctx, mix(acc, v), v) }
    Code::Write(r, c, e, k) => match { oplog(format!("try W R{}", r)); do_write(ctx, *r, *c, Some(eval_expr(e, acc))) } {
      Ok(()) => { oplog(format!("op W R{} {}", r, c)); run(k, ctx, acc, last) }
      Err(e) => run(k, ctx, mix(acc, err_val(e)), err_val(e)),
    },
    Code::WrittenTo(r, c, e, k) => match { oplog(format!("try N R{}", r)); do_written_to(ctx, *r, *c, eval_expr(e, acc)) } {
      Ok(()) => { oplog(format!("op W R{} {}", r, c)); run(k, ctx, acc, last) }
      Err(e) => run(k, ctx, mix(acc, err_val(e)), err_val(e)),
    },
    Code::Remove(r, c, k) => match { oplog(format!("try W R{}", r)); do_write(ctx, *r, *c, None) } {
      Ok(()) => { oplog(format!("op W R{} {}", r, c)); run(k, ctx, acc, last) }
      Err(e) => run(k, ctx, mix(acc, err_val(e)), err_val(e)),
    },
    Code::If(b, th, el) => if eval_cond(b, acc, last) { run(th, ctx, acc, last) } else { run(el, ctx, acc, last) },
  }
}

// ---------------------------------------------------------------- canonical text of Debug renderings

/// "T(3)" -> "T3", "R(2)" -> "R2"
pub fn key_text(k: &dyn Debug) -> String {
  let s = format!("{:?}", k);
  s.replace('(', "").replace(')', "")
}
pub fn key_num(k: &dyn Debug) -> String {
  let s = key_text(k);
  s[1..].to_string()
}
pub fn rc_id(c: &str) -> &'static str {
  match c { "MapEqualsChecker" | "XExact" => "0", "RParity" => "1", "RExists" => "2", "RAlways" => "3", "RFailing" => "4", "RFailStamp" => "5", _ => "?" }
}
pub fn oc_id(c: &str) -> &'static str {
  match c { "EqualsChecker" => "0", "OutParity" => "1", "AlwaysConsistent" => "2", "OutNear(400)" => "3", "OutNear(100)" => "4", _ => "?" }
}
/// stamp Debug text -> the model's Z encoding
pub fn stamp_num(checker: &str, stamp: &str) -> String {
  match checker {
    "MapEqualsChecker" => { // Option<i64>
      if stamp == "None" { "0".into() } else { let v: i64 = stamp[5..stamp.len() - 1].parse().unwrap(); (v + 1).to_string() }
    }
    "RAlways" | "AlwaysConsistent" => "0".into(),
    _ => stamp.to_string(),
  }
}

// ---------------------------------------------------------------- recording tracker (all 23 methods)

#[derive(Default, Clone, Debug)]
pub struct Rec { pub events: Vec<String> }

fn d(x: &dyn Debug) -> String { format!("{:?}", x) }

impl Tracker for Rec {
  fn build_start(&mut self) { self.events.push("BS".into()); }
  fn build_end(&mut self) { self.events.push("BE".into()); }
  fn require_start(&mut self, task: &dyn KeyObj, checker: &dyn ValueObj) {
    self.events.push(format!("RS {} {}", key_num(&task), oc_id(&d(&checker))));
  }
  fn require_end(&mut self, task: &dyn KeyObj, checker: &dyn ValueObj, stamp: &dyn ValueObj, output: &dyn ValueObj) {
    let c = d(&checker);
    self.events.push(format!("RE {} {} {} {}", key_num(&task), oc_id(&c), stamp_num(&c, &d(&stamp)), d(&output)));
  }
  fn read_start(&mut self, resource: &dyn KeyObj, checker: &dyn ValueObj) {
    self.events.push(format!("rS {} {}", key_num(&resource), rc_id(&d(&checker))));
  }
  fn read_end(&mut self, resource: &dyn KeyObj, checker: &dyn ValueObj, stamp: &dyn ValueObj) {
    let c = d(&checker);
    self.events.push(format!("rE {} {} {}", key_num(&resource), rc_id(&c), stamp_num(&c, &d(&stamp))));
  }
  fn write_start(&mut self, resource: &dyn KeyObj, checker: &dyn ValueObj) {
    self.events.push(format!("wS {} {}", key_num(&resource), rc_id(&d(&checker))));
  }
  fn write_end(&mut self, resource: &dyn KeyObj, checker: &dyn ValueObj, stamp: &dyn ValueObj) {
    let c = d(&checker);
    self.events.push(format!("wE {} {} {}", key_num(&resource), rc_id(&c), stamp_num(&c, &d(&stamp))));
  }
  fn check_task_start(&mut self, task: &dyn KeyObj, checker: &dyn ValueObj, stamp: &dyn ValueObj) {
    let c = d(&checker);
    self.events.push(format!("CTS {} {} {}", key_num(&task), oc_id(&c), stamp_num(&c, &d(&stamp))));
  }
  fn check_task_end(&mut self, task: &dyn KeyObj, checker: &dyn ValueObj, stamp: &dyn ValueObj, inconsistency: Option<&dyn Debug>) {
    let c = d(&checker);
    self.events.push(format!("CTE {} {} {} {}", key_num(&task), oc_id(&c), stamp_num(&c, &d(&stamp)), if inconsistency.is_some() { 1 } else { 0 }));
  }
  fn check_resource_start(&mut self, resource: &dyn KeyObj, checker: &dyn ValueObj, stamp: &dyn ValueObj) {
    let c = d(&checker);
    self.events.push(format!("CRS {} {} {}", key_num(&resource), rc_id(&c), stamp_num(&c, &d(&stamp))));
  }
  fn check_resource_end(&mut self, resource: &dyn KeyObj, checker: &dyn ValueObj, stamp: &dyn ValueObj, inconsistency: Result<Option<&dyn Debug>, &dyn Error>) {
    let c = d(&checker);
    self.events.push(format!("CRE {} {} {} {}", key_num(&resource), rc_id(&c), stamp_num(&c, &d(&stamp)), cres(inconsistency)));
  }
  fn execute_start(&mut self, task: &dyn KeyObj) { self.events.push(format!("XS {}", key_num(&task))); }
  fn execute_end(&mut self, task: &dyn KeyObj, output: &dyn ValueObj) { self.events.push(format!("XE {} {}", key_num(&task), d(&output))); }
  fn schedule_affected_by_task_start(&mut self, task: &dyn KeyObj) { self.events.push(format!("SBTS {}", key_num(&task))); }
  fn check_task_require_task_start(&mut self, requiring_task: &dyn KeyObj, checker: &dyn ValueObj, stamp: &dyn ValueObj) {
    let c = d(&checker);
    self.events.push(format!("CQS {} {} {}", key_num(&requiring_task), oc_id(&c), stamp_num(&c, &d(&stamp))));
  }
  fn check_task_require_task_end(&mut self, requiring_task: &dyn KeyObj, checker: &dyn ValueObj, stamp: &dyn ValueObj, inconsistency: Option<&dyn Debug>) {
    let c = d(&checker);
    self.events.push(format!("CQE {} {} {} {}", key_num(&requiring_task), oc_id(&c), stamp_num(&c, &d(&stamp)), if inconsistency.is_some() { 1 } else { 0 }));
  }
  fn schedule_affected_by_task_end(&mut self, task: &dyn KeyObj) { self.events.push(format!("SBTE {}", key_num(&task))); }
  fn schedule_affected_by_resource_start(&mut self, resource: &dyn KeyObj) { self.events.push(format!("SBRS {}", key_num(&resource))); }
  fn check_task_read_resource_start(&mut self, reading_task: &dyn KeyObj, checker: &dyn ValueObj, stamp: &dyn ValueObj) {
    let c = d(&checker);
    self.events.push(format!("CDS {} {} {}", key_num(&reading_task), rc_id(&c), stamp_num(&c, &d(&stamp))));
  }
  fn check_task_read_resource_end(&mut self, reading_task: &dyn KeyObj, checker: &dyn ValueObj, stamp: &dyn ValueObj, inconsistency: Result<Option<&dyn Debug>, &dyn Error>) {
    let c = d(&checker);
    self.events.push(format!("CDE {} {} {} {}", key_num(&reading_task), rc_id(&c), stamp_num(&c, &d(&stamp)), cres(inconsistency)));
  }
  fn schedule_affected_by_resource_end(&mut self, resource: &dyn KeyObj) { self.events.push(format!("SBRE {}", key_num(&resource))); }
  fn schedule_task(&mut self, task: &dyn KeyObj) { self.events.push(format!("ST {}", key_num(&task))); }
}

fn cres(r: Result<Option<&dyn Debug>, &dyn Error>) -> String {
  match r { Ok(None) => "ok".into(), Ok(Some(_)) => "inc".into(), Err(e) => format!("err{}", e) }
}

// ---------------------------------------------------------------- store dump canonicaliser

/// Turns the hook's tab separated Debug lines into the model's dump lines.
pub fn canonical_dump(lines: &[String]) -> Vec<String> {
  let mut out = Vec::new();
  let mut cur: Option<String> = None;
  let mut outs: Vec<String> = Vec::new();
  let mut ins: Vec<String> = Vec::new();
  let mut maps_ok = true;
  fn flush(cur: &mut Option<String>, outs: &mut Vec<String>, ins: &mut Vec<String>, out: &mut Vec<String>) {
    if let Some(h) = cur.take() {
      out.push(format!("d {} O:{} I:{}", h, outs.join(","), ins.join(",")));
      outs.clear(); ins.clear();
    }
  }
  for l in lines {
    let f: Vec<&str> = l.split('\t').collect();
    match f[0] {
      "maps" => {
        let (nt, nr, nn): (usize, usize, usize) = (f[1].parse().unwrap(), f[2].parse().unwrap(), f[3].parse().unwrap());
        if nt + nr != nn { maps_ok = false; }
      }
      "T" => {
        flush(&mut cur, &mut outs, &mut ins, &mut out);
        let o = if f[3] == "None" { "-".to_string() } else { f[3][5..f[3].len() - 1].to_string() };
        if f[4] != "true" { maps_ok = false; }
        cur = Some(format!("{} {} {}", key_text(&DebugStr(f[2])), f[1], o));
      }
      "R" => {
        flush(&mut cur, &mut outs, &mut ins, &mut out);
        if f[3] != "true" { maps_ok = false; }
        cur = Some(format!("{} {} -", key_text(&DebugStr(f[2])), f[1]));
      }
      "O" => {
        let target = key_text(&DebugStr(f[2]));
        let (k, c, st) = match f[3] {
          "Reserved" => ("V", "-".to_string(), "-".to_string()),
          "Require" => ("Q", oc_id(f[4]).to_string(), stamp_num(f[4], f[5])),
          "Read" => ("R", rc_id(f[4]).to_string(), stamp_num(f[4], f[5])),
          "Write" => ("W", rc_id(f[4]).to_string(), stamp_num(f[4], f[5])),
          _ => ("?", "?".into(), "?".into()),
        };
        outs.push(format!("{}{}/{}/{}", k, target, c, st));
      }
      "I" => {
        let src = key_text(&DebugStr(f[2]));
        let k = match f[3] { "Reserved" => "V", "Require" => "Q", "Read" => "R", "Write" => "W", _ => "?" };
        ins.push(format!("{}{}", k, src));
      }
      _ => { maps_ok = false; }
    }
  }
  flush(&mut cur, &mut outs, &mut ins, &mut out);
  if !maps_ok { out.push("d !MAPS".into()); }
  out
}

struct DebugStr<'a>(&'a str);
impl Debug for DebugStr<'_> { fn fmt(&self, f: &mut Formatter<'_>) -> std::fmt::Result { write!(f, "{}", self.0) } }

pub fn abort_kind(msg: &str) -> String {
  if msg.starts_with("Cyclic task dependency") { "cycle".into() }
  else if msg.starts_with("Hidden dependency") { "hidden".into() }
  else if msg.starts_with("Overlapping write") { "overlap".into() }
  else if msg.starts_with("task panic") { "panic".into() }
  else if msg.starts_with("BUG: attempt to consistency check reserved") { "bug1".into() }
  else if msg.starts_with("BUG: no task output for already consistent task") { "bug2".into() }
  else if msg.starts_with("BUG: no task dependency was found") { "bug3".into() }
  else if msg.starts_with("BUG: source") { "bug4".into() }
  else if msg.starts_with("BUG: no task output for unaffected task") { "bug6".into() }
  else if msg.starts_with("BUG") { format!("bug:{}", msg.chars().take(60).collect::<String>().replace(' ', "_")) }
  else { format!("other:{}", msg.chars().take(60).collect::<String>().replace(' ', "_")) }
}

//! Shared helpers for the verification harness binaries.
use std::io::{BufRead, BufReader};

pub fn for_each_case(path: &str, mut f: impl FnMut(usize, Vec<String>)) {
  let file = std::fs::File::open(path).expect("cannot open case file");
  let mut idx = 0usize;
  for line in BufReader::new(file).lines() {
    let line = line.unwrap();
    let toks: Vec<String> = line.split_whitespace().map(|s| s.to_string()).collect();
    if toks.is_empty() { continue; }
    f(idx, toks);
    idx += 1;
  }
}

pub fn silence_panics() {
  std::panic::set_hook(Box::new(|_| {}));
}

pub fn panic_message(e: &Box<dyn std::any::Any + Send>) -> String {
  if let Some(s) = e.downcast_ref::<&'static str>() { s.to_string() }
  else if let Some(s) = e.downcast_ref::<String>() { s.clone() }
  else { "<non-string panic>".to_string() }
}

pub mod dsl;

//! Shared helpers for the verification harness binaries.
use std::io::{BufRead, BufReader};

pub fn for_each_case(path: &str, mut f: impl FnMut(usize, Vec<String>)) {
  let file = std::fs::File::open(path).expect("cannot open case file");
  let mut idx = 0usize;
  for line in BufReader::new(file).lines() {
    let line = line.unwrap();
    let toks: Vec<String> = line.split_whitespace().map(|s| s.to_string()).collect();
    if toks.is_empty() { continue; }
    f(idx, toks);
    idx += 1;
  }
}

pub fn silence_panics() {
  std::panic::set_hook(Box::new(|_| {}));
}

pub fn panic_message(e: &Box<dyn std::any::Any + Send>) -> String {
  if let Some(s) = e.downcast_ref::<&'static str>() { s.to_string() }
  else if let Some(s) = e.downcast_ref::<String>() { s.clone() }
  else { "<non-string panic>".to_string() }
}

pub mod dsl;

/// Global allocator of the harness binaries.  Normally it is the system allocator.  With the quarantine switched on (second
/// replay of the C16 two-process comparison) freed blocks are parked in a ring of `QN` entries before they really go back to
/// the system allocator, so that the address-reuse pattern of the heap differs from the first replay: behaviour that depends
/// on allocation addresses (e.g. anything keyed by a pointer that can dangle) then shows as a difference between the replays.
pub mod qalloc {
  use std::alloc::{GlobalAlloc, Layout, System};
  use std::cell::UnsafeCell;
  use std::sync::atomic::{AtomicBool, AtomicUsize, Ordering};

  const QN: usize = 8192;
  pub struct QAlloc;
  struct Ring(UnsafeCell<[(usize, usize, usize); QN]>);
  unsafe impl Sync for Ring {}
  static RING: Ring = Ring(UnsafeCell::new([(0, 0, 0); QN]));
  static POS: AtomicUsize = AtomicUsize::new(0);
  static ON: AtomicBool = AtomicBool::new(false);
  static LOCK: AtomicBool = AtomicBool::new(false);

  pub fn enable_quarantine() { ON.store(true, Ordering::SeqCst); }

  unsafe impl GlobalAlloc for QAlloc {
    unsafe fn alloc(&self, l: Layout) -> *mut u8 { System.alloc(l) }
    unsafe fn realloc(&self, p: *mut u8, l: Layout, n: usize) -> *mut u8 { System.realloc(p, l, n) }
    unsafe fn dealloc(&self, p: *mut u8, l: Layout) {
      if !ON.load(Ordering::Relaxed) || l.size() > 4096 { System.dealloc(p, l); return; }
      while LOCK.compare_exchange_weak(false, true, Ordering::Acquire, Ordering::Relaxed).is_err() { std::hint::spin_loop(); }
      let i = POS.load(Ordering::Relaxed);
      let ring = &mut *RING.0.get();
      let old = ring[i];
      ring[i] = (p as usize, l.size(), l.align());
      POS.store((i + 1) % QN, Ordering::Relaxed);
      LOCK.store(false, Ordering::Release);
      if old.0 != 0 { System.dealloc(old.0 as *mut u8, Layout::from_size_align_unchecked(old.1, old.2)); }
    }
  }
}

(* Model driver: runs the extracted Gallina model on case files and prints canonical observations.
   usage: driver graph <cases>   |  driver pie <cases>   (see gen/ for the formats) *)
open Model

let rec pos_of_int (i : int) : positive =
  if i = 1 then XH else if i land 1 = 0 then XO (pos_of_int (i lsr 1)) else XI (pos_of_int (i lsr 1))
let n_of_int (i : int) : n = if i = 0 then N0 else Npos (pos_of_int i)
let rec int_of_pos (p : positive) : int = match p with XH -> 1 | XO q -> 2 * int_of_pos q | XI q -> 2 * int_of_pos q + 1
let int_of_n (x : n) : int = match x with N0 -> 0 | Npos p -> int_of_pos p

let join sep l = String.concat sep l
let pn x = string_of_int (int_of_n x)

(* ------------------------------------------------------------------ graph *)
let graph_state (g : n dag) (created : int) : string =
  let b = Buffer.create 256 in
  Buffer.add_string b "s";
  for i = 0 to created - 1 do
    let nd = n_of_int i in
    match get_info g nd with
    | None -> ()
    | Some inf ->
      let pe (c, e) = pn c ^ "=" ^ (match e with Some x -> pn x | None -> "?") in
      Buffer.add_string b (Printf.sprintf " %d:%s:%s:%s" i (pn inf.rank)
        (join "," (List.map pe (get_outgoing_edges g nd)))
        (join "," (List.map pe (get_incoming_edges g nd))))
  done;
  Buffer.contents b

let graph_queries (g : n dag) (created : int) : string =
  let b = Buffer.create 512 in
  Buffer.add_string b "q ";
  for i = 0 to created - 1 do
    for j = 0 to created - 1 do
      let a = n_of_int i and c = n_of_int j in
      let ce = if contains_edge g a c then 1 else 0 in
      let cte = match contains_transitive_edge g a c with Some true -> 2 | Some false -> 0 | None -> 4 in
      Buffer.add_string b (string_of_int (ce + cte))
    done
  done;
  Buffer.add_string b " |";
  for i = 0 to created - 1 do
    let a = n_of_int i in
    (match descendants_unsorted g a with
     | AOk l -> Buffer.add_string b (Printf.sprintf " %d:(%s)" i (join "," (List.map (fun (r, x) -> pn r ^ "." ^ pn x) l)))
     | AErr _ -> Buffer.add_string b (Printf.sprintf " %d:missing" i)
     | AFuel -> Buffer.add_string b (Printf.sprintf " %d:FUEL" i));
    (match descendants g a with
     | AOk l -> Buffer.add_string b (Printf.sprintf "[%s]" (join "," (List.map pn l)))
     | AErr _ -> Buffer.add_string b "[missing]"
     | AFuel -> Buffer.add_string b "[FUEL]")
  done;
  Buffer.add_string b " | ";
  for i = 0 to created - 1 do
    for j = 0 to created - 1 do
      match topo_cmp g (n_of_int i) (n_of_int j) with
      | Some Lt -> Buffer.add_char b 'L' | Some Eq -> Buffer.add_char b 'E' | Some Gt -> Buffer.add_char b 'G'
      | None -> Buffer.add_char b '-'
    done
  done;
  Buffer.contents b

let run_graph_case (idx : int) (toks : string list) (queries : bool) =
  Printf.printf "C %d\n" idx;
  let g = ref (empty : n dag) in
  let created = ref 0 in
  let rec go toks =
    match toks with
    | [] -> ()
    | "A" :: tl ->
      let (nd, g') = add_node !g in g := g'; incr created;
      Printf.printf "r A %s\n" (pn nd); after (); go tl
    | "R" :: a :: tl ->
      let (r, g') = remove_node !g (n_of_int (int_of_string a)) in g := g';
      Printf.printf "r R %d\n" (if r then 1 else 0); after (); go tl
    | "E" :: s :: d :: x :: tl ->
      let (r, g') = add_edge !g (n_of_int (int_of_string s)) (n_of_int (int_of_string d)) (n_of_int (int_of_string x)) in
      g := g';
      Printf.printf "r E %s\n" (match r with AOk true -> "ok1" | AOk false -> "ok0" | AErr NodeMissing -> "missing"
                                           | AErr CycleDetected -> "cycle" | AFuel -> "FUEL");
      after (); go tl
    | "X" :: s :: d :: tl ->
      let (r, g') = remove_edge !g (n_of_int (int_of_string s)) (n_of_int (int_of_string d)) in g := g';
      Printf.printf "r X %s\n" (match r with None -> "none" | Some x -> pn x); after (); go tl
    | "O" :: s :: tl ->
      let (r, g') = remove_outgoing !g (n_of_int (int_of_string s)) in g := g';
      Printf.printf "r O %s\n" (match r with None -> "none"
                                           | Some l -> "some " ^ join "," (List.map (fun (c, e) -> pn c ^ "=" ^ pn e) l));
      after (); go tl
    | t :: _ -> failwith ("bad token " ^ t)
  and after () =
    print_endline (graph_state !g !created);
    if queries then print_endline (graph_queries !g !created)
  in
  go toks

let split_ws (s : string) : string list = List.filter (fun x -> x <> "") (String.split_on_char ' ' (String.trim s))

let iter_lines (file : string) (f : int -> string -> unit) =
  let ic = open_in file in
  let i = ref 0 in
  (try
     while true do
       let l = input_line ic in
       if String.trim l <> "" then begin f !i l; incr i end
     done
   with End_of_file -> ());
  close_in ic

let () =
  match Array.to_list Sys.argv with
  | _ :: "graph" :: file :: rest ->
    let queries = not (List.mem "--noq" rest) in
    iter_lines file (fun i l -> run_graph_case i (split_ws l) queries)
  | _ -> prerr_endline "usage: driver graph <cases> [--noq]"; exit 2

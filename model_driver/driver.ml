(* Model driver: runs the extracted Gallina model on case files and prints canonical observations.
   usage: driver graph <cases>   |  driver pie <cases>   (see gen/ for the formats) *)
open Model

let rec pos_of_int (i : int) : positive =
  if i = 1 then XH else if i land 1 = 0 then XO (pos_of_int (i lsr 1)) else XI (pos_of_int (i lsr 1))
let n_of_int (i : int) : n = if i = 0 then N0 else Npos (pos_of_int i)
let rec int_of_pos (p : positive) : int = match p with XH -> 1 | XO q -> 2 * int_of_pos q | XI q -> 2 * int_of_pos q + 1
let int_of_n (x : n) : int = match x with N0 -> 0 | Npos p -> int_of_pos p

let join sep l = String.concat sep l
let pn x = string_of_int (int_of_n x)

(* ------------------------------------------------------------------ graph *)
let graph_state (g : n dag) (created : int) : string =
  let b = Buffer.create 256 in
  Buffer.add_string b "s";
  for i = 0 to created - 1 do
    let nd = n_of_int i in
    match get_info g nd with
    | None -> ()
    | Some inf ->
      let pe (c, e) = pn c ^ "=" ^ (match e with Some x -> pn x | None -> "?") in
      Buffer.add_string b (Printf.sprintf " %d:%s:%s:%s" i (pn inf.rank)
        (join "," (List.map pe (get_outgoing_edges g nd)))
        (join "," (List.map pe (get_incoming_edges g nd))))
  done;
  Buffer.contents b

let graph_queries (g : n dag) (created : int) : string =
  let b = Buffer.create 512 in
  Buffer.add_string b "q ";
  for i = 0 to created - 1 do
    for j = 0 to created - 1 do
      let a = n_of_int i and c = n_of_int j in
      let ce = if contains_edge g a c then 1 else 0 in
      let cte = match contains_transitive_edge g a c with Some true -> 2 | Some false -> 0 | None -> 4 in
      Buffer.add_string b (string_of_int (ce + cte))
    done
  done;
  Buffer.add_string b " |";
  for i = 0 to created - 1 do
    let a = n_of_int i in
    (match descendants_unsorted g a with
     | AOk l -> Buffer.add_string b (Printf.sprintf " %d:(%s)" i (join "," (List.map (fun (r, x) -> pn r ^ "." ^ pn x) l)))
     | AErr _ -> Buffer.add_string b (Printf.sprintf " %d:missing" i)
     | AFuel -> Buffer.add_string b (Printf.sprintf " %d:FUEL" i));
    (match descendants g a with
     | AOk l -> Buffer.add_string b (Printf.sprintf "[%s]" (join "," (List.map pn l)))
     | AErr _ -> Buffer.add_string b "[missing]"
     | AFuel -> Buffer.add_string b "[FUEL]")
  done;
  Buffer.add_string b " | ";
  for i = 0 to created - 1 do
    for j = 0 to created - 1 do
      match topo_cmp g (n_of_int i) (n_of_int j) with
      | Some Lt -> Buffer.add_char b 'L' | Some Eq -> Buffer.add_char b 'E' | Some Gt -> Buffer.add_char b 'G'
      | None -> Buffer.add_char b '-'
    done
  done;
  Buffer.contents b

let run_graph_case (idx : int) (toks : string list) (queries : bool) =
  Printf.printf "C %d\n" idx;
  let g = ref (empty : n dag) in
  let created = ref 0 in
  let rec go toks =
    match toks with
    | [] -> ()
    | "A" :: tl ->
      let (nd, g') = add_node !g in g := g'; incr created;
      Printf.printf "r A %s\n" (pn nd); after (); go tl
    | "R" :: a :: tl ->
      let (r, g') = remove_node !g (n_of_int (int_of_string a)) in g := g';
      Printf.printf "r R %d\n" (if r then 1 else 0); after (); go tl
    | "E" :: s :: d :: x :: tl ->
      let (r, g') = add_edge !g (n_of_int (int_of_string s)) (n_of_int (int_of_string d)) (n_of_int (int_of_string x)) in
      g := g';
      Printf.printf "r E %s\n" (match r with AOk true -> "ok1" | AOk false -> "ok0" | AErr NodeMissing -> "missing"
                                           | AErr CycleDetected -> "cycle" | AFuel -> "FUEL");
      after (); go tl
    | "X" :: s :: d :: tl ->
      let (r, g') = remove_edge !g (n_of_int (int_of_string s)) (n_of_int (int_of_string d)) in g := g';
      Printf.printf "r X %s\n" (match r with None -> "none" | Some x -> pn x); after (); go tl
    | "O" :: s :: tl ->
      let (r, g') = remove_outgoing !g (n_of_int (int_of_string s)) in g := g';
      Printf.printf "r O %s\n" (match r with None -> "none"
                                           | Some l -> "some " ^ join "," (List.map (fun (c, e) -> pn c ^ "=" ^ pn e) l));
      after (); go tl
    | t :: _ -> failwith ("bad token " ^ t)
  and after () =
    print_endline (graph_state !g !created);
    if queries then print_endline (graph_queries !g !created)
  in
  go toks

(* the final graph of a case, written as a Gallina term: the check pastes it into a Coq file next to the same operation list and
   asks the kernel to evaluate grun on it (cross-check of extraction + this driver against evaluation inside Coq) *)
let run_graph_raw (toks : string list) =
  let g = ref (empty : n dag) in
  let rec go toks =
    match toks with
    | [] -> ()
    | "A" :: tl -> g := snd (add_node !g); go tl
    | "R" :: a :: tl -> g := snd (remove_node !g (n_of_int (int_of_string a))); go tl
    | "E" :: s :: d :: x :: tl -> g := snd (add_edge !g (n_of_int (int_of_string s)) (n_of_int (int_of_string d)) (n_of_int (int_of_string x))); go tl
    | "X" :: s :: d :: tl -> g := snd (remove_edge !g (n_of_int (int_of_string s)) (n_of_int (int_of_string d))); go tl
    | "O" :: s :: tl -> g := snd (remove_outgoing !g (n_of_int (int_of_string s))); go tl
    | t :: _ -> failwith ("bad token " ^ t) in
  go toks;
  let lst f l = "[" ^ join "; " (List.map f l) ^ "]" in
  Printf.printf "(mkDag %s %s %s %s)\n"
    (lst (fun (nd, i) -> Printf.sprintf "(%s, mkNinfo %s %s %s)" (pn nd) (pn i.rank) (lst pn i.kids) (lst pn i.pars)) !g.infos)
    (lst (fun ((a, b), e) -> Printf.sprintf "((%s, %s), %s)" (pn a) (pn b) (pn e)) !g.edata)
    (pn !g.last) (pn !g.fresh)

let split_ws (s : string) : string list = List.filter (fun x -> x <> "") (String.split_on_char ' ' (String.trim s))

let iter_lines (file : string) (f : int -> string -> unit) =
  let ic = open_in file in
  let i = ref 0 in
  (try
     while true do
       let l = input_line ic in
       if String.trim l <> "" then begin f !i l; incr i end
     done
   with End_of_file -> ());
  close_in ic


(* ------------------------------------------------------------------ pie histories *)
let z_of_int (i : int) : z = if i = 0 then Z0 else if i > 0 then Zpos (pos_of_int i) else Zneg (pos_of_int (-i))
let int_of_z (x : z) : int = match x with Z0 -> 0 | Zpos p -> int_of_pos p | Zneg p -> - (int_of_pos p)
let pz x = string_of_int (int_of_z x)
let rec nat_of_int (i : int) : nat = if i = 0 then O else S (nat_of_int (i - 1))

type toks = { mutable l : string list }
let next (t : toks) : string = match t.l with x :: tl -> t.l <- tl; x | [] -> failwith "unexpected end of case"
let peek (t : toks) : string option = match t.l with x :: _ -> Some x | [] -> None
let num (t : toks) : int = int_of_string (next t)

let parse_expr t = match next t with
  | "k" -> EConst (z_of_int (num t)) | "a" -> EAcc | "p" -> EAccPlus (z_of_int (num t)) | x -> failwith ("bad expr " ^ x)
let parse_cond t = match next t with
  | "e" -> CAccEq (z_of_int (num t))
  | "m" -> let m = num t in let k = num t in CAccMod (z_of_int m, z_of_int k)
  | "l" -> CLastEq (z_of_int (num t))
  | x -> failwith ("bad cond " ^ x)
let rec parse_code t : code = match next t with
  | "D" -> CDone
  | "T" -> CRet (parse_expr t)
  | "P" -> CPanic
  | "R" -> let r = num t in let c = num t in CRead (n_of_int r, n_of_int c, parse_code t)
  | "Q" -> let q = num t in let c = num t in CReq (n_of_int q, n_of_int c, parse_code t)
  | "W" -> let r = num t in let c = num t in let e = parse_expr t in CWrite (n_of_int r, n_of_int c, e, parse_code t)
  | "N" -> let r = num t in let c = num t in let e = parse_expr t in CWrittenTo (n_of_int r, n_of_int c, e, parse_code t)
  | "X" -> let r = num t in let c = num t in CRemove (n_of_int r, n_of_int c, parse_code t)
  | "I" -> let b = parse_cond t in let th = parse_code t in let el = parse_code t in CIf (b, th, el)
  | x -> failwith ("bad code token " ^ x)

let cres_text = function Consistent -> "ok" | Inconsistent -> "inc" | CErr e -> "err" ^ pz e
let b01 b = if b then "1" else "0"
let event_text (e : event) : string = match e with
  | EBuildStart -> "BS" | EBuildEnd -> "BE"
  | ERequireStart (t, c) -> Printf.sprintf "RS %s %s" (pn t) (pn c)
  | ERequireEnd (t, c, st, o) -> Printf.sprintf "RE %s %s %s %s" (pn t) (pn c) (pz st) (pz o)
  | EReadStart (r, c) -> Printf.sprintf "rS %s %s" (pn r) (pn c)
  | EReadEnd (r, c, st) -> Printf.sprintf "rE %s %s %s" (pn r) (pn c) (pz st)
  | EWriteStart (r, c) -> Printf.sprintf "wS %s %s" (pn r) (pn c)
  | EWriteEnd (r, c, st) -> Printf.sprintf "wE %s %s %s" (pn r) (pn c) (pz st)
  | ECheckTaskStart (t, c, st) -> Printf.sprintf "CTS %s %s %s" (pn t) (pn c) (pz st)
  | ECheckTaskEnd (t, c, st, i) -> Printf.sprintf "CTE %s %s %s %s" (pn t) (pn c) (pz st) (b01 i)
  | ECheckResStart (r, c, st) -> Printf.sprintf "CRS %s %s %s" (pn r) (pn c) (pz st)
  | ECheckResEnd (r, c, st, x) -> Printf.sprintf "CRE %s %s %s %s" (pn r) (pn c) (pz st) (cres_text x)
  | EExecStart t -> "XS " ^ pn t
  | EExecEnd (t, o) -> Printf.sprintf "XE %s %s" (pn t) (pz o)
  | ESchedByTaskStart t -> "SBTS " ^ pn t
  | ESchedByTaskEnd t -> "SBTE " ^ pn t
  | ECheckReqTaskStart (t, c, st) -> Printf.sprintf "CQS %s %s %s" (pn t) (pn c) (pz st)
  | ECheckReqTaskEnd (t, c, st, i) -> Printf.sprintf "CQE %s %s %s %s" (pn t) (pn c) (pz st) (b01 i)
  | ESchedByResStart r -> "SBRS " ^ pn r
  | ESchedByResEnd r -> "SBRE " ^ pn r
  | ECheckReadResStart (t, c, st) -> Printf.sprintf "CDS %s %s %s" (pn t) (pn c) (pz st)
  | ECheckReadResEnd (t, c, st, x) -> Printf.sprintf "CDE %s %s %s %s" (pn t) (pn c) (pz st) (cres_text x)
  | ESchedTask t -> "ST " ^ pn t

let akind_text = function
  | ACycle -> "cycle" | AHidden -> "hidden" | AOverlap -> "overlap" | ATaskPanic -> "panic" | ABug k -> "bug" ^ pn k

let node_text (nd : n) : string = (if is_tn nd then "T" else "R") ^ pn (un nd)

let dump (w : world) : string list =
  let g = w.gr in
  let nodes = List.sort (fun (_, a) (_, b) -> compare (int_of_n a.rank) (int_of_n b.rank)) g.infos in
  List.map (fun (nd, inf) ->
    let o = if is_tn nd then (match List.assoc_opt (un nd) (List.map (fun (k, v) -> (k, v)) w.outs) with Some v -> pz v | None -> "-") else "-" in
    let dep_text (target : n) (d : dep option) = match d with
      | Some DReserved -> Printf.sprintf "V%s/-/-" (node_text target)
      | Some (DRequire (_, c, st)) -> Printf.sprintf "Q%s/%s/%s" (node_text target) (pn c) (pz st)
      | Some (DRead (_, c, st)) -> Printf.sprintf "R%s/%s/%s" (node_text target) (pn c) (pz st)
      | Some (DWrite (_, c, st)) -> Printf.sprintf "W%s/%s/%s" (node_text target) (pn c) (pz st)
      | None -> "?" ^ node_text target in
    let kind_text (src : n) (d : dep option) = (match d with
      | Some DReserved -> "V" | Some (DRequire _) -> "Q" | Some (DRead _) -> "R" | Some (DWrite _) -> "W" | None -> "?") ^ node_text src in
    Printf.sprintf "d %s %s %s O:%s I:%s" (node_text nd) (pn inf.rank) o
      (join "," (List.map (fun (c, d) -> dep_text c d) (get_outgoing_edges g nd)))
      (join "," (List.map (fun (p, d) -> kind_text p d) (get_incoming_edges g nd)))) nodes

let run_pie_case (idx : int) (toks : string list) (fuel : nat) (with_dump : bool) =
  Printf.printf "C %d\n" idx;
  let t = { l = toks } in
  if next t <> "T" then failwith "expected T";
  let ntasks = num t in
  let tb = ref [] in
  for _ = 1 to ntasks do
    let id = num t in
    let c = parse_code t in
    tb := !tb @ [(n_of_int id, c)]
  done;
  if next t <> "H" then failwith "expected H";
  let w = ref init_world in
  let step = ref 0 in
  while peek t <> None do
    (match next t with
     | "E" -> let r = num t in let v = num t in
       let (_, w') = dsl_run_step !tb fuel !w (HEdit (n_of_int r, Some (z_of_int v))) in w := w'
     | "D" -> let r = num t in
       let (_, w') = dsl_run_step !tb fuel !w (HEdit (n_of_int r, None)) in w := w'
     | "F" -> let k = num t in
       let rs = List.init k (fun _ -> n_of_int (num t)) in
       let (_, w') = dsl_run_step !tb fuel !w (HEnv rs) in w := w'
     | ("S" | "Z") as kind ->   (* "Z": the caller catches the panic of an aborted build and keeps using the Session (Build.run_zsession) *)
       let k = num t in
       (* "e r v": an external change of a resource while the session is alive (Build.run_msession) *)
       let mops = List.init k (fun _ -> match next t with
           | "q" -> MSop (SRequire (n_of_int (num t)))
           | "b" -> let m = num t in MSop (SBottomUp (List.init m (fun _ -> n_of_int (num t))))
           | "e" -> let r = num t in let v = num t in MEdit (n_of_int r, Some (z_of_int v))
           | x -> failwith ("bad sop " ^ x)) in
       let has_edit = List.exists (function MEdit _ -> true | _ -> false) mops in
       let sops = List.filter_map (function MSop o -> Some o | MEdit _ -> None) mops in
       Printf.printf "S %d\n" !step;
       let (rs, w') =
         if kind = "Z" then dsl_run_zsession !tb fuel (new_session !w) mops
         else if has_edit then dsl_run_msession !tb fuel (new_session !w) mops
         else dsl_run_step !tb fuel !w (HSession sops) in
       w := w';
       (* results are printed per operation, an edit prints "o e -> done" like the harness (as long as the session goes on) *)
       let rs = ref rs in
       let stop = ref false in
       List.iter (fun mo ->
           if not !stop then
           match mo with
           | MEdit _ -> print_endline "o e -> done"
           | MSop sop ->
             (match !rs with
              | [] -> stop := true
              | r :: tl ->
                rs := tl;
                let pre = match sop with SRequire tk -> "o q " ^ pn tk | SBottomUp _ -> "o b" in
                (match r with
                 | RDone (Some o) -> Printf.printf "%s -> %s\n" pre (pz o)
                 | RDone None -> Printf.printf "%s -> done\n" pre
                 | RAbort k -> Printf.printf "%s -> abort %s\n" pre (akind_text k); if kind <> "Z" then stop := true
                 | RFuel -> Printf.printf "%s -> FUEL\n" pre; stop := true))) mops;
       Printf.printf "e %s\n" (join " " (List.rev_map pz !w.errs));
       Printf.printf "v %s\n" (join ";" (List.rev_map event_text !w.trace));
       if with_dump then List.iter print_endline (dump !w);
       (* resources with ids >= 50 live outside the Pie instance in the harness: its map dump does not show them *)
       let m = List.sort compare (List.filter (fun (k, _) -> k < 50) (List.map (fun (k, v) -> (int_of_n k, int_of_z v)) !w.rstate)) in
       Printf.printf "m %s\n" (join " " (List.map (fun (k, v) -> Printf.sprintf "%d=%d" k v) m))
     | x -> failwith ("bad step " ^ x));
    incr step
  done


(* ------------------------------------------------------------------ Gallina terms for the in-Coq cross-check of the extraction *)
let gn x = pn x ^ "%N"
let gz x = "(" ^ pz x ^ ")%Z"
let glist f l = "[" ^ join "; " (List.map f l) ^ "]"
let gopt f = function None -> "None" | Some x -> "(Some " ^ f x ^ ")"
let gexpr = function EConst z -> "(EConst " ^ gz z ^ ")" | EAcc -> "EAcc" | EAccPlus z -> "(EAccPlus " ^ gz z ^ ")"
let gcond = function CAccEq z -> "(CAccEq " ^ gz z ^ ")" | CAccMod (m, k) -> "(CAccMod " ^ gz m ^ " " ^ gz k ^ ")" | CLastEq z -> "(CLastEq " ^ gz z ^ ")"
let rec gcode = function
  | CDone -> "CDone" | CRet e -> "(CRet " ^ gexpr e ^ ")" | CPanic -> "CPanic"
  | CRead (r, c, k) -> Printf.sprintf "(CRead %s %s %s)" (gn r) (gn c) (gcode k)
  | CReq (t, c, k) -> Printf.sprintf "(CReq %s %s %s)" (gn t) (gn c) (gcode k)
  | CWrite (r, c, e, k) -> Printf.sprintf "(CWrite %s %s %s %s)" (gn r) (gn c) (gexpr e) (gcode k)
  | CWrittenTo (r, c, e, k) -> Printf.sprintf "(CWrittenTo %s %s %s %s)" (gn r) (gn c) (gexpr e) (gcode k)
  | CRemove (r, c, k) -> Printf.sprintf "(CRemove %s %s %s)" (gn r) (gn c) (gcode k)
  | CIf (b, th, el) -> Printf.sprintf "(CIf %s %s %s)" (gcond b) (gcode th) (gcode el)
let gcres = function Consistent -> "Consistent" | Inconsistent -> "Inconsistent" | CErr e -> "(CErr " ^ gz e ^ ")"
let gbool b = if b then "true" else "false"
let gevent (e : event) : string = match e with
  | EBuildStart -> "EBuildStart" | EBuildEnd -> "EBuildEnd"
  | ERequireStart (t, c) -> Printf.sprintf "(ERequireStart %s %s)" (gn t) (gn c)
  | ERequireEnd (t, c, st, o) -> Printf.sprintf "(ERequireEnd %s %s %s %s)" (gn t) (gn c) (gz st) (gz o)
  | EReadStart (r, c) -> Printf.sprintf "(EReadStart %s %s)" (gn r) (gn c)
  | EReadEnd (r, c, st) -> Printf.sprintf "(EReadEnd %s %s %s)" (gn r) (gn c) (gz st)
  | EWriteStart (r, c) -> Printf.sprintf "(EWriteStart %s %s)" (gn r) (gn c)
  | EWriteEnd (r, c, st) -> Printf.sprintf "(EWriteEnd %s %s %s)" (gn r) (gn c) (gz st)
  | ECheckTaskStart (t, c, st) -> Printf.sprintf "(ECheckTaskStart %s %s %s)" (gn t) (gn c) (gz st)
  | ECheckTaskEnd (t, c, st, i) -> Printf.sprintf "(ECheckTaskEnd %s %s %s %s)" (gn t) (gn c) (gz st) (gbool i)
  | ECheckResStart (r, c, st) -> Printf.sprintf "(ECheckResStart %s %s %s)" (gn r) (gn c) (gz st)
  | ECheckResEnd (r, c, st, x) -> Printf.sprintf "(ECheckResEnd %s %s %s %s)" (gn r) (gn c) (gz st) (gcres x)
  | EExecStart t -> "(EExecStart " ^ gn t ^ ")"
  | EExecEnd (t, o) -> Printf.sprintf "(EExecEnd %s %s)" (gn t) (gz o)
  | ESchedByTaskStart t -> "(ESchedByTaskStart " ^ gn t ^ ")"
  | ESchedByTaskEnd t -> "(ESchedByTaskEnd " ^ gn t ^ ")"
  | ECheckReqTaskStart (t, c, st) -> Printf.sprintf "(ECheckReqTaskStart %s %s %s)" (gn t) (gn c) (gz st)
  | ECheckReqTaskEnd (t, c, st, i) -> Printf.sprintf "(ECheckReqTaskEnd %s %s %s %s)" (gn t) (gn c) (gz st) (gbool i)
  | ESchedByResStart r -> "(ESchedByResStart " ^ gn r ^ ")"
  | ESchedByResEnd r -> "(ESchedByResEnd " ^ gn r ^ ")"
  | ECheckReadResStart (t, c, st) -> Printf.sprintf "(ECheckReadResStart %s %s %s)" (gn t) (gn c) (gz st)
  | ECheckReadResEnd (t, c, st, x) -> Printf.sprintf "(ECheckReadResEnd %s %s %s %s)" (gn t) (gn c) (gz st) (gcres x)
  | ESchedTask t -> "(ESchedTask " ^ gn t ^ ")"
let gakind = function ACycle -> "ACycle" | AHidden -> "AHidden" | AOverlap -> "AOverlap" | ATaskPanic -> "ATaskPanic" | ABug k -> "(ABug " ^ gn k ^ ")"
let gsres = function RDone o -> "(RDone " ^ gopt gz o ^ ")" | RAbort k -> "(RAbort " ^ gakind k ^ ")" | RFuel -> "RFuel"
let gsop = function SRequire t -> "(SRequire " ^ gn t ^ ")" | SBottomUp l -> "(SBottomUp " ^ glist gn l ^ ")"
let gstep = function
  | HEdit (r, v) -> Printf.sprintf "(HEdit %s %s)" (gn r) (gopt gz v)
  | HEnv l -> "(HEnv " ^ glist gn l ^ ")"
  | HSession ops -> "(HSession " ^ glist gsop ops ^ ")"
let gdep = function
  | DReserved -> "DReserved"
  | DRequire (t, c, st) -> Printf.sprintf "(DRequire %s %s %s)" (gn t) (gn c) (gz st)
  | DRead (r, c, st) -> Printf.sprintf "(DRead %s %s %s)" (gn r) (gn c) (gz st)
  | DWrite (r, c, st) -> Printf.sprintf "(DWrite %s %s %s)" (gn r) (gn c) (gz st)

(* one line per case: "X <table> @@ <steps> @@ <expected projection>".  Steps are written in the little wrapper type of the check
   file: XPlain (a step of Build.run_history), XM (a session with external edits: run_msession), XZ (a Session used on after a
   caught abort: run_zsession) -- exactly the three runners run_pie_case uses *)
let gmop = function MSop o -> "(MSop " ^ gsop o ^ ")" | MEdit (r, v) -> Printf.sprintf "(MEdit %s %s)" (gn r) (gopt gz v)
type xstep = XPlain of step | XM of mop list | XZ of mop list
let gxstep = function XPlain s -> "(XPlain " ^ gstep s ^ ")" | XM l -> "(XM " ^ glist gmop l ^ ")" | XZ l -> "(XZ " ^ glist gmop l ^ ")"
let run_pie_raw (toks : string list) (fuel : nat) =
  let t = { l = toks } in
  if next t <> "T" then failwith "expected T";
  let ntasks = num t in
  let tb = ref [] in
  for _ = 1 to ntasks do let id = num t in let c = parse_code t in tb := !tb @ [(n_of_int id, c)] done;
  if next t <> "H" then failwith "expected H";
  let steps = ref [] in
  while peek t <> None do
    (match next t with
     | "E" -> let r = num t in let v = num t in steps := !steps @ [XPlain (HEdit (n_of_int r, Some (z_of_int v)))]
     | "D" -> let r = num t in steps := !steps @ [XPlain (HEdit (n_of_int r, None))]
     | "F" -> let k = num t in let rs = List.init k (fun _ -> n_of_int (num t)) in steps := !steps @ [XPlain (HEnv rs)]
     | ("S" | "Z") as kind -> let k = num t in
       let mops = List.init k (fun _ -> match next t with
           | "q" -> MSop (SRequire (n_of_int (num t)))
           | "b" -> let m = num t in MSop (SBottomUp (List.init m (fun _ -> n_of_int (num t))))
           | "e" -> let r = num t in let v = num t in MEdit (n_of_int r, Some (z_of_int v))
           | x -> failwith ("bad sop " ^ x)) in
       let has_edit = List.exists (function MEdit _ -> true | _ -> false) mops in
       let sops = List.filter_map (function MSop o -> Some o | MEdit _ -> None) mops in
       steps := !steps @ [if kind = "Z" then XZ mops else if has_edit then XM mops else XPlain (HSession sops)]
     | x -> failwith ("bad step " ^ x))
  done;
  let w = ref init_world in
  let results = List.map (fun s ->
      let (rs, w') = match s with
        | XPlain st -> dsl_run_step !tb fuel !w st
        | XM mops -> dsl_run_msession !tb fuel (new_session !w) mops
        | XZ mops -> dsl_run_zsession !tb fuel (new_session !w) mops in
      w := w'; rs) !steps in
  let w = !w in
  Printf.printf "X %s @@ %s @@ (%s, %s, %s, %s, %s, %s, %s, %s, %s)\n"
    (glist (fun (k, c) -> "(" ^ gn k ^ ", " ^ gcode c ^ ")") !tb)
    (glist gxstep !steps)
    (glist (glist gsres) results)
    (glist (fun (k, v) -> "(" ^ gn k ^ ", " ^ gz v ^ ")") w.outs)
    (glist (fun (k, v) -> "(" ^ gn k ^ ", " ^ gz v ^ ")") w.rstate)
    (glist gn w.consistent) (glist gz w.errs) (glist gevent w.trace) (glist gn w.queue)
    (glist (fun (nd, i) -> Printf.sprintf "(%s, %s, %s, %s)" (gn nd) (gn i.rank) (glist gn i.kids) (glist gn i.pars)) w.gr.infos)
    (glist (fun ((a, b), d) -> Printf.sprintf "((%s, %s), %s)" (gn a) (gn b) (gdep d)) w.gr.edata)

(* ------------------------------------------------------------------ tracker probe *)
let parse_cres (s : string) : cres =
  if s = "ok" then Consistent else if s = "inc" then Inconsistent else CErr (z_of_int (int_of_string (String.sub s 3 (String.length s - 3))))
let parse_event (t : toks) : event =
  let n () = n_of_int (num t) and z () = z_of_int (num t) in
  match next t with
  | "BS" -> EBuildStart | "BE" -> EBuildEnd
  | "RS" -> let k = n () in let c = n () in ERequireStart (k, c)
  | "RE" -> let k = n () in let c = n () in let st = z () in let o = z () in ERequireEnd (k, c, st, o)
  | "rS" -> let k = n () in let c = n () in EReadStart (k, c)
  | "rE" -> let k = n () in let c = n () in let st = z () in EReadEnd (k, c, st)
  | "wS" -> let k = n () in let c = n () in EWriteStart (k, c)
  | "wE" -> let k = n () in let c = n () in let st = z () in EWriteEnd (k, c, st)
  | "CTS" -> let k = n () in let c = n () in let st = z () in ECheckTaskStart (k, c, st)
  | "CTE" -> let k = n () in let c = n () in let st = z () in let i = num t in ECheckTaskEnd (k, c, st, i = 1)
  | "CRS" -> let k = n () in let c = n () in let st = z () in ECheckResStart (k, c, st)
  | "CRE" -> let k = n () in let c = n () in let st = z () in let r = parse_cres (next t) in ECheckResEnd (k, c, st, r)
  | "XS" -> EExecStart (n ())
  | "XE" -> let k = n () in let o = z () in EExecEnd (k, o)
  | "SBTS" -> ESchedByTaskStart (n ()) | "SBTE" -> ESchedByTaskEnd (n ())
  | "CQS" -> let k = n () in let c = n () in let st = z () in ECheckReqTaskStart (k, c, st)
  | "CQE" -> let k = n () in let c = n () in let st = z () in let i = num t in ECheckReqTaskEnd (k, c, st, i = 1)
  | "SBRS" -> ESchedByResStart (n ()) | "SBRE" -> ESchedByResEnd (n ())
  | "CDS" -> let k = n () in let c = n () in let st = z () in ECheckReadResStart (k, c, st)
  | "CDE" -> let k = n () in let c = n () in let st = z () in let r = parse_cres (next t) in ECheckReadResEnd (k, c, st, r)
  | "ST" -> ESchedTask (n ())
  | x -> failwith ("bad event " ^ x)

let tevent_text (e : tevent) : string = match e with
  | TBuildStart -> "BS" | TBuildEnd -> "BE"
  | TRequireStart ((_, k), c, i) -> Printf.sprintf "RS %s %s@%s" (pn k) (pn c) (pn i)
  | TRequireEnd ((_, k), c, st, o, i) -> Printf.sprintf "RE %s %s %s %s@%s" (pn k) (pn c) (pz st) (pz o) (pn i)
  | TReadStart ((_, k), c, i) -> Printf.sprintf "rS %s %s@%s" (pn k) (pn c) (pn i)
  | TReadEnd ((_, k), c, st, i) -> Printf.sprintf "rE %s %s %s@%s" (pn k) (pn c) (pz st) (pn i)
  | TWriteStart ((_, k), c, i) -> Printf.sprintf "wS %s %s@%s" (pn k) (pn c) (pn i)
  | TWriteEnd ((_, k), c, st, i) -> Printf.sprintf "wE %s %s %s@%s" (pn k) (pn c) (pz st) (pn i)
  | TExecuteStart ((_, k), i) -> Printf.sprintf "XS %s@%s" (pn k) (pn i)
  | TExecuteEnd ((_, k), o, i) -> Printf.sprintf "XE %s %s@%s" (pn k) (pz o) (pn i)

let run_tracker_case (idx : int) (toks : string list) =
  Printf.printf "C %d\n" idx;
  let t = { l = toks } in
  let evs = ref [] in
  while peek t <> None do evs := !evs @ [parse_event t] done;
  Printf.printf "v %s\n" (join ";" (List.map event_text !evs));
  (* CompositeTracker (model): both children get the identical stream *)
  let step (s : event list) (e : event) = s @ [e] in
  let (a, (b, c)) = List.fold_left (fun s e -> composite_step step (composite_step step step) s e) ([], ([], [])) !evs in
  Printf.printf "c %s\n" (if a = !evs && b = !evs && c = !evs then "1" else "0");
  let et = et_run !evs in
  Printf.printf "t %s\n" (join ";" (List.map tevent_text et.et_events));
  let subjects = [ktask (n_of_int 1); ktask (n_of_int 2); kres (n_of_int 1); kres (n_of_int 2)] in
  let bb x = if x then "1" else "0" in
  let sm x = match x with Some _ -> "1" | None -> "0" in
  List.iteri (fun i e ->
      let s = Buffer.create 64 in
      Buffer.add_string s (Printf.sprintf "h %d %s%s%s" i (bb (is_build_start e)) (bb (is_build_end e)) (bb (is_execute e)));
      List.iter (fun k ->
          Buffer.add_string s (" " ^ sm (match_require_start e k) ^ sm (match_require_end e k) ^ sm (match_read_start e k) ^ sm (match_read_end e k)
                               ^ sm (match_write_start e k) ^ sm (match_write_end e k) ^ bb (is_execute_of e k)
                               ^ sm (match_execute_start e k) ^ sm (match_execute_end e k))) subjects;
      print_endline (Buffer.contents s)) et.et_events;
  let rng x = match range_of x with Some (a, b) -> pn a ^ ".." ^ pn b | None -> "-" in
  let ix x = match x with Some e -> (match tindex e with Some i -> pn i | None -> "-") | None -> "-" in
  List.iteri (fun j k ->
      Printf.printf "f %d req=%s read=%s write=%s exec=%s fre=%s fwe=%s fxe=%s anyxof=%s onexof=%s\n" j
        (rng (first_require et k)) (rng (first_read et k)) (rng (first_write et k)) (rng (first_execute et k))
        (ix (first_read_end et k)) (ix (first_write_end et k)) (ix (first_execute_end et k))
        (bb (any_execute_of et k)) (bb (one_execute_of et k))) subjects;
  Printf.printf "g anyx=%s\n" (bb (any_execute et))


(* ------------------------------------------------------------------ output checkers (exhaustive finite domain) *)
let n_eqb (a : n) (b : n) : bool = (int_of_n a = int_of_n b)
let run_checkers () =
  print_endline "C 0";
  let outs = List.init 3 (fun v -> (Printf.sprintf "O%d" v, Ok (n_of_int v))) @ List.init 3 (fun v -> (Printf.sprintf "E%d" v, Err (n_of_int v))) in
  let bb x = if x then "1" else "0" in
  let family outs =
    List.iter (fun (n1, o1) ->
        List.iter (fun (n2, o2) ->
            Printf.printf "k %s %s %s\n" n1 n2
              (String.concat "" (List.init 5 (fun c -> bb (inconsistent n_eqb n_eqb (n_of_int c) o1 o2))))) outs) outs in
  family outs;
  (* unit payloads (one value) and string payloads (two values): the model is parametric in the payload types and their equality *)
  family [("Ou", Ok (n_of_int 0)); ("E0", Err (n_of_int 0)); ("E1", Err (n_of_int 1))];
  family [("O0", Ok (n_of_int 0)); ("O1", Ok (n_of_int 1)); ("Eu", Err (n_of_int 0))];
  family [("Ou", Ok (n_of_int 0)); ("Eu", Err (n_of_int 0))];
  family [("Oa", Ok (n_of_int 0)); ("Ob", Ok (n_of_int 1)); ("Ea", Err (n_of_int 0)); ("Eb", Err (n_of_int 1))];
  (* payloads whose printed form and equality disagree: two distinct values that print alike; two equal values that print differently *)
  family [("Oa", Ok (n_of_int 0)); ("Ob", Ok (n_of_int 1)); ("Ea", Err (n_of_int 0)); ("Eb", Err (n_of_int 1))];
  family [("Oa", Ok (n_of_int 0)); ("Oa", Ok (n_of_int 0)); ("Ea", Err (n_of_int 0)); ("Ea", Err (n_of_int 0))];
  for a = 0 to 3 do
    for c = 0 to 3 do
      (* a non-Result output: EqualsChecker is equality, AlwaysConsistent is constant *)
      let o1 = Ok (n_of_int a) and o2 = Ok (n_of_int c) in
      Printf.printf "p %d %d %s%s\n" a c (bb (inconsistent n_eqb n_eqb (n_of_int 0) o1 o2)) (bb (inconsistent n_eqb n_eqb (n_of_int 4) o1 o2))
    done
  done


(* ------------------------------------------------------------------ map resource probe *)
let run_map_case (idx : int) (toks : string list) =
  Printf.printf "C %d\n" idx;
  let t = { l = toks } in
  let st = ref ms_init in
  let o x = match x with Some v -> Printf.sprintf "Some(%s)" (pz v) | None -> "None" in
  let show l = join "," (List.map (fun (k, v) -> Printf.sprintf "%d=%d" k v) (List.sort compare (List.map (fun (k, v) -> (int_of_n k, int_of_z v)) l))) in
  while peek t <> None do
    let quiet = ref false in
    let op = match next t with
      (* "p k": a build aborted inside Context::write on key type 1 (the write function panics): the writer was created -- the same
         state access as a read -- and nothing was written *)
      | "p" -> let k = num t in quiet := true; MRead (n_of_int 1, n_of_int k)
      | "g" | "G" | "M" | "B" -> let r = num t in let s = num t in MGet (n_of_int r, n_of_int s)   (* get / get_boxed / get_mut / get_boxed_mut: one abstract operation *)
      | "s" | "S" -> let r = num t in let s = num t in let v = num t in MSet (n_of_int r, n_of_int s, z_of_int v)   (* set / set_boxed *)
      | "d" | "D" -> let r = num t in let s = num t in MDefault (n_of_int r, n_of_int s)   (* get_or_set_default / _mut *)
      | "r" -> let kt = num t in let k = num t in MRead (n_of_int kt, n_of_int k)
      | "w" -> let kt = num t in let k = num t in let v = num t in MInsert (n_of_int kt, n_of_int k, z_of_int v)
      | "m" -> let kt = num t in let k = num t in let v = num t in MInsert (n_of_int kt, n_of_int k, z_of_int v)   (* in-place route of the writer (get_mut): the same abstract operation *)
      | "x" -> let kt = num t in let k = num t in MRemove (n_of_int kt, n_of_int k)
      | "i" -> let kt = num t in let k = num t in let v = num t in MDirect (n_of_int kt, n_of_int k, z_of_int v)
      | "t" -> let sl = num t in let kt = num t in let k = num t in MStamp (n_of_int sl, n_of_int kt, n_of_int k)
      | "c" -> MCheck (n_of_int (num t))
      | x -> failwith ("bad map op " ^ x) in
    let (ob, st') = mstep !st op in
    st := st';
    if !quiet then print_endline "u" else
    (match ob with
     | OGet None -> print_endline "g None"
     | OGet (Some l) -> Printf.printf "g Some[%s]\n" (show l)
     | OUnit -> print_endline "u"
     | ODefault l -> Printf.printf "d [%s]\n" (show l)
     | ORead v -> Printf.printf "r %s\n" (o v)
     | OStamp (a, b, c) -> Printf.printf "t %s %s %s\n" (o a) (o b) (o c)
     | OCheck None -> print_endline "c none"
     | OCheck (Some i) -> Printf.printf "c %s\n" (if i then "1" else "0"))
  done


(* ------------------------------------------------------------------ key identity probe: the real code with type families must behave like
   the N-keyed model under the injective renaming (family, value) -> family*100 + value *)
let run_keys_case (idx : int) (toks : string list) (fuel : nat) =
  Printf.printf "C %d\n" idx;
  let inner fam = match fam with 3 | 4 | 5 -> 0 | 6 -> 1 | f -> f in
  (* collect the program table from the ops *)
  let rec ops (l : string list) acc = match l with
    | [] -> List.rev acc
    | ("q" | "R" | "D" | "b") as o :: f :: v :: tl -> ops tl ((o, int_of_string f, int_of_string v, 0) :: acc)
    | "E" :: f :: v :: x :: tl -> ops tl (("E", int_of_string f, int_of_string v, int_of_string x) :: acc)
    | x :: _ -> failwith ("bad key op " ^ x) in
  let os = ops toks [] in
  (* resource family 4 = files: value = file * 3 + spelling, the spellings of one path are equal keys *)
  let canon f v = if f = 4 then v / 3 else v in
  let tkey f v = 10000 + f * 100 + v and rkey f v = 20000 + f * 100 + canon f v and res f v = f * 100 + canon f v in
  let tb = List.sort_uniq compare (List.filter_map (fun (o, f, v, _) ->
      match o with
      | "q" -> Some (tkey f v, `Plain (inner f * 100 + v))
      | "R" -> Some (rkey f v, `Reader (res f v))
      | _ -> None) os) in
  let table = List.map (fun (k, c) -> (n_of_int k, match c with
      | `Plain o -> CRet (EConst (z_of_int o))
      | `Reader r -> CRead (n_of_int r, n_of_int 0, CDone))) tb in
  let w = ref init_world in
  List.iter (fun (o, f, v, x) ->
      let step = match o with
        | "q" -> HSession [SRequire (n_of_int (tkey f v))]
        | "R" -> HSession [SRequire (n_of_int (rkey f v))]
        | "E" -> HEdit (n_of_int (res f v), Some (z_of_int x))
        | "D" -> HEdit (n_of_int (res f v), None)
        | _ -> HSession [SBottomUp [n_of_int (res f v)]] in
      let (rs, w') = dsl_run_step table fuel !w step in
      w := w';
      let execs = match step with HSession _ -> List.length (List.filter (fun e -> match e with EExecStart _ -> true | _ -> false) !w.trace) | _ -> 0 in
      let r = match rs with
        | [RDone (Some z)] -> pz z | [RDone None] -> "done" | [] -> "u" | [RAbort k] -> "abort:" ^ akind_text k | _ -> "?" in
      Printf.printf "o %s x%d\n" r execs) os


(* ------------------------------------------------------------------ file checkers probe (the OS is modelled; sha = identity on the byte stream) *)
let fs_content (size : int) (variant : int) : n list =
  let v = Array.init size (fun i -> (i * 7 + 3) mod 251) in
  if size > 0 then begin
    (match variant with
     | 1 -> v.(size - 1) <- (v.(size - 1) + 1) land 255
     | 2 -> v.(0) <- (v.(0) + 1) land 255
     | 3 -> let p = if size > 8200 then 8197 else size - 1 in v.(p) <- (v.(p) + 1) land 255
     | _ -> ())
  end;
  List.map n_of_int (Array.to_list v)
let bytes_of_string (s : string) : n list = List.init (String.length s) (fun i -> n_of_int (Char.code s.[i]))
let parse_pstate (t : toks) : pstate =
  match next t with
  | "A" -> Absent
  | "F" -> let size = num t in let variant = num t in let m = num t in PFile (fs_content size variant, n_of_int m)
  | "L" -> let size = num t in let variant = num t in let m = num t in PFile (fs_content size variant, n_of_int m)   (* a symbolic link to a file: the file *)
  | "D" -> let m = num t in let k = num t in let names = List.init k (fun _ -> bytes_of_string (next t)) in PDir (names, n_of_int m)
  | x -> failwith ("bad state " ^ x)
let rec list_eq a b = match a, b with [] , [] -> true | x :: xs, y :: ys -> int_of_n x = int_of_n y && list_eq xs ys | _ -> false
let run_fs_case (idx : int) (toks : string list) =
  Printf.printf "C %d\n" idx;
  let t = { l = toks } in
  let s1 = parse_pstate t in
  if next t <> "|" then failwith "expected |";
  let s2 = parse_pstate t in
  let bb x = if x then "1" else "0" in
  let sha (b : n list) = b in
  let now = n_of_int 999999 in
  let rew s r = match s with PFile (c, _) -> bb (list_eq (reader_rest r) c) | _ -> "na" in
  let writer tag stamp_w stamp_p eq =
    match open_write s1 now with
    | None -> Printf.printf "w %s err\n" tag
    | Some f0 ->
      let w = fs_content 9000 0 in
      let f1 = write_bytes f0 w now in
      Printf.printf "w %s eq=%s content=%s\n" tag (bb (eq (stamp_w f1) (stamp_p f1))) (bb (match f1 with PFile (c, _) -> list_eq c w | _ -> false));
      (* a second, shorter write of the same path: opening for writing truncates again *)
      (match open_write f1 now with
       | None -> Printf.printf "w2 %s err\n" tag
       | Some g0 ->
         let w2 = fs_content 7 1 in
         let g1 = write_bytes g0 w2 now in
         Printf.printf "w2 %s content=%s\n" tag (bb (match g1 with PFile (c, _) -> list_eq c w2 | _ -> false)));
      (* the path is removed while the writer is still open: both routes see the absence *)
      (match open_write f1 now with
       | None -> Printf.printf "w3 %s err\n" tag
       | Some _ -> Printf.printf "w3 %s eq=%s\n" tag (bb (eq (stamp_w Absent) (stamp_p Absent)))) in
  (* Exists *)
  let r0 = open_read s1 in
  Printf.printf "r E eq=%s rew=%s\n" (bb (ex_stamp s1 = ex_stamp_reader r0)) (rew s1 r0);
  Printf.printf "u E %s\n" (bb (ex_check s1 (ex_stamp s1)));
  Printf.printf "k E %s\n" (bb (ex_check s2 (ex_stamp s1)));
  writer "E" ex_stamp_writer ex_stamp (fun a b -> a = b);
  (* Modified *)
  Printf.printf "r M eq=%s rew=%s\n" (bb (optN_eqb (mo_stamp s1) (mo_stamp_reader r0))) (rew s1 r0);
  Printf.printf "u M %s\n" (bb (mo_check s1 (mo_stamp s1)));
  Printf.printf "k M %s\n" (bb (mo_check s2 (mo_stamp s1)));
  writer "M" mo_stamp_writer mo_stamp optN_eqb;
  (* Hash *)
  let (hr, r1) = ha_stamp_reader sha s1 r0 in
  Printf.printf "r H eq=%s rew=%s\n" (bb (optH_eqb list_eq (ha_stamp sha s1) hr)) (rew s1 r1);
  Printf.printf "u H %s\n" (bb (ha_check sha list_eq s1 (ha_stamp sha s1)));
  Printf.printf "k H %s\n" (bb (ha_check sha list_eq s2 (ha_stamp sha s1)));
  writer "H" (ha_stamp_writer sha) (ha_stamp sha) (optH_eqb list_eq)

let () =
  match Array.to_list Sys.argv with
  | _ :: "checkers" :: _ -> run_checkers ()
  | _ :: "fs" :: file :: _ -> iter_lines file (fun i l -> run_fs_case i (split_ws l))
  | _ :: "keys" :: file :: _ -> let fuel = nat_of_int 200 in iter_lines file (fun i l -> run_keys_case i (split_ws l) fuel)
  | _ :: "map" :: file :: _ -> iter_lines file (fun i l -> run_map_case i (split_ws l))
  | _ :: "tracker" :: file :: _ ->
    iter_lines file (fun i l -> run_tracker_case i (split_ws l))
  | _ :: "pie" :: file :: rest ->
    let fuel = nat_of_int 3000 in
    let with_dump = not (List.mem "--nodump" rest) in
    iter_lines file (fun i l -> run_pie_case i (split_ws l) fuel with_dump)
  | _ :: "pieraw" :: file :: _ -> let fuel = nat_of_int 3000 in iter_lines file (fun _ l -> run_pie_raw (split_ws l) fuel)
  | _ :: "graphraw" :: file :: _ -> iter_lines file (fun _ l -> run_graph_raw (split_ws l))
  | _ :: "graph" :: file :: rest ->
    let queries = not (List.mem "--noq" rest) in
    iter_lines file (fun i l -> run_graph_case i (split_ws l) queries)
  | _ -> prerr_endline "usage: driver graph <cases> [--noq]"; exit 2

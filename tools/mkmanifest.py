#!/usr/bin/env python3
import json, os
ROOT = os.path.dirname(os.path.dirname(os.path.abspath(__file__)))
TECH = "machine-checked proof (Rocq/Coq 8.16) about a hand-written Gallina model + model/implementation correspondence run (extracted OCaml model vs real Rust code) + implementation-level oracle for replays"
def chk(pid, text, note):
    return {"property_id": pid, "quick_cmd": "./check %s --tier quick" % pid, "thorough_cmd": "./check %s --tier thorough" % pid,
            "evidence_file": "evidence/%s.json" % pid, "replay_cmd_template": "./check %s --replay {path}" % pid,
            "engine": "rocq-model+correspondence",
            "level_claimed": {"category": "proof", "text": text, "design_ref": "DESIGN.md section 6 (%s) and section 11 (status)" % pid},
            "level_note": note, "technique": TECH}
TB = "Trusted: Coq kernel; extraction (ExtrOcamlBasic only); OCaml driver; Rust harness + DSL interpreter (two copies cross-checked by every run); python generators/oracles; the read-only store dump hook. "
CHECKS = json.load(open(os.path.join(ROOT, 'tools', 'checks.json')))
claimed = [c['id'] for c in CHECKS]
allp = ['C%02d' % i for i in range(1, 21)]
m = {
 "version": 1,
 "setup_cmd": "./check --setup",
 "hooks": {"guard": "gohla_pie_verif", "enable": "cargo feature gohla_pie_verif on crate pie (harness/Cargo.toml feature 'hooks')",
           "baseline_off_cmd": "cd /repo && cargo test --workspace --no-fail-fast --offline",
           "source_commits": ["288499e"], "add_only": True},
 "engines": [{"name": "rocq-model+correspondence", "path": "check", "serves_properties": claimed,
              "kind_free_text": "hand-written Gallina model (coq/theories/Model), lemmas (Proofs), property theorems (Props), extraction to OCaml (model_driver), differential run against the Rust implementation (harness), implementation-level oracles (gen/)"}],
 "checks": [chk(c['id'], c['text'], TB + c['note']) for c in CHECKS],
 "not_applicable": [{"property_id": p, "reason": "not yet claimed: the check for this property is still under construction (DESIGN.md section 11)"} for p in allp if p not in claimed],
 "notes": "Single entry point ./check <id> [--tier quick|thorough] [--replay file]; known findings in known_findings.json; seeded breaking changes in seeded/."
}
json.dump(m, open(os.path.join(ROOT, 'MANIFEST.json'), 'w'), indent=1)
print('claimed', claimed)
